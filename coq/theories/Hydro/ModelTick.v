(* E8 Hydro engine -- tick-scoped (bounded) collections, property C30.  Definitions only.

   [bnode] is the IR of operators applied inside a tick to batches of the top-level inputs;
   [brun] is the EMITTED semantics (the DFIR operators `emit_core` produces when the node's
   location is a tick: 'tick persistence lifetimes, join_multiset_half for joins with the
   bounded right side, scan + flat_map for generators, defer_tick_lazy for DeferTick);
   [bspec] is the SPECIFICATION: per tick, the plain list function on that tick's batch,
   DeferTick = shift by exactly one tick. *)
From HV Require Import Hydro.Model.

(* ------------------------------------------------------------------ tick IR *)

Inductive bnode : Type :=
| BBatch (i : nat)                                   (* batch(&tick, nondet) of top-level input i *)
| BWeaken (x : bnode)                                (* weaken_ordering::<NoOrder> *)
| BMap (f : val -> val) (x : bnode)
| BFilter (p : val -> bool) (x : bnode)
| BFlatMap (g : val -> list val) (x : bnode)
| BChain (x y : bnode)
| BSort (x : bnode)
| BEnumerate (x : bnode)
| BUnique (x : bnode)
| BJoin (x y : bnode)                                (* JoinHalf: right side bounded *)
| BCross (x y : bnode)
| BAntiJoin (x y : bnode)
| BCrossSingleton (x s : bnode)
| BFold (init : val) (acc : val -> val -> val) (x : bnode)
| BReduce (f : val -> val -> val) (x : bnode)
| BFoldKeyed (init : val) (acc : val -> val -> val) (x : bnode)
| BReduceKeyed (f : val -> val -> val) (x : bnode)
| BGen (init : val) (f : val -> val -> val * gen) (x : bnode)
| BDefer (x : bnode)
| BChainFirst (x y : bnode)                          (* Optional::or / unwrap_or: chain_first_n(1) *)
| BReduceKeyedWm (f : val -> val -> val) (x w : bnode)    (* KeyedStream::reduce_watermark *)
| BDifference (x y : bnode)                          (* filter_not_in: difference::<'tick,'tick> *)
| BCrossNL (x y : bnode)                             (* cross_product_nested_loop: HydroNode::CrossProduct *)
| BConst (v : val)                                   (* tick.singleton: SingletonSource, every tick *)
| BFirstTick (v : val)                               (* optional_first_tick: SingletonSource, first tick only *)
| BWeakenR (x : bnode)                               (* weaken_retries::<AtLeastOnce>: Cast *)
| BAssume (o r : bool) (x : bnode).                  (* assume_ordering/retries(_trusted): ObserveNonDet, identity in production *)

(* operators of DFIR used only here *)
Definition sort_step (_ : unit) (xs : list val) : list val * unit := (vsort xs, tt).
Definition cross_single_step (_ : unit) (xs : list val * list val) : list val * unit :=
  (match snd xs with [] => [] | s :: _ => map (fun x => VP x s) (fst xs) end, tt).
Definition chain_step (_ : unit) (xy : list val * list val) : list val * unit :=
  (fst xy ++ snd xy, tt).
Definition anti_tick_step (s : list val) (pn : list val * list val) : list val * list val :=
  (anti (s ++ snd pn) (fst pn), s ++ snd pn).

(* persist::<'static> replays everything it has seen *)
Definition persist_step (s xs : list val) : list val * list val := (s ++ xs, s ++ xs).
Definition diff_tick_step (s : list val) (pn : list val * list val) : list val * list val :=
  (diff (s ++ snd pn) (fst pn), s ++ snd pn).

Definition chain_first_step (_ : unit) (xy : list val * list val) : list val * unit :=
  (firstn 1 (fst xy ++ snd xy), tt).

(* ReduceKeyedWatermark: the payloads (inl) are chained before the watermark (inr) into one
   fold::<'tick> whose closure is transcribed here; its accumulator is (HashMap, current watermark) *)
Definition wm_keep (w : val) (e : val * val) : bool := negb (vltb (fst e) w).   (* *k >= watermark *)
Definition wm_acc (f : val -> val -> val) (st : list (val * val) * option val) (it : val + val)
  : list (val * val) * option val :=
  match it with
  | inl kv =>
      match snd st with
      | Some c => if vltb (vfst kv) c then st else (kreduce_upd f (fst st) kv, snd st)
      | None => (kreduce_upd f (fst st) kv, snd st)
      end
  | inr w =>
      match snd st with
      | Some c => if vleb w c then st else (filter (wm_keep w) (fst st), Some w)
      | None => (filter (wm_keep w) (fst st), Some w)
      end
  end.
Definition wm_fold f (xs ws : list val) : list val :=
  kentries (fst (fold_left (wm_acc f) (map inl xs ++ map inr ws) ([], None))).
Definition wm_step f (_ : unit) (xw : list val * list val) : list val * unit :=
  (wm_fold f (fst xw) (snd xw), tt).
(* specification for an Optional watermark (at most one value); longer (ill-typed) watermark
   lists are left as the emitted behaviour *)
Definition wm_spec f (xs ws : list val) : list val :=
  match ws with
  | [] => kentries (kreduce_list f xs)
  | [w] => kentries (filter (wm_keep w) (kreduce_list f xs))
  | _ => wm_fold f xs ws
  end.

(* emitted semantics: one DFIR state machine per node, state reset at the end of every tick
   ('tick), except defer_tick_lazy whose buffer is what crosses the tick boundary *)
Fixpoint brun (n : bnode) (bs : list env) : list (list val) :=
  match n with
  | BBatch i => map (fun e => e i) bs
  | BWeaken x => brun x bs
  | BMap f x => map (map f) (brun x bs)
  | BFilter p x => map (filter p) (brun x bs)
  | BFlatMap g x => map (flat_map g) (brun x bs)
  | BChain x y => op_run LTick tt chain_step (combine (brun x bs) (brun y bs))
  | BSort x => op_run LTick tt sort_step (brun x bs)
  | BEnumerate x => op_run LTick 0%N (run_items enum_istep) (brun x bs)
  | BUnique x => op_run LTick [] (run_items uniq_istep) (brun x bs)
  | BJoin x y => op_run LTick ([], []) (pair_step jmatch LTick LTick) (combine (brun x bs) (brun y bs))
  | BCross x y => op_run LTick ([], []) (pair_step cmatch LTick LTick) (combine (brun x bs) (brun y bs))
  | BAntiJoin x y => op_run LTick [] anti_tick_step (combine (brun x bs) (brun y bs))
  | BCrossSingleton x s => op_run LTick tt cross_single_step (combine (brun x bs) (brun s bs))
  | BFold init acc x => op_run LTick init (fold_step acc) (brun x bs)
  | BReduce f x => op_run LTick None (reduce_step f) (brun x bs)
  | BFoldKeyed init acc x => op_run LTick [] (kfold_step init acc) (brun x bs)
  | BReduceKeyed f x => op_run LTick [] (kreduce_step f) (brun x bs)
  | BGen init f x => op_run LTick GInit (run_items (gen_istep init f)) (brun x bs)
  | BDefer x => op_run LStatic [] defer_step (brun x bs)
  | BChainFirst x y => op_run LTick tt chain_first_step (combine (brun x bs) (brun y bs))
  | BReduceKeyedWm f x w => op_run LTick tt (wm_step f) (combine (brun x bs) (brun w bs))
  | BDifference x y => op_run LTick [] diff_tick_step (combine (brun x bs) (brun y bs))
  | BCrossNL x y => op_run LTick ([], []) (pair_step cmatch LTick LTick) (combine (brun x bs) (brun y bs))
  (* source_iter([v]) -> persist::<'static>() *)
  | BConst v => op_run LStatic [] persist_step (first_tick [v] bs)
  | BFirstTick v => first_tick [v] bs
  | BWeakenR x | BAssume _ _ x => brun x bs
  end.

(* specification: the finite-batch list function of every operator *)
Definition shift (xss : list (list val)) : list (list val) :=
  match xss with [] => [] | _ => [] :: removelast xss end.

Fixpoint bspec (n : bnode) (bs : list env) : list (list val) :=
  match n with
  | BBatch i => map (fun e => e i) bs
  | BWeaken x => bspec x bs
  | BMap f x => map (map f) (bspec x bs)
  | BFilter p x => map (filter p) (bspec x bs)
  | BFlatMap g x => map (flat_map g) (bspec x bs)
  | BChain x y => map (fun p => fst p ++ snd p) (combine (bspec x bs) (bspec y bs))
  | BSort x => map vsort (bspec x bs)
  | BEnumerate x => map (enum_from 0) (bspec x bs)
  | BUnique x => map uniq (bspec x bs)
  | BJoin x y => map (fun p => join (fst p) (snd p)) (combine (bspec x bs) (bspec y bs))
  | BCross x y => map (fun p => cross (fst p) (snd p)) (combine (bspec x bs) (bspec y bs))
  | BAntiJoin x y => map (fun p => anti (snd p) (fst p)) (combine (bspec x bs) (bspec y bs))
  | BCrossSingleton x s =>
      map (fun p => match snd p with [] => [] | v :: _ => map (fun x => VP x v) (fst p) end)
          (combine (bspec x bs) (bspec s bs))
  | BFold init acc x => map (fun xs => [fold_left acc xs init]) (bspec x bs)
  | BReduce f x => map (fun xs => opt_list (reduce_list f xs)) (bspec x bs)
  | BFoldKeyed init acc x => map (fun xs => kentries (kfold_list init acc xs)) (bspec x bs)
  | BReduceKeyed f x => map (fun xs => kentries (kreduce_list f xs)) (bspec x bs)
  | BGen init f x => map (gen_list f init) (bspec x bs)
  | BDefer x => shift (bspec x bs)
  | BChainFirst x y => map (fun p => firstn 1 (fst p ++ snd p)) (combine (bspec x bs) (bspec y bs))
  | BReduceKeyedWm f x w => map (fun p => wm_spec f (fst p) (snd p)) (combine (bspec x bs) (bspec w bs))
  | BDifference x y => map (fun p => diff (snd p) (fst p)) (combine (bspec x bs) (bspec y bs))
  | BCrossNL x y => map (fun p => cross (fst p) (snd p)) (combine (bspec x bs) (bspec y bs))
  | BConst v => map (fun _ => [v]) bs
  | BFirstTick v => first_tick [v] bs
  | BWeakenR x | BAssume _ _ x => bspec x bs
  end.

(* the Ordering parameter as the Rust signatures compute it (since /repo 62bf4bf2be4 a join /
   cross product with a Bounded right side is ordered only if BOTH sides are:
   `B2::PreserveOrderIfBounded<<O as MinOrder<O2>>::Min>`) *)
Fixpoint bord (n : bnode) : bool :=
  match n with
  | BBatch _ => true
  | BWeaken _ => false
  | BMap _ x | BFilter _ x | BFlatMap _ x | BUnique x | BDefer x | BGen _ _ x | BWeakenR x => bord x
  | BAssume o _ _ => o
  | BChain x y | BJoin x y | BCross x y | BCrossNL x y => bord x && bord y
  | BSort _ | BEnumerate _ => true
  | BAntiJoin x _ | BCrossSingleton x _ | BDifference x _ => bord x
  | BFold _ _ _ | BReduce _ _ | BChainFirst _ _ | BConst _ | BFirstTick _ => true
  | BFoldKeyed _ _ _ | BReduceKeyed _ _ | BReduceKeyedWm _ _ _ => false
  end.
(* the typing before the fix: the LEFT ordering, whatever the right ordering is *)
Fixpoint bord_before_fix (n : bnode) : bool :=
  match n with
  | BJoin x _ | BCross x _ => bord_before_fix x
  | BBatch _ => true
  | BWeaken _ => false
  | BMap _ x | BFilter _ x | BFlatMap _ x | BUnique x | BDefer x | BGen _ _ x | BWeakenR x => bord_before_fix x
  | BAssume o _ _ => o
  | BChain x y | BCrossNL x y => bord_before_fix x && bord_before_fix y
  | BSort _ | BEnumerate _ => true
  | BAntiJoin x _ | BCrossSingleton x _ | BDifference x _ => bord_before_fix x
  | BFold _ _ _ | BReduce _ _ | BChainFirst _ _ | BConst _ | BFirstTick _ => true
  | BFoldKeyed _ _ _ | BReduceKeyed _ _ | BReduceKeyedWm _ _ _ => false
  end.

(* the Retries parameter (true = ExactlyOnce) *)
Fixpoint bretry (n : bnode) : bool :=
  match n with
  | BBatch _ | BConst _ | BFirstTick _ => true
  | BWeakenR _ => false
  | BAssume _ r _ => r
  | BWeaken x | BMap _ x | BFilter _ x | BFlatMap _ x | BUnique x | BDefer x | BGen _ _ x | BSort x
  | BEnumerate x | BFold _ _ x | BReduce _ x | BFoldKeyed _ _ x | BReduceKeyed _ x => bretry x
  | BChain x y | BJoin x y | BCross x y | BCrossNL x y | BChainFirst x y => bretry x && bretry y
  | BAntiJoin x _ | BCrossSingleton x _ | BDifference x _ | BReduceKeyedWm _ x _ => bretry x
  end.

Open Scope string_scope.
Fixpoint bemit (n : bnode) : list string :=
  match n with
  | BBatch _ => ["source_stream"]
  | BWeaken x => bemit x
  | BMap _ x => "map" :: bemit x
  | BFilter _ x => "filter" :: bemit x
  | BFlatMap _ x => "flat_map" :: bemit x
  | BChain x y => "chain" :: bemit x ++ bemit y
  | BSort x => "sort" :: bemit x
  | BEnumerate x => "enumerate<'tick>" :: bemit x
  | BUnique x => "unique<'tick>" :: bemit x
  | BJoin x y => "join_multiset_half<'tick,'tick>" :: bemit x ++ bemit y
  | BCross x y => "map" :: "map" :: "join_multiset_half<'tick,'tick>" :: "map" :: bemit x ++ bemit y
  | BAntiJoin x y => "anti_join<'tick,'tick>" :: bemit x ++ bemit y
  | BCrossSingleton x s => "cross_singleton" :: bemit x ++ bemit s
  | BFold _ _ x => "fold<'tick>" :: bemit x
  | BReduce _ x => "reduce<'tick>" :: bemit x
  | BFoldKeyed _ _ x => "fold_keyed<'tick>" :: bemit x
  | BReduceKeyed _ x => "reduce_keyed<'tick>" :: bemit x
  | BGen _ _ x => "scan<'tick>" :: "flat_map" :: bemit x
  | BDefer x => "defer_tick_lazy" :: bemit x
  | BChainFirst x y => "chain_first_n" :: bemit x ++ bemit y
  | BReduceKeyedWm _ x w => "chain" :: "map" :: "map" :: "fold<'tick>" :: "flat_map" :: bemit x ++ bemit w
  | BDifference x y => "difference<'tick,'tick>" :: bemit x ++ bemit y
  | BCrossNL x y => "cross_join_multiset<'tick,'tick>" :: bemit x ++ bemit y
  | BConst _ => ["source_iter"; "persist<'static>"]
  | BFirstTick _ => ["source_iter"]
  | BWeakenR x | BAssume _ _ x => bemit x
  end.
Close Scope string_scope.

(* a tick cycle: [body] may read, as input [carry], what the previous tick sent to
   `complete_next_tick` ([] in the first tick).  Run tick by tick. *)
Fixpoint loop_run (body : list val -> env -> list val) (prev : list val) (bs : list env)
  : list (list val) :=
  match bs with
  | [] => []
  | e :: r => let o := body prev e in o :: loop_run body o r
  end.

(* ------------------------------------------------------------------ case checking *)

Definition bexact (n : bnode) : bool := bord n.

(* C30 executable form: the implementation's per-tick outputs are the per-tick list functions *)
Definition C30_holds_b (n : bnode) (bs : list env) (impl : list (list val)) : bool :=
  ticks_agree (bexact n) impl (bspec n bs).

Definition chk30 (n : bnode) (ticks : list (list (list val))) (impl : list (list val)) : N :=
  let bs := map mkenv ticks in
  verdict (ticks_agree (bexact n) impl (brun n bs)) (C30_holds_b n bs impl).

(* C29 on a flow with NoOrder inputs: the ticks of the case give the actual arrival order (for the
   model run), [canon] the same batches with the unordered inputs in canonical order; a
   TotalOrder-typed output must not depend on which admissible arrival order was taken *)
Definition chk29_perm (n : bnode) (ticks canon : list (list (list val))) (impl : list (list val))
  : N :=
  verdict (ticks_agree (bexact n) impl (brun n (map mkenv ticks)))
          (ticks_agree (bexact n) impl (bspec n (map mkenv canon))).

Definition chk_bemit (n : bnode) (plumbing observed : list string) : N :=
  if toks_eqb (("for_each"%string :: bemit n) ++ plumbing) observed then 0%N else 1%N.

(* tick cycle corpus flow: model = specification = loop_run *)
Definition chk30_loop (body : list val -> env -> list val) (ticks : list (list (list val)))
  (impl : list (list val)) : N :=
  let bs := map mkenv ticks in
  let m := loop_run body [] bs in
  verdict (ticks_agree true impl m) (ticks_agree true impl m).

(* ------------------------------------------------------------------ generated vs hand-written terms
   [g] is the term translated on this run from the production builder's IR dump, [h] the
   hand-written corpus term: same model outputs on the case, same ordering, and the ordering the
   model computes is the ordering the builder recorded in the node metadata *)
Definition opt_bool_ok (expected : option bool) (b : bool) : bool :=
  match expected with None => true | Some e => Bool.eqb e b end.
Definition same_flow (g h : flow) (ticks : list (list (list val))) (expected : option bool) : N :=
  let bs := map mkenv ticks in
  if ticks_agree true (flow_run g bs) (flow_run h bs) && Bool.eqb (flow_exact g) (flow_exact h)
     && match g with FS n => opt_bool_ok expected (ord n) | FA _ => true end
  then 0%N else 1%N.
Definition same_bnode (g h : bnode) (ticks : list (list (list val))) (expected : option bool) : N :=
  let bs := map mkenv ticks in
  if ticks_agree true (brun g bs) (brun h bs) && Bool.eqb (bord g) (bord h)
     && opt_bool_ok expected (bord g)
  then 0%N else 1%N.

(* ------------------------------------------------------------------ NoOrder inputs as an oracle
   A stream cast to NoOrder may reach its consumer in any order: [bspec_o sigma] is [bspec] where
   every BWeaken node passes its batch through the arrival-order oracle [sigma] (a permutation). *)
Fixpoint bspec_o (sigma : list val -> list val) (n : bnode) (bs : list env) : list (list val) :=
  match n with
  | BBatch i => map (fun e => e i) bs
  | BWeaken x => map sigma (bspec_o sigma x bs)
  | BMap f x => map (map f) (bspec_o sigma x bs)
  | BFilter p x => map (filter p) (bspec_o sigma x bs)
  | BFlatMap g x => map (flat_map g) (bspec_o sigma x bs)
  | BChain x y => map (fun p => fst p ++ snd p) (combine (bspec_o sigma x bs) (bspec_o sigma y bs))
  | BSort x => map vsort (bspec_o sigma x bs)
  | BEnumerate x => map (enum_from 0) (bspec_o sigma x bs)
  | BUnique x => map uniq (bspec_o sigma x bs)
  | BJoin x y => map (fun p => join (fst p) (snd p)) (combine (bspec_o sigma x bs) (bspec_o sigma y bs))
  | BCross x y => map (fun p => cross (fst p) (snd p)) (combine (bspec_o sigma x bs) (bspec_o sigma y bs))
  | BAntiJoin x y => map (fun p => anti (snd p) (fst p)) (combine (bspec_o sigma x bs) (bspec_o sigma y bs))
  | BCrossSingleton x s =>
      map (fun p => match snd p with [] => [] | v :: _ => map (fun x => VP x v) (fst p) end)
          (combine (bspec_o sigma x bs) (bspec_o sigma s bs))
  | BFold init acc x => map (fun xs => [fold_left acc xs init]) (bspec_o sigma x bs)
  | BReduce f x => map (fun xs => opt_list (reduce_list f xs)) (bspec_o sigma x bs)
  | BFoldKeyed init acc x => map (fun xs => kentries (kfold_list init acc xs)) (bspec_o sigma x bs)
  | BReduceKeyed f x => map (fun xs => kentries (kreduce_list f xs)) (bspec_o sigma x bs)
  | BGen init f x => map (gen_list f init) (bspec_o sigma x bs)
  | BDefer x => shift (bspec_o sigma x bs)
  | BChainFirst x y =>
      map (fun p => firstn 1 (fst p ++ snd p)) (combine (bspec_o sigma x bs) (bspec_o sigma y bs))
  | BReduceKeyedWm f x w =>
      map (fun p => wm_spec f (fst p) (snd p)) (combine (bspec_o sigma x bs) (bspec_o sigma w bs))
  | BDifference x y => map (fun p => diff (snd p) (fst p)) (combine (bspec_o sigma x bs) (bspec_o sigma y bs))
  | BCrossNL x y => map (fun p => cross (fst p) (snd p)) (combine (bspec_o sigma x bs) (bspec_o sigma y bs))
  | BConst v => map (fun _ => [v]) bs
  | BFirstTick v => first_tick [v] bs
  | BWeakenR x | BAssume _ _ x => bspec_o sigma x bs
  end.

(* what the staged API demands of order-sensitive operators (IsOrdered bounds, commutativity
   obligations); sort() accepts any input order *)
Fixpoint bwf (n : bnode) : Prop :=
  match n with
  | BBatch _ | BConst _ | BFirstTick _ => True
  | BWeaken x | BMap _ x | BFilter _ x | BFlatMap _ x | BUnique x | BDefer x | BSort x | BWeakenR x => bwf x
  (* an assumption is admitted by the determinism theorem only if it does not strengthen the
     ordering (trusted strengthenings are the call sites of C32) *)
  | BAssume o _ x => (o = true -> bord x = true) /\ bwf x
  | BChain x y | BJoin x y | BCross x y | BAntiJoin x y | BDifference x y | BCrossNL x y => bwf x /\ bwf y
  | BEnumerate x | BGen _ _ x | BFoldKeyed _ _ x | BReduceKeyed _ x => bord x = true /\ bwf x
  | BCrossSingleton x s => bord s = true /\ bwf x /\ bwf s
  | BChainFirst x y | BReduceKeyedWm _ x y => bord x = true /\ bord y = true /\ bwf x /\ bwf y
  | BFold _ acc x => bwf x /\ (bord x = false -> fold_comm acc)
  | BReduce f x => bwf x /\ (bord x = false -> comm_assoc f)
  end.

(* emission table for flows with shared (Tee'd) nodes: the model term duplicates a shared subterm at
   every reference, the real graph contains it once (plus a structural tee): [extras] are the
   shared subterms at their second and later references *)
Definition chk_emit_dag (f : flow) (extras : list snode) (plumbing observed : list string) : N :=
  if toks_eqb (("for_each"%string :: flow_emit f) ++ plumbing) (observed ++ concat (map emit_s extras))
  then 0%N else 1%N.

(* across_ticks: a top-level fragment [f] fed with the batches; bit1 = in every tick t, what has
   been emitted so far (stream) / what is held (aggregate) is the denotation of ticks 0..t *)
Definition C30_across_b (f : flow) (bs : list env) (impl : list (list val)) : bool :=
  forallb (fun t =>
    match f with
    | FS n => equiv_b (ord n) (concat (firstn (S t) impl)) (den_s n (flat (firstn (S t) bs)))
    | FA a => equiv_b (aexact a) (nth t impl []) (den_a a (flat (firstn (S t) bs)))
    end) (seq 0 (List.length impl)).
Definition chk30_across (f : flow) (ticks : list (list (list val))) (impl : list (list val)) : N :=
  let bs := map mkenv ticks in
  verdict (ticks_agree (flow_exact f) impl (flow_run f bs)) (C30_across_b f bs impl).

(* ------------------------------------------------------------------ kind judgement vs builder metadata
   one entry per translated stream node: (subterm, (Bounded?, (TotalOrder?, ExactlyOnce?))) as
   recorded by the builder; the model's judgement must agree on every node *)
Definition chk_kinds_s (l : list (snode * (bool * (bool * bool)))) : N :=
  if forallb (fun e => let n := fst e in
                       Bool.eqb (kbound n) (fst (snd e)) && Bool.eqb (ord n) (fst (snd (snd e)))
                       && Bool.eqb (kretry n) (snd (snd (snd e)))) l
  then 0%N else 1%N.
(* inside a tick everything is Bounded; Ordering and Retries as judged by [bord] / [bretry] *)
Definition chk_kinds_b (l : list (bnode * (bool * (bool * bool)))) : N :=
  if forallb (fun e => let n := fst e in
                       Bool.eqb true (fst (snd e)) && Bool.eqb (bord n) (fst (snd (snd e)))
                       && Bool.eqb (bretry n) (snd (snd (snd e)))) l
  then 0%N else 1%N.

(* ------------------------------------------------------------------ network links (correspondence)
   The harness runs the sender location(s) and the receiver location as separate dataflows and
   moves the sender's messages to the receiver's network input itself. *)
Fixpoint rebatch (l : list val) (ks : list nat) : list (list val) :=
  match ks with [] => [] | k :: r => firstn k l :: rebatch (skipn k l) r end.
Definition port_env (xs : list val) : env := fun i => match i with O => xs | _ => [] end.

(* one-to-one ordered link: sender program [s], receiver program [r] reading the link as input 0;
   receiver tick i gets the next k_i messages.  bit0: what each sender tick sent and what each
   receiver tick emitted are the model's; bit1: the conclusion of C28_network_o2o_deterministic on
   the implementation (the receiver's whole output is the denotation of the delivered prefix) *)
Definition chk_net_o2o (s r : snode) (ticksA : list (list (list val))) (ks : list nat)
  (sentT implOut : list (list val)) : N :=
  let bsA := map mkenv ticksA in
  let sent := run_s s bsA in
  let bsB := map port_env (rebatch (concat sent) ks) in
  verdict (ticks_agree true sentT sent && ticks_agree (ord r) implOut (run_s r bsB))
          (equiv_b (ord r) (concat implOut)
             (den_s r (port_env (firstn (fold_right plus 0%nat ks) (den_s s (flat bsA)))))).

(* many-to-one: per-sender FIFO queues, the receiver tick takes the next message of each listed
   member, tagged with the member id *)
Fixpoint pop_at (i : nat) (qs : list (list val)) : option val * list (list val) :=
  match qs, i with
  | [], _ => (None, [])
  | q :: r, O => match q with [] => (None, qs) | x :: q' => (Some x, q' :: r) end
  | q :: r, S j => let (o, r') := pop_at j r in (o, q :: r')
  end.
Fixpoint deliver_tick (sched : list nat) (qs : list (list val)) : list val * list (list val) :=
  match sched with
  | [] => ([], qs)
  | m :: r => let (o, qs1) := pop_at m qs in
              let (l, qs2) := deliver_tick r qs1 in
              (match o with Some x => VP (VN (N.of_nat m)) x :: l | None => l end, qs2)
  end.
Fixpoint deliver_all (scheds : list (list nat)) (qs : list (list val)) : list (list val) :=
  match scheds with
  | [] => []
  | sc :: r => let (l, qs') := deliver_tick sc qs in l :: deliver_all r qs'
  end.
(* bit1 = C29 keyed statement: every member's value is the fold of that member's own delivered
   subsequence, whatever the cross-member interleaving and the tick partition *)
Definition chk_net_m2o (s : snode) (a : anode) (members : list (list val)) (scheds : list (list nat))
  (sentM implOut : list (list val)) : N :=
  let sent := map (fun xs => den_s s (port_env xs)) members in
  let bsB := map port_env (deliver_all scheds sent) in
  verdict (ticks_agree true sentM sent && ticks_agree (aexact a) implOut (run_a a bsB))
          (C29_holds_b (FA a) bsB implOut).
