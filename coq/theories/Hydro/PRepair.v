(* E8 Hydro engine -- C29, repaired typing: with the ordering of join / cross_product bounded by
   BOTH sides ([bord]), every tick program is deterministic up to its type: whatever order the
   NoOrder-cast streams arrive in (any two arrival oracles), outputs typed TotalOrder are equal
   sequences and the others equal multisets, tick by tick. *)
From Coq Require Import Arith PeanoNat.
From HV Require Import Hydro.Model Hydro.ModelTick Hydro.PBase Hydro.PTick Hydro.PSort.

Definition perm_oracle (sigma : list val -> list val) : Prop := forall l, Permutation (sigma l) l.

Lemma Forall2_map2 : forall (A B C D : Type) (R : A -> B -> Prop) (R' : C -> D -> Prop)
  (f : A -> C) (g : B -> D) l l',
  Forall2 R l l' -> (forall a b, R a b -> R' (f a) (g b)) -> Forall2 R' (map f l) (map g l').
Proof. intros A B C D R R' f g l l' H K. induction H; simpl; constructor; auto. Qed.

Lemma Forall2_combine : forall (A B : Type) (R1 : A -> A -> Prop) (R2 : B -> B -> Prop) a a' b b',
  Forall2 R1 a a' -> Forall2 R2 b b' ->
  Forall2 (fun p q => R1 (fst p) (fst q) /\ R2 (snd p) (snd q)) (combine a b) (combine a' b').
Proof.
  intros A B R1 R2 a a' b b' H. revert b b'. induction H; intros b b' K; simpl; [constructor|].
  destruct K; simpl; constructor; auto.
Qed.

Lemma Forall2_removelast : forall (A : Type) (R : A -> A -> Prop) l l',
  Forall2 R l l' -> Forall2 R (removelast l) (removelast l').
Proof.
  intros A R l l' H. induction H; simpl; [constructor|].
  destruct H0; [constructor|]. constructor; auto.
Qed.

Lemma Forall2_shift : forall (R : list val -> list val -> Prop) l l',
  R [] [] -> Forall2 R l l' -> Forall2 R (shift l) (shift l').
Proof.
  intros R l l' R0 H. unfold shift. destruct H; [constructor|].
  constructor; [exact R0|]. apply Forall2_removelast. constructor; assumption.
Qed.

Lemma memb_perm : forall x l l', Permutation l l' -> memb x l = memb x l'.
Proof.
  intros x l l' P. destruct (memb x l) eqn:E.
  - symmetry. apply memb_In. eapply Permutation_in; [exact P|]. apply memb_In. exact E.
  - symmetry. apply memb_false_In. intros i. apply memb_false_In in E. apply E.
    eapply Permutation_in; [symmetry; exact P | exact i].
Qed.

Lemma anti_perm_neg : forall neg neg' pos, Permutation neg neg' -> anti neg pos = anti neg' pos.
Proof.
  intros neg neg' pos P. unfold anti. apply filter_ext. intros p. rewrite (memb_perm _ _ _ P). reflexivity.
Qed.

Lemma equiv_and : forall o1 o2 a b, equiv (o1 && o2) a b -> o1 = true -> o2 = true -> a = b.
Proof. intros o1 o2 a b H -> ->. exact H. Qed.

Theorem bspec_oracle_independent : forall n, bwf n ->
  forall sigma sigma', perm_oracle sigma -> perm_oracle sigma' ->
  forall bs, Forall2 (equiv (bord n)) (bspec_o sigma n bs) (bspec_o sigma' n bs).
Proof.
  induction n; intros W sigma sigma' S S' bs; simpl in W |- *.
  - (* BBatch *) induction bs; simpl; constructor; auto. reflexivity.
  - (* BWeaken *) eapply Forall2_map2; [apply IHn; eauto|]. intros a b H. simpl.
    rewrite (S a), (S' b). eapply equiv_perm. exact H.
  - (* BMap *) eapply Forall2_map2; [apply IHn; eauto|]. intros a b H.
    apply equiv_congr; [apply Permutation_map | exact H].
  - (* BFilter *) eapply Forall2_map2; [apply IHn; eauto|]. intros a b H.
    apply equiv_congr; [apply filter_perm | exact H].
  - (* BFlatMap *) eapply Forall2_map2; [apply IHn; eauto|]. intros a b H.
    apply equiv_congr; [apply flat_map_perm | exact H].
  - (* BChain *) destruct W as [W1 W2].
    eapply Forall2_map2; [apply Forall2_combine; [apply IHn1 | apply IHn2]; eauto|].
    intros [a1 a2] [b1 b2] [H1 H2]. simpl in *.
    destruct (bord n1) eqn:O1; destruct (bord n2) eqn:O2; simpl in *; subst;
      try reflexivity; apply Permutation_app; auto; try reflexivity.
  - (* BSort *) eapply Forall2_map2; [apply IHn; eauto|]. intros a b H. simpl.
    apply vsort_perm. eapply equiv_perm. exact H.
  - (* BEnumerate *) destruct W as [O W]. eapply Forall2_map2; [apply IHn; eauto|]. intros a b H.
    rewrite O in H. simpl in H. subst. reflexivity.
  - (* BUnique *) eapply Forall2_map2; [apply IHn; eauto|]. intros a b H.
    apply equiv_congr; [apply uniq_perm | exact H].
  - (* BJoin *) destruct W as [W1 W2].
    eapply Forall2_map2; [apply Forall2_combine; [apply IHn1 | apply IHn2]; eauto|].
    intros [a1 a2] [b1 b2] [H1 H2]. simpl in *.
    destruct (bord n1) eqn:O1; destruct (bord n2) eqn:O2; simpl in *; subst;
      try reflexivity; apply pairs_perm; auto; try reflexivity.
  - (* BCross *) destruct W as [W1 W2].
    eapply Forall2_map2; [apply Forall2_combine; [apply IHn1 | apply IHn2]; eauto|].
    intros [a1 a2] [b1 b2] [H1 H2]. simpl in *.
    destruct (bord n1) eqn:O1; destruct (bord n2) eqn:O2; simpl in *; subst;
      try reflexivity; apply pairs_perm; auto; try reflexivity.
  - (* BAntiJoin *) destruct W as [W1 W2].
    eapply Forall2_map2; [apply Forall2_combine; [apply IHn1 | apply IHn2]; eauto|].
    intros [a1 a2] [b1 b2] [H1 H2]. simpl in *.
    rewrite (anti_perm_neg a2 b2 a1) by (eapply equiv_perm; exact H2).
    apply equiv_congr; [intros; apply filter_perm; assumption | exact H1].
  - (* BCrossSingleton *) destruct W as (O & W1 & W2).
    eapply Forall2_map2; [apply Forall2_combine; [apply IHn1 | apply IHn2]; eauto|].
    intros [a1 a2] [b1 b2] [H1 H2]. simpl in *. rewrite O in H2. simpl in H2. subst.
    destruct b2 as [|v r]; [apply equiv_refl|].
    apply equiv_congr; [apply Permutation_map | exact H1].
  - (* BFold *) destruct W as [W C]. eapply Forall2_map2; [apply IHn; eauto|]. intros a b H. simpl.
    destruct (bord n) eqn:O; simpl in H; [subst; reflexivity|].
    rewrite (fold_left_perm acc (C eq_refl) _ _ H). reflexivity.
  - (* BReduce *) destruct W as [W C]. eapply Forall2_map2; [apply IHn; eauto|]. intros a b H. simpl.
    destruct (bord n) eqn:O; simpl in H; [subst; reflexivity|].
    rewrite (reduce_perm f (C eq_refl) _ _ H). reflexivity.
  - (* BFoldKeyed *) destruct W as [O W]. eapply Forall2_map2; [apply IHn; eauto|]. intros a b H.
    rewrite O in H. simpl in H |- *. subst. reflexivity.
  - (* BReduceKeyed *) destruct W as [O W]. eapply Forall2_map2; [apply IHn; eauto|]. intros a b H.
    rewrite O in H. simpl in H |- *. subst. reflexivity.
  - (* BGen *) destruct W as [O W]. eapply Forall2_map2; [apply IHn; eauto|]. intros a b H.
    rewrite O in H |- *. simpl in H |- *. subst. reflexivity.
  - (* BDefer *) apply Forall2_shift; [apply equiv_refl | apply IHn; auto].
  - (* BChainFirst *) destruct W as (O1 & O2 & W1 & W2).
    eapply Forall2_map2; [apply Forall2_combine; [apply IHn1 | apply IHn2]; eauto|].
    intros [a1 a2] [b1 b2] [H1 H2]. simpl in *. rewrite O1 in H1. rewrite O2 in H2. simpl in *.
    subst. reflexivity.
  - (* BReduceKeyedWm *) destruct W as (O1 & O2 & W1 & W2).
    eapply Forall2_map2; [apply Forall2_combine; [apply IHn1 | apply IHn2]; eauto|].
    intros [a1 a2] [b1 b2] [H1 H2]. simpl in *. rewrite O1 in H1. rewrite O2 in H2. simpl in *.
    subst. reflexivity.
  - (* BDifference *) destruct W as [W1 W2].
    eapply Forall2_map2; [apply Forall2_combine; [apply IHn1 | apply IHn2]; eauto|].
    intros [a1 a2] [b1 b2] [H1 H2]. simpl in *.
    assert (E : diff a2 a1 = diff b2 a1).
    { unfold diff. apply filter_ext. intros p. rewrite (memb_perm p a2 b2); [reflexivity|].
      eapply equiv_perm. exact H2. }
    rewrite E. apply equiv_congr; [intros; apply filter_perm; assumption | exact H1].
  - (* BCrossNL *) destruct W as [W1 W2].
    eapply Forall2_map2; [apply Forall2_combine; [apply IHn1 | apply IHn2]; eauto|].
    intros [a1 a2] [b1 b2] [H1 H2]. simpl in *.
    destruct (bord n1) eqn:O1; destruct (bord n2) eqn:O2; simpl in *; subst;
      try reflexivity; apply pairs_perm; auto; try reflexivity.
  - (* BConst *) induction bs; simpl; constructor; auto. reflexivity.
  - (* BFirstTick *) destruct bs as [|e r]; simpl; constructor; [reflexivity|].
    induction r; simpl; constructor; auto. reflexivity.
  - (* BWeakenR *) apply IHn; auto.
  - (* BAssume *) destruct W as [Ho W]. pose proof (IHn W sigma sigma' S S' bs) as H.
    destruct o; [rewrite (Ho eq_refl) in H; exact H|].
    clear - H. induction H; constructor; auto. eapply equiv_perm. eassumption.
Qed.

(* the arrival oracle that changes nothing gives back the specification *)
Lemma bspec_o_id : forall n bs, bspec_o (fun l => l) n bs = bspec n bs.
Proof.
  induction n; intros bs; simpl; rewrite ?IHn, ?IHn1, ?IHn2; try reflexivity.
  apply map_id.
Qed.
