(* GraphAlg engine: SubgraphMerge, part 2.
   (1) group-order lemma: quotient edges go forward in the group start indices;
   (2) total correctness of the window-pruned cycle check of try_merge:
       it never panics / runs out of fuel, and it answers "found" exactly when merging
       would put a third group on a cycle through the merged group. *)
From Coq Require Import List NArith Bool Arith Lia ZifyBool ZifyN Permutation Relations.
From HV Require Import GraphAlg.Model GraphAlg.PUf GraphAlg.PTopo GraphAlg.PSm.
Import ListNotations.

(* ------------------------------------------------------------------ lists by position *)

Lemma nth_error_skipn' {A} : forall i (o : list A) k, nth_error (skipn i o) k = nth_error o (i + k).
Proof.
  induction i as [|i IH]; intros o k; [reflexivity|].
  destruct o; cbn; [destruct k; reflexivity|apply IH].
Qed.

Lemma In_firstn_nth {A} (x : A) : forall l L,
  In x (firstn l L) <-> exists k, k < l /\ nth_error L k = Some x.
Proof.
  induction l as [|l IH]; intro L; cbn.
  - split; [intros []|intros (k & H & _); lia].
  - destruct L as [|a L]; cbn.
    + split; [intros []|intros (k & _ & H); destruct k; discriminate].
    + rewrite IH. split.
      * intros [->|(k & Hk & Hn)]; [exists 0; split; [lia|reflexivity]|exists (S k); split; [lia|exact Hn]].
      * intros (k & Hk & Hn). destruct k as [|k]; [left; cbn in Hn; congruence|].
        right. exists k. split; [lia|exact Hn].
Qed.

Lemma In_slice_nth {A} (o : list A) i l x :
  In x (slice o i l) <-> exists j, i <= j /\ j < i + l /\ nth_error o j = Some x.
Proof.
  unfold slice. rewrite In_firstn_nth. split.
  - intros (k & Hk & Hn). rewrite nth_error_skipn' in Hn. exists (i + k). repeat split; [lia|lia|exact Hn].
  - intros (j & H1 & H2 & Hn). exists (j - i). split; [lia|]. rewrite nth_error_skipn'.
    replace (i + (j - i)) with j by lia. exact Hn.
Qed.

Lemma tsorted_nth np o j x p :
  tsorted np o -> nth_error o j = Some x -> In p (np x) ->
  exists j', j' < j /\ nth_error o j' = Some p.
Proof.
  intros T Hj Hp. apply nth_error_split in Hj. destruct Hj as (l1 & l2 & -> & <-).
  specialize (T l1 x l2 eq_refl p Hp). apply In_nth_error in T. destruct T as (j' & Hj').
  assert (j' < length l1) by (apply nth_error_Some; congruence).
  exists j'. split; [assumption|]. rewrite nth_error_app1 by assumption. exact Hj'.
Qed.

(* ------------------------------------------------------------------ facts from the invariant *)

Definition gi (s : sm) (r : N) : nat := match alookup r (sm_idx s) with Some i => i | None => 0 end.

Section Facts.
  Variables (ks : list N) (np : N -> list N) (en : list (N * N)) (s : sm) (f : N -> N).
  Hypothesis I : SMInv ks np en s f.

  Lemma order_in x : In x (sm_order s) <-> In x ks.
  Proof.
    pose proof (inv_perm _ _ _ _ _ I) as P. split; intro H.
    - eapply Permutation_in; eassumption.
    - eapply Permutation_in; [apply Permutation_sym; exact P|exact H].
  Qed.

  Lemma f_idem x : f (f x) = f x.
  Proof. eapply UFInv_idem. exact (inv_uf _ _ _ _ _ I). Qed.

  Lemma nth_inj i j x : nth_error (sm_order s) i = Some x -> nth_error (sm_order s) j = Some x -> i = j.
  Proof.
    intros Hi Hj. pose proof (inv_nodup _ _ _ _ _ I) as ND. rewrite NoDup_nth_error in ND.
    apply ND; [apply nth_error_Some; congruence|congruence].
  Qed.

  (* a representative's group data *)
  Lemma rep_group r : In r ks -> f r = r ->
    exists i l, alookup r (sm_idx s) = Some i /\ alookup r (sm_len s) = Some l /\ 1 <= l /\
                i + l <= length (sm_order s) /\ nth_error (sm_order s) i = Some r /\
                forall x, In x (slice (sm_order s) i l) <-> (In x ks /\ f x = r).
  Proof.
    intros Hr Fr. pose proof (inv_group_total _ _ _ _ _ I r Hr Fr) as T.
    destruct (alookup r (sm_idx s)) as [i|] eqn:E; [|congruence].
    destruct (inv_group _ _ _ _ _ I r i E) as (_ & _ & l & H). exists i, l. tauto.
  Qed.

  Lemma pred_in_keys x p : In x ks -> In p (np x) -> In p ks.
  Proof.
    intros Hx Hp. apply order_in. apply order_in in Hx.
    eapply tsorted_closed; [exact (inv_topo _ _ _ _ _ I)|exact Hx|exact Hp].
  Qed.

  (* distinct groups occupy disjoint ranges *)
  Lemma ranges_disjoint a b ia la ib lb :
    alookup a (sm_idx s) = Some ia -> alookup a (sm_len s) = Some la ->
    alookup b (sm_idx s) = Some ib -> alookup b (sm_len s) = Some lb ->
    a <> b -> ia + la <= ib \/ ib + lb <= ia.
  Proof.
    intros Ha La Hb Lb Nab.
    destruct (inv_group _ _ _ _ _ I a ia Ha) as (_ & _ & la' & La' & Pa & Ra & _ & Ma).
    destruct (inv_group _ _ _ _ _ I b ib Hb) as (_ & _ & lb' & Lb' & Pb & Rb & _ & Mb).
    assert (la' = la) by congruence. assert (lb' = lb) by congruence. subst la' lb'.
    destruct (le_lt_dec (ia + la) ib) as [|H1]; [left; assumption|].
    destruct (le_lt_dec (ib + lb) ia) as [|H2]; [right; assumption|]. exfalso.
    set (j := Nat.max ia ib).
    assert (Hj : j < length (sm_order s)) by (unfold j; lia).
    destruct (nth_error (sm_order s) j) as [x|] eqn:Ex; [|apply nth_error_None in Ex; lia].
    assert (Xa : In x (slice (sm_order s) ia la)) by (apply In_slice_nth; exists j; unfold j; repeat split; try lia; exact Ex).
    assert (Xb : In x (slice (sm_order s) ib lb)) by (apply In_slice_nth; exists j; unfold j; repeat split; try lia; exact Ex).
    apply Ma in Xa. apply Mb in Xb. destruct Xa as (_ & <-). destruct Xb as (_ & Fb). exact (Nab Fb).
  Qed.

  (* (1) GROUP-ORDER LEMMA: a quotient edge a -> b puts the whole range of a before the range of b *)
  Lemma qedge_ranges a b : qedge f np ks a b ->
    exists ia la ib lb,
      alookup a (sm_idx s) = Some ia /\ alookup a (sm_len s) = Some la /\
      alookup b (sm_idx s) = Some ib /\ alookup b (sm_len s) = Some lb /\
      1 <= la /\ 1 <= lb /\ ia + la <= ib.
  Proof.
    intros (Nab & x & p & Hx & Fx & Hp & Fp).
    assert (Hpk : In p ks) by (eapply pred_in_keys; eassumption).
    assert (Hak : In a ks) by (rewrite <- Fp; apply (inv_f_keys _ _ _ _ _ I); exact Hpk).
    assert (Hbk : In b ks) by (rewrite <- Fx; apply (inv_f_keys _ _ _ _ _ I); exact Hx).
    assert (Fa : f a = a) by (rewrite <- Fp; apply f_idem).
    assert (Fb : f b = b) by (rewrite <- Fx; apply f_idem).
    destruct (rep_group a Hak Fa) as (ia & la & Ia & La & Pa & Ra & _ & Ma).
    destruct (rep_group b Hbk Fb) as (ib & lb & Ib & Lb & Pb & Rb & _ & Mb).
    exists ia, la, ib, lb. repeat (split; [assumption|]).
    assert (Xp : In p (slice (sm_order s) ia la)) by (apply Ma; auto).
    assert (Xx : In x (slice (sm_order s) ib lb)) by (apply Mb; auto).
    apply In_slice_nth in Xp. destruct Xp as (jp & P1 & P2 & P3).
    apply In_slice_nth in Xx. destruct Xx as (jx & X1 & X2 & X3).
    destruct (tsorted_nth np _ jx x p (inv_topo _ _ _ _ _ I) X3 Hp) as (j' & Hlt & Hj').
    assert (j' = jp) by (eapply nth_inj; eassumption). subst j'.
    destruct (ranges_disjoint a b ia la ib lb Ia La Ib Lb Nab); lia.
  Qed.

  Lemma qedge_gi a b : qedge f np ks a b -> gi s a < gi s b.
  Proof.
    intro E. destruct (qedge_ranges a b E) as (ia & la & ib & lb & Ia & _ & Ib & _ & ? & ? & ?).
    unfold gi. rewrite Ia, Ib. lia.
  Qed.

  Lemma qpath_gi a b : clos_trans N (qedge f np ks) a b -> gi s a < gi s b.
  Proof.
    induction 1 as [a b E|a b c _ IH1 _ IH2]; [apply qedge_gi; exact E|lia].
  Qed.

  Lemma qedge_reps a b : qedge f np ks a b -> (f a = a /\ In a ks) /\ (f b = b /\ In b ks).
  Proof.
    intros (Nab & x & p & Hx & Fx & Hp & Fp).
    assert (Hpk : In p ks) by (eapply pred_in_keys; eassumption).
    split; split.
    - rewrite <- Fp. apply f_idem.
    - rewrite <- Fp. apply (inv_f_keys _ _ _ _ _ I). exact Hpk.
    - rewrite <- Fx. apply f_idem.
    - rewrite <- Fx. apply (inv_f_keys _ _ _ _ _ I). exact Hx.
  Qed.

  (* a stored predecessor's class is a representative inside the keys with a group index *)
  Lemma stored_pred_rep r ps q : alookup r (sm_preds s) = Some ps -> In q ps ->
    f (f q) = f q /\ In (f q) ks /\ alookup (f q) (sm_idx s) <> None /\ qedge f np ks (f q) r.
  Proof.
    intros Hr Hq.
    destruct (inv_preds_sound _ _ _ _ _ I r ps q Hr Hq) as (Fr & Kr & x & p & Hx & Fx & Hp & Fp).
    assert (Hpk : In p ks) by (eapply pred_in_keys; eassumption).
    assert (Kq : In (f q) ks) by (rewrite <- Fp; apply (inv_f_keys _ _ _ _ _ I); exact Hpk).
    split; [apply f_idem|]. split; [exact Kq|]. split.
    - apply (inv_group_total _ _ _ _ _ I); [exact Kq|apply f_idem].
    - split; [exact (inv_preds_noself _ _ _ _ _ I r ps q Hr Hq)|]. exists x, p. rewrite Fp. auto.
  Qed.
End Facts.

(* ------------------------------------------------------------------ (2) the cycle check *)

Section CycComplete.
  Variables (ks : list N) (np : N -> list N) (en : list (N * N)) (s : sm) (f : N -> N).
  Hypothesis I : SMInv ks np en s f.
  Variables (u v : N) (lo hi : nat).
  Hypothesis Huv : u <> v.
  Hypothesis Fu : f u = u.
  Hypothesis Fv : f v = v.
  Hypothesis Ku : In u ks.
  Hypothesis Kv : In v ks.

  Definition K : list N := map fst (sm_idx s).
  Definition unvis (visited : list N) (k : N) : bool := negb (memN k visited).
  Definition measure (stack visited : list N) : nat :=
    length (filter (unvis visited) K) + length stack.

  Definition repk (y : N) : Prop := f y = y /\ In y ks /\ y <> u.

  (* the closure condition for one stored predecessor q of a processed node x *)
  Definition closed_pred (visited : list N) (x q : N) : Prop :=
    (f q = u -> x = v) /\
    (f q <> u -> forall i, alookup (f q) (sm_idx s) = Some i -> in_window lo hi i = true -> In (f q) visited).

  Definition closed_node (visited : list N) (x : N) : Prop :=
    forall ps q, alookup x (sm_preds s) = Some ps -> In q ps -> closed_pred visited x q.

  Lemma closed_pred_mono vi vi' x q : incl vi vi' -> closed_pred vi x q -> closed_pred vi' x q.
  Proof. intros Hi (A & B). split; [exact A|]. intros Hn i Hi' Hw. apply Hi. eapply B; eassumption. Qed.

  Lemma alookup_in_K k i : alookup k (sm_idx s) = Some i -> In k K.
  Proof. intro H. apply alookup_in in H. unfold K. apply (in_map fst) in H. exact H. Qed.

  Lemma measure_push y visited :
    In y K -> ~ In y visited ->
    length (filter (unvis (y :: visited)) K) < length (filter (unvis visited) K).
  Proof.
    intros Hk Hn. apply (filter_length_lt _ _ K y).
    - intros x _. unfold unvis. cbn. destruct (N.eqb x y); [discriminate|auto].
    - exact Hk.
    - unfold unvis. destruct (memN y visited) eqn:E; [apply memN_In in E; contradiction|reflexivity].
    - unfold unvis. cbn. rewrite N.eqb_refl. reflexivity.
  Qed.

  (* one node's predecessor loop *)
  Lemma cyc_preds_total : forall ps x ps0 stack visited uf,
    alookup x (sm_preds s) = Some ps0 -> incl ps ps0 -> UFInv uf f ->
    (forall y, In y visited -> repk y) -> In x visited ->
    match cyc_preds s u v lo hi ps x stack visited uf with
    | CsCont st vi uf' =>
        UFInv uf' f /\ incl visited vi /\ (forall y, In y vi -> repk y) /\
        (forall y, In y st -> In y stack \/ (In y vi /\ ~ In y visited)) /\
        (forall y, In y vi -> In y visited \/ In y st) /\ incl stack st /\
        (forall q, In q ps -> closed_pred vi x q) /\
        measure st vi <= measure stack visited
    | CsFound uf' => UFInv uf' f /\ x <> v
    | CsPanic => False
    end.
  Proof.
    induction ps as [|p ps IH]; intros x ps0 stack visited uf Hx Hin HU Hrep Hxv; cbn.
    - split; [exact HU|]. split; [apply incl_refl|]. split; [exact Hrep|]. split; [auto|].
      split; [auto|]. split; [apply incl_refl|]. split; [intros q []|lia].
    - pose proof (uf_find_correct uf f p HU) as (HU' & Er).
      destruct (uf_find uf p) as [uf' rp]. cbn in HU', Er. subst rp.
      assert (Hp : In p ps0) by (apply Hin; left; reflexivity).
      assert (Hin' : incl ps ps0) by (intros q Hq; apply Hin; right; exact Hq).
      destruct (stored_pred_rep ks np en s f I x ps0 p Hx Hp) as (Fp & Kp & Ip & Ep).
      destruct (N.eqb (f p) u) eqn:Eu.
      + apply N.eqb_eq in Eu. destruct (N.eqb x v) eqn:Ev.
        * apply N.eqb_eq in Ev.
          specialize (IH x ps0 stack visited uf' Hx Hin' HU' Hrep Hxv).
          destruct (cyc_preds s u v lo hi ps x stack visited uf') as [st vi uf2|uf2|]; [|exact IH|exact IH].
          destruct IH as (A & B & C & D & E & F & G & H). repeat (split; [assumption|]). split; [|exact H].
          intros q [<-|Hq]; [|auto]. split; [intros _; exact Ev|congruence].
        * apply N.eqb_neq in Ev. split; assumption.
      + apply N.eqb_neq in Eu.
        destruct (alookup (f p) (sm_idx s)) as [irp|] eqn:Lp; [|congruence].
        destruct (in_window lo hi irp && negb (memN (f p) visited)) eqn:Ew.
        * apply andb_true_iff in Ew. destruct Ew as (Ew & Em). apply negb_true_iff in Em.
          assert (Nv : ~ In (f p) visited) by (intro Hm; apply memN_In in Hm; congruence).
          assert (Hrep' : forall y, In y (f p :: visited) -> repk y).
          { intros y [<-|Hy]; [|auto]. split; [exact Fp|]. split; [exact Kp|exact Eu]. }
          specialize (IH x ps0 (f p :: stack) (f p :: visited) uf' Hx Hin' HU' Hrep' (or_intror Hxv)).
          destruct (cyc_preds s u v lo hi ps x (f p :: stack) (f p :: visited) uf') as [st vi uf2|uf2|];
            [|exact IH|exact IH].
          destruct IH as (A & B & C & D & E & F & G & H).
          split; [exact A|]. split; [intros y Hy; apply B; right; exact Hy|]. split; [exact C|].
          split.
          { intros y Hy. destruct (D y Hy) as [[<-|Hs]|(Hv1 & Hv2)].
            - right. split; [apply B; left; reflexivity|exact Nv].
            - left. exact Hs.
            - right. split; [exact Hv1|]. intro Hc. apply Hv2. right. exact Hc. }
          split.
          { intros y Hy. destruct (E y Hy) as [[<-|Hv1]|Hs]; [right; apply F; left; reflexivity|left; exact Hv1|right; exact Hs]. }
          split; [intros y Hy; apply F; right; exact Hy|]. split.
          { intros q [<-|Hq]; [|auto]. split; [congruence|]. intros _ i _ _. apply B. left. reflexivity. }
          unfold measure in *. cbn [length] in H.
          pose proof (measure_push (f p) visited (alookup_in_K _ _ Lp) Nv). lia.
        * specialize (IH x ps0 stack visited uf' Hx Hin' HU' Hrep Hxv).
          destruct (cyc_preds s u v lo hi ps x stack visited uf') as [st vi uf2|uf2|]; [|exact IH|exact IH].
          destruct IH as (A & B & C & D & E & F & G & H). repeat (split; [assumption|]). split; [|exact H].
          intros q [<-|Hq]; [|auto]. split; [congruence|]. intros _ i Hi Hw.
          assert (i = irp) by congruence. subst i. rewrite Hw in Ew. cbn in Ew.
          apply negb_false_iff in Ew. apply memN_In in Ew. apply B. exact Ew.
  Qed.

  (* loop invariant *)
  Definition LInv (stack visited : list N) : Prop :=
    (forall y, In y visited -> repk y) /\ incl stack visited /\ In v visited /\
    (forall x, In x visited -> ~ In x stack -> closed_node visited x).

  Lemma cyc_loop_total : forall fuel stack visited uf,
    LInv stack visited -> UFInv uf f -> measure stack visited < fuel ->
    exists found uf', cyc_loop s u v lo hi fuel stack visited uf = ROk (found, uf') /\ UFInv uf' f /\
      (found = false -> exists vi, (forall y, In y vi -> repk y) /\ In v vi /\
                                   forall x, In x vi -> closed_node vi x).
  Proof.
    induction fuel as [|fuel IH]; intros stack visited uf L HU Hm; [lia|].
    cbn. destruct stack as [|x stack'].
    - exists false, uf. split; [reflexivity|]. split; [exact HU|]. intros _.
      destruct L as (A & _ & D & E). exists visited. split; [exact A|]. split; [exact D|].
      intros x Hx. apply E; [exact Hx|intros []].
    - destruct L as (A & B & D & E).
      assert (Hxv : In x visited) by (apply B; left; reflexivity).
      destruct (A x Hxv) as (Fx & Kx & Nxu).
      pose proof (inv_preds_total _ _ _ _ _ I x Kx Fx) as T. unfold aget.
      destruct (alookup x (sm_preds s)) as [ps|] eqn:Hx; [|congruence]. cbn [rbind].
      pose proof (cyc_preds_total ps x ps stack' visited uf Hx (incl_refl _) HU A Hxv) as S.
      destruct (cyc_preds s u v lo hi ps x stack' visited uf) as [st vi uf1|uf1|]; [| |destruct S].
      + destruct S as (HU1 & Bv & Cr & Dn & En & Fs & Gc & Hme).
        assert (L1 : LInv st vi).
        { split; [exact Cr|]. split.
          { intros y Hy. destruct (Dn y Hy) as [Hs|(Hv1 & _)]; [apply Bv, B; right; exact Hs|exact Hv1]. }
          split; [apply Bv; exact D|].
          intros y Hy Hns. destruct (En y Hy) as [Hyv|Hys]; [|contradiction].
          destruct (N.eq_dec y x) as [->|Nyx].
          - intros ps' q Hps Hq. assert (ps' = ps) by congruence. subst ps'. apply Gc. exact Hq.
          - assert (Hns' : ~ In y (x :: stack')) by (intros [->|Hc]; [congruence|apply Hns, Fs; exact Hc]).
            intros ps' q Hps Hq. eapply closed_pred_mono; [exact Bv|]. eapply E; eassumption. }
        apply (IH st vi uf1 L1 HU1). unfold measure in *. cbn [length] in Hm. lia.
      + destruct S as (HU1 & Nxv). exists true, uf1. split; [reflexivity|]. split; [exact HU1|discriminate].
  Qed.

  (* the window: lo is u's start, hi lies beyond v's start, u's group precedes v's *)
  Variable iv : nat.
  Hypothesis Hlo : alookup u (sm_idx s) = Some lo.
  Hypothesis Hiv : alookup v (sm_idx s) = Some iv.
  Hypothesis Hlt : lo < iv.
  Hypothesis Hhi : iv < hi.

  Lemma gi_u : gi s u = lo. Proof. unfold gi. rewrite Hlo. reflexivity. Qed.
  Lemma gi_v : gi s v = iv. Proof. unfold gi. rewrite Hiv. reflexivity. Qed.

  Section Closed.
    Variable vi : list N.
    Hypothesis Vrep : forall y, In y vi -> repk y.
    Hypothesis Vv : In v vi.
    Hypothesis Vcl : forall x, In x vi -> closed_node vi x.

    (* a stored predecessor realises every quotient edge *)
    Lemma edge_stored y z : qedge f np ks y z ->
      exists ps q, alookup z (sm_preds s) = Some ps /\ In q ps /\ f q = y.
    Proof.
      intros (Nyz & x & p & Hx & Fx & Hp & Fp).
      destruct (inv_preds_complete _ _ _ _ _ I x p Hx Hp) as [E|(ps & q & Hps & Hq & Fq)]; [congruence|].
      exists ps, q. rewrite Fx in Hps. split; [exact Hps|]. split; [exact Hq|congruence].
    Qed.

    Lemma step_back y z : In z vi -> qedge f np ks y z -> gi s u < gi s y -> gi s z <= gi s v -> In y vi.
    Proof.
      intros Hz E Hu Hv'. destruct (edge_stored y z E) as (ps & q & Hps & Hq & Fq).
      destruct (Vcl z Hz ps q Hps Hq) as (_ & B).
      destruct (qedge_reps ks np en s f I y z E) as ((Fy & Ky) & _).
      pose proof (inv_group_total _ _ _ _ _ I y Ky Fy) as T.
      destruct (alookup y (sm_idx s)) as [i|] eqn:Ey; [|congruence].
      pose proof (qedge_gi ks np en s f I y z E) as Hyz.
      rewrite Fq in B. apply (B ltac:(intros ->; lia) i Ey).
      unfold in_window. assert (gi s y = i) by (unfold gi; rewrite Ey; reflexivity).
      rewrite gi_u, gi_v in *. apply andb_true_iff. split; [apply Nat.leb_le|apply Nat.ltb_lt]; lia.
    Qed.

    Lemma reaches_v_visited_gen y t : clos_trans_1n N (qedge f np ks) y t -> t = v -> gi s u < gi s y -> In y vi.
    Proof.
      induction 1 as [y z E|y z w E P IH]; intros Et Hu.
      - subst z. eapply step_back; [exact Vv|exact E|exact Hu|lia].
      - subst w. pose proof (qedge_gi ks np en s f I y z E) as Hyz.
        eapply step_back; [apply IH; [reflexivity|lia]|exact E|exact Hu|].
        apply clos_t1n_trans in P. pose proof (qpath_gi ks np en s f I z v P). lia.
    Qed.

    Lemma reaches_v_visited y : clos_trans_1n N (qedge f np ks) y v -> gi s u < gi s y -> In y vi.
    Proof. intros H Hu. exact (reaches_v_visited_gen y v H eq_refl Hu). Qed.

    Lemma closed_no_cycle : ~ would_cycle f np ks u v.
    Proof.
      intros (w & Wu & Wv & [(P1 & P2)|(P1 & P2)]).
      - (* u -> w1 ->* w ->+ v : w1 is visited, so the edge u -> w1 would have been found *)
        apply clos_trans_t1n in P1.
        assert (H1 : exists w1, qedge f np ks u w1 /\ clos_trans N (qedge f np ks) w1 v).
        { inversion P1 as [y E|y z E P]; subst.
          - exists w. split; assumption.
          - exists y. split; [exact E|]. apply clos_t1n_trans in P. eapply t_trans; eassumption. }
        destruct H1 as (w1 & E1 & Q1).
        pose proof (qedge_gi ks np en s f I u w1 E1) as G1.
        pose proof (qpath_gi ks np en s f I w1 v Q1) as G2.
        assert (Hw1 : In w1 vi) by (apply reaches_v_visited; [apply clos_trans_t1n; exact Q1|exact G1]).
        destruct (edge_stored u w1 E1) as (ps & q & Hps & Hq & Fq).
        destruct (Vcl w1 Hw1 ps q Hps Hq) as (A & _). specialize (A Fq). subst w1. lia.
      - pose proof (qpath_gi ks np en s f I v w P1). pose proof (qpath_gi ks np en s f I w u P2).
        rewrite gi_u, gi_v in *. lia.
    Qed.
  End Closed.

  Lemma LInv_init : LInv [v] [v].
  Proof.
    split; [intros y [<-|[]]; split; [exact Fv|split; [exact Kv|congruence]]|].
    split; [apply incl_refl|]. split; [left; reflexivity|].
    intros x [<-|[]] Hn. exfalso. apply Hn. left. reflexivity.
  Qed.

  Lemma measure_init : measure [v] [v] < S (length (sm_idx s)).
  Proof.
    unfold measure. cbn [length].
    assert (length (filter (unvis [v]) K) < length (filter (unvis []) K)).
    { apply measure_push; [eapply alookup_in_K; exact Hiv|intros []]. }
    assert (length (filter (unvis []) K) <= length K).
    { clear. induction K as [|a l IH]; cbn; [lia|]. destruct (unvis [] a); cbn; lia. }
    unfold K in *. rewrite map_length in *. lia.
  Qed.

  (* (2) TOTAL CORRECTNESS of the cycle check *)
  Theorem cyc_check_exact uf : UFInv uf f ->
    exists found uf', cyc_loop s u v lo hi (S (length (sm_idx s))) [v] [v] uf = ROk (found, uf') /\
                      UFInv uf' f /\ (found = true <-> would_cycle f np ks u v).
  Proof.
    intro HU.
    destruct (cyc_loop_total _ _ _ uf LInv_init HU measure_init) as (found & uf' & E & HU' & Hc).
    exists found, uf'. split; [exact E|]. split; [exact HU'|]. split.
    - intro Ht.
      assert (A0 : Forall (anc ks np f u v) [v]).
      { constructor; [|constructor]. split; [exact Fv|]. split; [congruence|]. left. reflexivity. }
      destruct (cyc_loop_sound ks np en s f I u v lo hi _ _ _ _ _ _ A0 HU E) as (_ & Hf).
      destruct (Hf Ht) as (w & Wu & Wv & Euw & Pwv).
      exists w. split; [exact Wu|]. split; [exact Wv|]. left. split; [apply t_step; exact Euw|exact Pwv].
    - intro W. destruct found; [reflexivity|]. exfalso.
      destruct (Hc eq_refl) as (vi & A & B & C). exact (closed_no_cycle vi A B C W).
  Qed.
End CycComplete.

Lemma would_cycle_sym f np ks a b : would_cycle f np ks a b -> would_cycle f np ks b a.
Proof. intros (w & H1 & H2 & H3). exists w. tauto. Qed.

(* ------------------------------------------------------------------ try_merge: front end *)

Definition enemy_test (s : sm) (a b : N) : bool :=
  match alookup a (sm_enemies s) with Some es => memN b es | None => false end.

Section Front.
  Variables (ks : list N) (np : N -> list N) (en : list (N * N)) (s : sm) (f : N -> N).
  Hypothesis I : SMInv ks np en s f.

  Lemma enemy_test_spec a b : enemy_test s a b = true <-> enemy_rel (sm_enemies s) a b.
  Proof.
    unfold enemy_test, enemy_rel. destruct (alookup a (sm_enemies s)) as [es|].
    - rewrite memN_In. split; [intro H; exists es; auto|intros (es' & E & H); congruence].
    - split; [discriminate|intros (es & E & _); discriminate].
  Qed.

  Lemma enemy_test_conflict u0 v0 : enemy_test s (f u0) (f v0) = true <-> enemy_conflict f en u0 v0.
  Proof.
    rewrite enemy_test_spec, (inv_enemies _ _ _ _ _ I). unfold enemy_conflict. tauto.
  Qed.

  (* with distinct groups and no enemy conflict, try_merge is the ordered part on the two
     representatives, the one with the smaller start index first *)
  Lemma try_merge_front u0 v0 :
    In u0 ks -> In v0 ks -> f u0 <> f v0 -> enemy_test s (f u0) (f v0) = false ->
    exists uf2 u v, UFInv uf2 f /\ sm_try_merge s u0 v0 = sm_try_merge_ordered s u v uf2 /\
      ((u = f u0 /\ v = f v0) \/ (u = f v0 /\ v = f u0)) /\
      f u = u /\ f v = v /\ In u ks /\ In v ks /\ u <> v /\ gi s u < gi s v.
  Proof.
    intros Ku Kv Ne Et. unfold sm_try_merge.
    pose proof (uf_find_correct (sm_uf s) f u0 (inv_uf _ _ _ _ _ I)) as (HU1 & E1).
    destruct (uf_find (sm_uf s) u0) as [uf1 u1]. cbn in HU1, E1. subst u1.
    pose proof (uf_find_correct uf1 f v0 HU1) as (HU2 & E2).
    destruct (uf_find uf1 v0) as [uf2 v1]. cbn in HU2, E2. subst v1.
    rewrite (N_eqb_false _ _ Ne). unfold enemy_test in Et. rewrite Et.
    assert (Fu : f (f u0) = f u0) by (eapply f_idem; exact I).
    assert (Fv : f (f v0) = f v0) by (eapply f_idem; exact I).
    pose proof (inv_f_keys _ _ _ _ _ I u0 Ku) as Ku'. pose proof (inv_f_keys _ _ _ _ _ I v0 Kv) as Kv'.
    destruct (rep_group ks np en s f I (f u0) Ku' Fu) as (iu & lu & Iu & Lu & Pu & _).
    destruct (rep_group ks np en s f I (f v0) Kv' Fv) as (iv & lv & Iv & Lv & Pv & _).
    unfold aget. rewrite Iu, Iv. cbn [rbind].
    pose proof (ranges_disjoint ks np en s f I _ _ _ _ _ _ Iu Lu Iv Lv Ne) as D.
    exists uf2. destruct (Nat.ltb iu iv) eqn:Lt.
    - apply Nat.ltb_lt in Lt. exists (f u0), (f v0). repeat (split; [auto|]).
      unfold gi. rewrite Iu, Iv. exact Lt.
    - apply Nat.ltb_ge in Lt. exists (f v0), (f u0). repeat (split; [auto|]).
      unfold gi. rewrite Iu, Iv. lia.
  Qed.

  (* the ordered part: lookups and range checks succeed, leaving the cycle check and the merge *)
  Lemma ordered_unfold u v uf2 :
    f u = u -> f v = v -> In u ks -> In v ks -> u <> v -> gi s u < gi s v ->
    exists lo lu iv lv,
      alookup u (sm_idx s) = Some lo /\ alookup u (sm_len s) = Some lu /\
      alookup v (sm_idx s) = Some iv /\ alookup v (sm_len s) = Some lv /\
      1 <= lu /\ 1 <= lv /\ lo + lu <= iv /\ iv + lv <= length (sm_order s) /\
      sm_try_merge_ordered s u v uf2 =
        ('(found, uf3) <- cyc_loop s u v lo (iv + lv) (S (length (sm_idx s))) [v] [v] uf2 ;;
         if (found : bool) then ROk (with_uf s uf3, false)
         else sm_merge_phase s u v lo (iv + lv) (slice (sm_order s) lo lu) (slice (sm_order s) iv lv) uf3).
  Proof.
    intros Fu Fv Ku Kv Ne Lt.
    destruct (rep_group ks np en s f I u Ku Fu) as (lo & lu & Iu & Lu & Pu & Ru & _).
    destruct (rep_group ks np en s f I v Kv Fv) as (iv & lv & Iv & Lv & Pv & Rv & _).
    exists lo, lu, iv, lv. repeat (split; [assumption|]).
    unfold gi in Lt. rewrite Iu, Iv in Lt.
    pose proof (ranges_disjoint ks np en s f I _ _ _ _ _ _ Iu Lu Iv Lv Ne) as D.
    split; [lia|]. split; [exact Rv|].
    unfold sm_try_merge_ordered, aget. rewrite Iu, Lu, Iv, Lv. cbn [rbind].
    replace (Nat.ltb (length (sm_order s)) (lo + lu)) with false by (symmetry; apply Nat.ltb_ge; lia).
    replace (Nat.ltb (length (sm_order s)) (iv + lv)) with false by (symmetry; apply Nat.ltb_ge; lia).
    reflexivity.
  Qed.

  (* COMPLETENESS of refusals: a cycle through the merged group is always refused *)
  Theorem sm_try_merge_cycle_refused u0 v0 :
    In u0 ks -> In v0 ks -> f u0 <> f v0 -> would_cycle f np ks (f u0) (f v0) ->
    exists s', sm_try_merge s u0 v0 = ROk (s', false) /\ SMInv ks np en s' f.
  Proof.
    intros Ku Kv Ne W. destruct (enemy_test s (f u0) (f v0)) eqn:Et.
    - apply enemy_test_conflict in Et. exact (sm_try_merge_enemy_refused ks np en s f u0 v0 I Et).
    - destruct (try_merge_front u0 v0 Ku Kv Ne Et) as (uf2 & u & v & HU2 & -> & Huv & Fu & Fv & Ku' & Kv' & Nuv & Lt).
      destruct (ordered_unfold u v uf2 Fu Fv Ku' Kv' Nuv Lt) as (lo & lu & iv & lv & Iu & Lu & Iv & Lv & ? & ? & ? & ? & ->).
      assert (W' : would_cycle f np ks u v).
      { destruct Huv as [(-> & ->)|(-> & ->)]; [exact W|apply would_cycle_sym; exact W]. }
      destruct (cyc_check_exact ks np en s f I u v lo (iv + lv) Nuv Fu Fv Kv' iv Iu Iv ltac:(lia) ltac:(lia) uf2 HU2)
        as (found & uf3 & -> & HU3 & Hf).
      cbn [rbind]. rewrite (proj2 Hf W'). eexists. split; [reflexivity|].
      apply SMInv_with_uf; assumption.
  Qed.

  (* EXACTNESS of refusals *)
  Theorem sm_try_merge_exact u0 v0 :
    In u0 ks -> In v0 ks ->
    ((exists s', sm_try_merge s u0 v0 = ROk (s', false)) <->
     f u0 <> f v0 /\ (enemy_conflict f en u0 v0 \/ would_cycle f np ks (f u0) (f v0))).
  Proof.
    intros Ku Kv. split.
    - intros (s' & H). destruct (sm_try_merge_false_sound ks np en s f u0 v0 s' I H) as (A & B & _). auto.
    - intros (Ne & [E|W]).
      + destruct (sm_try_merge_enemy_refused ks np en s f u0 v0 I E) as (s' & H & _). exists s'. exact H.
      + destruct (sm_try_merge_cycle_refused u0 v0 Ku Kv Ne W) as (s' & H & _). exists s'. exact H.
  Qed.
End Front.
