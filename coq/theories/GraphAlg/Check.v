(* GraphAlg engine: executable checks used by the correspondence run of C17.
   Definitions only.  For every case the Python side prints a term [chk_* case impl_output : N]:
   bit 0 = the implementation's output differs from the model's,
   bit 1 = the executable form of the property is false on the implementation's output.
   The property forms use oracles that are independent of the modelled algorithms
   (Kahn-style source stripping for acyclicity, a label function for union-find, the abstract
   partition for SubgraphMerge). *)
From Coq Require Import List NArith Bool Arith.
From HV Require Import GraphAlg.Model.
Import ListNotations.

Definition verdict (agree holds : bool) : N :=
  ((if agree then 0 else 1) + (if holds then 0 else 2))%N.

Fixpoint bad_from (n : N) (l : list N) : list (N * N) :=
  match l with
  | [] => []
  | v :: r => if N.eqb v 0 then bad_from (n + 1) r else (n, v) :: bad_from (n + 1) r
  end.
Definition bad (l : list N) : list (N * N) := bad_from 0 l.

(* ------------------------------------------------------------------ small list predicates *)

Fixpoint list_eqb {A} (eqb : A -> A -> bool) (l1 l2 : list A) : bool :=
  match l1, l2 with
  | [], [] => true
  | x :: r1, y :: r2 => eqb x y && list_eqb eqb r1 r2
  | _, _ => false
  end.
Definition lN_eqb := list_eqb N.eqb.
Definition llN_eqb := list_eqb lN_eqb.

Fixpoint NoDup_b (l : list N) : bool :=
  match l with [] => true | x :: r => negb (memN x r) && NoDup_b r end.

Definition incl_b (a b : list N) : bool := forallb (fun x => memN x b) a.

(* p occurs strictly before s *)
Definition before_b (p s : N) (o : list N) : bool :=
  match position p o, position s o with
  | Some i, Some j => Nat.ltb i j
  | _, _ => false
  end.

(* ------------------------------------------------------------------ graph oracles *)

(* nodes reachable from [S] through predecessor edges, [k] rounds *)
Fixpoint reach_iter (k : nat) (preds : N -> list N) (S : list N) : list N :=
  match k with
  | O => S
  | S k' => reach_iter k' preds (sort_dedup (S ++ flat_map preds S))
  end.

(* strip, [k] times, every node none of whose predecessors is left *)
Fixpoint strip_sources (k : nat) (preds : N -> list N) (V : list N) : list N :=
  match k with
  | O => V
  | S k' => strip_sources k' preds (filter (fun x => existsb (fun p => memN p V) (preds x)) V)
  end.
Definition acyclic_b (preds : N -> list N) (V : list N) : bool :=
  match strip_sources (length V) preds V with [] => true | _ => false end.

Fixpoint chain_b (preds : N -> list N) (c : list N) : bool :=
  match c with
  | a :: (b :: _) as r => memN a (preds b) && chain_b preds r
  | _ => true
  end.
(* [c] lists a cycle in edge direction, each node once, the last node is a predecessor of the first *)
Definition is_cycle_b (preds : N -> list N) (c : list N) : bool :=
  match c with [] => false | _ => true end &&
  NoDup_b c && chain_b preds c && memN (last c 0%N) (preds (hd 0%N c)).

Definition topo_order_b (preds : N -> list N) (o : list N) : bool :=
  NoDup_b o && forallb (fun s => forallb (fun p => before_b p s o) (preds s)) o.

(* ------------------------------------------------------------------ topo_sort cases *)

Inductive topo_obs := ObsOk (o : list N) | ObsErr (c : list N).

Definition topo_agree (r : tres) (i : topo_obs) : bool :=
  match r, i with
  | TOk o, ObsOk o' => lN_eqb o o'
  | TErr c, ObsErr c' => lN_eqb c c'
  | _, _ => false
  end.

(* executable form of the topo_sort clause of C17 on an observed output: an Ok order lists
   exactly the nodes reachable from [nodes] once each with every predecessor first, and the
   graph is acyclic; an Err cycle is a genuine duplicate-free cycle (so the graph is cyclic) *)
Definition C17_topo_holds_b (nodes : list N) (adj : list (N * list N)) (i : topo_obs) : bool :=
  let preds := preds_of adj in
  let V := reach_iter (length nodes + length (concat (map snd adj))) preds (sort_dedup nodes) in
  match i with
  | ObsOk o => topo_order_b preds o && lN_eqb (sort_dedup o) V && acyclic_b preds V
  | ObsErr c => is_cycle_b preds c && incl_b c V && negb (acyclic_b preds V)
  end.

Definition chk_topo (nodes : list N) (adj : list (N * list N)) (i : topo_obs) : N :=
  verdict (topo_agree (topo_sort_adj nodes adj) i) (C17_topo_holds_b nodes adj i).

(* validate_topo_sort: code 0 = Ok, 1 = Err, 2 = panic; the property form: Ok exactly when every
   listed node's predecessors all occur strictly earlier (last occurrences), panic exactly when
   some predecessor is missing before any violation is met -- compared with the model only, and
   the Ok/Err split is compared with [topo_order_b] when the order is duplicate-free and closed *)
Definition vres_code (r : vres) : N := match r with VOk => 0 | VErr _ _ => 1 | VPanic => 2 end.
Definition vres_eqb (a b : vres) : bool :=
  match a, b with
  | VOk, VOk | VPanic, VPanic => true
  | VErr p s, VErr p' s' => N.eqb p p' && N.eqb s s'
  | _, _ => false
  end.
Definition C17_validate_holds_b (o : list N) (adj : list (N * list N)) (i : vres) : bool :=
  let preds := preds_of adj in
  if NoDup_b o && forallb (fun s => incl_b (preds s) o) o
  then match i with
       | VOk => topo_order_b preds o
       | VErr p s => negb (topo_order_b preds o) && memN p (preds s) && negb (before_b p s o)
       | VPanic => false
       end
  else true.
Definition chk_validate (o : list N) (adj : list (N * list N)) (i : vres) : N :=
  verdict (vres_eqb (validate_topo_sort o (preds_of adj)) i) (C17_validate_holds_b o adj i).

(* ------------------------------------------------------------------ union-find cases *)

Fixpoint uf_run (m : links) (ops : list uop) : list N :=
  match ops with
  | [] => []
  | UUnion a b :: r => let '(m', i) := uf_union m a b in i :: uf_run m' r
  | UFind a :: r => let '(m', i) := uf_find m a in i :: uf_run m' r
  | USame a b :: r => let '(m', x) := uf_same m a b in (if x then 1%N else 0%N) :: uf_run m' r
  end.

(* oracle: a label function; union a b relabels b's class with a's label (first argument's root
   survives), find returns the label, same_set compares labels *)
Fixpoint uf_oracle (lbl : N -> N) (ops : list uop) (outs : list N) : bool :=
  match ops, outs with
  | [], [] => true
  | UUnion a b :: r, x :: xs =>
      N.eqb x (lbl a) &&
      uf_oracle (fun y => if N.eqb (lbl y) (lbl b) then lbl a else lbl y) r xs
  | UFind a :: r, x :: xs => N.eqb x (lbl a) && uf_oracle lbl r xs
  | USame a b :: r, x :: xs => N.eqb x (if N.eqb (lbl a) (lbl b) then 1%N else 0%N) && uf_oracle lbl r xs
  | _, _ => false
  end.

Definition C17_uf_holds_b (ops : list uop) (outs : list N) : bool := uf_oracle (fun x => x) ops outs.

Definition chk_uf (ops : list uop) (outs : list N) : N :=
  verdict (lN_eqb (uf_run [] ops) outs) (C17_uf_holds_b ops outs).

(* ------------------------------------------------------------------ SubgraphMerge cases *)

(* one observation: subgraphs() and find(k) for every key (increasing) *)
Definition sm_snap := (list (list N) * list N)%type.
Inductive sm_obs :=
| SmCycle (c : list N)
| SmRun (s0 : sm_snap) (steps : list (bool * sm_snap)).

Definition snap_eqb (a b : sm_snap) : bool := llN_eqb (fst a) (fst b) && lN_eqb (snd a) (snd b).
Definition step_eqb (a b : bool * sm_snap) : bool := Bool.eqb (fst a) (fst b) && snap_eqb (snd a) (snd b).

Definition sm_snapshot (s : sm) (ks : list N) : res (sm_snap * sm) :=
  sgs <- sm_subgraphs s ;;
  let '(reps, uf) := find_all ks (sm_uf s) in
  ROk ((sgs, reps), with_uf s uf).

Fixpoint sm_run_steps (s : sm) (ks : list N) (merges : list (N * N)) : res (list (bool * sm_snap)) :=
  match merges with
  | [] => ROk []
  | (a, b) :: r =>
      '(s1, x) <- sm_try_merge s a b ;;
      '(snap, s2) <- sm_snapshot s1 ks ;;
      rest <- sm_run_steps s2 ks r ;;
      ROk ((x, snap) :: rest)
  end.

Inductive sm_model_out := MCycle (c : list N) | MRun (s0 : sm_snap) (steps : list (bool * sm_snap))
                        | MPanic | MFuel.

Definition sm_run (keys : list N) (adj : list (N * list N)) (enemies merges : list (N * N)) : sm_model_out :=
  let ks := sort_dedup keys in
  match sm_new keys (preds_of adj) enemies with
  | NewCycle c => MCycle c
  | NewPanic => MPanic
  | NewFuel => MFuel
  | NewOk s =>
      match ('(snap, s1) <- sm_snapshot s ks ;;
             steps <- sm_run_steps s1 ks merges ;;
             ROk (snap, steps)) with
      | ROk (snap, steps) => MRun snap steps
      | RPanic => MPanic
      | RFuel => MFuel
      end
  end.

Definition sm_agree (m : sm_model_out) (i : sm_obs) : bool :=
  match m, i with
  | MCycle c, SmCycle c' => lN_eqb c c'
  | MRun s0 st, SmRun s0' st' => snap_eqb s0 s0' && list_eqb step_eqb st st'
  | _, _ => false
  end.

(* ---- the property on the implementation's observations (model-independent) *)

Definition group_of (sgs : list (list N)) (x : N) : list N :=
  match find (fun g => memN x g) sgs with Some g => g | None => [] end.

Definition enemy_pair_b (enemies : list (N * N)) (g1 g2 : list N) : bool :=
  existsb (fun '(a, b) => (memN a g1 && memN b g2) || (memN a g2 && memN b g1)) enemies.

(* quotient graph over group heads *)
Definition qpreds (P : list (list N)) (preds : N -> list N) (h : N) : list N :=
  sremove h (sort_dedup (map (fun p => hd 0%N (group_of P p)) (flat_map preds (group_of P h)))).
Definition quotient_acyclic_b (P : list (list N)) (preds : N -> list N) : bool :=
  acyclic_b (qpreds P preds) (map (hd 0%N) P).

(* SMInv on one observation: groups are non-empty and partition the keys; their concatenation
   (the global order, each group contiguous by construction of subgraphs()) is a topological
   order of the node-level predecessors; the quotient graph is acyclic; no group contains an
   enemy pair; find(k) is the first node of k's group *)
Definition SMInv_b (ks : list N) (preds : N -> list N) (enemies : list (N * N)) (sn : sm_snap) : bool :=
  let '(sgs, reps) := sn in
  let o := concat sgs in
  forallb (fun g => match g with [] => false | _ => true end) sgs &&
  lN_eqb (sort_dedup o) ks && Nat.eqb (length o) (length ks) &&
  topo_order_b preds o &&
  quotient_acyclic_b sgs preds &&
  forallb (fun g => negb (enemy_pair_b enemies g g)) sgs &&
  lN_eqb reps (map (fun k => hd 0%N (group_of sgs k)) ks).

Definition partition_eqb (P Q : list (list N)) : bool :=
  Nat.eqb (length P) (length Q) &&
  forallb (fun g => existsb (lN_eqb (sort_dedup g)) (map sort_dedup Q)) P.

(* each try_merge answer equals the oracle "same group, or (no enemy pair across the two groups
   and the quotient graph with the two groups merged is acyclic)"; the partition afterwards is
   the old one with exactly those two groups merged (or unchanged); SMInv holds *)
Fixpoint sm_steps_ok (ks : list N) (preds : N -> list N) (enemies : list (N * N))
         (P : list (list N)) (merges : list (N * N)) (steps : list (bool * sm_snap)) : bool :=
  match merges, steps with
  | [], [] => true
  | (a, b) :: ms, (r, sn) :: ss =>
      let ga := group_of P a in
      let gb := group_of P b in
      let same := N.eqb (hd 0%N ga) (hd 0%N gb) in
      let others := filter (fun g => negb (N.eqb (hd 0%N g) (hd 0%N ga)) && negb (N.eqb (hd 0%N g) (hd 0%N gb))) P in
      let merged := (ga ++ gb) :: others in
      let expect := same || (negb (enemy_pair_b enemies ga gb) && quotient_acyclic_b merged preds) in
      let P' := if same then P else if expect then merged else P in
      Bool.eqb r expect && SMInv_b ks preds enemies sn && partition_eqb (fst sn) P' &&
      sm_steps_ok ks preds enemies (fst sn) ms ss
  | _, _ => false
  end.

Definition C17_sm_holds_b (keys : list N) (adj : list (N * list N)) (enemies merges : list (N * N))
           (i : sm_obs) : bool :=
  let ks := sort_dedup keys in
  let preds := preds_of adj in
  match i with
  | SmCycle c => is_cycle_b preds c && incl_b c ks && negb (acyclic_b preds ks)
  | SmRun s0 steps =>
      acyclic_b preds ks &&
      forallb (fun g => Nat.eqb (length g) 1) (fst s0) &&
      SMInv_b ks preds enemies s0 &&
      sm_steps_ok ks preds enemies (fst s0) merges steps
  end.

Definition chk_sm (keys : list N) (adj : list (N * list N)) (enemies merges : list (N * N))
           (i : sm_obs) : N :=
  verdict (sm_agree (sm_run keys adj enemies merges) i) (C17_sm_holds_b keys adj enemies merges i).
