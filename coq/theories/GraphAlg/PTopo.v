(* GraphAlg engine: proofs about the topo_sort model (dfir_lang/src/graph/graph_algorithms.rs). *)
From Coq Require Import List NArith Bool Arith Lia Permutation.
From HV Require Import GraphAlg.Model GraphAlg.PUf.
Import ListNotations.

(* ------------------------------------------------------------------ statement vocabulary *)

(* consecutive elements (a, b) are edges a -> b, i.e. a is a predecessor of b *)
Fixpoint chain (preds : N -> list N) (c : list N) : Prop :=
  match c with
  | a :: (b :: _) as r => In a (preds b) /\ chain preds r
  | _ => True
  end.

(* a cycle listed in edge direction, each node once; the last node is a predecessor of the first *)
Definition is_cycle (preds : N -> list N) (c : list N) : Prop :=
  c <> [] /\ NoDup c /\ chain preds c /\ In (last c 0%N) (preds (hd 0%N c)).

(* every predecessor of an element occurs strictly earlier *)
Definition tsorted (preds : N -> list N) (o : list N) : Prop :=
  forall l1 s l2, o = l1 ++ s :: l2 -> incl (preds s) l1.

Definition before (p s : N) (o : list N) : Prop :=
  exists l1 l2 l3, o = l1 ++ p :: l2 ++ s :: l3.

Inductive reach (preds : N -> list N) (nodes : list N) : N -> Prop :=
| reach_node x : In x nodes -> reach preds nodes x
| reach_pred x p : reach preds nodes x -> In p (preds x) -> reach preds nodes p.

(* ------------------------------------------------------------------ list lemmas *)

Lemma app_snoc_split {A} (o l1 l2 : list A) (n s : A) :
  o ++ [n] = l1 ++ s :: l2 ->
  (l2 = [] /\ s = n /\ l1 = o) \/ (exists l2', l2 = l2' ++ [n] /\ o = l1 ++ s :: l2').
Proof.
  destruct l2 as [|x l2] using rev_ind.
  - intro H. left. apply app_inj_tail in H. destruct H; subst; auto.
  - intro H. right. exists l2.
    replace (l1 ++ s :: l2 ++ [x]) with ((l1 ++ s :: l2) ++ [x]) in H
      by (rewrite <- app_assoc; reflexivity).
    apply app_inj_tail in H. destruct H; subst; auto.
Qed.

Lemma tsorted_nil preds : tsorted preds [].
Proof. intros l1 s l2 H. destruct l1; discriminate. Qed.

Lemma tsorted_snoc preds o n :
  tsorted preds o -> incl (preds n) o -> tsorted preds (o ++ [n]).
Proof.
  intros T I l1 s l2 H. apply app_snoc_split in H.
  destruct H as [(-> & -> & ->)|(l2' & -> & ->)]; [exact I|].
  eapply T; reflexivity.
Qed.

Lemma tsorted_before preds o :
  NoDup o -> tsorted preds o ->
  forall s p, In s o -> In p (preds s) -> before p s o.
Proof.
  intros ND T s p Hs Hp. apply in_split in Hs. destruct Hs as (l1 & l2 & ->).
  specialize (T l1 s l2 eq_refl p Hp). apply in_split in T. destruct T as (a & b & ->).
  exists a, b, l2. rewrite <- app_assoc. reflexivity.
Qed.

Lemma tsorted_closed preds o s p :
  tsorted preds o -> In s o -> In p (preds s) -> In p o.
Proof.
  intros T Hs Hp. apply in_split in Hs. destruct Hs as (l1 & l2 & ->).
  apply in_or_app. left. exact (T l1 s l2 eq_refl p Hp).
Qed.

Lemma chain_app_l preds a b : chain preds (a ++ b) -> chain preds a.
Proof.
  induction a as [|x a IH]; intro H; [exact I|].
  destruct a as [|y a]; [exact I|].
  cbn in H |- *. destruct H as [H1 H2]. split; [exact H1|]. apply IH. exact H2.
Qed.

Lemma chain_cons preds p n stk :
  In p (preds n) -> chain preds (n :: stk) -> chain preds (p :: n :: stk).
Proof. intros; split; assumption. Qed.

Lemma chain_tail preds n stk : chain preds (n :: stk) -> chain preds stk.
Proof. destruct stk; cbn; tauto. Qed.

Lemma NoDup_app_l {A} (a b : list A) : NoDup (a ++ b) -> NoDup a.
Proof.
  induction a as [|x a IH]; cbn; intro H; [constructor|].
  inversion H; subst. constructor; [|auto]. intro Hx. apply H2. apply in_or_app. left. exact Hx.
Qed.

Lemma NoDup_app_disj {A} (a b : list A) x : NoDup (a ++ b) -> In x a -> In x b -> False.
Proof.
  induction a as [|y a IH]; cbn; intros H Ha Hb; [destruct Ha|].
  inversion H; subst. destruct Ha as [->|Ha]; [|auto].
  apply H2. apply in_or_app. right. exact Hb.
Qed.

Lemma NoDup_snoc {A} (l : list A) x : NoDup l -> ~ In x l -> NoDup (l ++ [x]).
Proof.
  induction l as [|y l IH]; cbn; intros H Hx; [constructor; [intros []|constructor]|].
  inversion H; subst. constructor.
  - intro Hy. apply in_app_or in Hy. destruct Hy as [Hy|[->|[]]]; [auto|]. apply Hx. left. reflexivity.
  - apply IH; [assumption|]. intro. apply Hx. right. assumption.
Qed.

Lemma hd_app {A} (d : A) a b : a <> [] -> hd d (a ++ b) = hd d a.
Proof. destruct a; [congruence|reflexivity]. Qed.

Lemma last_snoc {A} (d : A) l x : last (l ++ [x]) d = x.
Proof. apply last_last. Qed.

(* ------------------------------------------------------------------ the DFS invariant *)

Section TopoProofs.
  Variable preds : N -> list N.
  Variable U : N -> Prop.
  Hypothesis U_closed : forall x p, U x -> In p (preds x) -> U p.

  Definition perm (m : list (N * bool)) (x : N) : Prop := alookup x m = Some true.
  Definition temp (m : list (N * bool)) (x : N) : Prop := alookup x m = Some false.

  Definition Inv (m : list (N * bool)) (o : list N) : Prop :=
    NoDup o /\ (forall x, In x o <-> perm m x) /\ tsorted preds o /\ (forall x, In x o -> U x).

  Definition PathInv (m : list (N * bool)) (stk : list N) : Prop :=
    (forall x, temp m x <-> In x stk) /\ NoDup stk /\ chain preds stk /\ (forall x, In x stk -> U x).

  Definition OkPost (n : N) (m : list (N * bool)) (o : list N) (m' : list (N * bool)) (o' : list N) : Prop :=
    Inv m' o' /\ perm m' n /\ (forall x, perm m x -> perm m' x) /\
    (forall x, temp m' x <-> temp m x) /\ (exists l, o' = o ++ l).

  Definition ErrPost (stk e : list N) : Prop :=
    (exists c l, e = c :: l ++ [c] /\ is_cycle preds (l ++ [c]) /\ (forall x, In x (l ++ [c]) -> U x)) \/
    (exists c l, e = c :: l /\ In c stk /\ NoDup (l ++ stk) /\ chain preds (l ++ stk) /\
                 In c (preds (hd 0%N (l ++ stk))) /\ (forall x, In x l -> U x)).

  Definition Spec (n : N) (m : list (N * bool)) (o stk : list N) (r : dres) : Prop :=
    match r with
    | DOk m' o' => OkPost n m o m' o'
    | DErr e => ErrPost stk e
    | DFuel => True
    end.

  Lemma perm_aset_true n m x : perm (aset n true m) x <-> x = n \/ perm m x.
  Proof.
    unfold perm. rewrite alookup_aset. destruct (N.eqb x n) eqn:E.
    - apply N.eqb_eq in E. tauto.
    - apply N.eqb_neq in E. tauto.
  Qed.

  Lemma temp_aset_true n m x : temp m n -> (temp (aset n true m) x <-> temp m x /\ x <> n).
  Proof.
    unfold temp. rewrite alookup_aset. destruct (N.eqb x n) eqn:E.
    - apply N.eqb_eq in E. subst. intro H. split; [discriminate|tauto].
    - apply N.eqb_neq in E. tauto.
  Qed.

  Lemma perm_aset_false n m x : alookup n m = None -> (perm (aset n false m) x <-> perm m x).
  Proof.
    unfold perm. rewrite alookup_aset. destruct (N.eqb x n) eqn:E.
    - apply N.eqb_eq in E. subst. intro H. rewrite H. split; discriminate.
    - tauto.
  Qed.

  Lemma temp_aset_false n m x : temp (aset n false m) x <-> x = n \/ temp m x.
  Proof.
    unfold temp. rewrite alookup_aset. destruct (N.eqb x n) eqn:E.
    - apply N.eqb_eq in E. tauto.
    - apply N.eqb_neq in E. tauto.
  Qed.

  (* the error-propagation step of one frame *)
  Lemma map_err_push_spec n stk e :
    ErrPost (n :: stk) e -> U n -> ErrPost stk (map_err_push n e).
  Proof.
    intros [(c & l & -> & Hc & HU)|(c & l & -> & Hin & ND & Ch & Hp & HU)] Un.
    - (* closed: first = last, length >= 2: no push *)
      left. exists c, l. split; [|split; assumption].
      unfold map_err_push.
      replace (Nat.eqb (length (c :: l ++ [c])) 1) with false
        by (cbn; rewrite app_length; cbn; destruct (length l); reflexivity).
      change (c :: l ++ [c]) with ((c :: l) ++ [c]). rewrite last_snoc. cbn [hd app].
      rewrite N.eqb_refl. reflexivity.
    - (* open: always pushes *)
      assert (Hnl : ~ In c l).
      { intro Hl. eapply NoDup_app_disj; [exact ND|exact Hl|exact Hin]. }
      assert (Hpush : map_err_push n (c :: l) = c :: l ++ [n]).
      { unfold map_err_push. destruct l as [|y l] using rev_ind; [reflexivity|].
        change (c :: l ++ [y]) with ((c :: l) ++ [y]). rewrite last_snoc. cbn [hd app].
        destruct (N.eqb c y) eqn:E.
        - apply N.eqb_eq in E. subst. exfalso. apply Hnl. apply in_or_app. right. left. reflexivity.
        - rewrite orb_true_r. reflexivity. }
      rewrite Hpush.
      assert (Eapp : (l ++ [n]) ++ stk = l ++ n :: stk) by (rewrite <- app_assoc; reflexivity).
      destruct Hin as [<-|Hin].
      + (* the frame of c itself: the cycle closes *)
        left. exists n, l. split; [reflexivity|]. split.
        * unfold is_cycle. split; [destruct l; discriminate|]. split.
          { rewrite <- Eapp in ND. apply NoDup_app_l in ND. exact ND. }
          split.
          { rewrite <- Eapp in Ch. apply chain_app_l in Ch. exact Ch. }
          rewrite last_snoc. rewrite <- Eapp in Hp. rewrite hd_app in Hp by (destruct l; discriminate).
          exact Hp.
        * intros x Hx. apply in_app_or in Hx. destruct Hx as [Hx|[<-|[]]]; auto.
      + right. exists c, (l ++ [n]). rewrite Eapp. repeat split; auto.
        intros x Hx. apply in_app_or in Hx. destruct Hx as [Hx|[<-|[]]]; auto.
  Qed.

  Lemma dfs_loop_spec (rec : N -> list (N * bool) -> list N -> dres) n stk :
    U n ->
    (forall p m o, Inv m o -> PathInv m (n :: stk) -> In p (preds n) -> Spec p m o (n :: stk) (rec p m o)) ->
    forall ps m o, incl ps (preds n) -> Inv m o -> PathInv m (n :: stk) ->
    match dfs_loop rec n ps m o with
    | DOk m' o' => Inv m' o' /\ (forall p, In p ps -> perm m' p) /\ (forall x, perm m x -> perm m' x) /\
                   (forall x, temp m' x <-> temp m x) /\ (exists l, o' = o ++ l)
    | DErr e => ErrPost stk e
    | DFuel => True
    end.
  Proof.
    intros Un Hrec. induction ps as [|p ps IH]; intros m o Hin HI HP; cbn.
    - split; [exact HI|]. split; [intros p []|]. split; [auto|]. split; [tauto|].
      exists []. rewrite app_nil_r. reflexivity.
    - assert (Hp : In p (preds n)) by (apply Hin; left; reflexivity).
      specialize (Hrec p m o HI HP Hp). destruct (rec p m o) as [m1 o1|e|]; cbn in Hrec; [| |exact I].
      + destruct Hrec as (HI1 & Pp & Pm & Tm & (l1 & ->)).
        assert (HP1 : PathInv m1 (n :: stk)).
        { destruct HP as (T & R). split; [|exact R]. intro x. rewrite Tm. apply T. }
        specialize (IH m1 (o ++ l1) (fun x Hx => Hin x (or_intror Hx)) HI1 HP1).
        destruct (dfs_loop rec n ps m1 (o ++ l1)) as [m2 o2|e|]; [| exact IH | exact I].
        destruct IH as (HI2 & Pps & Pm2 & Tm2 & (l2 & ->)).
        split; [exact HI2|]. split.
        { intros q [<-|Hq]; auto. }
        split; [auto|]. split.
        { intro x. rewrite Tm2. apply Tm. }
        exists (l1 ++ l2). rewrite app_assoc. reflexivity.
      + apply map_err_push_spec; assumption.
  Qed.

  Lemma dfs_spec : forall fuel n m o stk,
    Inv m o -> PathInv m stk -> chain preds (n :: stk) -> U n ->
    Spec n m o stk (dfs preds fuel n m o).
  Proof.
    induction fuel as [|f IH]; intros n m o stk HI HP Ch Un; [exact I|].
    cbn [dfs]. destruct (alookup n m) as [[|]|] eqn:L.
    - (* permanent *)
      cbn. split; [exact HI|]. split; [exact L|]. split; [auto|]. split; [tauto|].
      exists []. rewrite app_nil_r. reflexivity.
    - (* temporary: cycle found *)
      cbn. right. exists n, []. cbn [app].
      destruct HP as (T & ND & C & HU).
      assert (Hin : In n stk) by (apply T; exact L).
      repeat split; auto.
      + destruct stk as [|h stk']; [destruct Hin|]. cbn. destruct Ch as [H _]. exact H.
      + intros x [].
    - (* unmarked *)
      assert (HI0 : Inv (aset n false m) o).
      { destruct HI as (ND & P & T & HU). split; [exact ND|]. split; [|split; assumption].
        intro x. rewrite perm_aset_false by exact L. apply P. }
      assert (HP0 : PathInv (aset n false m) (n :: stk)).
      { destruct HP as (T & ND & C & HU). split; [|split; [|split]].
        - intro x. rewrite temp_aset_false. cbn. rewrite T. intuition.
        - constructor; [|exact ND]. intro Hn. apply T in Hn. unfold temp in Hn. congruence.
        - exact Ch.
        - intros x [<-|Hx]; auto. }
      pose proof (dfs_loop_spec (dfs preds f) n stk Un) as HL.
      specialize (HL (fun p m1 o1 HI1 HP1 Hp =>
                        IH p m1 o1 (n :: stk) HI1 HP1
                           (chain_cons preds p n stk Hp Ch) (U_closed n p Un Hp))).
      specialize (HL (preds n) (aset n false m) o (incl_refl _) HI0 HP0).
      destruct (dfs_loop (dfs preds f) n (preds n) (aset n false m) o) as [m1 o1|e|];
        [|exact HL|exact I].
      destruct HL as (HI1 & Pps & Pm & Tm & (l & ->)).
      destruct HI1 as (ND1 & P1 & T1 & HU1).
      assert (Tn : temp m1 n) by (apply Tm; apply temp_aset_false; left; reflexivity).
      assert (Hno : ~ In n (o ++ l)).
      { intro Hn. apply P1 in Hn. unfold perm, temp in *. congruence. }
      cbn. split; [|split; [|split; [|split]]].
      + split; [|split; [|split]].
        * apply NoDup_snoc; assumption.
        * intro x. rewrite perm_aset_true, in_app_iff, P1. cbn. intuition.
        * apply tsorted_snoc; [exact T1|]. intros p Hp. apply P1. apply Pps. exact Hp.
        * intros x Hx. apply in_app_or in Hx. destruct Hx as [Hx|[<-|[]]]; auto.
      + apply perm_aset_true. left. reflexivity.
      + intros x Hx. apply perm_aset_true. right. apply Pm. apply perm_aset_false; assumption.
      + intro x. rewrite temp_aset_true by exact Tn. rewrite Tm, temp_aset_false.
        split.
        * intros [[->|H] Hne]; [congruence|exact H].
        * intro H. split; [right; exact H|]. intros ->. unfold temp in H. congruence.
      + exists (l ++ [n]). rewrite app_assoc. reflexivity.
  Qed.

  (* ---------------------------------------------------------------- top-level loop *)

  Lemma position_hd c l : position c (c :: l) = Some 0%nat.
  Proof. cbn. rewrite N.eqb_refl. reflexivity. Qed.

  Lemma topo_loop_spec fuel : forall ns m o,
    Inv m o -> PathInv m [] -> (forall x, In x ns -> U x) ->
    match topo_loop preds fuel ns m o with
    | TOk o' => exists m', Inv m' o' /\ (forall x, In x ns -> In x o') /\ (forall x, In x o -> In x o')
    | TErr c => is_cycle preds c /\ (forall x, In x c -> U x)
    | TFuel => True
    end.
  Proof.
    induction ns as [|n ns IH]; intros m o HI HP HU; cbn.
    - exists m. split; [exact HI|]. split; [intros x []|auto].
    - pose proof (dfs_spec fuel n m o [] HI HP I (HU n (or_introl eq_refl))) as HS.
      destruct (dfs preds fuel n m o) as [m1 o1|e|]; cbn in HS; [| |exact I].
      + destruct HS as (HI1 & Pn & Pm & Tm & (l & ->)).
        assert (HP1 : PathInv m1 []).
        { destruct HP as (T & R). split; [|exact R]. intro x. rewrite Tm. apply T. }
        specialize (IH m1 (o ++ l) HI1 HP1 (fun x Hx => HU x (or_intror Hx))).
        destruct (topo_loop preds fuel ns m1 (o ++ l)) as [o2|c|]; [|exact IH|exact I].
        destruct IH as (m2 & HI2 & Hns & Ho). exists m2. split; [exact HI2|]. split.
        * intros x [<-|Hx]; [|auto]. apply Ho. destruct HI1 as (_ & P1 & _). apply P1. exact Pn.
        * intros x Hx. apply Ho. apply in_or_app. left. exact Hx.
      + destruct HS as [(c & l & -> & Hc & HUc)|(c & l & _ & [] & _)].
        change (c :: l ++ [c]) with ((c :: l) ++ [c]). rewrite last_snoc.
        cbn [app]. rewrite position_hd. cbn [skipn]. split; assumption.
  Qed.
End TopoProofs.

(* ------------------------------------------------------------------ the theorems *)

Lemma Inv_init preds U : Inv preds U [] [].
Proof.
  split; [constructor|]. split; [|split; [apply tsorted_nil|intros x []]].
  intro x. unfold perm. cbn. split; [intros []|discriminate].
Qed.

Lemma PathInv_init preds U : PathInv preds U [] [].
Proof.
  split; [|split; [constructor|split; [exact I|intros x []]]].
  intro x. unfold temp. cbn. split; [discriminate|intros []].
Qed.

Theorem topo_sort_ok preds fuel nodes o :
  topo_sort_fuel preds fuel nodes = TOk o ->
  NoDup o /\ incl nodes o /\ tsorted preds o /\
  (forall s p, In s o -> In p (preds s) -> before p s o) /\
  (forall U : N -> Prop, (forall x p, U x -> In p (preds x) -> U p) ->
                         (forall x, In x nodes -> U x) -> forall x, In x o -> U x).
Proof.
  intro H. unfold topo_sort_fuel in H.
  assert (A : forall U : N -> Prop, (forall x p, U x -> In p (preds x) -> U p) ->
              (forall x, In x nodes -> U x) ->
              NoDup o /\ incl nodes o /\ tsorted preds o /\ (forall x, In x o -> U x)).
  { intros U Uc Un.
    pose proof (topo_loop_spec preds U Uc fuel nodes [] [] (Inv_init preds U) (PathInv_init preds U) Un) as S.
    rewrite H in S. destruct S as (m' & (ND & P & T & HU) & Hn & _). auto. }
  destruct (A (fun _ => True) (fun _ _ _ _ => I) (fun _ _ => I)) as (ND & Hn & T & _).
  split; [exact ND|]. split; [exact Hn|]. split; [exact T|]. split.
  - apply tsorted_before; assumption.
  - intros U Uc Un. apply (A U Uc Un).
Qed.

Corollary topo_sort_ok_perm preds fuel nodes o :
  NoDup nodes -> (forall x p, In x nodes -> In p (preds x) -> In p nodes) ->
  topo_sort_fuel preds fuel nodes = TOk o -> Permutation o nodes.
Proof.
  intros ND Cl H. destruct (topo_sort_ok preds fuel nodes o H) as (NDo & Hn & _ & _ & HU).
  apply NoDup_Permutation; [exact NDo|exact ND|].
  intro x. split; [|apply Hn]. apply (HU (fun x => In x nodes) Cl (fun x Hx => Hx)).
Qed.

Theorem topo_sort_cycle preds fuel nodes c :
  topo_sort_fuel preds fuel nodes = TErr c ->
  is_cycle preds c /\
  (forall U : N -> Prop, (forall x p, U x -> In p (preds x) -> U p) ->
                         (forall x, In x nodes -> U x) -> forall x, In x c -> U x).
Proof.
  intro H. unfold topo_sort_fuel in H.
  assert (A : forall U : N -> Prop, (forall x p, U x -> In p (preds x) -> U p) ->
              (forall x, In x nodes -> U x) -> is_cycle preds c /\ (forall x, In x c -> U x)).
  { intros U Uc Un.
    pose proof (topo_loop_spec preds U Uc fuel nodes [] [] (Inv_init preds U) (PathInv_init preds U) Un) as S.
    rewrite H in S. exact S. }
  split.
  - apply (A (fun _ => True) (fun _ _ _ _ => I) (fun _ _ => I)).
  - intros U Uc Un. apply (A U Uc Un).
Qed.
