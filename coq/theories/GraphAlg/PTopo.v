(* GraphAlg engine: proofs about the topo_sort model (dfir_lang/src/graph/graph_algorithms.rs). *)
From Coq Require Import List NArith Bool Arith Lia Permutation.
From HV Require Import GraphAlg.Model GraphAlg.PUf.
Import ListNotations.

(* ------------------------------------------------------------------ statement vocabulary *)

(* consecutive elements (a, b) are edges a -> b, i.e. a is a predecessor of b *)
Fixpoint chain (preds : N -> list N) (c : list N) : Prop :=
  match c with
  | a :: (b :: _) as r => In a (preds b) /\ chain preds r
  | _ => True
  end.

(* a cycle listed in edge direction, each node once; the last node is a predecessor of the first *)
Definition is_cycle (preds : N -> list N) (c : list N) : Prop :=
  c <> [] /\ NoDup c /\ chain preds c /\ In (last c 0%N) (preds (hd 0%N c)).

(* every predecessor of an element occurs strictly earlier *)
Definition tsorted (preds : N -> list N) (o : list N) : Prop :=
  forall l1 s l2, o = l1 ++ s :: l2 -> incl (preds s) l1.

Definition before (p s : N) (o : list N) : Prop :=
  exists l1 l2 l3, o = l1 ++ p :: l2 ++ s :: l3.

Inductive reach (preds : N -> list N) (nodes : list N) : N -> Prop :=
| reach_node x : In x nodes -> reach preds nodes x
| reach_pred x p : reach preds nodes x -> In p (preds x) -> reach preds nodes p.

(* ------------------------------------------------------------------ list lemmas *)

Lemma app_snoc_split {A} (o l1 l2 : list A) (n s : A) :
  o ++ [n] = l1 ++ s :: l2 ->
  (l2 = [] /\ s = n /\ l1 = o) \/ (exists l2', l2 = l2' ++ [n] /\ o = l1 ++ s :: l2').
Proof.
  destruct l2 as [|x l2] using rev_ind.
  - intro H. left. apply app_inj_tail in H. destruct H; subst; auto.
  - intro H. right. exists l2.
    replace (l1 ++ s :: l2 ++ [x]) with ((l1 ++ s :: l2) ++ [x]) in H
      by (rewrite <- app_assoc; reflexivity).
    apply app_inj_tail in H. destruct H; subst; auto.
Qed.

Lemma tsorted_nil preds : tsorted preds [].
Proof. intros l1 s l2 H. destruct l1; discriminate. Qed.

Lemma tsorted_snoc preds o n :
  tsorted preds o -> incl (preds n) o -> tsorted preds (o ++ [n]).
Proof.
  intros T I l1 s l2 H. apply app_snoc_split in H.
  destruct H as [(-> & -> & ->)|(l2' & -> & ->)]; [exact I|].
  eapply T; reflexivity.
Qed.

Lemma tsorted_before preds o :
  NoDup o -> tsorted preds o ->
  forall s p, In s o -> In p (preds s) -> before p s o.
Proof.
  intros ND T s p Hs Hp. apply in_split in Hs. destruct Hs as (l1 & l2 & ->).
  specialize (T l1 s l2 eq_refl p Hp). apply in_split in T. destruct T as (a & b & ->).
  exists a, b, l2. rewrite <- app_assoc. reflexivity.
Qed.

Lemma tsorted_closed preds o s p :
  tsorted preds o -> In s o -> In p (preds s) -> In p o.
Proof.
  intros T Hs Hp. apply in_split in Hs. destruct Hs as (l1 & l2 & ->).
  apply in_or_app. left. exact (T l1 s l2 eq_refl p Hp).
Qed.

Lemma chain_app_l preds a b : chain preds (a ++ b) -> chain preds a.
Proof.
  induction a as [|x a IH]; intro H; [exact I|].
  destruct a as [|y a]; [exact I|].
  cbn in H |- *. destruct H as [H1 H2]. split; [exact H1|]. apply IH. exact H2.
Qed.

Lemma chain_cons preds p n stk :
  In p (preds n) -> chain preds (n :: stk) -> chain preds (p :: n :: stk).
Proof. intros; split; assumption. Qed.

Lemma chain_tail preds n stk : chain preds (n :: stk) -> chain preds stk.
Proof. destruct stk; cbn; tauto. Qed.

Lemma NoDup_app_l {A} (a b : list A) : NoDup (a ++ b) -> NoDup a.
Proof.
  induction a as [|x a IH]; cbn; intro H; [constructor|].
  inversion H; subst. constructor; [|auto]. intro Hx. apply H2. apply in_or_app. left. exact Hx.
Qed.

Lemma NoDup_app_disj {A} (a b : list A) x : NoDup (a ++ b) -> In x a -> In x b -> False.
Proof.
  induction a as [|y a IH]; cbn; intros H Ha Hb; [destruct Ha|].
  inversion H; subst. destruct Ha as [->|Ha]; [|auto].
  apply H2. apply in_or_app. right. exact Hb.
Qed.

Lemma NoDup_snoc {A} (l : list A) x : NoDup l -> ~ In x l -> NoDup (l ++ [x]).
Proof.
  induction l as [|y l IH]; cbn; intros H Hx; [constructor; [intros []|constructor]|].
  inversion H; subst. constructor.
  - intro Hy. apply in_app_or in Hy. destruct Hy as [Hy|[->|[]]]; [auto|]. apply Hx. left. reflexivity.
  - apply IH; [assumption|]. intro. apply Hx. right. assumption.
Qed.

Lemma hd_app {A} (d : A) a b : a <> [] -> hd d (a ++ b) = hd d a.
Proof. destruct a; [congruence|reflexivity]. Qed.

Lemma last_snoc {A} (d : A) l x : last (l ++ [x]) d = x.
Proof. apply last_last. Qed.

(* ------------------------------------------------------------------ the DFS invariant *)

Section TopoProofs.
  Variable preds : N -> list N.
  Variable U : N -> Prop.
  Hypothesis U_closed : forall x p, U x -> In p (preds x) -> U p.

  Definition perm (m : list (N * bool)) (x : N) : Prop := alookup x m = Some true.
  Definition temp (m : list (N * bool)) (x : N) : Prop := alookup x m = Some false.

  Definition Inv (m : list (N * bool)) (o : list N) : Prop :=
    NoDup o /\ (forall x, In x o <-> perm m x) /\ tsorted preds o /\ (forall x, In x o -> U x).

  Definition PathInv (m : list (N * bool)) (stk : list N) : Prop :=
    (forall x, temp m x <-> In x stk) /\ NoDup stk /\ chain preds stk /\ (forall x, In x stk -> U x).

  Definition OkPost (n : N) (m : list (N * bool)) (o : list N) (m' : list (N * bool)) (o' : list N) : Prop :=
    Inv m' o' /\ perm m' n /\ (forall x, perm m x -> perm m' x) /\
    (forall x, temp m' x <-> temp m x) /\ (exists l, o' = o ++ l).

  Definition ErrPost (stk e : list N) : Prop :=
    (exists c l, e = c :: l ++ [c] /\ is_cycle preds (l ++ [c]) /\ (forall x, In x (l ++ [c]) -> U x)) \/
    (exists c l, e = c :: l /\ In c stk /\ NoDup (l ++ stk) /\ chain preds (l ++ stk) /\
                 In c (preds (hd 0%N (l ++ stk))) /\ (forall x, In x l -> U x)).

  Definition Spec (n : N) (m : list (N * bool)) (o stk : list N) (r : dres) : Prop :=
    match r with
    | DOk m' o' => OkPost n m o m' o'
    | DErr e => ErrPost stk e
    | DFuel => True
    end.

  Lemma perm_aset_true n m x : perm (aset n true m) x <-> x = n \/ perm m x.
  Proof.
    unfold perm. rewrite alookup_aset. destruct (N.eqb x n) eqn:E.
    - apply N.eqb_eq in E. tauto.
    - apply N.eqb_neq in E. tauto.
  Qed.

  Lemma temp_aset_true n m x : temp m n -> (temp (aset n true m) x <-> temp m x /\ x <> n).
  Proof.
    unfold temp. rewrite alookup_aset. destruct (N.eqb x n) eqn:E.
    - apply N.eqb_eq in E. subst. intro H. split; [discriminate|tauto].
    - apply N.eqb_neq in E. tauto.
  Qed.

  Lemma perm_aset_false n m x : alookup n m = None -> (perm (aset n false m) x <-> perm m x).
  Proof.
    unfold perm. rewrite alookup_aset. destruct (N.eqb x n) eqn:E.
    - apply N.eqb_eq in E. subst. intro H. rewrite H. split; discriminate.
    - tauto.
  Qed.

  Lemma temp_aset_false n m x : temp (aset n false m) x <-> x = n \/ temp m x.
  Proof.
    unfold temp. rewrite alookup_aset. destruct (N.eqb x n) eqn:E.
    - apply N.eqb_eq in E. tauto.
    - apply N.eqb_neq in E. tauto.
  Qed.

  (* the error-propagation step of one frame *)
  Lemma map_err_push_spec n stk e :
    ErrPost (n :: stk) e -> U n -> ErrPost stk (map_err_push n e).
  Proof.
    intros [(c & l & -> & Hc & HU)|(c & l & -> & Hin & ND & Ch & Hp & HU)] Un.
    - (* closed: first = last, length >= 2: no push *)
      left. exists c, l. split; [|split; assumption].
      unfold map_err_push.
      replace (Nat.eqb (length (c :: l ++ [c])) 1) with false
        by (cbn; rewrite app_length; cbn; destruct (length l); reflexivity).
      change (c :: l ++ [c]) with ((c :: l) ++ [c]). rewrite last_snoc. cbn [hd app].
      rewrite N.eqb_refl. reflexivity.
    - (* open: always pushes *)
      assert (Hnl : ~ In c l).
      { intro Hl. eapply NoDup_app_disj; [exact ND|exact Hl|exact Hin]. }
      assert (Hpush : map_err_push n (c :: l) = c :: l ++ [n]).
      { unfold map_err_push. destruct l as [|y l] using rev_ind; [reflexivity|].
        change (c :: l ++ [y]) with ((c :: l) ++ [y]). rewrite last_snoc. cbn [hd app].
        destruct (N.eqb c y) eqn:E.
        - apply N.eqb_eq in E. subst. exfalso. apply Hnl. apply in_or_app. right. left. reflexivity.
        - rewrite orb_true_r. reflexivity. }
      rewrite Hpush.
      assert (Eapp : (l ++ [n]) ++ stk = l ++ n :: stk) by (rewrite <- app_assoc; reflexivity).
      destruct Hin as [<-|Hin].
      + (* the frame of c itself: the cycle closes *)
        left. exists n, l. split; [reflexivity|]. split.
        * unfold is_cycle. split; [destruct l; discriminate|]. split.
          { rewrite <- Eapp in ND. apply NoDup_app_l in ND. exact ND. }
          split.
          { rewrite <- Eapp in Ch. apply chain_app_l in Ch. exact Ch. }
          rewrite last_snoc. rewrite <- Eapp in Hp. rewrite hd_app in Hp by (destruct l; discriminate).
          exact Hp.
        * intros x Hx. apply in_app_or in Hx. destruct Hx as [Hx|[<-|[]]]; auto.
      + right. exists c, (l ++ [n]). rewrite Eapp. repeat split; auto.
        intros x Hx. apply in_app_or in Hx. destruct Hx as [Hx|[<-|[]]]; auto.
  Qed.

  Lemma dfs_loop_spec (rec : N -> list (N * bool) -> list N -> dres) n stk :
    U n ->
    (forall p m o, Inv m o -> PathInv m (n :: stk) -> In p (preds n) -> Spec p m o (n :: stk) (rec p m o)) ->
    forall ps m o, incl ps (preds n) -> Inv m o -> PathInv m (n :: stk) ->
    match dfs_loop rec n ps m o with
    | DOk m' o' => Inv m' o' /\ (forall p, In p ps -> perm m' p) /\ (forall x, perm m x -> perm m' x) /\
                   (forall x, temp m' x <-> temp m x) /\ (exists l, o' = o ++ l)
    | DErr e => ErrPost stk e
    | DFuel => True
    end.
  Proof.
    intros Un Hrec. induction ps as [|p ps IH]; intros m o Hin HI HP; cbn.
    - split; [exact HI|]. split; [intros p []|]. split; [auto|]. split; [tauto|].
      exists []. rewrite app_nil_r. reflexivity.
    - assert (Hp : In p (preds n)) by (apply Hin; left; reflexivity).
      specialize (Hrec p m o HI HP Hp). destruct (rec p m o) as [m1 o1|e|]; cbn in Hrec; [| |exact I].
      + destruct Hrec as (HI1 & Pp & Pm & Tm & (l1 & ->)).
        assert (HP1 : PathInv m1 (n :: stk)).
        { destruct HP as (T & R). split; [|exact R]. intro x. rewrite Tm. apply T. }
        specialize (IH m1 (o ++ l1) (fun x Hx => Hin x (or_intror Hx)) HI1 HP1).
        destruct (dfs_loop rec n ps m1 (o ++ l1)) as [m2 o2|e|]; [| exact IH | exact I].
        destruct IH as (HI2 & Pps & Pm2 & Tm2 & (l2 & ->)).
        split; [exact HI2|]. split.
        { intros q [<-|Hq]; auto. }
        split; [auto|]. split.
        { intro x. rewrite Tm2. apply Tm. }
        exists (l1 ++ l2). rewrite app_assoc. reflexivity.
      + apply map_err_push_spec; assumption.
  Qed.

  Lemma dfs_spec : forall fuel n m o stk,
    Inv m o -> PathInv m stk -> chain preds (n :: stk) -> U n ->
    Spec n m o stk (dfs preds fuel n m o).
  Proof.
    induction fuel as [|f IH]; intros n m o stk HI HP Ch Un; [exact I|].
    cbn [dfs]. destruct (alookup n m) as [[|]|] eqn:L.
    - (* permanent *)
      cbn. split; [exact HI|]. split; [exact L|]. split; [auto|]. split; [tauto|].
      exists []. rewrite app_nil_r. reflexivity.
    - (* temporary: cycle found *)
      cbn. right. exists n, []. cbn [app].
      destruct HP as (T & ND & C & HU).
      assert (Hin : In n stk) by (apply T; exact L).
      repeat split; auto.
      + destruct stk as [|h stk']; [destruct Hin|]. cbn. destruct Ch as [H _]. exact H.
      + intros x [].
    - (* unmarked *)
      assert (HI0 : Inv (aset n false m) o).
      { destruct HI as (ND & P & T & HU). split; [exact ND|]. split; [|split; assumption].
        intro x. rewrite perm_aset_false by exact L. apply P. }
      assert (HP0 : PathInv (aset n false m) (n :: stk)).
      { destruct HP as (T & ND & C & HU). split; [|split; [|split]].
        - intro x. rewrite temp_aset_false. cbn. rewrite T. intuition.
        - constructor; [|exact ND]. intro Hn. apply T in Hn. unfold temp in Hn. congruence.
        - exact Ch.
        - intros x [<-|Hx]; auto. }
      pose proof (dfs_loop_spec (dfs preds f) n stk Un) as HL.
      specialize (HL (fun p m1 o1 HI1 HP1 Hp =>
                        IH p m1 o1 (n :: stk) HI1 HP1
                           (chain_cons preds p n stk Hp Ch) (U_closed n p Un Hp))).
      specialize (HL (preds n) (aset n false m) o (incl_refl _) HI0 HP0).
      destruct (dfs_loop (dfs preds f) n (preds n) (aset n false m) o) as [m1 o1|e|];
        [|exact HL|exact I].
      destruct HL as (HI1 & Pps & Pm & Tm & (l & ->)).
      destruct HI1 as (ND1 & P1 & T1 & HU1).
      assert (Tn : temp m1 n) by (apply Tm; apply temp_aset_false; left; reflexivity).
      assert (Hno : ~ In n (o ++ l)).
      { intro Hn. apply P1 in Hn. unfold perm, temp in *. congruence. }
      cbn. split; [|split; [|split; [|split]]].
      + split; [|split; [|split]].
        * apply NoDup_snoc; assumption.
        * intro x. rewrite perm_aset_true, in_app_iff, P1. cbn. intuition.
        * apply tsorted_snoc; [exact T1|]. intros p Hp. apply P1. apply Pps. exact Hp.
        * intros x Hx. apply in_app_or in Hx. destruct Hx as [Hx|[<-|[]]]; auto.
      + apply perm_aset_true. left. reflexivity.
      + intros x Hx. apply perm_aset_true. right. apply Pm. apply perm_aset_false; assumption.
      + intro x. rewrite temp_aset_true by exact Tn. rewrite Tm, temp_aset_false.
        split.
        * intros [[->|H] Hne]; [congruence|exact H].
        * intro H. split; [right; exact H|]. intros ->. unfold temp in H. congruence.
      + exists (l ++ [n]). rewrite app_assoc. reflexivity.
  Qed.

  (* ---------------------------------------------------------------- top-level loop *)

  Lemma position_hd c l : position c (c :: l) = Some 0%nat.
  Proof. cbn. rewrite N.eqb_refl. reflexivity. Qed.

  Lemma topo_loop_spec fuel : forall ns m o,
    Inv m o -> PathInv m [] -> (forall x, In x ns -> U x) ->
    match topo_loop preds fuel ns m o with
    | TOk o' => exists m', Inv m' o' /\ (forall x, In x ns -> In x o') /\ (forall x, In x o -> In x o')
    | TErr c => is_cycle preds c /\ (forall x, In x c -> U x)
    | TFuel => True
    end.
  Proof.
    induction ns as [|n ns IH]; intros m o HI HP HU; cbn.
    - exists m. split; [exact HI|]. split; [intros x []|auto].
    - pose proof (dfs_spec fuel n m o [] HI HP I (HU n (or_introl eq_refl))) as HS.
      destruct (dfs preds fuel n m o) as [m1 o1|e|]; cbn in HS; [| |exact I].
      + destruct HS as (HI1 & Pn & Pm & Tm & (l & ->)).
        assert (HP1 : PathInv m1 []).
        { destruct HP as (T & R). split; [|exact R]. intro x. rewrite Tm. apply T. }
        specialize (IH m1 (o ++ l) HI1 HP1 (fun x Hx => HU x (or_intror Hx))).
        destruct (topo_loop preds fuel ns m1 (o ++ l)) as [o2|c|]; [|exact IH|exact I].
        destruct IH as (m2 & HI2 & Hns & Ho). exists m2. split; [exact HI2|]. split.
        * intros x [<-|Hx]; [|auto]. apply Ho. destruct HI1 as (_ & P1 & _). apply P1. exact Pn.
        * intros x Hx. apply Ho. apply in_or_app. left. exact Hx.
      + destruct HS as [(c & l & -> & Hc & HUc)|(c & l & _ & [] & _)].
        change (c :: l ++ [c]) with ((c :: l) ++ [c]). rewrite last_snoc.
        cbn [app]. rewrite position_hd. cbn [skipn]. split; assumption.
  Qed.
End TopoProofs.

(* ------------------------------------------------------------------ the theorems *)

Lemma Inv_init preds U : Inv preds U [] [].
Proof.
  split; [constructor|]. split; [|split; [apply tsorted_nil|intros x []]].
  intro x. unfold perm. cbn. split; [intros []|discriminate].
Qed.

Lemma PathInv_init preds U : PathInv preds U [] [].
Proof.
  split; [|split; [constructor|split; [exact I|intros x []]]].
  intro x. unfold temp. cbn. split; [discriminate|intros []].
Qed.

Theorem topo_sort_ok preds fuel nodes o :
  topo_sort_fuel preds fuel nodes = TOk o ->
  NoDup o /\ incl nodes o /\ tsorted preds o /\
  (forall s p, In s o -> In p (preds s) -> before p s o) /\
  (forall U : N -> Prop, (forall x p, U x -> In p (preds x) -> U p) ->
                         (forall x, In x nodes -> U x) -> forall x, In x o -> U x).
Proof.
  intro H. unfold topo_sort_fuel in H.
  assert (A : forall U : N -> Prop, (forall x p, U x -> In p (preds x) -> U p) ->
              (forall x, In x nodes -> U x) ->
              NoDup o /\ incl nodes o /\ tsorted preds o /\ (forall x, In x o -> U x)).
  { intros U Uc Un.
    pose proof (topo_loop_spec preds U Uc fuel nodes [] [] (Inv_init preds U) (PathInv_init preds U) Un) as S.
    rewrite H in S. destruct S as (m' & (ND & P & T & HU) & Hn & _). auto. }
  destruct (A (fun _ => True) (fun _ _ _ _ => I) (fun _ _ => I)) as (ND & Hn & T & _).
  split; [exact ND|]. split; [exact Hn|]. split; [exact T|]. split.
  - apply tsorted_before; assumption.
  - intros U Uc Un. apply (A U Uc Un).
Qed.

Corollary topo_sort_ok_perm preds fuel nodes o :
  NoDup nodes -> (forall x p, In x nodes -> In p (preds x) -> In p nodes) ->
  topo_sort_fuel preds fuel nodes = TOk o -> Permutation o nodes.
Proof.
  intros ND Cl H. destruct (topo_sort_ok preds fuel nodes o H) as (NDo & Hn & _ & _ & HU).
  apply NoDup_Permutation; [exact NDo|exact ND|].
  intro x. split; [|apply Hn]. apply (HU (fun x => In x nodes) Cl (fun x Hx => Hx)).
Qed.

Theorem topo_sort_cycle preds fuel nodes c :
  topo_sort_fuel preds fuel nodes = TErr c ->
  is_cycle preds c /\
  (forall U : N -> Prop, (forall x p, U x -> In p (preds x) -> U p) ->
                         (forall x, In x nodes -> U x) -> forall x, In x c -> U x).
Proof.
  intro H. unfold topo_sort_fuel in H.
  assert (A : forall U : N -> Prop, (forall x p, U x -> In p (preds x) -> U p) ->
              (forall x, In x nodes -> U x) -> is_cycle preds c /\ (forall x, In x c -> U x)).
  { intros U Uc Un.
    pose proof (topo_loop_spec preds U Uc fuel nodes [] [] (Inv_init preds U) (PathInv_init preds U) Un) as S.
    rewrite H in S. exact S. }
  split.
  - apply (A (fun _ => True) (fun _ _ _ _ => I) (fun _ _ => I)).
  - intros U Uc Un. apply (A U Uc Un).
Qed.

(* ------------------------------------------------------------------ fuel *)

Definition marks_mono (m m' : list (N * bool)) : Prop :=
  forall x, alookup x m <> None -> alookup x m' <> None.

Lemma marks_mono_aset n b m : marks_mono m (aset n b m).
Proof. intros x H. rewrite alookup_aset. destruct (N.eqb x n); [discriminate|exact H]. Qed.

Lemma filter_length_le_impl {A} (f g : A -> bool) (L : list A) :
  (forall x, In x L -> f x = true -> g x = true) -> length (filter f L) <= length (filter g L).
Proof.
  induction L as [|a L IH]; cbn; intro H; [lia|].
  specialize (IH (fun x Hx => H x (or_intror Hx))).
  destruct (f a) eqn:Fa; [rewrite (H a (or_introl eq_refl) Fa); cbn; lia|].
  destruct (g a); cbn; lia.
Qed.

Lemma filter_length_lt {A} (f g : A -> bool) (L : list A) a :
  (forall x, In x L -> f x = true -> g x = true) -> In a L -> g a = true -> f a = false ->
  length (filter f L) < length (filter g L).
Proof.
  induction L as [|b L IH]; cbn; intros H Ha Ga Fa; [destruct Ha|].
  destruct Ha as [->|Ha].
  - rewrite Fa, Ga. cbn.
    pose proof (filter_length_le_impl f g L (fun x Hx => H x (or_intror Hx))). lia.
  - specialize (IH (fun x Hx => H x (or_intror Hx)) Ha Ga Fa).
    destruct (f b) eqn:Fb; [rewrite (H b (or_introl eq_refl) Fb); cbn; lia|].
    destruct (g b); cbn; lia.
Qed.

Section Fuel.
  Variable preds : N -> list N.
  Variable L : list N.
  Hypothesis L_closed : forall x p, In x L -> In p (preds x) -> In p L.

  Definition unmarkedb (m : list (N * bool)) (x : N) : bool :=
    match alookup x m with None => true | Some _ => false end.
  Definition unmarked (m : list (N * bool)) : nat := length (filter (unmarkedb m) L).

  Lemma unmarked_mono m m' : marks_mono m m' -> unmarked m' <= unmarked m.
  Proof.
    intro H. apply filter_length_le_impl. intros x _. unfold unmarkedb.
    specialize (H x). destruct (alookup x m); [|reflexivity].
    destruct (alookup x m'); [discriminate|]. exfalso. apply H; [discriminate|reflexivity].
  Qed.

  Lemma dfs_loop_mono (rec : N -> list (N * bool) -> list N -> dres) n :
    (forall p m o m' o', rec p m o = DOk m' o' -> marks_mono m m') ->
    forall ps m o m' o', dfs_loop rec n ps m o = DOk m' o' -> marks_mono m m'.
  Proof.
    intro Hrec. induction ps as [|p ps IH]; cbn; intros m o m' o' H.
    - inversion H; subst. intros x Hx; exact Hx.
    - destruct (rec p m o) as [m1 o1|e|] eqn:R; try discriminate.
      intros x Hx. eapply IH; [exact H|]. eapply Hrec; eassumption.
  Qed.

  Lemma dfs_mono : forall f n m o m' o', dfs preds f n m o = DOk m' o' -> marks_mono m m'.
  Proof.
    induction f as [|f IH]; cbn; intros n m o m' o' H; [discriminate|].
    destruct (alookup n m) as [[|]|] eqn:Ln.
    - inversion H; subst. intros x Hx; exact Hx.
    - discriminate.
    - destruct (dfs_loop (dfs preds f) n (preds n) (aset n false m) o) as [m1 o1|e|] eqn:D;
        try discriminate.
      inversion H; subst. intros x Hx. apply marks_mono_aset.
      eapply (dfs_loop_mono (dfs preds f) n IH); [exact D|]. apply marks_mono_aset. exact Hx.
  Qed.

  Lemma dfs_loop_fuel (rec : N -> list (N * bool) -> list N -> dres) n k :
    (forall p m o m' o', rec p m o = DOk m' o' -> marks_mono m m') ->
    (forall p m o, In p L -> unmarked m <= k -> rec p m o <> DFuel) ->
    forall ps m o, (forall p, In p ps -> In p L) -> unmarked m <= k ->
                   dfs_loop rec n ps m o <> DFuel.
  Proof.
    intros Hmono Hrec. induction ps as [|p ps IH]; cbn; intros m o Hin Hk; [discriminate|].
    destruct (rec p m o) as [m1 o1|e|] eqn:R.
    - apply IH; [intros q Hq; apply Hin; right; exact Hq|].
      pose proof (unmarked_mono m m1 (Hmono _ _ _ _ _ R)). lia.
    - discriminate.
    - exfalso. eapply Hrec; [apply Hin; left; reflexivity|exact Hk|exact R].
  Qed.

  Lemma dfs_fuel : forall f n m o, In n L -> unmarked m < f -> dfs preds f n m o <> DFuel.
  Proof.
    induction f as [|f IH]; intros n m o Hn Hf; [lia|].
    cbn. destruct (alookup n m) as [[|]|] eqn:Ln; try discriminate.
    assert (Hlt : unmarked (aset n false m) < unmarked m).
    { apply (filter_length_lt _ _ L n).
      - intros x _. unfold unmarkedb. rewrite alookup_aset.
        destruct (N.eqb x n); [discriminate|auto].
      - exact Hn.
      - unfold unmarkedb. rewrite Ln. reflexivity.
      - unfold unmarkedb. rewrite alookup_aset, N.eqb_refl. reflexivity. }
    pose proof (dfs_loop_fuel (dfs preds f) n (unmarked (aset n false m)) (dfs_mono f)) as HL.
    specialize (HL (fun p m1 o1 Hp Hk => IH p m1 o1 Hp ltac:(lia))).
    specialize (HL (preds n) (aset n false m) o (fun p Hp => L_closed n p Hn Hp) (le_n _)).
    destruct (dfs_loop (dfs preds f) n (preds n) (aset n false m) o); [discriminate|discriminate|].
    exfalso. apply HL. reflexivity.
  Qed.

  Lemma topo_loop_fuel fuel : forall ns m o,
    (forall x, In x ns -> In x L) -> length L < fuel -> topo_loop preds fuel ns m o <> TFuel.
  Proof.
    induction ns as [|n ns IH]; cbn; intros m o Hin Hf; [discriminate|].
    destruct (dfs preds fuel n m o) as [m1 o1|e|] eqn:D.
    - apply IH; [intros x Hx; apply Hin; right; exact Hx|exact Hf].
    - destruct (position (last e 0%N) e); discriminate.
    - exfalso. eapply dfs_fuel; [apply Hin; left; reflexivity| |exact D].
      unfold unmarked. pose proof (filter_length_le_impl (unmarkedb m) (fun _ => true) L (fun _ _ _ => eq_refl)).
      assert (E : filter (fun _ : N => true) L = L)
        by (clear; induction L as [|a l IHl]; cbn; [reflexivity|rewrite IHl; reflexivity]).
      rewrite E in H. lia.
  Qed.
End Fuel.

(* out of fuel is impossible as soon as the fuel exceeds the length of ANY list that contains
   the nodes and is closed under predecessors *)
Theorem topo_sort_fuel_ok preds fuel nodes (L : list N) :
  (forall x p, In x L -> In p (preds x) -> In p L) -> incl nodes L -> length L < fuel ->
  topo_sort_fuel preds fuel nodes <> TFuel.
Proof. intros Cl Hin Hf. unfold topo_sort_fuel. apply (topo_loop_fuel preds L Cl); assumption. Qed.

Corollary topo_sort_closed_no_fuel nodes preds :
  (forall x p, In x nodes -> In p (preds x) -> In p nodes) -> topo_sort nodes preds <> TFuel.
Proof.
  intro Cl. unfold topo_sort. apply (topo_sort_fuel_ok preds _ nodes nodes Cl (incl_refl _)). lia.
Qed.

Lemma alookup_in {A} k (v : A) m : alookup k m = Some v -> In (k, v) m.
Proof.
  induction m as [|[k0 v0] r IH]; cbn; [discriminate|].
  destruct (N.eqb k k0) eqn:E; [|auto].
  apply N.eqb_eq in E. subst. intro H. inversion H. left. reflexivity.
Qed.

Corollary topo_sort_adj_no_fuel nodes adj : topo_sort_adj nodes adj <> TFuel.
Proof.
  unfold topo_sort_adj.
  apply (topo_sort_fuel_ok (preds_of adj) _ nodes (nodes ++ concat (map snd adj))).
  - intros x p _ Hp. apply in_or_app. right. unfold preds_of in Hp.
    destruct (alookup x adj) as [l|] eqn:E; [|destruct Hp].
    apply alookup_in in E. apply in_concat. exists l. split; [|exact Hp].
    apply (in_map snd) in E. exact E.
  - apply incl_appl. apply incl_refl.
  - rewrite app_length. lia.
Qed.

(* ------------------------------------------------------------------ Ok iff acyclic *)

Lemma chain_has_pred preds : forall r a s,
  chain preds (a :: r) -> In s r -> exists p, In p (a :: r) /\ In p (preds s).
Proof.
  induction r as [|b r IH]; intros a s Ch Hs; [destruct Hs|].
  cbn in Ch. destruct Ch as [Hab Ch]. destruct Hs as [<-|Hs].
  - exists a. split; [left; reflexivity|exact Hab].
  - destruct (IH b s Ch Hs) as (p & Hp & Hps). exists p. split; [right; exact Hp|exact Hps].
Qed.

Lemma cycle_has_pred preds c s :
  is_cycle preds c -> In s c -> exists p, In p c /\ In p (preds s).
Proof.
  intros (Hne & _ & Ch & Hl) Hs. destruct c as [|a r]; [congruence|].
  destruct Hs as [<-|Hs].
  - exists (last (a :: r) 0%N). split; [|exact Hl].
    clear. revert a. induction r as [|b r IH]; intro a; [left; reflexivity|].
    right. apply (IH b).
  - exact (chain_has_pred preds r a s Ch Hs).
Qed.

Lemma first_in (c : list N) : forall o,
  (exists x, In x o /\ In x c) ->
  exists l1 s l2, o = l1 ++ s :: l2 /\ In s c /\ forall y, In y l1 -> ~ In y c.
Proof.
  induction o as [|a o IH]; intros (x & Hx & Hc); [destruct Hx|].
  destruct (in_dec N.eq_dec a c) as [Ha|Ha].
  - exists [], a, o. split; [reflexivity|]. split; [exact Ha|intros y []].
  - destruct Hx as [->|Hx]; [contradiction|].
    destruct (IH (ex_intro _ x (conj Hx Hc))) as (l1 & s & l2 & -> & Hs & Hl).
    exists (a :: l1), s, l2. split; [reflexivity|]. split; [exact Hs|].
    intros y [<-|Hy]; auto.
Qed.

Lemma tsorted_no_cycle preds o c :
  tsorted preds o -> is_cycle preds c -> incl c o -> False.
Proof.
  intros T Hc Hin. destruct c as [|a r] eqn:Ec; [destruct Hc as (H & _); congruence|]. rewrite <- Ec in *.
  assert (Hex : exists x, In x o /\ In x c).
  { exists a. split; [apply Hin|]; rewrite Ec; left; reflexivity. }
  destruct (first_in c o Hex) as (l1 & s & l2 & -> & Hs & Hl).
  destruct (cycle_has_pred preds c s Hc Hs) as (p & Hp & Hps).
  apply (Hl p); [|exact Hp]. exact (T l1 s l2 eq_refl p Hps).
Qed.

Lemma reach_in_order preds fuel nodes o :
  topo_sort_fuel preds fuel nodes = TOk o -> forall x, reach preds nodes x -> In x o.
Proof.
  intro H. destruct (topo_sort_ok preds fuel nodes o H) as (_ & Hn & T & _).
  induction 1 as [x Hx|x p _ IH Hp]; [apply Hn; exact Hx|].
  eapply tsorted_closed; eassumption.
Qed.

Theorem topo_sort_ok_acyclic preds fuel nodes o :
  topo_sort_fuel preds fuel nodes = TOk o ->
  ~ exists c, is_cycle preds c /\ forall x, In x c -> reach preds nodes x.
Proof.
  intros H (c & Hc & Hr). destruct (topo_sort_ok preds fuel nodes o H) as (_ & _ & T & _).
  apply (tsorted_no_cycle preds o c T Hc). intros x Hx. apply (reach_in_order preds fuel nodes o H). auto.
Qed.

Theorem topo_sort_err_reachable preds fuel nodes c :
  topo_sort_fuel preds fuel nodes = TErr c ->
  is_cycle preds c /\ forall x, In x c -> reach preds nodes x.
Proof.
  intro H. destruct (topo_sort_cycle preds fuel nodes c H) as (Hc & HU). split; [exact Hc|].
  apply HU; [intros x p Hx Hp; eapply reach_pred; eassumption|intros x Hx; apply reach_node; exact Hx].
Qed.

(* Ok exactly when no cycle is reachable from the nodes (for sufficient fuel) *)
Theorem topo_sort_ok_iff_acyclic preds fuel nodes (L : list N) :
  (forall x p, In x L -> In p (preds x) -> In p L) -> incl nodes L -> length L < fuel ->
  ((exists o, topo_sort_fuel preds fuel nodes = TOk o) <->
   ~ exists c, is_cycle preds c /\ forall x, In x c -> reach preds nodes x).
Proof.
  intros Cl Hin Hf. split.
  - intros (o & H). exact (topo_sort_ok_acyclic preds fuel nodes o H).
  - intro Hno. destruct (topo_sort_fuel preds fuel nodes) as [o|c|] eqn:R.
    + exists o. reflexivity.
    + exfalso. apply Hno. exists c. exact (topo_sort_err_reachable preds fuel nodes c R).
    + exfalso. exact (topo_sort_fuel_ok preds fuel nodes L Cl Hin Hf R).
Qed.
