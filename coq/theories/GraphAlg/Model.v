(* GraphAlg engine (E6, property C17): executable Gallina model of
     /repo/dfir_lang/src/graph/graph_algorithms.rs  (topo_sort, SubgraphMerge)
     /repo/dfir_lang/src/union_find.rs              (UnionFind)
   Definitions only (no proofs): this file must keep compiling when proofs break.

   Conventions: node ids are [N]; a graph is a list of nodes plus a predecessor FUNCTION
   [preds : N -> list N] ([preds_of] turns an association list into such a function, default []).
   SecondaryMap / SparseSecondaryMap / HashMap are association lists with unique keys
   ([aset] replaces in place); HashSet<K> is a sorted duplicate-free list; Vec push is snoc.
   `&mut self` is state passing; loops are structural or fuelled ([TFuel]/[RFuel] = out of fuel,
   the fuel bounds are stated with the definitions and proved sufficient in P*.v). *)
From Coq Require Import List NArith Bool Arith.
Import ListNotations.

(* ------------------------------------------------------------------ association lists *)

Fixpoint alookup {A} (k : N) (m : list (N * A)) : option A :=
  match m with
  | [] => None
  | (k', v) :: r => if N.eqb k k' then Some v else alookup k r
  end.

(* insert-or-replace (first occurrence), keeps keys unique *)
Fixpoint aset {A} (k : N) (v : A) (m : list (N * A)) : list (N * A) :=
  match m with
  | [] => [(k, v)]
  | (k', v') :: r => if N.eqb k k' then (k, v) :: r else (k', v') :: aset k v r
  end.

Fixpoint aremove {A} (k : N) (m : list (N * A)) : list (N * A) :=
  match m with
  | [] => []
  | (k', v') :: r => if N.eqb k k' then r else (k', v') :: aremove k r
  end.

Definition preds_of (a : list (N * list N)) (n : N) : list N :=
  match alookup n a with Some l => l | None => [] end.

Definition memN (x : N) (l : list N) : bool := existsb (N.eqb x) l.

(* sorted duplicate-free lists (BTreeSet / sort_unstable+dedup / canonical HashSet) *)
Fixpoint sinsert (x : N) (l : list N) : list N :=
  match l with
  | [] => [x]
  | y :: r => match N.compare x y with
              | Lt => x :: l
              | Eq => l
              | Gt => y :: sinsert x r
              end
  end.
Definition sort_dedup (l : list N) : list N := fold_right sinsert [] l.
Definition sremove (x : N) (l : list N) : list N := filter (fun y => negb (N.eqb x y)) l.

(* ------------------------------------------------------------------ topo_sort *)

Inductive tres := TOk (o : list N) | TErr (c : list N) | TFuel.

(* result of pred_dfs_postorder: Ok(()) with the new (marked, order) / Err(()) with the
   (cleared and re-filled) order / out of fuel.  marked: false = temporary, true = permanent *)
Inductive dres := DOk (m : list (N * bool)) (o : list N) | DErr (o : list N) | DFuel.

Fixpoint position (e : N) (l : list N) : option nat :=
  match l with
  | [] => None
  | x :: r => if N.eqb x e then Some O
              else match position e r with Some i => Some (S i) | None => None end
  end.

Section Topo.
  Variable preds : N -> list N.

  (* `.map_err(|()| { if order.len() == 1 || order.first() != order.last() { order.push(node_id) } })` *)
  Definition map_err_push (n : N) (o : list N) : list N :=
    if Nat.eqb (length o) 1 || negb (N.eqb (hd 0%N o) (last o 0%N)) then o ++ [n] else o.

  (* the `for next_pred in preds_fn(node_id)` loop of the `None =>` arm; [rec] is the recursive call *)
  Fixpoint dfs_loop (rec : N -> list (N * bool) -> list N -> dres) (n : N) (ps : list N)
           (m : list (N * bool)) (o : list N) : dres :=
    match ps with
    | [] => DOk m o
    | p :: ps' =>
        match rec p m o with
        | DOk m' o' => dfs_loop rec n ps' m' o'
        | DErr o' => DErr (map_err_push n o')
        | DFuel => DFuel
        end
    end.

  Fixpoint dfs (fuel : nat) (n : N) (m : list (N * bool)) (o : list N) : dres :=
    match fuel with
    | O => DFuel
    | S f =>
        match alookup n m with
        | Some true => DOk m o
        | Some false => DErr [n]                       (* order.clear(); order.push(node_id) *)
        | None =>
            match dfs_loop (dfs f) n (preds n) (aset n false m) o with
            | DOk m' o' => DOk (aset n true m') (o' ++ [n])
            | r => r
            end
        end
    end.

  (* the `for node_id in node_ids` loop with the cycle extraction *)
  Fixpoint topo_loop (fuel : nat) (ns : list N) (m : list (N * bool)) (o : list N) : tres :=
    match ns with
    | [] => TOk o
    | n :: ns' =>
        match dfs fuel n m o with
        | DOk m' o' => topo_loop fuel ns' m' o'
        | DErr o' =>
            let e := last o' 0%N in
            match position e o' with
            | Some beg => TErr (skipn (S beg) o')      (* order.drain(0..=beg) *)
            | None => TErr []                          (* unwrap on None: unreachable *)
            end
        | DFuel => TFuel
        end
    end.

  Definition topo_sort_fuel (fuel : nat) (nodes : list N) : tres := topo_loop fuel nodes [] [].
End Topo.

(* fuel: the recursion depth is bounded by the number of distinct nodes reachable, plus one.
   For a closed graph (every predecessor is a node) [S (length nodes)] suffices
   (PTopo.topo_sort_fuel_ok). *)
Definition topo_sort (nodes : list N) (preds : N -> list N) : tres :=
  topo_sort_fuel preds (S (length nodes)) nodes.

(* graphs given by association lists that need not be closed: universe = nodes + all listed preds *)
Definition topo_sort_adj (nodes : list N) (adj : list (N * list N)) : tres :=
  topo_sort_fuel (preds_of adj) (S (length nodes + length (concat (map snd adj)))) nodes.

(* validate_topo_sort: Ok(()) = None, Err((pred, succ)) = Some; `indexed` is a BTreeMap so the
   outer loop runs in key order and a duplicated node keeps its LAST index.
   Panic ("predecessor not in topo sort") is [VPanic]. *)
Inductive vres := VOk | VErr (p s : N) | VPanic.

Fixpoint indexed_from (i : nat) (l : list N) (m : list (N * nat)) : list (N * nat) :=
  match l with [] => m | x :: r => indexed_from (S i) r (aset x i m) end.

Fixpoint validate_preds (indexed : list (N * nat)) (succ : N) (si : nat) (ps : list N) : vres :=
  match ps with
  | [] => VOk
  | p :: r => match alookup p indexed with
              | None => VPanic
              | Some pi => if Nat.leb si pi then VErr p succ else validate_preds indexed succ si r
              end
  end.

Fixpoint validate_loop (preds : N -> list N) (indexed : list (N * nat)) (ks : list N) : vres :=
  match ks with
  | [] => VOk
  | s :: r => match alookup s indexed with
              | None => VPanic
              | Some si => match validate_preds indexed s si (preds s) with
                           | VOk => validate_loop preds indexed r
                           | e => e
                           end
              end
  end.

Definition validate_topo_sort (o : list N) (preds : N -> list N) : vres :=
  let indexed := indexed_from 0 o [] in
  validate_loop preds indexed (sort_dedup (map fst indexed)).

(* ------------------------------------------------------------------ union-find *)

Definition links := list (N * N).

(* UnionFind::find.  `self.links.insert(k, k)` returns the old value.  The recursion always
   terminates (the node is made a self-loop before recursing): fuel [S (length m)] suffices on
   EVERY map [m], reachable or not (PUf.uf_find_fuel_ok). *)
Fixpoint uf_find_fuel (fuel : nat) (m : links) (k : N) : option (links * N) :=
  match fuel with
  | O => None
  | S f =>
      match alookup k m with
      | None => Some (aset k k m, k)                    (* insert -> None; return self.links[k] *)
      | Some next =>
          let m1 := aset k k m in
          if N.eqb k next then Some (m1, k)
          else match uf_find_fuel f m1 next with
               | None => None
               | Some (m2, r) => Some (aset k r m2, r)  (* self.links[k] = self.find(next) *)
               end
      end
  end.

Definition uf_find (m : links) (k : N) : links * N :=
  match uf_find_fuel (S (length m)) m k with
  | Some r => r
  | None => (m, k)       (* impossible: PUf.uf_find_fuel_ok *)
  end.

Definition uf_union (m : links) (a b : N) : links * N :=
  let '(m1, i) := uf_find m a in
  let '(m2, j) := uf_find m1 b in
  (aset j i m2, i).

Definition uf_same (m : links) (a b : N) : links * bool :=
  let '(m1, i) := uf_find m a in
  let '(m2, j) := uf_find m1 b in
  (m2, N.eqb i j).

(* operation histories *)
Inductive uop := UUnion (a b : N) | UFind (a : N) | USame (a b : N).
Definition uf_step (m : links) (op : uop) : links :=
  match op with
  | UUnion a b => fst (uf_union m a b)
  | UFind a => fst (uf_find m a)
  | USame a b => fst (uf_same m a b)
  end.
Definition uf_exec (m : links) (ops : list uop) : links := fold_left uf_step ops m.
Fixpoint unions_of (ops : list uop) : list (N * N) :=
  match ops with
  | [] => []
  | UUnion a b :: r => (a, b) :: unions_of r
  | _ :: r => unions_of r
  end.

(* find without observing the compressed map *)
Definition uf_root (m : links) (k : N) : N := snd (uf_find m k).

(* ------------------------------------------------------------------ SubgraphMerge *)

Inductive res (A : Type) := ROk (a : A) | RPanic | RFuel.
Arguments ROk {A} a.
Arguments RPanic {A}.
Arguments RFuel {A}.

Definition rbind {A B} (r : res A) (f : A -> res B) : res B :=
  match r with ROk a => f a | RPanic => RPanic | RFuel => RFuel end.
Notation "x <- r ;; k" := (rbind r (fun x => k)) (at level 61, r at next level, right associativity).
Notation "' p <- r ;; k" := (rbind r (fun p => k)) (at level 61, p pattern, r at next level, right associativity).

(* `map[k]` / `.unwrap()`: panics when absent *)
Definition aget {A} (k : N) (m : list (N * A)) : res A :=
  match alookup k m with Some v => ROk v | None => RPanic end.

Record sm := mkSm {
  sm_preds : list (N * list N);      (* subgraph_preds *)
  sm_order : list N;                 (* toposort_node *)
  sm_idx : list (N * nat);           (* sg_idx *)
  sm_len : list (N * nat);           (* sg_len *)
  sm_uf : links;                     (* subgraph_unionfind *)
  sm_enemies : list (N * list N)     (* enemies: per key a sorted duplicate-free list *)
}.

Definition with_uf (s : sm) (uf : links) : sm :=
  mkSm (sm_preds s) (sm_order s) (sm_idx s) (sm_len s) uf (sm_enemies s).

Definition slice {A} (l : list A) (i len : nat) : list A := firstn len (skipn i l).

(* enemies.entry(a).or_default().insert(b) *)
Definition eadd (a b : N) (e : list (N * list N)) : list (N * list N) :=
  aset a (sinsert b (match alookup a e with Some l => l | None => [] end)) e.

Fixpoint enemies_new (ps : list (N * N)) (e : list (N * list N)) : res (list (N * list N)) :=
  match ps with
  | [] => ROk e
  | (a, b) :: r => if N.eqb a b then RPanic         (* assert_ne! *)
                   else enemies_new r (eadd b a (eadd a b e))
  end.

Fixpoint enumerate_from {A} (i : nat) (l : list A) : list (A * nat) :=
  match l with [] => [] | x :: r => (x, i) :: enumerate_from (S i) r end.

Inductive new_res := NewOk (s : sm) | NewCycle (c : list N) | NewPanic | NewFuel.

(* SubgraphMerge::new.  `subgraph_preds` is a SecondaryMap, so `subgraph_preds.keys()` enumerates
   the keys in slot order = increasing id, each once.
   PRECONDITION (outside it the Rust code panics on `subgraph_preds[k]`): every predecessor is a key. *)
Definition sm_new (keys : list N) (preds_fn : N -> list N) (enemies : list (N * N)) : new_res :=
  let ks := sort_dedup keys in
  let sp := map (fun k => (k, preds_fn k)) ks in
  match topo_sort ks (preds_of sp) with
  | TErr c => NewCycle c
  | TFuel => NewFuel
  | TOk o =>
      match enemies_new enemies [] with
      | ROk e => NewOk (mkSm sp o (enumerate_from 0 o) (map (fun k => (k, 1%nat)) o) [] e)
      | RPanic => NewPanic
      | RFuel => NewFuel
      end
  end.

(* subgraphs(): debug assertions are active in the harness build profile, so they are panics *)
Fixpoint sm_subgraphs_from (fuel : nat) (s : sm) (i : nat) : res (list (list N)) :=
  match fuel with
  | O => RFuel
  | S f =>
      match nth_error (sm_order s) i with
      | None => if Nat.eqb i (length (sm_order s)) then ROk [] else RPanic
      | Some n =>
          ix <- aget n (sm_idx s) ;;
          if negb (Nat.eqb i ix) then RPanic else
          ln <- aget n (sm_len s) ;;
          if Nat.ltb (length (sm_order s)) (i + ln) then RPanic else   (* slice out of range *)
          rest <- sm_subgraphs_from f s (i + ln) ;;
          ROk (slice (sm_order s) i ln :: rest)
      end
  end.
(* a group of length 0 would loop forever in the Rust code; with lengths >= 1 at most
   [length order] groups exist *)
Definition sm_subgraphs (s : sm) : res (list (list N)) :=
  sm_subgraphs_from (S (length (sm_order s))) s 0.

Section TryMerge.
  Variable s : sm.
  Variables u v : N.              (* the ordered representatives *)
  Variables lo hi : nat.          (* window = lo..hi *)

  Definition in_window (i : nat) : bool := Nat.leb lo i && Nat.ltb i hi.

  Inductive cyc_step :=
  | CsCont (stack visited : list N) (uf : links)
  | CsFound (uf : links)
  | CsPanic.

  (* `for &p in self.subgraph_preds[x].iter()` *)
  Fixpoint cyc_preds (ps : list N) (x : N) (stack visited : list N) (uf : links) : cyc_step :=
    match ps with
    | [] => CsCont stack visited uf
    | p :: ps' =>
        let '(uf', rp) := uf_find uf p in
        if N.eqb rp u then
          (if N.eqb x v then cyc_preds ps' x stack visited uf'    (* direct u -> v edge: continue *)
           else CsFound uf')                                      (* return false *)
        else
          match alookup rp (sm_idx s) with
          | None => CsPanic
          | Some irp =>
              if in_window irp && negb (memN rp visited)          (* visited.insert(root_p) *)
              then cyc_preds ps' x (rp :: stack) (rp :: visited) uf'
              else cyc_preds ps' x stack visited uf'
          end
    end.

  (* `while let Some(x) = stack.pop()`; the stack's top is the list head.
     result: ROk (true, uf) = cycle found; ROk (false, uf) = none *)
  Fixpoint cyc_loop (fuel : nat) (stack visited : list N) (uf : links) : res (bool * links) :=
    match fuel with
    | O => RFuel
    | S f =>
        match stack with
        | [] => ROk (false, uf)
        | x :: stack' =>
            ps <- aget x (sm_preds s) ;;
            match cyc_preds ps x stack' visited uf with
            | CsCont st vi uf' => cyc_loop f st vi uf'
            | CsFound uf' => ROk (true, uf')
            | CsPanic => RPanic
            end
        end
    end.
End TryMerge.

(* u_preds.retain_mut: each x is replaced by find(x) and kept iff it differs from u *)
Fixpoint retain_find (u : N) (ps : list N) (uf : links) : list N * links :=
  match ps with
  | [] => ([], uf)
  | p :: r => let '(uf1, rp) := uf_find uf p in
              let '(r', uf2) := retain_find u r uf1 in
              (if N.eqb rp u then r' else rp :: r', uf2)
  end.

(* `for w in self.enemies.remove(v).into_iter().flatten()` *)
Fixpoint merge_enemies (u v : N) (ws : list N) (e : list (N * list N)) : res (list (N * list N)) :=
  match ws with
  | [] => ROk e
  | w :: r =>
      if N.eqb w u then RPanic else                               (* debug_assert_ne!(w, u) *)
      let e1 := eadd u w e in
      we <- aget w e1 ;;                                          (* get_mut(w).unwrap() *)
      if negb (memN v we) then RPanic else                        (* debug_assert!(_removed) *)
      merge_enemies u v r (aset w (sinsert u (sremove v we)) e1)
  end.

Fixpoint find_all (ks : list N) (uf : links) : list N * links :=
  match ks with
  | [] => ([], uf)
  | k :: r => let '(uf1, rk) := uf_find uf k in
              let '(r', uf2) := find_all r uf1 in (rk :: r', uf2)
  end.

(* the re-sort closure: preds of group k, as representatives, pruned to the window.  The Rust
   closure compresses paths while it runs; compression is invisible to [uf_find]'s results
   (PUf.uf_find_root_stable), so the model evaluates it with the pure [uf_root] on a fixed map. *)
Definition window_preds (preds : list (N * list N)) (idx : list (N * nat)) (uf : links)
           (lo hi : nat) (k : N) : list N :=
  filter (fun p => match alookup p idx with Some i => in_window lo hi i | None => false end)
         (map (uf_root uf) (preds_of preds k)).

(* panics of the closure: `subgraph_preds[k]`, `sg_idx[p]` *)
Definition window_preds_defined (preds : list (N * list N)) (idx : list (N * nat)) (uf : links)
           (ks : list N) : bool :=
  forallb (fun k => match alookup k preds with
                    | None => false
                    | Some ps => forallb (fun p => match alookup (uf_root uf p) idx with
                                                   | Some _ => true | None => false end) ps
                    end) ks.

(* rebuild the window *)
Fixpoint rebuild (groups : list N) (u : N) (u_nodes v_nodes order : list N)
         (idx len : list (N * nat)) : res (list N) :=
  match groups with
  | [] => ROk []
  | g :: r =>
      rest <- rebuild r u u_nodes v_nodes order idx len ;;
      if N.eqb g u then ROk (u_nodes ++ v_nodes ++ rest)
      else gi <- aget g idx ;; gl <- aget g len ;;
           if Nat.ltb (length order) (gi + gl) then RPanic else ROk (slice order gi gl ++ rest)
  end.

Fixpoint reindex (groups : list N) (pos : nat) (idx len : list (N * nat)) : res (list (N * nat) * nat) :=
  match groups with
  | [] => ROk (idx, pos)
  | g :: r =>
      _old <- aget g idx ;;                                       (* self.sg_idx[group] = pos *)
      gl <- aget g len ;;
      reindex r (pos + gl) (aset g pos idx) len
  end.

(* steps 2 and 3 of try_merge (after the cycle check passed): union, predecessor / length /
   enemy bookkeeping, window re-sort.  [uf3] is the union-find after the cycle check. *)
Definition sm_merge_phase (s : sm) (u v : N) (lo hi : nat) (u_nodes v_nodes : list N) (uf3 : links)
  : res (sm * bool) :=
  let order := sm_order s in
  (* 2. merge *)
  let '(uf4, new_root) := uf_union uf3 u v in
  if negb (N.eqb u new_root) then RPanic else                     (* debug_assert_eq!(u, _new_root) *)
  v_preds <- aget v (sm_preds s) ;;
  let preds1 := aremove v (sm_preds s) in
  u_preds <- aget u preds1 ;;
  let '(retained, uf5) := retain_find u (u_preds ++ v_preds) uf4 in
  let preds2 := aset u (sort_dedup retained) preds1 in
  _vi <- aget v (sm_idx s) ;;
  let idx1 := aremove v (sm_idx s) in
  v_len' <- aget v (sm_len s) ;;
  let len1 := aremove v (sm_len s) in
  u_len' <- aget u len1 ;;
  let len2 := aset u (u_len' + v_len') len1 in
  enemies2 <- match alookup v (sm_enemies s) with
              | None => ROk (sm_enemies s)
              | Some ws => merge_enemies u v ws (aremove v (sm_enemies s))
              end ;;
  (* 3. re-sort the window *)
  if Nat.ltb (length order) hi then RPanic else
  let '(reps, uf6) := find_all (slice order lo (hi - lo)) uf5 in
  let reps_in_window := sort_dedup reps in
  if negb (window_preds_defined preds2 idx1 uf6 reps_in_window) then RPanic else
  match topo_sort_fuel (window_preds preds2 idx1 uf6 lo hi) (S (length reps_in_window)) reps_in_window with
  | TFuel => RFuel
  | TErr _ => RPanic                                              (* expect("bug: ...") *)
  | TOk sorted_groups =>
      buf <- rebuild sorted_groups u u_nodes v_nodes order idx1 len2 ;;
      if negb (Nat.eqb (length buf) (hi - lo)) then RPanic else   (* copy_from_slice length check *)
      let order' := firstn lo order ++ buf ++ skipn hi order in
      '(idx2, pos) <- reindex sorted_groups lo idx1 len2 ;;
      if negb (Nat.eqb hi pos) then RPanic else                   (* debug_assert_eq!(window.end, pos) *)
      ROk (mkSm preds2 order' idx2 len2 uf6 enemies2, true)
  end.

(* try_merge once `u` is the representative that comes first in the order: slices, window,
   step 1 (cycle check), then steps 2-3 *)
Definition sm_try_merge_ordered (s : sm) (u v : N) (uf2 : links) : res (sm * bool) :=
  u_idx <- aget u (sm_idx s) ;; u_len <- aget u (sm_len s) ;;
  v_idx <- aget v (sm_idx s) ;; v_len <- aget v (sm_len s) ;;
  let order := sm_order s in
  if Nat.ltb (length order) (u_idx + u_len) || Nat.ltb (length order) (v_idx + v_len)
  then RPanic else                                                (* slice out of range *)
  let u_nodes := slice order u_idx u_len in
  let v_nodes := slice order v_idx v_len in
  let lo := u_idx in
  let hi := v_idx + v_len in
  (* 1. cycle check.  fuel: every pop is a distinct key of sg_idx *)
  '(found, uf3) <- cyc_loop s u v lo hi (S (length (sm_idx s))) [v] [v] uf2 ;;
  if (found : bool) then ROk (with_uf s uf3, false) else
  sm_merge_phase s u v lo hi u_nodes v_nodes uf3.

(* SubgraphMerge::try_merge.  PRECONDITION: u0, v0 are keys. *)
Definition sm_try_merge (s : sm) (u0 v0 : N) : res (sm * bool) :=
  (* 0. representatives, short circuits *)
  let '(uf1, u1) := uf_find (sm_uf s) u0 in
  let '(uf2, v1) := uf_find uf1 v0 in
  if N.eqb u1 v1 then ROk (with_uf s uf2, true) else
  if match alookup u1 (sm_enemies s) with Some es => memN v1 es | None => false end
  then ROk (with_uf s uf2, false) else
  iu <- aget u1 (sm_idx s) ;;
  iv <- aget v1 (sm_idx s) ;;
  let '(u, v) := if Nat.ltb iu iv then (u1, v1) else (v1, u1) in
  sm_try_merge_ordered s u v uf2.

(* SubgraphMerge::find / same_set *)
Definition sm_find (s : sm) (k : N) : sm * N :=
  let '(uf, r) := uf_find (sm_uf s) k in (with_uf s uf, r).
Definition sm_same_set (s : sm) (a b : N) : sm * bool :=
  let '(uf, r) := uf_same (sm_uf s) a b in (with_uf s uf, r).
