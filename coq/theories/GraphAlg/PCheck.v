(* GraphAlg engine: the executable property forms of Check.v reflect the Prop-level statements,
   and the model's own outputs satisfy the union-find oracle on every history. *)
From Coq Require Import List NArith Bool Arith Lia.
From HV Require Import GraphAlg.Model GraphAlg.Check GraphAlg.PUf GraphAlg.PTopo GraphAlg.PSm.
Import ListNotations.

Lemma NoDup_b_spec l : NoDup_b l = true <-> NoDup l.
Proof.
  induction l as [|x l IH]; cbn; [split; [constructor|reflexivity]|].
  rewrite andb_true_iff, negb_true_iff, IH. split.
  - intros (Hm & ND). constructor; [|exact ND]. intro Hx. apply memN_In in Hx. congruence.
  - intro ND. inversion ND; subst. split; [|assumption].
    destruct (memN x l) eqn:E; [apply memN_In in E; contradiction|reflexivity].
Qed.

Lemma chain_b_spec preds c : chain_b preds c = true <-> chain preds c.
Proof.
  induction c as [|a c IH]; [cbn; tauto|]. destruct c as [|b c]; [cbn; tauto|].
  change (chain_b preds (a :: b :: c)) with (memN a (preds b) && chain_b preds (b :: c)).
  change (chain preds (a :: b :: c)) with (In a (preds b) /\ chain preds (b :: c)).
  rewrite andb_true_iff, memN_In, IH. tauto.
Qed.

(* the executable cycle test is exactly [is_cycle] *)
Theorem is_cycle_b_spec preds c : is_cycle_b preds c = true <-> is_cycle preds c.
Proof.
  unfold is_cycle_b, is_cycle. rewrite !andb_true_iff, NoDup_b_spec, chain_b_spec, memN_In.
  destruct c; [split; [intros (((H & _) & _) & _); discriminate|intros (H & _); congruence]|].
  split; [intros (((_ & A) & B) & C)|intros (_ & A & B & C)]; repeat split; auto; discriminate.
Qed.

Lemma position_split e : forall l i, position e l = Some i ->
  exists l1 l2, l = l1 ++ e :: l2 /\ length l1 = i.
Proof.
  induction l as [|x l IH]; cbn; intros i H; [discriminate|].
  destruct (N.eqb x e) eqn:E.
  - apply N.eqb_eq in E. subst. inversion H. exists [], l. auto.
  - destruct (position e l) as [j|]; [|discriminate]. inversion H; subst.
    destruct (IH j eq_refl) as (l1 & l2 & -> & <-). exists (x :: l1), l2. auto.
Qed.

Lemma app_split_lt {A} : forall (l1 : list A) p l2 m1 s m2,
  l1 ++ p :: l2 = m1 ++ s :: m2 -> length l1 < length m1 -> exists k, m1 = l1 ++ p :: k.
Proof.
  induction l1 as [|a l1 IH]; intros p l2 m1 s m2 E H.
  - destruct m1 as [|b m1]; [cbn in H; lia|]. cbn in E. inversion E; subst. eexists; reflexivity.
  - destruct m1 as [|b m1]; [cbn in H; lia|]. cbn in E. inversion E; subst.
    destruct (IH p l2 m1 s m2 H2 ltac:(cbn in H; lia)) as (k & ->). exists k. reflexivity.
Qed.

Lemma before_b_sound p s o : before_b p s o = true -> before p s o.
Proof.
  unfold before_b. destruct (position p o) as [i|] eqn:Pi; [|discriminate].
  destruct (position s o) as [j|] eqn:Pj; [|discriminate]. intro H. apply Nat.ltb_lt in H.
  destruct (position_split p o i Pi) as (l1 & l2 & E1 & L1).
  destruct (position_split s o j Pj) as (m1 & m2 & E2 & L2).
  assert (Hsplit : exists k, m1 = l1 ++ p :: k).
  { apply (app_split_lt l1 p l2 m1 s m2); [congruence|lia]. }
  destruct Hsplit as (k & ->). exists l1, k, m2. rewrite E2. rewrite <- app_assoc. reflexivity.
Qed.

(* the executable order test implies the order clause of the theorem *)
Theorem topo_order_b_sound preds o :
  topo_order_b preds o = true ->
  NoDup o /\ forall s p, In s o -> In p (preds s) -> before p s o.
Proof.
  unfold topo_order_b. rewrite andb_true_iff, NoDup_b_spec, forallb_forall.
  intros (ND & H). split; [exact ND|]. intros s p Hs Hp. specialize (H s Hs).
  rewrite forallb_forall in H. apply before_b_sound. apply H. exact Hp.
Qed.

(* the model satisfies the union-find oracle on EVERY history (the oracle is the abstract
   label semantics, so this is the functional-correctness theorem in executable form) *)
Lemma uf_oracle_model : forall ops m f,
  UFInv m f -> uf_oracle f ops (uf_run m ops) = true.
Proof.
  induction ops as [|[a b|a|a b] ops IH]; intros m f HI; cbn; [reflexivity| | |].
  - pose proof (uf_union_correct m f a b HI) as (HI' & E).
    destruct (uf_union m a b) as [m' i]. cbn in *. subst i. rewrite N.eqb_refl. cbn.
    exact (IH m' (relabel f a b) HI').
  - pose proof (uf_find_correct m f a HI) as (HI' & E).
    destruct (uf_find m a) as [m' i]. cbn in *. subst i. rewrite N.eqb_refl. cbn. exact (IH m' f HI').
  - pose proof (uf_same_correct m f a b HI) as (HI' & E).
    destruct (uf_same m a b) as [m' x]. cbn in *. subst x.
    destruct (N.eqb (f a) (f b)); cbn; exact (IH m' f HI').
Qed.

Theorem uf_model_satisfies_property ops : C17_uf_holds_b ops (uf_run [] ops) = true.
Proof. apply uf_oracle_model. apply UFInv_empty. Qed.
