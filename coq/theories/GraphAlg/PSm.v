(* GraphAlg engine: proofs about the SubgraphMerge model (graph_algorithms.rs). *)
From Coq Require Import List NArith Bool Arith Lia ZifyBool ZifyN Permutation Sorted Relations.
From HV Require Import GraphAlg.Model GraphAlg.PUf GraphAlg.PTopo.
Import ListNotations.

(* ------------------------------------------------------------------ sorted duplicate-free lists *)

Lemma In_sinsert x y l : In y (sinsert x l) <-> y = x \/ In y l.
Proof.
  induction l as [|z l IH]; cbn; [intuition|].
  destruct (N.compare x z) eqn:C; cbn.
  - apply N.compare_eq in C. subst. intuition.
  - intuition.
  - rewrite IH. intuition.
Qed.

Lemma In_sort_dedup y l : In y (sort_dedup l) <-> In y l.
Proof.
  induction l as [|x l IH]; cbn; [tauto|]. rewrite In_sinsert, IH. intuition.
Qed.

Lemma sinsert_sorted x l : StronglySorted N.lt l -> StronglySorted N.lt (sinsert x l).
Proof.
  induction l as [|z l IH]; cbn; intro S; [constructor; constructor|].
  inversion S as [|? ? S' F]; subst.
  destruct (N.compare x z) eqn:C.
  - exact S.
  - assert (C' : N.lt x z) by (apply N.compare_lt_iff; exact C). constructor; [exact S|]. constructor; [exact C'|].
    rewrite Forall_forall in *. intros y Hy. specialize (F y Hy). lia.
  - assert (C' : N.lt z x) by (apply N.compare_gt_iff; exact C). constructor; [auto|].
    rewrite Forall_forall in *. intros y Hy. apply In_sinsert in Hy. destruct Hy as [->|Hy]; auto.
Qed.

Lemma sort_dedup_sorted l : StronglySorted N.lt (sort_dedup l).
Proof. induction l; cbn; [constructor|apply sinsert_sorted; assumption]. Qed.

Lemma sorted_NoDup l : StronglySorted N.lt l -> NoDup l.
Proof.
  induction 1 as [|x l S IH F]; constructor; [|exact IH].
  intro Hx. rewrite Forall_forall in F. specialize (F x Hx). lia.
Qed.

Lemma sort_dedup_NoDup l : NoDup (sort_dedup l).
Proof. apply sorted_NoDup, sort_dedup_sorted. Qed.

Lemma memN_In x l : memN x l = true <-> In x l.
Proof.
  unfold memN. rewrite existsb_exists. split.
  - intros (y & Hy & E). apply N.eqb_eq in E. subst. exact Hy.
  - intro H. exists x. split; [exact H|apply N.eqb_refl].
Qed.

(* ------------------------------------------------------------------ the invariant *)

Definition enemy_rel (e : list (N * list N)) (a b : N) : Prop :=
  exists es, alookup a e = Some es /\ In b es.

(* a -> b is an edge of the quotient graph: some member of class b has a predecessor in class a *)
Definition qedge (f : N -> N) (np : N -> list N) (ks : list N) (a b : N) : Prop :=
  a <> b /\ exists x p, In x ks /\ f x = b /\ In p (np x) /\ f p = a.

Definition qacyclic (f : N -> N) (np : N -> list N) (ks : list N) : Prop :=
  forall a, ~ clos_trans N (qedge f np ks) a a.

Record SMInv (ks : list N) (np : N -> list N) (en : list (N * N)) (s : sm) (f : N -> N) : Prop := {
  (* union-find: [f] is its representative function, classes stay inside the keys *)
  inv_uf : UFInv (sm_uf s) f;
  inv_f_keys : forall k, In k ks -> In (f k) ks;
  (* the global order is a topological order of the node-level predecessors *)
  inv_perm : Permutation (sm_order s) ks;
  inv_topo : tsorted np (sm_order s);
  (* each group occupies the contiguous range idx..idx+len, representative first *)
  inv_group : forall r i, alookup r (sm_idx s) = Some i ->
      f r = r /\ In r ks /\
      exists l, alookup r (sm_len s) = Some l /\ 1 <= l /\ i + l <= length (sm_order s) /\
                nth_error (sm_order s) i = Some r /\
                forall x, In x (slice (sm_order s) i l) <-> (In x ks /\ f x = r);
  inv_group_total : forall r, In r ks -> f r = r -> alookup r (sm_idx s) <> None;
  (* subgraph_preds: exactly the quotient predecessors (as possibly stale representatives) *)
  inv_preds_sound : forall r ps q, alookup r (sm_preds s) = Some ps -> In q ps ->
      f r = r /\ In r ks /\ exists x p, In x ks /\ f x = r /\ In p (np x) /\ f p = f q;
  inv_preds_complete : forall x p, In x ks -> In p (np x) ->
      f p = f x \/ exists ps q, alookup (f x) (sm_preds s) = Some ps /\ In q ps /\ f q = f p;
  inv_preds_total : forall r, In r ks -> f r = r -> alookup r (sm_preds s) <> None;
  (* the quotient graph is acyclic *)
  inv_acyclic : qacyclic f np ks;
  (* enemies: symmetric by construction, over representatives, reflecting the declared pairs *)
  inv_enemies : forall a b, enemy_rel (sm_enemies s) a b <->
      exists x y, (In (x, y) en \/ In (y, x) en) /\ f x = a /\ f y = b;
  (* no group contains an enemy pair *)
  inv_no_enemy_inside : forall x y, In (x, y) en -> f x <> f y;
  (* representation facts: the order has no duplicates, the maps have unique keys, stored
     predecessor lists never point into their own group, enemy sets are sorted *)
  inv_nodup : NoDup (sm_order s);
  inv_preds_keys : NoDup (map fst (sm_preds s));
  inv_idx_keys : NoDup (map fst (sm_idx s));
  inv_len_keys : NoDup (map fst (sm_len s));
  inv_enemies_keys : NoDup (map fst (sm_enemies s));
  inv_enemies_sorted : forall a es, alookup a (sm_enemies s) = Some es -> StronglySorted N.lt es;
  inv_preds_noself : forall r ps q, alookup r (sm_preds s) = Some ps -> In q ps -> f q <> r
}.

Lemma SMInv_enemies_sym ks np en s f a b :
  SMInv ks np en s f -> enemy_rel (sm_enemies s) a b -> enemy_rel (sm_enemies s) b a.
Proof.
  intros I H. apply (inv_enemies _ _ _ _ _ I) in H. apply (inv_enemies _ _ _ _ _ I).
  destruct H as (x & y & Hxy & <- & <-). exists y, x. intuition.
Qed.

(* ------------------------------------------------------------------ new *)

Lemma alookup_map_in {A} (g : N -> A) ks k :
  In k ks -> alookup k (map (fun k => (k, g k)) ks) = Some (g k).
Proof.
  induction ks as [|a ks IH]; cbn; intro H; [destruct H|].
  destruct (N.eqb k a) eqn:E; [apply N.eqb_eq in E; subst; reflexivity|].
  destruct H as [->|H]; [rewrite N.eqb_refl in E; discriminate|auto].
Qed.

Lemma alookup_map_some {A} (g : N -> A) ks k v :
  alookup k (map (fun k => (k, g k)) ks) = Some v -> In k ks /\ v = g k.
Proof.
  induction ks as [|a ks IH]; cbn; intro H; [discriminate|].
  destruct (N.eqb k a) eqn:E.
  - apply N.eqb_eq in E; subst. inversion H. auto.
  - destruct (IH H). auto.
Qed.

Lemma alookup_enumerate (o : list N) : forall k i j,
  alookup k (enumerate_from j o) = Some i -> j <= i /\ nth_error o (i - j) = Some k.
Proof.
  induction o as [|a o IH]; cbn; intros k i j H; [discriminate|].
  destruct (N.eqb k a) eqn:E.
  - apply N.eqb_eq in E. subst. inversion H; subst. rewrite Nat.sub_diag. split; [lia|reflexivity].
  - destruct (IH k i (S j) H) as (Hle & Hn). split; [lia|].
    replace (i - j) with (S (i - S j)) by lia. exact Hn.
Qed.

Lemma alookup_enumerate_in (o : list N) : forall k j, In k o -> alookup k (enumerate_from j o) <> None.
Proof.
  induction o as [|a o IH]; cbn; intros k j H; [destruct H|].
  destruct (N.eqb k a) eqn:E; [discriminate|].
  destruct H as [->|H]; [rewrite N.eqb_refl in E; discriminate|]. apply IH. exact H.
Qed.

Lemma slice_one {A} (o : list A) i x : nth_error o i = Some x -> slice o i 1 = [x].
Proof.
  unfold slice. revert i. induction o as [|a o IH]; intros [|i] H; cbn in *; try discriminate.
  - inversion H. reflexivity.
  - apply IH. exact H.
Qed.

Lemma eadd_rel a b e x y : enemy_rel (eadd a b e) x y <-> enemy_rel e x y \/ (x = a /\ y = b).
Proof.
  unfold enemy_rel, eadd. rewrite alookup_aset. destruct (N.eqb x a) eqn:E.
  - apply N.eqb_eq in E. subst x. split.
    + intros (es & H & Hy). inversion H; subst es. apply In_sinsert in Hy.
      destruct Hy as [->|Hy]; [right; split; reflexivity|].
      left. destruct (alookup a e) as [l|]; [exists l; split; [reflexivity|exact Hy]|destruct Hy].
    + intros [(es & H & Hy)|(_ & ->)].
      * eexists. split; [reflexivity|]. apply In_sinsert. right. rewrite H. exact Hy.
      * eexists. split; [reflexivity|]. apply In_sinsert. left. reflexivity.
  - apply N.eqb_neq in E. split.
    + intros H. left. exact H.
    + intros [H|(-> & _)]; [exact H|congruence].
Qed.

Lemma enemies_new_spec : forall ps e0 e,
  enemies_new ps e0 = ROk e ->
  (forall x y, enemy_rel e x y <-> enemy_rel e0 x y \/ In (x, y) ps \/ In (y, x) ps) /\
  (forall x y, In (x, y) ps -> x <> y).
Proof.
  induction ps as [|[a b] ps IH]; cbn; intros e0 e H.
  - inversion H; subst. split; [intros; tauto|intros x y []].
  - destruct (N.eqb a b) eqn:E; [discriminate|]. apply N.eqb_neq in E.
    destruct (IH _ _ H) as (H1 & H2). split.
    + intros x y. rewrite H1, !eadd_rel. split.
      * intros [[[H0|(-> & ->)]|(-> & ->)]|[H0|H0]]; auto.
      * intros [H0|[[H0|H0]|[H0|H0]]]; auto; inversion H0; subst; auto.
    + intros x y [H0|H0]; [inversion H0; subst; exact E|auto].
Qed.

Lemma NoDup_split_unique {A} (b : A) : forall x y x' y',
  NoDup (x ++ b :: y) -> x ++ b :: y = x' ++ b :: y' -> x = x' /\ y = y'.
Proof.
  induction x as [|a x IH]; intros y x' y' ND E.
  - destruct x' as [|a' x']; cbn in E.
    + inversion E. auto.
    + inversion E; subst. exfalso. inversion ND; subst. apply H1. apply in_or_app. right. left. reflexivity.
  - destruct x' as [|a' x']; cbn in E.
    + inversion E; subst. exfalso. inversion ND; subst. apply H1. apply in_or_app. right. left. reflexivity.
    + inversion E; subst. inversion ND; subst. destruct (IH _ _ _ H3 H1). subst. auto.
Qed.

Lemma before_irrefl o a : NoDup o -> ~ before a a o.
Proof.
  intros ND (l1 & l2 & l3 & ->). apply NoDup_remove_2 in ND. apply ND.
  apply in_or_app. right. apply in_or_app. right. left. reflexivity.
Qed.

Lemma before_trans o a b c : NoDup o -> before a b o -> before b c o -> before a c o.
Proof.
  intros ND (l1 & l2 & l3 & E1) (m1 & m2 & m3 & E2).
  assert (E : (l1 ++ a :: l2) ++ b :: l3 = m1 ++ b :: m2 ++ c :: m3)
    by (rewrite <- app_assoc; cbn; congruence).
  apply NoDup_split_unique in E; [|rewrite <- app_assoc; cbn; rewrite <- E1; exact ND].
  destruct E as (<- & ->). exists l1, (l2 ++ b :: m2), m3.
  rewrite E1. rewrite <- !app_assoc. cbn. reflexivity.
Qed.

Lemma In_map_fst_aset {A} k (v : A) m x :
  In x (map fst (aset k v m)) -> x = k \/ In x (map fst m).
Proof.
  induction m as [|[k0 v0] r IH]; cbn; intro Hx; [intuition|].
  destruct (N.eqb k k0) eqn:E; cbn in Hx.
  - apply N.eqb_eq in E. subst. intuition.
  - destruct Hx as [<-|Hx]; [auto|]. destruct (IH Hx); auto.
Qed.

Lemma map_fst_aset {A} k (v : A) m :
  NoDup (map fst m) -> NoDup (map fst (aset k v m)).
Proof.
  induction m as [|[k0 v0] r IH]; cbn; intro ND; [constructor; [intros []|constructor]|].
  inversion ND; subst. destruct (N.eqb k k0) eqn:E; cbn.
  - apply N.eqb_eq in E. subst. constructor; assumption.
  - apply N.eqb_neq in E. constructor; [|auto]. intro Hx.
    destruct (In_map_fst_aset _ _ _ _ Hx) as [->|H']; [congruence|contradiction].
Qed.

Lemma map_fst_enumerate (o : list N) j : map fst (enumerate_from j o) = o.
Proof. revert j. induction o as [|a o IH]; intro j; cbn; [reflexivity|rewrite IH; reflexivity]. Qed.

Lemma map_fst_map_key {A} (g : N -> A) ks : map fst (map (fun k => (k, g k)) ks) = ks.
Proof. induction ks as [|a ks IH]; cbn; [reflexivity|rewrite IH; reflexivity]. Qed.

Definition enemies_wf (e : list (N * list N)) : Prop :=
  NoDup (map fst e) /\ forall a es, alookup a e = Some es -> StronglySorted N.lt es.

Lemma eadd_wf a b e : enemies_wf e -> enemies_wf (eadd a b e).
Proof.
  intros (ND & S). split; [apply map_fst_aset; exact ND|].
  intros x es. unfold eadd. rewrite alookup_aset. destruct (N.eqb x a) eqn:E.
  - intro H. inversion H. apply sinsert_sorted.
    destruct (alookup a e) as [l|] eqn:L; [exact (S a l L)|constructor].
  - apply S.
Qed.

Lemma enemies_new_wf : forall ps e0 e, enemies_wf e0 -> enemies_new ps e0 = ROk e -> enemies_wf e.
Proof.
  induction ps as [|[a b] ps IH]; cbn; intros e0 e W H; [inversion H; subst; exact W|].
  destruct (N.eqb a b); [discriminate|]. eapply IH; [|exact H]. apply eadd_wf, eadd_wf, W.
Qed.

Theorem sm_new_inv keys np en s :
  (forall x p, In x keys -> In p (np x) -> In p keys) ->
  sm_new keys np en = NewOk s ->
  SMInv (sort_dedup keys) np en s (fun x => x).
Proof.
  intros Cl H. unfold sm_new in H. set (ks := sort_dedup keys) in *.
  set (sp := map (fun k => (k, np k)) ks) in *.
  destruct (topo_sort ks (preds_of sp)) as [o|c|] eqn:T; try discriminate.
  destruct (enemies_new en []) as [e| |] eqn:E; try discriminate.
  inversion H; subst s. clear H.
  assert (NDk : NoDup ks) by apply sort_dedup_NoDup.
  assert (Hks : forall x, In x ks <-> In x keys) by (intro; apply In_sort_dedup).
  assert (Hsp : forall x, In x ks -> preds_of sp x = np x).
  { intros x Hx. unfold preds_of, sp. rewrite alookup_map_in by exact Hx. reflexivity. }
  assert (Clk : forall x p, In x ks -> In p (preds_of sp x) -> In p ks).
  { intros x p Hx Hp. rewrite Hsp in Hp by exact Hx. apply Hks. eapply Cl; [apply Hks; exact Hx|exact Hp]. }
  unfold topo_sort in T.
  pose proof (topo_sort_ok_perm _ _ _ _ NDk Clk T) as Perm.
  destruct (topo_sort_ok _ _ _ _ T) as (NDo & _ & Ts & Bf & _).
  assert (Hin : forall x, In x o <-> In x ks).
  { intro x. split; intro Hx; [eapply Permutation_in; [exact Perm|exact Hx]|
                               eapply Permutation_in; [apply Permutation_sym; exact Perm|exact Hx]]. }
  assert (Tnp : tsorted np o).
  { intros l1 x l2 Eo. rewrite <- Hsp; [apply (Ts l1 x l2 Eo)|].
    apply Hin. rewrite Eo. apply in_or_app. right. left. reflexivity. }
  destruct (enemies_new_spec _ _ _ E) as (En & Ene).
  constructor; cbn [sm_uf sm_order sm_idx sm_len sm_preds sm_enemies].
  - apply UFInv_empty.
  - auto.
  - exact Perm.
  - exact Tnp.
  - intros r i Hi. apply alookup_enumerate in Hi. destruct Hi as (_ & Hn). rewrite Nat.sub_0_r in Hn.
    assert (Hr : In r o) by (eapply nth_error_In; exact Hn).
    split; [reflexivity|]. split; [apply Hin; exact Hr|]. exists 1. split; [|split; [lia|split; [|split]]].
    + apply (alookup_map_in (fun _ => 1)). exact Hr.
    + assert (i < length o) by (apply nth_error_Some; congruence). lia.
    + exact Hn.
    + intro x. rewrite (slice_one o i r Hn). cbn. split.
      * intros [<-|[]]. split; [apply Hin; exact Hr|reflexivity].
      * intros (_ & ->). left. reflexivity.
  - intros r Hr _. apply alookup_enumerate_in. apply Hin. exact Hr.
  - intros r ps q Hr Hq. unfold sp in Hr. apply alookup_map_some in Hr. destruct Hr as (Hk & ->).
    split; [reflexivity|]. split; [exact Hk|]. exists r, q. auto.
  - intros x p Hx Hp. right. exists (np x), p. unfold sp. rewrite alookup_map_in by exact Hx. auto.
  - intros r Hr _. unfold sp. rewrite alookup_map_in by exact Hr. discriminate.
  - (* acyclic: every quotient edge goes forward in the topological order *)
    intros a Ha.
    assert (G : forall x y, clos_trans N (qedge (fun x => x) np ks) x y -> before x y o).
    { induction 1 as [x y (Hne & x' & p & Hx' & <- & Hp & <-)|x y z _ IH1 _ IH2].
      - apply tsorted_before with (preds := np); auto. apply Hin. exact Hx'.
      - eapply before_trans; eassumption. }
    exact (before_irrefl o a NDo (G a a Ha)).
  - intros a b. rewrite En. split.
    + intros [(es & H0 & _)|H0]; [discriminate|]. exists a, b. auto.
    + intros (x & y & Hxy & <- & <-). right. exact Hxy.
  - intros x y Hxy. apply Ene. exact Hxy.
  - exact NDo.
  - unfold sp. rewrite map_fst_map_key. exact NDk.
  - rewrite map_fst_enumerate. exact NDo.
  - rewrite (map_fst_map_key (fun _ => 1)). exact NDo.
  - apply (enemies_new_wf en [] e); [split; [constructor|intros a es H0; discriminate]|exact E].
  - apply (enemies_new_wf en [] e); [split; [constructor|intros a es H0; discriminate]|exact E].
  - intros r ps q Hr Hq Eq. unfold sp in Hr. apply alookup_map_some in Hr. destruct Hr as (Hk & ->).
    subst q. apply Hin in Hk. apply in_split in Hk. destruct Hk as (l1 & l2 & Eo).
    pose proof (Tnp l1 r l2 Eo r Hq) as Hl. rewrite Eo in NDo. apply NoDup_remove_2 in NDo.
    apply NDo. apply in_or_app. left. exact Hl.
Qed.

(* new() returning a cycle: a genuine cycle of the node-level graph, inside the keys *)
Lemma chain_ext preds preds' c :
  (forall x, In x c -> preds x = preds' x) -> chain preds c -> chain preds' c.
Proof.
  induction c as [|a c IH]; intros E H; [exact I|].
  destruct c as [|b c]; [exact I|]. cbn in H |- *. destruct H as [H1 H2].
  split; [rewrite <- E by (right; left; reflexivity); exact H1|].
  apply IH; [intros x Hx; apply E; right; exact Hx|exact H2].
Qed.

Theorem sm_new_cycle keys np en c :
  (forall x p, In x keys -> In p (np x) -> In p keys) ->
  sm_new keys np en = NewCycle c -> is_cycle np c /\ incl c (sort_dedup keys).
Proof.
  intros Cl H. unfold sm_new in H. set (ks := sort_dedup keys) in *.
  set (sp := map (fun k => (k, np k)) ks) in *.
  destruct (topo_sort ks (preds_of sp)) as [o|c'|] eqn:T; try discriminate.
  - destruct (enemies_new en []); discriminate.
  - inversion H; subst c'. clear H.
    assert (Hsp : forall x, In x ks -> preds_of sp x = np x).
    { intros x Hx. unfold preds_of, sp. rewrite alookup_map_in by exact Hx. reflexivity. }
    destruct (topo_sort_cycle _ _ _ _ T) as ((Hne & ND & Ch & Hl) & HU).
    assert (Hc : forall x, In x c -> In x ks).
    { apply (HU (fun x => In x ks)); [|auto]. intros x p Hx Hp. rewrite Hsp in Hp by exact Hx.
      apply In_sort_dedup. eapply Cl; [apply In_sort_dedup; exact Hx|exact Hp]. }
    split; [|exact Hc]. split; [exact Hne|]. split; [exact ND|]. split.
    + apply (chain_ext (preds_of sp)); [intros x Hx; apply Hsp; auto|exact Ch].
    + rewrite <- Hsp; [exact Hl|]. apply Hc. destruct c; [congruence|left; reflexivity].
Qed.

Theorem sm_new_total keys np en :
  (forall x p, In x keys -> In p (np x) -> In p keys) ->
  (forall a b, In (a, b) en -> a <> b) ->
  sm_new keys np en <> NewFuel /\ sm_new keys np en <> NewPanic.
Proof.
  intros Cl Hen. unfold sm_new. set (ks := sort_dedup keys). set (sp := map (fun k => (k, np k)) ks).
  assert (Hsp : forall x, In x ks -> preds_of sp x = np x).
  { intros x Hx. unfold preds_of, sp. rewrite alookup_map_in by exact Hx. reflexivity. }
  assert (NF : topo_sort ks (preds_of sp) <> TFuel).
  { apply topo_sort_closed_no_fuel. intros x p Hx Hp. rewrite Hsp in Hp by exact Hx.
    apply In_sort_dedup. eapply Cl; [apply In_sort_dedup; exact Hx|exact Hp]. }
  assert (NE : forall e0, exists e, enemies_new en e0 = ROk e).
  { clear -Hen. induction en as [|[a b] r IH]; intro e0; cbn; [eexists; reflexivity|].
    rewrite (N_eqb_false a b) by (apply Hen; left; reflexivity).
    apply IH. intros x y Hxy. apply Hen. right. exact Hxy. }
  destruct (topo_sort ks (preds_of sp)); [|split; discriminate|congruence].
  destruct (NE []) as (e & ->). split; discriminate.
Qed.

(* ------------------------------------------------------------------ try_merge: refusals are justified *)

Lemma SMInv_with_uf ks np en s f uf :
  SMInv ks np en s f -> UFInv uf f -> SMInv ks np en (with_uf s uf) f.
Proof. intros I U. destruct I. constructor; cbn; assumption. Qed.

(* merging the groups [u] and [v] would put a third group [w] on a cycle through the merged group *)
Definition would_cycle (f : N -> N) (np : N -> list N) (ks : list N) (u v : N) : Prop :=
  exists w, w <> u /\ w <> v /\
    ((clos_trans N (qedge f np ks) u w /\ clos_trans N (qedge f np ks) w v) \/
     (clos_trans N (qedge f np ks) v w /\ clos_trans N (qedge f np ks) w u)).

(* the groups of [u0] and [v0] contain a declared enemy pair *)
Definition enemy_conflict (f : N -> N) (en : list (N * N)) (u0 v0 : N) : Prop :=
  exists x y, (In (x, y) en \/ In (y, x) en) /\ f x = f u0 /\ f y = f v0.

Section CycCheck.
  Variables (ks : list N) (np : N -> list N) (en : list (N * N)) (s : sm) (f : N -> N).
  Hypothesis I : SMInv ks np en s f.
  Variables (u v : N) (lo hi : nat).
  Hypothesis Huv : u <> v.

  (* [y] is a representative other than [u] from which [v] is reachable in the quotient graph *)
  Definition anc (y : N) : Prop :=
    f y = y /\ y <> u /\ (y = v \/ clos_trans N (qedge f np ks) y v).

  Definition found_ok : Prop :=
    exists w, w <> u /\ w <> v /\ qedge f np ks u w /\ clos_trans N (qedge f np ks) w v.

  Lemma cyc_preds_sound : forall ps x ps0 stack visited uf,
    alookup x (sm_preds s) = Some ps0 -> incl ps ps0 -> anc x -> Forall anc stack -> UFInv uf f ->
    match cyc_preds s u v lo hi ps x stack visited uf with
    | CsCont st vi uf' => Forall anc st /\ UFInv uf' f
    | CsFound uf' => found_ok /\ UFInv uf' f
    | CsPanic => True
    end.
  Proof.
    induction ps as [|p ps IH]; intros x ps0 stack visited uf Hx Hin Ax Hst HU; cbn.
    - split; assumption.
    - pose proof (uf_find_correct uf f p HU) as (HU' & Er).
      destruct (uf_find uf p) as [uf' rp]. cbn in HU', Er. subst rp.
      assert (Hp : In p ps0) by (apply Hin; left; reflexivity).
      assert (Hin' : incl ps ps0) by (intros q Hq; apply Hin; right; exact Hq).
      destruct (inv_preds_sound _ _ _ _ _ I x ps0 p Hx Hp) as (Fx & Kx & x' & p' & Hx' & Fx' & Hp' & Fp').
      assert (Edge : f p <> x -> qedge f np ks (f p) x).
      { intro Hne. split; [exact Hne|]. exists x', p'. rewrite Fp'. auto. }
      destruct Ax as (_ & Xu & Xv).
      destruct (N.eqb (f p) u) eqn:Eu.
      + apply N.eqb_eq in Eu. destruct (N.eqb x v) eqn:Ev.
        * apply (IH x ps0); auto. split; auto.
        * apply N.eqb_neq in Ev. split; [|exact HU'].
          exists x. split; [exact Xu|]. split; [exact Ev|]. split.
          -- rewrite <- Eu. apply Edge. congruence.
          -- destruct Xv as [->|Xv]; [congruence|exact Xv].
      + apply N.eqb_neq in Eu. destruct (alookup (f p) (sm_idx s)) as [irp|]; [|exact Logic.I].
        destruct (in_window lo hi irp && negb (memN (f p) visited)).
        * apply (IH x ps0); auto; [split; auto|]. constructor; [|exact Hst].
          split; [eapply UFInv_idem; exact HU|]. split; [exact Eu|].
          destruct (N.eq_dec (f p) x) as [E|E]; [rewrite E; exact Xv|].
          right. destruct Xv as [->|Xv]; [apply t_step; apply Edge; exact E|].
          eapply t_trans; [apply t_step; apply Edge; exact E|exact Xv].
        * apply (IH x ps0); auto. split; auto.
  Qed.

  Lemma cyc_loop_sound : forall fuel stack visited uf found uf',
    Forall anc stack -> UFInv uf f ->
    cyc_loop s u v lo hi fuel stack visited uf = ROk (found, uf') ->
    UFInv uf' f /\ (found = true -> found_ok).
  Proof.
    induction fuel as [|fuel IH]; intros stack visited uf found uf' Hst HU H; [discriminate|].
    cbn in H. destruct stack as [|x stack'].
    - inversion H; subst. split; [exact HU|discriminate].
    - unfold aget in H. destruct (alookup x (sm_preds s)) as [ps|] eqn:Hx; [|discriminate]. cbn in H.
      inversion Hst as [|? ? Ax Hst']; subst.
      pose proof (cyc_preds_sound ps x ps stack' visited uf Hx (incl_refl _) Ax Hst' HU) as S.
      destruct (cyc_preds s u v lo hi ps x stack' visited uf) as [st vi uf1|uf1|]; [| |discriminate].
      + destruct S as (Hst1 & HU1). eapply IH; eassumption.
      + inversion H; subst. destruct S as (Hf & HU1). split; [exact HU1|intros _; exact Hf].
  Qed.
End CycCheck.

Lemma merge_phase_true s u v lo hi un vn uf s' b :
  sm_merge_phase s u v lo hi un vn uf = ROk (s', b) -> b = true.
Proof.
  unfold sm_merge_phase. intro H.
  repeat match type of H with
         | (let '(_, _) := ?p in _) = _ => destruct p
         | (if ?c then _ else _) = _ => destruct c; [try discriminate|try discriminate]
         | rbind ?r _ = _ => destruct r; cbn [rbind] in H; try discriminate
         | match ?t with _ => _ end = _ => destruct t; try discriminate
         end.
  all: try (inversion H; reflexivity).
Qed.

(* try_merge answers false only for an enemy conflict or a cycle through the merged group,
   and then leaves the abstract state unchanged (SOUNDNESS half of
     try_merge u v = false <-> enemies(u,v) \/ merging would create a quotient cycle ). *)
Theorem sm_try_merge_false_sound ks np en s f u0 v0 s' :
  SMInv ks np en s f ->
  sm_try_merge s u0 v0 = ROk (s', false) ->
  f u0 <> f v0 /\
  (enemy_conflict f en u0 v0 \/ would_cycle f np ks (f u0) (f v0)) /\
  SMInv ks np en s' f.
Proof.
  intros I H. unfold sm_try_merge in H.
  pose proof (uf_find_correct (sm_uf s) f u0 (inv_uf _ _ _ _ _ I)) as (HU1 & E1).
  destruct (uf_find (sm_uf s) u0) as [uf1 u1]. cbn in HU1, E1. subst u1.
  pose proof (uf_find_correct uf1 f v0 HU1) as (HU2 & E2).
  destruct (uf_find uf1 v0) as [uf2 v1]. cbn in HU2, E2. subst v1.
  destruct (N.eqb (f u0) (f v0)) eqn:Euv; [discriminate|]. apply N.eqb_neq in Euv.
  split; [exact Euv|].
  destruct (match alookup (f u0) (sm_enemies s) with Some es => memN (f v0) es | None => false end) eqn:En.
  - inversion H; subst s'. split; [|apply SMInv_with_uf; assumption]. left.
    destruct (alookup (f u0) (sm_enemies s)) as [es|] eqn:Le; [|discriminate].
    apply memN_In in En.
    assert (R : enemy_rel (sm_enemies s) (f u0) (f v0)) by (exists es; auto).
    apply (inv_enemies _ _ _ _ _ I) in R. destruct R as (x & y & Hxy & Fx & Fy).
    exists x, y. auto.
  - unfold aget in H.
    destruct (alookup (f u0) (sm_idx s)) as [iu|]; [|discriminate]. cbn [rbind] in H.
    destruct (alookup (f v0) (sm_idx s)) as [iv|]; [|discriminate]. cbn [rbind] in H.
    assert (G : forall u v, ((u = f u0 /\ v = f v0) \/ (u = f v0 /\ v = f u0)) ->
      sm_try_merge_ordered s u v uf2 = ROk (s', false) ->
      would_cycle f np ks (f u0) (f v0) /\ SMInv ks np en s' f).
    { intros u v Huv H0. unfold sm_try_merge_ordered, aget in H0.
      assert (Fv : f v = v) by (destruct Huv as [(_ & ->)|(_ & ->)]; eapply UFInv_idem; exact HU2).
      assert (Nuv : u <> v) by (destruct Huv as [(-> & ->)|(-> & ->)]; congruence).
      destruct (alookup u (sm_idx s)) as [u_idx|]; [|discriminate]. cbn [rbind] in H0.
      destruct (alookup u (sm_len s)) as [u_len|]; [|discriminate]. cbn [rbind] in H0.
      destruct (alookup v (sm_idx s)) as [v_idx|]; [|discriminate]. cbn [rbind] in H0.
      destruct (alookup v (sm_len s)) as [v_len|]; [|discriminate]. cbn [rbind] in H0.
      destruct (Nat.ltb (length (sm_order s)) (u_idx + u_len) || Nat.ltb (length (sm_order s)) (v_idx + v_len));
        [discriminate|].
      destruct (cyc_loop s u v u_idx (v_idx + v_len) (S (length (sm_idx s))) [v] [v] uf2)
        as [[found uf3]| |] eqn:CL; [|discriminate|discriminate]. cbn [rbind] in H0.
      assert (A0 : Forall (anc ks np f u v) [v]).
      { constructor; [|constructor]. split; [exact Fv|]. split; [congruence|]. left. reflexivity. }
      destruct (cyc_loop_sound ks np en s f I u v u_idx (v_idx + v_len) _ _ _ _ _ _ A0 HU2 CL) as (HU3 & Hf).
      destruct found.
      - inversion H0; subst s'. split; [|apply SMInv_with_uf; assumption].
        destruct (Hf eq_refl) as (w & Wu & Wv & Euw & Pwv).
        exists w. destruct Huv as [(-> & ->)|(-> & ->)].
        + split; [exact Wu|]. split; [exact Wv|]. left. split; [apply t_step; exact Euw|exact Pwv].
        + split; [exact Wv|]. split; [exact Wu|]. right. split; [apply t_step; exact Euw|exact Pwv].
      - apply merge_phase_true in H0. discriminate. }
    destruct (Nat.ltb iu iv).
    + destruct (G (f u0) (f v0) (or_introl (conj eq_refl eq_refl)) H) as (W & I'). split; [right; exact W|exact I'].
    + destruct (G (f v0) (f u0) (or_intror (conj eq_refl eq_refl)) H) as (W & I'). split; [right; exact W|exact I'].
Qed.

(* merging two nodes of the same group is a no-op answering true *)
Theorem sm_try_merge_same_group ks np en s f u0 v0 :
  SMInv ks np en s f -> f u0 = f v0 ->
  exists s', sm_try_merge s u0 v0 = ROk (s', true) /\ SMInv ks np en s' f.
Proof.
  intros I E. unfold sm_try_merge.
  pose proof (uf_find_correct (sm_uf s) f u0 (inv_uf _ _ _ _ _ I)) as (HU1 & E1).
  destruct (uf_find (sm_uf s) u0) as [uf1 u1]. cbn in HU1, E1. subst u1.
  pose proof (uf_find_correct uf1 f v0 HU1) as (HU2 & E2).
  destruct (uf_find uf1 v0) as [uf2 v1]. cbn in HU2, E2. subst v1.
  rewrite E, N.eqb_refl. eexists. split; [reflexivity|]. apply SMInv_with_uf; assumption.
Qed.

(* an enemy conflict is always refused *)
Theorem sm_try_merge_enemy_refused ks np en s f u0 v0 :
  SMInv ks np en s f -> enemy_conflict f en u0 v0 ->
  exists s', sm_try_merge s u0 v0 = ROk (s', false) /\ SMInv ks np en s' f.
Proof.
  intros I (x & y & Hxy & Fx & Fy). unfold sm_try_merge.
  pose proof (uf_find_correct (sm_uf s) f u0 (inv_uf _ _ _ _ _ I)) as (HU1 & E1).
  destruct (uf_find (sm_uf s) u0) as [uf1 u1]. cbn in HU1, E1. subst u1.
  pose proof (uf_find_correct uf1 f v0 HU1) as (HU2 & E2).
  destruct (uf_find uf1 v0) as [uf2 v1]. cbn in HU2, E2. subst v1.
  assert (Ne : f u0 <> f v0).
  { rewrite <- Fx, <- Fy. destruct Hxy as [H|H]; [|apply not_eq_sym];
      apply (inv_no_enemy_inside _ _ _ _ _ I) in H; exact H. }
  rewrite (N_eqb_false _ _ Ne).
  assert (R : enemy_rel (sm_enemies s) (f u0) (f v0)).
  { apply (inv_enemies _ _ _ _ _ I). exists x, y. auto. }
  destruct R as (es & -> & Hin). apply memN_In in Hin. rewrite Hin.
  eexists. split; [reflexivity|]. apply SMInv_with_uf; assumption.
Qed.
