(* GraphAlg engine: SubgraphMerge, part 4: the representation refinement of a successful merge
   ([merge_phase_refines] of PSmMerge.v): steps 2-3 of try_merge, run on two distinct
   representatives that passed the enemy test and the cycle check, do not panic and produce a
   state satisfying SMInv for the merged partition [relabel f u v]. *)
From Coq Require Import List NArith Bool Arith Lia ZifyBool ZifyN Permutation Sorted Relations.
From HV Require Import GraphAlg.Model GraphAlg.PUf GraphAlg.PTopo GraphAlg.PSm GraphAlg.PSmCyc
     GraphAlg.PSmMerge GraphAlg.PLists.
Import ListNotations.

Definition dget (k : N) (m : list (N * nat)) : nat := match alookup k m with Some i => i | None => 0 end.

Lemma NoDup5_excl {A} (P1 S1 P2 S2 P3 : list A) y :
  NoDup (P1 ++ S1 ++ P2 ++ S2 ++ P3) -> (In y P1 \/ In y P2 \/ In y P3) -> ~ In y S1 /\ ~ In y S2.
Proof.
  intros ND H.
  pose proof (NoDup_app_r _ _ ND) as ND1. pose proof (NoDup_app_r _ _ ND1) as ND2.
  pose proof (NoDup_app_r _ _ ND2) as ND3.
  destruct H as [H|[H|H]]; split; intro Hs.
  - eapply (NoDup_app_disj P1); [exact ND|exact H|apply in_or_app; left; exact Hs].
  - eapply (NoDup_app_disj P1); [exact ND|exact H|].
    apply in_or_app; right. apply in_or_app; right. apply in_or_app; left. exact Hs.
  - eapply (NoDup_app_disj S1); [exact ND1|exact Hs|apply in_or_app; left; exact H].
  - eapply (NoDup_app_disj P2); [exact ND2|exact H|apply in_or_app; left; exact Hs].
  - eapply (NoDup_app_disj S1); [exact ND1|exact Hs|].
    apply in_or_app; right. apply in_or_app; right. exact H.
  - eapply (NoDup_app_disj S2); [exact ND3|exact Hs|exact H].
Qed.

Section Refine.
  Variables (ks : list N) (np : N -> list N) (en : list (N * N)) (s : sm) (f : N -> N).
  Hypothesis I : SMInv ks np en s f.
  Variables (u v : N) (lo lu iv lv : nat) (uf3 : links).
  Hypothesis Fu : f u = u.
  Hypothesis Fv : f v = v.
  Hypothesis Ku : In u ks.
  Hypothesis Kv : In v ks.
  Hypothesis Nuv : u <> v.
  Hypothesis Iu : alookup u (sm_idx s) = Some lo.
  Hypothesis Lu : alookup u (sm_len s) = Some lu.
  Hypothesis Iv : alookup v (sm_idx s) = Some iv.
  Hypothesis Lv : alookup v (sm_len s) = Some lv.
  Hypothesis Hord : lo + lu <= iv.
  Hypothesis HU3 : UFInv uf3 f.
  Hypothesis NoE : ~ enemy_rel (sm_enemies s) u v.
  Hypothesis NoC : ~ would_cycle f np ks u v.

  Local Notation o := (sm_order s).
  Local Notation hi := (iv + lv).
  Local Notation un := (slice (sm_order s) lo lu).
  Local Notation vn := (slice (sm_order s) iv lv).
  Definition fr : N -> N := relabel f u v.

  (* ---------------------------------------------------------------- the two groups *)

  Lemma u_facts : 1 <= lu /\ lo + lu <= length o /\ nth_error o lo = Some u /\
                  forall x, In x un <-> (In x ks /\ f x = u).
  Proof.
    destruct (inv_group _ _ _ _ _ I u lo Iu) as (_ & _ & l & Ll & H). assert (l = lu) by congruence. subst. tauto.
  Qed.
  Lemma v_facts : 1 <= lv /\ hi <= length o /\ nth_error o iv = Some v /\
                  forall x, In x vn <-> (In x ks /\ f x = v).
  Proof.
    destruct (inv_group _ _ _ _ _ I v iv Iv) as (_ & _ & l & Ll & H). assert (l = lv) by congruence. subst. tauto.
  Qed.

  Lemma o_nodup : NoDup o. Proof. exact (inv_nodup _ _ _ _ _ I). Qed.
  Lemma o_in x : In x o <-> In x ks. Proof. exact (order_in ks np en s f I x). Qed.
  Lemma f_id x : f (f x) = f x. Proof. exact (f_idem ks np en s f I x). Qed.

  (* ---------------------------------------------------------------- the new representative function *)

  Lemma fr_eq x : fr x = if N.eqb (f x) v then u else f x.
  Proof. unfold fr, relabel. rewrite Fu, Fv. reflexivity. Qed.

  Lemma fr_cases x : (f x = v /\ fr x = u) \/ (f x <> v /\ fr x = f x).
  Proof.
    rewrite fr_eq. destruct (N.eqb (f x) v) eqn:E; [apply N.eqb_eq in E; left; auto|apply N.eqb_neq in E; right; auto].
  Qed.

  Lemma fr_not_v x : fr x <> v.
  Proof. destruct (fr_cases x) as [(_ & ->)|(H & ->)]; congruence. Qed.

  Lemma fr_idem x : fr (fr x) = fr x.
  Proof.
    destruct (fr_cases x) as [(_ & E)|(H & E)]; rewrite E.
    - destruct (fr_cases u) as [(H' & _)|(_ & E')]; congruence.
    - destruct (fr_cases (f x)) as [(H' & _)|(_ & E')]; rewrite f_id in *; congruence.
  Qed.

  Lemma fr_keys k : In k ks -> In (fr k) ks.
  Proof.
    intro H. destruct (fr_cases k) as [(_ & ->)|(_ & ->)]; [exact Ku|apply (inv_f_keys _ _ _ _ _ I); exact H].
  Qed.

  Lemma fr_u_iff x : fr x = u <-> f x = u \/ f x = v.
  Proof. destruct (fr_cases x) as [(H & ->)|(H & ->)]; intuition congruence. Qed.

  Lemma fr_other x r : r <> u -> (fr x = r <-> f x = r /\ r <> v).
  Proof. intro Hr. destruct (fr_cases x) as [(H & ->)|(H & ->)]; intuition congruence. Qed.

  Lemma fr_rep r : fr r = r <-> f r = r /\ r <> v.
  Proof.
    destruct (N.eq_dec r u) as [->|Hr]; [rewrite fr_u_iff; intuition congruence|]. apply fr_other. exact Hr.
  Qed.

  Lemma fr_resp x y : f x = f y -> fr x = fr y.
  Proof. intro E. rewrite !fr_eq, E. reflexivity. Qed.

  (* ---------------------------------------------------------------- the maps after step 2 *)

  Local Notation idx1 := (aremove v (sm_idx s)).
  Local Notation len2 := (aset u (lu + lv) (aremove v (sm_len s))).

  Lemma idx1_v : alookup v idx1 = None.
  Proof. apply alookup_aremove_eq. exact (inv_idx_keys _ _ _ _ _ I). Qed.
  Lemma idx1_o r : r <> v -> alookup r idx1 = alookup r (sm_idx s).
  Proof. intro H. apply alookup_aremove_neq. exact H. Qed.
  Lemma len2_u : alookup u len2 = Some (lu + lv).
  Proof. rewrite alookup_aset, N.eqb_refl. reflexivity. Qed.
  Lemma len2_o r : r <> u -> r <> v -> alookup r len2 = alookup r (sm_len s).
  Proof. intros H1 H2. rewrite alookup_aset, (N_eqb_false r u H1). apply alookup_aremove_neq. exact H2. Qed.

  (* the members of a (new) group, as laid out by rebuild *)
  Definition memf (g : N) : list N :=
    if N.eqb g u then un ++ vn else slice o (dget g idx1) (dget g len2).
  Definition keep (g y : N) : bool := N.eqb (fr y) g.

  Lemma memf_filter g : In g ks -> fr g = g -> memf g = filter (keep g) o.
  Proof.
    intros Kg Fg. unfold memf. destruct (N.eqb g u) eqn:Eg.
    - apply N.eqb_eq in Eg. subst g.
      destruct u_facts as (_ & _ & _ & Mu). destruct v_facts as (_ & _ & _ & Mv).
      set (R := skipn (lo + lu) o). set (j := iv - (lo + lu)).
      assert (Ev : vn = slice R j lv).
      { unfold slice, R. rewrite <- skipn_add. replace (lo + lu + j) with iv by (unfold j; lia). reflexivity. }
      assert (Eo : o = firstn lo o ++ un ++ firstn j R ++ vn ++ skipn (j + lv) R).
      { rewrite Ev. rewrite <- (slice_split R j lv). exact (slice_split o lo lu). }
      pose proof o_nodup as ND. rewrite Eo in ND.
      symmetry. rewrite Eo at 1.
      assert (Pfalse : forall y, In y (firstn lo o) \/ In y (firstn j R) \/ In y (skipn (j + lv) R) -> keep u y = false).
      { intros y Hy. destruct (NoDup5_excl _ _ _ _ _ y ND Hy) as (N1 & N2).
        assert (Ky : In y ks).
        { apply o_in. rewrite Eo. destruct Hy as [Hy|[Hy|Hy]].
          - apply in_or_app; left; exact Hy.
          - apply in_or_app; right. apply in_or_app; right. apply in_or_app; left. exact Hy.
          - apply in_or_app; right. apply in_or_app; right. apply in_or_app; right. apply in_or_app; right. exact Hy. }
        unfold keep. apply N.eqb_neq. intro E. apply fr_u_iff in E. destruct E as [E|E].
        - apply N1. apply Mu. auto.
        - apply N2. apply Mv. auto. }
      apply filter_parts2.
      + intros y Hy. apply Pfalse. auto.
      + intros y Hy. apply Mu in Hy. unfold keep. apply N.eqb_eq. apply fr_u_iff. tauto.
      + intros y Hy. apply Pfalse. auto.
      + intros y Hy. apply Mv in Hy. unfold keep. apply N.eqb_eq. apply fr_u_iff. tauto.
      + intros y Hy. apply Pfalse. auto.
    - apply N.eqb_neq in Eg. apply fr_rep in Fg. destruct Fg as (Fg & Ngv).
      destruct (rep_group ks np en s f I g Kg Fg) as (i & l & Ig & Lg & _ & _ & _ & Mg).
      unfold dget. rewrite (idx1_o g Ngv), Ig, (len2_o g Eg Ngv), Lg.
      pose proof o_nodup as ND. rewrite (slice_split o i l) in ND.
      symmetry. rewrite (slice_split o i l) at 1. apply filter_parts1.
      + intros y Hy. unfold keep. apply N.eqb_neq. intro E. apply (fr_other y g Eg) in E.
        eapply (NoDup_app_disj (firstn i o)); [exact ND|exact Hy|]. apply in_or_app; left.
        apply Mg. split; [|tauto]. apply o_in. rewrite (slice_split o i l). apply in_or_app; left; exact Hy.
      + intros y Hy. apply Mg in Hy. unfold keep. apply N.eqb_eq. apply (fr_other y g Eg). tauto.
      + intros y Hy. unfold keep. apply N.eqb_neq. intro E. apply (fr_other y g Eg) in E.
        apply NoDup_app_r in ND.
        eapply (NoDup_app_disj (slice o i l)); [exact ND| |exact Hy].
        apply Mg. split; [|tauto]. apply o_in. rewrite (slice_split o i l).
        apply in_or_app; right. apply in_or_app; right. exact Hy.
  Qed.

  Lemma memf_in g x : In g ks -> fr g = g -> (In x (memf g) <-> In x ks /\ fr x = g).
  Proof.
    intros Kg Fg. rewrite (memf_filter g Kg Fg), filter_In, o_in. unfold keep. rewrite N.eqb_eq. tauto.
  Qed.

  Lemma memf_nodup g : In g ks -> fr g = g -> NoDup (memf g).
  Proof. intros Kg Fg. rewrite (memf_filter g Kg Fg). apply NoDup_filter'. exact o_nodup. Qed.

  Lemma memf_before g p x : In g ks -> fr g = g -> before p x o -> fr p = g -> fr x = g -> before p x (memf g).
  Proof.
    intros Kg Fg B Hp Hx. rewrite (memf_filter g Kg Fg). apply before_filter; [exact B| |]; unfold keep; apply N.eqb_eq; assumption.
  Qed.

  (* ---------------------------------------------------------------- the window *)

  Local Notation W := (slice (sm_order s) lo (hi - lo)).

  Lemma lo_lt_hi : lo < hi. Proof. destruct u_facts, v_facts. lia. Qed.

  Lemma o_window : o = firstn lo o ++ W ++ skipn hi o.
  Proof. pose proof (slice_split o lo (hi - lo)) as E. replace (lo + (hi - lo)) with hi in E by (pose proof lo_lt_hi; lia). exact E. Qed.

  Lemma gi_of r i : alookup r (sm_idx s) = Some i -> gi s r = i.
  Proof. intro H. unfold gi. rewrite H. reflexivity. Qed.

  Lemma inW_group x : In x ks -> (In x W <-> lo <= gi s (f x) /\ gi s (f x) < hi).
  Proof.
    intro Kx. assert (Kr : In (f x) ks) by (apply (inv_f_keys _ _ _ _ _ I); exact Kx).
    destruct (rep_group ks np en s f I (f x) Kr (f_id x)) as (i & l & Ir & Lr & L1 & Rr & _ & Mr).
    rewrite (gi_of _ _ Ir).
    assert (Hx : In x (slice o i l)) by (apply Mr; auto).
    apply In_slice_nth in Hx. destruct Hx as (j & J1 & J2 & J3).
    destruct u_facts as (U1 & U2 & _ & _). destruct v_facts as (V1 & V2 & _ & _).
    assert (Key : (lo <= j /\ j < hi) <-> (lo <= i /\ i < hi)).
    { destruct (N.eq_dec (f x) u) as [E|Eu]; [rewrite E in Ir; assert (i = lo) by congruence; rewrite E in Lr; assert (l = lu) by congruence; lia|].
      destruct (N.eq_dec (f x) v) as [E|Ev]; [rewrite E in Ir; assert (i = iv) by congruence; rewrite E in Lr; assert (l = lv) by congruence; lia|].
      pose proof (ranges_disjoint ks np en s f I _ _ _ _ _ _ Ir Lr Iu Lu Eu).
      pose proof (ranges_disjoint ks np en s f I _ _ _ _ _ _ Ir Lr Iv Lv Ev). lia. }
    rewrite <- Key. rewrite In_slice_nth. split.
    - intros (j' & A & B & C). assert (j' = j) by (eapply nth_inj; eassumption). subst. lia.
    - intros (A & B). exists j. repeat split; [lia|lia|exact J3].
  Qed.

  Definition riw : list N := sort_dedup (map fr W).

  Lemma riw_in r : In r riw <-> In r ks /\ fr r = r /\ lo <= gi s r /\ gi s r < hi.
  Proof.
    unfold riw. rewrite In_sort_dedup, in_map_iff. split.
    - intros (x & <- & Hx). assert (Kx : In x ks) by (apply o_in; eapply In_slice_in; exact Hx).
      split; [apply fr_keys; exact Kx|]. split; [apply fr_idem|].
      destruct (fr_cases x) as [(_ & ->)|(_ & ->)].
      + rewrite (gi_of _ _ Iu). pose proof lo_lt_hi. lia.
      + apply inW_group; assumption.
    - intros (Kr & Fr & A & B). exists r. split; [exact Fr|]. apply fr_rep in Fr. destruct Fr as (Fr & _).
      destruct (rep_group ks np en s f I r Kr Fr) as (i & l & Ir & _ & _ & _ & Hn & _).
      rewrite (gi_of _ _ Ir) in *. apply In_slice_nth. exists i. repeat split; [lia|lia|exact Hn].
  Qed.

  Lemma riw_nodup : NoDup riw. Proof. apply sort_dedup_NoDup. Qed.
  Lemma riw_u : In u riw.
  Proof. apply riw_in. split; [exact Ku|]. split; [apply fr_u_iff; auto|]. rewrite (gi_of _ _ Iu). pose proof lo_lt_hi. lia. Qed.

  Lemma W_in x : In x W <-> In x ks /\ In (fr x) riw.
  Proof.
    split.
    - intro Hx. assert (Kx : In x ks) by (apply o_in; eapply In_slice_in; exact Hx). split; [exact Kx|].
      unfold riw. apply In_sort_dedup. apply in_map. exact Hx.
    - intros (Kx & Hr). apply riw_in in Hr. destruct Hr as (_ & _ & A & B). apply inW_group; [exact Kx|].
      destruct (fr_cases x) as [(E & Er)|(E & Er)]; rewrite Er in *.
      + rewrite E, (gi_of _ _ Iv). destruct v_facts. lia.
      + lia.
  Qed.

  (* ---------------------------------------------------------------- subgraph_preds after step 2 *)

  Section Preds.
    Variables ups vps : list N.
    Hypothesis Pu : alookup u (sm_preds s) = Some ups.
    Hypothesis Pv : alookup v (sm_preds s) = Some vps.

    Definition retained : list N := filter (fun x => negb (N.eqb x u)) (map fr (ups ++ vps)).
    Local Notation preds2 := (aset u (sort_dedup retained) (aremove v (sm_preds s))).

    Lemma preds2_u : alookup u preds2 = Some (sort_dedup retained).
    Proof. rewrite alookup_aset, N.eqb_refl. reflexivity. Qed.
    Lemma preds2_o r : r <> u -> r <> v -> alookup r preds2 = alookup r (sm_preds s).
    Proof. intros H1 H2. rewrite alookup_aset, (N_eqb_false r u H1). apply alookup_aremove_neq. exact H2. Qed.
    Lemma preds2_v : alookup v preds2 = None.
    Proof.
      rewrite alookup_aset, (N_eqb_false v u) by congruence.
      apply alookup_aremove_eq. exact (inv_preds_keys _ _ _ _ _ I).
    Qed.

    Lemma retained_in q : In q (sort_dedup retained) <-> q <> u /\ exists q0, In q0 (ups ++ vps) /\ fr q0 = q.
    Proof.
      rewrite In_sort_dedup. unfold retained. rewrite filter_In, in_map_iff, negb_true_iff, N.eqb_neq.
      split; [intros ((q0 & E & H) & Hn); split; [exact Hn|exists q0; auto]|
              intros (Hn & q0 & H & E); split; [exists q0; auto|exact Hn]].
    Qed.

    Lemma preds2_sound r ps q : alookup r preds2 = Some ps -> In q ps ->
      fr r = r /\ In r ks /\ exists x p, In x ks /\ fr x = r /\ In p (np x) /\ fr p = fr q.
    Proof.
      intros Hr Hq. destruct (N.eq_dec r u) as [->|Nu].
      - rewrite preds2_u in Hr. inversion Hr; subst ps. apply retained_in in Hq.
        destruct Hq as (Nq & q0 & Hq0 & <-).
        split; [apply fr_u_iff; auto|]. split; [exact Ku|].
        apply in_app_or in Hq0. destruct Hq0 as [H0|H0].
        + destruct (inv_preds_sound _ _ _ _ _ I u ups q0 Pu H0) as (_ & _ & x & p & Kx & Fx & Hp & Fp).
          exists x, p. repeat split; auto; [apply fr_u_iff; auto|rewrite fr_idem; apply fr_resp; exact Fp].
        + destruct (inv_preds_sound _ _ _ _ _ I v vps q0 Pv H0) as (_ & _ & x & p & Kx & Fx & Hp & Fp).
          exists x, p. repeat split; auto; [apply fr_u_iff; auto|rewrite fr_idem; apply fr_resp; exact Fp].
      - destruct (N.eq_dec r v) as [->|Nv]; [rewrite preds2_v in Hr; discriminate|].
        rewrite (preds2_o r Nu Nv) in Hr.
        destruct (inv_preds_sound _ _ _ _ _ I r ps q Hr Hq) as (Fr & Kr & x & p & Kx & Fx & Hp & Fp).
        split; [apply fr_rep; auto|]. split; [exact Kr|]. exists x, p. repeat split; auto.
        + apply (fr_other x r Nu). auto.
        + apply fr_resp. exact Fp.
    Qed.

    Lemma preds2_noself r ps q : alookup r preds2 = Some ps -> In q ps -> fr q <> r.
    Proof.
      intros Hr Hq. destruct (N.eq_dec r u) as [->|Nu].
      - rewrite preds2_u in Hr. inversion Hr; subst ps. apply retained_in in Hq.
        destruct Hq as (Nq & q0 & _ & <-). rewrite fr_idem. exact Nq.
      - destruct (N.eq_dec r v) as [->|Nv]; [rewrite preds2_v in Hr; discriminate|].
        rewrite (preds2_o r Nu Nv) in Hr. intro E. apply (fr_other q r Nu) in E.
        exact (inv_preds_noself _ _ _ _ _ I r ps q Hr Hq (proj1 E)).
    Qed.

    Lemma preds2_complete x p : In x ks -> In p (np x) ->
      fr p = fr x \/ exists ps q, alookup (fr x) preds2 = Some ps /\ In q ps /\ fr q = fr p.
    Proof.
      intros Kx Hp. destruct (N.eq_dec (fr p) (fr x)) as [E|Ne]; [left; exact E|right].
      destruct (inv_preds_complete _ _ _ _ _ I x p Kx Hp) as [E|(ps & q & Hps & Hq & Fq)];
        [exfalso; apply Ne; apply fr_resp; exact E|].
      assert (Eq : fr q = fr p) by (apply fr_resp; exact Fq).
      destruct (fr_cases x) as [(Fx & Ex)|(Fx & Ex)].
      - rewrite Ex. exists (sort_dedup retained), (fr q). split; [exact preds2_u|]. split; [|rewrite fr_idem; exact Eq].
        apply retained_in. split; [congruence|]. exists q. split; [|reflexivity].
        rewrite Fx in Hps. assert (ps = vps) by congruence. subst. apply in_or_app; right; exact Hq.
      - destruct (N.eq_dec (f x) u) as [Eu|Nu].
        + assert (Ex' : fr x = u) by congruence. rewrite Ex'.
          exists (sort_dedup retained), (fr q). split; [exact preds2_u|]. split; [|rewrite fr_idem; exact Eq].
          apply retained_in. split; [congruence|]. exists q. split; [|reflexivity].
          rewrite Eu in Hps. assert (ps = ups) by congruence. subst. apply in_or_app; left; exact Hq.
        + rewrite Ex. exists ps, q. split; [|auto]. rewrite (preds2_o (f x) Nu Fx). exact Hps.
    Qed.

    Lemma preds2_total r : In r ks -> fr r = r -> alookup r preds2 <> None.
    Proof.
      intros Kr Fr. destruct (N.eq_dec r u) as [->|Nu]; [rewrite preds2_u; discriminate|].
      apply fr_rep in Fr. destruct Fr as (Fr & Nv). rewrite (preds2_o r Nu Nv).
      exact (inv_preds_total _ _ _ _ _ I r Kr Fr).
    Qed.

    (* every new quotient edge into a window group is a window-graph edge, and conversely *)
    Lemma preds2_qedge r ps q : alookup r preds2 = Some ps -> In q ps -> qedge fr np ks (fr q) r.
    Proof.
      intros Hr Hq. destruct (preds2_sound r ps q Hr Hq) as (_ & _ & x & p & Kx & Fx & Hp & Fp).
      split; [exact (preds2_noself r ps q Hr Hq)|]. exists x, p. auto.
    Qed.
  End Preds.

  Lemma map_fst_aremove_in {A} k (m : list (N * A)) x : In x (map fst (aremove k m)) -> In x (map fst m).
  Proof.
    induction m as [|[k0 v0] r IH]; cbn; [tauto|]. destruct (N.eqb k k0); cbn; [auto|]. intros [H|H]; auto.
  Qed.
  Lemma map_fst_aremove {A} k (m : list (N * A)) : NoDup (map fst m) -> NoDup (map fst (aremove k m)).
  Proof.
    induction m as [|[k0 v0] r IH]; cbn; intro ND; [constructor|]. inversion ND; subst.
    destruct (N.eqb k k0); cbn; [assumption|]. constructor; [|auto].
    intro H. apply H1. eapply map_fst_aremove_in. exact H.
  Qed.

  (* ---------------------------------------------------------------- enemies after step 2 *)

  Local Notation e0 := (sm_enemies s).

  Lemma e0_sym a b : enemy_rel e0 a b -> enemy_rel e0 b a.
  Proof. exact (SMInv_enemies_sym ks np en s f a b I). Qed.
  Lemma e0_irrefl a : ~ enemy_rel e0 a a.
  Proof.
    intro H. apply (inv_enemies _ _ _ _ _ I) in H. destruct H as (x & y & [Hxy|Hxy] & Fx & Fy);
      apply (inv_no_enemy_inside _ _ _ _ _ I) in Hxy; congruence.
  Qed.

  Definition enemies2_spec (e2 : list (N * list N)) : Prop :=
    forall a b, enemy_rel e2 a b <->
      a <> v /\ b <> v /\ (enemy_rel e0 a b \/ (a = u /\ enemy_rel e0 v b) \/ (b = u /\ enemy_rel e0 a v)).

  Definition EInv (D : list N) (e : list (N * list N)) : Prop :=
    enemies_wf e /\ alookup v e = None /\
    forall a b, enemy_rel e a b <->
      a <> v /\ ((enemy_rel e0 a b /\ ~ (In a D /\ b = v)) \/ (a = u /\ In b D) \/ (In a D /\ b = u)).

  Lemma sorted_filter (k : N -> bool) l : StronglySorted N.lt l -> StronglySorted N.lt (filter k l).
  Proof.
    induction 1 as [|a l S IH F]; cbn; [constructor|]. destruct (k a); [|exact IH].
    constructor; [exact IH|]. rewrite Forall_forall in *. intros y Hy. apply filter_In in Hy. apply F. tauto.
  Qed.

  Lemma In_sremove x y l : In y (sremove x l) <-> In y l /\ y <> x.
  Proof.
    unfold sremove. rewrite filter_In, negb_true_iff, N.eqb_neq. intuition congruence.
  Qed.

  Lemma merge_enemies_loop : forall T D e,
    EInv D e -> NoDup T -> (forall w, In w T -> ~ In w D /\ enemy_rel e0 v w) ->
    exists e2 D2, merge_enemies u v T e = ROk e2 /\ EInv D2 e2 /\ (forall x, In x D2 <-> In x T \/ In x D).
  Proof.
    induction T as [|w T IH]; intros D e HE ND HT; cbn.
    - exists e, D. split; [reflexivity|]. split; [exact HE|]. intro x. tauto.
    - destruct (HT w (or_introl eq_refl)) as (NwD & Evw). inversion ND as [|? ? NwT ND']; subst.
      assert (Nwu : w <> u) by (intros ->; apply NoE; apply e0_sym; exact Evw).
      assert (Nwv : w <> v) by (intros ->; exact (e0_irrefl v Evw)).
      rewrite (N_eqb_false w u Nwu).
      destruct HE as (Wf & Hv & Rel).
      assert (Rwv : enemy_rel e w v).
      { apply Rel. split; [exact Nwv|]. left. split; [apply e0_sym; exact Evw|tauto]. }
      destruct Rwv as (we & Lw & Hwe).
      assert (Lw' : alookup w (eadd u w e) = Some we).
      { unfold eadd. rewrite alookup_aset, (N_eqb_false w u Nwu). exact Lw. }
      unfold aget. rewrite Lw'. cbn [rbind].
      assert (Mv : memN v we = true) by (apply memN_In; exact Hwe). rewrite Mv. cbn [negb].
      enough (HE' : EInv (w :: D) (aset w (sinsert u (sremove v we)) (eadd u w e))).
      { destruct (IH (w :: D) _ HE' ND') as (e2 & D2 & E2 & HE2 & HD2).
        - intros w' Hw'. destruct (HT w' (or_intror Hw')) as (A & B). split; [|exact B].
          intros [<-|Hd]; contradiction.
        - exists e2, D2. split; [exact E2|]. split; [exact HE2|]. intro x. rewrite HD2. cbn [In]. intuition. }
      pose proof (eadd_wf u w e Wf) as (ND1 & S1). split; [|split].
        * split; [apply map_fst_aset; exact ND1|].
          intros a es. rewrite alookup_aset. destruct (N.eqb a w) eqn:Ea.
          -- intro H. inversion H. apply sinsert_sorted. apply sorted_filter. exact (proj2 Wf w we Lw).
          -- apply S1.
        * rewrite alookup_aset, (N_eqb_false v w) by congruence.
          unfold eadd. rewrite alookup_aset, (N_eqb_false v u) by congruence. exact Hv.
        * intros a b. destruct (N.eq_dec a w) as [->|Naw].
          -- (* the processed key *)
             assert (Hl : enemy_rel (aset w (sinsert u (sremove v we)) (eadd u w e)) w b <->
                          b = u \/ (In b we /\ b <> v)).
             { unfold enemy_rel. rewrite alookup_aset, N.eqb_refl. split.
               - intros (es & H & Hb). inversion H; subst es. apply In_sinsert in Hb. rewrite In_sremove in Hb. exact Hb.
               - intro Hb. eexists. split; [reflexivity|]. apply In_sinsert. rewrite In_sremove. exact Hb. }
             rewrite Hl.
             assert (Hwe' : In b we <-> enemy_rel e0 w b).
             { split.
               - intro Hb. assert (R : enemy_rel e w b) by (exists we; auto). apply Rel in R.
                 destruct R as (_ & [(R & _)|[(Eu & _)|(Hd & _)]]); [exact R|congruence|contradiction].
               - intro R. assert (R' : enemy_rel e w b).
                 { apply Rel. split; [exact Nwv|]. left. split; [exact R|]. intros (Hd & _). contradiction. }
                 destruct R' as (es & H1 & H2). congruence. }
             rewrite Hwe'. cbn [In]. split.
             ++ intros [->|(R & Nb)]; (split; [exact Nwv|]); [right; right; auto|left; split; [exact R|tauto]].
             ++ intros (_ & [(R & Hn)|[(Eu & _)|(_ & Eb)]]); [|congruence|left; exact Eb].
                right. split; [exact R|]. intros ->. apply Hn. auto.
          -- (* every other key *)
             assert (Hl : enemy_rel (aset w (sinsert u (sremove v we)) (eadd u w e)) a b <->
                          enemy_rel e a b \/ (a = u /\ b = w)).
             { rewrite <- eadd_rel. unfold enemy_rel. rewrite alookup_aset, (N_eqb_false a w Naw). tauto. }
             rewrite Hl, Rel. cbn [In]. split.
             ++ intros [(Na & [(R & Hn)|[(Eu & Hb)|(Hd & Eb)]])|(-> & ->)].
                ** split; [exact Na|]. left. split; [exact R|]. intros ([Ew|Hd] & Eb); [congruence|tauto].
                ** split; [exact Na|]. right. left. auto.
                ** split; [exact Na|]. right. right. auto.
                ** split; [congruence|]. right. left. auto.
             ++ intros (Na & [(R & Hn)|[(Eu & [Eb|Hb])|([Ew|Hd] & Eb)]]).
                ** left. split; [exact Na|]. left. split; [exact R|]. intros (Hd & Eb). apply Hn. auto.
                ** right. auto.
                ** left. split; [exact Na|]. right. left. auto.
                ** congruence.
                ** left. split; [exact Na|]. right. right. auto.
  Qed.

  Lemma EInv_init : EInv [] (aremove v e0).
  Proof.
    assert (Lk : forall a, a <> v -> alookup a (aremove v e0) = alookup a e0) by (intros; apply alookup_aremove_neq; assumption).
    assert (Lv0 : alookup v (aremove v e0) = None) by (apply alookup_aremove_eq; exact (inv_enemies_keys _ _ _ _ _ I)).
    split; [split|split].
    - apply map_fst_aremove. exact (inv_enemies_keys _ _ _ _ _ I).
    - intros a es H. destruct (N.eq_dec a v) as [->|Na]; [congruence|]. rewrite (Lk a Na) in H.
      exact (inv_enemies_sorted _ _ _ _ _ I a es H).
    - exact Lv0.
    - intros a b. unfold enemy_rel. destruct (N.eq_dec a v) as [->|Na].
      + rewrite Lv0. split; [intros (es & H & _); discriminate|tauto].
      + rewrite (Lk a Na). cbn [In]. tauto.
  Qed.

  Lemma enemies2_ok :
    exists e2, (match alookup v e0 with
                | None => ROk e0
                | Some ws => merge_enemies u v ws (aremove v e0)
                end) = ROk e2 /\ enemies2_spec e2 /\ enemies_wf e2.
  Proof.
    destruct (alookup v e0) as [ws|] eqn:Lv0.
    - assert (Hws : forall w, In w ws <-> enemy_rel e0 v w).
      { intro w. unfold enemy_rel. rewrite Lv0. split; [intro H; exists ws; auto|intros (es & E & H); congruence]. }
      destruct (merge_enemies_loop ws [] (aremove v e0) EInv_init) as (e2 & D2 & E2 & (Wf & _ & Rel) & HD).
      { apply sorted_NoDup. exact (inv_enemies_sorted _ _ _ _ _ I v ws Lv0). }
      { intros w Hw. split; [intros []|apply Hws; exact Hw]. }
      exists e2. split; [exact E2|]. split; [|exact Wf].
      assert (Hd : forall a, In a D2 <-> enemy_rel e0 v a) by (intro a; rewrite HD, Hws; cbn [In]; tauto).
      intros a b. rewrite Rel. split.
      + intros (Na & [(R & Hn)|[(Eu & Hb)|(Hd' & Eb)]]); (split; [exact Na|]).
        * split; [|left; exact R]. intros ->. apply Hn. split; [apply Hd; apply e0_sym; exact R|reflexivity].
        * apply Hd in Hb. split; [intros ->; exact (e0_irrefl v Hb)|]. right. left. auto.
        * apply Hd in Hd'. split; [congruence|]. right. right. split; [exact Eb|apply e0_sym; exact Hd'].
      + intros (Na & Nb & [R|[(Eu & R)|(Eb & R)]]); (split; [exact Na|]).
        * left. split; [exact R|]. intros (_ & ->). congruence.
        * right. left. split; [exact Eu|apply Hd; exact R].
        * right. right. split; [apply Hd; apply e0_sym; exact R|exact Eb].
    - exists e0. split; [reflexivity|]. split.
      + assert (Nv : forall b, ~ enemy_rel e0 v b) by (intros b (es & E & _); congruence).
        intros a b. split.
        * intro R. split; [intros ->; exact (Nv b R)|]. split; [intros ->; exact (Nv a (e0_sym _ _ R))|left; exact R].
        * intros (_ & _ & [R|[(_ & R)|(_ & R)]]); [exact R|exfalso; exact (Nv b R)|exfalso; exact (Nv a (e0_sym _ _ R))].
      + split; [exact (inv_enemies_keys _ _ _ _ _ I)|exact (inv_enemies_sorted _ _ _ _ _ I)].
  Qed.

  Lemma enemies2_inv e2 : enemies2_spec e2 ->
    forall a b, enemy_rel e2 a b <-> exists x y, (In (x, y) en \/ In (y, x) en) /\ fr x = a /\ fr y = b.
  Proof.
    intros Spec a b. unfold enemies2_spec in Spec. rewrite Spec. split.
    - assert (fr_of : forall z, f z <> v -> fr z = f z) by (intros z Hz; destruct (fr_cases z) as [(E & _)|(_ & E)]; congruence).
      assert (fr_of_v : forall z, f z = v -> fr z = u) by (intros z Hz; apply fr_u_iff; auto).
      intros (Na & Nb & [R|[(Eu & R)|(Eb & R)]]); apply (inv_enemies _ _ _ _ _ I) in R;
        destruct R as (x & y & Hxy & Fx & Fy); exists x, y; (split; [exact Hxy|]).
      + split; [rewrite fr_of; congruence|rewrite fr_of; congruence].
      + split; [rewrite fr_of_v; congruence|rewrite fr_of; congruence].
      + split; [rewrite fr_of; congruence|rewrite fr_of_v; congruence].
    - intros (x & y & Hxy & <- & <-). split; [apply fr_not_v|]. split; [apply fr_not_v|].
      assert (Nxy : f x <> f y) by (destruct Hxy as [H|H]; apply (inv_no_enemy_inside _ _ _ _ _ I) in H; congruence).
      assert (R : enemy_rel e0 (f x) (f y)) by (apply (inv_enemies _ _ _ _ _ I); exists x, y; auto).
      destruct (fr_cases x) as [(Ex & ->)|(Ex & ->)]; destruct (fr_cases y) as [(Ey & ->)|(Ey & ->)].
      + congruence.
      + right. left. split; [reflexivity|]. rewrite <- Ex. exact R.
      + right. right. split; [reflexivity|]. rewrite <- Ey. exact R.
      + left. exact R.
  Qed.

  Lemma no_pair_uv x y : (In (x, y) en \/ In (y, x) en) -> ~ (f x = u /\ f y = v).
  Proof.
    intros Hxy (Ex & Ey). apply NoE. apply (inv_enemies _ _ _ _ _ I). exists x, y. auto.
  Qed.

  (* ---------------------------------------------------------------- step 3: the window graph *)

  Section Window.
    Variables ups vps : list N.
    Hypothesis Pu : alookup u (sm_preds s) = Some ups.
    Hypothesis Pv : alookup v (sm_preds s) = Some vps.
    Variable uf6 : links.
    Hypothesis HU6 : UFInv uf6 fr.

    Local Notation preds2 := (aset u (sort_dedup (retained ups vps)) (aremove v (sm_preds s))).
    Local Notation wp := (window_preds preds2 idx1 uf6 lo hi).

    Lemma root6 p : uf_root uf6 p = fr p.
    Proof. unfold uf_root. exact (proj2 (uf_find_correct uf6 fr p HU6)). Qed.

    Lemma wp_in a k : In a (wp k) <->
      exists ps q, alookup k preds2 = Some ps /\ In q ps /\ a = fr q /\
                   exists i, alookup a idx1 = Some i /\ in_window lo hi i = true.
    Proof.
      unfold window_preds, preds_of. rewrite filter_In, in_map_iff. split.
      - intros ((q & <- & Hq) & Hw). destruct (alookup k preds2) as [ps|]; [|destruct Hq].
        exists ps, q. rewrite root6 in *. repeat split; auto.
        destruct (alookup (fr q) idx1) as [i|]; [exists i; auto|discriminate].
      - intros (ps & q & -> & Hq & -> & i & Hi & Hw). split; [exists q; split; [apply root6|exact Hq]|].
        rewrite Hi. exact Hw.
    Qed.

    Lemma window_gi a i : a <> v -> alookup a idx1 = Some i -> (in_window lo hi i = true <-> lo <= gi s a /\ gi s a < hi).
    Proof.
      intros Na Hi. rewrite (idx1_o a Na) in Hi. rewrite (gi_of _ _ Hi). unfold in_window.
      rewrite andb_true_iff, Nat.leb_le, Nat.ltb_lt. tauto.
    Qed.

    Lemma wp_closed k a : In a (wp k) -> In a riw.
    Proof.
      intro H. apply wp_in in H. destruct H as (ps & q & Hk & Hq & -> & i & Hi & Hw).
      destruct (preds2_sound ups vps Pu Pv k ps q Hk Hq) as (_ & _ & x & p & Kx & _ & Hp & Fp).
      apply riw_in. rewrite <- Fp.
      assert (Kp : In p ks) by (eapply (pred_in_keys ks np en s f I); eassumption).
      split; [apply fr_keys; exact Kp|]. split; [apply fr_idem|].
      rewrite Fp. apply (window_gi (fr q) i (fr_not_v q) Hi). exact Hw.
    Qed.

    Lemma wp_qedge k a : In a (wp k) -> qedge fr np ks a k.
    Proof.
      intro H. apply wp_in in H. destruct H as (ps & q & Hk & Hq & -> & _).
      exact (preds2_qedge ups vps Pu Pv k ps q Hk Hq).
    Qed.

    (* a new quotient edge between two window groups is a window-graph edge *)
    Lemma qedge_wp x p : In x ks -> In p (np x) -> fr p <> fr x -> In (fr p) riw -> In (fr p) (wp (fr x)).
    Proof.
      intros Kx Hp Ne Hr. destruct (preds2_complete ups vps Pu Pv x p Kx Hp) as [E|(ps & q & Hps & Hq & Fq)]; [congruence|].
      apply wp_in. exists ps, q. split; [exact Hps|]. split; [exact Hq|]. split; [congruence|].
      apply riw_in in Hr. destruct Hr as (Kr & Fr & A & B). apply fr_rep in Fr. destruct Fr as (Fr & Nv).
      pose proof (inv_group_total _ _ _ _ _ I _ Kr Fr) as T.
      destruct (alookup (fr p) (sm_idx s)) as [i|] eqn:Ei; [|congruence].
      exists i. split; [rewrite (idx1_o _ Nv); exact Ei|].
      apply (window_gi (fr p) i Nv); [rewrite (idx1_o _ Nv); exact Ei|auto].
    Qed.

    Lemma window_defined : window_preds_defined preds2 idx1 uf6 riw = true.
    Proof.
      unfold window_preds_defined. apply forallb_forall. intros k Hk. apply riw_in in Hk.
      destruct Hk as (Kk & Fk & _).
      pose proof (preds2_total ups vps k Kk Fk) as T.
      destruct (alookup k preds2) as [ps|] eqn:Ek; [|congruence].
      apply forallb_forall. intros q Hq. rewrite root6.
      destruct (preds2_sound ups vps Pu Pv k ps q Ek Hq) as (_ & _ & x & p & Kx & _ & Hp & Fp).
      assert (Kp : In p ks) by (eapply (pred_in_keys ks np en s f I); eassumption).
      assert (Kq : In (fr q) ks) by (rewrite <- Fp; apply fr_keys; exact Kp).
      pose proof (fr_idem q) as Fq. apply fr_rep in Fq. destruct Fq as (Fq & Nv).
      pose proof (inv_group_total _ _ _ _ _ I _ Kq Fq) as T2.
      rewrite (idx1_o _ Nv). destruct (alookup (fr q) (sm_idx s)); [reflexivity|congruence].
    Qed.

    Lemma topo_window :
      exists sg, topo_sort_fuel wp (S (length riw)) riw = TOk sg /\
                 Permutation sg riw /\ NoDup sg /\ tsorted wp sg.
    Proof.
      assert (Cl : forall x p, In x riw -> In p (wp x) -> In p riw) by (intros x p _ Hp; eapply wp_closed; exact Hp).
      destruct (topo_sort_fuel wp (S (length riw)) riw) as [sg|c|] eqn:T.
      - exists sg. split; [reflexivity|]. split; [exact (topo_sort_ok_perm _ _ _ _ riw_nodup Cl T)|].
        destruct (topo_sort_ok _ _ _ _ T) as (ND & _ & Ts & _). auto.
      - exfalso. destruct (topo_sort_cycle _ _ _ _ T) as (Hc & HU).
        assert (Hin : forall x, In x c -> In x riw) by (apply (HU (fun x => In x riw)); [exact Cl|auto]).
        pose proof (cycle_clos_trans wp (qedge fr np ks) c Hc (fun x y _ Hx => wp_qedge y x Hx)) as P.
        exact (merge_keeps_acyclic ks np en s f I u v Fu Fv Nuv NoC _ P).
      - exfalso. apply (topo_sort_fuel_ok wp (S (length riw)) riw riw Cl (incl_refl _)); [lia|exact T].
    Qed.

    (* ---------------------------------------------------------------- the sorted groups, rebuild *)

    Variable sg : list N.
    Hypothesis Sperm : Permutation sg riw.
    Hypothesis Snd : NoDup sg.
    Hypothesis Sts : tsorted wp sg.

    Lemma sg_in g : In g sg <-> In g riw.
    Proof. split; intro H; [eapply Permutation_in; [exact Sperm|exact H]|eapply Permutation_in; [apply Permutation_sym; exact Sperm|exact H]]. Qed.

    Lemma group_data g : In g riw -> g <> u ->
      exists i l, alookup g idx1 = Some i /\ alookup g len2 = Some l /\ i + l <= length o /\
                  memf g = slice o i l /\ nth_error o i = Some g /\ 1 <= l /\ alookup g (sm_idx s) = Some i.
    Proof.
      intros Hg Nu. apply riw_in in Hg. destruct Hg as (Kg & Fg & _). apply fr_rep in Fg. destruct Fg as (Fg & Nv).
      destruct (rep_group ks np en s f I g Kg Fg) as (i & l & Ig & Lg & L1 & Rg & Hn & _).
      exists i, l. rewrite (idx1_o g Nv), (len2_o g Nu Nv). repeat (split; [assumption|]). split; [|auto].
      unfold memf, dget. rewrite (N_eqb_false g u Nu), (idx1_o g Nv), (len2_o g Nu Nv), Ig, Lg. reflexivity.
    Qed.

    Lemma memf_len g : In g riw -> alookup g len2 = Some (length (memf g)).
    Proof.
      intro Hg. destruct (N.eq_dec g u) as [->|Nu].
      - rewrite len2_u. unfold memf. rewrite N.eqb_refl, app_length.
        destruct u_facts as (_ & U2 & _). destruct v_facts as (_ & V2 & _).
        rewrite !slice_length by lia. reflexivity.
      - destruct (group_data g Hg Nu) as (i & l & _ & Lg & R & -> & _). rewrite slice_length by exact R. exact Lg.
    Qed.

    Lemma memf_head g : In g riw -> nth_error (memf g) 0 = Some g.
    Proof.
      intro Hg. destruct (N.eq_dec g u) as [->|Nu].
      - unfold memf. rewrite N.eqb_refl. destruct u_facts as (U1 & U2 & U3 & _).
        rewrite nth_error_app1 by (rewrite slice_length by lia; lia). apply slice_head; assumption.
      - destruct (group_data g Hg Nu) as (i & l & _ & _ & _ & -> & Hn & L1 & _). apply slice_head; assumption.
    Qed.

    Lemma rebuild_ok : forall l, (forall g, In g l -> In g riw) ->
      rebuild l u un vn o idx1 len2 = ROk (flat_map memf l).
    Proof.
      induction l as [|g l IH]; intro H; cbn [rebuild flat_map]; [reflexivity|].
      rewrite IH by (intros g' Hg'; apply H; right; exact Hg'). cbn [rbind].
      destruct (N.eqb g u) eqn:Eg.
      - unfold memf. rewrite Eg. rewrite <- app_assoc. reflexivity.
      - apply N.eqb_neq in Eg. destruct (group_data g (H g (or_introl eq_refl)) Eg) as (i & l' & Ig & Lg & R & -> & _).
        unfold aget. rewrite Ig, Lg. cbn [rbind].
        replace (Nat.ltb (length o) (i + l')) with false by (symmetry; apply Nat.ltb_ge; exact R). reflexivity.
    Qed.

    Local Notation buf := (flat_map memf sg).

    Lemma sg_rep g : In g sg -> In g ks /\ fr g = g.
    Proof. intro H. apply sg_in, riw_in in H. tauto. Qed.

    Lemma buf_in x : In x buf <-> In x W.
    Proof.
      rewrite in_flat_map, W_in. split.
      - intros (g & Hg & Hx). destruct (sg_rep g Hg) as (Kg & Fg). apply (memf_in g x Kg Fg) in Hx.
        destruct Hx as (Kx & <-). split; [exact Kx|apply sg_in; exact Hg].
      - intros (Kx & Hr). exists (fr x). split; [apply sg_in; exact Hr|].
        apply riw_in in Hr. destruct Hr as (Kg & Fg & _). apply (memf_in (fr x) x Kg Fg). auto.
    Qed.

    Lemma buf_nodup : NoDup buf.
    Proof.
      apply NoDup_flat_map; [exact Snd| |].
      - intros g Hg. destruct (sg_rep g Hg). apply memf_nodup; assumption.
      - intros g1 g2 x H1 H2 X1 X2. destruct (sg_rep g1 H1) as (K1 & F1). destruct (sg_rep g2 H2) as (K2 & F2).
        apply (memf_in g1 x K1 F1) in X1. apply (memf_in g2 x K2 F2) in X2. destruct X1, X2. congruence.
    Qed.

    Lemma W_len : length W = hi - lo.
    Proof. apply slice_length. destruct v_facts. pose proof lo_lt_hi. lia. Qed.

    Lemma buf_perm : Permutation buf W.
    Proof. apply NoDup_Permutation; [exact buf_nodup|apply NoDup_slice; exact o_nodup|exact buf_in]. Qed.

    Lemma buf_len : length buf = hi - lo.
    Proof. rewrite (Permutation_length buf_perm). exact W_len. Qed.

    Local Notation order' := (firstn lo o ++ buf ++ skipn hi o).

    Lemma order'_perm : Permutation order' o.
    Proof.
      apply Permutation_trans with (firstn lo o ++ W ++ skipn hi o).
      - apply Permutation_app_head. apply Permutation_app_tail. exact buf_perm.
      - rewrite <- o_window. apply Permutation_refl.
    Qed.

    Lemma order'_nodup : NoDup order'.
    Proof. eapply Permutation_NoDup; [apply Permutation_sym; exact order'_perm|exact o_nodup]. Qed.

    Lemma order'_in x : In x order' <-> In x ks.
    Proof.
      rewrite <- o_in. split; intro H; [eapply Permutation_in; [exact order'_perm|exact H]|
                                        eapply Permutation_in; [apply Permutation_sym; exact order'_perm|exact H]].
    Qed.

    Lemma order'_len : length order' = length o.
    Proof. exact (Permutation_length order'_perm). Qed.

    Lemma core_before p x : In x ks -> In p (np x) -> before p x o -> In p W -> In x W -> before p x buf.
    Proof.
      intros Kx Hp B Wp Wx. apply W_in in Wp. apply W_in in Wx. destruct Wp as (Kp & Rp). destruct Wx as (_ & Rx).
      destruct (N.eq_dec (fr p) (fr x)) as [E|Ne].
      - apply riw_in in Rx. destruct Rx as (Kg & Fg & _).
        apply (before_flat_map_same memf (fr x)); [apply sg_in, riw_in; apply riw_in in Rp; rewrite <- E; tauto|].
        apply memf_before; auto.
      - pose proof (qedge_wp x p Kx Hp Ne Rp) as Hw.
        assert (Bg : before (fr p) (fr x) sg).
        { apply (tsorted_before wp sg Snd Sts (fr x) (fr p)); [apply sg_in; exact Rx|exact Hw]. }
        apply (before_flat_map_diff memf (fr p) (fr x) sg p x Bg).
        + apply riw_in in Rp. destruct Rp as (Kg & Fg & _). apply (memf_in (fr p) p Kg Fg). auto.
        + apply riw_in in Rx. destruct Rx as (Kg & Fg & _). apply (memf_in (fr x) x Kg Fg). auto.
    Qed.

    Lemma order'_tsorted : tsorted np order'.
    Proof.
      apply tsorted_of_before; [exact order'_nodup|]. intros x p Hx Hp. apply order'_in in Hx.
      assert (B : before p x o).
      { apply (tsorted_before np o o_nodup (inv_topo _ _ _ _ _ I)); [apply o_in; exact Hx|exact Hp]. }
      pose proof B as B0. rewrite o_window in B.
      destruct (before_app_inv _ _ _ _ B) as [H|[H|(H1 & H2)]].
      - apply before_app_l. exact H.
      - apply before_app_r. destruct (before_app_inv _ _ _ _ H) as [H'|[H'|(H1 & H2)]].
        + apply before_app_l. destruct (before_in _ _ _ H') as (Wp & Wx). apply core_before; assumption.
        + apply before_app_r. exact H'.
        + apply before_app_lr; [apply buf_in; exact H1|exact H2].
      - apply before_app_lr; [exact H1|]. apply in_app_or in H2. apply in_or_app.
        destruct H2 as [H2|H2]; [left; apply buf_in; exact H2|right; exact H2].
    Qed.

    (* ---------------------------------------------------------------- reindex *)

    Lemma reindex_spec : forall l pos idx,
      NoDup l -> (forall g, In g l -> alookup g idx <> None /\ alookup g len2 = Some (length (memf g))) ->
      exists idx', reindex l pos idx len2 = ROk (idx', pos + length (flat_map memf l)) /\
        (forall g, ~ In g l -> alookup g idx' = alookup g idx) /\
        (forall l1 g l2, l = l1 ++ g :: l2 -> alookup g idx' = Some (pos + length (flat_map memf l1))) /\
        (NoDup (map fst idx) -> NoDup (map fst idx')) /\
        (forall g, alookup g idx' <> None <-> alookup g idx <> None).
    Proof.
      induction l as [|g l IH]; intros pos idx ND H; cbn [reindex flat_map].
      - exists idx. split; [cbn [length]; rewrite Nat.add_0_r; reflexivity|]. split; [auto|].
        split; [intros l1 g l2 E; destruct l1; discriminate|]. split; [auto|tauto].
      - inversion ND as [|? ? Ng ND']; subst.
        destruct (H g (or_introl eq_refl)) as (Hi & Hl).
        destruct (alookup g idx) as [old|] eqn:Eg; [|congruence].
        unfold aget. rewrite Eg, Hl. cbn [rbind].
        destruct (IH (pos + length (memf g)) (aset g pos idx) ND') as (idx' & E & A & B & C & D).
        { intros g' Hg'. destruct (H g' (or_intror Hg')) as (Hi' & Hl'). split; [|exact Hl'].
          rewrite alookup_aset. destruct (N.eqb g' g); [discriminate|exact Hi']. }
        exists idx'. split; [rewrite E; f_equal; f_equal; rewrite app_length; lia|].
        split; [|split; [|split]].
        + intros g' Hn. rewrite A by (intro Hc; apply Hn; right; exact Hc).
          rewrite alookup_aset, N_eqb_false; [reflexivity|]. intros ->. apply Hn. left; reflexivity.
        + intros l1 g' l2 El. destruct l1 as [|a l1]; cbn in El; injection El as E1 E2.
          * subst g'. rewrite A by exact Ng. rewrite alookup_aset, N.eqb_refl. cbn [flat_map length].
            rewrite Nat.add_0_r. reflexivity.
          * subst a. rewrite (B l1 g' l2 E2). cbn [flat_map]. rewrite app_length. f_equal. lia.
        + intro NDk. apply C. apply map_fst_aset. exact NDk.
        + intro g'. rewrite D, alookup_aset. destruct (N.eqb g' g) eqn:Egg; [|tauto].
          apply N.eqb_eq in Egg. subst. split; [intros _; congruence|intros _; discriminate].
    Qed.

    Lemma nth_firstn {A} : forall n (l : list A) j, j < n -> nth_error (firstn n l) j = nth_error l j.
    Proof.
      induction n as [|n IH]; intros l j H; [lia|]. destruct l; [reflexivity|].
      destruct j; cbn; [reflexivity|apply IH; lia].
    Qed.

    Lemma A_len : length (firstn lo o) = lo.
    Proof. apply firstn_length_le. destruct u_facts. lia. Qed.

    Lemma order'_outside j : j < lo \/ hi <= j -> nth_error order' j = nth_error o j.
    Proof.
      intros [H|H].
      - rewrite nth_error_app1 by (rewrite A_len; exact H). apply nth_firstn. exact H.
      - pose proof lo_lt_hi. rewrite app_assoc, nth_error_app2 by (rewrite app_length, A_len, buf_len; lia).
        rewrite app_length, A_len, buf_len, nth_error_skipn'. f_equal. lia.
    Qed.

    (* ---------------------------------------------------------------- the new state *)

    Lemma window_phase e2 : enemies2_spec e2 -> enemies_wf e2 ->
      exists s',
        (buf' <- rebuild sg u un vn o idx1 len2 ;;
         if negb (Nat.eqb (length buf') (hi - lo)) then RPanic else
         '(idx2, pos) <- reindex sg lo idx1 len2 ;;
         if negb (Nat.eqb hi pos) then RPanic else
         ROk (mkSm preds2 (firstn lo o ++ buf' ++ skipn hi o) idx2 len2 uf6 e2, true)) = ROk (s', true) /\
        SMInv ks np en s' fr.
    Proof.
      intros Spec Wf2.
      rewrite (rebuild_ok sg (fun g Hg => proj1 (sg_in g) Hg)). cbn [rbind].
      rewrite buf_len, Nat.eqb_refl. cbn [negb].
      destruct (reindex_spec sg lo idx1 Snd) as (idx2 & Er & RA & RB & RC & RD).
      { intros g Hg. apply sg_in in Hg. split; [|exact (memf_len g Hg)].
        apply riw_in in Hg. destruct Hg as (Kg & Fg & _). apply fr_rep in Fg. destruct Fg as (Fg & Nv).
        rewrite (idx1_o g Nv). exact (inv_group_total _ _ _ _ _ I g Kg Fg). }
      rewrite Er. cbn [rbind]. pose proof lo_lt_hi as Hlh.
      replace (lo + length buf) with hi by (rewrite buf_len; lia). rewrite Nat.eqb_refl. cbn [negb].
      eexists. split; [reflexivity|].
      constructor; cbn [sm_preds sm_order sm_idx sm_len sm_uf sm_enemies].
      - exact HU6.
      - exact fr_keys.
      - eapply Permutation_trans; [exact order'_perm|exact (inv_perm _ _ _ _ _ I)].
      - exact order'_tsorted.
      - (* groups *)
        intros r i Hi. destruct (in_dec N.eq_dec r sg) as [Hr|Hr].
        + destruct (sg_rep r Hr) as (Kr & Fr). split; [exact Fr|]. split; [exact Kr|].
          pose proof Hr as Hr'. apply in_split in Hr'. destruct Hr' as (l1 & l2 & Esg).
          rewrite (RB l1 r l2 Esg) in Hi. inversion Hi; subst i. clear Hi.
          exists (length (memf r)). split; [apply memf_len, sg_in; exact Hr|].
          assert (Hh : nth_error (memf r) 0 = Some r) by (apply memf_head, sg_in; exact Hr).
          assert (L1 : 1 <= length (memf r)) by (destruct (memf r); [discriminate|cbn; lia]).
          assert (Eo : order' = (firstn lo o ++ flat_map memf l1) ++ memf r ++ (flat_map memf l2 ++ skipn hi o)).
          { rewrite Esg, flat_map_app. cbn [flat_map]. app_norm. reflexivity. }
          assert (EX : length (firstn lo o ++ flat_map memf l1) = lo + length (flat_map memf l1))
            by (rewrite app_length, A_len; reflexivity).
          split; [exact L1|]. split.
          { rewrite order'_len. pose proof buf_len as BL. rewrite Esg, flat_map_app in BL. cbn [flat_map] in BL.
            rewrite !app_length in BL. destruct v_facts as (_ & V2 & _). lia. }
          split.
          { rewrite Eo, <- EX, nth_error_app_mid. rewrite nth_error_app1 by lia. exact Hh. }
          intro x. rewrite Eo, <- EX, slice_app_mid. apply memf_in; assumption.
        + rewrite (RA r Hr) in Hi.
          assert (Nv : r <> v) by (intros ->; rewrite idx1_v in Hi; discriminate).
          rewrite (idx1_o r Nv) in Hi.
          destruct (inv_group _ _ _ _ _ I r i Hi) as (Fr & Kr & l & Lr & L1 & Rr & Hn & Mr).
          assert (Fr' : fr r = r) by (apply fr_rep; auto).
          assert (Nu : r <> u) by (intros ->; apply Hr, sg_in; exact riw_u).
          assert (Out : i + l <= lo \/ hi <= i).
          { assert (Nw : ~ (lo <= i /\ i < hi)).
            { intro Hw. apply Hr, sg_in, riw_in. rewrite (gi_of _ _ Hi). tauto. }
            pose proof (ranges_disjoint ks np en s f I _ _ _ _ _ _ Hi Lr Iu Lu Nu).
            destruct u_facts as (U1 & _). lia. }
          split; [exact Fr'|]. split; [exact Kr|]. exists l. split; [rewrite (len2_o r Nu Nv); exact Lr|].
          split; [exact L1|]. split; [rewrite order'_len; exact Rr|]. split.
          { rewrite order'_outside by lia. exact Hn. }
          intro x. split.
          { intro Hx. apply In_slice_nth in Hx. destruct Hx as (j & J1 & J2 & J3).
            rewrite order'_outside in J3 by lia.
            assert (Hx' : In x (slice o i l)) by (apply In_slice_nth; exists j; auto).
            apply Mr in Hx'. destruct Hx' as (Kx & Fx). split; [exact Kx|]. apply (fr_other x r Nu). auto. }
          { intros (Kx & Fx). apply (fr_other x r Nu) in Fx. destruct Fx as (Fx & _).
            assert (Hx' : In x (slice o i l)) by (apply Mr; auto).
            apply In_slice_nth in Hx'. destruct Hx' as (j & J1 & J2 & J3).
            apply In_slice_nth. exists j. split; [exact J1|]. split; [exact J2|].
            rewrite order'_outside by lia. exact J3. }
      - intros r Kr Fr. apply RD. apply fr_rep in Fr. destruct Fr as (Fr & Nv). rewrite (idx1_o r Nv).
        exact (inv_group_total _ _ _ _ _ I r Kr Fr).
      - exact (preds2_sound ups vps Pu Pv).
      - exact (preds2_complete ups vps Pu Pv).
      - exact (preds2_total ups vps).
      - exact (merge_keeps_acyclic ks np en s f I u v Fu Fv Nuv NoC).
      - exact (enemies2_inv e2 Spec).
      - exact (merge_no_enemy_inside ks np en s f I u v Fu Fv no_pair_uv).
      - exact order'_nodup.
      - apply map_fst_aset. apply map_fst_aremove. exact (inv_preds_keys _ _ _ _ _ I).
      - apply RC. apply map_fst_aremove. exact (inv_idx_keys _ _ _ _ _ I).
      - apply map_fst_aset. apply map_fst_aremove. exact (inv_len_keys _ _ _ _ _ I).
      - exact (proj1 Wf2).
      - exact (proj2 Wf2).
      - exact (preds2_noself ups vps).
    Qed.
  End Window.

  (* ---------------------------------------------------------------- steps 2-3 evaluated *)

  Theorem merge_phase_ok :
    exists s', sm_merge_phase s u v lo hi un vn uf3 = ROk (s', true) /\ SMInv ks np en s' fr.
  Proof.
    unfold sm_merge_phase.
    destruct (merge_union_root f u v uf3 HU3 Fu) as (Eroot & HU4).
    destruct (uf_union uf3 u v) as [uf4 nr]. cbn [fst snd] in Eroot, HU4. subst nr.
    rewrite N.eqb_refl. cbn [negb].
    assert (exists vps, alookup v (sm_preds s) = Some vps) as (vps & Pv).
    { pose proof (inv_preds_total _ _ _ _ _ I v Kv Fv). destruct (alookup v (sm_preds s)); [eexists; reflexivity|congruence]. }
    assert (exists ups, alookup u (sm_preds s) = Some ups) as (ups & Pu).
    { pose proof (inv_preds_total _ _ _ _ _ I u Ku Fu). destruct (alookup u (sm_preds s)); [eexists; reflexivity|congruence]. }
    unfold aget. rewrite Pv. cbn [rbind]. rewrite (alookup_aremove_neq u v (sm_preds s) Nuv), Pu. cbn [rbind].
    destruct (retain_find_spec fr u (ups ++ vps) uf4 HU4) as (Eret & HU5).
    destruct (retain_find u (ups ++ vps) uf4) as [ret uf5]. cbn [fst snd] in Eret, HU5. subst ret.
    change (filter (fun x => negb (N.eqb x u)) (map fr (ups ++ vps))) with (retained ups vps).
    rewrite Iv, Lv. cbn [rbind]. rewrite (alookup_aremove_neq u v (sm_len s) Nuv), Lu. cbn [rbind].
    destruct enemies2_ok as (e2 & Ee & Spec & Wf2). rewrite Ee. cbn [rbind].
    replace (Nat.ltb (length o) hi) with false by (symmetry; apply Nat.ltb_ge; destruct v_facts; lia).
    destruct (find_all_spec fr W uf5 HU5) as (Ereps & HU6).
    destruct (find_all W uf5) as [reps uf6]. cbn [fst snd] in Ereps, HU6. subst reps.
    change (sort_dedup (map fr W)) with riw.
    rewrite (window_defined ups vps Pu Pv uf6 HU6). cbn [negb].
    destruct (topo_window ups vps Pu Pv uf6 HU6) as (sg & Et & Sperm & Snd & Sts). rewrite Et.
    exact (window_phase ups vps Pu Pv uf6 HU6 sg Sperm Snd Sts e2 Spec Wf2).
  Qed.
End Refine.

(* THE REFINEMENT OBLIGATION, discharged *)
Theorem merge_phase_refines_proved : merge_phase_refines.
Proof.
  intros ks np en s f u v lo lu iv lv uf3 I Fu Fv Ku Kv Nuv Iu Lu Iv Lv Hord HU3 NoE NoC.
  exact (merge_phase_ok ks np en s f I u v lo lu iv lv uf3 Fu Fv Ku Kv Nuv Iu Lu Iv Lv Hord HU3 NoE NoC).
Qed.

(* every merge attempt on keys returns ROk and the new state satisfies SMInv *)
Theorem sm_try_merge_preserves ks np en s f u0 v0 :
  SMInv ks np en s f -> In u0 ks -> In v0 ks ->
  exists s' b f', sm_try_merge s u0 v0 = ROk (s', b) /\ SMInv ks np en s' f'.
Proof. exact (sm_try_merge_preserves_modulo merge_phase_refines_proved ks np en s f u0 v0). Qed.
