(* GraphAlg engine: generic list lemmas used by the refinement proof of a successful merge
   (order of elements under concatenation / filtering / flat_map, slices, NoDup). *)
From Coq Require Import List NArith Bool Arith Lia Permutation.
From HV Require Import GraphAlg.Model GraphAlg.PTopo GraphAlg.PSm GraphAlg.PSmCyc.
Import ListNotations.

Ltac app_norm := repeat (rewrite <- app_assoc || rewrite <- app_comm_cons).

(* ------------------------------------------------------------------ NoDup *)

Lemma NoDup_app_r {A} (a b : list A) : NoDup (a ++ b) -> NoDup b.
Proof. induction a; cbn; intro H; [exact H|]. inversion H; auto. Qed.

Lemma NoDup_app_intro {A} (a b : list A) :
  NoDup a -> NoDup b -> (forall x, In x a -> In x b -> False) -> NoDup (a ++ b).
Proof.
  induction a as [|x a IH]; cbn; intros Ha Hb D; [exact Hb|]. inversion Ha; subst. constructor.
  - intro H. apply in_app_or in H. destruct H as [H|H]; [contradiction|].
    eapply D; [left; reflexivity|exact H].
  - apply IH; auto. intros y Hy. apply D. right. exact Hy.
Qed.

Lemma NoDup_filter' {A} (k : A -> bool) l : NoDup l -> NoDup (filter k l).
Proof.
  induction 1 as [|x l Hx ND IH]; cbn; [constructor|].
  destruct (k x); [constructor; [|exact IH]|exact IH]. intro H. apply filter_In in H. tauto.
Qed.

Lemma NoDup_flat_map {A B} (h : A -> list B) l :
  NoDup l -> (forall g, In g l -> NoDup (h g)) ->
  (forall g1 g2 x, In g1 l -> In g2 l -> In x (h g1) -> In x (h g2) -> g1 = g2) ->
  NoDup (flat_map h l).
Proof.
  induction 1 as [|g l Hg ND IH]; cbn; intros H1 H2; [constructor|].
  apply NoDup_app_intro.
  - apply H1. left; reflexivity.
  - apply IH; [intros; apply H1; right; assumption|].
    intros g1 g2 x A1 A2. apply H2; right; assumption.
  - intros x Hx Hf. apply in_flat_map in Hf. destruct Hf as (g' & Hg' & Hx').
    assert (g = g') by (eapply H2; [left; reflexivity|right; exact Hg'|exact Hx|exact Hx']).
    subst. contradiction.
Qed.

(* ------------------------------------------------------------------ before *)

Lemma before_app_l p x a b : before p x a -> before p x (a ++ b).
Proof. intros (l1 & l2 & l3 & ->). exists l1, l2, (l3 ++ b). app_norm. reflexivity. Qed.

Lemma before_app_r p x a b : before p x b -> before p x (a ++ b).
Proof. intros (l1 & l2 & l3 & ->). exists (a ++ l1), l2, l3. app_norm. reflexivity. Qed.

Lemma before_app_lr p x a b : In p a -> In x b -> before p x (a ++ b).
Proof.
  intros Hp Hx. apply in_split in Hp. destruct Hp as (a1 & a2 & ->).
  apply in_split in Hx. destruct Hx as (b1 & b2 & ->).
  exists a1, (a2 ++ b1), b2. app_norm. reflexivity.
Qed.

Lemma before_app_inv p x : forall a b,
  before p x (a ++ b) -> before p x a \/ before p x b \/ (In p a /\ In x b).
Proof.
  induction a as [|y a IH]; intros b H; [right; left; exact H|].
  destruct H as (l1 & l2 & l3 & E). destruct l1 as [|z l1]; cbn in E; injection E as E1 E2.
  - subst y. assert (Hx : In x (a ++ b)) by (rewrite E2; apply in_or_app; right; left; reflexivity).
    apply in_app_or in Hx. destruct Hx as [Hx|Hx].
    + left. apply in_split in Hx. destruct Hx as (a1 & a2 & ->). exists [], a1, a2. reflexivity.
    + right. right. split; [left; reflexivity|exact Hx].
  - subst z. destruct (IH b (ex_intro _ l1 (ex_intro _ l2 (ex_intro _ l3 E2)))) as [H|[H|(H1 & H2)]].
    + left. destruct H as (m1 & m2 & m3 & ->). exists (y :: m1), m2, m3. reflexivity.
    + right. left. exact H.
    + right. right. split; [right; exact H1|exact H2].
Qed.

Lemma before_in p x o : before p x o -> In p o /\ In x o.
Proof.
  intros (l1 & l2 & l3 & ->). split; apply in_or_app; right; [left; reflexivity|].
  right. apply in_or_app. right. left. reflexivity.
Qed.

Lemma before_filter (k : N -> bool) p x o :
  before p x o -> k p = true -> k x = true -> before p x (filter k o).
Proof.
  intros (l1 & l2 & l3 & ->) Hp Hx. exists (filter k l1), (filter k l2), (filter k l3).
  rewrite filter_app. cbn. rewrite Hp. rewrite filter_app. cbn. rewrite Hx. reflexivity.
Qed.

Lemma before_flat_map_diff (h : N -> list N) g1 g2 gs p x :
  before g1 g2 gs -> In p (h g1) -> In x (h g2) -> before p x (flat_map h gs).
Proof.
  intros (l1 & l2 & l3 & ->) Hp Hx. rewrite flat_map_app. cbn. rewrite flat_map_app. cbn.
  apply before_app_r. apply before_app_lr; [exact Hp|].
  apply in_or_app. right. apply in_or_app. left. exact Hx.
Qed.

Lemma before_flat_map_same (h : N -> list N) g gs p x :
  In g gs -> before p x (h g) -> before p x (flat_map h gs).
Proof.
  intros Hg H. apply in_split in Hg. destruct Hg as (l1 & l2 & ->).
  rewrite flat_map_app. cbn. apply before_app_r. apply before_app_l. exact H.
Qed.

Lemma before_asym o a b : NoDup o -> before a b o -> before b a o -> False.
Proof. intros ND H1 H2. exact (before_irrefl o a ND (before_trans o a b a ND H1 H2)). Qed.

Lemma tsorted_of_before np o :
  NoDup o -> (forall x p, In x o -> In p (np x) -> before p x o) -> tsorted np o.
Proof.
  intros ND H l1 x l2 E p Hp.
  assert (B : before p x o) by (apply H; [rewrite E; apply in_or_app; right; left; reflexivity|exact Hp]).
  destruct B as (a & b & c & E2).
  assert (E3 : l1 ++ x :: l2 = (a ++ p :: b) ++ x :: c) by (rewrite <- E, E2; app_norm; reflexivity).
  apply NoDup_split_unique in E3; [|rewrite <- E; exact ND]. destruct E3 as (-> & _).
  apply in_or_app. right. left. reflexivity.
Qed.

(* ------------------------------------------------------------------ filter *)

Lemma filter_all_true {A} (k : A -> bool) l : (forall y, In y l -> k y = true) -> filter k l = l.
Proof.
  induction l as [|a l IH]; cbn; intro H; [reflexivity|].
  rewrite (H a (or_introl eq_refl)), IH; [reflexivity|]. intros y Hy. apply H. right. exact Hy.
Qed.

Lemma filter_all_false {A} (k : A -> bool) l : (forall y, In y l -> k y = false) -> filter k l = [].
Proof.
  induction l as [|a l IH]; cbn; intro H; [reflexivity|].
  rewrite (H a (or_introl eq_refl)). apply IH. intros y Hy. apply H. right. exact Hy.
Qed.

Lemma filter_parts1 {A} (k : A -> bool) P1 S P3 :
  (forall y, In y P1 -> k y = false) -> (forall y, In y S -> k y = true) ->
  (forall y, In y P3 -> k y = false) -> filter k (P1 ++ S ++ P3) = S.
Proof.
  intros H1 H2 H3. rewrite !filter_app, (filter_all_false k P1 H1), (filter_all_true k S H2),
    (filter_all_false k P3 H3). cbn. apply app_nil_r.
Qed.

Lemma filter_parts2 {A} (k : A -> bool) P1 S1 P2 S2 P3 :
  (forall y, In y P1 -> k y = false) -> (forall y, In y S1 -> k y = true) ->
  (forall y, In y P2 -> k y = false) -> (forall y, In y S2 -> k y = true) ->
  (forall y, In y P3 -> k y = false) -> filter k (P1 ++ S1 ++ P2 ++ S2 ++ P3) = S1 ++ S2.
Proof.
  intros H1 H2 H3 H4 H5. rewrite !filter_app, (filter_all_false k P1 H1), (filter_all_true k S1 H2),
    (filter_all_false k P2 H3), (filter_all_true k S2 H4), (filter_all_false k P3 H5).
  cbn. rewrite app_nil_r. reflexivity.
Qed.

(* ------------------------------------------------------------------ slices *)

Lemma skipn_add {A} : forall a b (l : list A), skipn (a + b) l = skipn b (skipn a l).
Proof.
  induction a as [|a IH]; intros b l; [reflexivity|].
  destruct l; cbn; [destruct b; reflexivity|apply IH].
Qed.

Lemma slice_split {A} (o : list A) i l :
  o = firstn i o ++ slice o i l ++ skipn (i + l) o.
Proof.
  unfold slice. rewrite skipn_add. rewrite (firstn_skipn l (skipn i o)). symmetry. apply firstn_skipn.
Qed.

Lemma slice_length {A} (o : list A) i l : i + l <= length o -> length (slice o i l) = l.
Proof. intro H. unfold slice. rewrite firstn_length, skipn_length. lia. Qed.

Lemma NoDup_slice {A} (o : list A) i l : NoDup o -> NoDup (slice o i l).
Proof.
  intro ND. rewrite (slice_split o i l) in ND. apply NoDup_app_r in ND. apply NoDup_app_l in ND. exact ND.
Qed.

Lemma slice_head {A} (o : list A) i l r :
  nth_error o i = Some r -> 1 <= l -> nth_error (slice o i l) 0 = Some r.
Proof.
  intros H Hl. unfold slice. destruct l as [|l]; [lia|].
  pose proof (nth_error_skipn' i o 0) as E. rewrite Nat.add_0_r, H in E.
  destruct (skipn i o) as [|a t]; cbn in *; [discriminate|exact E].
Qed.

Lemma slice_app_mid {A} (X M Y : list A) : slice (X ++ M ++ Y) (length X) (length M) = M.
Proof.
  unfold slice. rewrite skipn_app, skipn_all, Nat.sub_diag. cbn.
  rewrite firstn_app, firstn_all, Nat.sub_diag. cbn. apply app_nil_r.
Qed.

Lemma nth_error_app_mid {A} (X M Y : list A) : nth_error (X ++ M ++ Y) (length X) = nth_error (M ++ Y) 0.
Proof. rewrite nth_error_app2 by lia. rewrite Nat.sub_diag. reflexivity. Qed.

Lemma In_slice_in {A} (o : list A) i l x : In x (slice o i l) -> In x o.
Proof.
  intro H. apply In_slice_nth in H. destruct H as (j & _ & _ & Hn). eapply nth_error_In. exact Hn.
Qed.

(* chains give paths *)
Lemma chain_path (preds : N -> list N) (E : N -> N -> Prop) : forall r a,
  chain preds (a :: r) ->
  (forall x y, In y (a :: r) -> In x (preds y) -> E x y) ->
  a = last (a :: r) 0%N \/ Relation_Operators.clos_trans N E a (last (a :: r) 0%N).
Proof.
  induction r as [|b r IH]; intros a Ch HE; [left; reflexivity|].
  cbn in Ch. destruct Ch as [Hab Ch].
  assert (Eab : E a b) by (apply HE; [right; left; reflexivity|exact Hab]).
  destruct (IH b Ch (fun x y Hy Hx => HE x y (or_intror Hy) Hx)) as [Hl|Hl].
  - right. change (last (a :: b :: r) 0%N) with (last (b :: r) 0%N). rewrite <- Hl.
    apply Relation_Operators.t_step. exact Eab.
  - right. change (last (a :: b :: r) 0%N) with (last (b :: r) 0%N).
    eapply Relation_Operators.t_trans; [apply Relation_Operators.t_step; exact Eab|exact Hl].
Qed.

Lemma cycle_clos_trans (preds : N -> list N) (E : N -> N -> Prop) c :
  is_cycle preds c -> (forall x y, In y c -> In x (preds y) -> E x y) ->
  Relation_Operators.clos_trans N E (hd 0%N c) (hd 0%N c).
Proof.
  intros (Hne & _ & Ch & Hl) HE. destruct c as [|a r]; [congruence|]. cbn [hd] in *.
  assert (Ela : E (last (a :: r) 0%N) a) by (apply HE; [left; reflexivity|exact Hl]).
  destruct (chain_path preds E r a Ch HE) as [Hq|Hq].
  - rewrite <- Hq in Ela. apply Relation_Operators.t_step. exact Ela.
  - eapply Relation_Operators.t_trans; [exact Hq|apply Relation_Operators.t_step; exact Ela].
Qed.
