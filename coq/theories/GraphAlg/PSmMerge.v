(* GraphAlg engine: SubgraphMerge, part 3: the DECISION taken by a successful try_merge is right.
   If try_merge answers true for two distinct groups then there was no enemy conflict and no
   cycle through the merged group, and the merged partition [relabel f u v] again has an
   acyclic quotient graph and no enemy pair inside a group.  (What is not proved here is the
   representation refinement of the successful merge: that the re-sorted window, idx/len/preds/
   enemies maps of the new state represent that partition.) *)
From Coq Require Import List NArith Bool Arith Lia ZifyBool ZifyN Permutation Relations.
From HV Require Import GraphAlg.Model GraphAlg.PUf GraphAlg.PTopo GraphAlg.PSm GraphAlg.PSmCyc.
Import ListNotations.

Section MergeDecision.
  Variables (ks : list N) (np : N -> list N) (en : list (N * N)) (s : sm) (f : N -> N).
  Hypothesis I : SMInv ks np en s f.
  Variables (u v : N).
  Hypothesis Fu : f u = u.
  Hypothesis Fv : f v = v.
  Hypothesis Nuv : u <> v.
  Hypothesis NoCyc : ~ would_cycle f np ks u v.

  Let f' := relabel f u v.
  Let E := qedge f np ks.
  Let E' := qedge f' np ks.
  Let R := clos_trans N E.

  Lemma relabel_eq x : f' x = if N.eqb (f x) v then u else f x.
  Proof. unfold f', relabel. rewrite Fu, Fv. reflexivity. Qed.

  Lemma relabel_not_v x : f' x <> v.
  Proof.
    rewrite relabel_eq. destruct (N.eqb (f x) v) eqn:Ev; [congruence|]. apply N.eqb_neq in Ev. exact Ev.
  Qed.

  Definition Sx (a : N) : Prop := R a u \/ R a v.     (* a reaches the merged group *)
  Definition Tx (b : N) : Prop := R u b \/ R v b.     (* the merged group reaches b *)

  Lemma R_irrefl a : ~ R a a.
  Proof. exact (inv_acyclic _ _ _ _ _ I a). Qed.

  Lemma F1 x : x <> u -> x <> v -> Sx x -> Tx x -> False.
  Proof.
    intros Xu Xv [H1|H1] [H2|H2].
    - apply (R_irrefl x). eapply t_trans; eassumption.
    - apply NoCyc. exists x. split; [exact Xu|]. split; [exact Xv|]. right. split; assumption.
    - apply NoCyc. exists x. split; [exact Xu|]. split; [exact Xv|]. left. split; assumption.
    - apply (R_irrefl x). eapply t_trans; eassumption.
  Qed.

  Definition Q (a b : N) : Prop :=
    a <> v /\ b <> v /\
    (a <> u -> b <> u -> R a b \/ (Sx a /\ Tx b)) /\
    (a = u -> b <> u -> Tx b) /\
    (a <> u -> b = u -> Sx a) /\
    (a = u -> b = u -> False).

  Lemma Q_base a b : E' a b -> Q a b.
  Proof.
    intros (Nab & x & p & Hx & Fx & Hp & Fp).
    assert (Av : a <> v) by (rewrite <- Fp; apply relabel_not_v).
    assert (Bv : b <> v) by (rewrite <- Fx; apply relabel_not_v).
    assert (E0 : E (f p) (f x)).
    { split; [|exists x, p; auto]. intro Eq. apply Nab. rewrite <- Fp, <- Fx, !relabel_eq, Eq. reflexivity. }
    rewrite relabel_eq in Fp, Fx.
    split; [exact Av|]. split; [exact Bv|]. split; [|split; [|split]].
    - intros Au Bu. left. apply t_step.
      destruct (N.eqb (f p) v); [congruence|]. destruct (N.eqb (f x) v); [congruence|]. subst. exact E0.
    - intros Au Bu. destruct (N.eqb (f x) v); [congruence|]. subst b.
      destruct (N.eqb (f p) v) eqn:Ev.
      + apply N.eqb_eq in Ev. right. apply t_step. rewrite <- Ev. exact E0.
      + left. apply t_step. rewrite <- Au, <- Fp. exact E0.
    - intros Au Bu. destruct (N.eqb (f p) v); [congruence|]. subst a.
      destruct (N.eqb (f x) v) eqn:Ev.
      + apply N.eqb_eq in Ev. right. apply t_step. rewrite <- Ev. exact E0.
      + left. apply t_step. rewrite <- Bu, <- Fx. exact E0.
    - intros Au Bu. congruence.
  Qed.

  Lemma S_back a m : R a m -> Sx m -> Sx a.
  Proof. intros H [H1|H1]; [left|right]; eapply t_trans; eassumption. Qed.
  Lemma T_fwd m b : Tx m -> R m b -> Tx b.
  Proof. intros [H1|H1] H; [left|right]; eapply t_trans; eassumption. Qed.

  Lemma Q_trans a m b : Q a m -> Q m b -> Q a b.
  Proof.
    intros (Av & Mv & A1 & A2 & A3 & A4) (_ & Bv & B1 & B2 & B3 & B4).
    split; [exact Av|]. split; [exact Bv|].
    destruct (N.eq_dec a u) as [Au|Au]; destruct (N.eq_dec m u) as [Mu|Mu]; destruct (N.eq_dec b u) as [Bu|Bu];
      (split; [intros ? ?|split; [intros ? ?|split; intros ? ?]]); try congruence;
      try (exfalso; now auto).
    - (* a = u, m <> u, b = u *) exfalso. apply (F1 m Mu Mv); auto.
    - (* a = u, m <> u, b <> u *)
      destruct (B1 Mu Bu) as [Hr|(_ & Ht)]; [eapply T_fwd; [apply A2; assumption|exact Hr]|exact Ht].
    - (* a <> u, m = u, b <> u *) right. split; auto.
    - (* a <> u, m <> u, b = u *)
      destruct (A1 Au Mu) as [Hr|(Hs & _)]; [eapply S_back; [exact Hr|apply B3; assumption]|exact Hs].
    - (* all distinct from u *)
      destruct (A1 Au Mu) as [Hr1|(Hs1 & Ht1)]; destruct (B1 Mu Bu) as [Hr2|(Hs2 & Ht2)].
      + left. eapply t_trans; eassumption.
      + right. split; [eapply S_back; eassumption|exact Ht2].
      + right. split; [exact Hs1|eapply T_fwd; eassumption].
      + exfalso. apply (F1 m Mu Mv); assumption.
  Qed.

  Lemma Q_path a b : clos_trans N E' a b -> Q a b.
  Proof.
    induction 1 as [a b H|a m b _ IH1 _ IH2]; [apply Q_base; exact H|eapply Q_trans; eassumption].
  Qed.

  (* merging two groups that pass the check keeps the quotient graph acyclic *)
  Theorem merge_keeps_acyclic : qacyclic f' np ks.
  Proof.
    intros a H. destruct (Q_path a a H) as (Av & _ & A1 & _ & _ & A4).
    destruct (N.eq_dec a u) as [Au|Au]; [exact (A4 Au Au)|].
    destruct (A1 Au Au) as [Hr|(Hs & Ht)]; [exact (R_irrefl a Hr)|exact (F1 a Au Av Hs Ht)].
  Qed.

  (* and, without an enemy pair across the two groups, no merged group contains an enemy pair *)
  Theorem merge_no_enemy_inside :
    (forall x y, (In (x, y) en \/ In (y, x) en) -> ~ (f x = u /\ f y = v)) ->
    forall x y, In (x, y) en -> f' x <> f' y.
  Proof.
    intros NoE x y Hxy Eq. pose proof (inv_no_enemy_inside _ _ _ _ _ I x y Hxy) as Nxy.
    rewrite !relabel_eq in Eq.
    destruct (N.eqb (f x) v) eqn:Ex; destruct (N.eqb (f y) v) eqn:Ey.
    - apply N.eqb_eq in Ex, Ey. congruence.
    - apply N.eqb_eq in Ex. apply (NoE y x); [right; exact Hxy|]. split; [congruence|exact Ex].
    - apply N.eqb_eq in Ey. apply (NoE x y); [left; exact Hxy|]. split; [congruence|exact Ey].
    - congruence.
  Qed.
End MergeDecision.

(* a TRUE answer is safe: same group already, or no enemy conflict and no cycle through the
   merged group, and then the merged partition keeps the abstract invariants *)
Theorem sm_try_merge_true_safe ks np en s f u0 v0 s' :
  SMInv ks np en s f -> In u0 ks -> In v0 ks ->
  sm_try_merge s u0 v0 = ROk (s', true) ->
  f u0 = f v0 \/
  (~ enemy_conflict f en u0 v0 /\ ~ would_cycle f np ks (f u0) (f v0) /\
   qacyclic (relabel f (f u0) (f v0)) np ks /\
   forall x y, In (x, y) en -> relabel f (f u0) (f v0) x <> relabel f (f u0) (f v0) y).
Proof.
  intros I Ku Kv H. destruct (N.eq_dec (f u0) (f v0)) as [E|Ne]; [left; exact E|right].
  assert (NoRef : ~ (enemy_conflict f en u0 v0 \/ would_cycle f np ks (f u0) (f v0))).
  { intro C. destruct (proj2 (sm_try_merge_exact ks np en s f I u0 v0 Ku Kv) (conj Ne C)) as (s2 & H2).
    rewrite H in H2. discriminate. }
  assert (Fu : f (f u0) = f u0) by (eapply f_idem; exact I).
  assert (Fv : f (f v0) = f v0) by (eapply f_idem; exact I).
  split; [tauto|]. split; [tauto|]. split.
  - apply (merge_keeps_acyclic ks np en s f I (f u0) (f v0) Fu Fv Ne). tauto.
  - apply (merge_no_enemy_inside ks np en s f I (f u0) (f v0) Fu Fv).
    intros x y Hxy (Ex & Ey). apply NoRef. left. exists x, y. auto.
Qed.

(* ------------------------------------------------------------------ what remains: refinement *)

(* THE ONE REMAINING OBLIGATION, stated exactly: on two distinct representatives that passed the
   enemy test and the cycle check, steps 2-3 of try_merge neither panic nor run out of fuel and
   produce a state representing the merged partition. *)
Definition merge_phase_refines : Prop :=
  forall ks np en s f u v lo lu iv lv uf3,
    SMInv ks np en s f -> f u = u -> f v = v -> In u ks -> In v ks -> u <> v ->
    alookup u (sm_idx s) = Some lo -> alookup u (sm_len s) = Some lu ->
    alookup v (sm_idx s) = Some iv -> alookup v (sm_len s) = Some lv ->
    lo + lu <= iv -> UFInv uf3 f ->
    ~ enemy_rel (sm_enemies s) u v -> ~ would_cycle f np ks u v ->
    exists s', sm_merge_phase s u v lo (iv + lv) (slice (sm_order s) lo lu) (slice (sm_order s) iv lv) uf3
               = ROk (s', true) /\ SMInv ks np en s' (relabel f u v).

(* every other path of try_merge is closed: preservation of SMInv and absence of panics / fuel
   exhaustion for ALL merge attempts follow from that single obligation *)
Theorem sm_try_merge_preserves_modulo :
  merge_phase_refines ->
  forall ks np en s f u0 v0, SMInv ks np en s f -> In u0 ks -> In v0 ks ->
    exists s' b f', sm_try_merge s u0 v0 = ROk (s', b) /\ SMInv ks np en s' f'.
Proof.
  intros MP ks np en s f u0 v0 I Ku Kv.
  destruct (N.eq_dec (f u0) (f v0)) as [E|Ne].
  { destruct (sm_try_merge_same_group ks np en s f u0 v0 I E) as (s' & H & I'). exists s', true, f. auto. }
  destruct (enemy_test s (f u0) (f v0)) eqn:Et.
  { apply (enemy_test_conflict ks np en s f I) in Et.
    destruct (sm_try_merge_enemy_refused ks np en s f u0 v0 I Et) as (s' & H & I'). exists s', false, f. auto. }
  destruct (try_merge_front ks np en s f I u0 v0 Ku Kv Ne Et)
    as (uf2 & u & v & HU2 & -> & Huv & Fu & Fv & Ku' & Kv' & Nuv & Lt).
  destruct (ordered_unfold ks np en s f I u v uf2 Fu Fv Ku' Kv' Nuv Lt)
    as (lo & lu & iv & lv & Iu & Lu & Iv & Lv & ? & ? & ? & ? & ->).
  destruct (cyc_check_exact ks np en s f I u v lo (iv + lv) Nuv Fu Fv Kv' iv Iu Iv ltac:(lia) ltac:(lia) uf2 HU2)
    as (found & uf3 & -> & HU3 & Hf).
  cbn [rbind]. destruct found.
  - exists (with_uf s uf3), false, f. split; [reflexivity|apply SMInv_with_uf; assumption].
  - assert (NoE : ~ enemy_rel (sm_enemies s) u v).
    { intro Er. assert (Er' : enemy_rel (sm_enemies s) (f u0) (f v0)).
      { destruct Huv as [(-> & ->)|(-> & ->)]; [exact Er|eapply SMInv_enemies_sym; eassumption]. }
      apply (enemy_test_spec s) in Er'. congruence. }
    assert (NoC : ~ would_cycle f np ks u v) by (intro W; apply Hf in W; discriminate).
    destruct (MP ks np en s f u v lo lu iv lv uf3 I Fu Fv Ku' Kv' Nuv Iu Lu Iv Lv ltac:(lia) HU3 NoE NoC) as (s' & -> & I').
    exists s', true, (relabel f u v). auto.
Qed.

(* ------------------------------------------------------------------ groundwork for merge_phase_refines *)

Lemma alookup_aremove_neq {A} k k' (m : list (N * A)) : k <> k' -> alookup k (aremove k' m) = alookup k m.
Proof.
  intro Ne. induction m as [|[k0 v0] r IH]; cbn; [reflexivity|].
  destruct (N.eqb k' k0) eqn:E.
  - apply N.eqb_eq in E. subst. rewrite (N_eqb_false k k0 Ne). reflexivity.
  - cbn. destruct (N.eqb k k0); [reflexivity|exact IH].
Qed.

Lemma alookup_not_in {A} k (m : list (N * A)) : ~ In k (map fst m) -> alookup k m = None.
Proof.
  induction m as [|[k0 v0] r IH]; cbn; intro H; [reflexivity|].
  destruct (N.eqb k k0) eqn:E; [apply N.eqb_eq in E; subst; tauto|]. apply IH. tauto.
Qed.

Lemma alookup_aremove_eq {A} k (m : list (N * A)) : NoDup (map fst m) -> alookup k (aremove k m) = None.
Proof.
  induction m as [|[k0 v0] r IH]; cbn; intro ND; [reflexivity|]. inversion ND; subst.
  destruct (N.eqb k k0) eqn:E.
  - apply N.eqb_eq in E. subst. apply alookup_not_in. assumption.
  - cbn. rewrite E. apply IH. assumption.
Qed.

(* retain_mut over the concatenated predecessor lists: representatives, self edges dropped *)
Lemma retain_find_spec f u : forall ps uf, UFInv uf f ->
  fst (retain_find u ps uf) = filter (fun x => negb (N.eqb x u)) (map f ps) /\
  UFInv (snd (retain_find u ps uf)) f.
Proof.
  induction ps as [|p ps IH]; intros uf HU; cbn; [auto|].
  pose proof (uf_find_correct uf f p HU) as (HU1 & E1).
  destruct (uf_find uf p) as [uf1 rp]. cbn in HU1, E1. subst rp.
  destruct (IH uf1 HU1) as (E2 & HU2). destruct (retain_find u ps uf1) as [r' uf2]. cbn in *.
  subst r'. split; [|exact HU2]. destruct (N.eqb (f p) u); reflexivity.
Qed.

(* the representatives of the window's nodes *)
Lemma find_all_spec f : forall ks uf, UFInv uf f ->
  fst (find_all ks uf) = map f ks /\ UFInv (snd (find_all ks uf)) f.
Proof.
  induction ks as [|k ks IH]; intros uf HU; cbn; [auto|].
  pose proof (uf_find_correct uf f k HU) as (HU1 & E1).
  destruct (uf_find uf k) as [uf1 rk]. cbn in HU1, E1. subst rk.
  destruct (IH uf1 HU1) as (E2 & HU2). destruct (find_all ks uf1) as [r' uf2]. cbn in *.
  subst r'. auto.
Qed.

(* step 2's union keeps u as the representative (the debug assertion cannot fire) *)
Lemma merge_union_root f u v uf : UFInv uf f -> f u = u ->
  snd (uf_union uf u v) = u /\ UFInv (fst (uf_union uf u v)) (relabel f u v).
Proof.
  intros HU Fu. destruct (uf_union_correct uf f u v HU) as (H1 & H2). split; [congruence|exact H1].
Qed.
