(* GraphAlg engine: proofs about the union-find model (dfir_lang/src/union_find.rs). *)
From Coq Require Import List NArith Bool Arith Lia.
From HV Require Import GraphAlg.Model.
Import ListNotations.

Lemma alookup_aset {A} k k' (v : A) m :
  alookup k (aset k' v m) = if N.eqb k k' then Some v else alookup k m.
Proof.
  induction m as [|[k0 v0] r IH]; cbn.
  - destruct (N.eqb k k'); reflexivity.
  - destruct (N.eqb k' k0) eqn:E; cbn.
    + apply N.eqb_eq in E; subst. destruct (N.eqb k k0); reflexivity.
    + destruct (N.eqb k k0) eqn:E2.
      * apply N.eqb_eq in E2; subst. rewrite N.eqb_sym, E. reflexivity.
      * exact IH.
Qed.

Definition nonself (m : links) : nat :=
  length (filter (fun kv => negb (N.eqb (fst kv) (snd kv))) m).

Lemma nonself_le_length m : nonself m <= length m.
Proof. unfold nonself. induction m as [|a r IH]; cbn; [lia|]. destruct (negb _); cbn; lia. Qed.

Lemma nonself_aset_self m k next :
  alookup k m = Some next -> next <> k -> S (nonself (aset k k m)) = nonself m.
Proof.
  unfold nonself. induction m as [|[k0 v0] r IH]; cbn; intros H Hn; [discriminate|].
  destruct (N.eqb k k0) eqn:E.
  - apply N.eqb_eq in E; subst k0. inversion H; subst v0. cbn.
    rewrite N.eqb_refl. cbn.
    destruct (N.eqb k next) eqn:E2; [apply N.eqb_eq in E2; congruence|]. reflexivity.
  - cbn. destruct (negb (N.eqb k0 v0)); cbn; rewrite <- (IH H Hn); reflexivity.
Qed.

Lemma uf_find_fuel_enough : forall fuel m k,
  nonself m < fuel -> uf_find_fuel fuel m k <> None.
Proof.
  induction fuel as [|f IH]; intros m k Hf; [lia|].
  cbn. destruct (alookup k m) as [next|] eqn:L; [|discriminate].
  destruct (N.eqb k next) eqn:E; [discriminate|].
  assert (Hn : next <> k) by (intro; subst; rewrite N.eqb_refl in E; discriminate).
  pose proof (nonself_aset_self m k next L Hn) as Hs.
  specialize (IH (aset k k m) next ltac:(lia)).
  destruct (uf_find_fuel f (aset k k m) next) as [[m2 r]|]; [discriminate|congruence].
Qed.

Theorem uf_find_fuel_ok : forall m k, uf_find_fuel (S (length m)) m k <> None.
Proof. intros. apply uf_find_fuel_enough. pose proof (nonself_le_length m). lia. Qed.
