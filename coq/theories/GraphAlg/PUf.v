(* GraphAlg engine: proofs about the union-find model (dfir_lang/src/union_find.rs). *)
From Coq Require Import List NArith Bool Arith Lia.
From HV Require Import GraphAlg.Model.
Import ListNotations.

Lemma alookup_aset {A} k k' (v : A) m :
  alookup k (aset k' v m) = if N.eqb k k' then Some v else alookup k m.
Proof.
  induction m as [|[k0 v0] r IH]; cbn.
  - destruct (N.eqb k k'); reflexivity.
  - destruct (N.eqb k' k0) eqn:E; cbn.
    + apply N.eqb_eq in E; subst. destruct (N.eqb k k0); reflexivity.
    + destruct (N.eqb k k0) eqn:E2.
      * apply N.eqb_eq in E2; subst. rewrite N.eqb_sym, E. reflexivity.
      * exact IH.
Qed.

Definition nonself (m : links) : nat :=
  length (filter (fun kv => negb (N.eqb (fst kv) (snd kv))) m).

Lemma nonself_le_length m : nonself m <= length m.
Proof. unfold nonself. induction m as [|a r IH]; cbn; [lia|]. destruct (negb _); cbn; lia. Qed.

Lemma nonself_aset_self m k next :
  alookup k m = Some next -> next <> k -> S (nonself (aset k k m)) = nonself m.
Proof.
  unfold nonself. induction m as [|[k0 v0] r IH]; cbn; intros H Hn; [discriminate|].
  destruct (N.eqb k k0) eqn:E.
  - apply N.eqb_eq in E; subst k0. inversion H; subst v0. cbn.
    rewrite N.eqb_refl. cbn.
    destruct (N.eqb k next) eqn:E2; [apply N.eqb_eq in E2; congruence|]. reflexivity.
  - cbn. destruct (negb (N.eqb k0 v0)); cbn; rewrite <- (IH H Hn); reflexivity.
Qed.

Lemma uf_find_fuel_enough : forall fuel m k,
  nonself m < fuel -> uf_find_fuel fuel m k <> None.
Proof.
  induction fuel as [|f IH]; intros m k Hf; [lia|].
  cbn. destruct (alookup k m) as [next|] eqn:L; [|discriminate].
  destruct (N.eqb k next) eqn:E; [discriminate|].
  assert (Hn : next <> k) by (intro; subst; rewrite N.eqb_refl in E; discriminate).
  pose proof (nonself_aset_self m k next L Hn) as Hs.
  specialize (IH (aset k k m) next ltac:(lia)).
  destruct (uf_find_fuel f (aset k k m) next) as [[m2 r]|]; [discriminate|congruence].
Qed.

Theorem uf_find_fuel_ok : forall m k, uf_find_fuel (S (length m)) m k <> None.
Proof. intros. apply uf_find_fuel_enough. pose proof (nonself_le_length m). lia. Qed.

(* ------------------------------------------------------------------ functional correctness *)

(* [f] = abstract representative function, [rank] = a witness that links are acyclic.
   [P f rank c m]: every proper link stays inside its class and increases the rank; every root
   of rank >= c is its class representative.  ([c] > 0 only while [find] has temporarily turned
   nodes of smaller rank into self-loops.) *)
Definition isroot (m : links) (x : N) : Prop := alookup x m = None \/ alookup x m = Some x.

Definition P (f : N -> N) (rank : N -> nat) (c : nat) (m : links) : Prop :=
  (forall x v, alookup x m = Some v -> v <> x -> f v = f x /\ rank x < rank v) /\
  (forall x, c <= rank x -> isroot m x -> f x = x).

Definition UFInv (m : links) (f : N -> N) : Prop := exists rank, P f rank 0 m.

Lemma N_eqb_false a b : a <> b -> N.eqb a b = false.
Proof. intro H. apply N.eqb_neq. exact H. Qed.

Lemma find_spec f rank : forall fuel m k c m' r,
  c <= rank k -> P f rank c m -> uf_find_fuel fuel m k = Some (m', r) ->
  r = f k /\ P f rank c m' /\ isroot m' r /\ (r = k \/ rank k < rank r) /\
  (forall x, rank x < rank k -> alookup x m' = alookup x m).
Proof.
  induction fuel as [|fuel IH]; intros m k c m' r Hc HP H; [discriminate|].
  cbn in H. destruct HP as (HL & HR).
  assert (Base : isroot m k -> m' = aset k k m -> r = k ->
                 r = f k /\ P f rank c m' /\ isroot m' r /\ (r = k \/ rank k < rank r) /\
                 (forall x, rank x < rank k -> alookup x m' = alookup x m)).
  { intros Hroot -> ->. split; [symmetry; apply HR; assumption|]. split; [|split; [|split]].
    - split.
      + intros x v. rewrite alookup_aset. destruct (N.eqb x k) eqn:E.
        * apply N.eqb_eq in E. subst. intros Hv Hne. inversion Hv. congruence.
        * apply HL.
      + intros x Hx. unfold isroot. rewrite alookup_aset. destruct (N.eqb x k) eqn:E.
        * apply N.eqb_eq in E. subst. intros _. apply HR; assumption.
        * intro Hr. apply HR; assumption.
    - right. rewrite alookup_aset, N.eqb_refl. reflexivity.
    - left. reflexivity.
    - intros x Hx. rewrite alookup_aset. rewrite N_eqb_false; [reflexivity|]. intros ->. lia. }
  destruct (alookup k m) as [next|] eqn:Lk.
  - destruct (N.eqb k next) eqn:E.
    + apply N.eqb_eq in E. subst next. inversion H; subst.
      apply Base; [right; exact Lk|reflexivity|reflexivity].
    + apply N.eqb_neq in E.
      destruct (uf_find_fuel fuel (aset k k m) next) as [[m2 r2]|] eqn:R; [|discriminate].
      inversion H; subst m' r2. clear H.
      destruct (HL k next Lk (fun e => E (eq_sym e))) as (Fn & Rn).
      assert (HP1 : P f rank (rank next) (aset k k m)).
      { split.
        - intros x v. rewrite alookup_aset. destruct (N.eqb x k) eqn:Ex.
          + apply N.eqb_eq in Ex. subst. intros Hv Hne. inversion Hv. congruence.
          + apply HL.
        - intros x Hx. unfold isroot. rewrite alookup_aset. destruct (N.eqb x k) eqn:Ex.
          + apply N.eqb_eq in Ex. subst. lia.
          + intro Hr. apply HR; [lia|exact Hr]. }
      destruct (IH (aset k k m) next (rank next) m2 r (le_n _) HP1 R)
        as (Er & (HL2 & HR2) & Hroot2 & Hrk & Hagree).
      assert (Hrr : rank next <= rank r) by (destruct Hrk as [->|]; lia).
      assert (Fr : f r = r) by (apply HR2; assumption).
      split; [congruence|]. split; [|split; [|split]].
      * split.
        -- intros x v. rewrite alookup_aset. destruct (N.eqb x k) eqn:Ex.
           ++ apply N.eqb_eq in Ex. subst x. intros Hv Hne. inversion Hv; subst v.
              split; [congruence|lia].
           ++ apply HL2.
        -- intros x Hx. unfold isroot. rewrite alookup_aset. destruct (N.eqb x k) eqn:Ex.
           ++ apply N.eqb_eq in Ex. subst x. intros [Hr|Hr]; [discriminate|]. inversion Hr. congruence.
           ++ apply N.eqb_neq in Ex. intro Hr.
              destruct (le_lt_dec (rank next) (rank x)) as [Hge|Hlt]; [apply HR2; assumption|].
              apply HR; [exact Hx|]. unfold isroot in *. rewrite (Hagree x Hlt) in Hr.
              rewrite alookup_aset, N_eqb_false in Hr by exact Ex. exact Hr.
      * unfold isroot. rewrite alookup_aset. destruct (N.eqb r k) eqn:Ex.
        -- apply N.eqb_eq in Ex. subst. right. reflexivity.
        -- exact Hroot2.
      * right. lia.
      * intros x Hx. rewrite alookup_aset, N_eqb_false by (intros ->; lia).
        rewrite Hagree by lia. rewrite alookup_aset, N_eqb_false by (intros ->; lia). reflexivity.
  - inversion H; subst. apply Base; [left; exact Lk|reflexivity|reflexivity].
Qed.

Lemma uf_find_eq m k : exists m' r, uf_find m k = (m', r) /\ uf_find_fuel (S (length m)) m k = Some (m', r).
Proof.
  unfold uf_find. pose proof (uf_find_fuel_ok m k) as H.
  destruct (uf_find_fuel (S (length m)) m k) as [[m' r]|]; [|congruence].
  exists m', r. split; reflexivity.
Qed.

(* find returns the class representative and leaves the abstract partition unchanged *)
Theorem uf_find_correct m f k :
  UFInv m f -> UFInv (fst (uf_find m k)) f /\ snd (uf_find m k) = f k.
Proof.
  intros (rank & HP). destruct (uf_find_eq m k) as (m' & r & -> & E).
  destruct (find_spec f rank _ m k 0 m' r (Nat.le_0_l _) HP E) as (Er & HP' & _).
  cbn. split; [exists rank; exact HP'|exact Er].
Qed.

Lemma UFInv_idem m f k : UFInv m f -> f (f k) = f k.
Proof.
  intros (rank & HP). destruct (uf_find_eq m k) as (m' & r & _ & E).
  destruct (find_spec f rank _ m k 0 m' r (Nat.le_0_l _) HP E) as (Er & (_ & HR) & Hroot & _).
  subst r. apply HR; [lia|exact Hroot].
Qed.

(* the abstract effect of union: b's class is relabelled with a's representative *)
Definition relabel (f : N -> N) (a b : N) (x : N) : N := if N.eqb (f x) (f b) then f a else f x.

Theorem uf_union_correct m f a b :
  UFInv m f ->
  UFInv (fst (uf_union m a b)) (relabel f a b) /\ snd (uf_union m a b) = f a.
Proof.
  intros (rank & HP). unfold uf_union.
  destruct (uf_find_eq m a) as (m1 & i & -> & E1).
  destruct (find_spec f rank _ m a 0 m1 i (Nat.le_0_l _) HP E1) as (Ei & HP1 & Hri & _).
  destruct (uf_find_eq m1 b) as (m2 & j & -> & E2).
  destruct (find_spec f rank _ m1 b 0 m2 j (Nat.le_0_l _) HP1 E2) as (Ej & (HL2 & HR2) & Hrj & _).
  cbn. split; [|exact Ei].
  assert (Fi : f i = i) by (destruct HP1 as (_ & HR1); apply HR1; [lia|exact Hri]).
  assert (Fj : f j = j) by (apply HR2; [lia|exact Hrj]).
  subst i j. set (i := f a) in *. set (j := f b) in *.
  destruct (N.eq_dec i j) as [Eij|Nij].
  - (* same class already *)
    exists rank. split.
    + intros x v. rewrite alookup_aset. destruct (N.eqb x j) eqn:Ex.
      * apply N.eqb_eq in Ex. subst x. intros Hv Hne. inversion Hv. congruence.
      * intros Hv Hne. destruct (HL2 x v Hv Hne) as (Fv & Rv). split; [|exact Rv].
        unfold relabel. fold j. rewrite Fv. reflexivity.
    + intros x _ Hr. unfold relabel. fold i j.
      assert (Fx : f x = x).
      { unfold isroot in Hr. rewrite alookup_aset in Hr. destruct (N.eqb x j) eqn:Ex.
        - apply N.eqb_eq in Ex. subst x. exact Fj.
        - apply HR2; [lia|exact Hr]. }
      rewrite Fx. destruct (N.eqb x j) eqn:Ex; [apply N.eqb_eq in Ex; congruence|reflexivity].
  - exists (fun x => if N.eqb (f x) i then rank x + S (rank j) else rank x). split.
    + intros x v. rewrite alookup_aset. destruct (N.eqb x j) eqn:Ex.
      * apply N.eqb_eq in Ex. subst x. intros Hv Hne. inversion Hv; subst v.
        unfold relabel. fold i j. rewrite Fi, Fj, N.eqb_refl, (N_eqb_false i j Nij), N.eqb_refl.
        split; [reflexivity|]. rewrite (N_eqb_false j i) by congruence. lia.
      * intros Hv Hne. destruct (HL2 x v Hv Hne) as (Fv & Rv). unfold relabel. fold i j.
        rewrite Fv. split; [reflexivity|]. destruct (N.eqb (f x) i); lia.
    + intros x _ Hr. unfold isroot in Hr. rewrite alookup_aset in Hr.
      destruct (N.eqb x j) eqn:Ex.
      * apply N.eqb_eq in Ex. subst x. destruct Hr as [Hr|Hr]; [discriminate|]. inversion Hr. congruence.
      * assert (Fx : f x = x) by (apply HR2; [lia|exact Hr]).
        unfold relabel. fold i j. rewrite Fx, Ex. reflexivity.
Qed.

Theorem uf_same_correct m f a b :
  UFInv m f -> UFInv (fst (uf_same m a b)) f /\ snd (uf_same m a b) = N.eqb (f a) (f b).
Proof.
  intro H. unfold uf_same.
  pose proof (uf_find_correct m f a H) as (H1 & E1). destruct (uf_find m a) as [m1 i]. cbn in *.
  pose proof (uf_find_correct m1 f b H1) as (H2 & E2). destruct (uf_find m1 b) as [m2 j]. cbn in *.
  subst. split; [exact H2|reflexivity].
Qed.

(* the first argument's root survives union *)
Theorem uf_union_keeps_first_root m f a b :
  UFInv m f ->
  let '(m', i) := uf_union m a b in
  i = uf_root m a /\ uf_root m' a = i /\ uf_root m' b = i.
Proof.
  intro H. pose proof (uf_union_correct m f a b H) as (H' & Ei).
  destruct (uf_union m a b) as [m' i]. cbn in *.
  unfold uf_root. rewrite (proj2 (uf_find_correct m f a H)).
  rewrite (proj2 (uf_find_correct m' _ a H')), (proj2 (uf_find_correct m' _ b H')).
  unfold relabel. rewrite N.eqb_refl. split; [exact Ei|]. split; [|symmetry; exact Ei].
  destruct (N.eqb (f a) (f b)); congruence.
Qed.

(* ------------------------------------------------------------------ histories *)

Inductive eqcl (R : N -> N -> Prop) : N -> N -> Prop :=
| eq_base a b : R a b -> eqcl R a b
| eq_refl' a : eqcl R a a
| eq_sym' a b : eqcl R a b -> eqcl R b a
| eq_trans' a b c : eqcl R a b -> eqcl R b c -> eqcl R a c.

Lemma eqcl_mono (R S : N -> N -> Prop) : (forall a b, R a b -> S a b) -> forall a b, eqcl R a b -> eqcl S a b.
Proof.
  intros H a b E. induction E; [apply eq_base; auto|apply eq_refl'|apply eq_sym'; assumption|
                                eapply eq_trans'; eassumption].
Qed.

Lemma UFInv_empty : UFInv [] (fun x => x).
Proof. exists (fun _ => 0). split; [intros x v H; discriminate|reflexivity]. Qed.

Lemma relabel_eqcl f (R : N -> N -> Prop) a0 b0 :
  (forall a b, f a = f b <-> eqcl R a b) ->
  forall a b, relabel f a0 b0 a = relabel f a0 b0 b <->
              eqcl (fun x y => R x y \/ (x = a0 /\ y = b0)) a b.
Proof.
  intros HR a b. set (R1 := fun x y => R x y \/ (x = a0 /\ y = b0)).
  assert (Up : forall x y, f x = f y -> eqcl R1 x y).
  { intros x y E. apply (eqcl_mono R R1); [intros; left; assumption|]. apply HR. exact E. }
  assert (E0 : eqcl R1 a0 b0) by (apply eq_base; right; split; reflexivity).
  split.
  - unfold relabel. intro E.
    destruct (N.eqb (f a) (f b0)) eqn:Ea; destruct (N.eqb (f b) (f b0)) eqn:Eb.
    + apply N.eqb_eq in Ea, Eb. apply Up. congruence.
    + apply N.eqb_eq in Ea.
      eapply eq_trans'; [apply Up; exact Ea|]. eapply eq_trans'; [apply eq_sym'; exact E0|]. apply Up. exact E.
    + apply N.eqb_eq in Eb.
      eapply eq_trans'; [apply Up; exact E|]. eapply eq_trans'; [exact E0|]. apply Up. congruence.
    + apply Up. exact E.
  - intro E. induction E as [x y [Hxy|(-> & ->)]|x|x y _ IH|x y z _ IH1 _ IH2].
    + assert (Exy : f x = f y) by (apply HR; apply eq_base; exact Hxy).
      unfold relabel. rewrite Exy. reflexivity.
    + unfold relabel. rewrite N.eqb_refl. destruct (N.eqb (f a0) (f b0)); reflexivity.
    + reflexivity.
    + symmetry. exact IH.
    + congruence.
Qed.

Lemma uf_exec_inv : forall ops m f (R : N -> N -> Prop),
  UFInv m f -> (forall a b, f a = f b <-> eqcl R a b) ->
  exists f', UFInv (uf_exec m ops) f' /\
             forall a b, f' a = f' b <-> eqcl (fun x y => R x y \/ In (x, y) (unions_of ops)) a b.
Proof.
  induction ops as [|op ops IH]; intros m f R HI HR.
  - exists f. split; [exact HI|]. intros a b. rewrite HR. split; apply eqcl_mono; cbn; tauto.
  - unfold uf_exec. cbn [fold_left]. fold (uf_exec (uf_step m op) ops). destruct op as [a0 b0|a0|a0 b0].
    + destruct (IH (uf_step m (UUnion a0 b0)) (relabel f a0 b0)
                   (fun x y => R x y \/ (x = a0 /\ y = b0))
                   (proj1 (uf_union_correct m f a0 b0 HI)) (relabel_eqcl f R a0 b0 HR)) as (f' & HI' & HR').
      exists f'. split; [exact HI'|]. intros a b. rewrite HR'.
      split; apply eqcl_mono; cbn; intros x y; intuition congruence.
    + destruct (IH (uf_step m (UFind a0)) f R (proj1 (uf_find_correct m f a0 HI)) HR) as (f' & HI' & HR').
      exists f'. split; [exact HI'|exact HR'].
    + destruct (IH (uf_step m (USame a0 b0)) f R (proj1 (uf_same_correct m f a0 b0 HI)) HR) as (f' & HI' & HR').
      exists f'. split; [exact HI'|exact HR'].
Qed.

(* after ANY history of union / find / same_set calls starting from the empty structure,
   same_set answers exactly the equivalence closure of the unions performed *)
Theorem uf_same_set_spec ops a b :
  snd (uf_same (uf_exec [] ops) a b) = true <-> eqcl (fun x y => In (x, y) (unions_of ops)) a b.
Proof.
  destruct (uf_exec_inv ops [] (fun x => x) (fun _ _ => False) UFInv_empty) as (f & HI & HR).
  { intros x y. split; [intros ->; apply eq_refl'|]. intro E. induction E; [contradiction|reflexivity|congruence|congruence]. }
  rewrite (proj2 (uf_same_correct _ f a b HI)). rewrite N.eqb_eq, HR.
  split; apply eqcl_mono; tauto.
Qed.

Theorem uf_reachable_inv ops : exists f, UFInv (uf_exec [] ops) f.
Proof.
  destruct (uf_exec_inv ops [] (fun x => x) (fun _ _ => False) UFInv_empty) as (f & HI & _).
  { intros x y. split; [intros ->; apply eq_refl'|]. intro E. induction E; [contradiction|reflexivity|congruence|congruence]. }
  exists f. exact HI.
Qed.
