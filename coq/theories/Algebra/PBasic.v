(* E3 Algebra engine -- basic lemmas about the result monad and the loop combinator. *)
From Coq Require Import List Bool.
From HV Require Import Algebra.Model.
Import ListNotations.

Lemma and_then_ok : forall r k, (r ;; k) = Ok <-> r = Ok /\ k = Ok.
Proof. intros [|e] k; simpl; split; intros H; try tauto; try (destruct H; congruence). discriminate. Qed.

Lemma check_ok : forall b e, check b e = Ok <-> b = true.
Proof. intros [] e; simpl; split; intros; congruence. Qed.

Lemma is_ok_true : forall r, is_ok r = true <-> r = Ok.
Proof. intros [|e]; simpl; split; intros; congruence. Qed.

Lemma first_err_ok : forall {X} (xs : list X) body,
  first_err xs body = Ok <-> (forall x, In x xs -> body x = Ok).
Proof.
  induction xs as [|x r IH]; simpl; intros body.
  - split; [intros _ x []|reflexivity].
  - destruct (body x) eqn:E.
    + rewrite IH. split.
      * intros H y [<-|Hy]; auto.
      * intros H y Hy; auto.
    + split; [discriminate|]. intros H. rewrite <- E. apply H. now left.
Qed.

(* the first failing element decides the error: the result is the body's on the first x
   whose body is not Ok *)
Lemma first_err_err : forall {X} (xs : list X) body e,
  first_err xs body = Err e ->
  exists pre x post, xs = pre ++ x :: post /\ body x = Err e /\ forall y, In y pre -> body y = Ok.
Proof.
  induction xs as [|x r IH]; simpl; intros body e H; [discriminate|].
  destruct (body x) eqn:E.
  - destruct (IH _ _ H) as (pre & y & post & -> & Hy & Hpre).
    exists (x :: pre), y, post. repeat split; auto. intros z [<-|Hz]; auto.
  - inversion H; subst. exists [], x, r. repeat split; auto. intros y [].
Qed.
