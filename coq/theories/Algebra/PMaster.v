(* E3 Algebra engine -- the executable form of C09 (Model.C09_holds_b, what the
   correspondence check evaluates on the implementation's outputs) is satisfied by the model
   on EVERY case outside the recorded exception class (float semirings):
   all item lists, all operation tables, all arities, all semiring values. *)
From Coq Require Import List Bool NArith ZArith Arith Lia Floats.
From HV Require Import Algebra.Model Algebra.PBasic Algebra.PPower Algebra.PCheckers Algebra.PSemiring.
Import ListNotations.

Lemma agree_ok : forall (r : res) (b : bool) (P : Prop),
  (r = Ok <-> P) -> (b = true <-> P) -> Bool.eqb (is_ok r) b = true.
Proof.
  intros r b P H1 H2. destruct r as [|e], b; simpl; auto.
  - assert (false = true) by (apply H2, H1; reflexivity). discriminate.
  - assert (Err e = Ok) by (apply H1, H2; reflexivity). discriminate.
Qed.

Lemma agree_in : forall (a b : bool) (P : Prop),
  (a = true <-> P) -> (b = true <-> P) -> Bool.eqb a b = true.
Proof.
  intros [] [] P H1 H2; simpl; auto.
  - assert (false = true) by (apply H2, H1; reflexivity). discriminate.
  - assert (false = true) by (apply H1, H2; reflexivity). discriminate.
Qed.

Lemma has_tag_in : forall t l, t <> POther -> (has_tag t l = true <-> In t l).
Proof.
  intros t l Ht. unfold has_tag. rewrite existsb_exists. split.
  - intros (u & Hu & E). destruct t, u; try discriminate; auto; congruence.
  - intros H. exists t. split; auto. destruct t; auto; congruence.
Qed.

Lemma list_eqb_refl : forall {X} (e : X -> X -> bool) l,
  (forall x, In x l -> e x x = true) -> list_eqb e l l = true.
Proof.
  induction l as [|x l IH]; intros H; simpl; auto.
  rewrite H by now left. apply IH. intros y Hy. apply H. now right.
Qed.

Lemma mem_b_in : forall {X} (e : X -> X -> bool) x l,
  e x x = true -> In x l -> mem_b e x l = true.
Proof. intros. unfold mem_b. apply existsb_exists. eauto. Qed.

Lemma countdown_map : forall k, map N.of_nat (count_down k) = countdown k.
Proof. induction k as [|k IH]; simpl; [reflexivity|]. now rewrite IH. Qed.

Lemma all_tuples_spec : forall n items t,
  In t (all_tuples n items) -> length t = n /\ Forall (fun x => In x items) t.
Proof.
  induction n as [|n IH]; intros items t H; simpl in H.
  - destruct H as [<-|[]]. split; [reflexivity|constructor].
  - apply in_flat_map in H. destruct H as (x & Hx & H). apply in_map_iff in H.
    destruct H as (r & <- & Hr). destruct (IH _ _ Hr). split; [simpl; congruence|constructor; auto].
Qed.

Lemma float_bits_eqb_refl : forall f, float_bits_eqb f f = true.
Proof.
  intros f. unfold float_bits_eqb. destruct (Prim2SF f); auto using Bool.eqb_reflx.
  now rewrite Bool.eqb_reflx, Pos.eqb_refl, Z.eqb_refl.
Qed.

Lemma sval_eqb_refl' : forall v, sval_eqb v v = true.
Proof.
  intros [b|n| |f]; simpl; auto using Bool.eqb_reflx, N.eqb_refl, float_bits_eqb_refl.
Qed.

Lemma pow_holds : forall items n, C09_holds_b (CPow items n) (pow_out items n) = true.
Proof.
  intros items n. unfold pow_out.
  destruct (cp_trace_init n items) as [fin E]. rewrite E.
  cbn [C09_holds_b cp_next cp_size_hint Nat.eqb]. rewrite countdown_map.
  repeat (apply andb_true_iff; split); auto.
  - apply forallb_forall. intros t Ht. apply cp_spec_In in Ht. destruct Ht as (_ & Hl & Hf).
    apply andb_true_iff. split; [now apply Nat.eqb_eq|].
    apply forallb_forall. intros x Hx. rewrite Forall_forall in Hf.
    apply mem_b_in; auto using N.eqb_refl.
  - destruct items as [|i0 items'] eqn:Ei; [reflexivity|]. rewrite <- Ei.
    apply forallb_forall. intros t Ht. apply all_tuples_spec in Ht. destruct Ht as [Hl Hf].
    apply mem_b_in.
    + apply list_eqb_refl. intros; apply N.eqb_refl.
    + apply cp_spec_In. repeat split; auto. subst; discriminate.
  - apply Nat.eqb_eq. destruct items as [|i0 items'] eqn:Ei.
    + now rewrite cp_spec_nil.
    + rewrite <- Ei. apply cp_spec_length. subst; discriminate.
  - apply list_eqb_refl. intros; apply N.eqb_refl.
Qed.

(* the cases covered: everything except the two floating-point semirings (ConfidenceScore: refuted; FuzzyLogic: proved in PFuzzy.v
   up to IEEE `==`, whereas C09_holds_b compares bit patterns) *)
Definition in_scope (c : acase) : Prop :=
  match c with
  | CSr t _ _ _ => exact_ty t
  | CSrRel t _ _ _ => exact_ty t
  | _ => True
  end.

Theorem model_satisfies_C09 : forall c, in_scope c -> C09_holds_b c (model_run c) = true.
Proof.
  intros c Hc. destruct c; cbn [in_scope] in Hc; try contradiction;
    cbn [model_run C09_holds_b law_b];
    try (eapply agree_ok;
         [first [apply associativity_ok | apply commutativity_ok | apply idempotency_ok
                | apply semigroup_ok | apply identity_ok | apply absorbing_element_ok
                | apply monoid_ok | apply commutative_monoid_ok | apply no_nonzero_zero_divisors_ok
                | apply inverse_ok | apply group_ok | apply abelian_group_ok
                | apply nonzero_inverse_ok | apply left_distributes_ok | apply right_distributes_ok
                | apply distributive_ok | apply semiring_ok | apply ring_ok
                | apply commutative_ring_ok | apply integral_domain_ok | apply field_ok
                | apply bilinearity_ok | apply linearity_ok]
         |first [apply assoc_b_spec | apply comm_b_spec | apply idem_b_spec
                | apply ident_b_spec | apply absorb_b_spec | apply monoid_b_spec
                | apply cmonoid_b_spec | apply nzd_b_spec | apply inv_b_spec | apply group_b_spec
                | apply abgroup_b_spec | apply nzinv_b_spec | apply ldist_b_spec | apply rdist_b_spec
                | apply dist_b_spec | apply semiring_b_spec | apply ring_b_spec | apply cring_b_spec
                | apply idom_b_spec | apply field_b_spec | apply bilinear_b_spec | apply linear_b_spec]]; fail).
  - (* props *)
    pose proof (single_function_properties_spec N.eqb items (top f) e (vop b) z) as S.
    cbv zeta in S. destruct S as (S1 & S2 & S3 & S4 & S5 & S6 & S7).
    repeat (apply andb_true_iff; split).
    + eapply agree_in; [rewrite has_tag_in by discriminate; exact S1|apply assoc_b_spec].
    + eapply agree_in; [rewrite has_tag_in by discriminate; exact S2|apply comm_b_spec].
    + eapply agree_in; [rewrite has_tag_in by discriminate; exact S3|apply idem_b_spec].
    + eapply agree_in; [rewrite has_tag_in by discriminate; exact S4|apply ident_b_spec].
    + eapply agree_in; [rewrite has_tag_in by discriminate; exact S5|apply inv_b_spec].
    + eapply agree_in; [rewrite has_tag_in by discriminate; exact S6|apply absorb_b_spec].
    + apply negb_true_iff. destruct (existsb _ _) eqn:E; [|reflexivity].
      apply existsb_exists in E. destruct E as (u & Hu & E). destruct u; try discriminate.
      contradiction.
  - apply pow_holds.
  - apply sr_laws_b_model. assumption.
  - apply sr_laws_b_model. assumption.
  - (* constructors *)
    destruct t, a; cbn [sr_new option_map osval_eqb]; auto;
      try (destruct (u32 n); cbn [option_map osval_eqb sval_eqb]; auto using N.eqb_refl);
      try apply Bool.eqb_reflx;
      try (destruct (in01 f) eqn:E; cbn; rewrite ?E, ?float_bits_eqb_refl; reflexivity).
Qed.
