(* E3 Algebra engine -- the cartesian_power iterator (carry propagation over N peekable
   slice iterators) yields exactly cp_spec, never panics, terminates within cp_fuel, and its
   size_hint is the exact number of remaining tuples at every step. *)
From Coq Require Import List Bool Arith Lia.
From HV Require Import Algebra.Model.
Import ListNotations.

Section Power.
  Context {A : Type}.
  Implicit Types (items : list A) (iters : list (list A)).

  (* tuples still to be yielded from a state whose iterators are `iters` *)
  Fixpoint remaining items iters : list (list A) :=
    match iters with
    | [] => [[]]
    | s0 :: rest =>
        match remaining items rest with
        | [] => []
        | r0 :: Rt =>
            map (fun x => x :: r0) s0 ++
            flat_map (fun r => map (fun x => x :: r) items) Rt
        end
    end.

  Definition nonempty (l : list A) : Prop := l <> [].
  Definition heads iters : list A := flat_map (fun it => match it with [] => [] | x :: _ => [x] end) iters.

  Lemma remaining_hd : forall items iters,
    Forall nonempty iters -> exists Rt, remaining items iters = heads iters :: Rt.
  Proof.
    induction iters as [|s0 rest IH]; intros H; simpl.
    - now exists [].
    - inversion H as [|? ? Hs Hr]; subst. destruct (IH Hr) as [Rt ->].
      destruct s0 as [|x s0']; [now elim Hs|]. simpl. eexists; reflexivity.
  Qed.

  Lemma digits_false : forall items iters,
    Forall nonempty iters -> cp_digits items iters false = Some (heads iters, iters, false).
  Proof.
    induction iters as [|s0 rest IH]; intros H; simpl; [reflexivity|].
    inversion H as [|? ? Hs Hr]; subst. destruct s0 as [|x s0']; [now elim Hs|].
    rewrite (IH Hr). reflexivity.
  Qed.

  (* one `next()`: yields the heads, and what remains afterwards is the tail of `remaining` *)
  Lemma digits_true : forall items iters,
    nonempty items -> Forall nonempty iters ->
    exists its g,
      cp_digits items iters true = Some (heads iters, its, g) /\
      Forall nonempty its /\ length its = length iters /\
      remaining items iters = heads iters :: (if g then [] else remaining items its).
  Proof.
    intros items iters Hi. induction iters as [|s0 rest IH]; intros H.
    - exists [], true. simpl. repeat split; auto.
    - inversion H as [|? ? Hs Hr]; subst. destruct s0 as [|x s0']; [now elim Hs|].
      destruct s0' as [|y s0''].
      + (* carry *)
        destruct (IH Hr) as (its & g & E & Hne & Hlen & Hrem).
        exists (items :: its), g. simpl. rewrite E. split; [reflexivity|].
        split; [constructor; auto|]. split; [simpl; congruence|].
        rewrite Hrem. simpl. destruct g; [reflexivity|].
        destruct (remaining_hd items its Hne) as [Rt' E'].
        rewrite E'. simpl. reflexivity.
      + exists ((y :: s0'') :: rest), false. simpl. rewrite (digits_false items rest Hr).
        split; [reflexivity|]. split; [constructor; auto; discriminate|]. split; [reflexivity|].
        destruct (remaining_hd items rest Hr) as [Rt E]. rewrite E. simpl. reflexivity.
  Qed.

  (* ---------------------------------------------------------------- size_hint *)
  Fixpoint passed_of items iters : nat :=
    match iters with
    | [] => 0
    | s :: rest => (length items - length s) + length items * passed_of items rest
    end.

  Lemma size_fold : forall items iters p0 w0,
    fold_left (fun '(passed, pow) it =>
                 (passed + pow * (length items - length it), pow * length items)) iters (p0, w0)
    = (p0 + w0 * passed_of items iters, w0 * length items ^ length iters).
  Proof.
    induction iters as [|s rest IH]; intros p0 w0; simpl.
    - f_equal; lia.
    - rewrite IH. f_equal; [|rewrite Nat.mul_assoc; reflexivity]. lia.
  Qed.

  Definition short items iters := Forall (fun s => length s <= length items) iters.

  Lemma remaining_count : forall items iters,
    Forall nonempty iters -> short items iters ->
    length (remaining items iters) + passed_of items iters = length items ^ length iters /\
    1 <= length (remaining items iters).
  Proof.
    induction iters as [|s rest IH]; intros Hne Hs; simpl.
    - lia.
    - inversion Hne as [|? ? Hs0 Hr]; subst. inversion Hs as [|? ? Hl Hsr]; subst.
      destruct (IH Hr Hsr) as [IH1 IH2].
      destruct (remaining items rest) as [|r0 Rt] eqn:E; [simpl in IH2; lia|].
      rewrite app_length, map_length.
      assert (HF : forall (R : list (list A)),
                 length (flat_map (fun r => map (fun x => x :: r) items) R) = length items * length R).
      { induction R as [|r R IHR]; simpl; [lia|]. rewrite app_length, map_length, IHR. lia. }
      rewrite HF. simpl in IH1, IH2.
      assert (length s >= 1) by (destruct s; [now elim Hs0|simpl; lia]).
      split; [|lia]. nia.
  Qed.

  (* ---------------------------------------------------------------- the trace *)
  Definition wf_state (st : @cp_state A) : Prop :=
    let '(items, iters) := st in
    nonempty items /\ Forall nonempty iters /\ short items iters.

  Lemma size_hint_live : forall items iters,
    wf_state (items, iters) -> cp_size_hint (items, iters) = length (remaining items iters).
  Proof.
    intros items iters (Hi & Hne & Hs). unfold cp_size_hint.
    destruct items as [|i0 items']; [now elim Hi|].
    rewrite size_fold. destruct (remaining_count _ _ Hne Hs) as [H1 H2]. lia.
  Qed.

  Lemma digits_short : forall items iters go out its g,
    short items iters -> cp_digits items iters go = Some (out, its, g) -> short items its.
  Proof.
    intros items. induction iters as [|s rest IH]; intros go out its g Hs E; simpl in E.
    - inversion E; subst. constructor.
    - inversion Hs as [|? ? Hl Hr]; subst. destruct s as [|x s']; [discriminate|].
      destruct go.
      + destruct s' as [|y s''].
        * destruct (cp_digits items rest true) as [[[o i2] g2]|] eqn:E2; [|discriminate].
          inversion E; subst. constructor; [lia|]. eapply IH; eauto.
        * destruct (cp_digits items rest false) as [[[o i2] g2]|] eqn:E2; [|discriminate].
          inversion E; subst. constructor; [simpl in *; lia|]. eapply IH; eauto.
      + destruct (cp_digits items rest false) as [[[o i2] g2]|] eqn:E2; [|discriminate].
        inversion E; subst. constructor; [assumption|]. eapply IH; eauto.
  Qed.

  Fixpoint count_down (n : nat) : list nat :=
    match n with 0 => [0] | S k => n :: count_down k end.

  (* from any well-formed live state the iterator yields `remaining`, reports the exact
     number of tuples left before each `next()`, and ends in a dead state *)
  Lemma trace_spec : forall fuel items iters,
    wf_state (items, iters) -> length (remaining items iters) < fuel ->
    exists its,
      cp_trace fuel (items, iters)
      = Some (remaining items iters, count_down (length (remaining items iters)), ([], its)).
  Proof.
    induction fuel as [|fuel IH]; intros items iters Hwf Hlt; [lia|].
    pose proof (size_hint_live _ _ Hwf) as Hsz.
    destruct Hwf as (Hi & Hne & Hs).
    destruct (digits_true items iters Hi Hne) as (its & g & E & Hne' & Hlen & Hrem).
    cbn [cp_trace]. unfold cp_next.
    destruct items as [|i0 items'] eqn:Eit; [now elim Hi|]. rewrite <- Eit in *.
    rewrite E. rewrite Hsz.
    destruct g.
    - (* last tuple: items := [] *)
      rewrite Hrem. destruct fuel as [|fuel]; [simpl in Hlt; rewrite Hrem in Hlt; simpl in Hlt; lia|].
      cbn [cp_trace cp_next]. simpl. eexists; reflexivity.
    - assert (Hwf' : wf_state (items, its)).
      { repeat split; auto. eapply digits_short; eauto. }
      rewrite Hrem in Hlt. simpl in Hlt.
      destruct (IH items its Hwf' ltac:(lia)) as [fin Etr].
      rewrite Etr. rewrite Hrem. simpl. eexists; reflexivity.
  Qed.

  Lemma remaining_init : forall n items, remaining items (repeat items n) = cp_spec n items \/ items = [].
  Proof.
    intros n items. destruct items as [|i0 items']; [now right|left].
    induction n as [|n IH]; simpl; [reflexivity|].
    simpl in IH. rewrite IH. destruct (cp_spec n (i0 :: items')); reflexivity.
  Qed.

  Lemma cp_spec_length : forall n items, items <> [] -> length (cp_spec n items) = length items ^ n.
  Proof.
    intros n items Hi. induction n as [|n IH]; simpl.
    - destruct items; [now elim Hi|reflexivity].
    - assert (HF : forall (R : list (list A)),
                 length (flat_map (fun r => map (fun x => x :: r) items) R) = length items * length R).
      { induction R as [|r R IHR]; simpl; [lia|]. rewrite app_length, map_length, IHR. lia. }
      rewrite HF, IH. reflexivity.
  Qed.

  Lemma cp_spec_nil : forall n, cp_spec n (@nil A) = [].
  Proof. induction n as [|n IH]; simpl; [reflexivity|]. rewrite IH. reflexivity. Qed.

  Lemma init_wf : forall n items, items <> [] -> wf_state (cp_init n items).
  Proof.
    intros n items Hi. unfold cp_init, wf_state. split; [exact Hi|].
    split; apply Forall_forall; intros s Hs; apply repeat_spec in Hs; subst; auto.
  Qed.

  (* the full run of cartesian_power::<_, n>(items) *)
  Theorem cp_trace_init : forall n items,
    exists fin,
      cp_trace (cp_fuel n items) (cp_init n items)
      = Some (cp_spec n items, count_down (length (cp_spec n items)), ([], fin)).
  Proof.
    intros n items. destruct items as [|i0 items'] eqn:Eit.
    - rewrite cp_spec_nil. unfold cp_fuel, cp_init. simpl. eexists; reflexivity.
    - rewrite <- Eit. assert (Hi : items <> []) by (subst; discriminate).
      destruct (remaining_init n items) as [Hr|]; [|contradiction].
      destruct (trace_spec (cp_fuel n items) items (repeat items n) (init_wf n items Hi)) as [fin E].
      + rewrite Hr, (cp_spec_length _ _ Hi). unfold cp_fuel. lia.
      + exists fin. unfold cp_init. rewrite E, Hr. reflexivity.
  Qed.

  Theorem cartesian_power_spec : forall n items, cartesian_power n items = cp_spec n items.
  Proof.
    intros n items. unfold cartesian_power. destruct (cp_trace_init n items) as [fin ->]. reflexivity.
  Qed.

  (* membership: exactly the n-tuples over a non-empty slice *)
  Theorem cp_spec_In : forall n items tup,
    In tup (cp_spec n items) <->
    items <> [] /\ length tup = n /\ Forall (fun x => In x items) tup.
  Proof.
    induction n as [|n IH]; intros items tup; simpl.
    - destruct items as [|i0 items']; simpl.
      + split; [intros []|intros (H & _); now elim H].
      + split.
        * intros [<-|[]]. repeat split; [discriminate|constructor].
        * intros (_ & Hl & _). destruct tup; [now left|discriminate].
    - rewrite in_flat_map. split.
      + intros (rest & Hrest & Hin). apply in_map_iff in Hin. destruct Hin as (x & <- & Hx).
        apply IH in Hrest. destruct Hrest as (Hi & Hl & Hf). repeat split; auto.
        simpl; congruence.
      + intros (Hi & Hl & Hf). destruct tup as [|x rest]; [discriminate|].
        inversion Hf; subst. exists rest. split.
        * apply IH. repeat split; auto.
        * apply in_map_iff. exists x. split; auto.
  Qed.

  Theorem cartesian_power_In : forall n items tup,
    In tup (cartesian_power n items) <->
    items <> [] /\ length tup = n /\ Forall (fun x => In x items) tup.
  Proof. intros. rewrite cartesian_power_spec. apply cp_spec_In. Qed.

  (* no panic, no fuel exhaustion, exact size hints, fused end *)
  Theorem cartesian_power_run : forall n items,
    exists fin,
      cp_trace (cp_fuel n items) (cp_init n items)
      = Some (cartesian_power n items, count_down (length (cartesian_power n items)), fin) /\
      cp_next fin = CpDone /\ cp_size_hint fin = 0.
  Proof.
    intros n items. destruct (cp_trace_init n items) as [fin E].
    exists ([], fin). rewrite cartesian_power_spec. split; [exact E|]. split; reflexivity.
  Qed.

  (* convenient forms for the arities the checkers use *)
  Lemma In_cp2 : forall items t,
    In t (cartesian_power 2 items) <-> exists a b, t = [a; b] /\ In a items /\ In b items.
  Proof.
    intros items t. rewrite cartesian_power_In. split.
    - intros (_ & Hl & Hf). destruct t as [|a [|b [|c t]]]; try discriminate.
      inversion Hf as [|? ? Ha Hf']; subst. inversion Hf' as [|? ? Hb _]; subst. eauto.
    - intros (a & b & -> & Ha & Hb). repeat split; auto.
      intros ->. destruct Ha.
  Qed.

  Lemma In_cp3 : forall items t,
    In t (cartesian_power 3 items) <->
    exists a b c, t = [a; b; c] /\ In a items /\ In b items /\ In c items.
  Proof.
    intros items t. rewrite cartesian_power_In. split.
    - intros (_ & Hl & Hf). destruct t as [|a [|b [|c [|d t]]]]; try discriminate.
      inversion Hf as [|? ? Ha Hf']; subst. inversion Hf' as [|? ? Hb Hf'']; subst.
      inversion Hf'' as [|? ? Hc _]; subst. exists a, b, c. auto.
    - intros (a & b & c & -> & Ha & Hb & Hc). repeat split; auto.
      intros ->. destruct Ha.
  Qed.
End Power.

Lemma cartesian_power_run_full : forall (A : Type) (n : nat) (items : list A),
  cartesian_power n items = cp_spec n items /\
  exists fin,
    cp_trace (cp_fuel n items) (cp_init n items)
    = Some (cartesian_power n items, count_down (length (cartesian_power n items)), fin) /\
    cp_next fin = CpDone /\ cp_size_hint fin = 0.
Proof. intros. split; [apply cartesian_power_spec|apply cartesian_power_run]. Qed.
