(* E3 Algebra engine -- every law checker returns Ok exactly when its law holds on the
   carrier list (soundness and completeness), for every carrier type, equality test, item
   list and operations; composites are conjunctions; the brute-force deciders of Model.LawsB
   decide the same Prop-level laws. *)
From Coq Require Import List Bool NArith Arith Lia.
From HV Require Import Algebra.Model Algebra.PBasic Algebra.PPower.
Import ListNotations.

(* ------------------------------------------------------------------ the laws (Prop level).
   `x == y` is the carrier's own equality test `eqb x y = true` (Rust PartialEq); for a test
   that reflects Leibniz equality see section Reflect below. *)
Section Laws.
  Context {A : Type} (eqb : A -> A -> bool).
  Local Notation "x == y" := (eqb x y = true) (at level 70).
  Implicit Types (items : list A) (f g : A -> A -> A).

  Definition Assoc items f := forall a b c, In a items -> In b items -> In c items ->
    f a (f b c) == f (f a b) c.
  Definition Comm items f := forall x y, In x items -> In y items -> f x y == f y x.
  Definition Idem items f := forall x, In x items -> f x x == x.
  Definition Identity items f e := forall a, In a items -> f e a == a /\ f a e == a.
  Definition Inverse items f e b := forall a, In a items -> f a (b a) == e /\ f (b a) a == e.
  Definition NzInverse items f e zero b := forall a, In a items -> eqb a zero = false ->
    f a (b a) == e /\ f (b a) a == e.
  Definition Absorbing items f z := forall a, In a items -> f a z == z /\ f z a == z.
  Definition LDist items f g := forall a b c, In a items -> In b items -> In c items ->
    g a (f b c) == f (g a b) (g a c).
  Definition RDist items f g := forall a b c, In a items -> In b items -> In c items ->
    g (f b c) a == f (g b a) (g c a).
  Definition Dist items f g := LDist items f g /\ RDist items f g.
  Definition NoZeroDiv items f zero := forall a b, In a items -> In b items ->
    eqb a zero = false -> eqb b zero = false -> eqb (f a b) zero = false.

  Definition Semigroup items f := Assoc items f.
  Definition Monoid items f e := Assoc items f /\ Identity items f e.
  Definition CMonoid items f e := Monoid items f e /\ Comm items f.
  Definition Group items f e b := Monoid items f e /\ Inverse items f e b.
  Definition AbGroup items f e b := Group items f e b /\ Comm items f.
  Definition Semiring items f g zero one :=
    CMonoid items f zero /\ Monoid items g one /\ Absorbing items g zero /\ Dist items f g.
  Definition Ring items f g zero one b := Semiring items f g zero one /\ Inverse items f zero b.
  Definition CRing items f g zero one b := Ring items f g zero one b /\ Comm items g.
  Definition IntegralDomain items f g zero one b :=
    CRing items f g zero one b /\ NoZeroDiv items g zero.
  Definition Field items f g zero one b b2 :=
    CRing items f g zero one b /\ NzInverse items g one zero b2.

  (* ---------------------------------------------------------------- loops *)
  Lemma all1_spec : forall items p, all1 items p = true <-> forall a, In a items -> p a = true.
  Proof. intros. unfold all1. apply forallb_forall. Qed.

  Lemma all2_spec : forall items p,
    all2 items p = true <-> forall a b, In a items -> In b items -> p a b = true.
  Proof.
    intros. unfold all2. rewrite forallb_forall. split.
    - intros H a b Ha Hb. specialize (H a Ha). rewrite forallb_forall in H. auto.
    - intros H a Ha. apply forallb_forall. auto.
  Qed.

  Lemma all3_spec : forall items p,
    all3 items p = true <->
    forall a b c, In a items -> In b items -> In c items -> p a b c = true.
  Proof.
    intros. unfold all3. rewrite forallb_forall. split.
    - intros H a b c Ha Hb Hc. specialize (H a Ha). rewrite forallb_forall in H.
      specialize (H b Hb). rewrite forallb_forall in H. auto.
    - intros H a Ha. apply forallb_forall. intros b Hb. apply forallb_forall. auto.
  Qed.

  Lemma loop3_ok : forall items (p : A -> A -> A -> bool) e,
    first_err (cartesian_power 3 items)
      (fun t => match t with [a; b; c] => check (p a b c) e | _ => Ok end) = Ok <->
    forall a b c, In a items -> In b items -> In c items -> p a b c = true.
  Proof.
    intros. rewrite first_err_ok. split.
    - intros H a b c Ha Hb Hc. specialize (H [a; b; c]). rewrite In_cp3 in H.
      apply check_ok with (e := e). apply H. exists a, b, c. auto.
    - intros H t Ht. apply In_cp3 in Ht. destruct Ht as (a & b & c & -> & Ha & Hb & Hc).
      apply check_ok. auto.
  Qed.

  Lemma loop2_ok : forall {X} (items : list X) (body : X -> X -> res),
    first_err (cartesian_power 2 items)
      (fun t => match t with [a; b] => body a b | _ => Ok end) = Ok <->
    forall a b, In a items -> In b items -> body a b = Ok.
  Proof.
    intros. rewrite first_err_ok. split.
    - intros H a b Ha Hb. specialize (H [a; b]). rewrite In_cp2 in H.
      apply H. exists a, b. auto.
    - intros H t Ht. apply In_cp2 in Ht. destruct Ht as (a & b & -> & Ha & Hb). auto.
  Qed.

  Lemma loop1_pair_ok : forall items (p q : A -> bool) e1 e2,
    first_err items (fun a => check (p a) e1 ;; check (q a) e2) = Ok <->
    forall a, In a items -> p a = true /\ q a = true.
  Proof.
    intros. rewrite first_err_ok. split; intros H a Ha; specialize (H a Ha).
    - apply and_then_ok in H. destruct H as [H1 H2]. apply check_ok in H1, H2. auto.
    - apply and_then_ok. split; apply check_ok; tauto.
  Qed.

  (* ---------------------------------------------------------------- base checkers *)
  Theorem associativity_ok : forall items f, associativity eqb items f = Ok <-> Assoc items f.
  Proof. intros. unfold associativity. apply loop3_ok. Qed.

  Theorem left_distributes_ok : forall items f g, left_distributes eqb items f g = Ok <-> LDist items f g.
  Proof. intros. unfold left_distributes. apply loop3_ok. Qed.

  Theorem right_distributes_ok : forall items f g, right_distributes eqb items f g = Ok <-> RDist items f g.
  Proof. intros. unfold right_distributes. apply loop3_ok. Qed.

  Theorem commutativity_ok : forall items f, commutativity eqb items f = Ok <-> Comm items f.
  Proof.
    intros. unfold commutativity, Comm.
    rewrite (loop2_ok items (fun x y => check (eqb (f x y) (f y x)) EComm)).
    split; intros H x y Hx Hy; specialize (H x y Hx Hy); now apply check_ok in H || apply check_ok.
  Qed.

  Theorem idempotency_ok : forall items f, idempotency eqb items f = Ok <-> Idem items f.
  Proof.
    intros. unfold idempotency, Idem. rewrite first_err_ok.
    split; intros H x Hx; specialize (H x Hx); now apply check_ok in H || apply check_ok.
  Qed.

  Theorem identity_ok : forall items f e, identity eqb items f e = Ok <-> Identity items f e.
  Proof. intros. unfold identity. apply loop1_pair_ok. Qed.

  Theorem inverse_ok : forall items f e b, inverse eqb items f e b = Ok <-> Inverse items f e b.
  Proof. intros. unfold inverse. apply loop1_pair_ok. Qed.

  Theorem absorbing_element_ok : forall items f z,
    absorbing_element eqb items f z = Ok <-> Absorbing items f z.
  Proof. intros. unfold absorbing_element. apply loop1_pair_ok. Qed.

  Theorem nonzero_inverse_ok : forall items f e zero b,
    nonzero_inverse eqb items f e zero b = Ok <-> NzInverse items f e zero b.
  Proof.
    intros. unfold nonzero_inverse, NzInverse. rewrite first_err_ok.
    split; intros H a Ha.
    - intros Hz. specialize (H a Ha). rewrite Hz in H. simpl in H.
      apply and_then_ok in H. destruct H as [H1 H2]. apply check_ok in H1, H2. auto.
    - specialize (H a Ha). destruct (eqb a zero) eqn:Ez; simpl; [reflexivity|].
      destruct (H eq_refl). apply and_then_ok. split; apply check_ok; assumption.
  Qed.

  Theorem no_nonzero_zero_divisors_ok : forall items f zero,
    no_nonzero_zero_divisors eqb items f zero = Ok <-> NoZeroDiv items f zero.
  Proof.
    intros. unfold no_nonzero_zero_divisors, NoZeroDiv. rewrite first_err_ok. split.
    - intros H a b Ha Hb Za Zb. specialize (H a Ha). rewrite first_err_ok in H.
      specialize (H b Hb). rewrite Za, Zb in H. simpl in H.
      apply and_then_ok in H. destruct H as [H1 _]. apply check_ok in H1.
      now apply negb_true_iff in H1.
    - intros H a Ha. apply first_err_ok. intros b Hb.
      destruct (eqb a zero) eqn:Za; simpl; [reflexivity|].
      destruct (eqb b zero) eqn:Zb; simpl; [reflexivity|].
      apply and_then_ok. split; apply check_ok; apply negb_true_iff; auto.
  Qed.

  (* ---------------------------------------------------------------- composites *)
  Theorem distributive_ok : forall items f g, distributive eqb items f g = Ok <-> Dist items f g.
  Proof.
    intros. unfold distributive, Dist.
    now rewrite and_then_ok, left_distributes_ok, right_distributes_ok.
  Qed.

  Theorem semigroup_ok : forall items f, semigroup eqb items f = Ok <-> Semigroup items f.
  Proof. intros. apply associativity_ok. Qed.

  Theorem monoid_ok : forall items f e, monoid eqb items f e = Ok <-> Monoid items f e.
  Proof. intros. unfold monoid, Monoid. now rewrite and_then_ok, semigroup_ok, identity_ok. Qed.

  Theorem commutative_monoid_ok : forall items f e,
    commutative_monoid eqb items f e = Ok <-> CMonoid items f e.
  Proof.
    intros. unfold commutative_monoid, CMonoid. now rewrite and_then_ok, monoid_ok, commutativity_ok.
  Qed.

  Theorem group_ok : forall items f e b, group eqb items f e b = Ok <-> Group items f e b.
  Proof. intros. unfold group, Group. now rewrite and_then_ok, monoid_ok, inverse_ok. Qed.

  Theorem abelian_group_ok : forall items f e b,
    abelian_group eqb items f e b = Ok <-> AbGroup items f e b.
  Proof.
    intros. unfold abelian_group, AbGroup. now rewrite and_then_ok, group_ok, commutativity_ok.
  Qed.

  Theorem semiring_ok : forall items f g zero one,
    semiring eqb items f g zero one = Ok <-> Semiring items f g zero one.
  Proof.
    intros. unfold semiring, Semiring.
    now rewrite !and_then_ok, commutative_monoid_ok, monoid_ok, absorbing_element_ok, distributive_ok.
  Qed.

  Theorem ring_ok : forall items f g zero one b,
    ring eqb items f g zero one b = Ok <-> Ring items f g zero one b.
  Proof. intros. unfold ring, Ring. now rewrite and_then_ok, semiring_ok, inverse_ok. Qed.

  Theorem commutative_ring_ok : forall items f g zero one b,
    commutative_ring eqb items f g zero one b = Ok <-> CRing items f g zero one b.
  Proof.
    intros. unfold commutative_ring, CRing, Ring.
    rewrite !and_then_ok, semiring_ok, inverse_ok, commutativity_ok. tauto.
  Qed.

  Theorem integral_domain_ok : forall items f g zero one b,
    integral_domain eqb items f g zero one b = Ok <-> IntegralDomain items f g zero one b.
  Proof.
    intros. unfold integral_domain, IntegralDomain.
    now rewrite and_then_ok, commutative_ring_ok, no_nonzero_zero_divisors_ok.
  Qed.

  Theorem field_ok : forall items f g zero one b b2,
    field eqb items f g zero one b b2 = Ok <-> Field items f g zero one b b2.
  Proof.
    intros. unfold field, Field. now rewrite and_then_ok, commutative_ring_ok, nonzero_inverse_ok.
  Qed.

  (* ---------------------------------------------------------------- get_single_function_properties *)
  Lemma in_opt_tag : forall (c : bool) (t u : ptag), In u (if c then [t] else []) <-> c = true /\ u = t.
  Proof.
    intros [] t u; simpl; split.
    - intros [H|[]]; auto.
    - intros [_ ->]; auto.
    - intros [].
    - intros [H _]; discriminate.
  Qed.

  Theorem single_function_properties_spec : forall items f e b z,
    let l := get_single_function_properties eqb items f e b z in
    (In PAssoc l <-> Assoc items f) /\ (In PComm l <-> Comm items f) /\
    (In PIdem l <-> Idem items f) /\ (In PIdentity l <-> Identity items f e) /\
    (In PInverse l <-> Inverse items f e b) /\ (In PAbsorbing l <-> Absorbing items f z) /\
    ~ In POther l.
  Proof.
    intros. subst l. unfold get_single_function_properties.
    rewrite <- associativity_ok, <- commutativity_ok, <- idempotency_ok, <- identity_ok,
            <- inverse_ok, <- absorbing_element_ok.
    rewrite <- !is_ok_true.
    destruct (is_ok (associativity eqb items f)), (is_ok (commutativity eqb items f)),
             (is_ok (idempotency eqb items f)), (is_ok (identity eqb items f e)),
             (is_ok (inverse eqb items f e b)), (is_ok (absorbing_element eqb items f z));
      simpl; intuition (discriminate || congruence).
  Qed.

  (* ---------------------------------------------------------------- brute-force deciders *)
  Ltac b2p := rewrite ?andb_true_iff, ?orb_true_iff, ?negb_true_iff.

  Theorem assoc_b_spec : forall items f, assoc_b eqb items f = true <-> Assoc items f.
  Proof. intros. apply all3_spec. Qed.
  Theorem ldist_b_spec : forall items f g, ldist_b eqb items f g = true <-> LDist items f g.
  Proof. intros. apply all3_spec. Qed.
  Theorem rdist_b_spec : forall items f g, rdist_b eqb items f g = true <-> RDist items f g.
  Proof. intros. apply all3_spec. Qed.
  Theorem comm_b_spec : forall items f, comm_b eqb items f = true <-> Comm items f.
  Proof. intros. apply all2_spec. Qed.
  Theorem idem_b_spec : forall items f, idem_b eqb items f = true <-> Idem items f.
  Proof. intros. apply all1_spec. Qed.

  Lemma all1_pair : forall items (p q : A -> bool),
    all1 items (fun a => p a && q a) = true <-> forall a, In a items -> p a = true /\ q a = true.
  Proof.
    intros. rewrite all1_spec. split; intros H a Ha; specialize (H a Ha);
      [now apply andb_true_iff in H|now apply andb_true_iff].
  Qed.

  Theorem ident_b_spec : forall items f e, ident_b eqb items f e = true <-> Identity items f e.
  Proof. intros. apply all1_pair. Qed.
  Theorem inv_b_spec : forall items f e b, inv_b eqb items f e b = true <-> Inverse items f e b.
  Proof. intros. apply all1_pair. Qed.
  Theorem absorb_b_spec : forall items f z, absorb_b eqb items f z = true <-> Absorbing items f z.
  Proof. intros. apply all1_pair. Qed.

  Theorem nzinv_b_spec : forall items f e zero b,
    nzinv_b eqb items f e zero b = true <-> NzInverse items f e zero b.
  Proof.
    intros. unfold nzinv_b, NzInverse. rewrite all1_spec. split; intros H a Ha.
    - intros Hz. specialize (H a Ha). rewrite Hz in H. simpl in H. now apply andb_true_iff in H.
    - specialize (H a Ha). destruct (eqb a zero); simpl; [reflexivity|].
      apply andb_true_iff. auto.
  Qed.

  Theorem nzd_b_spec : forall items f zero, nzd_b eqb items f zero = true <-> NoZeroDiv items f zero.
  Proof.
    intros. unfold nzd_b, NoZeroDiv. rewrite all2_spec. split; intros H a b Ha Hb.
    - intros Za Zb. specialize (H a b Ha Hb). rewrite Za, Zb in H. simpl in H.
      now apply negb_true_iff in H.
    - specialize (H a b Ha Hb). destruct (eqb a zero); simpl; [reflexivity|].
      destruct (eqb b zero); simpl; [reflexivity|]. apply negb_true_iff. auto.
  Qed.

  Theorem dist_b_spec : forall items f g, dist_b eqb items f g = true <-> Dist items f g.
  Proof. intros. unfold dist_b, Dist. now rewrite andb_true_iff, ldist_b_spec, rdist_b_spec. Qed.
  Theorem monoid_b_spec : forall items f e, monoid_b eqb items f e = true <-> Monoid items f e.
  Proof. intros. unfold monoid_b, Monoid. now rewrite andb_true_iff, assoc_b_spec, ident_b_spec. Qed.
  Theorem cmonoid_b_spec : forall items f e, cmonoid_b eqb items f e = true <-> CMonoid items f e.
  Proof. intros. unfold cmonoid_b, CMonoid. now rewrite andb_true_iff, monoid_b_spec, comm_b_spec. Qed.
  Theorem group_b_spec : forall items f e b, group_b eqb items f e b = true <-> Group items f e b.
  Proof. intros. unfold group_b, Group. now rewrite andb_true_iff, monoid_b_spec, inv_b_spec. Qed.
  Theorem abgroup_b_spec : forall items f e b, abgroup_b eqb items f e b = true <-> AbGroup items f e b.
  Proof. intros. unfold abgroup_b, AbGroup. now rewrite andb_true_iff, group_b_spec, comm_b_spec. Qed.
  Theorem semiring_b_spec : forall items f g zero one,
    semiring_b eqb items f g zero one = true <-> Semiring items f g zero one.
  Proof.
    intros. unfold semiring_b, Semiring.
    rewrite !andb_true_iff, cmonoid_b_spec, monoid_b_spec, absorb_b_spec, dist_b_spec. tauto.
  Qed.
  Theorem ring_b_spec : forall items f g zero one b,
    ring_b eqb items f g zero one b = true <-> Ring items f g zero one b.
  Proof. intros. unfold ring_b, Ring. now rewrite andb_true_iff, semiring_b_spec, inv_b_spec. Qed.
  Theorem cring_b_spec : forall items f g zero one b,
    cring_b eqb items f g zero one b = true <-> CRing items f g zero one b.
  Proof. intros. unfold cring_b, CRing. now rewrite andb_true_iff, ring_b_spec, comm_b_spec. Qed.
  Theorem idom_b_spec : forall items f g zero one b,
    idom_b eqb items f g zero one b = true <-> IntegralDomain items f g zero one b.
  Proof. intros. unfold idom_b, IntegralDomain. now rewrite andb_true_iff, cring_b_spec, nzd_b_spec. Qed.
  Theorem field_b_spec : forall items f g zero one b b2,
    field_b eqb items f g zero one b b2 = true <-> Field items f g zero one b b2.
  Proof. intros. unfold field_b, Field. now rewrite andb_true_iff, cring_b_spec, nzinv_b_spec. Qed.
End Laws.

(* ------------------------------------------------------------------ linearity / bilinearity *)
Section LinearLaws.
  Context {S R T : Type} (eqbR : R -> R -> bool).
  Local Notation "x == y" := (eqbR x y = true) (at level 70).

  (* the documented law: q is a homomorphism (S,f) -> (R,g) *)
  Definition Linear (items : list S) (f : S -> S -> S) (g : R -> R -> R) (q : S -> R) :=
    forall a b, In a items -> In b items -> q (f a b) == g (q a) (q b).
  Definition Bilinear (items_f : list S) (items_h : list T) (f : S -> S -> S) (h : T -> T -> T)
             (g : R -> R -> R) (q : S -> T -> R) :=
    (forall a b c, In a items_f -> In b items_f -> In c items_h ->
                   q (f a b) c == g (q a c) (q b c)) /\
    (forall a c d, In a items_f -> In c items_h -> In d items_h ->
                   q a (h c d) == g (q a c) (q a d)).

  Theorem linearity_ok : forall items f g q,
    linearity eqbR items f g q = Ok <-> Linear items f g q.
  Proof.
    intros. unfold linearity, Linear.
    rewrite (loop2_ok items (fun a b => check (eqbR (q (f a b)) (g (q a) (q b))) ELinearity)).
    split; intros H a b Ha Hb; specialize (H a b Ha Hb); now apply check_ok in H || apply check_ok.
  Qed.

  Theorem linear_b_spec : forall items f g q, linear_b eqbR items f g q = true <-> Linear items f g q.
  Proof. intros. apply all2_spec. Qed.

  Theorem bilinearity_ok : forall items_f items_h f h g q,
    bilinearity eqbR items_f items_h f h g q = Ok <-> Bilinear items_f items_h f h g q.
  Proof.
    intros. unfold bilinearity, Bilinear.
    rewrite (loop2_ok items_f (fun a b =>
      first_err (cartesian_power 2 items_h) (fun u =>
        match u with
        | [c; d] => check (eqbR (q (f a b) c) (g (q a c) (q b c)) &&
                           eqbR (q a (h c d)) (g (q a c) (q a d))) EBilinearity
        | _ => Ok end))).
    split.
    - intros H. split.
      + intros a b c Ha Hb Hc. specialize (H a b Ha Hb).
        rewrite (loop2_ok items_h (fun c d => check (eqbR (q (f a b) c) (g (q a c) (q b c)) &&
                           eqbR (q a (h c d)) (g (q a c) (q a d))) EBilinearity)) in H.
        specialize (H c c Hc Hc). apply check_ok, andb_true_iff in H. tauto.
      + intros a c d Ha Hc Hd. specialize (H a a Ha Ha).
        rewrite (loop2_ok items_h (fun c d => check (eqbR (q (f a a) c) (g (q a c) (q a c)) &&
                           eqbR (q a (h c d)) (g (q a c) (q a d))) EBilinearity)) in H.
        specialize (H c d Hc Hd). apply check_ok, andb_true_iff in H. tauto.
    - intros [H1 H2] a b Ha Hb.
      rewrite (loop2_ok items_h (fun c d => check (eqbR (q (f a b) c) (g (q a c) (q b c)) &&
                           eqbR (q a (h c d)) (g (q a c) (q a d))) EBilinearity)).
      intros c d Hc Hd. apply check_ok, andb_true_iff. split; auto.
  Qed.

  Theorem bilinear_b_spec : forall items_f items_h f h g q,
    bilinear_b eqbR items_f items_h f h g q = true <-> Bilinear items_f items_h f h g q.
  Proof.
    intros. unfold bilinear_b, Bilinear. rewrite andb_true_iff, all2_spec, forallb_forall.
    split; intros [H1 H2]; split.
    - intros a b c Ha Hb Hc. specialize (H1 a b Ha Hb). rewrite forallb_forall in H1. auto.
    - intros a c d Ha Hc Hd. specialize (H2 a Ha). rewrite all2_spec in H2. auto.
    - intros a b Ha Hb. apply forallb_forall. auto.
    - intros a Ha. apply all2_spec. auto.
  Qed.
End LinearLaws.

(* Former finding (fixed in /repo commit 2405c2befba): `linearity` compared q(f a b) with
   g (q b) (q a).  Witnesses on items [0;1;2], q = id: f = g = left projection was rejected
   (Err ELinearity) although q is linear; f = left, g = right projection was accepted although
   q (f 0 1) = 0 <> g (q 0) (q 1) = 1.  Both tables stay in corpus/C09/linearity_swapped.json;
   the examples below pin the repaired behaviour on them. *)
Definition lproj (a b : N) : N := a.
Definition rproj (a b : N) : N := b.

Example linearity_former_false_rejection :
  linearity N.eqb [0; 1; 2]%N lproj lproj (fun x => x) = Ok.
Proof. vm_compute. reflexivity. Qed.

Example linearity_former_false_acceptance :
  linearity N.eqb [0; 1; 2]%N lproj rproj (fun x => x) = Err ELinearity.
Proof. vm_compute. reflexivity. Qed.

(* ------------------------------------------------------------------ equality tests that
   reflect Leibniz equality (u8, u32, bool, ...): the laws read with `=` *)
Section Reflect.
  Context {A : Type} (eqb : A -> A -> bool).
  Hypothesis eqb_eq : forall x y, eqb x y = true <-> x = y.

  Theorem associativity_ok_eq : forall items f,
    associativity eqb items f = Ok <->
    forall a b c, In a items -> In b items -> In c items -> f a (f b c) = f (f a b) c.
  Proof.
    intros. rewrite associativity_ok. unfold Assoc.
    split; intros H a b c Ha Hb Hc; apply eqb_eq; auto.
  Qed.

  Theorem commutativity_ok_eq : forall items f,
    commutativity eqb items f = Ok <-> forall x y, In x items -> In y items -> f x y = f y x.
  Proof.
    intros. rewrite commutativity_ok. unfold Comm. split; intros H x y Hx Hy; apply eqb_eq; auto.
  Qed.

  Theorem idempotency_ok_eq : forall items f,
    idempotency eqb items f = Ok <-> forall x, In x items -> f x x = x.
  Proof.
    intros. rewrite idempotency_ok. unfold Idem. split; intros H x Hx; apply eqb_eq; auto.
  Qed.

  Theorem identity_ok_eq : forall items f e,
    identity eqb items f e = Ok <-> forall a, In a items -> f e a = a /\ f a e = a.
  Proof.
    intros. rewrite identity_ok. unfold Identity.
    split; intros H a Ha; destruct (H a Ha); split; apply eqb_eq; auto.
  Qed.

  Theorem inverse_ok_eq : forall items f e b,
    inverse eqb items f e b = Ok <-> forall a, In a items -> f a (b a) = e /\ f (b a) a = e.
  Proof.
    intros. rewrite inverse_ok. unfold Inverse.
    split; intros H a Ha; destruct (H a Ha); split; apply eqb_eq; auto.
  Qed.

  Theorem absorbing_element_ok_eq : forall items f z,
    absorbing_element eqb items f z = Ok <-> forall a, In a items -> f a z = z /\ f z a = z.
  Proof.
    intros. rewrite absorbing_element_ok. unfold Absorbing.
    split; intros H a Ha; destruct (H a Ha); split; apply eqb_eq; auto.
  Qed.

  Theorem distributive_ok_eq : forall items f g,
    distributive eqb items f g = Ok <->
    (forall a b c, In a items -> In b items -> In c items -> g a (f b c) = f (g a b) (g a c)) /\
    (forall a b c, In a items -> In b items -> In c items -> g (f b c) a = f (g b a) (g c a)).
  Proof.
    intros. rewrite distributive_ok. unfold Dist, LDist, RDist.
    split; intros [H1 H2]; split; intros a b c Ha Hb Hc; apply eqb_eq; auto.
  Qed.

  Lemma neq_false : forall x y, eqb x y = false <-> x <> y.
  Proof.
    intros. split.
    - intros H E. apply eqb_eq in E. congruence.
    - intros H. destruct (eqb x y) eqn:E; [|reflexivity]. apply eqb_eq in E. contradiction.
  Qed.

  Theorem no_nonzero_zero_divisors_ok_eq : forall items f zero,
    no_nonzero_zero_divisors eqb items f zero = Ok <->
    forall a b, In a items -> In b items -> a <> zero -> b <> zero -> f a b <> zero.
  Proof.
    intros. rewrite no_nonzero_zero_divisors_ok. unfold NoZeroDiv.
    split; intros H a b Ha Hb Za Zb; apply neq_false; apply H; auto; apply neq_false; auto.
  Qed.

  Theorem nonzero_inverse_ok_eq : forall items f e zero b,
    nonzero_inverse eqb items f e zero b = Ok <->
    forall a, In a items -> a <> zero -> f a (b a) = e /\ f (b a) a = e.
  Proof.
    intros. rewrite nonzero_inverse_ok. unfold NzInverse. split; intros H a Ha Hz.
    - destruct (H a Ha); [apply neq_false; auto|]. split; apply eqb_eq; auto.
    - destruct (H a Ha); [apply neq_false; auto|]. split; apply eqb_eq; auto.
  Qed.
End Reflect.

(* ------------------------------------------------------------------ bundles *)
Section Bundles.
  Context {A : Type} (eqb : A -> A -> bool).

  Lemma composites_ok : forall items f g zero one b b2,
    (distributive eqb items f g = Ok <-> LDist eqb items f g /\ RDist eqb items f g) /\
    (semigroup eqb items f = Ok <-> Assoc eqb items f) /\
    (monoid eqb items f zero = Ok <-> Assoc eqb items f /\ Identity eqb items f zero) /\
    (commutative_monoid eqb items f zero = Ok <->
       (Assoc eqb items f /\ Identity eqb items f zero) /\ Comm eqb items f) /\
    (group eqb items f zero b = Ok <->
       (Assoc eqb items f /\ Identity eqb items f zero) /\ Inverse eqb items f zero b) /\
    (abelian_group eqb items f zero b = Ok <->
       ((Assoc eqb items f /\ Identity eqb items f zero) /\ Inverse eqb items f zero b) /\
       Comm eqb items f) /\
    (semiring eqb items f g zero one = Ok <->
       CMonoid eqb items f zero /\ Monoid eqb items g one /\ Absorbing eqb items g zero /\
       Dist eqb items f g) /\
    (ring eqb items f g zero one b = Ok <->
       Semiring eqb items f g zero one /\ Inverse eqb items f zero b) /\
    (commutative_ring eqb items f g zero one b = Ok <->
       (Semiring eqb items f g zero one /\ Inverse eqb items f zero b) /\ Comm eqb items g) /\
    (integral_domain eqb items f g zero one b = Ok <->
       CRing eqb items f g zero one b /\ NoZeroDiv eqb items g zero) /\
    (field eqb items f g zero one b b2 = Ok <->
       CRing eqb items f g zero one b /\ NzInverse eqb items g one zero b2).
  Proof.
    intros.
    split; [exact (distributive_ok eqb items f g)|].
    split; [exact (semigroup_ok eqb items f)|].
    split; [exact (monoid_ok eqb items f zero)|].
    split; [exact (commutative_monoid_ok eqb items f zero)|].
    split; [exact (group_ok eqb items f zero b)|].
    split; [exact (abelian_group_ok eqb items f zero b)|].
    split; [exact (semiring_ok eqb items f g zero one)|].
    split; [exact (ring_ok eqb items f g zero one b)|].
    split; [exact (commutative_ring_ok eqb items f g zero one b)|].
    split; [exact (integral_domain_ok eqb items f g zero one b)|].
    exact (field_ok eqb items f g zero one b b2).
  Qed.
End Bundles.

Lemma deciders_spec : forall (A : Type) (eqb : A -> A -> bool) items f g zero one b b2,
  (assoc_b eqb items f = true <-> Assoc eqb items f) /\
  (comm_b eqb items f = true <-> Comm eqb items f) /\
  (idem_b eqb items f = true <-> Idem eqb items f) /\
  (ident_b eqb items f zero = true <-> Identity eqb items f zero) /\
  (inv_b eqb items f zero b = true <-> Inverse eqb items f zero b) /\
  (nzinv_b eqb items g one zero b2 = true <-> NzInverse eqb items g one zero b2) /\
  (absorb_b eqb items g zero = true <-> Absorbing eqb items g zero) /\
  (dist_b eqb items f g = true <-> Dist eqb items f g) /\
  (nzd_b eqb items g zero = true <-> NoZeroDiv eqb items g zero) /\
  (semiring_b eqb items f g zero one = true <-> Semiring eqb items f g zero one) /\
  (field_b eqb items f g zero one b b2 = true <-> Field eqb items f g zero one b b2).
Proof.
  intros.
  split; [apply assoc_b_spec|]. split; [apply comm_b_spec|]. split; [apply idem_b_spec|].
  split; [apply ident_b_spec|]. split; [apply inv_b_spec|]. split; [apply nzinv_b_spec|].
  split; [apply absorb_b_spec|]. split; [apply dist_b_spec|]. split; [apply nzd_b_spec|].
  split; [apply semiring_b_spec|]. apply field_b_spec.
Qed.

