(* E3 Algebra engine -- FuzzyLogic ([0,1], max, min, 0, 1) satisfies the semiring laws for
   ALL binary64 values accepted by `FuzzyLogic::new`, up to IEEE equality (`==`, Rust's
   PartialEq for f64; +0.0 and -0.0 are identified by it).

   Part A: max/min defined from a strict weak order `lt` form a bounded distributive lattice
           up to the induced equivalence (decision procedure: rank the three elements).
   Part B: SpecFloat comparison restricted to the shapes a value in [0,1] can have (a zero,
           or a positive finite) is a strict weak order.
   Part C: transfer to primitive floats through the FloatAxioms specification of <?, <=?, =?
           (standard-library axioms ltb_spec, leb_spec, eqb_spec -- listed in the allow-list). *)
From Coq Require Import List Bool NArith ZArith Arith Lia Floats ZifyBool.
From HV Require Import Algebra.Model Algebra.PSemiring.
Import ListNotations.

(* ------------------------------------------------------------------ Part A *)
Section WeakOrder.
  Context {K : Type} (P : K -> Prop) (lt : K -> K -> bool).
  Hypothesis lt_irr : forall x, P x -> lt x x = false.
  Hypothesis lt_trans : forall x y z, P x -> P y -> P z ->
    lt x y = true -> lt y z = true -> lt x z = true.
  Hypothesis lt_ntrans : forall x y z, P x -> P y -> P z ->
    lt x y = false -> lt y z = false -> lt x z = false.

  Definition mx (a b : K) : K := if lt a b then b else a.     (* fmax *)
  Definition mn (a b : K) : K := if lt b a then b else a.     (* fmin *)
  Definition eqv (a b : K) : bool := negb (lt a b) && negb (lt b a).

  Lemma mx_P : forall a b, P a -> P b -> P (mx a b).
  Proof. intros. unfold mx. destruct (lt a b); auto. Qed.
  Lemma mn_P : forall a b, P a -> P b -> P (mn a b).
  Proof. intros. unfold mn. destruct (lt b a); auto. Qed.

  Definition b2n (b : bool) : nat := if b then 1 else 0.
  (* number of elements of {x,y,z} strictly below u *)
  Definition rank3 (x y z u : K) : nat := b2n (lt x u) + b2n (lt y u) + b2n (lt z u).

  Lemma rank3_spec : forall x y z, P x -> P y -> P z ->
    forall u v, (u = x \/ u = y \/ u = z) -> (v = x \/ v = y \/ v = z) ->
    lt u v = (rank3 x y z u <? rank3 x y z v).
  Proof.
    intros x y z Px Py Pz u v Hu Hv.
    pose proof (lt_irr x Px) as Ix. pose proof (lt_irr y Py) as Iy. pose proof (lt_irr z Pz) as Iz.
    pose proof (lt_trans x y z Px Py Pz) as T1. pose proof (lt_trans x z y Px Pz Py) as T2.
    pose proof (lt_trans y x z Py Px Pz) as T3. pose proof (lt_trans y z x Py Pz Px) as T4.
    pose proof (lt_trans z x y Pz Px Py) as T5. pose proof (lt_trans z y x Pz Py Px) as T6.
    pose proof (lt_trans x y x Px Py Px) as T7. pose proof (lt_trans x z x Px Pz Px) as T8.
    pose proof (lt_trans y z y Py Pz Py) as T9.
    pose proof (lt_ntrans x y z Px Py Pz) as N1. pose proof (lt_ntrans x z y Px Pz Py) as N2.
    pose proof (lt_ntrans y x z Py Px Pz) as N3. pose proof (lt_ntrans y z x Py Pz Px) as N4.
    pose proof (lt_ntrans z x y Pz Px Py) as N5. pose proof (lt_ntrans z y x Pz Py Px) as N6.
    unfold rank3.
    destruct Hu as [->|[->| ->]], Hv as [->|[->| ->]];
      rewrite ?Ix, ?Iy, ?Iz in *;
      destruct (lt x y), (lt y x), (lt x z), (lt z x), (lt y z), (lt z y);
      first [reflexivity | exfalso; intuition congruence].
  Qed.

  (* decide a lattice identity over three (not necessarily distinct) elements *)
  Ltac rank_solve a b c Pa Pb Pc :=
    pose proof (rank3_spec a b c Pa Pb Pc) as R;
    unfold eqv, mx, mn;
    repeat match goal with
           | |- context [lt ?u ?v] =>
               is_var u; is_var v;
               let E := fresh "E" in
               destruct (lt u v) eqn:E;
               rewrite (R u v) in E by tauto
           end;
    try reflexivity;
    repeat match goal with
           | |- context [lt ?u ?v] => rewrite (R u v) by tauto
           end;
    generalize dependent (rank3 a b c a); generalize dependent (rank3 a b c b);
    generalize dependent (rank3 a b c c); intros; lia.

  Section Laws3.
    Variables a b c : K.
    Hypotheses (Pa : P a) (Pb : P b) (Pc : P c).

    Lemma mx_comm : eqv (mx a b) (mx b a) = true.
    Proof. rank_solve a b c Pa Pb Pc. Qed.
    Lemma mx_assoc : eqv (mx (mx a b) c) (mx a (mx b c)) = true.
    Proof. rank_solve a b c Pa Pb Pc. Qed.
    Lemma mn_assoc : eqv (mn (mn a b) c) (mn a (mn b c)) = true.
    Proof. rank_solve a b c Pa Pb Pc. Qed.
    Lemma mn_mx_ldist : eqv (mn a (mx b c)) (mx (mn a b) (mn a c)) = true.
    Proof. rank_solve a b c Pa Pb Pc. Qed.
    Lemma mn_mx_rdist : eqv (mn (mx b c) a) (mx (mn b a) (mn c a)) = true.
    Proof. rank_solve a b c Pa Pb Pc. Qed.
  End Laws3.

  Section Bounds.
    Variables a o i : K.
    Hypotheses (Pa : P a) (Po : P o) (Pi : P i).
    Hypothesis o_least : lt a o = false.
    Hypothesis i_greatest : lt i a = false.

    Ltac bound_solve :=
      pose proof (rank3_spec a o i Pa Po Pi) as R;
      pose proof o_least as OL; pose proof i_greatest as IG;
      rewrite (R a o) in OL by tauto; rewrite (R i a) in IG by tauto;
      unfold eqv, mx, mn;
      repeat match goal with
             | |- context [lt ?u ?v] =>
                 is_var u; is_var v;
                 let E := fresh "E" in
                 destruct (lt u v) eqn:E;
                 rewrite (R u v) in E by tauto
             end;
      repeat match goal with
             | |- context [lt ?u ?v] => rewrite (R u v) by tauto
             end;
      generalize dependent (rank3 a o i a); generalize dependent (rank3 a o i o);
      generalize dependent (rank3 a o i i); intros; lia.

    Lemma mx_zero_r : eqv (mx a o) a = true.  Proof. bound_solve. Qed.
    Lemma mx_zero_l : eqv (mx o a) a = true.  Proof. bound_solve. Qed.
    Lemma mn_one_r : eqv (mn a i) a = true.   Proof. bound_solve. Qed.
    Lemma mn_one_l : eqv (mn i a) a = true.   Proof. bound_solve. Qed.
    Lemma mn_zero_r : eqv (mn a o) o = true.  Proof. bound_solve. Qed.
    Lemma mn_zero_l : eqv (mn o a) o = true.  Proof. bound_solve. Qed.
  End Bounds.
End WeakOrder.

(* ------------------------------------------------------------------ Part B *)
(* shapes of a binary64 value v with 0.0 <= v <= 1.0 *)
Definition Kshape (s : spec_float) : Prop :=
  match s with
  | S754_zero _ => True
  | S754_finite false _ _ => True
  | _ => False
  end.

Definition kc (x y : spec_float) : comparison :=
  match x, y with
  | S754_finite _ m1 e1, S754_finite _ m2 e2 =>
      match Z.compare e1 e2 with
      | Lt => Lt | Gt => Gt | Eq => Pos.compare m1 m2
      end
  | S754_finite _ _ _, _ => Gt
  | _, S754_finite _ _ _ => Lt
  | _, _ => Eq
  end.

Lemma SFcompare_K : forall x y, Kshape x -> Kshape y -> SFcompare x y = Some (kc x y).
Proof.
  intros [sx| | |[] mx ex] [sy| | |[] my ey] Hx Hy; simpl in Hx, Hy; try contradiction; reflexivity.
Qed.

Definition klt (x y : spec_float) : bool := match kc x y with Lt => true | _ => false end.

Lemma SFltb_K : forall x y, Kshape x -> Kshape y -> SFltb x y = klt x y.
Proof. intros. unfold SFltb, klt. now rewrite SFcompare_K. Qed.

Lemma kc_antisym : forall x y, kc y x = CompOpp (kc x y).
Proof.
  intros [sx| | |sx mx ex] [sy| | |sy my ey]; simpl; auto.
  rewrite (Z.compare_antisym ex ey). destruct (Z.compare ex ey); simpl; auto.
  apply Pos.compare_antisym.
Qed.

Lemma klt_irr : forall x, Kshape x -> klt x x = false.
Proof.
  intros [sx| | |sx mx ex] _; unfold klt; simpl; auto.
  now rewrite Z.compare_refl, Pos.compare_refl.
Qed.

Ltac cmp_cases :=
  repeat match goal with
         | |- context [Z.compare ?a ?b] => destruct (Z.compare_spec a b)
         | H : context [Z.compare ?a ?b] |- _ => destruct (Z.compare_spec a b)
         | |- context [Pos.compare ?a ?b] => destruct (Pos.compare_spec a b)
         | H : context [Pos.compare ?a ?b] |- _ => destruct (Pos.compare_spec a b)
         end.

Lemma klt_trans : forall x y z, Kshape x -> Kshape y -> Kshape z ->
  klt x y = true -> klt y z = true -> klt x z = true.
Proof.
  intros [sx| | |sx mx ex] [sy| | |sy my ey] [sz| | |sz mz ez] _ _ _; unfold klt; cbn [kc];
    try discriminate; try reflexivity.
  cmp_cases; subst; try discriminate; try reflexivity; intros; lia.
Qed.

Lemma klt_ntrans : forall x y z, Kshape x -> Kshape y -> Kshape z ->
  klt x y = false -> klt y z = false -> klt x z = false.
Proof.
  intros [sx| | |sx mx ex] [sy| | |sy my ey] [sz| | |sz mz ez] _ _ _; unfold klt; cbn [kc];
    try discriminate; try reflexivity.
  cmp_cases; subst; try discriminate; try reflexivity; intros; lia.
Qed.

(* ------------------------------------------------------------------ Part C *)
Definition P01 (x : float) : Prop := in01 x = true.

Lemma P01_K : forall x, P01 x -> Kshape (Prim2SF x).
Proof.
  intros x H. unfold P01, in01 in H. apply andb_true_iff in H. destruct H as [H0 H1].
  rewrite leb_spec in H0, H1. unfold SFleb in H0, H1.
  change (Prim2SF 0) with (S754_zero false) in H0.
  assert (E1 : Prim2SF 1 = S754_finite false 4503599627370496 (-52)) by (vm_compute; reflexivity).
  rewrite E1 in H1.
  clear E1.
  destruct (Prim2SF x) as [s| [] | |[] m e]; cbn [SFcompare] in H0, H1; try discriminate; exact I.
Qed.

Lemma ltb_K : forall x y, P01 x -> P01 y -> PrimFloat.ltb x y = klt (Prim2SF x) (Prim2SF y).
Proof. intros. rewrite ltb_spec. apply SFltb_K; now apply P01_K. Qed.

Lemma f_irr : forall x, P01 x -> PrimFloat.ltb x x = false.
Proof. intros. rewrite ltb_K by assumption. apply klt_irr. now apply P01_K. Qed.

Lemma f_trans : forall x y z, P01 x -> P01 y -> P01 z ->
  PrimFloat.ltb x y = true -> PrimFloat.ltb y z = true -> PrimFloat.ltb x z = true.
Proof. intros x y z Hx Hy Hz. rewrite !ltb_K by assumption. apply klt_trans; now apply P01_K. Qed.

Lemma f_ntrans : forall x y z, P01 x -> P01 y -> P01 z ->
  PrimFloat.ltb x y = false -> PrimFloat.ltb y z = false -> PrimFloat.ltb x z = false.
Proof. intros x y z Hx Hy Hz. rewrite !ltb_K by assumption. apply klt_ntrans; now apply P01_K. Qed.

Lemma P01_zero : P01 0%float.  Proof. vm_compute. reflexivity. Qed.
Lemma P01_one : P01 1%float.   Proof. vm_compute. reflexivity. Qed.

(* x <= y gives not (y < x) on these shapes *)
Lemma leb_not_ltb : forall x y, P01 x -> P01 y -> PrimFloat.leb x y = true -> PrimFloat.ltb y x = false.
Proof.
  intros x y Hx Hy H. rewrite ltb_K by assumption. rewrite leb_spec in H.
  unfold SFleb in H. rewrite SFcompare_K in H by now apply P01_K.
  unfold klt. rewrite kc_antisym. destruct (kc (Prim2SF x) (Prim2SF y)); simpl; auto; discriminate.
Qed.

Lemma zero_least : forall x, P01 x -> PrimFloat.ltb x 0 = false.
Proof.
  intros x H. apply leb_not_ltb; auto using P01_zero.
  unfold P01, in01 in H. now apply andb_true_iff in H.
Qed.

Lemma one_greatest : forall x, P01 x -> PrimFloat.ltb 1 x = false.
Proof.
  intros x H. apply leb_not_ltb; auto using P01_one.
  unfold P01, in01 in H. now apply andb_true_iff in H.
Qed.

(* IEEE equality is the equivalence induced by < on these shapes *)
Lemma eqb_eqv : forall x y, P01 x -> P01 y ->
  eqv PrimFloat.ltb x y = true -> PrimFloat.eqb x y = true.
Proof.
  intros x y Hx Hy H. unfold eqv in H. rewrite !ltb_K in H by assumption.
  rewrite eqb_spec. unfold SFeqb. rewrite SFcompare_K by now apply P01_K.
  unfold klt in H. rewrite (kc_antisym (Prim2SF x) (Prim2SF y)) in H.
  destruct (kc (Prim2SF x) (Prim2SF y)); simpl in H; auto; discriminate.
Qed.

Lemma fmax_mx : forall a b, fmax a b = mx PrimFloat.ltb a b.
Proof. reflexivity. Qed.
Lemma fmin_mn : forall a b, fmin a b = mn PrimFloat.ltb a b.
Proof. reflexivity. Qed.

Lemma fmax_P : forall a b, P01 a -> P01 b -> P01 (fmax a b).
Proof. intros. rewrite fmax_mx. now apply mx_P. Qed.
Lemma fmin_P : forall a b, P01 a -> P01 b -> P01 (fmin a b).
Proof. intros. rewrite fmin_mn. now apply mn_P. Qed.

(* the FuzzyLogic semiring laws: every value accepted by `new`, both sides defined, and
   equal for f64's `==` *)
Definition FuzzyLaw (p : ex * ex) : Prop :=
  forall a b c, in01 a = true -> in01 b = true -> in01 c = true ->
  exists u v,
    sr_eval SFuzzy (VF a) (VF b) (VF c) (fst p) = Some (VF u) /\
    sr_eval SFuzzy (VF a) (VF b) (VF c) (snd p) = Some (VF v) /\
    PrimFloat.eqb u v = true.

Ltac fuzzy_eval Ha Hb Hc :=
  cbn [fst snd sr_eval sr_new sr_zero sr_one];
  rewrite ?Ha, ?Hb, ?Hc; cbn [obind];
  rewrite ?P01_zero, ?P01_one; cbn [obind sr_add sr_mul];
  rewrite ?fmax_mx, ?fmin_mn.

Theorem fuzzy_semiring : Forall FuzzyLaw semiring_law_pairs.
Proof.
  assert (Z0 : in01 0 = true) by exact P01_zero.
  assert (O1 : in01 1 = true) by exact P01_one.
  unfold semiring_law_pairs.
  repeat constructor; intros a b c Ha Hb Hc; eexists; eexists;
    (split; [fuzzy_eval Ha Hb Hc; rewrite ?Z0, ?O1; cbn [obind sr_add sr_mul]; rewrite ?fmax_mx, ?fmin_mn; reflexivity|]);
    (split; [fuzzy_eval Ha Hb Hc; rewrite ?Z0, ?O1; cbn [obind sr_add sr_mul]; rewrite ?fmax_mx, ?fmin_mn; reflexivity|]);
    (apply eqb_eqv;
     [repeat first [apply mx_P | apply mn_P | apply fmax_P | apply fmin_P | assumption | exact P01_zero | exact P01_one]
     |repeat first [apply mx_P | apply mn_P | apply fmax_P | apply fmin_P | assumption | exact P01_zero | exact P01_one]
     |rewrite ?fmax_mx, ?fmin_mn]).
  - apply (mx_comm P01 _ f_irr f_trans f_ntrans a b c); assumption.
  - apply (mx_assoc P01 _ f_irr f_trans f_ntrans a b c); assumption.
  - apply (mx_zero_r P01 _ f_irr f_trans f_ntrans a 0%float 1%float); auto using P01_zero, P01_one, zero_least, one_greatest.
  - apply (mx_zero_l P01 _ f_irr f_trans f_ntrans a 0%float 1%float); auto using P01_zero, P01_one, zero_least, one_greatest.
  - apply (mn_assoc P01 _ f_irr f_trans f_ntrans a b c); assumption.
  - apply (mn_one_r P01 _ f_irr f_trans f_ntrans a 0%float 1%float); auto using P01_zero, P01_one, zero_least, one_greatest.
  - apply (mn_one_l P01 _ f_irr f_trans f_ntrans a 0%float 1%float); auto using P01_zero, P01_one, zero_least, one_greatest.
  - apply (mn_zero_r P01 _ f_irr f_trans f_ntrans a 0%float 1%float); auto using P01_zero, P01_one, zero_least, one_greatest.
  - apply (mn_zero_l P01 _ f_irr f_trans f_ntrans a 0%float 1%float); auto using P01_zero, P01_one, zero_least, one_greatest.
  - apply (mn_mx_ldist P01 _ f_irr f_trans f_ntrans a b c); assumption.
  - apply (mn_mx_rdist P01 _ f_irr f_trans f_ntrans a b c); assumption.
Qed.
