(* E3 Algebra engine -- executable model of lattices/src/algebra.rs (law checkers),
   lattices/src/test.rs::cartesian_power (the carry-propagating iterator and its size_hint)
   and lattices/src/semiring_application.rs.   Definitions only.

   Conventions
   * `eqb` is the carrier's `PartialEq::eq`; Rust `x != y` is `negb (eqb x y)`.
   * a checker returns `Ok` or `Err kind`, `kind` standing for the `&'static str` message;
     `r ;; k` is the `?` operator; `for x in xs { if .. { return Err(..) } } Ok(())` is
     `first_err xs body`.
   * argument orders are transcribed literally. *)
From Coq Require Import List Bool NArith ZArith Arith Floats.
Import ListNotations.

Inductive errkind :=
| ELeftDistrib | ERightDistrib | EAbsorbing | EInverse | ENonzeroInverse
| ELeftIdentity | ERightIdentity | EAssoc | EComm | EIdem | ELinearity | EBilinearity
| ENoZeroDiv
| EOther.                      (* a message the model does not know (never produced by the model) *)

Inductive res := Ok | Err (k : errkind).

Definition and_then (r k : res) : res := match r with Ok => k | e => e end.
Notation "r ;; k" := (and_then r k) (at level 61, right associativity).

Definition check (holds : bool) (e : errkind) : res := if holds then Ok else Err e.

Fixpoint first_err {X : Type} (xs : list X) (body : X -> res) : res :=
  match xs with
  | [] => Ok
  | x :: r => match body x with Ok => first_err r body | e => e end
  end.

Definition is_ok (r : res) : bool := match r with Ok => true | Err _ => false end.

(* ------------------------------------------------------------------ cartesian_power *)
Section CartesianPower.
  Context {A : Type}.

  (* state of `CartesianPower { items, iters }`: a `Peekable<slice::Iter>` is its remaining
     suffix *)
  Definition cp_state : Type := (list A * list (list A))%type.

  Definition cp_init (n : nat) (items : list A) : cp_state := (items, repeat items n).

  (* the `from_fn` closure run over the iterators i = 0..N with the captured `go_next`;
     `None` = `peek().unwrap()` panicked *)
  Fixpoint cp_digits (items : list A) (iters : list (list A)) (go_next : bool)
    : option (list A * list (list A) * bool) :=
    match iters with
    | [] => Some ([], [], go_next)
    | it :: rest =>
        match it with
        | [] => None
        | item :: it' =>
            let '(it2, go2) :=
              if go_next
              then match it' with
                   | [] => (items, true)          (* "carry": reset this iterator *)
                   | _ :: _ => (it', false)
                   end
              else (it, false) in
            match cp_digits items rest go2 with
            | None => None
            | Some (out, its, g) => Some (item :: out, it2 :: its, g)
            end
        end
    end.

  Inductive cp_step := CpDone | CpYield (t : list A) (st : cp_state) | CpPanic.

  Definition cp_next (st : cp_state) : cp_step :=
    let '(items, iters) := st in
    match items with
    | [] => CpDone
    | _ :: _ =>
        match cp_digits items iters true with
        | None => CpPanic
        | Some (out, its, go_next) => CpYield out (if go_next then [] else items, its)
        end
    end.

  (* size_hint: usize arithmetic transcribed on nat (`-` truncates where Rust would panic
     on underflow; CartesianPower.size_hint_spec shows no underflow happens) *)
  Definition cp_size_hint (st : cp_state) : nat :=
    let '(items, iters) := st in
    match items with
    | [] => 0
    | _ :: _ =>
        let '(passed, pow) :=
          fold_left (fun '(passed, pow) it =>
                       (passed + pow * (length items - length it), pow * length items))
                    iters (0, 1) in
        pow - passed
    end.

  (* drive the iterator to its end, recording `len()` before every `next()`;
     None = panic or fuel exhausted *)
  Fixpoint cp_trace (fuel : nat) (st : cp_state)
    : option (list (list A) * list nat * cp_state) :=
    match fuel with
    | 0 => None
    | S k =>
        match cp_next st with
        | CpDone => Some ([], [cp_size_hint st], st)
        | CpPanic => None
        | CpYield t st' =>
            match cp_trace k st' with
            | None => None
            | Some (ts, ls, fin) => Some (t :: ts, cp_size_hint st :: ls, fin)
            end
        end
    end.

  Definition cp_fuel (n : nat) (items : list A) : nat := S (length items ^ n).

  (* the list of tuples `cartesian_power::<_, n>(items)` yields, in order *)
  Definition cartesian_power (n : nat) (items : list A) : list (list A) :=
    match cp_trace (cp_fuel n items) (cp_init n items) with
    | Some (ts, _, _) => ts
    | None => []
    end.

  (* specification: the n-th power, first coordinate varying fastest; the code yields
     nothing for an empty slice even when n = 0 *)
  Fixpoint cp_spec (n : nat) (items : list A) : list (list A) :=
    match n with
    | 0 => match items with [] => [] | _ :: _ => [[]] end
    | S k => flat_map (fun rest => map (fun x => x :: rest) items) (cp_spec k items)
    end.
End CartesianPower.

(* ------------------------------------------------------------------ the checkers *)
Inductive ptag := PAssoc | PComm | PIdem | PIdentity | PInverse | PAbsorbing | POther.

Section Checkers.
  Context {A : Type} (eqb : A -> A -> bool).
  Let neb (x y : A) : bool := negb (eqb x y).

  Definition associativity (items : list A) (f : A -> A -> A) : res :=
    first_err (cartesian_power 3 items) (fun t =>
      match t with
      | [a; b; c] => check (eqb (f a (f b c)) (f (f a b) c)) EAssoc
      | _ => Ok
      end).

  Definition commutativity (items : list A) (f : A -> A -> A) : res :=
    first_err (cartesian_power 2 items) (fun t =>
      match t with
      | [x; y] => check (eqb (f x y) (f y x)) EComm
      | _ => Ok
      end).

  Definition idempotency (items : list A) (f : A -> A -> A) : res :=
    first_err items (fun x => check (eqb (f x x) x) EIdem).

  Definition identity (items : list A) (f : A -> A -> A) (e : A) : res :=
    first_err items (fun a =>
      check (eqb (f e a) a) ELeftIdentity ;; check (eqb (f a e) a) ERightIdentity).

  Definition inverse (items : list A) (f : A -> A -> A) (e : A) (b : A -> A) : res :=
    first_err items (fun a =>
      check (eqb (f a (b a)) e) EInverse ;; check (eqb (f (b a) a) e) EInverse).

  Definition nonzero_inverse (items : list A) (f : A -> A -> A) (e zero : A) (b : A -> A) : res :=
    first_err items (fun a =>
      if neb a zero
      then check (eqb (f a (b a)) e) ENonzeroInverse ;; check (eqb (f (b a) a) e) ENonzeroInverse
      else Ok).

  Definition absorbing_element (items : list A) (f : A -> A -> A) (z : A) : res :=
    first_err items (fun a =>
      check (eqb (f a z) z) EAbsorbing ;; check (eqb (f z a) z) EAbsorbing).

  Definition left_distributes (items : list A) (f g : A -> A -> A) : res :=
    first_err (cartesian_power 3 items) (fun t =>
      match t with
      | [a; b; c] => check (eqb (g a (f b c)) (f (g a b) (g a c))) ELeftDistrib
      | _ => Ok
      end).

  Definition right_distributes (items : list A) (f g : A -> A -> A) : res :=
    first_err (cartesian_power 3 items) (fun t =>
      match t with
      | [a; b; c] => check (eqb (g (f b c) a) (f (g b a) (g c a))) ERightDistrib
      | _ => Ok
      end).

  Definition distributive (items : list A) (f g : A -> A -> A) : res :=
    left_distributes items f g ;; right_distributes items f g.

  Definition no_nonzero_zero_divisors (items : list A) (f : A -> A -> A) (zero : A) : res :=
    first_err items (fun a =>
      first_err items (fun b =>
        if neb a zero && neb b zero
        then check (negb (eqb (f a b) zero)) ENoZeroDiv ;;
             check (negb (eqb (f b a) zero)) ENoZeroDiv
        else Ok)).

  (* composites *)
  Definition semigroup (items : list A) (f : A -> A -> A) : res := associativity items f.

  Definition monoid (items : list A) (f : A -> A -> A) (zero : A) : res :=
    semigroup items f ;; identity items f zero.

  Definition commutative_monoid (items : list A) (f : A -> A -> A) (zero : A) : res :=
    monoid items f zero ;; commutativity items f.

  Definition group (items : list A) (f : A -> A -> A) (zero : A) (b : A -> A) : res :=
    monoid items f zero ;; inverse items f zero b.

  Definition abelian_group (items : list A) (f : A -> A -> A) (zero : A) (b : A -> A) : res :=
    group items f zero b ;; commutativity items f.

  Definition semiring (items : list A) (f g : A -> A -> A) (zero one : A) : res :=
    commutative_monoid items f zero ;; monoid items g one ;;
    absorbing_element items g zero ;; distributive items f g.

  Definition ring (items : list A) (f g : A -> A -> A) (zero one : A) (b : A -> A) : res :=
    semiring items f g zero one ;; inverse items f zero b.

  Definition commutative_ring (items : list A) (f g : A -> A -> A) (zero one : A)
             (inverse_f : A -> A) : res :=
    semiring items f g zero one ;; inverse items f zero inverse_f ;; commutativity items g.

  Definition integral_domain (items : list A) (f g : A -> A -> A) (zero one : A)
             (inverse_f : A -> A) : res :=
    commutative_ring items f g zero one inverse_f ;; no_nonzero_zero_divisors items g zero.

  Definition field (items : list A) (f g : A -> A -> A) (zero one : A)
             (inverse_f inverse_g : A -> A) : res :=
    commutative_ring items f g zero one inverse_f ;;
    nonzero_inverse items g one zero inverse_g.

  (* get_single_function_properties: the names pushed, in order *)
  Definition get_single_function_properties (items : list A) (f : A -> A -> A) (e : A)
             (b : A -> A) (z : A) : list ptag :=
    (if is_ok (associativity items f) then [PAssoc] else []) ++
    (if is_ok (commutativity items f) then [PComm] else []) ++
    (if is_ok (idempotency items f) then [PIdem] else []) ++
    (if is_ok (identity items f e) then [PIdentity] else []) ++
    (if is_ok (inverse items f e b) then [PInverse] else []) ++
    (if is_ok (absorbing_element items f z) then [PAbsorbing] else []).
End Checkers.

Section Linear.
  Context {S R T : Type} (eqbR : R -> R -> bool).

  (* q(f(a,b)) == g(q(a), q(b)).  Before /repo commit 2405c2befba the code compared with
     g(q(b), q(a)) (finding C09 linearity/g-args-swapped, fixed). *)
  Definition linearity (items : list S) (f : S -> S -> S) (g : R -> R -> R) (q : S -> R) : res :=
    first_err (cartesian_power 2 items) (fun t =>
      match t with
      | [a; b] => check (eqbR (q (f a b)) (g (q a) (q b))) ELinearity
      | _ => Ok
      end).

  Definition bilinearity (items_f : list S) (items_h : list T) (f : S -> S -> S)
             (h : T -> T -> T) (g : R -> R -> R) (q : S -> T -> R) : res :=
    first_err (cartesian_power 2 items_f) (fun t =>
      match t with
      | [a; b] =>
          first_err (cartesian_power 2 items_h) (fun u =>
            match u with
            | [c; d] =>
                check (eqbR (q (f a b) c) (g (q a c) (q b c)) &&
                       eqbR (q a (h c d)) (g (q a c) (q a d))) EBilinearity
            | _ => Ok
            end)
      | _ => Ok
      end).
End Linear.

(* ------------------------------------------------------------------ the laws, decided by
   brute force independently of cartesian_power (nested forallb over the carrier list) *)
Section LawsB.
  Context {A : Type} (eqb : A -> A -> bool).
  Definition all1 (items : list A) (p : A -> bool) : bool := forallb p items.
  Definition all2 (items : list A) (p : A -> A -> bool) : bool :=
    forallb (fun a => forallb (fun b => p a b) items) items.
  Definition all3 (items : list A) (p : A -> A -> A -> bool) : bool :=
    forallb (fun a => forallb (fun b => forallb (fun c => p a b c) items) items) items.

  Definition assoc_b items (f : A -> A -> A) := all3 items (fun a b c => eqb (f a (f b c)) (f (f a b) c)).
  Definition comm_b items (f : A -> A -> A) := all2 items (fun a b => eqb (f a b) (f b a)).
  Definition idem_b items (f : A -> A -> A) := all1 items (fun a => eqb (f a a) a).
  Definition ident_b items (f : A -> A -> A) e := all1 items (fun a => eqb (f e a) a && eqb (f a e) a).
  Definition inv_b items (f : A -> A -> A) e (b : A -> A) :=
    all1 items (fun a => eqb (f a (b a)) e && eqb (f (b a) a) e).
  Definition nzinv_b items (f : A -> A -> A) e zero (b : A -> A) :=
    all1 items (fun a => eqb a zero || (eqb (f a (b a)) e && eqb (f (b a) a) e)).
  Definition absorb_b items (f : A -> A -> A) z := all1 items (fun a => eqb (f a z) z && eqb (f z a) z).
  Definition ldist_b items (f g : A -> A -> A) :=
    all3 items (fun a b c => eqb (g a (f b c)) (f (g a b) (g a c))).
  Definition rdist_b items (f g : A -> A -> A) :=
    all3 items (fun a b c => eqb (g (f b c) a) (f (g b a) (g c a))).
  Definition dist_b items f g := ldist_b items f g && rdist_b items f g.
  Definition nzd_b items (f : A -> A -> A) zero :=
    all2 items (fun a b => eqb a zero || eqb b zero || negb (eqb (f a b) zero)).

  Definition monoid_b items f e := assoc_b items f && ident_b items f e.
  Definition cmonoid_b items f e := monoid_b items f e && comm_b items f.
  Definition group_b items f e b := monoid_b items f e && inv_b items f e b.
  Definition abgroup_b items f e b := group_b items f e b && comm_b items f.
  Definition semiring_b items f g zero one :=
    cmonoid_b items f zero && monoid_b items g one && absorb_b items g zero && dist_b items f g.
  Definition ring_b items f g zero one b := semiring_b items f g zero one && inv_b items f zero b.
  Definition cring_b items f g zero one b := ring_b items f g zero one b && comm_b items g.
  Definition idom_b items f g zero one b := cring_b items f g zero one b && nzd_b items g zero.
  Definition field_b items f g zero one b b2 :=
    cring_b items f g zero one b && nzinv_b items g one zero b2.
End LawsB.

Section LinearB.
  Context {S R T : Type} (eqbR : R -> R -> bool).
  (* q(f a b) = g (q a) (q b): the law as documented (q is a homomorphism) *)
  Definition linear_b (items : list S) (f : S -> S -> S) (g : R -> R -> R) (q : S -> R) :=
    all2 items (fun a b => eqbR (q (f a b)) (g (q a) (q b))).
  Definition bilinear_b (items_f : list S) (items_h : list T) (f : S -> S -> S) (h : T -> T -> T)
             (g : R -> R -> R) (q : S -> T -> R) :=
    all2 items_f (fun a b => forallb (fun c => eqbR (q (f a b) c) (g (q a c) (q b c))) items_h) &&
    forallb (fun a => all2 items_h (fun c d => eqbR (q a (h c d)) (g (q a c) (q a d)))) items_f.
End LinearB.

(* ------------------------------------------------------------------ semiring applications *)
Inductive srty := SBinaryTrust | SMultiplicity | SCost | SConfidence | SFuzzy.

(* raw contents: bool | u32 | U32WithInfinity (VInf / VN) | f64 *)
Inductive sval := VB (b : bool) | VN (n : N) | VInf | VF (f : float).

Definition u32_max1 : N := 4294967296.
Definition u32 (n : N) : option N := if (n <? u32_max1)%N then Some n else None.

(* f64::max / f64::min on non-NaN arguments (NaN cannot be constructed: `new` asserts
   0.0 <= v <= 1.0; -0.0 is excluded by the generator: the result of max(0.0,-0.0) is
   unspecified in Rust) *)
Definition fmax (a b : float) : float := if PrimFloat.ltb a b then b else a.
Definition fmin (a b : float) : float := if PrimFloat.ltb b a then b else a.
Definition in01 (v : float) : bool := PrimFloat.leb 0%float v && PrimFloat.leb v 1%float.

(* constructor: `new` (asserts the range for the float types), hook `verif_from_raw` for
   BinaryTrust; None = panic / ill-typed *)
Definition sr_new (t : srty) (v : sval) : option sval :=
  match t, v with
  | SBinaryTrust, VB _ => Some v
  | SMultiplicity, VN n => option_map VN (u32 n)
  | SCost, VN n => option_map VN (u32 n)
  | SCost, VInf => Some VInf
  | SConfidence, VF f | SFuzzy, VF f => if in01 f then Some v else None
  | _, _ => None
  end.

Definition sr_add (t : srty) (x y : sval) : option sval :=
  match t, x, y with
  | SBinaryTrust, VB a, VB b => Some (VB (a || b))
  | SMultiplicity, VN a, VN b => option_map VN (u32 (a + b))        (* checked_add().unwrap() *)
  | SCost, VInf, v | SCost, v, VInf => Some v
  | SCost, VN a, VN b => Some (VN (N.min a b))
  | SConfidence, VF a, VF b | SFuzzy, VF a, VF b => Some (VF (fmax a b))
  | _, _, _ => None
  end.

Definition sr_mul (t : srty) (x y : sval) : option sval :=
  match t, x, y with
  | SBinaryTrust, VB a, VB b => Some (VB (a && b))
  | SMultiplicity, VN a, VN b => option_map VN (u32 (a * b))        (* checked_mul().unwrap() *)
  | SCost, VInf, _ | SCost, _, VInf => Some VInf
  | SCost, VN a, VN b => option_map VN (u32 (a + b))   (* a.checked_add(b).unwrap(): panics in every profile
                                                          (before /repo eb5e08fe819: unchecked `a + b`) *)
  | SConfidence, VF a, VF b => Some (VF (PrimFloat.mul a b))
  | SFuzzy, VF a, VF b => Some (VF (fmin a b))
  | _, _, _ => None
  end.

Definition sr_zero (t : srty) : sval :=
  match t with
  | SBinaryTrust => VB false | SMultiplicity => VN 0 | SCost => VInf
  | SConfidence | SFuzzy => VF 0%float
  end.
Definition sr_one (t : srty) : sval :=
  match t with
  | SBinaryTrust => VB true | SMultiplicity => VN 1 | SCost => VN 0
  | SConfidence | SFuzzy => VF 1%float
  end.

Inductive ex := XA | XB | XC | XZero | XOne | XAdd (x y : ex) | XMul (x y : ex).

Definition obind {X Y} (o : option X) (k : X -> option Y) : option Y :=
  match o with Some x => k x | None => None end.

Fixpoint sr_eval (t : srty) (a b c : sval) (e : ex) : option sval :=
  match e with
  | XA => sr_new t a
  | XB => sr_new t b
  | XC => sr_new t c
  | XZero => obind (sr_new t a) (fun _ => sr_new t (sr_zero t))
  | XOne => obind (sr_new t a) (fun _ => sr_new t (sr_one t))
  | XAdd x y => obind (sr_eval t a b c x) (fun u => obind (sr_eval t a b c y) (fun v => sr_add t u v))
  | XMul x y => obind (sr_eval t a b c x) (fun u => obind (sr_eval t a b c y) (fun v => sr_mul t u v))
  end.

(* the expressions evaluated by an `sr` case (same order as harness/h_algebra sr_exprs) *)
Definition sr_exprs : list ex :=
  [ XAdd XA XB; XAdd XB XA; XMul XA XB; XMul XB XA;
    XAdd (XAdd XA XB) XC; XAdd XA (XAdd XB XC);
    XMul (XMul XA XB) XC; XMul XA (XMul XB XC);
    XMul XA (XAdd XB XC); XAdd (XMul XA XB) (XMul XA XC);
    XMul (XAdd XB XC) XA; XAdd (XMul XB XA) (XMul XC XA);
    XAdd XA XZero; XAdd XZero XA; XMul XA XOne; XMul XOne XA;
    XMul XA XZero; XMul XZero XA; XZero; XOne ].

(* bitwise comparison of floats through their spec_float image *)
Definition float_bits_eqb (x y : float) : bool :=
  match Prim2SF x, Prim2SF y with
  | S754_zero s1, S754_zero s2 => Bool.eqb s1 s2
  | S754_infinity s1, S754_infinity s2 => Bool.eqb s1 s2
  | S754_nan, S754_nan => true
  | S754_finite s1 m1 e1, S754_finite s2 m2 e2 => Bool.eqb s1 s2 && Pos.eqb m1 m2 && Z.eqb e1 e2
  | _, _ => false
  end.

Definition sval_eqb (x y : sval) : bool :=
  match x, y with
  | VB a, VB b => Bool.eqb a b
  | VN a, VN b => N.eqb a b
  | VInf, VInf => true
  | VF a, VF b => float_bits_eqb a b
  | _, _ => false
  end.

Definition osval_eqb (x y : option sval) : bool :=
  match x, y with
  | Some a, Some b => sval_eqb a b
  | None, None => true
  | _, _ => false
  end.

(* a law instance `lhs = rhs`; an instance where a side panics (u32 overflow) is outside
   the claim ("below overflow") *)
Definition law_eq (x y : option sval) : bool :=
  match x, y with
  | Some a, Some b => sval_eqb a b
  | _, _ => true
  end.

(* the semiring laws (algebra.rs `semiring`: commutative monoid (+,0), monoid ( *,1),
   0 absorbing for *, * distributes over + on both sides) on the values of sr_exprs *)
Definition nth_o (l : list (option sval)) (i : nat) : option sval := nth i l None.

Definition sr_add_laws_b (a : option sval) (v : list (option sval)) : bool :=
  law_eq (nth_o v 0) (nth_o v 1) && law_eq (nth_o v 4) (nth_o v 5) &&
  law_eq (nth_o v 12) a && law_eq (nth_o v 13) a.
Definition sr_mul_assoc_b (v : list (option sval)) : bool := law_eq (nth_o v 6) (nth_o v 7).
Definition sr_mul_rest_b (a : option sval) (v : list (option sval)) : bool :=
  law_eq (nth_o v 14) a && law_eq (nth_o v 15) a &&
  law_eq (nth_o v 16) (nth_o v 18) && law_eq (nth_o v 17) (nth_o v 18) &&
  law_eq (nth_o v 8) (nth_o v 9) && law_eq (nth_o v 10) (nth_o v 11).
Definition sr_laws_b (a : option sval) (v : list (option sval)) : bool :=
  Nat.eqb (length v) 20 && sr_add_laws_b a v && sr_mul_assoc_b v && sr_mul_rest_b a v.

(* ------------------------------------------------------------------ cases of the
   correspondence check: operations are tables over the carrier {0..k-1} *)
Definition tbl := list (list N).
Definition top (t : tbl) (a b : N) : N := nth (N.to_nat b) (nth (N.to_nat a) t []) 0%N.
Definition vop (v : list N) (a : N) : N := nth (N.to_nat a) v 0%N.

Inductive acase :=
| CAssoc (items : list N) (f : tbl)
| CComm (items : list N) (f : tbl)
| CIdem (items : list N) (f : tbl)
| CSemigroup (items : list N) (f : tbl)
| CIdentity (items : list N) (f : tbl) (e : N)
| CAbsorbing (items : list N) (f : tbl) (z : N)
| CMonoid (items : list N) (f : tbl) (e : N)
| CCMonoid (items : list N) (f : tbl) (e : N)
| CNoZeroDiv (items : list N) (f : tbl) (zero : N)
| CInverse (items : list N) (f : tbl) (e : N) (b : list N)
| CGroup (items : list N) (f : tbl) (e : N) (b : list N)
| CAbGroup (items : list N) (f : tbl) (e : N) (b : list N)
| CNzInverse (items : list N) (f : tbl) (e zero : N) (b : list N)
| CLDist (items : list N) (f g : tbl)
| CRDist (items : list N) (f g : tbl)
| CDist (items : list N) (f g : tbl)
| CSemiring (items : list N) (f g : tbl) (zero one : N)
| CRing (items : list N) (f g : tbl) (zero one : N) (b : list N)
| CCRing (items : list N) (f g : tbl) (zero one : N) (b : list N)
| CIDomain (items : list N) (f g : tbl) (zero one : N) (b : list N)
| CField (items : list N) (f g : tbl) (zero one : N) (b b2 : list N)
| CLinearity (items : list N) (f g : tbl) (q : list N)
| CBilinearity (items items2 : list N) (f h g q : tbl)
| CProps (items : list N) (f : tbl) (e : N) (b : list N) (z : N)
| CPow (items : list N) (arity : nat)
| CSr (t : srty) (a b c : sval)
| CSrRel (t : srty) (a b c : sval)      (* harness built with the release profile: same semantics *)
| CSrNew (t : srty) (a : sval).

Inductive aout :=
| ORes (r : res)
| OProps (l : list ptag)
| OPow (tuples : list (list N)) (lens : list N) (after : bool)
| OSr (v : list (option sval))
| ONew (v : option sval)
| OBad.                        (* panic / hang / unparsable output of the implementation *)

Definition pow_out (items : list N) (n : nat) : aout :=
  match cp_trace (cp_fuel n items) (cp_init n items) with
  | Some (ts, ls, fin) =>
      OPow ts (map N.of_nat ls)
           (match cp_next fin with CpDone => Nat.eqb (cp_size_hint fin) 0 | _ => false end)
  | None => OBad
  end.

Definition model_run (c : acase) : aout :=
  let E := N.eqb in
  match c with
  | CAssoc i f => ORes (associativity E i (top f))
  | CComm i f => ORes (commutativity E i (top f))
  | CIdem i f => ORes (idempotency E i (top f))
  | CSemigroup i f => ORes (semigroup E i (top f))
  | CIdentity i f e => ORes (identity E i (top f) e)
  | CAbsorbing i f z => ORes (absorbing_element E i (top f) z)
  | CMonoid i f e => ORes (monoid E i (top f) e)
  | CCMonoid i f e => ORes (commutative_monoid E i (top f) e)
  | CNoZeroDiv i f z => ORes (no_nonzero_zero_divisors E i (top f) z)
  | CInverse i f e b => ORes (inverse E i (top f) e (vop b))
  | CGroup i f e b => ORes (group E i (top f) e (vop b))
  | CAbGroup i f e b => ORes (abelian_group E i (top f) e (vop b))
  | CNzInverse i f e z b => ORes (nonzero_inverse E i (top f) e z (vop b))
  | CLDist i f g => ORes (left_distributes E i (top f) (top g))
  | CRDist i f g => ORes (right_distributes E i (top f) (top g))
  | CDist i f g => ORes (distributive E i (top f) (top g))
  | CSemiring i f g z o => ORes (semiring E i (top f) (top g) z o)
  | CRing i f g z o b => ORes (ring E i (top f) (top g) z o (vop b))
  | CCRing i f g z o b => ORes (commutative_ring E i (top f) (top g) z o (vop b))
  | CIDomain i f g z o b => ORes (integral_domain E i (top f) (top g) z o (vop b))
  | CField i f g z o b b2 => ORes (field E i (top f) (top g) z o (vop b) (vop b2))
  | CLinearity i f g q => ORes (linearity E i (top f) (top g) (vop q))
  | CBilinearity i i2 f h g q => ORes (bilinearity E i i2 (top f) (top h) (top g) (top q))
  | CProps i f e b z => OProps (get_single_function_properties E i (top f) e (vop b) z)
  | CPow i n => pow_out i n
  | CSr t a b c => OSr (map (sr_eval t a b c) sr_exprs)
  | CSrRel t a b c => OSr (map (sr_eval t a b c) sr_exprs)
  | CSrNew t a => ONew (sr_new t a)
  end.

(* does the law named by the case hold on the carrier list?  (brute force, LawsB) *)
Definition law_b (c : acase) : bool :=
  let E := N.eqb in
  match c with
  | CAssoc i f | CSemigroup i f => assoc_b E i (top f)
  | CComm i f => comm_b E i (top f)
  | CIdem i f => idem_b E i (top f)
  | CIdentity i f e => ident_b E i (top f) e
  | CAbsorbing i f z => absorb_b E i (top f) z
  | CMonoid i f e => monoid_b E i (top f) e
  | CCMonoid i f e => cmonoid_b E i (top f) e
  | CNoZeroDiv i f z => nzd_b E i (top f) z
  | CInverse i f e b => inv_b E i (top f) e (vop b)
  | CGroup i f e b => group_b E i (top f) e (vop b)
  | CAbGroup i f e b => abgroup_b E i (top f) e (vop b)
  | CNzInverse i f e z b => nzinv_b E i (top f) e z (vop b)
  | CLDist i f g => ldist_b E i (top f) (top g)
  | CRDist i f g => rdist_b E i (top f) (top g)
  | CDist i f g => dist_b E i (top f) (top g)
  | CSemiring i f g z o => semiring_b E i (top f) (top g) z o
  | CRing i f g z o b => ring_b E i (top f) (top g) z o (vop b)
  | CCRing i f g z o b => cring_b E i (top f) (top g) z o (vop b)
  | CIDomain i f g z o b => idom_b E i (top f) (top g) z o (vop b)
  | CField i f g z o b b2 => field_b E i (top f) (top g) z o (vop b) (vop b2)
  | CLinearity i f g q => linear_b E i (top f) (top g) (vop q)
  | CBilinearity i i2 f h g q => bilinear_b E i i2 (top f) (top h) (top g) (top q)
  | _ => true
  end.

Definition list_eqb {X} (e : X -> X -> bool) : list X -> list X -> bool :=
  fix go (a b : list X) : bool :=
    match a, b with
    | [], [] => true
    | x :: a', y :: b' => e x y && go a' b'
    | _, _ => false
    end.

Definition mem_b {X} (e : X -> X -> bool) (x : X) (l : list X) : bool := existsb (e x) l.

Fixpoint countdown (n : nat) : list N :=
  match n with 0 => [0%N] | S k => N.of_nat n :: countdown k end.

Definition has_tag (t : ptag) (l : list ptag) : bool :=
  existsb (fun u => match t, u with
                    | PAssoc, PAssoc | PComm, PComm | PIdem, PIdem | PIdentity, PIdentity
                    | PInverse, PInverse | PAbsorbing, PAbsorbing => true
                    | _, _ => false end) l.

(* all tuples of length n over items, enumerated by plain recursion (last coordinate
   fastest -- a different order from the iterator's, only membership matters here) *)
Fixpoint all_tuples (n : nat) (items : list N) : list (list N) :=
  match n with
  | 0 => [[]]
  | S k => flat_map (fun x => map (cons x) (all_tuples k items)) items
  end.

(* C09 evaluated on the implementation's output for the case *)
Definition C09_holds_b (c : acase) (o : aout) : bool :=
  let E := N.eqb in
  match c, o with
  | CProps i f e b z, OProps l =>
      Bool.eqb (has_tag PAssoc l) (assoc_b E i (top f)) &&
      Bool.eqb (has_tag PComm l) (comm_b E i (top f)) &&
      Bool.eqb (has_tag PIdem l) (idem_b E i (top f)) &&
      Bool.eqb (has_tag PIdentity l) (ident_b E i (top f) e) &&
      Bool.eqb (has_tag PInverse l) (inv_b E i (top f) e (vop b)) &&
      Bool.eqb (has_tag PAbsorbing l) (absorb_b E i (top f) z) &&
      negb (existsb (fun u => match u with POther => true | _ => false end) l)
  | CPow i n, OPow ts ls after =>
      (* yields exactly the n-tuples over a non-empty carrier, each once per position
         choice, and len() counts down to 0 *)
      forallb (fun t => Nat.eqb (length t) n && forallb (fun x => mem_b E x i) t) ts &&
      (match i with [] => true | _ :: _ => forallb (fun t => mem_b (list_eqb E) t ts) (all_tuples n i) end) &&
      Nat.eqb (length ts) (match i with [] => 0 | _ :: _ => length i ^ n end) &&
      list_eqb E ls (countdown (length ts)) && after
  | CSr t a _ _, OSr v | CSrRel t a _ _, OSr v => sr_laws_b (sr_new t a) v
  | CSrNew t a, ONew v =>
      match t, a, v with
      | (SConfidence | SFuzzy), VF f, Some (VF g) => in01 f && float_bits_eqb f g
      | (SConfidence | SFuzzy), VF f, None => negb (in01 f)
      | _, _, _ => osval_eqb v (sr_new t a)
      end
  | (CProps _ _ _ _ _ | CPow _ _ | CSr _ _ _ _ | CSrRel _ _ _ _ | CSrNew _ _), _ => false
  | _, ORes r => Bool.eqb (is_ok r) (law_b c)
  | _, _ => false
  end.

(* agreement of the implementation's output with the model's *)
Definition errkind_eqb (a b : errkind) : bool :=
  match a, b with
  | ELeftDistrib, ELeftDistrib | ERightDistrib, ERightDistrib | EAbsorbing, EAbsorbing
  | EInverse, EInverse | ENonzeroInverse, ENonzeroInverse | ELeftIdentity, ELeftIdentity
  | ERightIdentity, ERightIdentity | EAssoc, EAssoc | EComm, EComm | EIdem, EIdem
  | ELinearity, ELinearity | EBilinearity, EBilinearity | ENoZeroDiv, ENoZeroDiv => true
  | _, _ => false
  end.

Definition res_eqb (a b : res) : bool :=
  match a, b with
  | Ok, Ok => true
  | Err x, Err y => errkind_eqb x y
  | _, _ => false
  end.

Definition ptag_eqb (a b : ptag) : bool :=
  match a, b with
  | PAssoc, PAssoc | PComm, PComm | PIdem, PIdem | PIdentity, PIdentity
  | PInverse, PInverse | PAbsorbing, PAbsorbing => true
  | _, _ => false
  end.

Definition aout_eqb (a b : aout) : bool :=
  match a, b with
  | ORes x, ORes y => res_eqb x y
  | OProps x, OProps y => list_eqb ptag_eqb x y
  | OPow t1 l1 a1, OPow t2 l2 a2 =>
      list_eqb (list_eqb N.eqb) t1 t2 && list_eqb N.eqb l1 l2 && Bool.eqb a1 a2
  | OSr x, OSr y => list_eqb osval_eqb x y
  | ONew x, ONew y => osval_eqb x y
  | _, _ => false
  end.

(* verdict code per case: bit0 = correspondence broken, bit1 = property fails on impl *)
Definition verdict (agree holds : bool) : N :=
  ((if agree then 0 else 1) + (if holds then 0 else 2))%N.

Definition chk (c : acase) (impl : aout) : N :=
  verdict (aout_eqb impl (model_run c)) (C09_holds_b c impl).

(* indices (from 0) of non-zero verdicts, with their verdict *)
Fixpoint bad_from (n : N) (l : list N) : list (N * N) :=
  match l with
  | [] => []
  | v :: r => if N.eqb v 0 then bad_from (n + 1) r else (n, v) :: bad_from (n + 1) r
  end.
Definition bad (l : list N) : list (N * N) := bad_from 0 l.
