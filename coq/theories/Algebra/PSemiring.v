(* E3 Algebra engine -- the shipped semiring applications.
   BinaryTrust, Multiplicity (below u32 overflow) and Cost (below u32 overflow of `a + b`)
   satisfy every semiring law of algebra.rs::semiring, for all values; ConfidenceScore does
   not (binary64 multiplication is not associative). *)
From Coq Require Import List Bool NArith ZArith Arith Lia Floats.
From HV Require Import Algebra.Model.
Import ListNotations.

(* the semiring laws as pairs of expressions over a, b, c:
   (+,0) commutative monoid, ( *,1) monoid, 0 absorbing, * distributes over + on both sides *)
Definition semiring_law_pairs : list (ex * ex) :=
  [ (XAdd XA XB, XAdd XB XA);
    (XAdd (XAdd XA XB) XC, XAdd XA (XAdd XB XC));
    (XAdd XA XZero, XA); (XAdd XZero XA, XA);
    (XMul (XMul XA XB) XC, XMul XA (XMul XB XC));
    (XMul XA XOne, XA); (XMul XOne XA, XA);
    (XMul XA XZero, XZero); (XMul XZero XA, XZero);
    (XMul XA (XAdd XB XC), XAdd (XMul XA XB) (XMul XA XC));
    (XMul (XAdd XB XC) XA, XAdd (XMul XB XA) (XMul XC XA)) ].

(* a law holds for type t when, for all values, both sides agree whenever neither panics *)
Definition SrLaw (t : srty) (p : ex * ex) : Prop :=
  forall a b c u v,
    sr_eval t a b c (fst p) = Some u -> sr_eval t a b c (snd p) = Some v -> u = v.

Definition SrSemiring (t : srty) : Prop := Forall (SrLaw t) semiring_law_pairs.

Lemma obind_some : forall {X Y} (o : option X) (k : X -> option Y) y,
  obind o k = Some y -> exists x, o = Some x /\ k x = Some y.
Proof. intros X Y [x|] k y H; simpl in H; [eauto|discriminate]. Qed.

Lemma u32_some : forall n m, u32 n = Some m -> m = n.
Proof. intros n m. unfold u32. destruct (n <? u32_max1)%N; congruence. Qed.

(* ------------------------------------------------------------------ BinaryTrust *)
Definition bval (v : sval) : bool := match v with VB b => b | _ => false end.
Fixpoint beval (a b c : bool) (e : ex) : bool :=
  match e with
  | XA => a | XB => b | XC => c | XZero => false | XOne => true
  | XAdd x y => beval a b c x || beval a b c y
  | XMul x y => beval a b c x && beval a b c y
  end.

Lemma eval_binary_trust : forall a b c e u,
  sr_eval SBinaryTrust a b c e = Some u -> u = VB (beval (bval a) (bval b) (bval c) e).
Proof.
  intros a b c e. induction e as [| | | | |x IHx y IHy|x IHx y IHy]; intros u H; simpl in H.
  - destruct a; simpl in *; congruence.
  - destruct b; simpl in *; congruence.
  - destruct c; simpl in *; congruence.
  - destruct a; simpl in *; congruence.
  - destruct a; simpl in *; congruence.
  - apply obind_some in H. destruct H as (p & Hp & H). apply obind_some in H.
    destruct H as (q & Hq & H). rewrite (IHx _ Hp), (IHy _ Hq) in H. simpl in H. cbn [beval]. congruence.
  - apply obind_some in H. destruct H as (p & Hp & H). apply obind_some in H.
    destruct H as (q & Hq & H). rewrite (IHx _ Hp), (IHy _ Hq) in H. simpl in H. cbn [beval]. congruence.
Qed.

Theorem binary_trust_semiring : SrSemiring SBinaryTrust.
Proof.
  unfold SrSemiring, semiring_law_pairs.
  repeat constructor; intros a b c u v H1 H2;
    apply eval_binary_trust in H1; apply eval_binary_trust in H2; subst; f_equal; simpl;
    destruct (bval a), (bval b), (bval c); reflexivity.
Qed.

(* BinaryTrust never panics on well-typed values *)
Theorem binary_trust_total : forall a b c e,
  exists u, sr_eval SBinaryTrust (VB a) (VB b) (VB c) e = Some u.
Proof.
  intros a b c e. induction e as [| | | | |x [p Hp] y [q Hq]|x [p Hp] y [q Hq]]; simpl; eauto.
  - rewrite Hp, Hq. simpl. pose proof (eval_binary_trust _ _ _ _ _ Hp).
    pose proof (eval_binary_trust _ _ _ _ _ Hq). subst. simpl. eauto.
  - rewrite Hp, Hq. simpl. pose proof (eval_binary_trust _ _ _ _ _ Hp).
    pose proof (eval_binary_trust _ _ _ _ _ Hq). subst. simpl. eauto.
Qed.

(* ------------------------------------------------------------------ Multiplicity *)
Definition nval (v : sval) : N := match v with VN n => n | _ => 0%N end.
Fixpoint neval (a b c : N) (e : ex) : N :=
  match e with
  | XA => a | XB => b | XC => c | XZero => 0 | XOne => 1
  | XAdd x y => neval a b c x + neval a b c y
  | XMul x y => neval a b c x * neval a b c y
  end%N.

Lemma new_mult : forall a u, sr_new SMultiplicity a = Some u -> u = VN (nval a).
Proof.
  intros a u H. destruct a; simpl in H; try discriminate.
  destruct (u32 n) eqn:E; simpl in H; [|discriminate]. apply u32_some in E. simpl. congruence.
Qed.

Lemma eval_multiplicity : forall a b c e u,
  sr_eval SMultiplicity a b c e = Some u -> u = VN (neval (nval a) (nval b) (nval c) e).
Proof.
  intros a b c e. induction e as [| | | | |x IHx y IHy|x IHx y IHy]; intros u H; cbn [sr_eval] in H.
  - now apply new_mult in H.
  - now apply new_mult in H.
  - now apply new_mult in H.
  - apply obind_some in H. destruct H as (p & _ & H). vm_compute in H. cbn [neval]. congruence.
  - apply obind_some in H. destruct H as (p & _ & H). vm_compute in H. cbn [neval]. congruence.
  - apply obind_some in H. destruct H as (p & Hp & H). apply obind_some in H.
    destruct H as (q & Hq & H). rewrite (IHx _ Hp), (IHy _ Hq) in H. cbn [sr_add] in H.
    destruct (u32 _) eqn:E in H; simpl in H; [|discriminate]. apply u32_some in E.
    cbn [neval]. congruence.
  - apply obind_some in H. destruct H as (p & Hp & H). apply obind_some in H.
    destruct H as (q & Hq & H). rewrite (IHx _ Hp), (IHy _ Hq) in H. cbn [sr_mul] in H.
    destruct (u32 _) eqn:E in H; simpl in H; [|discriminate]. apply u32_some in E.
    cbn [neval]. congruence.
Qed.

Theorem multiplicity_semiring : SrSemiring SMultiplicity.
Proof.
  unfold SrSemiring, semiring_law_pairs.
  repeat constructor; intros a b c u v H1 H2;
    apply eval_multiplicity in H1; apply eval_multiplicity in H2; subst; f_equal;
    cbn [neval fst snd]; lia.
Qed.

(* ------------------------------------------------------------------ Cost *)
Definition cval (v : sval) : option N := match v with VN n => Some n | _ => None end.
Definition cmin (x y : option N) : option N :=
  match x, y with
  | None, v | v, None => v
  | Some a, Some b => Some (N.min a b)
  end.
Definition cplus (x y : option N) : option N :=
  match x, y with
  | Some a, Some b => Some (a + b)%N
  | _, _ => None
  end.
Fixpoint ceval (a b c : option N) (e : ex) : option N :=
  match e with
  | XA => a | XB => b | XC => c | XZero => None | XOne => Some 0%N
  | XAdd x y => cmin (ceval a b c x) (ceval a b c y)
  | XMul x y => cplus (ceval a b c x) (ceval a b c y)
  end.
Definition of_c (o : option N) : sval := match o with Some n => VN n | None => VInf end.

Lemma new_cost : forall a u, sr_new SCost a = Some u -> u = of_c (cval a).
Proof.
  intros a u H. destruct a; simpl in H; try discriminate.
  - destruct (u32 n) eqn:E; simpl in H; [|discriminate]. apply u32_some in E. simpl. congruence.
  - simpl. congruence.
Qed.

Lemma eval_cost : forall a b c e u,
  sr_eval SCost a b c e = Some u -> u = of_c (ceval (cval a) (cval b) (cval c) e).
Proof.
  intros a b c e. induction e as [| | | | |x IHx y IHy|x IHx y IHy]; intros u H; cbn [sr_eval] in H.
  - now apply new_cost in H.
  - now apply new_cost in H.
  - now apply new_cost in H.
  - apply obind_some in H. destruct H as (p & _ & H). vm_compute in H. cbn [ceval of_c]. congruence.
  - apply obind_some in H. destruct H as (p & _ & H). vm_compute in H. cbn [ceval of_c]. congruence.
  - apply obind_some in H. destruct H as (p & Hp & H). apply obind_some in H.
    destruct H as (q & Hq & H). rewrite (IHx _ Hp), (IHy _ Hq) in H. cbn [ceval].
    destruct (ceval (cval a) (cval b) (cval c) x), (ceval (cval a) (cval b) (cval c) y);
      cbn [sr_add of_c cmin] in *; congruence.
  - apply obind_some in H. destruct H as (p & Hp & H). apply obind_some in H.
    destruct H as (q & Hq & H). rewrite (IHx _ Hp), (IHy _ Hq) in H. cbn [ceval].
    destruct (ceval (cval a) (cval b) (cval c) x), (ceval (cval a) (cval b) (cval c) y);
      cbn [sr_mul of_c cplus] in *; try congruence.
    destruct (u32 _) eqn:E in H; simpl in H; [|discriminate]. apply u32_some in E. congruence.
Qed.

Theorem cost_semiring : SrSemiring SCost.
Proof.
  unfold SrSemiring, semiring_law_pairs.
  repeat constructor; intros a b c u v H1 H2;
    apply eval_cost in H1; apply eval_cost in H2; subst; f_equal;
    cbn [ceval fst snd]; destruct (cval a), (cval b), (cval c); cbn [cmin cplus]; f_equal; lia.
Qed.

(* ------------------------------------------------------------------ the executable form on
   the model's own outputs (what the correspondence check evaluates on the implementation) *)
Definition nofloat (v : sval) : Prop := match v with VF _ => False | _ => True end.

Lemma sval_eqb_refl : forall v, nofloat v -> sval_eqb v v = true.
Proof.
  intros [b|n| |f] H; simpl; auto using Bool.eqb_reflx, N.eqb_refl.
Qed.

Lemma law_eq_of : forall x y,
  (forall u, x = Some u -> nofloat u) ->
  (forall u v, x = Some u -> y = Some v -> u = v) -> law_eq x y = true.
Proof.
  intros [u|] [v|] Hn H; simpl; auto. rewrite (H u v eq_refl eq_refl).
  apply sval_eqb_refl. rewrite <- (H u v eq_refl eq_refl). auto.
Qed.

Definition exact_ty (t : srty) : Prop := t = SBinaryTrust \/ t = SMultiplicity \/ t = SCost.

Lemma eval_nofloat : forall t a b c e u, exact_ty t -> sr_eval t a b c e = Some u -> nofloat u.
Proof.
  intros t a b c e u [->|[->| ->]] H.
  - apply eval_binary_trust in H. subst. exact I.
  - apply eval_multiplicity in H. subst. exact I.
  - apply eval_cost in H. subst. destruct (ceval _ _ _ _); exact I.
Qed.

Lemma exact_semiring : forall t, exact_ty t -> SrSemiring t.
Proof.
  intros t [->|[->| ->]];
    [apply binary_trust_semiring|apply multiplicity_semiring|apply cost_semiring].
Qed.

Theorem sr_laws_b_model : forall t a b c,
  exact_ty t -> sr_laws_b (sr_new t a) (map (sr_eval t a b c) sr_exprs) = true.
Proof.
  intros t a b c Ht. pose proof (exact_semiring t Ht) as L.
  unfold SrSemiring, semiring_law_pairs in L.
  repeat match goal with H : Forall _ (_ :: _) |- _ => inversion H; clear H; subst end.
  unfold sr_laws_b, sr_add_laws_b, sr_mul_assoc_b, sr_mul_rest_b, nth_o, sr_exprs.
  cbn [map nth length Nat.eqb andb].
  change (sr_new t a) with (sr_eval t a b c XA).
  repeat (apply andb_true_iff; split);
    (apply law_eq_of; [intros u Hu; eapply eval_nofloat; eauto|]);
    match goal with H : SrLaw _ _ |- forall u v, sr_eval _ _ _ _ ?l = _ -> sr_eval _ _ _ _ ?r = _ -> _ =>
      first [exact (fun u v => H a b c u v)] end.
Qed.

(* ------------------------------------------------------------------ ConfidenceScore *)
Definition f01 : float := 0x1.999999999999ap-4%float.   (* 0.1 *)
Definition f02 : float := 0x1.999999999999ap-3%float.   (* 0.2 *)
Definition f03 : float := 0x1.3333333333333p-2%float.   (* 0.3 *)

Theorem confidence_mul_not_associative :
  ~ SrLaw SConfidence (XMul (XMul XA XB) XC, XMul XA (XMul XB XC)).
Proof.
  intros H.
  specialize (H (VF f01) (VF f02) (VF f03)
                (VF (PrimFloat.mul (PrimFloat.mul f01 f02) f03))
                (VF (PrimFloat.mul f01 (PrimFloat.mul f02 f03)))).
  assert (E : VF (PrimFloat.mul (PrimFloat.mul f01 f02) f03) =
              VF (PrimFloat.mul f01 (PrimFloat.mul f02 f03))).
  { apply H; vm_compute; reflexivity. }
  inversion E as [E']. apply (f_equal Prim2SF) in E'. vm_compute in E'. discriminate E'.
Qed.

Theorem confidence_not_semiring : ~ SrSemiring SConfidence.
Proof.
  intros H. unfold SrSemiring, semiring_law_pairs in H.
  repeat match goal with H : Forall _ (_ :: _) |- _ => inversion H; clear H; subst end.
  apply confidence_mul_not_associative. assumption.
Qed.

(* the three values are legal ConfidenceScore arguments *)
Example confidence_witness_in_range : in01 f01 && in01 f02 && in01 f03 = true.
Proof. vm_compute. reflexivity. Qed.

Lemma confidence_mul_refuted :
  exists a b c : float,
    in01 a && in01 b && in01 c = true /\
    PrimFloat.mul (PrimFloat.mul a b) c <> PrimFloat.mul a (PrimFloat.mul b c) /\
    ~ SrLaw SConfidence (XMul (XMul XA XB) XC, XMul XA (XMul XB XC)).
Proof.
  exists f01, f02, f03. split; [exact confidence_witness_in_range|].
  split; [|exact confidence_mul_not_associative].
  intros E. apply (f_equal Prim2SF) in E. vm_compute in E. discriminate E.
Qed.

(* Former finding (fixed in /repo commit eb5e08fe819): Cost::mul added with an unchecked
   `a + b`, which wraps modulo 2^32 when overflow checks are off (release profile); with
   a = Finite(4294967295), b = Finite(1), c = Finite(0): a*(b+c) = Finite(4294967295) but
   a*b + a*c = Finite(0).  The code now uses checked_add(..).unwrap(), so the model panics on
   overflow in every profile and cost_semiring covers release builds too; the witness stays
   in corpus/C09/cost_release_overflow.json and is pinned here. *)
Example cost_former_release_witness :
  sr_eval SCost (VN 4294967295) (VN 1) (VN 0) (XMul XA (XAdd XB XC)) = Some (VN 4294967295) /\
  sr_eval SCost (VN 4294967295) (VN 1) (VN 0) (XAdd (XMul XA XB) (XMul XA XC)) = None.
Proof. vm_compute. split; reflexivity. Qed.
