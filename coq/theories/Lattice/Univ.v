(* E1 Lattice engine -- the universe of lattice type codes: one code per nesting of the
   shipped constructors, so a theorem "forall t" covers every nesting at once.
   Definitions only. *)
From HV Require Export Lattice.Model.
From HV Require Import Lattice.Tomb Lattice.UF.

Inductive sc := SBool | SU8 | SUnb.
Definition sc_top (s : sc) : option N :=
  match s with SBool => Some 1%N | SU8 => Some 255%N | SUnb => None end.

Inductive lty :=
| TUnit
| TMax (s : sc) | TMin (s : sc)
| TSet
| TMap (v : lty)
| TBot (v : lty) | TTop (v : lty)
| TConflict
| TPair (a b : lty)          (* Pair and every #[derive(Lattice)] struct (field-wise) *)
| TDom (k v : lty)
| TVec (v : lty)
| TSetTomb                    (* SetUnionWithTombstones (Lattice/Tomb.v) *)
| TMapTomb (v : lty)          (* MapUnionWithTombstones *)
| TUF.                        (* UnionFind (Lattice/UF.v) *)

Fixpoint val (t : lty) : Type :=
  match t with
  | TUnit => unit
  | TMax _ | TMin _ => N
  | TSet => list N
  | TMap v => list (N * val v)
  | TBot v | TTop v => option (val v)
  | TConflict => option N
  | TPair a b | TDom a b => (val a * val b)%type
  | TVec v => list (val v)
  | TSetTomb => tstate
  | TMapTomb v => mstate (val v)
  | TUF => uf
  end.

Fixpoint ops (t : lty) : LatOps (val t) :=
  match t return LatOps (val t) with
  | TUnit => unit_ops
  | TMax s => max_ops (sc_top s)
  | TMin s => min_ops (sc_top s)
  | TSet => set_ops
  | TMap v => map_ops (ops v)
  | TBot v => bot_ops (ops v)
  | TTop v => top_ops (ops v)
  | TConflict => conflict_ops
  | TPair a b => pair_ops (ops a) (ops b)
  | TDom a b => dom_ops (ops a) (ops b)
  | TVec v => vec_ops (ops v)
  | TSetTomb => settomb_ops
  | TMapTomb v => maptomb_ops (ops v)
  | TUF => uf_ops
  end.

(* DomPair's side condition in C01: the key lattice is totally ordered.  Scalars and
   their WithBot/WithTop wrappers are; everything else is treated as not total. *)
Fixpoint total_ty (t : lty) : bool :=
  match t with
  | TUnit | TMax _ | TMin _ => true
  | TBot v | TTop v => total_ty v
  | _ => false
  end.

Fixpoint key_total (t : lty) : bool :=
  match t with
  | TMap v | TBot v | TTop v | TVec v | TMapTomb v => key_total v
  | TPair a b => key_total a && key_total b
  | TDom k v => total_ty k && key_total k && key_total v
  | _ => true
  end.

(* WithTop over a lattice that already has a top: is_top misreports (known finding) *)
Fixpoint has_top (t : lty) : bool :=
  match t with
  | TUnit => true
  | TMax s => match sc_top s with Some _ => true | None => false end
  | TMin _ => true
  | TSet | TMap _ | TVec _ | TSetTomb | TMapTomb _ | TUF => false
  | TBot v => has_top v
  | TTop _ => true
  | TConflict => true
  | TPair a b | TDom a b => has_top a && has_top b
  end.

Fixpoint top_sound (t : lty) : bool :=
  match t with
  | TMap v | TBot v | TVec v | TMapTomb v => top_sound v
  | TTop v => top_sound v
  | TPair a b | TDom a b => top_sound a && top_sound b
  | _ => true
  end.

(* structural equality modulo iteration order of sets and maps: how an implementation
   value (canonicalised by sorting) is compared with the model's (insertion order) *)
Fixpoint same (t : lty) : val t -> val t -> bool :=
  match t return val t -> val t -> bool with
  | TUnit => fun _ _ => true
  | TMax _ | TMin _ => N.eqb
  | TSet => fun a b => Nat.eqb (length a) (length b) && forallb (fun k => mem k b) a
  | TMap v => fun a b =>
      Nat.eqb (length a) (length b) &&
      forallb (fun kv => match get (fst kv) b with
                         | Some vb => same v (snd kv) vb
                         | None => false end) a
  | TBot v | TTop v => fun a b =>
      match a, b with
      | None, None => true
      | Some x, Some y => same v x y
      | _, _ => false
      end
  | TConflict => fun a b =>
      match a, b with
      | None, None => true
      | Some x, Some y => N.eqb x y
      | _, _ => false
      end
  | TPair ta tb | TDom ta tb => fun a b => same ta (fst a) (fst b) && same tb (snd a) (snd b)
  | TVec v => fun a b =>
      Nat.eqb (length a) (length b) &&
      (fix go (x y : list (val v)) : bool :=
         match x, y with
         | vx :: rx, vy :: ry => same v vx vy && go rx ry
         | _, _ => true
         end) a b
  | TSetTomb => fun a b => seteqb (fst a) (fst b) && seteqb (snd a) (snd b)
  | TMapTomb v => fun a b =>
      Nat.eqb (length (fst a)) (length (fst b)) &&
      forallb (fun kv => match get (fst kv) (fst b) with
                         | Some vb => same v (snd kv) vb
                         | None => false end) (fst a) &&
      seteqb (snd a) (snd b)
  (* the parent map itself depends on hash iteration order and on path compression: compare
     the partitions (the lattice's own equality) *)
  | TUF => fun a b => eqb uf_ops a b
  end.

(* ------------------------------------------------------------------------------------
   The observation the harness makes on the real crate for a triple (a, b, c), and the
   same observation computed from the model. *)
Record obs (t : lty) := {
  o_ab : val t * bool;  o_ba : val t * bool;  o_aa : val t * bool;
  o_ab_c : val t * bool;  o_bc : val t * bool;  o_a_bc : val t * bool;
  o_eq_aa_a : bool;  o_eq_ab_ba : bool;  o_eq_assoc : bool;  o_eq_ab_a : bool;  o_eq_ba_b : bool;
  o_cmp_ab : option comparison;  o_cmp_ba : option comparison;  o_eq_ab : bool;
  o_bot_a : bool;  o_top_a : bool;  o_bot_b : bool;  o_top_b : bool;
}.
Arguments o_ab {t}. Arguments o_ba {t}. Arguments o_aa {t}. Arguments o_ab_c {t}.
Arguments o_bc {t}. Arguments o_a_bc {t}. Arguments o_eq_aa_a {t}. Arguments o_eq_ab_ba {t}.
Arguments o_eq_assoc {t}. Arguments o_eq_ab_a {t}. Arguments o_eq_ba_b {t}.
Arguments o_cmp_ab {t}. Arguments o_cmp_ba {t}. Arguments o_eq_ab {t}.
Arguments o_bot_a {t}. Arguments o_top_a {t}. Arguments o_bot_b {t}. Arguments o_top_b {t}.

Definition model_obs (t : lty) (a b c : val t) : obs t :=
  let L := ops t in
  let ab := mrg L a b in let ba := mrg L b a in let aa := mrg L a a in
  let ab_c := mrg L (fst ab) c in let bc := mrg L b c in let a_bc := mrg L a (fst bc) in
  {| o_ab := ab; o_ba := ba; o_aa := aa; o_ab_c := ab_c; o_bc := bc; o_a_bc := a_bc;
     o_eq_aa_a := eqb L (fst aa) a; o_eq_ab_ba := eqb L (fst ab) (fst ba);
     o_eq_assoc := eqb L (fst ab_c) (fst a_bc);
     o_eq_ab_a := eqb L (fst ab) a; o_eq_ba_b := eqb L (fst ba) b;
     o_cmp_ab := cmp L a b; o_cmp_ba := cmp L b a; o_eq_ab := eqb L a b;
     o_bot_a := isbot L a; o_top_a := istop L a; o_bot_b := isbot L b; o_top_b := istop L b |}.

Definition cmp_eqb (x y : option comparison) : bool :=
  match x, y with
  | None, None => true
  | Some Lt, Some Lt | Some Eq, Some Eq | Some Gt, Some Gt => true
  | _, _ => false
  end.

Definition same_r (t : lty) (x y : val t * bool) : bool :=
  same t (fst x) (fst y) && Bool.eqb (snd x) (snd y).

(* bit 0 of the verdict: the implementation's observation differs from the model's *)
Definition obs_agree (t : lty) (i mo : obs t) : bool :=
  same_r t (o_ab i) (o_ab mo) && same_r t (o_ba i) (o_ba mo) && same_r t (o_aa i) (o_aa mo) &&
  same_r t (o_ab_c i) (o_ab_c mo) && same_r t (o_bc i) (o_bc mo) && same_r t (o_a_bc i) (o_a_bc mo) &&
  Bool.eqb (o_eq_aa_a i) (o_eq_aa_a mo) && Bool.eqb (o_eq_ab_ba i) (o_eq_ab_ba mo) &&
  Bool.eqb (o_eq_assoc i) (o_eq_assoc mo) && Bool.eqb (o_eq_ab_a i) (o_eq_ab_a mo) &&
  Bool.eqb (o_eq_ba_b i) (o_eq_ba_b mo) &&
  cmp_eqb (o_cmp_ab i) (o_cmp_ab mo) && cmp_eqb (o_cmp_ba i) (o_cmp_ba mo) &&
  Bool.eqb (o_eq_ab i) (o_eq_ab mo) &&
  Bool.eqb (o_bot_a i) (o_bot_a mo) && Bool.eqb (o_top_a i) (o_top_a mo) &&
  Bool.eqb (o_bot_b i) (o_bot_b mo) && Bool.eqb (o_top_b i) (o_top_b mo).

Definition is_le (c : option comparison) : bool :=
  match c with Some Lt | Some Eq => true | _ => false end.

(* executable forms of the properties, evaluated on an observation (the implementation's) *)
Definition C01_holds_b (t : lty) (i : obs t) : bool :=
  o_eq_aa_a i && o_eq_ab_ba i && o_eq_assoc i.

Definition C02_holds_b (t : lty) (i : obs t) : bool :=
  Bool.eqb (snd (o_ab i)) (negb (o_eq_ab_a i)) &&
  Bool.eqb (snd (o_ba i)) (negb (o_eq_ba_b i)) &&
  Bool.eqb (negb (snd (o_ab i))) (is_le (o_cmp_ba i)) &&
  Bool.eqb (negb (snd (o_ba i))) (is_le (o_cmp_ab i)).

Definition C03_holds_b (t : lty) (i : obs t) : bool :=
  cmp_eqb (o_cmp_ab i) (naive (snd (o_ab i)) (snd (o_ba i))) &&
  cmp_eqb (o_cmp_ba i) (option_map CompOpp (o_cmp_ab i)) &&
  Bool.eqb (o_eq_ab i) (cmp_eqb (o_cmp_ab i) (Some Eq)) &&
  (negb (o_bot_a i) || is_le (o_cmp_ab i)) &&
  (negb (o_top_a i) || is_le (o_cmp_ba i)) &&
  (* is_bot / is_top are properties of the lattice value: equal values agree on them *)
  (negb (o_eq_ab i) || (Bool.eqb (o_bot_a i) (o_bot_b i) && Bool.eqb (o_top_a i) (o_top_b i))).

(* correspondence only (types outside a property's side condition) *)
Definition Ctrue_b (t : lty) (i : obs t) : bool := true.

(* verdict code per case: bit0 = correspondence broken, bit1 = property fails on impl *)
Definition verdict (agree holds : bool) : N :=
  ((if agree then 0 else 1) + (if holds then 0 else 2))%N.

Definition chk (P : forall t, obs t -> bool) (t : lty) (a b c : val t) (i : obs t) : N :=
  verdict (obs_agree t i (model_obs t a b c)) (P t i).

(* indices (from 0) of non-zero verdicts, with their verdict *)
Fixpoint bad_from (n : N) (l : list N) : list (N * N) :=
  match l with
  | [] => []
  | v :: r => if N.eqb v 0 then bad_from (n + 1) r else (n, v) :: bad_from (n + 1) r
  end.
Definition bad (l : list N) : list (N * N) := bad_from 0 l.
