(* E1/E2 proofs: the GHT bimorphisms distribute over the GHT merge (C07), on e2-coll's trie model
   and on top of its theorems (Coll/PGHT.v: merge_spec, deep_join_spec, cart_product_spec,
   peq_spec).
   - GhtCartesianProductBimorphism: full statement (the crate's == on the output tries);
   - GhtValTypeProductBimorphism (= the deep join at height 0, two leaves): full statement;
   - DeepJoinLatticeBimorphism / GhtNodeKeyedBimorphism towers (height >= 1): the two sides hold
     exactly the same set of rows and are (weakly) well-formed -- "_rows_partial": the output of a
     deep join may contain empty children, and for such tries == is finer than "same rows";
     the structural equality of the two sides is not proved here (it is checked on the
     implementation by the correspondence check). *)
From HV Require Import Lattice.MorphGHT Coll.PVC Coll.PGHT.

Set Implicit Arguments.

(* ---------------------------------------------------------------- merge on join outputs *)
(* Coll.PGHT.merge_spec is stated for [wf]; the outputs of the deep join are only [wfw]
   (children may be empty).  Same proof without the non-emptiness clause and the flag. *)
Definition merge_w_ok (h : nat) : Prop :=
  forall d a b, wfw h d a -> wfw h d b ->
    wfw h d (fst (merge h a b)) /\
    (forall x, In x (riter h (fst (merge h a b))) <-> In x (riter h a) \/ In x (riter h b)).

Section MergeFoldW.
  Variables (h d : nat).
  Hypothesis IH : merge_w_ok h.
  Let okw := fun kc : N * ght =>
    wfw h (S d) (snd kc) /\ Forall (fun r => head d r = fst kc) (riter h (snd kc)).
  Let stepf := fun (acc : list (N * ght) * bool) (kv : N * ght) =>
                 let '(ca, changed) := acc in
                 match cget ca (fst kv) with
                 | Some c => let '(c', chg) := merge h c (snd kv) in
                             (creplace ca (fst kv) c', changed || chg)
                 | None => (ca ++ [kv], changed || has_rows h (snd kv))
                 end.

  Lemma merge_fold_w rest : forall cur chg,
    NoDup (map fst cur) -> Forall okw cur -> NoDup (map fst rest) -> Forall okw rest ->
    let res := fold_left stepf rest (cur, chg) in
    NoDup (map fst (fst res)) /\ Forall okw (fst res) /\
    (forall x, In x (chrows h (fst res)) <-> In x (chrows h cur) \/ In x (chrows h rest)).
  Proof.
    induction rest as [|[k v] rest IHr]; intros cur chg ndc Fc ndr Fr; cbn zeta.
    - cbn. split; [assumption|split; [assumption|]]. intros x. tauto.
    - inversion ndr as [|? ? nk ndr']; inversion Fr as [|? ? okv Fr']; subst.
      destruct okv as (Wv & Hv). cbn [fst snd] in Wv, Hv. rewrite Forall_forall in Hv.
      cbn [fold_left].
      assert (Estep : stepf (cur, chg) (k, v) =
                      match cget cur k with
                      | Some c => let '(c', g) := merge h c v in (creplace cur k c', chg || g)
                      | None => (cur ++ [(k, v)], chg || has_rows h v)
                      end) by reflexivity.
      rewrite Estep. clear Estep.
      destruct (cget cur k) as [c|] eqn:G.
      + pose proof G as Gin. apply cget_in in Gin.
        pose proof Fc as Fc0. rewrite Forall_forall in Fc0.
        destruct (Fc0 _ Gin) as (Wc & Hc). cbn [fst snd] in Wc, Hc. rewrite Forall_forall in Hc.
        destruct (IH (S d) c v Wc Wv) as (W' & M').
        destruct (merge h c v) as [c' g]. cbn [fst snd] in W', M'.
        assert (okc' : okw (k, c')).
        { split; [exact W'|]. cbn [fst snd]. apply Forall_forall. intros x i.
          apply M' in i as [i|i]; [apply Hc, i|apply Hv, i]. }
        assert (Rows1 : forall x, In x (chrows h (creplace cur k c')) <->
                                  In x (chrows h cur) \/ In x (riter h v)).
        { intros x. apply (@creplace_rows h cur k c c' (riter h v) x G), M'. }
        destruct (IHr (creplace cur k c') (chg || g)) as (nd2 & F2 & M2);
          [rewrite creplace_keys; assumption|apply creplace_forall; assumption|assumption|assumption|].
        split; [exact nd2|split; [exact F2|]].
        intros x. rewrite M2, Rows1, chrows_cons, in_app_iff. tauto.
      + assert (nin : ~ In k (map fst cur)) by (apply cget_none, G).
        destruct (IHr (cur ++ [(k, v)]) (chg || has_rows h v)) as (nd2 & F2 & M2).
        * rewrite map_app. cbn. apply NoDup_snoc; assumption.
        * apply Forall_app. split; [assumption|]. constructor; [|constructor].
          split; [exact Wv|]. cbn [fst snd]. apply Forall_forall, Hv.
        * assumption.
        * assumption.
        * split; [exact nd2|split; [exact F2|]].
          intros x. rewrite M2, chrows_app, chrows_one, chrows_cons, !in_app_iff. tauto.
  Qed.
End MergeFoldW.

Theorem merge_w_spec h : merge_w_ok h.
Proof.
  induction h as [|h IH]; intros d a b Wa Wb.
  - destruct a as [ra|], b as [rb|]; try contradiction. cbn [merge fst snd wfw riter].
    destruct (merge_leaf Wa Wb) as (N1 & M1 & _). split; assumption.
  - destruct a as [|ca], b as [|cb]; try contradiction.
    destruct Wa as [nda Fa], Wb as [ndb Fb].
    pose proof (@merge_fold_w h d IH cb ca false nda Fa ndb Fb) as L. cbn zeta in L.
    cbn [merge].
    match goal with |- context [fold_left ?f cb (ca, false)] => set (res := fold_left f cb (ca, false)) in * end.
    destruct res as [ca' changed]. cbn [fst snd] in *. destruct L as (nd' & F' & M').
    cbn [wfw riter]. fold (chrows h ca') (chrows h ca) (chrows h cb).
    split; [split; assumption|exact M'].
Qed.

(* ---------------------------------------------------------------- tries built by the harness *)
Lemma build_spec nk rows :
  wf nk 0 (build nk rows) /\ forall x, In x (riter nk (build nk rows)) <-> In x rows.
Proof.
  unfold build. destruct (@insert_all nk rows (empty nk) (wf_empty nk 0)) as [W M].
  split; [exact W|]. intros x. rewrite M, riter_empty. cbn. tauto.
Qed.

Lemma Forall_len_merge h d a da n :
  wf h d a -> wf h d da ->
  Forall (fun x : row => n <= length x) (riter h a) ->
  Forall (fun x : row => n <= length x) (riter h da) ->
  Forall (fun x : row => n <= length x) (riter h (fst (merge h a da))).
Proof.
  intros Wa Wda Fa Fda. destruct (merge_spec h d a da Wa Wda) as (_ & M & _).
  rewrite Forall_forall in *. intros x i. apply M in i as [i|i]; auto.
Qed.

(* ---------------------------------------------------------------- the deep join *)
Section DeepJoin.
  Variables (h d nk : nat).
  Notation LenOk t := (Forall (fun x : row => h + d <= length x) (riter h t)).

  (* f(a merged da, b) and f(a, b) merged f(da, b): weakly well-formed, same rows *)
  Theorem deep_join_distrib_l a da b :
    wf h d a -> wf h d da -> wf h d b -> LenOk a -> LenOk da -> LenOk b ->
    let X := deep_join h nk (fst (merge h a da)) b in
    let Y := fst (merge h (deep_join h nk a b) (deep_join h nk da b)) in
    wfw h d X /\ wfw h d Y /\ forall z, In z (riter h X) <-> In z (riter h Y).
  Proof.
    intros Wa Wda Wb La Lda Lb X Y.
    destruct (merge_spec h d a da Wa Wda) as (Wm & Mm & _).
    pose proof (@Forall_len_merge h d a da _ Wa Wda La Lda) as Lm.
    destruct (deep_join_spec h d nk (fst (merge h a da)) b Wm Wb Lm Lb) as (WX & MX).
    destruct (deep_join_spec h d nk a b Wa Wb La Lb) as (W1 & M1).
    destruct (deep_join_spec h d nk da b Wda Wb Lda Lb) as (W2 & M2).
    destruct (merge_w_spec h d _ _ W1 W2) as (WY & MY).
    split; [exact WX|split; [exact WY|]]. intros z. unfold X, Y. rewrite MX, MY, M1, M2.
    unfold join_rel. split.
    - intros (x & y & ix & iy & e & q). apply Mm in ix as [ix|ix]; [left|right]; exists x, y; auto.
    - intros [(x & y & ix & iy & e & q)|(x & y & ix & iy & e & q)]; exists x, y;
        repeat split; try assumption; apply Mm; tauto.
  Qed.

  Theorem deep_join_distrib_r a b db :
    wf h d a -> wf h d b -> wf h d db -> LenOk a -> LenOk b -> LenOk db ->
    let X := deep_join h nk a (fst (merge h b db)) in
    let Y := fst (merge h (deep_join h nk a b) (deep_join h nk a db)) in
    wfw h d X /\ wfw h d Y /\ forall z, In z (riter h X) <-> In z (riter h Y).
  Proof.
    intros Wa Wb Wdb La Lb Ldb X Y.
    destruct (merge_spec h d b db Wb Wdb) as (Wm & Mm & _).
    pose proof (@Forall_len_merge h d b db _ Wb Wdb Lb Ldb) as Lm.
    destruct (deep_join_spec h d nk a (fst (merge h b db)) Wa Wm La Lm) as (WX & MX).
    destruct (deep_join_spec h d nk a b Wa Wb La Lb) as (W1 & M1).
    destruct (deep_join_spec h d nk a db Wa Wdb La Ldb) as (W2 & M2).
    destruct (merge_w_spec h d _ _ W1 W2) as (WY & MY).
    split; [exact WX|split; [exact WY|]]. intros z. unfold X, Y. rewrite MX, MY, M1, M2.
    unfold join_rel. split.
    - intros (x & y & ix & iy & e & q). apply Mm in iy as [iy|iy]; [left|right]; exists x, y; auto.
    - intros [(x & y & ix & iy & e & q)|(x & y & ix & iy & e & q)]; exists x, y;
        repeat split; try assumption; apply Mm; tauto.
  Qed.
End DeepJoin.

(* on leaves (height 0: GhtValTypeProductBimorphism) weak = strong well-formedness, so the two
   sides are == *)
Lemma wfw0_wf d t : wfw 0 d t -> wf 0 d t.
Proof. destruct t; cbn; auto. Qed.

Theorem valtype_product_distrib d nk a da b db :
  wf 0 d a -> wf 0 d da -> wf 0 d b -> wf 0 d db ->
  Forall (fun x : row => d <= length x) (riter 0 a) -> Forall (fun x : row => d <= length x) (riter 0 da) ->
  Forall (fun x : row => d <= length x) (riter 0 b) -> Forall (fun x : row => d <= length x) (riter 0 db) ->
  peq 0 (deep_join 0 nk (fst (merge 0 a da)) b)
        (fst (merge 0 (deep_join 0 nk a b) (deep_join 0 nk da b))) = true /\
  peq 0 (deep_join 0 nk a (fst (merge 0 b db)))
        (fst (merge 0 (deep_join 0 nk a b) (deep_join 0 nk a db))) = true.
Proof.
  intros Wa Wda Wb Wdb La Lda Lb Ldb. split.
  - destruct (@deep_join_distrib_l 0 d nk a da b Wa Wda Wb La Lda Lb) as (WX & WY & M).
    apply (peq_spec 0 d _ _ (wfw0_wf _ _ WX) (wfw0_wf _ _ WY)).
    split; intros z i; apply M, i.
  - destruct (@deep_join_distrib_r 0 d nk a b db Wa Wb Wdb La Lb Ldb) as (WX & WY & M).
    apply (peq_spec 0 d _ _ (wfw0_wf _ _ WX) (wfw0_wf _ _ WY)).
    split; intros z i; apply M, i.
Qed.

(* ---------------------------------------------------------------- the cartesian product *)
Theorem cart_product_distrib h d nko a da b db :
  wf h d a -> wf h d da -> wf h d b -> wf h d db ->
  peq nko (cart_product h nko (fst (merge h a da)) b)
          (fst (merge nko (cart_product h nko a b) (cart_product h nko da b))) = true /\
  peq nko (cart_product h nko a (fst (merge h b db)))
          (fst (merge nko (cart_product h nko a b) (cart_product h nko a db))) = true.
Proof.
  intros Wa Wda Wb Wdb.
  destruct (merge_spec h d a da Wa Wda) as (_ & Ma & _).
  destruct (merge_spec h d b db Wb Wdb) as (_ & Mb & _).
  destruct (cart_product_spec h nko a b) as (W1 & M1).
  destruct (cart_product_spec h nko da b) as (W2 & M2).
  destruct (cart_product_spec h nko a db) as (W3 & M3).
  destruct (cart_product_spec h nko (fst (merge h a da)) b) as (WL & ML).
  destruct (cart_product_spec h nko a (fst (merge h b db))) as (WR & MR).
  destruct (merge_spec nko 0 _ _ W1 W2) as (WY1 & MY1 & _).
  destruct (merge_spec nko 0 _ _ W1 W3) as (WY2 & MY2 & _).
  split.
  - apply (peq_spec nko 0 _ _ WL WY1). split; intros z i.
    + apply MY1. rewrite M1, M2. apply ML in i as (x & y & ix & iy & q).
      apply Ma in ix as [ix|ix]; [left|right]; exists x, y; auto.
    + apply ML. apply MY1 in i. rewrite M1, M2 in i.
      destruct i as [(x & y & ix & iy & q)|(x & y & ix & iy & q)]; exists x, y;
        repeat split; try assumption; apply Ma; tauto.
  - apply (peq_spec nko 0 _ _ WR WY2). split; intros z i.
    + apply MY2. rewrite M1, M3. apply MR in i as (x & y & ix & iy & q).
      apply Mb in iy as [iy|iy]; [left|right]; exists x, y; auto.
    + apply MR. apply MY2 in i. rewrite M1, M3 in i.
      destruct i as [(x & y & ix & iy & q)|(x & y & ix & iy & q)]; exists x, y;
        repeat split; try assumption; apply Mb; tauto.
Qed.

(* the harness's tries (rows of the full arity inserted into Default) satisfy the hypotheses *)
Lemma build_len nk arity rows :
  Forall (fun x : row => length x = arity) rows -> nk <= arity ->
  Forall (fun x : row => nk + 0 <= length x) (riter nk (build nk rows)).
Proof.
  intros F le. destruct (build_spec nk rows) as [_ M]. rewrite Forall_forall in *.
  intros x i. apply M in i. rewrite (F x i). rewrite Nat.add_0_r. exact le.
Qed.
