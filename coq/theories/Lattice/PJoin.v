(* E1 proofs for C04: merge is the join of the documented order, for every type code; the
   executable join test is sound; the induced order of each constructor is the documented one. *)
From HV Require Import Lattice.Univ Lattice.Het Lattice.Ord Lattice.PScalar Lattice.PSet Lattice.PBot
  Lattice.PPair Lattice.PVec Lattice.PMapBase Lattice.PMap Lattice.PUniv.

Theorem merge_is_join t : key_total t = true ->
  forall a b : val t, W (ops t) a -> W (ops t) b ->
    W (ops t) (m (ops t) a b) /\
    Le (ops t) a (m (ops t) a b) /\ Le (ops t) b (m (ops t) a b) /\
    forall c, W (ops t) c -> Le (ops t) a c -> Le (ops t) b c -> Le (ops t) (m (ops t) a b) c.
Proof.
  intros K a b Wa Wb. pose proof (laws t K) as H. repeat split.
  - apply (m_wf H); assumption.
  - apply le_merge_l; assumption.
  - apply le_merge_r; assumption.
  - intros c Wc. apply le_lub; assumption.
Qed.

Lemma le_b_Le t : key_total t = true -> forall x y : val t, W (ops t) x -> W (ops t) y ->
  (le_b t x y = true <-> Le (ops t) x y).
Proof.
  intros K x y Wx Wy. unfold le_b. rewrite <- (cmp_le_iff (laws t K) Wx Wy).
  destruct (cmp (ops t) x y) as [[]|]; cbn; intuition congruence.
Qed.

(* the executable test used on implementation outputs decides "is the join" *)
Theorem join_b_sound t : key_total t = true ->
  forall (a b : val t) (i : obs t), W (ops t) a -> W (ops t) b ->
    C04_join_b t a b i = true -> E (ops t) (fst (o_ab i)) (m (ops t) a b).
Proof.
  intros K a b i Wa Wb. unfold C04_join_b. cbv zeta. rewrite !andb_true_iff.
  intros [[[Wr L1] L2] L3]. pose proof (laws t K) as H.
  assert (Wm : W (ops t) (m (ops t) a b)) by (apply (m_wf H); assumption).
  apply (le_b_Le t K) in L1; try assumption. apply (le_b_Le t K) in L2; try assumption.
  apply (le_b_Le t K) in L3; try assumption.
  apply le_antisym; try assumption. apply le_lub; assumption.
Qed.

(* ---------------------------------------------------------------- documented orders *)
Lemma set_order (a b : list N) : W set_ops a -> W set_ops b -> (Le set_ops a b <-> incl a b).
Proof.
  intros Wa Wb. unfold W in *. cbn [wf set_ops] in *. apply nodupb_NoDup in Wa, Wb.
  unfold Le, E, m. cbn [mrg eqb set_ops fst].
  rewrite set_eqb_seq by (try apply set_extend_NoDup; assumption). split.
  - intros S x Hx. apply S, set_extend_In. right. exact Hx.
  - intros I x. rewrite set_extend_In. split; [|tauto]. intros [Hx|Hx]; [exact Hx|apply I, Hx].
Qed.

Lemma max_join top (a b : N) : fst (mrg (max_ops top) a b) = N.max a b.
Proof. cbn. destruct (N.ltb_spec a b); cbn; lia. Qed.

Lemma min_join top (a b : N) : fst (mrg (min_ops top) a b) = N.min a b.
Proof. cbn. destruct (N.ltb_spec b a); cbn; lia. Qed.

Lemma conflict_join (a b : option N) :
  fst (mrg conflict_ops a b) =
  match a, b with
  | Some x, Some y => if N.eqb x y then Some x else None
  | _, _ => None
  end.
Proof. destruct a as [x|], b as [y|]; cbn; try reflexivity. destruct (N.eqb x y); reflexivity. Qed.

Section Orders.
  Variable t u : lty.
  Hypothesis Kt : key_total t = true.
  Hypothesis Ku : key_total u = true.

  Lemma map_order a b : W (ops (TMap t)) a -> W (ops (TMap t)) b ->
    (Le (ops (TMap t)) a b <-> mle _ (ops t) a b).
  Proof. cbn [ops]. apply (o_Le_iff (map_ord _ _ (laws t Kt))). Qed.

  Lemma withbot_order a b : W (ops (TBot t)) a -> W (ops (TBot t)) b ->
    (Le (ops (TBot t)) a b <-> bot_le _ (ops t) a b).
  Proof. cbn [ops]. apply (o_Le_iff (bot_ord _ _ (laws t Kt))). Qed.

  Lemma withtop_order a b : W (ops (TTop t)) a -> W (ops (TTop t)) b ->
    (Le (ops (TTop t)) a b <-> top_le _ (ops t) a b).
  Proof. cbn [ops]. apply (o_Le_iff (top_ord _ _ (laws t Kt))). Qed.

  Lemma pair_order a b : W (ops (TPair t u)) a -> W (ops (TPair t u)) b ->
    (Le (ops (TPair t u)) a b <-> pair_le _ _ (ops t) (ops u) a b).
  Proof. cbn [ops]. apply (o_Le_iff (pair_ord _ _ _ _ (laws t Kt) (laws u Ku))). Qed.

  Lemma dom_order a b : total_ty t = true -> W (ops (TDom t u)) a -> W (ops (TDom t u)) b ->
    (Le (ops (TDom t u)) a b <-> dom_le _ _ (ops t) (ops u) a b).
  Proof.
    intros T. cbn [ops]. apply (o_Le_iff (dom_ord _ _ _ _ (laws t Kt) (laws u Ku) (total_ops t T))).
  Qed.

  Lemma vec_order a b : W (ops (TVec t)) a -> W (ops (TVec t)) b ->
    (Le (ops (TVec t)) a b <-> vle _ (ops t) a b).
  Proof. cbn [ops]. apply (o_Le_iff (vec_ord _ _ (laws t Kt))). Qed.
End Orders.
