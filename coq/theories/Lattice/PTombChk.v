(* E1 proofs: the executable form of C05 for maps (Tomb.C05_map_holds_b, evaluated by the check
   on the implementation's outputs) is satisfied by the model's own observations, as a
   consequence of the merge-tree theorem: two least upper bounds of the same values are equal
   in the lattice's own equality. *)
From HV Require Import Lattice.Model Lattice.Ord Lattice.PSet Lattice.PMapBase Lattice.PMap
  Lattice.Tomb Lattice.PTomb.
From Coq Require Import PeanoNat ZifyBool ZifyN.

Section MapChk.
  Variable V : Type.
  Variable LV : LatOps V.
  Hypothesis H : LatLaws LV.

  Notation MT := (maptomb_ops LV).
  Notation mst := (mstate V).
  Notation ag := (aget V LV).
  Notation ol := (ole V LV).
  Notation ow := (owf V LV).

  Lemma vget_ag k (s : mst) : vget LV k s = ag k (fst s).
  Proof. reflexivity. Qed.

  Definition vstep (k : N) (acc : option V) (s : mst) : option V :=
    match acc, vget LV k s with
    | None, x => x
    | Some a, None => Some a
    | Some a, Some b => Some (fst (mrg LV a b))
    end.

  Lemma vjoin_fold k ss : vjoin LV k ss = fold_left (vstep k) ss None.
  Proof. reflexivity. Qed.

  Lemma ol_refl x : ow x -> ol x x.
  Proof. destruct x as [x|]; cbn; [apply (le_refl H)|trivial]. Qed.

  (* one step: the new accumulator is a least upper bound of the old one and the new value *)
  Lemma vstep_lub k acc (s : mst) : ow acc -> ow (ag k (fst s)) ->
    let r := vstep k acc s in
    ow r /\ ol acc r /\ ol (ag k (fst s)) r /\
    forall z, ow z -> ol acc z -> ol (ag k (fst s)) z -> ol r z.
  Proof.
    intros Wa Ws. unfold vstep. rewrite vget_ag.
    destruct acc as [a|]; destruct (ag k (fst s)) as [b|]; cbn in *.
    - repeat split.
      + apply (m_wf H); assumption.
      + apply (le_merge_l H); assumption.
      + apply (le_merge_r H); assumption.
      + intros [z|] Wz L1 L2; cbn in *; [|contradiction]. apply (le_lub H); assumption.
    - repeat split; auto. apply (le_refl H), Wa.
    - repeat split; auto. apply (le_refl H), Ws.
    - repeat split; auto.
  Qed.

  Lemma vfold_lub k ss : forall acc, ow acc -> (forall s, In s ss -> ow (ag k (fst s))) ->
    let r := fold_left (vstep k) ss acc in
    ow r /\ ol acc r /\ (forall s, In s ss -> ol (ag k (fst s)) r) /\
    forall z, ow z -> ol acc z -> (forall s, In s ss -> ol (ag k (fst s)) z) -> ol r z.
  Proof.
    induction ss as [|s r IH]; intros acc Wa Ws; cbn [fold_left].
    - repeat split; [exact Wa|apply ol_refl, Wa|intros s []|intros z _ L _; exact L].
    - destruct (vstep_lub k acc s Wa (Ws s (or_introl eq_refl))) as [W1 [L1 [L2 L3]]].
      destruct (IH (vstep k acc s) W1 (fun s' Hs => Ws s' (or_intror Hs))) as [W2 [M1 [M2 M3]]].
      cbv zeta in *. repeat split.
      + exact W2.
      + apply (ol_trans V LV H) with (y := vstep k acc s); assumption.
      + intros s' [<-|Hs].
        * apply (ol_trans V LV H) with (y := vstep k acc s); auto. apply Ws. left. reflexivity.
        * apply M2, Hs.
      + intros z Wz La Lz. apply M3; [exact Wz| |].
        * apply L3; [exact Wz|exact La|apply Lz; left; reflexivity].
        * intros s' Hs. apply Lz. right. exact Hs.
  Qed.

  (* two least upper bounds agree up to the lattice's equality *)
  Lemma lub_veqE x y : ow x -> ow y -> ol x y -> ol y x -> veqE LV x y = true.
  Proof.
    destruct x as [x|], y as [y|]; cbn; try tauto; try reflexivity.
    intros Wx Wy L1 L2. apply (le_antisym H); assumption.
  Qed.

  Lemma mtw_ow (s : mst) k : W MT s -> ow (ag k (fst s)).
  Proof. intros Ws. apply (mt_wf_spec V LV) in Ws. apply (ag_ow V LV), (proj1 Ws). Qed.

  (* the merge-tree result of the model passes the executable check against any listing ss of
     the same replica states *)
  Theorem map_res_ok_tree (t : mtree mst) ss : Forall (W MT) (leaves t) ->
    (forall s, In s (leaves t) <-> In s ss) ->
    map_res_ok LV ss (fst (teval MT t)) (snd (teval MT t)) = true.
  Proof.
    intros F S. destruct (maptomb_tree V LV H t F) as [Wt [T [G P]]].
    pose proof Wt as Wt'. apply (mt_wf_spec V LV) in Wt'. destruct Wt' as [Wm [Nt D]].
    assert (IT : forall k, in_tomb (leaves t) k <-> in_tomb ss k).
    { intros k. unfold in_tomb. split; intros [s [Hs Hk]]; exists s; split; try apply S; assumption. }
    assert (Fss : forall s, In s ss -> W MT s).
    { intros s Hs. rewrite Forall_forall in F. apply F, S, Hs. }
    unfold map_res_ok. rewrite !andb_true_iff. split; [split|].
    - apply seteqb_spec; [exact Nt|apply NoDup_nodup|].
      intros k. rewrite T, nodup_In, all_tomb_In. apply IT.
    - apply disjb_spec. exact D.
    - apply forallb_forall. intros k _.
      destruct (mem k (all_tomb ss)) eqn:M.
      + apply mem_In, all_tomb_In, IT in M. rewrite (G k M). reflexivity.
      + apply mem_false in M. rewrite all_tomb_In, <- IT in M.
        destruct (P k M) as [P1 P2].
        destruct (vfold_lub k ss None I (fun s Hs => mtw_ow s k (Fss s Hs))) as [W2 [_ [M2 M3]]].
        cbv zeta in *. rewrite vjoin_fold. rewrite vget_ag. cbn [fst].
        apply lub_veqE.
        * apply (ag_ow V LV), Wm.
        * exact W2.
        * apply P2; [exact W2|]. intros s Hs. apply M2, S, Hs.
        * apply M3; [apply (ag_ow V LV), Wm|exact I|]. intros s Hs. apply P1, S, Hs.
  Qed.

  (* step by step: the receiver after absorbing a prefix is the value of the left comb *)
  Lemma map_steps_ok others : forall (tr : mtree mst) pre,
    Forall (W MT) (leaves tr) -> Forall (W MT) others ->
    (forall s, In s (leaves tr) <-> In s pre) ->
    all2 (fun ss o => map_res_ok LV ss (so_live o) (so_tomb o))
         (prefixes pre others) (model_steps MT (teval MT tr) others) = true.
  Proof.
    induction others as [|o r IH]; intros tr pre F Fo S; cbn [prefixes model_steps all2]; [reflexivity|].
    inversion Fo as [|? ? Wo Fr]; subst. cbn [so_live so_tomb].
    assert (F' : Forall (W MT) (leaves (Node tr (Leaf o)))).
    { cbn [leaves]. apply Forall_app. split; [exact F|constructor; [exact Wo|constructor]]. }
    assert (S' : forall s, In s (leaves (Node tr (Leaf o))) <-> In s (pre ++ [o])).
    { intros s. cbn [leaves]. rewrite !in_app_iff, S. tauto. }
    apply andb_true_iff. split.
    - exact (map_res_ok_tree (Node tr (Leaf o)) (pre ++ [o]) F' S').
    - exact (IH (Node tr (Leaf o)) (pre ++ [o]) F' Fr S').
  Qed.

  Theorem C05_map_holds_b_model init others (t : mtree mst) :
    Forall (W MT) (init :: others) ->
    (forall s, In s (leaves t) <-> In s (init :: others)) ->
    C05_map_holds_b LV init others [model_steps MT init others] [teval MT t] = true.
  Proof.
    intros F S. inversion F as [|? ? Wi Fo]; subst. unfold C05_map_holds_b. cbn [forallb].
    rewrite !andb_true_r. apply andb_true_iff. split; [apply andb_true_iff; split|].
    - apply (map_steps_ok others (Leaf init) [init]); [constructor; [exact Wi|constructor]|exact Fo|].
      intros s. cbn. tauto.
    - apply flags_ok_model; [exact (maptomb_laws V LV H)|exact Wi|exact Fo].
    - apply map_res_ok_tree; [|exact S].
      apply Forall_forall. intros s Hs. rewrite Forall_forall in F. apply F, S, Hs.
  Qed.
End MapChk.
