(* E1 proofs: map_union.rs, part 2 -- the order laws *)
From HV Require Import Lattice.Model Lattice.Ord Lattice.PSet Lattice.PMapBase.

Arguments merged_get {V}.
Arguments upd {V}.
Arguments isnew {V}.

Section MapOrd.
  Variable V : Type.
  Variable LV : LatOps V.
  Hypothesis H : LatLaws LV.

  Notation mp := (list (N * V)).
  Notation MW := (W (map_ops LV)).

  (* the visible value at a key: bottom-valued entries are invisible *)
  Definition aget (k : N) (a : mp) : option V :=
    match get k a with
    | Some v => if isbot LV v then None else Some v
    | None => None
    end.

  Definition ole (x y : option V) : Prop :=
    match x, y with
    | None, _ => True
    | Some _, None => False
    | Some a, Some b => Le LV a b
    end.

  Definition mle (a b : mp) : Prop := forall k, ole (aget k a) (aget k b).

  Lemma mw_nodup a : MW a -> NoDup (keys a).
  Proof.
    unfold W. cbn [wf map_ops]. rewrite andb_true_iff. intros [N _]. apply nodupb_NoDup, N.
  Qed.

  Lemma mw_val a k v : MW a -> get k a = Some v -> W LV v.
  Proof.
    unfold W at 1. cbn [wf map_ops]. rewrite andb_true_iff. intros [_ F] G.
    apply get_In in G. rewrite forallb_forall in F. exact (F _ G).
  Qed.

  Lemma mw_intro a : NoDup (keys a) -> (forall k v, In (k, v) a -> W LV v) -> MW a.
  Proof.
    intros N F. unfold W. cbn [wf map_ops]. apply andb_true_iff. split.
    - apply nodupb_NoDup, N.
    - apply forallb_forall. intros [k v] Hi. exact (F k v Hi).
  Qed.

  Lemma aget_Some k a v : aget k a = Some v <-> get k a = Some v /\ isbot LV v = false.
  Proof.
    unfold aget. destruct (get k a) as [x|].
    - destruct (isbot LV x) eqn:B; split.
      + discriminate.
      + intros [E1 E2]. inversion E1; subst. congruence.
      + intros E1. inversion E1; subst. tauto.
      + intros [E1 _]. exact E1.
    - split; [discriminate|]. intros [E1 _]. discriminate.
  Qed.

  Lemma aget_None k a : aget k a = None <->
    (get k a = None \/ exists v, get k a = Some v /\ isbot LV v = true).
  Proof.
    unfold aget. destruct (get k a) as [x|].
    - destruct (isbot LV x) eqn:B; split; try tauto; try discriminate.
      + intros _. right. exists x. tauto.
      + intros [E1|[v [E1 E2]]]; [discriminate|]. inversion E1; subst. congruence.
    - tauto.
  Qed.

  Lemma nonbot_up x y : W LV x -> W LV y -> Le LV x y -> isbot LV x = false -> isbot LV y = false.
  Proof.
    intros Wx Wy L B. destruct (isbot LV y) eqn:By; [|reflexivity].
    rewrite (le_bot_is_bot H Wx Wy L By) in B. discriminate.
  Qed.

  Lemma aget_wf a k v : MW a -> aget k a = Some v -> W LV v.
  Proof. intros Wa G. apply aget_Some in G. destruct G as [G _]. exact (mw_val _ _ _ Wa G). Qed.

  Lemma mle_refl a : MW a -> mle a a.
  Proof.
    intros Wa k. destruct (aget k a) as [v|] eqn:G; cbn; [|exact I].
    apply le_refl; [exact H|]. exact (aget_wf _ _ _ Wa G).
  Qed.

  Lemma mle_trans a b c : MW a -> MW b -> MW c -> mle a b -> mle b c -> mle a c.
  Proof.
    intros Wa Wb Wc L1 L2 k. specialize (L1 k). specialize (L2 k).
    destruct (aget k a) as [va|] eqn:Ga; cbn in *; [|exact I].
    destruct (aget k b) as [vb|] eqn:Gb; cbn in *; [|contradiction].
    destruct (aget k c) as [vc|] eqn:Gc; cbn in *; [|contradiction].
    apply le_trans with (b := vb); eauto using aget_wf.
  Qed.

  (* ------------------------------------------------------------ equality loop *)
  Lemma eq_go_spec a b ks :
    map_eq_go LV a b ks = true <->
    forall k, In k ks -> exists va vb, get k a = Some va /\ get k b = Some vb /\ eqb LV va vb = true.
  Proof.
    induction ks as [|k ks IH]; cbn [map_eq_go].
    - split; [intros _ k []|reflexivity].
    - destruct (get k a) as [va|] eqn:Ga; [destruct (get k b) as [vb|] eqn:Gb|].
      + destruct (eqb LV va vb) eqn:Q.
        * rewrite IH. split.
          -- intros F k' [Hk|Hk]; [subst; exists va, vb; tauto|apply F, Hk].
          -- intros F k' Hk. apply F. right. exact Hk.
        * split; [discriminate|]. intros F. destruct (F k (or_introl Logic.eq_refl)) as [x [y [E1 [E2 E3]]]].
          congruence.
      + split; [discriminate|]. intros F. destruct (F k (or_introl Logic.eq_refl)) as [x [y [E1 [E2 E3]]]].
        congruence.
      + split; [discriminate|]. intros F. destruct (F k (or_introl Logic.eq_refl)) as [x [y [E1 [E2 E3]]]].
        congruence.
  Qed.

  Lemma nonbot_keys_In a k : NoDup (keys a) ->
    (In k (nonbot_keys LV a) <-> exists v, aget k a = Some v).
  Proof.
    intros Na. unfold nonbot_keys. rewrite in_map_iff. split.
    - intros [[k' v] [Hk Hi]]. cbn in Hk. subst k'. apply filter_In in Hi. destruct Hi as [Hi B].
      cbn in B. apply negb_true_iff in B. exists v. apply aget_Some. split; [|exact B].
      apply In_get; assumption.
    - intros [v G]. apply aget_Some in G. destruct G as [G B]. exists (k, v). split; [reflexivity|].
      apply filter_In. split; [apply get_In, G|]. cbn. rewrite B. reflexivity.
  Qed.

  Lemma map_eq_mle a b : MW a -> MW b -> (map_eqb LV a b = true <-> mle a b /\ mle b a).
  Proof.
    intros Wa Wb. pose proof (mw_nodup _ Wa) as Na. pose proof (mw_nodup _ Wb) as Nb.
    unfold map_eqb. rewrite eq_go_spec. split.
    - intros F. split; intros k.
      + destruct (aget k a) as [va|] eqn:Ga; cbn; [|exact I].
        destruct (F k) as [x [y [E1 [E2 E3]]]].
        { apply in_app_iff. left. apply nonbot_keys_In; eauto. }
        apply aget_Some in Ga. destruct Ga as [Ga Ba]. rewrite E1 in Ga. inversion Ga; subst x.
        assert (Wx : W LV va) by exact (mw_val _ _ _ Wa E1).
        assert (Wy : W LV y) by exact (mw_val _ _ _ Wb E2).
        assert (By : isbot LV y = false) by (rewrite <- (eq_is_bot H Wx Wy E3); exact Ba).
        assert (Gb : aget k b = Some y) by (apply aget_Some; tauto). rewrite Gb.
        apply le_of_eq; assumption.
      + destruct (aget k b) as [vb|] eqn:Gb; cbn; [|exact I].
        destruct (F k) as [x [y [E1 [E2 E3]]]].
        { apply in_app_iff. right. apply nonbot_keys_In; eauto. }
        apply aget_Some in Gb. destruct Gb as [Gb Bb]. rewrite E2 in Gb. inversion Gb; subst y.
        assert (Wx : W LV x) by exact (mw_val _ _ _ Wa E1).
        assert (Wy : W LV vb) by exact (mw_val _ _ _ Wb E2).
        assert (Bx : isbot LV x = false) by (rewrite (eq_is_bot H Wx Wy E3); exact Bb).
        assert (Ga : aget k a = Some x) by (apply aget_Some; tauto). rewrite Ga.
        apply le_of_eq; auto using (e_sym H).
    - intros [L1 L2] k Hk. apply in_app_iff in Hk. destruct Hk as [Hk|Hk].
      + apply nonbot_keys_In in Hk; [|exact Na]. destruct Hk as [va Ga].
        pose proof (L1 k) as P1. rewrite Ga in P1.
        destruct (aget k b) as [vb|] eqn:Gb; cbn in P1; [|contradiction].
        pose proof (L2 k) as P2. rewrite Ga, Gb in P2. cbn in P2.
        exists va, vb. apply aget_Some in Ga. apply aget_Some in Gb.
        repeat split; try tauto. apply le_antisym; try assumption.
        * exact (mw_val _ _ _ Wa (proj1 Ga)).
        * exact (mw_val _ _ _ Wb (proj1 Gb)).
      + apply nonbot_keys_In in Hk; [|exact Nb]. destruct Hk as [vb Gb].
        pose proof (L2 k) as P2. rewrite Gb in P2.
        destruct (aget k a) as [va|] eqn:Ga; cbn in P2; [|contradiction].
        pose proof (L1 k) as P1. rewrite Ga, Gb in P1. cbn in P1.
        exists va, vb. apply aget_Some in Ga. apply aget_Some in Gb.
        repeat split; try tauto. apply le_antisym; try assumption.
        * exact (mw_val _ _ _ Wa (proj1 Ga)).
        * exact (mw_val _ _ _ Wb (proj1 Gb)).
  Qed.

  (* ------------------------------------------------------------ merge *)
  Lemma map_merge_wf a b : MW a -> MW b -> MW (fst (map_merge LV a b)).
  Proof.
    intros Wa Wb. pose proof (mw_nodup _ Wa) as Na. pose proof (mw_nodup _ Wb) as Nb.
    apply mw_intro.
    - apply map_merge_keys_NoDup; assumption.
    - intros k v Hi. apply In_get in Hi; [|apply map_merge_keys_NoDup; assumption].
      rewrite map_merge_get in Hi by assumption. unfold merged_get in Hi.
      destruct (get k a) as [va|] eqn:Ga; destruct (get k b) as [vb|] eqn:Gb.
      + destruct (isbot LV vb); inversion Hi; subst.
        * exact (mw_val _ _ _ Wa Ga).
        * apply (m_wf H); [exact (mw_val _ _ _ Wa Ga)|exact (mw_val _ _ _ Wb Gb)].
      + inversion Hi; subst. exact (mw_val _ _ _ Wa Ga).
      + destruct (isbot LV vb); inversion Hi; subst. exact (mw_val _ _ _ Wb Gb).
      + discriminate.
  Qed.

  (* pointwise: the merged visible value is a least upper bound of the two visible values *)
  Definition owf (z : option V) : Prop := match z with Some v => W LV v | None => True end.

  Lemma merged_point a b k : MW a -> MW b ->
    let r := aget k (fst (map_merge LV a b)) in
    ole (aget k a) r /\ ole (aget k b) r /\
    forall z, owf z -> ole (aget k a) z -> ole (aget k b) z -> ole r z.
  Proof.
    intros Wa Wb. pose proof (mw_nodup _ Wa) as Na. pose proof (mw_nodup _ Wb) as Nb.
    assert (R : aget k (fst (map_merge LV a b)) =
                match merged_get LV a b k with
                | Some v => if isbot LV v then None else Some v
                | None => None
                end)
      by (unfold aget; rewrite map_merge_get by assumption; reflexivity).
    cbv zeta. rewrite R. clear R. unfold merged_get, aget.
    destruct (get k a) as [va|] eqn:Ga; destruct (get k b) as [vb|] eqn:Gb.
    - assert (Wva : W LV va) by exact (mw_val _ _ _ Wa Ga).
      assert (Wvb : W LV vb) by exact (mw_val _ _ _ Wb Gb).
      assert (Wm : W LV (fst (mrg LV va vb))) by (apply (m_wf H); assumption).
      destruct (isbot LV vb) eqn:Bb.
      + (* other side is bottom: unchanged *)
        destruct (isbot LV va) eqn:Ba; cbn; repeat split; try exact I; try tauto.
        apply le_refl; assumption.
      + assert (Bm : isbot LV (fst (mrg LV va vb)) = false).
        { apply (nonbot_up vb); try assumption. apply le_merge_r; assumption. }
        rewrite Bm. destruct (isbot LV va) eqn:Ba; cbn; repeat split; try exact I.
        * apply le_merge_r; assumption.
        * intros [z|] Wz _ L2; cbn in *; [|contradiction].
          apply le_lub; try assumption. apply bot_least; assumption.
        * apply le_merge_l; assumption.
        * apply le_merge_r; assumption.
        * intros [z|] Wz L1 L2; cbn in *; [|contradiction]. apply le_lub; assumption.
    - assert (Wva : W LV va) by exact (mw_val _ _ _ Wa Ga).
      destruct (isbot LV va) eqn:Ba; cbn; repeat split; try exact I; try tauto.
      apply le_refl; assumption.
    - assert (Wvb : W LV vb) by exact (mw_val _ _ _ Wb Gb).
      destruct (isbot LV vb) eqn:Bb; cbn; rewrite ?Bb; cbn; repeat split; try exact I; try tauto.
      apply le_refl; assumption.
    - cbn. repeat split; try exact I; try tauto.
  Qed.

  (* ------------------------------------------------------------ changed flag *)
  Lemma map_ch_false a b : MW a -> MW b -> (snd (map_merge LV a b) = false <-> mle b a).
  Proof.
    intros Wa Wb. pose proof (mw_nodup _ Wa) as Na. pose proof (mw_nodup _ Wb) as Nb.
    rewrite map_merge_changed by assumption. split.
    - intros F k. destruct (aget k b) as [vb|] eqn:Gb; cbn; [|exact I].
      apply aget_Some in Gb. destruct Gb as [Gb Bb].
      assert (U : upd LV a (k, vb) = false).
      { destruct (upd LV a (k, vb)) eqn:U; [|reflexivity].
        assert (existsb (upd LV a) b = true); [|congruence].
        apply existsb_exists. exists (k, vb). split; [apply get_In, Gb|exact U]. }
      unfold upd in U. cbn [fst snd] in U. rewrite Bb in U. cbn in U.
      destruct (get k a) as [va|] eqn:Ga; [|discriminate].
      assert (Wva : W LV va) by exact (mw_val _ _ _ Wa Ga).
      assert (Wvb : W LV vb) by exact (mw_val _ _ _ Wb Gb).
      assert (L : Le LV vb va) by (apply (ch_false_iff H Wva Wvb); exact U).
      assert (Ba : isbot LV va = false) by (apply (nonbot_up vb); assumption).
      unfold aget. rewrite Ga, Ba. exact L.
    - intros L. destruct (existsb (upd LV a) b) eqn:X; [|reflexivity]. exfalso.
      apply existsb_exists in X. destruct X as [[k vb] [Hi U]].
      unfold upd in U. cbn [fst snd] in U. apply andb_true_iff in U. destruct U as [Bb U].
      apply negb_true_iff in Bb.
      assert (Gb : get k b = Some vb) by (apply In_get; assumption).
      pose proof (L k) as P. unfold aget in P. rewrite Gb, Bb in P.
      destruct (get k a) as [va|] eqn:Ga; [|exact P].
      destruct (isbot LV va); [exact P|]. cbn in P.
      assert (Wva : W LV va) by exact (mw_val _ _ _ Wa Ga).
      assert (Wvb : W LV vb) by exact (mw_val _ _ _ Wb Gb).
      apply (ch_false_iff H Wva Wvb) in P. unfold ch in P. congruence.
  Qed.

  (* ------------------------------------------------------------ partial_cmp loop *)
  (* "other is greater at k" as the loop sees it *)
  Definition ogk (a b : mp) (k : N) : bool :=
    match get k a, get k b with
    | Some va, Some vb => snd (mrg LV va vb)
    | Some _, None => false
    | None, Some _ => true
    | None, None => true
    end.

  Lemma cmp_go_spec a b : MW a -> MW b -> forall ks sg og,
    map_cmp_go LV a b ks sg og = naive (og || existsb (ogk a b) ks) (sg || existsb (ogk b a) ks).
  Proof.
    intros Wa Wb. induction ks as [|k ks IH]; intros sg og; cbn [map_cmp_go existsb].
    - rewrite !orb_false_r. destruct sg, og; reflexivity.
    - unfold ogk at 1 3. destruct (get k a) as [va|] eqn:Ga; destruct (get k b) as [vb|] eqn:Gb.
      + rewrite (cmp_spec H (mw_val _ _ _ Wa Ga) (mw_val _ _ _ Wb Gb)). unfold ch.
        destruct (snd (mrg LV va vb)), (snd (mrg LV vb va)), sg, og;
          cbn [naive andb orb]; try reflexivity; rewrite IH; cbn [orb]; reflexivity.
      + destruct sg, og; cbn [naive andb orb]; try reflexivity; rewrite IH; cbn [orb]; reflexivity.
      + destruct sg, og; cbn [naive andb orb]; try reflexivity; rewrite IH; cbn [orb]; reflexivity.
      + destruct sg, og; cbn [naive andb orb]; reflexivity.
  Qed.

  Lemma bool_eq_iff (x y : bool) : (x = true <-> y = true) -> x = y.
  Proof. destruct x, y; intuition congruence. Qed.

  Lemma ogk_exists a b : MW a -> MW b ->
    existsb (ogk a b) (nonbot_keys LV a ++ nonbot_keys LV b) = existsb (upd LV a) b.
  Proof.
    intros Wa Wb. pose proof (mw_nodup _ Wa) as Na. pose proof (mw_nodup _ Wb) as Nb.
    apply bool_eq_iff. rewrite !existsb_exists. split.
    - intros [k [Hk O]]. unfold ogk in O.
      destruct (get k a) as [va|] eqn:Ga; destruct (get k b) as [vb|] eqn:Gb.
      + exists (k, vb). split; [apply get_In, Gb|]. unfold upd. cbn [fst snd]. rewrite Ga, O.
        assert (Wva : W LV va) by exact (mw_val _ _ _ Wa Ga).
        assert (Wvb : W LV vb) by exact (mw_val _ _ _ Wb Gb).
        destruct (isbot LV vb) eqn:Bb; [|reflexivity].
        destruct (bot_merge_r H Wva Wvb Bb) as [C _]. unfold ch in C. congruence.
      + discriminate.
      + apply in_app_iff in Hk. destruct Hk as [Hk|Hk].
        * apply nonbot_keys_In in Hk; [|exact Na]. destruct Hk as [v G]. apply aget_Some in G.
          destruct G as [G _]. congruence.
        * apply nonbot_keys_In in Hk; [|exact Nb]. destruct Hk as [v G]. apply aget_Some in G.
          destruct G as [G B]. rewrite Gb in G. inversion G; subst v.
          exists (k, vb). split; [apply get_In, Gb|]. unfold upd. cbn [fst snd]. rewrite Ga, B. reflexivity.
      + apply in_app_iff in Hk. destruct Hk as [Hk|Hk].
        * apply nonbot_keys_In in Hk; [|exact Na]. destruct Hk as [v G]. apply aget_Some in G.
          destruct G as [G _]. congruence.
        * apply nonbot_keys_In in Hk; [|exact Nb]. destruct Hk as [v G]. apply aget_Some in G.
          destruct G as [G _]. congruence.
    - intros [[k vb] [Hi U]]. unfold upd in U. cbn [fst snd] in U.
      apply andb_true_iff in U. destruct U as [Bb U]. apply negb_true_iff in Bb.
      assert (Gb : get k b = Some vb) by (apply In_get; assumption).
      exists k. split.
      + apply in_app_iff. right. apply nonbot_keys_In; [exact Nb|]. exists vb.
        apply aget_Some. tauto.
      + unfold ogk. rewrite Gb. destruct (get k a); [exact U|reflexivity].
  Qed.

  Lemma map_cmp_spec a b : MW a -> MW b ->
    map_cmp LV a b = naive (snd (map_merge LV a b)) (snd (map_merge LV b a)).
  Proof.
    intros Wa Wb. pose proof (mw_nodup _ Wa) as Na. pose proof (mw_nodup _ Wb) as Nb.
    unfold map_cmp. rewrite cmp_go_spec by assumption. cbn [orb].
    rewrite ogk_exists by assumption.
    assert (P : existsb (ogk b a) (nonbot_keys LV a ++ nonbot_keys LV b)
                = existsb (ogk b a) (nonbot_keys LV b ++ nonbot_keys LV a)).
    { rewrite !existsb_app. apply orb_comm. }
    rewrite P, ogk_exists by assumption.
    rewrite !map_merge_changed by assumption. reflexivity.
  Qed.

  (* ------------------------------------------------------------ the laws *)
  Lemma map_ord : OrdLaws (map_ops LV) mle.
  Proof.
    split.
    - apply mle_refl.
    - apply mle_trans.
    - intros a b Wa Wb. unfold E. cbn [eqb map_ops]. apply map_eq_mle; assumption.
    - intros a b Wa Wb. unfold m. cbn [mrg map_ops]. apply map_merge_wf; assumption.
    - intros a b Wa Wb k. unfold m. cbn [mrg map_ops].
      exact (proj1 (merged_point a b k Wa Wb)).
    - intros a b Wa Wb k. unfold m. cbn [mrg map_ops].
      exact (proj1 (proj2 (merged_point a b k Wa Wb))).
    - intros a b c Wa Wb Wc L1 L2 k. unfold m. cbn [mrg map_ops].
      apply (proj2 (proj2 (merged_point a b k Wa Wb))); [|apply L1|apply L2].
      unfold owf. destruct (aget k c) as [v|] eqn:G; [|exact I]. exact (aget_wf _ _ _ Wc G).
    - intros a b Wa Wb. unfold ch. cbn [mrg map_ops]. apply map_ch_false; assumption.
    - intros a b Wa Wb. unfold ch. cbn [cmp mrg map_ops]. apply map_cmp_spec; assumption.
    - intros a Wa. cbn [isbot map_ops]. rewrite forallb_forall. split.
      + intros B b Wb k. destruct (aget k a) as [v|] eqn:G; cbn; [|exact I].
        apply aget_Some in G. destruct G as [G Bv]. apply get_In in G. specialize (B _ G).
        cbn in B. congruence.
      + intros L [k v] Hi. cbn. specialize (L [] Logic.eq_refl k).
        apply In_get in Hi; [|apply mw_nodup; assumption].
        unfold aget in L. rewrite Hi in L. destruct (isbot LV v); [reflexivity|]. cbn in L. contradiction.
    - exists []. reflexivity.
  Qed.

  Theorem map_laws : LatLaws (map_ops LV).
  Proof. exact (ord_laws map_ord). Qed.

  (* C04: the abstract model -- key-wise merge with bottom entries invisible *)
  Lemma map_merge_model a b k : MW a -> MW b ->
    let r := aget k (fst (mrg (map_ops LV) a b)) in
    ole (aget k a) r /\ ole (aget k b) r /\
    forall z, owf z -> ole (aget k a) z -> ole (aget k b) z -> ole r z.
  Proof. intros Wa Wb. cbn [mrg map_ops]. apply merged_point; assumption. Qed.

  (* C03 is_top: a map lattice never reports a top; right as soon as the value lattice has a
     non-bottom value (then a fresh key makes a strictly larger map) *)
  Lemma map_toplaw : (exists v, W LV v /\ isbot LV v = false) -> TopLaw (map_ops LV).
  Proof.
    intros [v [Wv Bv]] a Wa. cbn [istop map_ops]. split; [discriminate|]. intros T. exfalso.
    set (z := (1 + fold_right N.add 0 (keys a))%N).
    assert (Hz : ~ In z (keys a)).
    { assert (forall l x, In x l -> (x <= fold_right N.add 0 l)%N) as Hle.
      { induction l as [|y r IH]; cbn; intros x [].
        - subst. lia.
        - specialize (IH x H0). lia. }
      intros Hi. apply Hle in Hi. unfold z in Hi. lia. }
    assert (Wb : MW [(z, v)]).
    { apply mw_intro; [repeat constructor; intros []|]. intros k' v' [Hi|[]]. inversion Hi; subst. exact Wv. }
    specialize (T [(z, v)] Wb). apply (o_Le_iff map_ord) in T; [|exact Wb|exact Wa].
    specialize (T z). unfold aget in T. cbn [get] in T. rewrite N.eqb_refl, Bv in T.
    assert (G : get z a = None) by (apply get_None; exact Hz). rewrite G in T. exact T.
  Qed.
End MapOrd.
