(* E1 Lattice engine -- shipped lattice bimorphisms (C07): executable model of
   CartesianProductBimorphism (set_union.rs), KeyedBimorphism (map_union.rs) and PairBimorphism
   (pair.rs), a small code of bimorphism shapes (every nesting of Keyed over Cartesian / Pair), and
   the observation the harness h_morph makes on the real crate.  Definitions only.
   The GHT bimorphisms of lattices/src/ght/lattice.rs are NOT modelled here. *)
From HV Require Export Lattice.Univ.
Set Implicit Arguments.

(* ---------------------------------------------------------------- pairs of items as items *)
(* The output of the cartesian product is a set of pairs (a_item, b_item).  The set carrier of
   the universe is [list N], so a pair is encoded by the Cantor pairing function (a bijection
   N*N -> N; injectivity is proved in PMorph.v); the harness applies the same encoding to the
   tuples of the real output set. *)
Definition tri (n : N) : N := N.div2 (n * (n + 1)).
Definition penc (x y : N) : N := (tri (x + y) + y)%N.

(* ---------------------------------------------------------------- set_union.rs *)
(* set_a.into_iter().flat_map(|a| set_b.iter().cloned().map(move |b| (a.clone(), b)))
     .collect::<SetOut>()          -- collect = insert one by one into an empty set *)
Definition cart (a b : list N) : list N :=
  set_extend [] (flat_map (fun x => map (fun y => penc x y) b) a).

(* ---------------------------------------------------------------- map_union.rs *)
Section Keyed.
  Variables VA VB VO : Type.
  Variable LA : LatOps VA.              (* IsBot of MapA::Item *)
  Variable LB : LatOps VB.              (* IsBot of MapB::Item *)
  Variable f : VA -> VB -> VO.          (* the wrapped bimorphism's call *)

  (* for (key, val_a) in lat_a.iter() {
       let Some((_, val_b)) = lat_b.get_key_value(key) else { continue };
       if val_a.is_bot() || val_b.is_bot() { continue; }       // repo commit 77f6722ffe1
       output.insert(key.clone(), bimorphism.call(val_a.clone(), val_b.clone())) }
     -- MapInsert::insert = insert or overwrite = [map_put]; the RESULT of the inner call is not
     filtered: it is inserted even when it is bottom *)
  Definition keyed_step (b : list (N * VB)) (out : list (N * VO)) (kv : N * VA) : list (N * VO) :=
    match get (fst kv) b with
    | None => out
    | Some vb => if isbot LA (snd kv) || isbot LB vb then out
                 else map_put out (fst kv, f (snd kv) vb)
    end.

  Definition keyed (a : list (N * VA)) (b : list (N * VB)) : list (N * VO) :=
    fold_left (keyed_step b) a [].

  (* HISTORICAL: the loop before repo commit 77f6722ffe1 "fix: KeyedBimorphism skips
     bottom-valued entries" had no is_bot test.  Kept only for the former witness
     (PMorph.keyed_old_pair_witness): around a wrapped bimorphism that does not map bottom to
     bottom (PairBimorphism) it did not distribute over merge. *)
  Definition keyed_old_step (b : list (N * VB)) (out : list (N * VO)) (kv : N * VA) : list (N * VO) :=
    match get (fst kv) b with
    | None => out
    | Some vb => map_put out (fst kv, f (snd kv) vb)
    end.
  Definition keyed_old (a : list (N * VA)) (b : list (N * VB)) : list (N * VO) :=
    fold_left (keyed_old_step b) a [].
End Keyed.

(* ---------------------------------------------------------------- pair.rs *)
Definition pairb (A B : Type) (a : A) (b : B) : A * B := (a, b).
Unset Implicit Arguments.

(* ---------------------------------------------------------------- shapes *)
Inductive bshape :=
| BCart                       (* CartesianProductBimorphism *)
| BPair (ta tb : lty)         (* PairBimorphism on lattices of codes ta, tb *)
| BKeyed (s : bshape).        (* KeyedBimorphism<_, s> *)

Fixpoint ty_a (s : bshape) : lty :=
  match s with BCart => TSet | BPair ta _ => ta | BKeyed s' => TMap (ty_a s') end.
Fixpoint ty_b (s : bshape) : lty :=
  match s with BCart => TSet | BPair _ tb => tb | BKeyed s' => TMap (ty_b s') end.
Fixpoint ty_o (s : bshape) : lty :=
  match s with BCart => TSet | BPair ta tb => TPair ta tb | BKeyed s' => TMap (ty_o s') end.

Fixpoint bapply (s : bshape) : val (ty_a s) -> val (ty_b s) -> val (ty_o s) :=
  match s return val (ty_a s) -> val (ty_b s) -> val (ty_o s) with
  | BCart => cart
  | BPair ta tb => @pairb (val ta) (val tb)
  | BKeyed s' => keyed (ops (ty_a s')) (ops (ty_b s')) (bapply s')
  end.

(* every PairBimorphism inside is over lattices satisfying C01's side condition *)
Fixpoint types_ok (s : bshape) : bool :=
  match s with
  | BCart => true
  | BPair ta tb => key_total ta && key_total tb
  | BKeyed s' => types_ok s'
  end.

(* the shapes for which distributivity is claimed: ALL of them (since the repair, a
   KeyedBimorphism around a PairBimorphism is a bimorphism too), over lattices satisfying C01's
   side condition *)
Definition shape_ok (s : bshape) : bool := types_ok s.

(* ---------------------------------------------------------------- correspondence *)
(* what h_morph observes for a case (a, da, b, db) *)
Record bobs (s : bshape) := {
  bo_ab : val (ty_o s);     (* f(a, b) *)
  bo_dab : val (ty_o s);    (* f(da, b) *)
  bo_adb : val (ty_o s);    (* f(a, db) *)
  bo_l : val (ty_o s);      (* f(a merged with da, b) *)
  bo_ml : val (ty_o s);     (* f(a, b) merged with f(da, b) *)
  bo_r : val (ty_o s);      (* f(a, b merged with db) *)
  bo_mr : val (ty_o s);     (* f(a, b) merged with f(a, db) *)
  bo_eq_l : bool;           (* bo_l == bo_ml, the crate's PartialEq *)
  bo_eq_r : bool;           (* bo_r == bo_mr *)
}.
Arguments bo_ab {s}. Arguments bo_dab {s}. Arguments bo_adb {s}. Arguments bo_l {s}.
Arguments bo_ml {s}. Arguments bo_r {s}. Arguments bo_mr {s}. Arguments bo_eq_l {s}.
Arguments bo_eq_r {s}.

Definition model_bobs_gen (s : bshape) (ap : val (ty_a s) -> val (ty_b s) -> val (ty_o s))
    (a da : val (ty_a s)) (b db : val (ty_b s)) : bobs s :=
  let LA := ops (ty_a s) in let LB := ops (ty_b s) in let LO := ops (ty_o s) in
  let ab := ap a b in let dab := ap da b in let adb := ap a db in
  let l := ap (m LA a da) b in let ml := m LO ab dab in
  let r := ap a (m LB b db) in let mr := m LO ab adb in
  {| bo_ab := ab; bo_dab := dab; bo_adb := adb; bo_l := l; bo_ml := ml; bo_r := r; bo_mr := mr;
     bo_eq_l := eqb LO l ml; bo_eq_r := eqb LO r mr |}.

Definition model_bobs (s : bshape) := model_bobs_gen s (bapply s).

Definition bobs_agree (s : bshape) (i mo : bobs s) : bool :=
  let t := ty_o s in
  same t (bo_ab i) (bo_ab mo) && same t (bo_dab i) (bo_dab mo) && same t (bo_adb i) (bo_adb mo) &&
  same t (bo_l i) (bo_l mo) && same t (bo_ml i) (bo_ml mo) &&
  same t (bo_r i) (bo_r mo) && same t (bo_mr i) (bo_mr mo) &&
  Bool.eqb (bo_eq_l i) (bo_eq_l mo) && Bool.eqb (bo_eq_r i) (bo_eq_r mo).

(* the executable form of C07 on an observation: check_lattice_bimorphism's two assertions *)
Definition C07_holds_b (s : bshape) (i : bobs s) : bool := bo_eq_l i && bo_eq_r i.

Definition bchk (s : bshape) (a da : val (ty_a s)) (b db : val (ty_b s)) (i : bobs s) : N :=
  verdict (bobs_agree s i (model_bobs s a da b db)) (C07_holds_b s i).
