(* E1 Lattice engine -- C04 support: the join test evaluated on implementation outputs and
   the observation for heterogeneous (cross-representation) operations.  Definitions only. *)
From HV Require Export Lattice.Univ.

Definition le_b (t : lty) (x y : val t) : bool := is_le (cmp (ops t) x y).

(* executable form of C04 on a triple observation: the implementation's merge(a,b) is an
   upper bound of a and b and lies below the model's (proved least) upper bound, in the
   documented order -- i.e. it is the abstract join up to the lattice's own equality *)
Definition C04_join_b (t : lty) (a b : val t) (i : obs t) : bool :=
  let r := fst (o_ab i) in
  wf (ops t) r && le_b t a r && le_b t b r && le_b t r (fst (mrg (ops t) a b)).

Definition chk_join (t : lty) (a b c : val t) (i : obs t) : N :=
  verdict (obs_agree t i (model_obs t a b c)) (C04_join_b t a b i).

(* heterogeneous operations: a : Self representation, b : Other representation of the same
   lattice.  In the model both are the same carrier and lattice_from is the identity. *)
Record hobs (t : lty) := {
  h_ab : val t * bool;  h_cmp : option comparison;  h_eq : bool;  h_from : val t;
  h_hom_ab : val t * bool;  h_hom_cmp : option comparison;  h_hom_eq : bool;
  h_bot_b : bool;  h_top_b : bool;
}.
Arguments h_ab {t}. Arguments h_cmp {t}. Arguments h_eq {t}. Arguments h_from {t}.
Arguments h_hom_ab {t}. Arguments h_hom_cmp {t}. Arguments h_hom_eq {t}.
Arguments h_bot_b {t}. Arguments h_top_b {t}.

Definition hobs_agree (t : lty) (a b : val t) (i : hobs t) : bool :=
  same_r t (h_ab i) (mrg (ops t) a b) &&
  cmp_eqb (h_cmp i) (cmp (ops t) a b) &&
  Bool.eqb (h_eq i) (eqb (ops t) a b) &&
  same t (h_from i) b &&
  Bool.eqb (h_bot_b i) (isbot (ops t) b) && Bool.eqb (h_top_b i) (istop (ops t) b).

(* representation independence as observed on the implementation: merging / comparing with
   the other representation directly equals doing so after LatticeFrom, the conversion keeps
   the value, and the comparison agrees with the merge flag and with is_bot of the other side
   (a bottom never changes the receiver and is below it) *)
Definition C04_het_b (t : lty) (b : val t) (i : hobs t) : bool :=
  same_r t (h_ab i) (h_hom_ab i) && cmp_eqb (h_cmp i) (h_hom_cmp i) &&
  Bool.eqb (h_eq i) (h_hom_eq i) && same t (h_from i) b &&
  Bool.eqb (h_eq i) (cmp_eqb (h_cmp i) (Some Eq)) &&
  (* merge(a <- b) unchanged  <->  b <= a, i.e. a >= b *)
  Bool.eqb (negb (snd (h_ab i))) (match h_cmp i with Some Gt | Some Eq => true | _ => false end) &&
  (negb (h_bot_b i) || negb (snd (h_ab i))).

Definition chk_het (t : lty) (a b : val t) (i : hobs t) : N :=
  verdict (hobs_agree t a b i) (C04_het_b t b i).
