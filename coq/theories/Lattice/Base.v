(* E1 Lattice engine -- interface.
   A lattice implementation is a record of executable operations [LatOps] over a
   carrier; [LatLaws] is the induction-loaded invariant every constructor functor
   must preserve.  Everything else (C01..C03 statements) is derived from it. *)
From Coq Require Export List Bool NArith Lia.
Export ListNotations.

Set Implicit Arguments.

(* the result of [naive_cmp] in lattices/src/lib.rs from the two changed-flags *)
Definition naive (ab ba : bool) : option comparison :=
  match ab, ba with
  | true, true => None
  | true, false => Some Lt
  | false, true => Some Gt
  | false, false => Some Eq
  end.

Record LatOps (A : Type) : Type := {
  wf    : A -> bool;                       (* representation invariant the Rust types do not enforce *)
  mrg   : A -> A -> A * bool;              (* Merge::merge self other = (new self, changed) *)
  cmp   : A -> A -> option comparison;     (* PartialOrd::partial_cmp *)
  eqb   : A -> A -> bool;                  (* PartialEq::eq *)
  isbot : A -> bool;                       (* IsBot::is_bot *)
  istop : A -> bool;                       (* IsTop::is_top *)
}.

Section Laws.
  Variable A : Type.
  Variable L : LatOps A.

  Definition m (a b : A) : A := fst (mrg L a b).
  Definition ch (a b : A) : bool := snd (mrg L a b).
  Definition W (a : A) : Prop := wf L a = true.
  Definition E (a b : A) : Prop := eqb L a b = true.
  (* a <= b : merging a into b leaves b unchanged (up to the lattice's own equality) *)
  Definition Le (a b : A) : Prop := E (m b a) b.

  Record LatLaws : Prop := {
    e_refl  : forall a, W a -> E a a;
    e_sym   : forall a b, W a -> W b -> E a b -> E b a;
    e_trans : forall a b c, W a -> W b -> W c -> E a b -> E b c -> E a c;
    m_wf     : forall a b, W a -> W b -> W (m a b);
    m_cong   : forall a a' b b', W a -> W a' -> W b -> W b' ->
                 E a a' -> E b b' -> E (m a b) (m a' b');
    m_idem   : forall a, W a -> E (m a a) a;
    m_comm   : forall a b, W a -> W b -> E (m a b) (m b a);
    m_assoc  : forall a b c, W a -> W b -> W c -> E (m (m a b) c) (m a (m b c));
    (* C02: the flag is exactly "the receiver changed" *)
    ch_spec  : forall a b, W a -> W b -> ch a b = negb (eqb L (m a b) a);
    (* C03: partial_cmp is the order induced by merge (= naive_cmp) *)
    cmp_spec : forall a b, W a -> W b -> cmp L a b = naive (ch a b) (ch b a);
    (* C03: is_bot exactly for the least element *)
    bot_spec : forall a, W a -> (isbot L a = true <-> forall b, W b -> Le a b);
    (* the carrier has a well-formed value (needed to project laws out of products) *)
    inh      : exists a, W a;
  }.

  (* C03, stated separately because WithTop over a lattice that has a top breaks it *)
  Definition TopLaw : Prop :=
    forall a, W a -> (istop L a = true <-> forall b, W b -> Le b a).

  (* needed by DomPair: the key lattice is totally ordered *)
  Definition Total : Prop := forall a b, W a -> W b -> cmp L a b <> None.

  Hypothesis H : LatLaws.

  Lemma ch_false_iff a b : W a -> W b -> (ch a b = false <-> Le b a).
  Proof.
    intros Wa Wb. unfold Le, E. rewrite (ch_spec H Wa Wb).
    destruct (eqb L (m a b) a); simpl; intuition congruence.
  Qed.

  Lemma ch_true_iff a b : W a -> W b -> (ch a b = true <-> ~ E (m a b) a).
  Proof.
    intros Wa Wb. unfold E. rewrite (ch_spec H Wa Wb).
    destruct (eqb L (m a b) a); simpl; intuition congruence.
  Qed.

  Lemma le_refl a : W a -> Le a a.
  Proof. intros; apply (m_idem H); assumption. Qed.

  Lemma le_merge_r a b : W a -> W b -> Le b (m a b).
  Proof.
    intros Wa Wb. unfold Le.
    (* m (m a b) b ~ m a (m b b) ~ m a b *)
    apply (e_trans H) with (b := m a (m b b)); auto using (m_wf H).
    - apply (m_assoc H); assumption.
    - apply (m_cong H); auto using (m_wf H), (e_refl H), (m_idem H).
  Qed.

  Lemma le_merge_l a b : W a -> W b -> Le a (m a b).
  Proof.
    intros Wa Wb. unfold Le.
    (* m (m a b) a ~ m a (m a b) ~ m (m a a) b ~ m a b *)
    apply (e_trans H) with (b := m a (m a b)); auto using (m_wf H).
    { apply (m_comm H); auto using (m_wf H). }
    apply (e_trans H) with (b := m (m a a) b); auto using (m_wf H).
    { apply (e_sym H); auto using (m_wf H). apply (m_assoc H); assumption. }
    apply (m_cong H); auto using (m_wf H), (e_refl H), (m_idem H).
  Qed.

  Lemma le_antisym a b : W a -> W b -> Le a b -> Le b a -> E a b.
  Proof.
    unfold Le; intros Wa Wb Hab Hba.
    apply (e_trans H) with (b := m a b); auto using (m_wf H).
    { apply (e_sym H); auto using (m_wf H). }
    apply (e_trans H) with (b := m b a); auto using (m_wf H).
    apply (m_comm H); assumption.
  Qed.

  Lemma le_trans a b c : W a -> W b -> W c -> Le a b -> Le b c -> Le a c.
  Proof.
    unfold Le; intros Wa Wb Wc Hab Hbc.
    (* m c a ~ m (m c b) a ~ m c (m b a) ~ m c b ~ c *)
    apply (e_trans H) with (b := m (m c b) a); auto using (m_wf H).
    { apply (m_cong H); auto using (m_wf H), (e_refl H).
      apply (e_sym H); auto using (m_wf H). }
    apply (e_trans H) with (b := m c (m b a)); auto using (m_wf H).
    { apply (m_assoc H); assumption. }
    apply (e_trans H) with (b := m c b); auto using (m_wf H).
    apply (m_cong H); auto using (m_wf H), (e_refl H).
  Qed.

  Lemma le_of_eq a b : W a -> W b -> E a b -> Le a b.
  Proof.
    unfold Le; intros Wa Wb Hab.
    apply (e_trans H) with (b := m b b); auto using (m_wf H), (m_idem H).
    apply (m_cong H); auto using (e_refl H).
  Qed.

  Lemma le_cong a a' b b' : W a -> W a' -> W b -> W b' ->
    E a a' -> E b b' -> Le a b -> Le a' b'.
  Proof.
    unfold Le; intros Wa Wa' Wb Wb' Ha Hb Hab.
    apply (e_trans H) with (b := m b a); auto using (m_wf H).
    { apply (m_cong H); auto using (e_sym H). }
    apply (e_trans H) with (b := b); auto using (m_wf H).
  Qed.

  (* m a b is the least upper bound *)
  Lemma le_lub a b c : W a -> W b -> W c -> Le a c -> Le b c -> Le (m a b) c.
  Proof.
    unfold Le; intros Wa Wb Wc Hac Hbc.
    (* m c (m a b) ~ m (m c a) b ~ m c b ~ c *)
    apply (e_trans H) with (b := m (m c a) b); auto using (m_wf H).
    { apply (e_sym H); auto using (m_wf H). apply (m_assoc H); assumption. }
    apply (e_trans H) with (b := m c b); auto using (m_wf H).
    apply (m_cong H); auto using (m_wf H), (e_refl H).
  Qed.

  (* the comparison outcomes, spelled out (C03) *)
  Lemma cmp_eq_iff a b : W a -> W b -> (cmp L a b = Some Eq <-> E a b).
  Proof.
    intros Wa Wb. rewrite (cmp_spec H Wa Wb).
    pose proof (ch_false_iff Wa Wb) as F1. pose proof (ch_false_iff Wb Wa) as F2.
    split.
    - destruct (ch a b) eqn:C1, (ch b a) eqn:C2; simpl; try discriminate.
      intros _. apply le_antisym; tauto.
    - intros Hab.
      assert (Le a b) by (apply le_of_eq; assumption).
      assert (Le b a) by (apply le_of_eq; auto using (e_sym H)).
      apply F1 in H1. apply F2 in H0. rewrite H0, H1. reflexivity.
  Qed.

  Lemma cmp_le_iff a b : W a -> W b ->
    ((cmp L a b = Some Lt \/ cmp L a b = Some Eq) <-> Le a b).
  Proof.
    intros Wa Wb. rewrite (cmp_spec H Wa Wb).
    pose proof (ch_false_iff Wb Wa) as F2.
    destruct (ch a b) eqn:C1, (ch b a) eqn:C2; simpl; split; intros;
      try tauto; try (destruct H0; discriminate).
    - apply F2 in H0. discriminate.
    - apply F2 in H0. discriminate.
  Qed.

  Lemma cmp_dual a b : W a -> W b -> cmp L b a = option_map CompOpp (cmp L a b).
  Proof.
    intros Wa Wb. rewrite (cmp_spec H Wa Wb), (cmp_spec H Wb Wa).
    destruct (ch a b), (ch b a); reflexivity.
  Qed.

  Lemma bot_eq_cong a b : W a -> W b -> E a b -> isbot L a = isbot L b.
  Proof.
    intros Wa Wb Hab.
    destruct (isbot L a) eqn:Ba, (isbot L b) eqn:Bb; try reflexivity.
    - pose proof (proj1 (bot_spec H Wa) Ba) as Ba'.
      assert (isbot L b = true); [|congruence].
      apply (bot_spec H Wb). intros c Wc.
      apply le_cong with (a := a) (b := c); auto using (e_refl H).
    - pose proof (proj1 (bot_spec H Wb) Bb) as Bb'.
      assert (isbot L a = true); [|congruence].
      apply (bot_spec H Wa). intros c Wc.
      apply le_cong with (a := b) (b := c); auto using (e_refl H), (e_sym H).
  Qed.

  (* merging a bottom in changes nothing *)
  Lemma bot_merge_r a b : W a -> W b -> isbot L b = true -> ch a b = false /\ E (m a b) a.
  Proof.
    intros Wa Wb Bb. pose proof (proj1 (bot_spec H Wb) Bb a Wa) as Bb'.
    split; [apply ch_false_iff; assumption | exact Bb'].
  Qed.

End Laws.

(* The statements the properties ask for, for one lattice (used by Props/C0x.v) *)
Definition C01_stmt A (L : LatOps A) : Prop :=
  forall a b c, W L a -> W L b -> W L c ->
    E L (m L a a) a /\ E L (m L a b) (m L b a) /\
    E L (m L (m L a b) c) (m L a (m L b c)) /\ W L (m L a b).

Definition C02_stmt A (L : LatOps A) : Prop :=
  forall a b, W L a -> W L b ->
    (ch L a b = true <-> ~ E L (m L a b) a) /\
    (ch L a b = false <-> Le L b a) /\
    cmp L a b = naive (ch L a b) (ch L b a).

Definition C03_order_stmt A (L : LatOps A) : Prop :=
  (forall a b, W L a -> W L b ->
     ((cmp L a b = Some Lt \/ cmp L a b = Some Eq) <-> Le L a b) /\
     (cmp L a b = Some Eq <-> E L a b) /\
     cmp L b a = option_map CompOpp (cmp L a b)) /\
  (forall a, W L a -> Le L a a) /\
  (forall a b, W L a -> W L b -> Le L a b -> Le L b a -> E L a b) /\
  (forall a b c, W L a -> W L b -> W L c -> Le L a b -> Le L b c -> Le L a c) /\
  (forall a, W L a -> (isbot L a = true <-> forall b, W L b -> Le L a b)).

Lemma laws_C01 A (L : LatOps A) : LatLaws L -> C01_stmt L.
Proof.
  intros H a b c Wa Wb Wc. repeat split.
  - apply (m_idem H); assumption.
  - apply (m_comm H); assumption.
  - apply (m_assoc H); assumption.
  - apply (m_wf H); assumption.
Qed.

Lemma laws_C02 A (L : LatOps A) : LatLaws L -> C02_stmt L.
Proof.
  intros H a b Wa Wb. split; [|split].
  - apply ch_true_iff; assumption.
  - apply ch_false_iff; assumption.
  - apply (cmp_spec H); assumption.
Qed.

Lemma laws_C03_order A (L : LatOps A) : LatLaws L -> C03_order_stmt L.
Proof.
  intros H. split; [|split; [|split; [|split]]].
  - intros a b Wa Wb. split; [|split].
    + apply cmp_le_iff; assumption.
    + apply cmp_eq_iff; assumption.
    + apply cmp_dual; assumption.
  - intros; apply le_refl; assumption.
  - intros; apply le_antisym; assumption.
  - intros a b c; intros; apply le_trans with (b := b); assumption.
  - intros; apply (bot_spec H); assumption.
Qed.
