(* E1 proofs: set_union_with_tombstones.rs / map_union_with_tombstones.rs (C05) *)
From HV Require Import Lattice.Model Lattice.Ord Lattice.PSet Lattice.PMapBase Lattice.PMap Lattice.Tomb.
From Coq Require Import PeanoNat ZifyBool ZifyN Permutation.

(* ================================================================== generic: trees and folds
   In any lattice (LatLaws) the value of a merge tree is the least upper bound of its leaves,
   so it depends only on the SET of leaves: every order, every bracketing, repetitions. *)
Section Trees.
  Variable A : Type.
  Variable L : LatOps A.
  Hypothesis H : LatLaws L.

  Lemma tree_wf (t : mtree A) : Forall (W L) (leaves t) -> W L (teval L t).
  Proof.
    induction t as [a|l IHl r IHr]; cbn; intros F.
    - inversion F; assumption.
    - apply Forall_app in F. destruct F as [Fl Fr]. apply (m_wf H); auto.
  Qed.

  Lemma tree_ub (t : mtree A) : Forall (W L) (leaves t) ->
    forall s, In s (leaves t) -> Le L s (teval L t).
  Proof.
    induction t as [a|l IHl r IHr]; cbn; intros F s Hs.
    - destruct Hs as [<-|[]]. inversion F; subst. apply le_refl; assumption.
    - apply Forall_app in F. destruct F as [Fl Fr].
      pose proof (tree_wf l Fl) as Wl. pose proof (tree_wf r Fr) as Wr.
      apply in_app_iff in Hs. destruct Hs as [Hs|Hs].
      + apply le_trans with (b := teval L l); auto using (m_wf H).
        * rewrite Forall_forall in Fl. apply Fl, Hs.
        * apply le_merge_l; assumption.
      + apply le_trans with (b := teval L r); auto using (m_wf H).
        * rewrite Forall_forall in Fr. apply Fr, Hs.
        * apply le_merge_r; assumption.
  Qed.

  Lemma tree_lub (t : mtree A) : Forall (W L) (leaves t) ->
    forall c, W L c -> (forall s, In s (leaves t) -> Le L s c) -> Le L (teval L t) c.
  Proof.
    induction t as [a|l IHl r IHr]; cbn; intros F c Wc Hc.
    - apply Hc. left. reflexivity.
    - apply Forall_app in F. destruct F as [Fl Fr].
      apply le_lub; auto using tree_wf.
      + apply IHl; auto. intros s Hs. apply Hc, in_app_iff. left. exact Hs.
      + apply IHr; auto. intros s Hs. apply Hc, in_app_iff. right. exact Hs.
  Qed.

  (* any two merge trees over the same set of replica states agree (assoc + comm + idem,
     lifted to trees, up to the lattice's own equality) *)
  Theorem tree_order_indep (t1 t2 : mtree A) :
    Forall (W L) (leaves t1) -> Forall (W L) (leaves t2) ->
    (forall s, In s (leaves t1) <-> In s (leaves t2)) ->
    E L (teval L t1) (teval L t2).
  Proof.
    intros F1 F2 S. apply le_antisym; auto using tree_wf.
    - apply tree_lub; auto using tree_wf. intros s Hs. apply tree_ub; auto. apply S, Hs.
    - apply tree_lub; auto using tree_wf. intros s Hs. apply tree_ub; auto. apply S, Hs.
  Qed.

  (* a replica absorbing states one by one is the left comb *)
  Fixpoint comb (acc : mtree A) (l : list A) : mtree A :=
    match l with
    | [] => acc
    | x :: r => comb (Node acc (Leaf x)) r
    end.

  Lemma comb_eval l : forall acc, teval L (comb acc l) = fold_left (m L) l (teval L acc).
  Proof. induction l as [|x r IH]; intros acc; cbn; [reflexivity|]. rewrite IH. reflexivity. Qed.

  Lemma comb_leaves l : forall acc, leaves (comb acc l) = leaves acc ++ l.
  Proof.
    induction l as [|x r IH]; intros acc; cbn; [rewrite app_nil_r; reflexivity|].
    rewrite IH. cbn. rewrite <- app_assoc. reflexivity.
  Qed.

  Lemma hfold_comb init l : hfold L init l = teval L (comb (Leaf init) l).
  Proof. unfold hfold. rewrite comb_eval. reflexivity. Qed.

  (* every order of absorbing the same states gives the same lattice value *)
  Theorem hfold_perm init l1 l2 : W L init -> Forall (W L) l1 -> Permutation l1 l2 ->
    E L (hfold L init l1) (hfold L init l2).
  Proof.
    intros Wi F1 P. rewrite !hfold_comb.
    assert (F2 : Forall (W L) l2) by (eapply Permutation_Forall; eassumption).
    apply tree_order_indep.
    - rewrite comb_leaves. cbn. constructor; assumption.
    - rewrite comb_leaves. cbn. constructor; assumption.
    - intros s. rewrite !comb_leaves. cbn. split; intros [Hs|Hs]; auto; right.
      + eapply Permutation_in; eassumption.
      + eapply Permutation_in; [apply Permutation_sym|]; eassumption.
  Qed.
End Trees.
Arguments comb {A} acc l.

(* ================================================================== the tombstone extend *)
Section TombExtendFacts.
  Variable S : Type.
  Variable rm : N -> S -> S.

  Lemma tomb_extend_eq other : forall s t,
    tomb_extend rm s t other = (fold_left (fun s x => rm x s) other s, set_extend t other).
  Proof.
    unfold tomb_extend, set_extend. induction other as [|x r IH]; intros s t; cbn; [reflexivity|].
    unfold tomb_step at 2. cbn [fst snd]. apply IH.
  Qed.
End TombExtendFacts.

Lemma set_remove_In x s y : In y (set_remove x s) <-> In y s /\ y <> x.
Proof.
  unfold set_remove. rewrite filter_In, negb_true_iff, N.eqb_neq. tauto.
Qed.

Lemma remove_all_In other : forall s y,
  In y (fold_left (fun s x => set_remove x s) other s) <-> In y s /\ ~ In y other.
Proof.
  induction other as [|x r IH]; intros s y; cbn; [tauto|].
  rewrite IH, set_remove_In. intuition.
Qed.

Lemma remove_all_NoDup other : forall s, NoDup s ->
  NoDup (fold_left (fun s x => set_remove x s) other s).
Proof.
  induction other as [|x r IH]; intros s Hs; cbn; [exact Hs|].
  apply IH. unfold set_remove. apply NoDup_filter, Hs.
Qed.

Lemma disjb_spec s t : disjb s t = true <-> forall x, In x s -> ~ In x t.
Proof.
  unfold disjb. rewrite forallb_forall. split; intros Hd x Hx.
  - apply mem_false, negb_true_iff, Hd, Hx.
  - apply negb_true_iff, mem_false, Hd, Hx.
Qed.

(* a general way to get partial_cmp = naive_cmp from an order characterisation *)
Lemma cmp_of_le (le_ab le_ba : Prop) (cab cba : bool) (c : option comparison) :
  (cab = false <-> le_ba) -> (cba = false <-> le_ab) ->
  match c with
  | Some Eq => le_ab /\ le_ba
  | Some Lt => le_ab /\ ~ le_ba
  | Some Gt => le_ba /\ ~ le_ab
  | None => ~ le_ab /\ ~ le_ba
  end -> c = naive cab cba.
Proof.
  intros F1 F2 Hc. destruct cab, cba, c as [[| |]|]; cbn; try reflexivity; exfalso;
    intuition congruence.
Qed.

(* ================================================================== sets with tombstones *)
Local Ltac unf := unfold W, E, Le, m, ch in *;
  cbn [wf mrg cmp eqb isbot istop settomb_ops fst snd] in *.

Definition SW (a : tstate) : Prop :=
  NoDup (fst a) /\ NoDup (snd a) /\ forall x, In x (fst a) -> ~ In x (snd a).

Lemma st_wf_spec a : st_wf a = true <-> SW a.
Proof.
  unfold st_wf, SW. rewrite !andb_true_iff, !nodupb_NoDup, disjb_spec. tauto.
Qed.

(* the merge, characterised by membership -- no precondition *)
Lemma st_merge_eq a b :
  fst (st_merge a b) =
  (fold_left (fun s x => set_remove x s) (snd b)
     (set_extend (fst a) (filter (fun x => negb (mem x (snd a))) (fst b))),
   set_extend (snd a) (snd b)).
Proof. unfold st_merge. cbn [fst]. apply tomb_extend_eq. Qed.

Lemma st_live_In a b x :
  In x (fst (fst (st_merge a b))) <->
  (In x (fst a) \/ (In x (fst b) /\ ~ In x (snd a))) /\ ~ In x (snd b).
Proof.
  rewrite st_merge_eq. cbn [fst]. rewrite remove_all_In, set_extend_In, filter_In.
  rewrite negb_true_iff, mem_false. tauto.
Qed.

Lemma st_tomb_In a b x :
  In x (snd (fst (st_merge a b))) <-> In x (snd a) \/ In x (snd b).
Proof. rewrite st_merge_eq. cbn [snd]. apply set_extend_In. Qed.

(* on well-formed states: live = (live a U live b) \ (tomb a U tomb b) *)
Lemma st_live_In_wf a b x : SW a -> SW b ->
  (In x (fst (fst (st_merge a b))) <->
   (In x (fst a) \/ In x (fst b)) /\ ~ In x (snd a) /\ ~ In x (snd b)).
Proof.
  intros [_ [_ Da]] [_ [_ Db]]. rewrite st_live_In. split.
  - intros [[Hx|[Hx Hn]] Hb]; repeat split; auto.
  - intros [[Hx|Hx] [Hna Hnb]]; split; auto.
Qed.

Lemma st_merge_SW a b : SW a -> SW b -> SW (fst (st_merge a b)).
Proof.
  intros [Na [Ta Da]] [Nb [Tb Db]]. split; [|split].
  - rewrite st_merge_eq. cbn [fst]. apply remove_all_NoDup, set_extend_NoDup, Na.
  - rewrite st_merge_eq. cbn [snd]. apply set_extend_NoDup, Ta.
  - intros x Hx Ht. apply st_live_In in Hx. apply st_tomb_In in Ht.
    destruct Hx as [[Hx|[Hx Hn]] Hb]; destruct Ht as [Ht|Ht]; try contradiction.
    exact (Da x Hx Ht).
Qed.

(* the order: fewer tombstones, and every live item that the other side has not deleted is
   live there too *)
Definition sle (a b : tstate) : Prop :=
  incl (snd a) (snd b) /\ forall x, In x (fst a) -> ~ In x (snd b) -> In x (fst b).

Lemma st_eqb_split a b : st_eqb a b = set_eqb (fst a) (fst b) && set_eqb (snd a) (snd b).
Proof.
  unfold st_eqb, set_eqb.
  destruct (N.eqb (lenN (fst a)) (lenN (fst b))), (N.eqb (lenN (snd a)) (lenN (snd b))); cbn;
    rewrite ?andb_false_r; try reflexivity.
  all: destruct (forallb _ (fst a)); reflexivity.
Qed.

Lemma st_eq_sle a b : SW a -> SW b -> (st_eqb a b = true <-> sle a b /\ sle b a).
Proof.
  intros [Na [Ta Da]] [Nb [Tb Db]].
  rewrite st_eqb_split, andb_true_iff, !set_eqb_seq by assumption. unfold sle, seq, incl. split.
  - intros [S1 S2]. repeat split; intros x Hx; try (apply S2, Hx); intros; apply S1; assumption.
  - intros [[I1 P1] [I2 P2]]. split; intros x; split; intros Hx; auto.
    + apply P1; auto. intros Ht. apply (Da x Hx). apply I2, Ht.
    + apply P2; auto. intros Ht. apply (Db x Hx). apply I1, Ht.
Qed.

Lemma st_ch_false a b : SW a -> SW b -> (snd (st_merge a b) = false <-> sle b a).
Proof.
  intros Wa Wb. pose proof (st_merge_SW a b Wa Wb) as [Nr [Tr _]].
  destruct Wa as [Na [Ta Da]]. destruct Wb as [Nb [Tb Db]].
  unfold st_merge at 1. cbn [snd]. rewrite orb_false_iff.
  assert (T2 : N.ltb (lenN (snd a)) (lenN (snd (fst (st_merge a b)))) = false <-> incl (snd b) (snd a)).
  { rewrite st_merge_eq. cbn [snd]. apply set_ch_false; assumption. }
  unfold st_merge in T2, Nr, Tr. cbn [fst snd] in T2, Nr, Tr.
  set (r := tomb_extend set_remove
              (set_extend (fst a) (filter (fun x => negb (mem x (snd a))) (fst b))) (snd a) (snd b)) in *.
  assert (LI : forall x, In x (fst r) <->
            (In x (fst a) \/ (In x (fst b) /\ ~ In x (snd a))) /\ ~ In x (snd b)).
  { intros x. exact (st_live_In a b x). }
  rewrite T2. unfold sle. split.
  - intros [L1 I]. split; [exact I|]. intros x Hx Hn.
    assert (Sub : incl (fst a) (fst r)).
    { intros y Hy. apply LI. split; [left; exact Hy|]. intros Hb. apply (Da y Hy), I, Hb. }
    assert (Len : length (fst r) <= length (fst a)).
    { apply N.ltb_ge in L1. unfold lenN in L1. lia. }
    assert (Back : incl (fst r) (fst a)) by (apply (NoDup_length_incl Na); assumption).
    apply Back, LI. split; [right; split; assumption|]. exact (Db x Hx).
  - intros [I P]. split; [|exact I].
    apply N.ltb_ge. unfold lenN.
    assert (length (fst r) <= length (fst a)); [|lia].
    apply NoDup_incl_length; [exact Nr|]. intros x Hx. apply LI in Hx.
    destruct Hx as [[Hx|[Hx Hn]] _]; auto.
Qed.

(* the comparison of two duplicate-free lists, spelled out by inclusions *)
Lemma set_cmp_cases a b : NoDup a -> NoDup b ->
  match set_cmp a b with
  | Some Eq => incl a b /\ incl b a
  | Some Lt => incl a b /\ ~ incl b a
  | Some Gt => incl b a /\ ~ incl a b
  | None => ~ incl a b /\ ~ incl b a
  end.
Proof.
  intros Na Nb.
  assert (Wa : W set_ops a) by (apply nodupb_NoDup, Na).
  assert (Wb : W set_ops b) by (apply nodupb_NoDup, Nb).
  pose proof (cmp_cases set_laws Wa Wb) as C. cbn [cmp set_ops] in C.
  assert (L1 : Le set_ops a b <-> incl a b).
  { rewrite <- (ch_false_iff set_laws Wb Wa). unfold ch. cbn [mrg set_ops snd].
    apply set_ch_false; assumption. }
  assert (L2 : Le set_ops b a <-> incl b a).
  { rewrite <- (ch_false_iff set_laws Wa Wb). unfold ch. cbn [mrg set_ops snd].
    apply set_ch_false; assumption. }
  destruct (set_cmp a b) as [[| |]|]; tauto.
Qed.

Lemma existsb_false_iff {T} (f : T -> bool) l :
  existsb f l = false <-> forall x, In x l -> f x = false.
Proof.
  split.
  - intros Hf x Hx. destruct (f x) eqn:Fx; [|reflexivity].
    assert (existsb f l = true) by (apply existsb_exists; eauto). congruence.
  - intros Hf. destruct (existsb f l) eqn:X; [|reflexivity].
    apply existsb_exists in X. destruct X as [x [Hx Fx]]. rewrite (Hf x Hx) in Fx. discriminate.
Qed.

Lemma filter_greater_false a b f2 :
  existsb (fun k => negb (mem k b)) (filter (fun k => negb (mem k f2)) a) = false <->
  forall x, In x a -> ~ In x f2 -> In x b.
Proof.
  rewrite existsb_false_iff. split.
  - intros Hf x Hx Hn. apply mem_In. specialize (Hf x). rewrite filter_In in Hf.
    rewrite negb_true_iff, mem_false in Hf. specialize (Hf (conj Hx Hn)).
    apply negb_false_iff in Hf. exact Hf.
  - intros Hf x Hx. apply filter_In in Hx. destruct Hx as [Hx Hn].
    apply negb_true_iff, mem_false in Hn. apply negb_false_iff, mem_In, Hf; assumption.
Qed.

Lemma st_cmp_cases a b : SW a -> SW b ->
  match st_cmp a b with
  | Some Eq => sle a b /\ sle b a
  | Some Lt => sle a b /\ ~ sle b a
  | Some Gt => sle b a /\ ~ sle a b
  | None => ~ sle a b /\ ~ sle b a
  end.
Proof.
  intros [Na [Ta Da]] [Nb [Tb Db]]. unfold st_cmp.
  pose proof (set_cmp_cases _ _ Ta Tb) as CT.
  pose proof (filter_greater_false (fst a) (fst b) (snd b)) as AG.
  pose proof (filter_greater_false (fst b) (fst a) (snd a)) as BG.
  unfold set_cmp_filter.
  destruct (set_cmp (snd a) (snd b)) as [[| |]|].
  - (* equal tombstones *)
    destruct CT as [I1 I2]. pose proof (set_cmp_cases _ _ Na Nb) as CS.
    assert (S1 : sle a b <-> incl (fst a) (fst b)).
    { unfold sle. split; [intros [_ P] x Hx; apply P; auto; intros Ht; apply (Da x Hx), I2, Ht|].
      intros I. split; [exact I1|]. intros x Hx _. apply I, Hx. }
    assert (S2 : sle b a <-> incl (fst b) (fst a)).
    { unfold sle. split; [intros [_ P] x Hx; apply P; auto; intros Ht; apply (Db x Hx), I1, Ht|].
      intros I. split; [exact I2|]. intros x Hx _. apply I, Hx. }
    destruct (set_cmp (fst a) (fst b)) as [[| |]|]; tauto.
  - (* self has fewer tombstones *)
    destruct CT as [I1 I2].
    assert (N2 : ~ sle b a) by (intros [I _]; contradiction).
    destruct (existsb _ (filter _ (fst a))) eqn:X.
    + assert (N1 : ~ sle a b).
      { intros [_ P]. assert (true = false); [|discriminate]. apply AG. exact P. }
      destruct (existsb _ (filter _ (fst b))); tauto.
    + assert (S1 : sle a b) by (split; [exact I1|apply AG; reflexivity]).
      destruct (existsb _ (filter _ (fst b))); tauto.
  - destruct CT as [I2 I1].
    assert (N1 : ~ sle a b) by (intros [I _]; contradiction).
    destruct (existsb _ (filter _ (fst b))) eqn:X.
    + assert (N2 : ~ sle b a).
      { intros [_ P]. assert (true = false); [|discriminate]. apply BG. exact P. }
      destruct (existsb _ (filter _ (fst a))); tauto.
    + assert (S2 : sle b a) by (split; [exact I2|apply BG; reflexivity]).
      destruct (existsb _ (filter _ (fst a))); tauto.
  - destruct CT as [I1 I2]. split; intros [I _]; contradiction.
Qed.

Lemma settomb_ord : OrdLaws settomb_ops sle.
Proof.
  split; unf.
  - intros a _. split; [apply incl_refl|]. intros; assumption.
  - intros a b c _ _ _ [I1 P1] [I2 P2]. split.
    + eapply incl_tran; eassumption.
    + intros x Hx Hn. apply P2; [apply P1; [exact Hx|intros Ht; apply Hn, I2, Ht]|exact Hn].
  - intros a b Wa Wb. apply st_wf_spec in Wa, Wb. apply st_eq_sle; assumption.
  - intros a b Wa Wb. apply st_wf_spec in Wa, Wb. apply st_wf_spec, st_merge_SW; assumption.
  - intros a b Wa Wb. apply st_wf_spec in Wa, Wb. split.
    + intros x Hx. apply st_tomb_In. left. exact Hx.
    + intros x Hx Hn. apply st_live_In. rewrite st_tomb_In in Hn. split; [left; exact Hx|tauto].
  - intros a b Wa Wb. apply st_wf_spec in Wa, Wb. split.
    + intros x Hx. apply st_tomb_In. right. exact Hx.
    + intros x Hx Hn. apply st_live_In. rewrite st_tomb_In in Hn. split; [right; tauto|tauto].
  - intros a b c Wa Wb Wc [I1 P1] [I2 P2]. split.
    + intros x Hx. apply st_tomb_In in Hx. destruct Hx; auto.
    + intros x Hx Hn. apply st_live_In in Hx. destruct Hx as [[Hx|[Hx _]] _]; auto.
  - intros a b Wa Wb. apply st_wf_spec in Wa, Wb. apply st_ch_false; assumption.
  - intros a b Wa Wb. apply st_wf_spec in Wa, Wb.
    apply cmp_of_le with (le_ab := sle a b) (le_ba := sle b a).
    + apply st_ch_false; assumption.
    + apply st_ch_false; assumption.
    + apply st_cmp_cases; assumption.
  - intros a Wa. unfold st_isbot. split.
    + intros B b _. destruct (fst a) eqn:Fa; [|discriminate]. destruct (snd a) eqn:Ta; [|discriminate].
      unfold sle. rewrite Fa, Ta. split; [intros x []|intros x []].
    + intros B. specialize (B ([], []) Logic.eq_refl). destruct B as [I P].
      destruct (snd a) as [|t ts]; [|exfalso; apply (I t); left; reflexivity].
      destruct (fst a) as [|x xs]; [reflexivity|]. exfalso. apply (P x); [left; reflexivity|intros []].
  - exists ([], []). reflexivity.
Qed.

Theorem settomb_laws : LatLaws settomb_ops.
Proof. exact (ord_laws settomb_ord). Qed.

(* is_top is constantly false, and rightly so: a fresh tombstone makes a strictly larger state *)
Lemma settomb_toplaw : TopLaw settomb_ops.
Proof.
  intros a Wa. cbn [istop settomb_ops]. split; [discriminate|]. intros T. exfalso.
  set (z := (1 + fold_right N.add 0 (snd a))%N).
  assert (Hz : ~ In z (snd a)).
  { assert (forall l x, In x l -> (x <= fold_right N.add 0 l)%N) as Hle.
    { induction l as [|y r IH]; cbn; intros x [].
      - subst. lia.
      - specialize (IH x H). lia. }
    intros I. apply Hle in I. unfold z in I. lia. }
  assert (Wz : W settomb_ops ([], [z])) by reflexivity.
  specialize (T _ Wz). apply (o_Le_iff settomb_ord) in T; auto.
  destruct T as [I _]. apply Hz, I. left. reflexivity.
Qed.

(* ------------------------------------------------------------------ C05 for sets *)
Definition in_live (ss : list tstate) (x : N) : Prop := exists s, In s ss /\ In x (fst s).
Definition in_tomb {A} (ss : list (A * list N)) (x : N) : Prop := exists s, In s ss /\ In x (snd s).

Lemma in_app_ex {T} (P : T -> Prop) l1 l2 :
  (exists s, In s (l1 ++ l2) /\ P s) <-> (exists s, In s l1 /\ P s) \/ (exists s, In s l2 /\ P s).
Proof.
  split.
  - intros [s [Hs Ps]]. apply in_app_iff in Hs. destruct Hs; [left|right]; eauto.
  - intros [[s [Hs Ps]]|[s [Hs Ps]]]; exists s; rewrite in_app_iff; auto.
Qed.

(* every merge tree over well-formed replica states: the result is well-formed (nothing both
   live and tombstoned), its tombstones are the union of all tombstones, its live items are
   the union of all live items minus the union of all tombstones *)
Theorem settomb_tree (t : mtree tstate) : Forall (W settomb_ops) (leaves t) ->
  W settomb_ops (teval settomb_ops t) /\
  (forall x, In x (snd (teval settomb_ops t)) <-> in_tomb (leaves t) x) /\
  (forall x, In x (fst (teval settomb_ops t)) <-> in_live (leaves t) x /\ ~ in_tomb (leaves t) x).
Proof.
  intros F. split; [apply tree_wf; [exact settomb_laws|exact F]|].
  induction t as [a|l IHl r IHr]; cbn [teval leaves] in *.
  - inversion F as [|? ? Wa _]; subst. apply st_wf_spec in Wa. destruct Wa as [_ [_ Da]].
    unfold in_live, in_tomb. split; intros x; split.
    + intros Hx. exists a. split; [left; reflexivity|exact Hx].
    + intros [s [[<-|[]] Hx]]. exact Hx.
    + intros Hx. split; [exists a; split; [left; reflexivity|exact Hx]|].
      intros [s [[<-|[]] Ht]]. exact (Da x Hx Ht).
    + intros [[s [[<-|[]] Hx]] _]. exact Hx.
  - apply Forall_app in F. destruct F as [Fl Fr].
    destruct (IHl Fl) as [Tl Ll]. destruct (IHr Fr) as [Tr Lr].
    pose proof (tree_wf _ _ settomb_laws l Fl) as Wl. pose proof (tree_wf _ _ settomb_laws r Fr) as Wr.
    apply st_wf_spec in Wl, Wr.
    unfold m. cbn [mrg settomb_ops]. unfold in_live, in_tomb in *. split; intros x.
    + rewrite st_tomb_In, Tl, Tr, in_app_ex. tauto.
    + rewrite st_live_In_wf by assumption. rewrite Ll, Lr, Tl, Tr, !in_app_ex. tauto.
Qed.

(* the same for a replica absorbing states one by one, in any order *)
Corollary settomb_history init others :
  W settomb_ops init -> Forall (W settomb_ops) others ->
  let r := hfold settomb_ops init others in
  W settomb_ops r /\
  (forall x, In x (snd r) <-> in_tomb (init :: others) x) /\
  (forall x, In x (fst r) <-> in_live (init :: others) x /\ ~ in_tomb (init :: others) x).
Proof.
  intros Wi F. cbv zeta. rewrite hfold_comb.
  pose proof (settomb_tree (comb (Leaf init) others)) as T.
  rewrite comb_leaves in T. cbn [leaves app] in T. apply T. constructor; assumption.
Qed.

(* once tombstoned, never live again -- whatever is merged in later, in whatever shape *)
Theorem settomb_no_resurrect s x later :
  W settomb_ops s -> Forall (W settomb_ops) later -> In x (snd s) ->
  let r := hfold settomb_ops s later in ~ In x (fst r) /\ In x (snd r).
Proof.
  intros Ws F Hx. cbv zeta.
  destruct (settomb_history s later Ws F) as [_ [T Lv]].
  assert (IT : in_tomb (s :: later) x) by (exists s; split; [left; reflexivity|exact Hx]).
  split; [|apply T, IT]. intros Hl. apply Lv in Hl. tauto.
Qed.

Theorem settomb_no_resurrect_tree (t : mtree tstate) x :
  Forall (W settomb_ops) (leaves t) -> in_tomb (leaves t) x ->
  ~ In x (fst (teval settomb_ops t)) /\ In x (snd (teval settomb_ops t)).
Proof.
  intros F IT. destruct (settomb_tree t F) as [_ [T Lv]].
  split; [|apply T, IT]. intros Hl. apply Lv in Hl. tauto.
Qed.

(* insert / delete as the repo's tests do them: merge with ({x},{}) resp. ({},{x}) *)
Inductive hop : Type := HIns (x : N) | HDel (x : N) | HMerge (s : tstate).
Definition hop_state (o : hop) : tstate :=
  match o with HIns x => ([x], []) | HDel x => ([], [x]) | HMerge s => s end.
Definition inserted (h : list hop) (x : N) : Prop :=
  In (HIns x) h \/ exists s, In (HMerge s) h /\ In x (fst s).
Definition deleted (h : list hop) (x : N) : Prop :=
  In (HDel x) h \/ exists s, In (HMerge s) h /\ In x (snd s).
Definition hop_wf (o : hop) : Prop :=
  match o with HMerge s => W settomb_ops s | _ => True end.

Theorem settomb_ops_history (h : list hop) : Forall hop_wf h ->
  let r := hfold settomb_ops ([], []) (map hop_state h) in
  W settomb_ops r /\
  (forall x, In x (snd r) <-> deleted h x) /\
  (forall x, In x (fst r) <-> inserted h x /\ ~ deleted h x).
Proof.
  intros F. cbv zeta.
  assert (F' : Forall (W settomb_ops) (map hop_state h)).
  { apply Forall_forall. intros s Hs. apply in_map_iff in Hs. destruct Hs as [o [<- Ho]].
    rewrite Forall_forall in F. specialize (F o Ho). destruct o; try reflexivity. exact F. }
  destruct (settomb_history ([], []) (map hop_state h) Logic.eq_refl F') as [Wr [T Lv]].
  assert (IT : forall x, in_tomb (([], []) :: map hop_state h) x <-> deleted h x).
  { intros x. unfold in_tomb, deleted. split.
    - intros [s [[<-|Hs] Hx]]; [destruct Hx|].
      apply in_map_iff in Hs. destruct Hs as [o [<- Ho]]. destruct o as [y|y|s]; cbn in Hx.
      + destruct Hx.
      + destruct Hx as [<-|[]]. left. exact Ho.
      + right. eauto.
    - intros [Hd|[s [Hs Hx]]].
      + exists ([], [x]). split; [right; apply in_map_iff; exists (HDel x); auto|left; reflexivity].
      + exists s. split; [right; apply in_map_iff; exists (HMerge s); auto|exact Hx]. }
  assert (IL : forall x, in_live (([], []) :: map hop_state h) x <-> inserted h x).
  { intros x. unfold in_live, inserted. split.
    - intros [s [[<-|Hs] Hx]]; [destruct Hx|].
      apply in_map_iff in Hs. destruct Hs as [o [<- Ho]]. destruct o as [y|y|s]; cbn in Hx.
      + destruct Hx as [<-|[]]. left. exact Ho.
      + destruct Hx.
      + right. eauto.
    - intros [Hd|[s [Hs Hx]]].
      + exists ([x], []). split; [right; apply in_map_iff; exists (HIns x); auto|left; reflexivity].
      + exists s. split; [right; apply in_map_iff; exists (HMerge s); auto|exact Hx]. }
  split; [exact Wr|]. split; intros x.
  - rewrite T. apply IT.
  - rewrite Lv, IL, IT. tauto.
Qed.

(* the length-based changed flag needs the disjointness invariant: outside wf it is wrong *)
Lemma settomb_flag_needs_disjoint_refuted :
  exists a b, W settomb_ops b /\ st_wf a = false /\
    ch settomb_ops a b = false /\ fst (m settomb_ops a b) <> fst a.
Proof.
  exists ([1%N], [1%N]), ([2%N], [1%N]). vm_compute. repeat split; try reflexivity. discriminate.
Qed.

(* ================================================================== maps with tombstones *)
Lemma tomb_greater_false ta tb :
  existsb (fun k => negb (mem k tb)) ta = false <-> incl ta tb.
Proof.
  rewrite existsb_false_iff. unfold incl. split; intros Hf x Hx.
  - apply mem_In. specialize (Hf x Hx). apply negb_false_iff in Hf. exact Hf.
  - apply negb_false_iff, mem_In, Hf, Hx.
Qed.

(* "the tombstone set grew", as a length test, is "other has a tombstone self lacks" *)
Lemma tomb_len_flag ta tb : NoDup ta -> NoDup tb ->
  negb (N.eqb (lenN ta) (lenN (set_extend ta tb))) = existsb (fun k => negb (mem k ta)) tb.
Proof.
  intros Na Nb.
  assert (Len : length ta <= length (set_extend ta tb)).
  { apply NoDup_incl_length; [exact Na|]. intros x Hx. apply set_extend_In. left. exact Hx. }
  pose proof (set_ch_false ta tb Na Nb) as F. pose proof (tomb_greater_false tb ta) as G.
  destruct (existsb (fun k => negb (mem k ta)) tb).
  - apply negb_true_iff, N.eqb_neq. intros Q.
    assert (N.ltb (lenN ta) (lenN (set_extend ta tb)) = false) by (apply N.ltb_ge; lia).
    apply F, G in H. discriminate.
  - apply negb_false_iff, N.eqb_eq.
    assert (N.ltb (lenN ta) (lenN (set_extend ta tb)) = false) by (apply F, G; reflexivity).
    apply N.ltb_ge in H. unfold lenN in *. lia.
Qed.

Section MapTombOrd.
  Variable V : Type.
  Variable LV : LatOps V.
  Hypothesis H : LatLaws LV.

  Notation MT := (maptomb_ops LV).
  Notation mst := (mstate V).
  Notation MW := (W (map_ops LV)).
  Notation ag := (aget V LV).
  Notation ol := (ole V LV).
  Notation ow := (owf V LV).

  Definition MTW (a : mst) : Prop :=
    MW (fst a) /\ NoDup (snd a) /\ forall k, In k (keys (fst a)) -> ~ In k (snd a).

  Lemma mt_wf_spec a : mt_wf LV a = true <-> MTW a.
  Proof.
    unfold mt_wf, MTW, W. rewrite !andb_true_iff, nodupb_NoDup, disjb_spec. tauto.
  Qed.

  Lemma keys_get k (l : list (N * V)) : In k (keys l) -> exists v, get k l = Some v.
  Proof.
    intros Hk. destruct (get k l) as [v|] eqn:G; [eauto|]. apply get_None in G. contradiction.
  Qed.

  Lemma ag_ext k (x y : list (N * V)) : get k x = get k y -> ag k x = ag k y.
  Proof. unfold aget. intros ->. reflexivity. Qed.

  Lemma ag_nokey k (x : list (N * V)) : ~ In k (keys x) -> ag k x = None.
  Proof. intros Hn. unfold aget. apply get_None in Hn. rewrite Hn. reflexivity. Qed.

  Lemma ol_trans x y z : ow x -> ow y -> ow z -> ol x y -> ol y z -> ol x z.
  Proof.
    destruct x as [x|], y as [y|], z as [z|]; cbn; try tauto.
    intros Wx Wy Wz. apply (le_trans H); assumption.
  Qed.

  Lemma ag_ow a k : MW a -> ow (ag k a).
  Proof.
    intros Wa. destruct (ag k a) as [v|] eqn:G; cbn; [|exact I]. exact (aget_wf V LV a k v Wa G).
  Qed.

  (* ---------------------------------------------------------------- filtering by key *)
  Definition kfilter (p : N -> bool) (l : list (N * V)) : list (N * V) :=
    filter (fun kv => p (fst kv)) l.

  Lemma get_kfilter p k l : NoDup (keys l) ->
    get k (kfilter p l) = if p k then get k l else None.
  Proof.
    intros Hn. unfold kfilter. rewrite get_filter by exact Hn. cbn [fst].
    destruct (get k l); destruct (p k); reflexivity.
  Qed.

  Lemma kfilter_MW p l : MW l -> MW (kfilter p l).
  Proof.
    intros Wl. apply mw_intro.
    - apply NoDup_keys_filter. exact (mw_nodup V LV l Wl).
    - intros k v Hi. apply filter_In in Hi. destruct Hi as [Hi _].
      apply (mw_val V LV l k v Wl). apply In_get; [exact (mw_nodup V LV l Wl)|exact Hi].
  Qed.

  (* removing a list of keys one by one *)
  Lemma remove_all_get other : forall (s : list (N * V)) k, NoDup (keys s) ->
    NoDup (keys (fold_left (fun s x => map_remove x s) other s)) /\
    get k (fold_left (fun s x => map_remove x s) other s) = if mem k other then None else get k s.
  Proof.
    induction other as [|x r IH]; intros s k Hn; cbn [fold_left].
    - split; [exact Hn|reflexivity].
    - assert (Hn' : NoDup (keys (map_remove x s))) by (apply NoDup_keys_filter; exact Hn).
      destruct (IH (map_remove x s) k Hn') as [N1 G]. split; [exact N1|].
      rewrite G. unfold map_remove. rewrite get_filter by exact Hn. cbn [fst].
      unfold mem. cbn [existsb]. fold (mem k r).
      destruct (N.eqb k x), (mem k r), (get k s); reflexivity.
  Qed.

  Lemma remove_all_sub other : forall (s : list (N * V)) kv,
    In kv (fold_left (fun s x => map_remove x s) other s) -> In kv s.
  Proof.
    induction other as [|x r IH]; intros s kv Hi; cbn [fold_left] in Hi; [exact Hi|].
    apply IH in Hi. unfold map_remove in Hi. apply filter_In in Hi. tauto.
  Qed.

  (* ---------------------------------------------------------------- the merge, pointwise *)
  Definition omap (a b : mst) : list (N * V) := kfilter (fun k => negb (mem k (snd a))) (fst b).

  Lemma mt_merge_eq a b :
    fst (mt_merge LV a b) =
    (fold_left (fun s x => map_remove x s) (snd b) (fst (map_merge LV (fst a) (omap a b))),
     set_extend (snd a) (snd b)).
  Proof. unfold mt_merge. cbn [fst]. apply tomb_extend_eq. Qed.

  Lemma mt_tomb_In a b k :
    In k (snd (fst (mt_merge LV a b))) <-> In k (snd a) \/ In k (snd b).
  Proof. rewrite mt_merge_eq. cbn [snd]. apply set_extend_In. Qed.

  Lemma omap_get a b k : MTW b ->
    get k (omap a b) = if mem k (snd a) then None else get k (fst b).
  Proof.
    intros [Wb _]. unfold omap. rewrite get_kfilter by exact (mw_nodup V LV _ Wb).
    destruct (mem k (snd a)); reflexivity.
  Qed.

  Lemma mt_get a b k : MTW a -> MTW b ->
    get k (fst (fst (mt_merge LV a b))) =
    if mem k (snd b) then None else merged_get LV (fst a) (omap a b) k.
  Proof.
    intros [Wa _] [Wb _]. rewrite mt_merge_eq. cbn [fst].
    assert (Na : NoDup (keys (fst a))) by exact (mw_nodup V LV _ Wa).
    assert (No : NoDup (keys (omap a b))) by (apply NoDup_keys_filter; exact (mw_nodup V LV _ Wb)).
    destruct (remove_all_get (snd b) (fst (map_merge LV (fst a) (omap a b))) k) as [_ G].
    { apply map_merge_keys_NoDup; assumption. }
    rewrite G, map_merge_get by assumption. reflexivity.
  Qed.

  Lemma mt_point a b k : MTW a -> MTW b ->
    let r := fst (mt_merge LV a b) in
    (In k (snd a) \/ In k (snd b) -> get k (fst r) = None) /\
    (~ In k (snd a) -> ~ In k (snd b) ->
       ol (ag k (fst a)) (ag k (fst r)) /\ ol (ag k (fst b)) (ag k (fst r)) /\
       forall z, ow z -> ol (ag k (fst a)) z -> ol (ag k (fst b)) z -> ol (ag k (fst r)) z).
  Proof.
    intros Wa Wb. cbv zeta. pose proof (mt_get a b k Wa Wb) as G.
    pose proof (omap_get a b k Wb) as Go.
    destruct Wa as [Wa [Ta Da]]. destruct Wb as [Wb [Tb Db]]. split.
    - intros [Hk|Hk].
      + rewrite G. destruct (mem k (snd b)); [reflexivity|].
        unfold merged_get. rewrite Go.
        assert (M : mem k (snd a) = true) by (apply mem_In; exact Hk). rewrite M.
        assert (Ga : get k (fst a) = None).
        { apply get_None. intros Hi. exact (Da k Hi Hk). }
        rewrite Ga. reflexivity.
      + rewrite G. assert (M : mem k (snd b) = true) by (apply mem_In; exact Hk). rewrite M. reflexivity.
    - intros Hna Hnb.
      assert (Ma : mem k (snd a) = false) by (apply mem_false; exact Hna).
      assert (Mb : mem k (snd b) = false) by (apply mem_false; exact Hnb).
      rewrite Mb in G. rewrite Ma in Go.
      assert (Wo : MW (omap a b)) by (apply kfilter_MW; exact Wb).
      pose proof (merged_point V LV H (fst a) (omap a b) k Wa Wo) as P. cbv zeta in P.
      assert (R1 : ag k (fst (fst (mt_merge LV a b))) = ag k (fst (map_merge LV (fst a) (omap a b)))).
      { apply ag_ext. rewrite G. symmetry. apply map_merge_get.
        - exact (mw_nodup V LV _ Wa).
        - exact (mw_nodup V LV _ Wo). }
      assert (R2 : ag k (omap a b) = ag k (fst b)) by (apply ag_ext; exact Go).
      rewrite R1. rewrite R2 in P. exact P.
  Qed.

  Lemma mt_merge_MTW a b : MTW a -> MTW b -> MTW (fst (mt_merge LV a b)).
  Proof.
    intros Wa Wb. pose proof (fun k => mt_point a b k Wa Wb) as P. cbv zeta in P.
    pose proof Wa as [Wa' [Ta Da]]. pose proof Wb as [Wb' [Tb Db]].
    assert (Wo : MW (omap a b)) by (apply kfilter_MW; exact Wb').
    assert (NM : NoDup (keys (fst (map_merge LV (fst a) (omap a b))))).
    { apply map_merge_keys_NoDup; [exact (mw_nodup V LV _ Wa')|exact (mw_nodup V LV _ Wo)]. }
    assert (WM : MW (fst (map_merge LV (fst a) (omap a b)))) by (apply (map_merge_wf V LV H); assumption).
    split; [|split].
    - rewrite mt_merge_eq. cbn [fst]. apply mw_intro.
      + apply (remove_all_get (snd b) _ 0%N NM).
      + intros k v Hi. apply remove_all_sub in Hi.
        apply (mw_val V LV _ k v WM). apply In_get; assumption.
    - rewrite mt_merge_eq. cbn [snd]. apply set_extend_NoDup, Ta.
    - intros k Hk Ht. apply mt_tomb_In in Ht. apply keys_get in Hk. destruct Hk as [v G].
      rewrite (proj1 (P k) Ht) in G. discriminate.
  Qed.

  (* ---------------------------------------------------------------- the order *)
  Definition tle (a b : mst) : Prop :=
    incl (snd a) (snd b) /\ forall k, ~ In k (snd b) -> ol (ag k (fst a)) (ag k (fst b)).

  Lemma In_dec_N (k : N) l : In k l \/ ~ In k l.
  Proof. destruct (in_dec N.eq_dec k l); tauto. Qed.

  Lemma mt_eq_tle a b : MTW a -> MTW b -> (mt_eqb LV a b = true <-> tle a b /\ tle b a).
  Proof.
    intros [Wa [Ta Da]] [Wb [Tb Db]]. unfold mt_eqb.
    pose proof (tomb_greater_false (snd a) (snd b)) as G1.
    pose proof (tomb_greater_false (snd b) (snd a)) as G2.
    pose proof (map_eq_mle V LV H (fst a) (fst b) Wa Wb) as ME.
    split.
    - destruct (N.eqb (lenN (snd a)) (lenN (snd b))); cbn [negb]; [|discriminate].
      destruct (existsb _ (snd a)); [discriminate|].
      destruct (existsb _ (snd b)); [discriminate|].
      intros Q. apply ME in Q. destruct Q as [M1 M2].
      split; (split; [tauto|]); intros k _; [apply M1|apply M2].
    - intros [[I1 P1] [I2 P2]].
      assert (L : N.eqb (lenN (snd a)) (lenN (snd b)) = true).
      { apply N.eqb_eq. unfold lenN.
        pose proof (NoDup_incl_length Ta I1). pose proof (NoDup_incl_length Tb I2). lia. }
      rewrite L. cbn [negb].
      rewrite (proj2 G1 I1), (proj2 G2 I2). apply ME. split; intros k.
      + destruct (In_dec_N k (snd b)) as [Hk|Hk]; [|apply P1, Hk].
        rewrite ag_nokey; [exact I|]. intros Hi. apply (Da k Hi), I2, Hk.
      + destruct (In_dec_N k (snd a)) as [Hk|Hk]; [|apply P2, Hk].
        rewrite ag_nokey; [exact I|]. intros Hi. apply (Db k Hi), I1, Hk.
  Qed.

  Lemma mt_ch_eq a b : MTW a -> MTW b ->
    snd (mt_merge LV a b) =
    snd (map_merge LV (fst a) (omap a b)) || existsb (fun k => negb (mem k (snd a))) (snd b).
  Proof.
    intros [_ [Ta _]] [_ [Tb _]]. unfold mt_merge. cbn [snd]. f_equal.
    rewrite tomb_extend_eq. cbn [snd]. apply tomb_len_flag; assumption.
  Qed.

  Lemma mt_ch_false a b : MTW a -> MTW b -> (snd (mt_merge LV a b) = false <-> tle b a).
  Proof.
    intros Wa Wb. rewrite mt_ch_eq by assumption. rewrite orb_false_iff, tomb_greater_false.
    pose proof (fun k => omap_get a b k Wb) as Go.
    destruct Wa as [Wa [Ta Da]]. destruct Wb as [Wb [Tb Db]].
    assert (Wo : MW (omap a b)) by (apply kfilter_MW; exact Wb).
    rewrite (map_ch_false V LV H (fst a) (omap a b) Wa Wo). unfold tle, mle. split.
    - intros [M I]. split; [exact I|]. intros k Hk. specialize (M k).
      rewrite (ag_ext k (omap a b) (fst b)) in M; [exact M|].
      rewrite Go. apply mem_false in Hk. rewrite Hk. reflexivity.
    - intros [I M]. split; [|exact I]. intros k.
      destruct (In_dec_N k (snd a)) as [Hk|Hk].
      + assert (Q : ag k (omap a b) = None).
        { unfold aget. rewrite Go. apply mem_In in Hk. rewrite Hk. reflexivity. }
        rewrite Q. exact Logic.I.
      + rewrite (ag_ext k (omap a b) (fst b)); [apply M, Hk|].
        rewrite Go. apply mem_false in Hk. rewrite Hk. reflexivity.
  Qed.

  (* ---------------------------------------------------------------- partial_cmp *)
  (* the key loop sees exactly the changed flag of the map part of the merge *)
  Lemma ogk_upd (A B : list (N * V)) ta tb ks : MW A -> MW B ->
    (forall k, In k (keys B) -> ~ In k tb) ->
    (forall k, In k ks <->
       ((exists v, In (k, v) A /\ isbot LV v = false) \/ (exists v, In (k, v) B /\ isbot LV v = false)) /\
       ~ In k ta /\ ~ In k tb) ->
    existsb (ogk V LV A B) ks = existsb (upd LV A) (kfilter (fun k => negb (mem k ta)) B).
  Proof.
    intros WA WB DB Hks.
    pose proof (mw_nodup V LV _ WA) as NA. pose proof (mw_nodup V LV _ WB) as NB.
    apply bool_eq_iff. rewrite !existsb_exists. split.
    - intros [k [Hk O]]. apply Hks in Hk. destruct Hk as [Src [Hta Htb]]. unfold ogk in O.
      destruct (get k A) as [va|] eqn:GA; destruct (get k B) as [vb|] eqn:GB.
      + exists (k, vb). split.
        * apply filter_In. split; [apply get_In, GB|]. cbn [fst]. apply negb_true_iff, mem_false, Hta.
        * unfold upd. cbn [fst snd]. rewrite GA, O.
          assert (Wva : W LV va) by exact (mw_val V LV _ _ _ WA GA).
          assert (Wvb : W LV vb) by exact (mw_val V LV _ _ _ WB GB).
          destruct (isbot LV vb) eqn:Bb; [|reflexivity].
          destruct (bot_merge_r H Wva Wvb Bb) as [C _]. unfold ch in C. congruence.
      + discriminate.
      + destruct Src as [[v [Hi _]]|[v [Hi Bv]]].
        * apply In_get in Hi; [|exact NA]. congruence.
        * apply In_get in Hi; [|exact NB]. rewrite GB in Hi. inversion Hi; subst v.
          exists (k, vb). split.
          -- apply filter_In. split; [apply get_In, GB|]. cbn [fst]. apply negb_true_iff, mem_false, Hta.
          -- unfold upd. cbn [fst snd]. rewrite GA, Bv. reflexivity.
      + destruct Src as [[v [Hi _]]|[v [Hi _]]].
        * apply In_get in Hi; [|exact NA]. congruence.
        * apply In_get in Hi; [|exact NB]. congruence.
    - intros [[k vb] [Hi U]]. apply filter_In in Hi. destruct Hi as [Hi Hta]. cbn [fst] in Hta.
      apply negb_true_iff, mem_false in Hta.
      unfold upd in U. cbn [fst snd] in U. apply andb_true_iff in U. destruct U as [Bb U].
      apply negb_true_iff in Bb.
      assert (GB : get k B = Some vb) by (apply In_get; assumption).
      exists k. split.
      + apply Hks. split; [right; exists vb; tauto|]. split; [exact Hta|].
        apply DB. apply (in_map fst) in Hi. exact Hi.
      + unfold ogk. rewrite GB. destruct (get k A); [exact U|reflexivity].
  Qed.

  Lemma vis_keys_spec (A B : list (N * V)) ta tb k :
    let vis := fun kv : N * V =>
      negb (isbot LV (snd kv)) && negb (mem (fst kv) ta) && negb (mem (fst kv) tb) in
    In k (map fst (filter vis A) ++ map fst (filter vis B)) <->
    ((exists v, In (k, v) A /\ isbot LV v = false) \/ (exists v, In (k, v) B /\ isbot LV v = false)) /\
    ~ In k ta /\ ~ In k tb.
  Proof.
    cbv zeta. rewrite in_app_iff, !in_map_iff.
    assert (X : forall (l : list (N * V)),
      (exists x : N * V, fst x = k /\
         In x (filter (fun kv => negb (isbot LV (snd kv)) && negb (mem (fst kv) ta) && negb (mem (fst kv) tb)) l)) <->
      (exists v, In (k, v) l /\ isbot LV v = false) /\ ~ In k ta /\ ~ In k tb).
    { intros l. split.
      - intros [[k' v] [Hk Hi]]. cbn [fst] in Hk. subst k'. apply filter_In in Hi. cbn [fst snd] in Hi.
        rewrite !andb_true_iff, !negb_true_iff, !mem_false in Hi. split; [exists v|]; tauto.
      - intros [[v [Hi Bv]] [Ha Hb]]. exists (k, v). split; [reflexivity|]. apply filter_In. cbn [fst snd].
        rewrite !andb_true_iff, !negb_true_iff, !mem_false. tauto. }
    rewrite !X. tauto.
  Qed.

  Lemma mt_cmp_spec a b : MTW a -> MTW b ->
    mt_cmp LV a b = naive (snd (mt_merge LV a b)) (snd (mt_merge LV b a)).
  Proof.
    intros Wa Wb. rewrite (mt_ch_eq a b Wa Wb), (mt_ch_eq b a Wb Wa).
    destruct Wa as [Wa [Ta Da]]. destruct Wb as [Wb [Tb Db]].
    assert (Woa : MW (omap a b)) by (apply kfilter_MW; exact Wb).
    assert (Wob : MW (omap b a)) by (apply kfilter_MW; exact Wa).
    rewrite !map_merge_changed by
      (first [exact (mw_nodup V LV _ Wa)|exact (mw_nodup V LV _ Wb)
             |exact (mw_nodup V LV _ Woa)|exact (mw_nodup V LV _ Wob)]).
    unfold mt_cmp.
    set (ks := map fst (filter _ (fst a)) ++ map fst (filter _ (fst b))).
    rewrite (cmp_go_spec V LV H (fst a) (fst b) Wa Wb ks false false). cbn [orb].
    assert (Hks := vis_keys_spec (fst a) (fst b) (snd a) (snd b)). cbv zeta in Hks. fold ks in Hks.
    rewrite (ogk_upd (fst a) (fst b) (snd a) (snd b) ks Wa Wb Db Hks).
    rewrite (ogk_upd (fst b) (fst a) (snd b) (snd a) ks Wb Wa Da).
    2:{ intros k. rewrite Hks. tauto. }
    unfold omap.
    destruct (existsb (upd LV (fst a)) _), (existsb (upd LV (fst b)) _),
      (existsb _ (snd a)), (existsb _ (snd b)); reflexivity.
  Qed.

  (* ---------------------------------------------------------------- the laws *)
  Local Ltac unm := unfold W, E, Le, m, ch in *;
    cbn [wf mrg cmp eqb isbot istop maptomb_ops] in *.

  Lemma maptomb_ord : OrdLaws MT tle.
  Proof.
    split; unm.
    - intros a Wa. apply mt_wf_spec in Wa. destruct Wa as [Wa _].
      split; [apply incl_refl|]. intros k _. apply (mle_refl V LV H _ Wa).
    - intros a b c Wa Wb Wc [I1 P1] [I2 P2]. apply mt_wf_spec in Wa, Wb, Wc.
      destruct Wa as [Wa _], Wb as [Wb _], Wc as [Wc _]. split.
      + eapply incl_tran; eassumption.
      + intros k Hk. apply ol_trans with (y := ag k (fst b)); auto using ag_ow.
    - intros a b Wa Wb. apply mt_wf_spec in Wa, Wb. apply mt_eq_tle; assumption.
    - intros a b Wa Wb. apply mt_wf_spec in Wa, Wb. apply mt_wf_spec, mt_merge_MTW; assumption.
    - intros a b Wa Wb. apply mt_wf_spec in Wa, Wb. split.
      + intros k Hk. apply mt_tomb_In. left. exact Hk.
      + intros k Hk. rewrite mt_tomb_In in Hk.
        apply (proj2 (mt_point a b k Wa Wb)); tauto.
    - intros a b Wa Wb. apply mt_wf_spec in Wa, Wb. split.
      + intros k Hk. apply mt_tomb_In. right. exact Hk.
      + intros k Hk. rewrite mt_tomb_In in Hk.
        apply (proj2 (mt_point a b k Wa Wb)); tauto.
    - intros a b c Wa Wb Wc [I1 P1] [I2 P2]. apply mt_wf_spec in Wa, Wb, Wc. split.
      + intros k Hk. apply mt_tomb_In in Hk. destruct Hk; auto.
      + intros k Hk.
        assert (Hna : ~ In k (snd a)) by (intros Hi; apply Hk, I1, Hi).
        assert (Hnb : ~ In k (snd b)) by (intros Hi; apply Hk, I2, Hi).
        apply (proj2 (mt_point a b k Wa Wb) Hna Hnb); auto.
        apply ag_ow. exact (proj1 Wc).
    - intros a b Wa Wb. apply mt_wf_spec in Wa, Wb. apply mt_ch_false; assumption.
    - intros a b Wa Wb. apply mt_wf_spec in Wa, Wb. apply mt_cmp_spec; assumption.
    - intros a Wa. apply mt_wf_spec in Wa. destruct Wa as [Wa [Ta Da]].
      unfold mt_isbot. rewrite andb_true_iff, forallb_forall. split.
      + intros [B T] b _. unfold tle. destruct (snd a) eqn:Sa; [|discriminate]. split; [intros x []|].
        intros k _. destruct (ag k (fst a)) as [v|] eqn:G; cbn; [|exact I].
        apply aget_Some in G. destruct G as [G Bv]. apply get_In in G. specialize (B _ G).
        cbn in B. congruence.
      + intros L. specialize (L ([], []) Logic.eq_refl). destruct L as [I P]. split.
        * intros [k v] Hi. cbn. specialize (P k (fun f => f)).
          apply In_get in Hi; [|exact (mw_nodup V LV _ Wa)].
          unfold aget in P. cbn [fst] in P. rewrite Hi in P.
          destruct (isbot LV v); [reflexivity|]. cbn in P. contradiction.
        * destruct (snd a) as [|t ts]; [reflexivity|]. exfalso. apply (I t). left. reflexivity.
    - exists ([], []). reflexivity.
  Qed.

  Theorem maptomb_laws : LatLaws MT.
  Proof. exact (ord_laws maptomb_ord). Qed.

  Lemma maptomb_toplaw : TopLaw MT.
  Proof.
    intros a Wa. cbn [istop maptomb_ops]. split; [discriminate|]. intros T. exfalso.
    set (z := (1 + fold_right N.add 0 (snd a))%N).
    assert (Hz : ~ In z (snd a)).
    { assert (forall l x, In x l -> (x <= fold_right N.add 0 l)%N) as Hle.
      { induction l as [|y r IH]; cbn; intros x [].
        - subst. lia.
        - specialize (IH x H0). lia. }
      intros I. apply Hle in I. unfold z in I. lia. }
    assert (Wz : W MT ([], [z])) by reflexivity.
    specialize (T _ Wz). apply (o_Le_iff maptomb_ord) in T; auto.
    destruct T as [I _]. apply Hz, I. left. reflexivity.
  Qed.

  (* ---------------------------------------------------------------- C05 for maps *)
  (* every merge tree over well-formed replica states: well-formed result (no key both in the
     map and tombstoned); tombstones = union of all tombstones; a key tombstoned anywhere is
     absent from the map; for every other key the visible value is the least upper bound of the
     visible values it has in the replica states *)
  Theorem maptomb_tree (t : mtree mst) : Forall (W MT) (leaves t) ->
    W MT (teval MT t) /\
    (forall k, In k (snd (teval MT t)) <-> in_tomb (leaves t) k) /\
    (forall k, in_tomb (leaves t) k -> get k (fst (teval MT t)) = None) /\
    (forall k, ~ in_tomb (leaves t) k ->
       (forall s, In s (leaves t) -> ol (ag k (fst s)) (ag k (fst (teval MT t)))) /\
       (forall z, ow z -> (forall s, In s (leaves t) -> ol (ag k (fst s)) z) ->
                  ol (ag k (fst (teval MT t))) z)).
  Proof.
    intros F. split; [apply tree_wf; [exact maptomb_laws|exact F]|].
    induction t as [a|l IHl r IHr]; cbn [teval leaves] in *.
    - inversion F as [|? ? Wa _]; subst. apply mt_wf_spec in Wa. destruct Wa as [Wa [Ta Da]].
      unfold in_tomb. split; [|split].
      + intros k. split.
        * intros Hk. exists a. split; [left; reflexivity|exact Hk].
        * intros [s [[<-|[]] Hk]]. exact Hk.
      + intros k [s [[<-|[]] Hk]]. apply get_None. intros Hi. exact (Da k Hi Hk).
      + intros k _. split.
        * intros s [<-|[]]. apply (mle_refl V LV H _ Wa).
        * intros z _ Hz. apply Hz. left. reflexivity.
    - apply Forall_app in F. destruct F as [Fl Fr].
      destruct (IHl Fl) as [Tl [Gl Pl]]. destruct (IHr Fr) as [Tr [Gr Pr]].
      pose proof (tree_wf _ _ maptomb_laws l Fl) as Wl. pose proof (tree_wf _ _ maptomb_laws r Fr) as Wr.
      apply mt_wf_spec in Wl, Wr.
      pose proof (mt_merge_MTW _ _ Wl Wr) as Wm.
      unfold m. cbn [mrg maptomb_ops]. unfold in_tomb in *. split; [|split].
      + intros k. rewrite mt_tomb_In, Tl, Tr, in_app_ex. tauto.
      + intros k Hk. apply in_app_ex in Hk. apply (proj1 (mt_point _ _ k Wl Wr)).
        rewrite Tl, Tr. exact Hk.
      + intros k Hk. rewrite in_app_ex in Hk.
        assert (Hnl : ~ In k (snd (teval MT l))) by (rewrite Tl; tauto).
        assert (Hnr : ~ In k (snd (teval MT r))) by (rewrite Tr; tauto).
        destruct (proj2 (mt_point _ _ k Wl Wr) Hnl Hnr) as [U1 [U2 U3]].
        destruct (Pl k) as [Pl1 Pl2]; [tauto|]. destruct (Pr k) as [Pr1 Pr2]; [tauto|].
        assert (WfL : forall s, In s (leaves l) -> ow (ag k (fst s))).
        { intros s Hs. apply ag_ow. rewrite Forall_forall in Fl. specialize (Fl s Hs).
          apply mt_wf_spec in Fl. exact (proj1 Fl). }
        assert (WfR : forall s, In s (leaves r) -> ow (ag k (fst s))).
        { intros s Hs. apply ag_ow. rewrite Forall_forall in Fr. specialize (Fr s Hs).
          apply mt_wf_spec in Fr. exact (proj1 Fr). }
        split.
        * intros s Hs. apply in_app_iff in Hs. destruct Hs as [Hs|Hs].
          -- apply ol_trans with (y := ag k (fst (teval MT l))); auto.
             ++ apply ag_ow, (proj1 Wl).
             ++ apply ag_ow, (proj1 Wm).
          -- apply ol_trans with (y := ag k (fst (teval MT r))); auto.
             ++ apply ag_ow, (proj1 Wr).
             ++ apply ag_ow, (proj1 Wm).
        * intros z Wz Hz. apply U3; [exact Wz| |].
          -- apply Pl2; [exact Wz|]. intros s Hs. apply Hz, in_app_iff. left. exact Hs.
          -- apply Pr2; [exact Wz|]. intros s Hs. apply Hz, in_app_iff. right. exact Hs.
  Qed.

  (* a key is visible (has a non-bottom value) in the result iff it is visible in some replica
     state and tombstoned in none *)
  Definition visible (k : N) (s : mst) : Prop := exists v, ag k (fst s) = Some v.

  Lemma vis_dec k (l : list mst) :
    (exists s, In s l /\ visible k s) \/ (forall s, In s l -> ag k (fst s) = None).
  Proof.
    induction l as [|s r IH].
    - right. intros s [].
    - destruct (ag k (fst s)) as [v|] eqn:G.
      + left. exists s. split; [left; reflexivity|exists v; exact G].
      + destruct IH as [[s' [Hs Vs]]|Hn].
        * left. exists s'. split; [right; exact Hs|exact Vs].
        * right. intros s' [<-|Hs]; [exact G|apply Hn, Hs].
  Qed.

  Theorem maptomb_tree_visible (t : mtree mst) k : Forall (W MT) (leaves t) ->
    (visible k (teval MT t) <->
     (exists s, In s (leaves t) /\ visible k s) /\ ~ in_tomb (leaves t) k).
  Proof.
    intros F. destruct (maptomb_tree t F) as [Wt [T [G P]]]. unfold visible. split.
    - intros [v Hv].
      assert (NT : ~ in_tomb (leaves t) k).
      { intros IT. apply G in IT. unfold aget in Hv. rewrite IT in Hv. discriminate. }
      split; [|exact NT]. destruct (vis_dec k (leaves t)) as [Y|Nn]; [exact Y|]. exfalso.
      destruct (P k NT) as [_ P2]. specialize (P2 None I).
      rewrite Hv in P2. cbn in P2. apply P2. intros s Hs. rewrite (Nn s Hs). exact I.
    - intros [[s [Hs [v Hv]]] NT]. destruct (P k NT) as [P1 _]. specialize (P1 s Hs).
      rewrite Hv in P1. destruct (ag k (fst (teval MT t))) as [w|]; [eauto|]. cbn in P1. contradiction.
  Qed.

  Corollary maptomb_no_resurrect s k later :
    W MT s -> Forall (W MT) later -> In k (snd s) ->
    let r := hfold MT s later in get k (fst r) = None /\ In k (snd r).
  Proof.
    intros Ws F Hk. cbv zeta. rewrite hfold_comb.
    destruct (maptomb_tree (comb (Leaf s) later)) as [_ [T [G _]]].
    { rewrite comb_leaves. cbn. constructor; assumption. }
    assert (IT : in_tomb (leaves (comb (Leaf s) later)) k).
    { rewrite comb_leaves. exists s. split; [left; reflexivity|exact Hk]. }
    split; [apply G, IT|apply T, IT].
  Qed.

  (* the changed flag needs the disjointness invariant *)
End MapTombOrd.

Lemma maptomb_flag_needs_disjoint_refuted :
  exists a b : mstate N, W (maptomb_ops (max_ops None)) b /\ mt_wf (max_ops None) a = false /\
    ch (maptomb_ops (max_ops None)) a b = false /\
    fst (m (maptomb_ops (max_ops None)) a b) <> fst a.
Proof.
  exists ([(1, 5)], [1])%N, ([], [1])%N. vm_compute. repeat split; try reflexivity. discriminate.
Qed.

(* ================================================================== the executable form of C05
   (Tomb.C05_set_holds_b, evaluated on the implementation's outputs by the check) is tied to
   the theorems: on duplicate-free observations it says exactly what settomb_tree concludes,
   and the model's own observations satisfy it. *)
Lemma seteqb_spec a b : NoDup a -> NoDup b -> (seteqb a b = true <-> forall x, In x a <-> In x b).
Proof.
  intros Na Nb. unfold seteqb. rewrite !andb_true_iff, !forallb_mem_incl, Nat.eqb_eq. split.
  - intros [[_ I1] I2] x. split; [apply I1|apply I2].
  - intros S. assert (I1 : incl a b) by (intros x Hx; apply S, Hx).
    assert (I2 : incl b a) by (intros x Hx; apply S, Hx).
    pose proof (NoDup_incl_length Na I1). pose proof (NoDup_incl_length Nb I2).
    repeat split; try assumption. lia.
Qed.

Lemma all_tomb_In {A} (ss : list (A * list N)) x : In x (all_tomb ss) <-> in_tomb ss x.
Proof.
  unfold all_tomb, in_tomb. rewrite in_flat_map. split; intros [s Hs]; exists s; exact Hs.
Qed.

Lemma spec_live_In ss x : In x (spec_live ss) <-> in_live ss x /\ ~ in_tomb ss x.
Proof.
  unfold spec_live. rewrite nodup_In, filter_In, negb_true_iff, mem_false, all_tomb_In.
  unfold all_live, in_live. rewrite in_flat_map. split; intros [[s Hs] Hn]; (split; [exists s; exact Hs|exact Hn]).
Qed.

Definition set_res_prop (ss : list tstate) (live tomb : list N) : Prop :=
  (forall x, In x live <-> in_live ss x /\ ~ in_tomb ss x) /\
  (forall x, In x tomb <-> in_tomb ss x) /\
  (forall x, In x live -> ~ In x tomb).

Theorem set_res_ok_spec ss live tomb : NoDup live -> NoDup tomb ->
  (set_res_ok ss live tomb = true <-> set_res_prop ss live tomb).
Proof.
  intros Nl Nt. unfold set_res_ok, set_res_prop.
  rewrite !andb_true_iff, disjb_spec.
  rewrite (seteqb_spec live (spec_live ss) Nl) by (unfold spec_live; apply NoDup_nodup).
  rewrite (seteqb_spec tomb (nodup N.eq_dec (all_tomb ss)) Nt) by apply NoDup_nodup.
  split.
  - intros [[L T] D]. split; [|split; [|exact D]].
    + intros x. rewrite L. apply spec_live_In.
    + intros x. rewrite T, nodup_In. apply all_tomb_In.
  - intros [L [T D]]. split; [split|exact D].
    + intros x. rewrite L. symmetry. apply spec_live_In.
    + intros x. rewrite T, nodup_In. symmetry. apply all_tomb_In.
Qed.

Lemma set_res_prop_ext ss ss' live tomb : (forall s, In s ss <-> In s ss') ->
  set_res_prop ss live tomb -> set_res_prop ss' live tomb.
Proof.
  intros S [L [T D]].
  assert (IL : forall x, in_live ss x <-> in_live ss' x).
  { intros x. unfold in_live. split; intros [s [Hs Hx]]; exists s; split; try apply S; assumption. }
  assert (IT : forall x, in_tomb ss x <-> in_tomb ss' x).
  { intros x. unfold in_tomb. split; intros [s [Hs Hx]]; exists s; split; try apply S; assumption. }
  split; [|split; [|exact D]].
  - intros x. rewrite L, IL, IT. tauto.
  - intros x. rewrite T. apply IT.
Qed.

(* the model's merge-tree result passes the executable check *)
Theorem set_res_ok_tree (t : mtree tstate) ss : Forall (W settomb_ops) (leaves t) ->
  (forall s, In s (leaves t) <-> In s ss) ->
  set_res_ok ss (fst (teval settomb_ops t)) (snd (teval settomb_ops t)) = true.
Proof.
  intros F S. destruct (settomb_tree t F) as [Wt [T L]].
  apply st_wf_spec in Wt. destruct Wt as [Nl [Nt D]].
  apply set_res_ok_spec; [exact Nl|exact Nt|].
  apply (set_res_prop_ext (leaves t)); [exact S|]. split; [exact L|split; [exact T|exact D]].
Qed.

(* ... and so do its step-by-step observations, flags included *)
Lemma flags_ok_model A (L : LatOps (A * list N)) : LatLaws L ->
  forall others init, W L init -> Forall (W L) others ->
  flags_ok L init (model_steps L init others) = true.
Proof.
  intros H others. induction others as [|o r IH]; intros init Wi F; cbn [model_steps flags_ok]; [reflexivity|].
  inversion F as [|? ? Wo Fr]; subst. cbn [so_ch so_live so_tomb].
  apply andb_true_iff. split.
  - rewrite <- surjective_pairing. pose proof (ch_spec H Wi Wo) as C. unfold ch, m in C.
    rewrite C. apply eqb_reflx.
  - rewrite <- surjective_pairing. apply IH; [apply (m_wf H); assumption|exact Fr].
Qed.

Lemma steps_ok_model others : forall pre acc,
  W settomb_ops acc -> Forall (W settomb_ops) others -> pre <> [] ->
  set_res_prop pre (fst acc) (snd acc) ->
  all2 set_step_ok (prefixes pre others) (model_steps settomb_ops acc others) = true.
Proof.
  induction others as [|o r IH]; intros pre acc Wa F Hne P; cbn [prefixes model_steps all2]; [reflexivity|].
  inversion F as [|? ? Wo Fr]; subst.
  assert (Wm : W settomb_ops (fst (mrg settomb_ops acc o))) by (apply (m_wf settomb_laws); assumption).
  pose proof Wa as Wa'. pose proof Wo as Wo'. pose proof Wm as Wm'.
  apply st_wf_spec in Wa', Wo', Wm'.
  assert (P' : set_res_prop (pre ++ [o]) (fst (fst (mrg settomb_ops acc o))) (snd (fst (mrg settomb_ops acc o)))).
  { destruct P as [L [T D]]. cbn [mrg settomb_ops]. split; [|split; [|exact (proj2 (proj2 Wm'))]].
    - intros x. rewrite (st_live_In_wf acc o x Wa' Wo'), L, T. unfold in_live, in_tomb.
      rewrite !in_app_ex. cbn [In].
      split.
      + intros [[[Hl Hn]|Ho] [Hna Hno]].
        * split; [left; exact Hl|]. intros [Ht|[s [[<-|[]] Hs]]]; auto.
        * split; [right; exists o; auto|]. intros [Ht|[s [[<-|[]] Hs]]]; auto.
      + intros [[Hl|[s [[<-|[]] Hs]]] Hn].
        * split; [left; split; [exact Hl|tauto]|split; [tauto|]].
          intros Ho. apply Hn. right. exists o. auto.
        * split; [right; exact Hs|split; [tauto|]].
          intros Ho. apply Hn. right. exists o. auto.
    - intros x. rewrite st_tomb_In, T. unfold in_tomb. rewrite in_app_ex. cbn [In].
      split; [intros [Ht|Ho]; [left; exact Ht|right; exists o; auto]|].
      intros [Ht|[s [[<-|[]] Hs]]]; auto. }
  apply andb_true_iff. split.
  - unfold set_step_ok. cbn [so_live so_tomb].
    apply set_res_ok_spec; [exact (proj1 Wm')|exact (proj1 (proj2 Wm'))|exact P'].
  - apply IH; [exact Wm|exact Fr| |exact P'].
    destruct pre; discriminate.
Qed.

Theorem C05_set_holds_b_model init others (t : mtree tstate) :
  Forall (W settomb_ops) (init :: others) ->
  (forall s, In s (leaves t) <-> In s (init :: others)) ->
  C05_set_holds_b init others [model_steps settomb_ops init others] [teval settomb_ops t] = true.
Proof.
  intros F S. inversion F as [|? ? Wi Fo]; subst. unfold C05_set_holds_b. cbn [forallb].
  rewrite !andb_true_r. apply andb_true_iff. split; [apply andb_true_iff; split|].
  - apply steps_ok_model; [exact Wi|exact Fo|discriminate|].
    pose proof Wi as Wi'. apply st_wf_spec in Wi'. destruct Wi' as [_ [_ D]].
    unfold in_live, in_tomb. split; [|split; [|exact D]].
    + intros x. split.
      * intros Hx. split; [exists init; split; [left; reflexivity|exact Hx]|].
        intros [s [[<-|[]] Hs]]. exact (D x Hx Hs).
      * intros [[s [[<-|[]] Hs]] _]. exact Hs.
    + intros x. split; [intros Hx; exists init; split; [left; reflexivity|exact Hx]|].
      intros [s [[<-|[]] Hs]]. exact Hs.
  - apply flags_ok_model; [exact settomb_laws|exact Wi|exact Fo].
  - apply set_res_ok_tree; [|exact S].
    apply Forall_forall. intros s Hs. rewrite Forall_forall in F. apply F, S, Hs.
Qed.
