(* E1 proofs: atomization of the union-find lattice (C06).  Uses e1-uf-tomb's PUF.v: the lattice
   laws of [uf_ops], "the lattice order is partition refinement" and "refinement is decided on
   the entries".  The generic part (a value is the least upper bound of its atoms => re-merging
   the atoms in any order reproduces it) is the same argument as PAtom.v, stated for an
   arbitrary lattice. *)
From HV Require Import Lattice.Ord Lattice.PSet Lattice.PMapBase Lattice.UF Lattice.PUF
  Lattice.AtomUF Lattice.PAtom.
From Coq Require Import Permutation.

Set Implicit Arguments.

(* ---------------------------------------------------------------- generic re-merge *)
Section GenRemerge.
  Variable A : Type.
  Variable L : LatOps A.
  Hypothesis H : LatLaws L.
  Variable atm : A -> list A.
  Hypothesis S : ASpec L atm.
  Variable d : A.
  Hypothesis Wd : W L d.
  Hypothesis Bd : isbot L d = true.

  Theorem gen_remerge_acc a acc l : W L a -> W L acc -> Permutation l (atm a) ->
    W L (mfold L acc l) /\ E L (mfold L acc l) (m L acc a).
  Proof.
    intros Wa Wacc P. destruct (S Wa) as [SA [SB SC]].
    assert (Fw : Forall (W L) l).
    { rewrite Forall_forall in *. intros x Hx. apply SA. apply (Permutation_in _ P), Hx. }
    assert (Wf : W L (mfold L acc l)) by (apply mfold_wf; assumption).
    assert (Wm : W L (m L acc a)) by (apply (m_wf H); assumption).
    split; [exact Wf|].
    assert (Fl : forall c, W L c -> (Forall (fun x => Le L x c) l <-> Le L a c)).
    { intros c Wc. rewrite (SC c Wc). rewrite !Forall_forall. split; intros F x Hx; apply F.
      - apply (Permutation_in _ (Permutation_sym P)), Hx.
      - apply (Permutation_in _ P), Hx. }
    apply le_antisym; try assumption.
    - apply (mfold_lub H); try assumption. split.
      + apply le_merge_l; assumption.
      + apply (Fl _ Wm). apply le_merge_r; assumption.
    - pose proof (proj1 (mfold_lub H Wacc Fw Wf) (le_refl H Wf)) as [L1 L2].
      apply le_lub; try assumption. apply (Fl _ Wf). exact L2.
  Qed.

  Theorem gen_remerge_dflt a l : W L a -> Permutation l (atm a) -> E L (mfold L d l) a.
  Proof.
    intros Wa P. destruct (gen_remerge_acc Wa Wd P) as [Wr Er].
    apply (e_trans H) with (b := m L d a); auto using (m_wf H).
    apply (e_trans H) with (b := m L a d); auto using (m_wf H).
    - apply (m_comm H); assumption.
    - exact (proj2 (bot_merge_r H Wa Wd Bd)).
  Qed.
End GenRemerge.

(* ---------------------------------------------------------------- union_find.rs *)
Lemma single_uw k p : k <> p -> W uf_ops [(k, p)].
Proof.
  intros Hne. unfold W. cbn [wf uf_ops]. unfold uf_wf, forestb. cbn [keys map fst forallb length piter].
  unfold par. cbn [get]. rewrite N.eqb_refl.
  destruct (N.eqb_spec p k) as [Q|Q]; [congruence|]. rewrite N.eqb_refl. reflexivity.
Qed.

Lemma single_refines k p c : k <> p -> forest c -> (refines [(k, p)] c <-> SameRoot c k p).
Proof.
  intros Hne Fc. pose proof (single_uw Hne) as Ws. apply uf_wf_spec in Ws.
  rewrite (refines_entries [(k, p)] c Ws Fc). split.
  - intros Hall. apply Hall. left. reflexivity.
  - intros Hs i q [Hi|[]]. inversion Hi; subst. exact Hs.
Qed.

Lemma In_uf_atomize a x :
  In x (uf_atomize a) <-> exists k p, In (k, p) a /\ k <> p /\ x = [(k, p)].
Proof.
  unfold uf_atomize. rewrite in_map_iff. split.
  - intros [[k p] [Q Hi]]. apply filter_In in Hi. destruct Hi as [Hi Hn]. cbn in Hn.
    apply negb_true_iff in Hn. apply N.eqb_neq in Hn. exists k, p. auto.
  - intros [k [p [Hi [Hn Q]]]]. exists (k, p). split; [auto|]. apply filter_In. split; [exact Hi|].
    cbn. apply negb_true_iff. apply N.eqb_neq. exact Hn.
Qed.

Lemma uf_atomize_nil a : uf_atomize a = [] <-> uf_isbot a = true.
Proof.
  unfold uf_atomize, uf_isbot. induction a as [|[k p] r IH]; cbn; [tauto|].
  destruct (N.eqb k p); cbn.
  - exact IH.
  - split; discriminate.
Qed.

Theorem uf_aspec : ASpec uf_ops uf_atomize.
Proof.
  intros a Wa. pose proof Wa as Ua. apply uf_wf_spec in Ua. split; [|split].
  - apply Forall_forall. intros x Hx. apply In_uf_atomize in Hx. destruct Hx as [k [p [Hi [Hn Q]]]]. subst x.
    split; [apply single_uw, Hn|]. cbn. destruct (N.eqb_spec k p); [congruence|reflexivity].
  - apply uf_atomize_nil.
  - intros c Wc. pose proof Wc as Uc. apply uf_wf_spec in Uc. destruct Uc as [Fc Nc].
    rewrite (uf_le_refines a c Wa Wc), (refines_entries a c Ua Fc), Forall_forall. split.
    + intros Hall x Hx. apply In_uf_atomize in Hx. destruct Hx as [k [p [Hi [Hn Q]]]]. subst x.
      apply (proj2 (uf_le_refines [(k, p)] c (single_uw Hn) Wc)). apply (proj2 (single_refines Hn Fc)). apply Hall, Hi.
    + intros Hall k p Hi. destruct (N.eq_dec k p) as [Q|Hn].
      * subst. apply sameroot_refl, Fc.
      * apply (proj1 (single_refines Hn Fc)). apply (proj1 (uf_le_refines [(k, p)] c (single_uw Hn) Wc)). apply Hall.
        apply In_uf_atomize. exists k, p. auto.
Qed.

Lemma uf_dflt_bot : W uf_ops uf_dflt /\ isbot uf_ops uf_dflt = true.
Proof. split; reflexivity. Qed.

(* (1) atoms are well-formed and non-bottom *)
Theorem uf_atoms_nonbot a : W uf_ops a ->
  Forall (fun x => W uf_ops x /\ isbot uf_ops x = false) (uf_atomize a).
Proof. intros Wa. exact (proj1 (uf_aspec Wa)). Qed.

(* (2) none exactly for the bottom partition (this one needs no well-formedness) *)
Theorem uf_atoms_nil_iff_bot a : uf_atomize a = [] <-> isbot uf_ops a = true.
Proof. apply uf_atomize_nil. Qed.

(* (3) re-merging the atoms, in any order, into Default / into any accumulator *)
Theorem uf_remerge_dflt a l : W uf_ops a -> Permutation l (uf_atomize a) ->
  E uf_ops (uf_remerge uf_dflt l) a.
Proof.
  intros Wa P. destruct uf_dflt_bot as [Wd Bd].
  exact (gen_remerge_dflt uf_laws uf_aspec Wd Bd Wa P).
Qed.

Theorem uf_remerge_acc a acc l : W uf_ops a -> W uf_ops acc -> Permutation l (uf_atomize a) ->
  W uf_ops (uf_remerge acc l) /\ E uf_ops (uf_remerge acc l) (m uf_ops acc a).
Proof. intros Wa Wacc P. exact (gen_remerge_acc uf_laws uf_aspec Wa Wacc P). Qed.

(* "reproduces the partition": equal lattice values are the same partition *)
Theorem uf_remerge_partition a l : W uf_ops a -> Permutation l (uf_atomize a) ->
  forall x y, SameRoot (uf_remerge uf_dflt l) x y <-> SameRoot a x y.
Proof.
  intros Wa P. destruct uf_dflt_bot as [Wd Bd].
  destruct (gen_remerge_acc uf_laws uf_aspec Wa Wd P) as [Wr _].
  pose proof (uf_remerge_dflt Wa P) as Q. fold (uf_remerge uf_dflt l) in Wr.
  assert (L1 : Le uf_ops (uf_remerge uf_dflt l) a) by (apply (le_of_eq uf_laws); assumption).
  assert (L2 : Le uf_ops a (uf_remerge uf_dflt l)).
  { apply (le_of_eq uf_laws); try assumption. apply (e_sym uf_laws); assumption. }
  apply (uf_le_refines _ _ Wr Wa) in L1. apply (uf_le_refines _ _ Wa Wr) in L2.
  intros x y. split; [apply L1|apply L2].
Qed.

Example uf_atomize_example :
  uf_atomize [(1, 1); (2, 1); (3, 2); (5, 5)]%N = [[(2, 1)]; [(3, 2)]]%N /\
  W uf_ops [(1, 1); (2, 1); (3, 2); (5, 5)]%N /\
  eqb uf_ops [(1, 1); (2, 1); (3, 2); (5, 5)]%N (uf_remerge uf_dflt [[(3, 2)]; [(2, 1)]])%N = true.
Proof. repeat split. Qed.
