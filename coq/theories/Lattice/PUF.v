(* E1 proofs: union_find.rs (union-find part of C04) *)
From HV Require Import Lattice.Model Lattice.PSet Lattice.PMapBase Lattice.UF.
From Coq Require Import PeanoNat ZifyBool ZifyN.

(* ================================================================== parent maps as forests *)
(* the path from x up to its root r; l lists the non-root nodes on it, starting with x *)
Inductive RootP (s : uf) : N -> N -> list N -> Prop :=
| RP0 r : par s r = r -> RootP s r r []
| RPS x p r l : par s x = p -> p <> x -> RootP s p r l -> RootP s x r (x :: l).

Definition Rt (s : uf) (x r : N) : Prop := exists l, RootP s x r l.

(* the precondition of everything below: every item reaches a root (no cycle anywhere) *)
Definition forest (s : uf) : Prop := forall x, exists r, Rt s x r.

Definition SameRoot (s : uf) (x y : N) : Prop := exists r, Rt s x r /\ Rt s y r.

Lemma par_get s x p : par s x = p -> p <> x -> get x s = Some p.
Proof. unfold par. destruct (get x s); intros; subst; congruence. Qed.

Lemma rootp_det s x r1 l1 : RootP s x r1 l1 -> forall r2 l2, RootP s x r2 l2 -> r1 = r2 /\ l1 = l2.
Proof.
  induction 1 as [r Hr|x p r l Hp Hne Hr IH]; intros r2 l2 H2;
    inversion H2 as [r' Hr'|x' p' r' l' Hp' Hne' Hr']; subst.
  - auto.
  - congruence.
  - congruence.
  - destruct (IH _ _ Hr') as [-> ->]. auto.
Qed.

Lemma rt_det s x r1 r2 : Rt s x r1 -> Rt s x r2 -> r1 = r2.
Proof. intros [l1 H1] [l2 H2]. exact (proj1 (rootp_det _ _ _ _ H1 _ _ H2)). Qed.

Lemma rootp_root s x r l : RootP s x r l -> par s r = r.
Proof. induction 1; assumption. Qed.

Lemma rt_root s x r : Rt s x r -> Rt s r r.
Proof. intros [l H]. exists []. constructor. exact (rootp_root _ _ _ _ H). Qed.

Lemma rt_step s x p r : par s x = p -> Rt s p r -> Rt s x r.
Proof.
  intros Hp [l H]. destruct (N.eq_dec p x) as [->|Hne]; [exists l; exact H|].
  exists (x :: l). econstructor; eassumption.
Qed.

Lemma rt_step_inv s x r : Rt s x r -> Rt s (par s x) r.
Proof.
  intros [l H]. inversion H as [r' Hr'|x' p' r' l' Hp' Hne' Hr']; subst.
  - rewrite Hr'. exists []. constructor. exact Hr'.
  - exists l'. exact Hr'.
Qed.

Lemma rootp_in s x r l : RootP s x r l -> forall y, In y l ->
  exists l', RootP s y r l' /\ length l' <= length l.
Proof.
  induction 1 as [r Hr|x p r l Hp Hne Hr IH]; intros y Hy; [destruct Hy|].
  destruct Hy as [<-|Hy].
  - exists (x :: l). split; [econstructor; eassumption|reflexivity].
  - destruct (IH y Hy) as [l' [H1 H2]]. exists l'. split; [exact H1|cbn; lia].
Qed.

Lemma rootp_nodup s x r l : RootP s x r l -> NoDup l.
Proof.
  induction 1 as [r Hr|x p r l Hp Hne Hr IH]; constructor; [|exact IH].
  intros Hx. destruct (rootp_in _ _ _ _ Hr x Hx) as [l' [H1 H2]].
  assert (H3 : RootP s x r (x :: l)) by (econstructor; eassumption).
  destruct (rootp_det _ _ _ _ H1 _ _ H3) as [_ ->]. cbn in H2. lia.
Qed.

Lemma rootp_keys s x r l : RootP s x r l -> incl l (keys s).
Proof.
  induction 1 as [r Hr|x p r l Hp Hne Hr IH]; intros y Hy; [destruct Hy|].
  destruct Hy as [<-|Hy]; [|apply IH, Hy].
  apply par_get in Hp; [|exact Hne]. apply get_In in Hp. apply (in_map fst) in Hp. exact Hp.
Qed.

(* a path never is longer than the map *)
Lemma rootp_len s x r l : RootP s x r l -> length l <= length s.
Proof.
  intros H. replace (length s) with (length (keys s)) by apply map_length.
  apply NoDup_incl_length; [exact (rootp_nodup _ _ _ _ H)|exact (rootp_keys _ _ _ _ H)].
Qed.

(* ================================================================== find *)
(* first loop: on a forest it returns the root and leaves the map alone; the cycle branch
   `parent == item` is never taken *)
Lemma find_root_ok s item r L0 : RootP s item r L0 ->
  forall l x, RootP s x r l -> length l <= length L0 ->
  forall fuel, length l < fuel -> find_root fuel s item x = Ok (r, s).
Proof.
  intros H0 l x H. induction H as [r Hr|x p r l Hp Hne Hr IH]; intros Hlen fuel Hf.
  - destruct fuel as [|f]; [cbn in Hf; lia|]. cbn [find_root].
    unfold par in Hr. destruct (get r s) as [q|]; [|reflexivity].
    subst q. rewrite N.eqb_refl. reflexivity.
  - destruct fuel as [|f]; [cbn in Hf; lia|]. cbn [find_root].
    rewrite (par_get _ _ _ Hp Hne).
    destruct (N.eqb_spec p x) as [->|_]; [congruence|].
    destruct (N.eqb_spec p item) as [->|_].
    + exfalso. destruct (rootp_det _ _ _ _ Hr _ _ H0) as [_ ->]. cbn in Hlen. lia.
    + apply IH; [exact H0|cbn in Hlen; lia|cbn in Hf; lia].
Qed.

Lemma par_set_at c x r y : get x c <> None ->
  par (set_at x r c) y = if N.eqb y x then r else par c y.
Proof.
  intros Hx. unfold par. rewrite get_set_at. destruct (N.eqb y x); [|reflexivity].
  destruct (get x c); [reflexivity|congruence].
Qed.

(* re-pointing a non-root item straight at its root changes nobody's root *)
Lemma set_root_preserves c x r : Rt c x r -> x <> r -> get x c <> None ->
  forall y ry, Rt c y ry -> Rt (set_at x r c) y ry.
Proof.
  intros Hx Hne Hg y ry [ly Hy].
  assert (Hxn : par c x <> x).
  { destruct Hx as [lx Hx]. inversion Hx; subst; congruence. }
  induction Hy as [ry Hry|y p ry l Hp Hpy Hr IH].
  - exists []. constructor. rewrite par_set_at by exact Hg.
    destruct (N.eqb_spec ry x) as [->|_]; [contradiction|exact Hry].
  - destruct (N.eq_dec y x) as [->|Hyx].
    + assert (ry = r).
      { apply (rt_det c x); [|exact Hx]. exists (x :: l). econstructor; eassumption. }
      subst ry. apply rt_step with (p := r).
      * rewrite par_set_at by exact Hg. rewrite N.eqb_refl. reflexivity.
      * exists []. constructor. rewrite par_set_at by exact Hg.
        destruct (N.eqb_spec r x) as [->|_]; [congruence|].
        destruct Hx as [lx Hx]. exact (rootp_root _ _ _ _ Hx).
    + apply rt_step with (p := p); [|exact IH].
      rewrite par_set_at by exact Hg. destruct (N.eqb_spec y x); [contradiction|exact Hp].
Qed.

(* roots are preserved from s to s' (and the key set is the same) *)
Definition pres (s s' : uf) : Prop := keys s' = keys s /\ forall y r, Rt s y r -> Rt s' y r.

Lemma pres_refl s : pres s s.
Proof. split; auto. Qed.

Lemma pres_trans a b c : pres a b -> pres b c -> pres a c.
Proof. intros [K1 P1] [K2 P2]. split; [congruence|auto]. Qed.

Lemma pres_forest s s' : forest s -> pres s s' -> forest s'.
Proof. intros F [_ P] x. destruct (F x) as [r Hr]. exists r. apply P, Hr. Qed.

Lemma pres_back s s' : forest s -> pres s s' -> forall y r, Rt s' y r -> Rt s y r.
Proof.
  intros F [_ P] y r Hr. destruct (F y) as [r0 H0].
  assert (r0 = r) by (apply (rt_det s' y); [apply P, H0|exact Hr]). subst. exact H0.
Qed.

Lemma pres_same s s' : forest s -> pres s s' -> forall x y, SameRoot s x y <-> SameRoot s' x y.
Proof.
  intros F P x y. split; intros [r [H1 H2]]; exists r.
  - split; apply (proj2 P); assumption.
  - split; apply (pres_back s s' F P); assumption.
Qed.

Lemma pres_len s s' : pres s s' -> length s' = length s.
Proof. intros [K _]. rewrite <- (map_length fst s'), <- (map_length fst s). unfold keys in K. congruence. Qed.

(* second loop: path compression; c is the current map, s the one the loop started with *)
Lemma compress_ok s r : forall l x, RootP s x r l ->
  forall c fuel,
    (forall y ly, RootP s y r ly -> length ly <= length l -> get y c = get y s) ->
    pres s c -> length l < fuel ->
    exists c', compress fuel c x r = Ok c' /\ pres s c'.
Proof.
  intros l x H. induction H as [r Hr|x p r l Hp Hne Hr IH]; intros c fuel Hun Hpres Hf.
  - destruct fuel as [|f]; [cbn in Hf; lia|]. cbn [compress]. rewrite N.eqb_refl. eauto.
  - destruct fuel as [|f]; [cbn in Hf; lia|]. cbn [compress].
    assert (Hx : RootP s x r (x :: l)) by (econstructor; eassumption).
    assert (Hxr : x <> r).
    { intros ->. apply rootp_root in Hr. congruence. }
    destruct (N.eqb_spec x r) as [|_]; [contradiction|].
    assert (Gx : get x c = Some p).
    { rewrite (Hun x (x :: l) Hx (le_n _)). exact (par_get _ _ _ Hp Hne). }
    rewrite Gx.
    apply IH.
    + intros y ly Hy Hl. rewrite get_set_at.
      destruct (N.eqb_spec y x) as [->|_].
      * exfalso. destruct (rootp_det _ _ _ _ Hy _ _ Hx) as [_ ->]. cbn in Hl. lia.
      * apply (Hun y ly); [exact Hy|cbn; lia].
    + split.
      * rewrite keys_set_at. exact (proj1 Hpres).
      * intros y ry Hy. apply set_root_preserves.
        -- apply (proj2 Hpres). exists (x :: l). exact Hx.
        -- exact Hxr.
        -- congruence.
        -- apply (proj2 Hpres), Hy.
    + cbn in Hf. lia.
Qed.

(* find on a forest: the root, a compressed map with the same roots; any fuel beyond the
   length of the path works, in particular anything >= |map| + 1 *)
Lemma find_ok s x r l : RootP s x r l -> forall fuel, length l < fuel ->
  exists s', find fuel s x = Ok (r, s') /\ pres s s'.
Proof.
  intros H fuel Hf. unfold find.
  rewrite (find_root_ok s x r l H l x H (le_n _) fuel Hf). cbn [bind fst snd].
  destruct (compress_ok s r l x H s fuel (fun _ _ _ _ => eq_refl) (pres_refl s) Hf) as [c' [Hc Hp]].
  rewrite Hc. cbn [bind]. eauto.
Qed.

Theorem find_terminates s x fuel : forest s -> length s < fuel ->
  exists r s', find fuel s x = Ok (r, s') /\ Rt s x r /\ pres s s'.
Proof.
  intros F Hf. destruct (F x) as [r [l H]].
  destruct (find_ok s x r l H fuel) as [s' [Hs Hp]].
  - pose proof (rootp_len _ _ _ _ H). lia.
  - exists r, s'. repeat split; try assumption; try exact (proj1 Hp); try exact (proj2 Hp).
    exists l. exact H.
Qed.

Lemma find_d s x : forest s ->
  exists r s', find (dfuel s) s x = Ok (r, s') /\ Rt s x r /\ pres s s'.
Proof. intros F. apply find_terminates; [exact F|unfold dfuel; lia]. Qed.

(* ================================================================== same *)
Lemma sameroot_iff s x y rx ry : Rt s x rx -> Rt s y ry -> (SameRoot s x y <-> rx = ry).
Proof.
  intros Hx Hy. split.
  - intros [r [H1 H2]]. rewrite (rt_det _ _ _ _ Hx H1), (rt_det _ _ _ _ Hy H2). reflexivity.
  - intros <-. exists rx. auto.
Qed.

Lemma same_spec s x y : forest s ->
  exists s' b, same s x y = Ok (s', b) /\ pres s s' /\ (b = true <-> SameRoot s x y).
Proof.
  intros F. unfold same. destruct (N.eqb_spec x y) as [->|Hne].
  - exists s, true. split; [reflexivity|]. split; [apply pres_refl|]. split; [|reflexivity].
    intros _. destruct (F y) as [r Hr]. exists r. auto.
  - destruct (find_d s x F) as [ra [s1 [E1 [Ra P1]]]]. rewrite E1. cbn [bind fst snd].
    pose proof (pres_forest _ _ F P1) as F1.
    destruct (find_d s1 y F1) as [rb [s2 [E2 [Rb P2]]]]. rewrite E2. cbn [bind fst snd].
    exists s2, (N.eqb ra rb). split; [reflexivity|]. split; [eapply pres_trans; eassumption|].
    apply (pres_back s s1 F P1) in Rb.
    rewrite N.eqb_eq. symmetry. apply sameroot_iff; assumption.
Qed.

(* same does not depend on path compression: a find anywhere leaves every answer unchanged *)
Theorem same_compression_indep s z fuel r s' : forest s -> find fuel s z = Ok (r, s') ->
  length s < fuel ->
  forall x y, exists s1 s2 b, same s x y = Ok (s1, b) /\ same s' x y = Ok (s2, b).
Proof.
  intros F Hf Hl x y.
  destruct (find_terminates s z fuel F Hl) as [r0 [s0 [E0 [_ P0]]]].
  rewrite E0 in Hf. inversion Hf; subst r0 s0.
  destruct (same_spec s x y F) as [s1 [b1 [E1 [_ B1]]]].
  destruct (same_spec s' x y (pres_forest _ _ F P0)) as [s2 [b2 [E2 [_ B2]]]].
  exists s1, s2, b1. split; [exact E1|]. rewrite E2. f_equal. f_equal.
  rewrite <- (pres_same s s' F P0) in B2. destruct b1, b2; intuition congruence.
Qed.

(* ================================================================== union *)
Lemma get_map_put (s : uf) k v y :
  get y (map_put s (k, v)) = if N.eqb y k then Some v else get y s.
Proof.
  unfold map_put. cbn [fst snd]. destruct (get k s) as [w|] eqn:G.
  - rewrite get_set_at, G. reflexivity.
  - rewrite get_app. cbn [get]. destruct (N.eqb_spec y k) as [->|_].
    + rewrite G. reflexivity.
    + destruct (get y s); reflexivity.
Qed.

Lemma par_map_put s k v y : par (map_put s (k, v)) y = if N.eqb y k then v else par s y.
Proof. unfold par. rewrite get_map_put. destruct (N.eqb y k); reflexivity. Qed.

Lemma keys_map_put_nodup (s : uf) k v : NoDup (keys s) -> NoDup (keys (map_put s (k, v))).
Proof.
  intros Hn. unfold map_put. cbn [fst snd]. destruct (get k s) eqn:G.
  - rewrite keys_set_at. exact Hn.
  - rewrite keys_app. cbn. apply NoDup_snoc; [exact Hn|]. apply get_None. exact G.
Qed.

(* hanging the root rb below the root ra *)
Lemma link_roots s ra rb : par s ra = ra -> par s rb = rb -> ra <> rb ->
  forall y ry, Rt s y ry -> Rt (map_put s (rb, ra)) y (if N.eqb ry rb then ra else ry).
Proof.
  intros Ha Hb Hne y ry [l H]. induction H as [ry Hry|y p ry l Hp Hpy Hr IH].
  - destruct (N.eqb_spec ry rb) as [->|Hn].
    + apply rt_step with (p := ra).
      * rewrite par_map_put, N.eqb_refl. reflexivity.
      * exists []. constructor. rewrite par_map_put.
        destruct (N.eqb_spec ra rb); [contradiction|exact Ha].
    + exists []. constructor. rewrite par_map_put.
      destruct (N.eqb_spec ry rb); [contradiction|exact Hry].
  - apply rt_step with (p := p); [|exact IH]. rewrite par_map_put.
    destruct (N.eqb_spec y rb) as [->|_]; [congruence|exact Hp].
Qed.

Definition linked (S : N -> N -> Prop) (a b x y : N) : Prop :=
  S x y \/ (S x a /\ S b y) \/ (S x b /\ S a y).

Lemma sameroot_refl s x : forest s -> SameRoot s x x.
Proof. intros F. destruct (F x) as [r Hr]. exists r. auto. Qed.

Lemma sameroot_sym s x y : SameRoot s x y -> SameRoot s y x.
Proof. intros [r [H1 H2]]. exists r. auto. Qed.

Lemma sameroot_trans s x y z : SameRoot s x y -> SameRoot s y z -> SameRoot s x z.
Proof.
  intros [r [H1 H2]] [r' [H3 H4]]. rewrite (rt_det _ _ _ _ H3 H2) in H4. exists r. auto.
Qed.

Lemma union_spec s a b : forest s -> NoDup (keys s) ->
  exists s' f, union s a b = Ok (s', f) /\ forest s' /\ NoDup (keys s') /\
    (f = false <-> SameRoot s a b) /\
    forall x y, SameRoot s' x y <-> linked (SameRoot s) a b x y.
Proof.
  intros F Nk. unfold union.
  destruct (find_d s a F) as [ra [s1 [E1 [Ra P1]]]]. rewrite E1. cbn [bind fst snd].
  pose proof (pres_forest _ _ F P1) as F1.
  destruct (find_d s1 b F1) as [rb [s2 [E2 [Rb P2]]]]. rewrite E2. cbn [bind fst snd].
  pose proof (pres_trans _ _ _ P1 P2) as P. pose proof (pres_forest _ _ F P) as F2.
  apply (pres_back s s1 F P1) in Rb.
  assert (Nk2 : NoDup (keys s2)) by (rewrite (proj1 P); exact Nk).
  pose proof (sameroot_iff s a b ra rb Ra Rb) as SI.
  destruct (N.eqb_spec ra rb) as [Heq|Hne].
  - exists s2, false. split; [reflexivity|]. split; [exact F2|]. split; [exact Nk2|].
    split; [tauto|]. intros x y. rewrite <- (pres_same s s2 F P). unfold linked. split; [tauto|].
    assert (Sab : SameRoot s a b) by tauto.
    intros [H|[[H1 H2]|[H1 H2]]]; [exact H| |].
    + eapply sameroot_trans; [exact H1|]. eapply sameroot_trans; [exact Sab|exact H2].
    + eapply sameroot_trans; [exact H1|]. eapply sameroot_trans; [apply sameroot_sym, Sab|exact H2].
  - exists (map_put s2 (rb, ra)), true. split; [reflexivity|].
    assert (Pa : par s2 ra = ra).
    { apply (proj2 P) in Ra. destruct Ra as [l H]. exact (rootp_root _ _ _ _ H). }
    assert (Pb : par s2 rb = rb).
    { apply (proj2 P) in Rb. destruct Rb as [l H]. exact (rootp_root _ _ _ _ H). }
    pose proof (link_roots s2 ra rb Pa Pb Hne) as LK.
    assert (F3 : forest (map_put s2 (rb, ra))).
    { intros x. destruct (F2 x) as [r Hr]. eexists. apply LK, Hr. }
    split; [exact F3|]. split; [apply keys_map_put_nodup, Nk2|].
    split; [split; [discriminate|intros H; apply SI in H; contradiction]|].
    intros x y. destruct (F x) as [rx Hx]. destruct (F y) as [ry Hy].
    pose proof (LK x rx (proj2 P _ _ Hx)) as Lx. pose proof (LK y ry (proj2 P _ _ Hy)) as Ly.
    rewrite (sameroot_iff _ x y _ _ Lx Ly). unfold linked.
    rewrite (sameroot_iff s x y rx ry Hx Hy), (sameroot_iff s x a rx ra Hx Ra),
      (sameroot_iff s b y rb ry Rb Hy), (sameroot_iff s x b rx rb Hx Rb),
      (sameroot_iff s a y ra ry Ra Hy).
    destruct (N.eqb_spec rx rb), (N.eqb_spec ry rb); subst; intuition congruence.
Qed.

(* ================================================================== equivalence closure *)
Inductive EqCl (P : list (N * N)) : N -> N -> Prop :=
| ec_base a b : In (a, b) P -> EqCl P a b
| ec_refl a : EqCl P a a
| ec_sym a b : EqCl P a b -> EqCl P b a
| ec_trans a b c : EqCl P a b -> EqCl P b c -> EqCl P a c.

Lemma eqcl_mono (A : list (N * N)) (R : N -> N -> Prop) :
  (forall a b, In (a, b) A -> R a b) -> (forall a, R a a) -> (forall a b, R a b -> R b a) ->
  (forall a b c, R a b -> R b c -> R a c) -> forall x y, EqCl A x y -> R x y.
Proof. intros Hb Hr Hs Ht x y H. induction H; eauto. Qed.

Lemma eqcl_incl A B : incl A B -> forall x y, EqCl A x y -> EqCl B x y.
Proof.
  intros I. apply eqcl_mono.
  - intros a b Hi. apply ec_base, I, Hi.
  - apply ec_refl.
  - apply ec_sym.
  - apply ec_trans.
Qed.

(* the invariant of every reachable union-find value: a forest (with distinct keys) whose
   root classes are exactly the classes of the equivalence closure of the pairs unioned in *)
Definition Inv (s : uf) (P : list (N * N)) : Prop :=
  forest s /\ NoDup (keys s) /\ forall x y, SameRoot s x y <-> EqCl P x y.

Lemma inv_pres s s' P : Inv s P -> pres s s' -> Inv s' P.
Proof.
  intros [F [Nk C]] Pr. split; [exact (pres_forest _ _ F Pr)|]. split.
  - rewrite (proj1 Pr). exact Nk.
  - intros x y. rewrite <- (pres_same s s' F Pr). apply C.
Qed.

Lemma union_inv s P a b : Inv s P ->
  exists s' f, union s a b = Ok (s', f) /\ Inv s' ((a, b) :: P) /\ (f = false <-> EqCl P a b).
Proof.
  intros [F [Nk C]]. destruct (union_spec s a b F Nk) as [s' [f [E [F' [Nk' [Fl L]]]]]].
  exists s', f. split; [exact E|]. split; [|rewrite <- C; exact Fl].
  split; [exact F'|]. split; [exact Nk'|]. intros x y. rewrite L. unfold linked. split.
  - assert (M : forall u v, SameRoot s u v -> EqCl ((a, b) :: P) u v).
    { intros u v H. apply C in H. revert H. apply eqcl_incl. intros z Hz. right. exact Hz. }
    assert (AB : EqCl ((a, b) :: P) a b) by (apply ec_base; left; reflexivity).
    intros [H|[[H1 H2]|[H1 H2]]].
    + apply M, H.
    + eapply ec_trans; [apply M, H1|]. eapply ec_trans; [exact AB|apply M, H2].
    + eapply ec_trans; [apply M, H1|]. eapply ec_trans; [apply ec_sym, AB|apply M, H2].
  - pose proof (sameroot_refl s) as Rf. pose proof (sameroot_sym s) as Sy.
    pose proof (sameroot_trans s) as Tr.
    intros Hcl. revert x y Hcl.
    apply (eqcl_mono ((a, b) :: P) (linked (SameRoot s) a b)); unfold linked.
    + intros u v [Hi|Hi].
      * inversion Hi; subst. right. left. split; apply Rf, F.
      * left. apply C. apply ec_base, Hi.
    + intros u. left. apply Rf, F.
    + intros u v [H|[[H1 H2]|[H1 H2]]].
      * left. auto.
      * right. right. split; auto.
      * right. left. split; auto.
    + intros u v w [H|[[H1 H2]|[H1 H2]]] [G|[[G1 G2]|[G1 G2]]].
      * left. eauto.
      * right. left. split; eauto.
      * right. right. split; eauto.
      * right. left. split; eauto.
      * right. left. split; eauto.
      * left. apply Tr with (y := a); [exact H1|exact G2].
      * right. right. split; eauto.
      * left. apply Tr with (y := b); [exact H1|exact G2].
      * right. right. split; eauto.
Qed.

Lemma eqcl_absorb P a b : EqCl P a b -> forall x y, EqCl ((a, b) :: P) x y -> EqCl P x y.
Proof.
  intros Hab. apply eqcl_mono.
  - intros u v [Hi|Hi]; [inversion Hi; subst; exact Hab|apply ec_base, Hi].
  - apply ec_refl.
  - apply ec_sym.
  - apply ec_trans.
Qed.

(* ================================================================== merge *)
Lemma merge_go_inv o : forall s P c, Inv s P ->
  exists s' c', merge_go s c o = Ok (s', c') /\ Inv s' (rev o ++ P) /\
    (c' = false <-> c = false /\ forall a b, In (a, b) o -> EqCl P a b).
Proof.
  induction o as [|[a b] r IH]; intros s P c I; cbn [merge_go].
  - exists s, c. split; [reflexivity|]. split; [exact I|].
    split; [intros H; split; [exact H|intros a b []]|intros [H _]; exact H].
  - destruct (union_inv s P a b I) as [s1 [f [E [I1 Fl]]]]. rewrite E. cbn [bind fst snd].
    destruct (IH s1 ((a, b) :: P) (c || f) I1) as [s' [c' [E' [I' Fl']]]].
    exists s', c'. split; [exact E'|]. split.
    + cbn [rev]. rewrite <- app_assoc. exact I'.
    + rewrite Fl', orb_false_iff. split.
      * intros [[Hc Hf] Hr]. split; [exact Hc|]. intros u v [Hi|Hi].
        -- injection Hi as <- <-. apply Fl, Hf.
        -- apply (eqcl_absorb P a b); [apply Fl, Hf|apply Hr, Hi].
      * intros [Hc Hall]. split; [split; [exact Hc|apply Fl, Hall; left; reflexivity]|].
        intros u v Hi. apply (eqcl_incl P); [intros z Hz; right; exact Hz|]. apply Hall. right. exact Hi.
Qed.

Lemma merge_inv s P o : Inv s P ->
  exists s' f, merge s o = Ok (s', f) /\ Inv s' (o ++ P) /\
    (f = false <-> forall a b, In (a, b) o -> EqCl P a b).
Proof.
  intros I. destruct (merge_go_inv o s P false I) as [s' [f [E [[F [Nk C]] Fl]]]].
  exists s', f. split; [exact E|]. split.
  - split; [exact F|]. split; [exact Nk|]. intros x y. rewrite C. split; apply eqcl_incl.
    + intros z Hz. apply in_app_iff in Hz. apply in_app_iff. rewrite <- in_rev in Hz. exact Hz.
    + intros z Hz. apply in_app_iff in Hz. apply in_app_iff. rewrite <- in_rev. exact Hz.
  - rewrite Fl. tauto.
Qed.

(* the entries of a forest generate exactly its root classes *)
Lemma entries_closure s : forest s -> NoDup (keys s) ->
  forall x y, EqCl s x y <-> SameRoot s x y.
Proof.
  intros F Nk x y. split.
  - revert x y. apply eqcl_mono.
    + intros a b Hi. apply In_get in Hi; [|exact Nk].
      destruct (F b) as [r Hr]. exists r. split; [|exact Hr].
      apply rt_step with (p := b); [|exact Hr]. unfold par. rewrite Hi. reflexivity.
    + intros a. apply sameroot_refl, F.
    + apply sameroot_sym.
    + apply sameroot_trans.
  - assert (Up : forall u r, Rt s u r -> EqCl s u r).
    { intros u r [l H]. induction H as [r Hr|u p r l Hp Hne Hr IH]; [apply ec_refl|].
      apply ec_trans with (b := p); [|exact IH]. apply ec_base.
      apply get_In. exact (par_get _ _ _ Hp Hne). }
    intros [r [H1 H2]]. apply ec_trans with (b := r); [apply Up, H1|apply ec_sym, Up, H2].
Qed.

Lemma eqcl_app_cong A B P : (forall x y, EqCl A x y <-> EqCl B x y) ->
  forall x y, EqCl (A ++ P) x y <-> EqCl (B ++ P) x y.
Proof.
  intros HAB.
  assert (G : forall A B, (forall x y, EqCl A x y -> EqCl B x y) ->
              forall x y, EqCl (A ++ P) x y -> EqCl (B ++ P) x y).
  { intros A0 B0 H0. apply eqcl_mono.
    - intros a b Hi. apply in_app_iff in Hi. destruct Hi as [Hi|Hi].
      + apply (eqcl_incl B0); [intros z Hz; apply in_app_iff; left; exact Hz|].
        apply H0, ec_base, Hi.
      + apply ec_base, in_app_iff. right. exact Hi.
    - apply ec_refl.
    - apply ec_sym.
    - apply ec_trans. }
  intros x y. split; apply G; intros u v; apply HAB.
Qed.

(* ================================================================== partial_cmp / eq *)
Lemma any_not_same_ok entries : forall o, forest o ->
  exists o' b, any_not_same o entries = Ok (o', b) /\ pres o o' /\
    (b = false <-> forall a p, In (a, p) entries -> SameRoot o a p).
Proof.
  induction entries as [|[i p] r IH]; intros o F; cbn [any_not_same].
  - exists o, false. split; [reflexivity|]. split; [apply pres_refl|]. split; [intros _ a q []|reflexivity].
  - destruct (same_spec o i p F) as [o1 [b1 [E1 [P1 B1]]]]. rewrite E1. cbn [bind fst snd].
    destruct b1.
    + destruct (IH o1 (pres_forest _ _ F P1)) as [o' [b [E [P' B]]]].
      exists o', b. split; [exact E|]. split; [eapply pres_trans; eassumption|].
      rewrite B. split.
      * intros Hall a q [Hi|Hi].
        -- inversion Hi; subst. apply B1. reflexivity.
        -- apply (pres_same o o1 F P1). apply Hall, Hi.
      * intros Hall a q Hi. apply (pres_same o o1 F P1). apply Hall. right. exact Hi.
    + exists o1, true. split; [reflexivity|]. split; [exact P1|]. split; [discriminate|].
      intros Hall. assert (false = true); [|discriminate]. apply B1, Hall. left. reflexivity.
Qed.

Lemma pcmp_ok a b : forest a -> forest b ->
  exists a' b' c, pcmp a b = Ok (a', b', c) /\ pres a a' /\ pres b b'.
Proof.
  intros Fa Fb. unfold pcmp.
  destruct (any_not_same_ok a b Fb) as [b' [g1 [E1 [P1 _]]]]. rewrite E1. cbn [bind fst snd].
  destruct (any_not_same_ok b' a Fa) as [a' [g2 [E2 [P2 _]]]]. rewrite E2. cbn [bind fst snd].
  eauto 8.
Qed.

Lemma peq_ok a b : forest a -> forest b ->
  exists a' b' e, peq a b = Ok (a', b', e) /\ pres a a' /\ pres b b'.
Proof.
  intros Fa Fb. unfold peq.
  destruct (any_not_same_ok a b Fb) as [b' [g1 [E1 [P1 _]]]]. rewrite E1. cbn [bind fst snd].
  destruct g1.
  - exists a, b', false. split; [reflexivity|]. split; [apply pres_refl|exact P1].
  - destruct (any_not_same_ok b' a Fa) as [a' [g2 [E2 [P2 _]]]]. rewrite E2. cbn [bind fst snd].
    eauto 8.
Qed.

(* ================================================================== histories *)
Lemma inv_nil : Inv [] [].
Proof.
  assert (R0 : forall x, Rt [] x x) by (intros x; exists []; constructor; reflexivity).
  split; [intros x; exists x; apply R0|]. split; [constructor|].
  intros x y. split.
  - intros [r [H1 H2]]. pose proof (rt_det _ _ _ _ (R0 x) H1) as Q1.
    pose proof (rt_det _ _ _ _ (R0 y) H2) as Q2. rewrite Q1, Q2. apply ec_refl.
  - revert x y. apply eqcl_mono.
    + intros a b [].
    + intros a. exists a. auto.
    + apply sameroot_sym.
    + apply sameroot_trans.
Qed.

(* every value reachable from Default by unions, merges and (compressing) queries terminates
   without panic and satisfies the invariant for the pairs unioned in *)
Theorem run_inv h : pure h = true -> exists s out, run h = Ok (s, out) /\ Inv s (pairs h).
Proof.
  induction h as [|raw|h IH a b|h IH a b|h IHh o IHo|h IHh o IHo|h IH]; cbn [pure run pairs]; intros Hp.
  - exists [], []. split; [reflexivity|exact inv_nil].
  - discriminate.
  - destruct (IH Hp) as [s [out [E I]]]. rewrite E. cbn [bind fst snd].
    destruct (union_inv s _ a b I) as [s' [f [E' [I' _]]]]. rewrite E'. cbn [bind fst snd]. eauto.
  - destruct (IH Hp) as [s [out [E I]]]. rewrite E. cbn [bind fst snd].
    destruct (same_spec s a b (proj1 I)) as [s' [f [E' [P' _]]]]. rewrite E'. cbn [bind fst snd].
    exists s'. eexists. split; [reflexivity|]. exact (inv_pres _ _ _ I P').
  - apply andb_true_iff in Hp. destruct Hp as [Hp1 Hp2].
    destruct (IHh Hp1) as [s [out [E I]]]. rewrite E. cbn [bind fst snd].
    destruct (IHo Hp2) as [so [outo [Eo Io]]]. rewrite Eo. cbn [bind fst snd].
    destruct (merge_inv s _ so I) as [s' [f [E' [[F' [Nk' C']] _]]]]. rewrite E'. cbn [bind fst snd].
    exists s'. eexists. split; [reflexivity|]. split; [exact F'|]. split; [exact Nk'|].
    intros x y. rewrite C'. apply eqcl_app_cong. intros u v.
    destruct Io as [Fo [Nko Co]]. rewrite (entries_closure so Fo Nko). apply Co.
  - apply andb_true_iff in Hp. destruct Hp as [Hp1 Hp2].
    destruct (IHh Hp1) as [s [out [E I]]]. rewrite E. cbn [bind fst snd].
    destruct (IHo Hp2) as [so [outo [Eo Io]]]. rewrite Eo. cbn [bind fst snd].
    destruct (pcmp_ok s so (proj1 I) (proj1 Io)) as [s1 [so1 [c [E1 [P1 Po1]]]]].
    rewrite E1. cbn [bind fst snd].
    destruct (peq_ok s1 so1 (pres_forest _ _ (proj1 I) P1) (pres_forest _ _ (proj1 Io) Po1))
      as [s2 [so2 [e [E2 [P2 _]]]]].
    rewrite E2. cbn [bind fst snd].
    exists s2. eexists. split; [reflexivity|].
    exact (inv_pres _ _ _ I (pres_trans _ _ _ P1 P2)).
  - destruct (IH Hp) as [s [out [E I]]]. rewrite E. cbn [bind fst snd]. eauto.
Qed.

(* C04, union-find: after any history, two items are `same` exactly when they are equal or
   connected by the equivalence closure of all pairs ever unioned / merged in *)
Theorem uf_same_closure h : pure h = true -> forall x y,
  exists s out s' b, run h = Ok (s, out) /\ same s x y = Ok (s', b) /\
    (b = true <-> x = y \/ EqCl (pairs h) x y).
Proof.
  intros Hp x y. destruct (run_inv h Hp) as [s [out [E [F [Nk C]]]]].
  destruct (same_spec s x y F) as [s' [b [E' [_ B]]]].
  exists s, out, s', b. split; [exact E|]. split; [exact E'|]. rewrite B, C. split; [tauto|].
  intros [->|H]; [apply ec_refl|exact H].
Qed.

(* the answer recorded by a `same` operation inside a history is that closure, too *)
Corollary uf_history_same_answer h x y : pure h = true ->
  exists s out b, run (HSame h x y) = Ok (s, out ++ [b2n b]) /\
    (b = true <-> x = y \/ EqCl (pairs h) x y).
Proof.
  intros Hp. destruct (uf_same_closure h Hp x y) as [s [out [s' [b [E [E' B]]]]]].
  exists s', out, b. split; [|exact B]. cbn [run]. rewrite E. cbn [bind fst snd]. rewrite E'. reflexivity.
Qed.

(* ================================================================== merge = join of partitions *)
Inductive PJoin (R1 R2 : N -> N -> Prop) : N -> N -> Prop :=
| pj_l x y : R1 x y -> PJoin R1 R2 x y
| pj_r x y : R2 x y -> PJoin R1 R2 x y
| pj_sym x y : PJoin R1 R2 x y -> PJoin R1 R2 y x
| pj_trans x y z : PJoin R1 R2 x y -> PJoin R1 R2 y z -> PJoin R1 R2 x z.

Theorem merge_is_join a b Pa Pb : Inv a Pa -> Inv b Pb ->
  exists s' f, merge a b = Ok (s', f) /\ forest s' /\ NoDup (keys s') /\
    (forall x y, SameRoot s' x y <-> PJoin (SameRoot a) (SameRoot b) x y) /\
    (* the changed flag: false exactly when b's partition refines a's *)
    (f = false <-> forall x y, SameRoot b x y -> SameRoot a x y).
Proof.
  intros Ia Ib. destruct (merge_inv a Pa b Ia) as [s' [f [E [[F' [Nk' C']] Fl]]]].
  destruct Ia as [Fa [Nka Ca]]. destruct Ib as [Fb [Nkb Cb]].
  pose proof (entries_closure b Fb Nkb) as EB.
  exists s', f. split; [exact E|]. split; [exact F'|]. split; [exact Nk'|]. split.
  - intros x y. rewrite C'. split.
    + revert x y. apply eqcl_mono.
      * intros u v Hi. apply in_app_iff in Hi. destruct Hi as [Hi|Hi].
        -- apply pj_r, EB, ec_base, Hi.
        -- apply pj_l, Ca, ec_base, Hi.
      * intros u. apply pj_l, sameroot_refl, Fa.
      * apply pj_sym.
      * apply pj_trans.
    + intros H. induction H as [x y H|x y H|x y H IH|x y z H1 IH1 H2 IH2].
      * apply Ca in H. revert H. apply eqcl_incl. intros z Hz. apply in_app_iff. right. exact Hz.
      * apply EB in H. revert H. apply eqcl_incl. intros z Hz. apply in_app_iff. left. exact Hz.
      * apply ec_sym, IH.
      * eapply ec_trans; eassumption.
  - rewrite Fl. split.
    + intros Hall x y H. apply EB in H. revert x y H. apply eqcl_mono.
      * intros u v Hi. apply Ca, Hall, Hi.
      * intros u. apply sameroot_refl, Fa.
      * apply sameroot_sym.
      * apply sameroot_trans.
    + intros Href u v Hi. apply Ca, Href, EB, ec_base, Hi.
Qed.

(* ================================================================== malformed inputs *)
(* a rho-shaped parent map (a tail leading into a cycle that does not contain the start):
   the first loop never ends.  Such a map is not a forest, so no history builds it; it can only
   be handed in through new / new_from.  The real code spins on it. *)
Definition rho_map : uf := [(1, 2); (2, 3); (3, 2)]%N.

Lemma rho_loop : forall fuel,
  find_root fuel rho_map 1 2 = OutOfFuel /\ find_root fuel rho_map 1 3 = OutOfFuel.
Proof.
  induction fuel as [|f [IH2 IH3]]; [split; reflexivity|].
  split; cbn; assumption.
Qed.

Theorem find_rho_diverges_refuted :
  exists s x, ~ forest s /\ forall fuel, find fuel s x = OutOfFuel.
Proof.
  exists rho_map, 1%N.
  assert (D : forall fuel, find fuel rho_map 1 = OutOfFuel).
  { intros [|f]; [reflexivity|].
    assert (R1 : find_root (S f) rho_map 1 1 = find_root f rho_map 1 2) by reflexivity.
    unfold find. rewrite R1, (proj1 (rho_loop f)). reflexivity. }
  split; [|exact D]. intros F.
  destruct (find_terminates rho_map 1%N 4 F) as [r [s' [E _]]]; [cbn; lia|].
  rewrite D in E. discriminate.
Qed.

(* pure cycles (the repo's test_malformed): the loop guard closes the cycle, find terminates
   with the default fuel, and all members answer `same` *)
Definition cycle3 : uf := [(1, 2); (2, 3); (3, 1)]%N.
Definition cycle4 : uf := [(1, 2); (2, 3); (3, 4); (4, 1)]%N.

Lemma find_pure_cycle_examples :
  find (dfuel cycle3) cycle3 1 = Ok (3, [(1, 3); (2, 3); (3, 3)])%N /\
  find (dfuel cycle4) cycle4 1 = Ok (4, [(1, 4); (2, 4); (3, 4); (4, 4)])%N /\
  (exists s, same cycle3 1 2 = Ok (s, true)) /\ (exists s, same cycle4 1 2 = Ok (s, true)) /\
  ~ forest cycle3.
Proof.
  split; [reflexivity|]. split; [reflexivity|]. split; [eexists; reflexivity|].
  split; [eexists; reflexivity|].
  intros F. destruct (F 1%N) as [r [l H]].
  pose proof (rootp_len _ _ _ _ H) as Hl.
  (* four steps from 1 come back to 1: the path would repeat a node *)
  inversion H as [r' Hr'|x1 p1 r1 l1 Hp1 Hn1 H1]; subst; [cbv in Hr'; discriminate|].
  cbv in Hn1. inversion H1 as [r' Hr'|x2 p2 r2 l2 Hp2 Hn2 H2]; subst; [cbv in Hr'; discriminate|].
  inversion H2 as [r' Hr'|x3 p3 r3 l3 Hp3 Hn3 H3]; subst; [cbv in Hr'; discriminate|].
  inversion H3 as [r' Hr'|x4 p4 r4 l4 Hp4 Hn4 H4]; subst; [cbv in Hr'; discriminate|].
  cbn in Hl. lia.
Qed.

(* ================================================================== LatLaws for union-find *)
From HV Require Import Lattice.Ord.

Lemma piter_root s x r l : RootP s x r l -> forall n, length l <= n -> piter n s x = r.
Proof.
  induction 1 as [r Hr|x p r l Hp Hne Hr IH]; intros n Hn.
  - clear Hn. induction n as [|n IHn]; [reflexivity|]. cbn [piter]. rewrite Hr. exact IHn.
  - destruct n as [|n]; [cbn in Hn; lia|]. cbn [piter]. rewrite Hp. apply IH. cbn in Hn. lia.
Qed.

Lemma piter_rt n : forall s x, par s (piter n s x) = piter n s x -> Rt s x (piter n s x).
Proof.
  induction n as [|n IH]; intros s x Hx; cbn [piter] in *.
  - exists []. constructor. exact Hx.
  - apply rt_step with (p := par s x); [reflexivity|]. apply IH, Hx.
Qed.

Lemma forestb_spec s : forestb s = true <-> forest s.
Proof.
  unfold forestb. rewrite forallb_forall. split.
  - intros Hall x. destruct (get x s) as [p|] eqn:G.
    + assert (Hk : In x (keys s)) by (apply get_In in G; apply (in_map fst) in G; exact G).
      specialize (Hall x Hk). cbv zeta in Hall. apply N.eqb_eq in Hall.
      eexists. apply piter_rt. exact Hall.
    + exists x, []. constructor. unfold par. rewrite G. reflexivity.
  - intros F k _. cbv zeta. apply N.eqb_eq. destruct (F k) as [r [l H]].
    rewrite (piter_root s k r l H (length s) (rootp_len _ _ _ _ H)).
    exact (rootp_root _ _ _ _ H).
Qed.

Definition UW (s : uf) : Prop := forest s /\ NoDup (keys s).

Lemma uf_wf_spec s : uf_wf s = true <-> UW s.
Proof. unfold uf_wf, UW. rewrite andb_true_iff, forestb_spec, nodupb_NoDup. tauto. Qed.

Lemma uw_inv s : UW s -> Inv s s.
Proof.
  intros [F Nk]. split; [exact F|]. split; [exact Nk|]. intros x y. symmetry.
  apply entries_closure; assumption.
Qed.

(* partition refinement *)
Definition refines (a b : uf) : Prop := forall x y, SameRoot a x y -> SameRoot b x y.

Lemma refines_entries a b : UW a -> forest b ->
  (refines a b <-> forall i p, In (i, p) a -> SameRoot b i p).
Proof.
  intros [Fa Nka] Fb. split.
  - intros R i p Hi. apply R, (entries_closure a Fa Nka), ec_base, Hi.
  - intros Hall x y H. apply (entries_closure a Fa Nka) in H. revert x y H. apply eqcl_mono.
    + exact Hall.
    + intros u. apply sameroot_refl, Fb.
    + apply sameroot_sym.
    + apply sameroot_trans.
Qed.

Lemma pres_uw s s' : UW s -> pres s s' -> UW s'.
Proof. intros [F Nk] P. split; [exact (pres_forest _ _ F P)|rewrite (proj1 P); exact Nk]. Qed.

Lemma refines_pres_l a a' b : forest a -> pres a a' -> (refines a' b <-> refines a b).
Proof.
  intros F P. unfold refines. split; intros R x y H; apply R.
  - apply (pres_same a a' F P), H.
  - apply (pres_same a a' F P), H.
Qed.

(* partial_cmp: the two flags are the two refinement tests *)
Lemma pcmp_spec a b : UW a -> UW b ->
  exists a' b' g1 g2, pcmp a b = Ok (a', b',
      match g1, g2 with
      | true, true => None | true, false => Some Gt | false, true => Some Lt | false, false => Some Eq
      end) /\
    (g1 = false <-> refines a b) /\ (g2 = false <-> refines b a).
Proof.
  intros Wa Wb. unfold pcmp.
  destruct (any_not_same_ok a b (proj1 Wb)) as [b' [g1 [E1 [P1 G1]]]]. rewrite E1. cbn [bind fst snd].
  destruct (any_not_same_ok b' a (proj1 Wa)) as [a' [g2 [E2 [P2 G2]]]]. rewrite E2. cbn [bind fst snd].
  exists a', b', g1, g2. split; [reflexivity|]. split.
  - rewrite G1. symmetry. apply refines_entries; [exact Wa|exact (proj1 Wb)].
  - rewrite G2. rewrite <- (refines_entries b' a (pres_uw _ _ Wb P1) (proj1 Wa)).
    apply refines_pres_l; [exact (proj1 Wb)|exact P1].
Qed.

Lemma peq_spec a b : UW a -> UW b ->
  exists a' b' e, peq a b = Ok (a', b', e) /\ (e = true <-> refines a b /\ refines b a).
Proof.
  intros Wa Wb. unfold peq.
  destruct (any_not_same_ok a b (proj1 Wb)) as [b' [g1 [E1 [P1 G1]]]]. rewrite E1. cbn [bind fst snd].
  assert (R1 : g1 = false <-> refines a b).
  { rewrite G1. symmetry. apply refines_entries; [exact Wa|exact (proj1 Wb)]. }
  destruct g1.
  - exists a, b', false. split; [reflexivity|]. split; [discriminate|].
    intros [R _]. apply R1 in R. discriminate.
  - destruct (any_not_same_ok b' a (proj1 Wa)) as [a' [g2 [E2 [P2 G2]]]]. rewrite E2. cbn [bind fst snd].
    assert (R2 : g2 = false <-> refines b a).
    { rewrite G2. rewrite <- (refines_entries b' a (pres_uw _ _ Wb P1) (proj1 Wa)).
      apply refines_pres_l; [exact (proj1 Wb)|exact P1]. }
    exists a', b', (negb g2). split; [reflexivity|]. rewrite negb_true_iff, R2.
    split; [intros H; split; [apply R1; reflexivity|exact H]|tauto].
Qed.

Lemma merge_spec a b : UW a -> UW b ->
  exists s' f, merge a b = Ok (s', f) /\ UW s' /\
    (forall x y, SameRoot s' x y <-> PJoin (SameRoot a) (SameRoot b) x y) /\
    (f = false <-> refines b a).
Proof.
  intros Wa Wb.
  destruct (merge_is_join a b a b (uw_inv a Wa) (uw_inv b Wb)) as [s' [f [E [F [Nk [J Fl]]]]]].
  exists s', f. split; [exact E|]. split; [split; assumption|]. split; [exact J|exact Fl].
Qed.

Lemma pjoin_lub a b c : forest c -> refines a c -> refines b c ->
  forall x y, PJoin (SameRoot a) (SameRoot b) x y -> SameRoot c x y.
Proof.
  intros Fc Ra Rb x y H. induction H as [x y H|x y H|x y H IH|x y z H1 IH1 H2 IH2].
  - apply Ra, H.
  - apply Rb, H.
  - apply sameroot_sym, IH.
  - eapply sameroot_trans; eassumption.
Qed.

Lemma isbot_spec a : UW a -> (uf_isbot a = true <-> forall x y, SameRoot a x y -> x = y).
Proof.
  intros [F Nk]. unfold uf_isbot. rewrite forallb_forall. split.
  - intros Hall.
    assert (P : forall x, par a x = x).
    { intros x. unfold par. destruct (get x a) as [p|] eqn:G; [|reflexivity].
      apply get_In in G. specialize (Hall _ G). cbn in Hall. apply N.eqb_eq in Hall. auto. }
    assert (R : forall x r, Rt a x r -> r = x).
    { intros x r H. apply (rt_det a x); [exact H|]. exists []. constructor. apply P. }
    intros x y [r [H1 H2]]. rewrite <- (R _ _ H1), <- (R _ _ H2). reflexivity.
  - intros Hall [k p] Hi. cbn. apply N.eqb_eq. apply Hall.
    apply (entries_closure a F Nk), ec_base, Hi.
Qed.

Local Ltac unu := unfold W, E, Le, m, ch in *;
  cbn [wf mrg cmp eqb isbot istop uf_ops] in *.

Lemma uf_ord : OrdLaws uf_ops refines.
Proof.
  split; unu.
  - intros a _ x y H. exact H.
  - intros a b c _ _ _ R1 R2 x y H. apply R2, R1, H.
  - intros a b Wa Wb. apply uf_wf_spec in Wa, Wb.
    destruct (peq_spec a b Wa Wb) as [a' [b' [e [E Sp]]]]. rewrite E. cbn [snd]. exact Sp.
  - intros a b Wa Wb. apply uf_wf_spec in Wa, Wb.
    destruct (merge_spec a b Wa Wb) as [s' [f [E [Ws _]]]]. rewrite E. cbn [fst]. apply uf_wf_spec, Ws.
  - intros a b Wa Wb. apply uf_wf_spec in Wa, Wb.
    destruct (merge_spec a b Wa Wb) as [s' [f [E [_ [J _]]]]]. rewrite E. cbn [fst].
    intros x y H. apply J, pj_l, H.
  - intros a b Wa Wb. apply uf_wf_spec in Wa, Wb.
    destruct (merge_spec a b Wa Wb) as [s' [f [E [_ [J _]]]]]. rewrite E. cbn [fst].
    intros x y H. apply J, pj_r, H.
  - intros a b c Wa Wb Wc R1 R2. apply uf_wf_spec in Wa, Wb, Wc.
    destruct (merge_spec a b Wa Wb) as [s' [f [E [_ [J _]]]]]. rewrite E. cbn [fst].
    intros x y H. apply J in H. exact (pjoin_lub a b c (proj1 Wc) R1 R2 x y H).
  - intros a b Wa Wb. apply uf_wf_spec in Wa, Wb.
    destruct (merge_spec a b Wa Wb) as [s' [f [E [_ [_ Fl]]]]]. rewrite E. cbn [snd]. exact Fl.
  - intros a b Wa Wb. apply uf_wf_spec in Wa, Wb.
    destruct (merge_spec a b Wa Wb) as [s1 [f1 [E1 [_ [_ Fl1]]]]].
    destruct (merge_spec b a Wb Wa) as [s2 [f2 [E2 [_ [_ Fl2]]]]].
    destruct (pcmp_spec a b Wa Wb) as [a' [b' [g1 [g2 [E [G1 G2]]]]]].
    rewrite E, E1, E2. cbn [snd].
    (* f1 = false <-> refines b a <-> g2 = false ; f2 = false <-> refines a b <-> g1 = false *)
    assert (Q1 : f1 = g2) by (destruct f1, g2; intuition congruence).
    assert (Q2 : f2 = g1) by (destruct f2, g1; intuition congruence).
    subst. destruct g1, g2; reflexivity.
  - intros a Wa. apply uf_wf_spec in Wa. rewrite (isbot_spec a Wa). split.
    + intros B b Wb x y H. apply uf_wf_spec in Wb. rewrite <- (B x y H). apply sameroot_refl, (proj1 Wb).
    + intros B x y H. specialize (B [] Logic.eq_refl x y H).
      destruct B as [r [H1 H2]].
      assert (R0 : forall z, Rt [] z z) by (intros z; exists []; constructor; reflexivity).
      rewrite (rt_det _ _ _ _ (R0 x) H1), (rt_det _ _ _ _ (R0 y) H2). reflexivity.
  - exists []. reflexivity.
Qed.

Theorem uf_laws : LatLaws uf_ops.
Proof. exact (ord_laws uf_ord). Qed.

(* the lattice order of union-find IS partition refinement *)
Lemma uf_le_refines a b : W uf_ops a -> W uf_ops b -> (Le uf_ops a b <-> refines a b).
Proof. apply (o_Le_iff uf_ord). Qed.

(* is_top is constantly false, rightly: two fresh items can always still be united *)
Lemma uf_toplaw : TopLaw uf_ops.
Proof.
  intros a Wa. cbn [istop uf_ops]. split; [discriminate|]. intros T. exfalso.
  pose proof Wa as Wa'. apply uf_wf_spec in Wa'. destruct Wa' as [F Nk].
  set (z := (1 + fold_right N.add 0 (keys a))%N).
  assert (Hle : forall l x, In x l -> (x <= fold_right N.add 0 l)%N).
  { induction l as [|y r IH]; cbn; intros x [].
    - subst. lia.
    - specialize (IH x H). lia. }
  assert (Hz : forall k, (z <= k)%N -> get k a = None).
  { intros k Hk. apply get_None. intros Hi. apply Hle in Hi. unfold z in Hk. lia. }
  (* z and z+1 are fresh, hence their own roots in a; the value {z+1 -> z} unites them *)
  assert (Wb : W uf_ops [((z + 1)%N, z)]).
  { apply uf_wf_spec. split; [|repeat constructor; intros []].
    apply forestb_spec. unfold forestb. cbn. unfold par. cbn.
    destruct (N.eqb_spec (z + 1) (z + 1)) as [_|Hn]; [|congruence].
    cbn. destruct (N.eqb_spec z (z + 1)) as [Hq|_]; [lia|]. cbn.
    rewrite N.eqb_refl. reflexivity. }
  specialize (T _ Wb). apply (uf_le_refines _ _ Wb Wa) in T.
  assert (S1 : SameRoot [((z + 1)%N, z)] (z + 1) z).
  { exists z. split.
    - apply rt_step with (p := z).
      + unfold par. cbn. rewrite N.eqb_refl. reflexivity.
      + exists []. constructor. unfold par. cbn. destruct (N.eqb_spec z (z + 1)); [lia|reflexivity].
    - exists []. constructor. unfold par. cbn. destruct (N.eqb_spec z (z + 1)); [lia|reflexivity]. }
  apply T in S1. destruct S1 as [r [H1 H2]].
  assert (R : forall k, (z <= k)%N -> Rt a k k).
  { intros k Hk. exists []. constructor. unfold par. rewrite (Hz k Hk). reflexivity. }
  pose proof (rt_det _ _ _ _ H1 (R (z + 1)%N ltac:(lia))).
  pose proof (rt_det _ _ _ _ H2 (R z ltac:(lia))). lia.
Qed.

(* ================================================================== pure cycles, any length
   x0 -> x1 -> ... -> x(k-1) -> x0 with distinct items, k >= 2 (the repo's test_malformed shape).
   Not a forest, yet find terminates: the first loop stops at x(k-1) thanks to the
   `parent == item` guard and makes it the representative; the second loop points everybody
   at it. *)
Fixpoint Chain (s : uf) (l : list N) (t : N) : Prop :=
  match l with
  | [] => True
  | y :: r => match r with
              | [] => get y s = Some t
              | z :: _ => get y s = Some z /\ Chain s r t
              end
  end.

Fixpoint lst (y : N) (r : list N) : N := match r with [] => y | z :: r' => lst z r' end.
Fixpoint allbut (y : N) (r : list N) : list N :=
  match r with [] => [] | z :: r' => y :: allbut z r' end.

Lemma lst_in r : forall y, In (lst y r) (y :: r).
Proof. induction r as [|z r IH]; intros y; cbn [lst]; [left; reflexivity|right; apply IH]. Qed.

Lemma allbut_in r : forall y w, In w (allbut y r) -> In w (y :: r).
Proof.
  induction r as [|z r IH]; intros y w; cbn [allbut]; [intros []|].
  intros [<-|Hw]; [left; reflexivity|right; apply IH, Hw].
Qed.

Lemma allbut_or_lst r : forall y w, In w (y :: r) -> In w (allbut y r) \/ w = lst y r.
Proof.
  induction r as [|z r IH]; intros y w Hw; cbn [allbut lst].
  - destruct Hw as [<-|[]]. right. reflexivity.
  - destruct Hw as [<-|Hw]; [left; left; reflexivity|].
    destruct (IH z w Hw); [left; right; assumption|right; assumption].
Qed.

Lemma chain_has_entry s l t : Chain s l t -> forall w, In w l -> get w s <> None.
Proof.
  induction l as [|y r IH]; intros C w Hw; [destruct Hw|].
  cbn [Chain] in C. destruct r as [|z r'].
  - destruct Hw as [<-|[]]. congruence.
  - destruct C as [G C]. destruct Hw as [<-|Hw]; [congruence|]. apply IH; assumption.
Qed.

Lemma chain_set_other s l t y v : ~ In y l -> Chain s l t -> Chain (set_at y v s) l t.
Proof.
  induction l as [|w r IH]; intros Hn C; [exact I|].
  cbn [Chain] in *. assert (Hwy : N.eqb w y = false).
  { apply N.eqb_neq. intros ->. apply Hn. left. reflexivity. }
  destruct r as [|z r'].
  - rewrite get_set_at, Hwy. exact C.
  - destruct C as [G C]. split; [rewrite get_set_at, Hwy; exact G|].
    apply IH; [|exact C]. intros Hi. apply Hn. right. exact Hi.
Qed.

(* first loop, from inside the cycle *)
Lemma find_root_cycle s x0 r : forall y fuel, Chain s (y :: r) x0 -> ~ In x0 (y :: r) ->
  NoDup (y :: r) -> length (y :: r) <= fuel ->
  find_root fuel s x0 y = Ok (lst y r, set_at (lst y r) (lst y r) s).
Proof.
  induction r as [|z r IH]; intros y fuel C Hx Nd Hf.
  - destruct fuel as [|f]; [cbn in Hf; lia|]. cbn [Chain] in C. cbn [find_root lst]. rewrite C.
    destruct (N.eqb_spec x0 y) as [->|_]; [exfalso; apply Hx; left; reflexivity|].
    rewrite N.eqb_refl. reflexivity.
  - destruct fuel as [|f]; [cbn in Hf; lia|]. cbn [Chain] in C. destruct C as [G C].
    cbn [find_root lst]. rewrite G. inversion Nd as [|? ? Hy Nd']; subst.
    destruct (N.eqb_spec z y) as [->|_]; [exfalso; apply Hy; left; reflexivity|].
    destruct (N.eqb_spec z x0) as [->|_]; [exfalso; apply Hx; right; left; reflexivity|].
    apply IH; [exact C| |exact Nd'|cbn in *; lia].
    intros Hi. apply Hx. right. exact Hi.
Qed.

(* second loop along a chain ending in the representative *)
Lemma compress_cycle r : forall y c t fuel, Chain c (y :: r) t -> NoDup (y :: r) ->
  length (y :: r) <= fuel ->
  compress fuel c y (lst y r) =
  Ok (fold_left (fun c w => set_at w (lst y r) c) (allbut y r) c).
Proof.
  induction r as [|z r IH]; intros y c t fuel C Nd Hf.
  - destruct fuel as [|f]; [cbn in Hf; lia|]. cbn [compress lst allbut fold_left].
    rewrite N.eqb_refl. reflexivity.
  - destruct fuel as [|f]; [cbn in Hf; lia|]. cbn [Chain] in C. destruct C as [G C].
    inversion Nd as [|? ? Hy Nd']; subst. cbn [compress lst allbut fold_left].
    destruct (N.eqb_spec y (lst z r)) as [Heq|_].
    { exfalso. apply Hy. rewrite Heq. apply lst_in. }
    rewrite G. apply IH with (t := t); [|exact Nd'|cbn in *; lia].
    apply chain_set_other; assumption.
Qed.

Lemma fold_set_get L l : forall (c : uf) z, (forall w, In w l -> get w c <> None) ->
  get z (fold_left (fun c w => set_at w L c) l c) = if mem z l then Some L else get z c.
Proof.
  induction l as [|w r IH]; intros c z Hall; cbn [fold_left]; [reflexivity|].
  rewrite IH.
  - unfold mem. cbn [existsb]. fold (mem z r). rewrite get_set_at.
    destruct (mem z r); [rewrite orb_true_r; reflexivity|]. rewrite orb_false_r.
    destruct (N.eqb z w); [|reflexivity].
    destruct (get w c) eqn:G; [reflexivity|]. exfalso. apply (Hall w); [left; reflexivity|exact G].
  - intros v Hv. rewrite get_set_at. destruct (N.eqb v w).
    + destruct (get w c) eqn:G; [discriminate|]. exfalso. apply (Hall w); [left; reflexivity|exact G].
    + apply Hall. right. exact Hv.
Qed.

Lemma chain_set_last s v r : forall y t, NoDup (y :: r) -> Chain s (y :: r) t ->
  Chain (set_at (lst y r) v s) (y :: r) v.
Proof.
  induction r as [|z r IH]; intros y t Nd C.
  - cbn [Chain lst] in *. rewrite get_set_at, N.eqb_refl, C. reflexivity.
  - cbn [Chain] in C. destruct C as [G C]. inversion Nd as [|? ? Hy Nd']; subst.
    change (Chain (set_at (lst z r) v s) (y :: z :: r) v).
    cbn [Chain]. split; [|exact (IH z t Nd' C)].
    rewrite get_set_at. destruct (N.eqb_spec y (lst z r)) as [Heq|_]; [|exact G].
    exfalso. apply Hy. rewrite Heq. apply lst_in.
Qed.

Theorem find_pure_cycle s x0 x1 r fuel :
  NoDup (x0 :: x1 :: r) -> Chain s (x0 :: x1 :: r) x0 -> length (x0 :: x1 :: r) < fuel ->
  let L := lst x1 r in
  exists s', find fuel s x0 = Ok (L, s') /\ length s' = length s /\ (forall z, In z (x0 :: x1 :: r) -> get z s' = Some L) /\ (forall z, ~ In z (x0 :: x1 :: r) -> get z s' = get z s).
Proof.
  intros Nd C Hf. cbv zeta. pose proof C as C0. cbn [Chain] in C. destruct C as [G0 C].
  inversion Nd as [|? ? H0 Nd1]; subst.
  destruct fuel as [|f]; [cbn in Hf; lia|].
  assert (FR : find_root (S f) s x0 x0 = Ok (lst x1 r, set_at (lst x1 r) (lst x1 r) s)).
  { cbn [find_root]. rewrite G0.
    destruct (N.eqb_spec x1 x0) as [->|_]; [exfalso; apply H0; left; reflexivity|].
    apply find_root_cycle; [exact C|exact H0|exact Nd1|cbn in *; lia]. }
  unfold find. rewrite FR. cbn [bind fst snd].
  set (L := lst x1 r) in *. set (s1 := set_at L L s).
  assert (HL : In L (x1 :: r)) by apply lst_in.
  assert (C1 : Chain s1 (x0 :: x1 :: r) L) by exact (chain_set_last s L (x1 :: r) x0 x0 Nd C0).
  assert (CC := compress_cycle (x1 :: r) x0 s1 L (S f) C1 Nd).
  change (lst x0 (x1 :: r)) with L in CC. rewrite CC by (cbn in *; lia).
  cbn [bind fst].
  set (ab := allbut x0 (x1 :: r)).
  assert (Hall : forall w, In w ab -> get w s1 <> None).
  { intros w Hw. apply (chain_has_entry s1 _ _ C1). apply allbut_in, Hw. }
  assert (GL : get L s1 = Some L).
  { unfold s1. rewrite get_set_at, N.eqb_refl.
    destruct (get L s) eqn:G; [reflexivity|]. exfalso.
    apply (chain_has_entry s _ _ C0 L); [right; exact HL|exact G]. }
  eexists. split; [reflexivity|]. split; [|split].
  - assert (LS : forall l (c : uf), length (fold_left (fun c w => set_at w L c) l c) = length c).
    { induction l as [|w l IH]; intros c; cbn [fold_left]; [reflexivity|]. rewrite IH.
      rewrite <- (map_length fst (set_at w L c)), <- (map_length fst c).
      change (length (keys (set_at w L c)) = length (keys c)). rewrite keys_set_at. reflexivity. }
    rewrite LS. unfold s1.
    rewrite <- (map_length fst (set_at L L s)), <- (map_length fst s).
    change (length (keys (set_at L L s)) = length (keys s)). rewrite keys_set_at. reflexivity.
  - intros z Hz. rewrite (fold_set_get L ab s1 z Hall).
    destruct (mem z ab) eqn:M; [reflexivity|].
    destruct (allbut_or_lst (x1 :: r) x0 z Hz) as [Hi|Heq].
    + apply mem_In in Hi. fold ab in Hi. congruence.
    + change (lst x0 (x1 :: r)) with L in Heq. subst z. exact GL.
  - intros z Hz. rewrite (fold_set_get L ab s1 z Hall).
    assert (M : mem z ab = false).
    { apply mem_false. intros Hi. apply Hz. apply allbut_in in Hi. exact Hi. }
    rewrite M. unfold s1. rewrite get_set_at.
    destruct (N.eqb_spec z L) as [->|_]; [|reflexivity]. exfalso. apply Hz. right. exact HL.
Qed.

(* after that, everybody in the cycle answers `same` with everybody else *)
Lemma find_star c z L fuel : get z c = Some L -> get L c = Some L -> 2 <= fuel ->
  exists c', find fuel c z = Ok (L, c') /\ length c' = length c.
Proof.
  intros Gz GL Hf. destruct fuel as [|[|f]]; try lia. unfold find.
  destruct (N.eq_dec z L) as [->|Hne].
  - cbn [find_root]. rewrite GL, N.eqb_refl. cbn [bind fst snd compress]. rewrite N.eqb_refl.
    cbn [bind]. eauto.
  - cbn [find_root]. rewrite Gz.
    destruct (N.eqb_spec L z) as [Heq|_]; [congruence|]. rewrite GL, N.eqb_refl.
    cbn [bind fst snd compress].
    destruct (N.eqb_spec z L) as [Heq|_]; [congruence|]. rewrite Gz, N.eqb_refl. cbn [bind].
    eexists. split; [reflexivity|].
    rewrite <- (map_length fst (set_at z L c)), <- (map_length fst c).
    change (length (keys (set_at z L c)) = length (keys c)). rewrite keys_set_at. reflexivity.
Qed.

Theorem same_pure_cycle s x0 x1 r z :
  NoDup (x0 :: x1 :: r) -> Chain s (x0 :: x1 :: r) x0 -> In z (x0 :: x1 :: r) ->
  exists s', same s x0 z = Ok (s', true).
Proof.
  intros Nd C Hz. unfold same. destruct (N.eqb_spec x0 z) as [_|Hne]; [eauto|].
  assert (Len : length (x0 :: x1 :: r) <= length s).
  { rewrite <- (map_length fst s). apply NoDup_incl_length; [exact Nd|].
    intros w Hw. pose proof (chain_has_entry s _ _ C w Hw) as G.
    destruct (get w s) as [p|] eqn:Gw; [|congruence].
    apply get_In in Gw. apply (in_map fst) in Gw. exact Gw. }
  destruct (find_pure_cycle s x0 x1 r (dfuel s) Nd C) as [s1 [E1 [L1 [In1 _]]]].
  { unfold dfuel. lia. }
  cbv zeta in E1. rewrite E1. cbn [bind fst snd].
  destruct (find_star s1 z (lst x1 r) (dfuel s1)) as [s2 [E2 _]].
  - apply In1, Hz.
  - apply In1. right. apply lst_in.
  - unfold dfuel. rewrite L1. cbn in Len. lia.
  - rewrite E2. cbn [bind fst snd]. rewrite N.eqb_refl. eauto.
Qed.
