(* E1 proofs: union_find.rs (union-find part of C04) *)
From HV Require Import Lattice.Model Lattice.PSet Lattice.PMapBase Lattice.UF.
From Coq Require Import PeanoNat ZifyBool ZifyN.

(* ================================================================== parent maps as forests *)
(* an item without an entry is its own root *)
Definition par (s : uf) (x : N) : N := match get x s with Some p => p | None => x end.

(* the path from x up to its root r; l lists the non-root nodes on it, starting with x *)
Inductive RootP (s : uf) : N -> N -> list N -> Prop :=
| RP0 r : par s r = r -> RootP s r r []
| RPS x p r l : par s x = p -> p <> x -> RootP s p r l -> RootP s x r (x :: l).

Definition Rt (s : uf) (x r : N) : Prop := exists l, RootP s x r l.

(* the precondition of everything below: every item reaches a root (no cycle anywhere) *)
Definition forest (s : uf) : Prop := forall x, exists r, Rt s x r.

Definition SameRoot (s : uf) (x y : N) : Prop := exists r, Rt s x r /\ Rt s y r.

Lemma par_get s x p : par s x = p -> p <> x -> get x s = Some p.
Proof. unfold par. destruct (get x s); intros; subst; congruence. Qed.

Lemma rootp_det s x r1 l1 : RootP s x r1 l1 -> forall r2 l2, RootP s x r2 l2 -> r1 = r2 /\ l1 = l2.
Proof.
  induction 1 as [r Hr|x p r l Hp Hne Hr IH]; intros r2 l2 H2;
    inversion H2 as [r' Hr'|x' p' r' l' Hp' Hne' Hr']; subst.
  - auto.
  - congruence.
  - congruence.
  - destruct (IH _ _ Hr') as [-> ->]. auto.
Qed.

Lemma rt_det s x r1 r2 : Rt s x r1 -> Rt s x r2 -> r1 = r2.
Proof. intros [l1 H1] [l2 H2]. exact (proj1 (rootp_det _ _ _ _ H1 _ _ H2)). Qed.

Lemma rootp_root s x r l : RootP s x r l -> par s r = r.
Proof. induction 1; assumption. Qed.

Lemma rt_root s x r : Rt s x r -> Rt s r r.
Proof. intros [l H]. exists []. constructor. exact (rootp_root _ _ _ _ H). Qed.

Lemma rt_step s x p r : par s x = p -> Rt s p r -> Rt s x r.
Proof.
  intros Hp [l H]. destruct (N.eq_dec p x) as [->|Hne]; [exists l; exact H|].
  exists (x :: l). econstructor; eassumption.
Qed.

Lemma rt_step_inv s x r : Rt s x r -> Rt s (par s x) r.
Proof.
  intros [l H]. inversion H as [r' Hr'|x' p' r' l' Hp' Hne' Hr']; subst.
  - rewrite Hr'. exists []. constructor. exact Hr'.
  - exists l'. exact Hr'.
Qed.

Lemma rootp_in s x r l : RootP s x r l -> forall y, In y l ->
  exists l', RootP s y r l' /\ length l' <= length l.
Proof.
  induction 1 as [r Hr|x p r l Hp Hne Hr IH]; intros y Hy; [destruct Hy|].
  destruct Hy as [<-|Hy].
  - exists (x :: l). split; [econstructor; eassumption|reflexivity].
  - destruct (IH y Hy) as [l' [H1 H2]]. exists l'. split; [exact H1|cbn; lia].
Qed.

Lemma rootp_nodup s x r l : RootP s x r l -> NoDup l.
Proof.
  induction 1 as [r Hr|x p r l Hp Hne Hr IH]; constructor; [|exact IH].
  intros Hx. destruct (rootp_in _ _ _ _ Hr x Hx) as [l' [H1 H2]].
  assert (H3 : RootP s x r (x :: l)) by (econstructor; eassumption).
  destruct (rootp_det _ _ _ _ H1 _ _ H3) as [_ ->]. cbn in H2. lia.
Qed.

Lemma rootp_keys s x r l : RootP s x r l -> incl l (keys s).
Proof.
  induction 1 as [r Hr|x p r l Hp Hne Hr IH]; intros y Hy; [destruct Hy|].
  destruct Hy as [<-|Hy]; [|apply IH, Hy].
  apply par_get in Hp; [|exact Hne]. apply get_In in Hp. apply (in_map fst) in Hp. exact Hp.
Qed.

(* a path never is longer than the map *)
Lemma rootp_len s x r l : RootP s x r l -> length l <= length s.
Proof.
  intros H. replace (length s) with (length (keys s)) by apply map_length.
  apply NoDup_incl_length; [exact (rootp_nodup _ _ _ _ H)|exact (rootp_keys _ _ _ _ H)].
Qed.

(* ================================================================== find *)
(* first loop: on a forest it returns the root and leaves the map alone; the cycle branch
   `parent == item` is never taken *)
Lemma find_root_ok s item r L0 : RootP s item r L0 ->
  forall l x, RootP s x r l -> length l <= length L0 ->
  forall fuel, length l < fuel -> find_root fuel s item x = Ok (r, s).
Proof.
  intros H0 l x H. induction H as [r Hr|x p r l Hp Hne Hr IH]; intros Hlen fuel Hf.
  - destruct fuel as [|f]; [cbn in Hf; lia|]. cbn [find_root].
    unfold par in Hr. destruct (get r s) as [q|]; [|reflexivity].
    subst q. rewrite N.eqb_refl. reflexivity.
  - destruct fuel as [|f]; [cbn in Hf; lia|]. cbn [find_root].
    rewrite (par_get _ _ _ Hp Hne).
    destruct (N.eqb_spec p x) as [->|_]; [congruence|].
    destruct (N.eqb_spec p item) as [->|_].
    + exfalso. destruct (rootp_det _ _ _ _ Hr _ _ H0) as [_ ->]. cbn in Hlen. lia.
    + apply IH; [exact H0|cbn in Hlen; lia|cbn in Hf; lia].
Qed.

Lemma par_set_at c x r y : get x c <> None ->
  par (set_at x r c) y = if N.eqb y x then r else par c y.
Proof.
  intros Hx. unfold par. rewrite get_set_at. destruct (N.eqb y x); [|reflexivity].
  destruct (get x c); [reflexivity|congruence].
Qed.

(* re-pointing a non-root item straight at its root changes nobody's root *)
Lemma set_root_preserves c x r : Rt c x r -> x <> r -> get x c <> None ->
  forall y ry, Rt c y ry -> Rt (set_at x r c) y ry.
Proof.
  intros Hx Hne Hg y ry [ly Hy].
  assert (Hxn : par c x <> x).
  { destruct Hx as [lx Hx]. inversion Hx; subst; congruence. }
  induction Hy as [ry Hry|y p ry l Hp Hpy Hr IH].
  - exists []. constructor. rewrite par_set_at by exact Hg.
    destruct (N.eqb_spec ry x) as [->|_]; [contradiction|exact Hry].
  - destruct (N.eq_dec y x) as [->|Hyx].
    + assert (ry = r).
      { apply (rt_det c x); [|exact Hx]. exists (x :: l). econstructor; eassumption. }
      subst ry. apply rt_step with (p := r).
      * rewrite par_set_at by exact Hg. rewrite N.eqb_refl. reflexivity.
      * exists []. constructor. rewrite par_set_at by exact Hg.
        destruct (N.eqb_spec r x) as [->|_]; [congruence|].
        destruct Hx as [lx Hx]. exact (rootp_root _ _ _ _ Hx).
    + apply rt_step with (p := p); [|exact IH].
      rewrite par_set_at by exact Hg. destruct (N.eqb_spec y x); [contradiction|exact Hp].
Qed.

(* roots are preserved from s to s' (and the key set is the same) *)
Definition pres (s s' : uf) : Prop := keys s' = keys s /\ forall y r, Rt s y r -> Rt s' y r.

Lemma pres_refl s : pres s s.
Proof. split; auto. Qed.

Lemma pres_trans a b c : pres a b -> pres b c -> pres a c.
Proof. intros [K1 P1] [K2 P2]. split; [congruence|auto]. Qed.

Lemma pres_forest s s' : forest s -> pres s s' -> forest s'.
Proof. intros F [_ P] x. destruct (F x) as [r Hr]. exists r. apply P, Hr. Qed.

Lemma pres_back s s' : forest s -> pres s s' -> forall y r, Rt s' y r -> Rt s y r.
Proof.
  intros F [_ P] y r Hr. destruct (F y) as [r0 H0].
  assert (r0 = r) by (apply (rt_det s' y); [apply P, H0|exact Hr]). subst. exact H0.
Qed.

Lemma pres_same s s' : forest s -> pres s s' -> forall x y, SameRoot s x y <-> SameRoot s' x y.
Proof.
  intros F P x y. split; intros [r [H1 H2]]; exists r.
  - split; apply (proj2 P); assumption.
  - split; apply (pres_back s s' F P); assumption.
Qed.

Lemma pres_len s s' : pres s s' -> length s' = length s.
Proof. intros [K _]. rewrite <- (map_length fst s'), <- (map_length fst s). unfold keys in K. congruence. Qed.

(* second loop: path compression; c is the current map, s the one the loop started with *)
Lemma compress_ok s r : forall l x, RootP s x r l ->
  forall c fuel,
    (forall y ly, RootP s y r ly -> length ly <= length l -> get y c = get y s) ->
    pres s c -> length l < fuel ->
    exists c', compress fuel c x r = Ok c' /\ pres s c'.
Proof.
  intros l x H. induction H as [r Hr|x p r l Hp Hne Hr IH]; intros c fuel Hun Hpres Hf.
  - destruct fuel as [|f]; [cbn in Hf; lia|]. cbn [compress]. rewrite N.eqb_refl. eauto.
  - destruct fuel as [|f]; [cbn in Hf; lia|]. cbn [compress].
    assert (Hx : RootP s x r (x :: l)) by (econstructor; eassumption).
    assert (Hxr : x <> r).
    { intros ->. apply rootp_root in Hr. congruence. }
    destruct (N.eqb_spec x r) as [|_]; [contradiction|].
    assert (Gx : get x c = Some p).
    { rewrite (Hun x (x :: l) Hx (le_n _)). exact (par_get _ _ _ Hp Hne). }
    rewrite Gx.
    apply IH.
    + intros y ly Hy Hl. rewrite get_set_at.
      destruct (N.eqb_spec y x) as [->|_].
      * exfalso. destruct (rootp_det _ _ _ _ Hy _ _ Hx) as [_ ->]. cbn in Hl. lia.
      * apply (Hun y ly); [exact Hy|cbn; lia].
    + split.
      * rewrite keys_set_at. exact (proj1 Hpres).
      * intros y ry Hy. apply set_root_preserves.
        -- apply (proj2 Hpres). exists (x :: l). exact Hx.
        -- exact Hxr.
        -- congruence.
        -- apply (proj2 Hpres), Hy.
    + cbn in Hf. lia.
Qed.

(* find on a forest: the root, a compressed map with the same roots; any fuel beyond the
   length of the path works, in particular anything >= |map| + 1 *)
Lemma find_ok s x r l : RootP s x r l -> forall fuel, length l < fuel ->
  exists s', find fuel s x = Ok (r, s') /\ pres s s'.
Proof.
  intros H fuel Hf. unfold find.
  rewrite (find_root_ok s x r l H l x H (le_n _) fuel Hf). cbn [bind fst snd].
  destruct (compress_ok s r l x H s fuel (fun _ _ _ _ => eq_refl) (pres_refl s) Hf) as [c' [Hc Hp]].
  rewrite Hc. cbn [bind]. eauto.
Qed.

Theorem find_terminates s x fuel : forest s -> length s < fuel ->
  exists r s', find fuel s x = Ok (r, s') /\ Rt s x r /\ pres s s'.
Proof.
  intros F Hf. destruct (F x) as [r [l H]].
  destruct (find_ok s x r l H fuel) as [s' [Hs Hp]].
  - pose proof (rootp_len _ _ _ _ H). lia.
  - exists r, s'. repeat split; try assumption; try exact (proj1 Hp); try exact (proj2 Hp).
    exists l. exact H.
Qed.

Lemma find_d s x : forest s ->
  exists r s', find (dfuel s) s x = Ok (r, s') /\ Rt s x r /\ pres s s'.
Proof. intros F. apply find_terminates; [exact F|unfold dfuel; lia]. Qed.

(* ================================================================== same *)
Lemma sameroot_iff s x y rx ry : Rt s x rx -> Rt s y ry -> (SameRoot s x y <-> rx = ry).
Proof.
  intros Hx Hy. split.
  - intros [r [H1 H2]]. rewrite (rt_det _ _ _ _ Hx H1), (rt_det _ _ _ _ Hy H2). reflexivity.
  - intros <-. exists rx. auto.
Qed.

Lemma same_spec s x y : forest s ->
  exists s' b, same s x y = Ok (s', b) /\ pres s s' /\ (b = true <-> SameRoot s x y).
Proof.
  intros F. unfold same. destruct (N.eqb_spec x y) as [->|Hne].
  - exists s, true. split; [reflexivity|]. split; [apply pres_refl|]. split; [|reflexivity].
    intros _. destruct (F y) as [r Hr]. exists r. auto.
  - destruct (find_d s x F) as [ra [s1 [E1 [Ra P1]]]]. rewrite E1. cbn [bind fst snd].
    pose proof (pres_forest _ _ F P1) as F1.
    destruct (find_d s1 y F1) as [rb [s2 [E2 [Rb P2]]]]. rewrite E2. cbn [bind fst snd].
    exists s2, (N.eqb ra rb). split; [reflexivity|]. split; [eapply pres_trans; eassumption|].
    apply (pres_back s s1 F P1) in Rb.
    rewrite N.eqb_eq. symmetry. apply sameroot_iff; assumption.
Qed.

(* same does not depend on path compression: a find anywhere leaves every answer unchanged *)
Theorem same_compression_indep s z fuel r s' : forest s -> find fuel s z = Ok (r, s') ->
  length s < fuel ->
  forall x y, exists s1 s2 b, same s x y = Ok (s1, b) /\ same s' x y = Ok (s2, b).
Proof.
  intros F Hf Hl x y.
  destruct (find_terminates s z fuel F Hl) as [r0 [s0 [E0 [_ P0]]]].
  rewrite E0 in Hf. inversion Hf; subst r0 s0.
  destruct (same_spec s x y F) as [s1 [b1 [E1 [_ B1]]]].
  destruct (same_spec s' x y (pres_forest _ _ F P0)) as [s2 [b2 [E2 [_ B2]]]].
  exists s1, s2, b1. split; [exact E1|]. rewrite E2. f_equal. f_equal.
  rewrite <- (pres_same s s' F P0) in B2. destruct b1, b2; intuition congruence.
Qed.

(* ================================================================== union *)
Lemma get_map_put (s : uf) k v y :
  get y (map_put s (k, v)) = if N.eqb y k then Some v else get y s.
Proof.
  unfold map_put. cbn [fst snd]. destruct (get k s) as [w|] eqn:G.
  - rewrite get_set_at, G. reflexivity.
  - rewrite get_app. cbn [get]. destruct (N.eqb_spec y k) as [->|_].
    + rewrite G. reflexivity.
    + destruct (get y s); reflexivity.
Qed.

Lemma par_map_put s k v y : par (map_put s (k, v)) y = if N.eqb y k then v else par s y.
Proof. unfold par. rewrite get_map_put. destruct (N.eqb y k); reflexivity. Qed.

Lemma keys_map_put_nodup (s : uf) k v : NoDup (keys s) -> NoDup (keys (map_put s (k, v))).
Proof.
  intros Hn. unfold map_put. cbn [fst snd]. destruct (get k s) eqn:G.
  - rewrite keys_set_at. exact Hn.
  - rewrite keys_app. cbn. apply NoDup_snoc; [exact Hn|]. apply get_None. exact G.
Qed.

(* hanging the root rb below the root ra *)
Lemma link_roots s ra rb : par s ra = ra -> par s rb = rb -> ra <> rb ->
  forall y ry, Rt s y ry -> Rt (map_put s (rb, ra)) y (if N.eqb ry rb then ra else ry).
Proof.
  intros Ha Hb Hne y ry [l H]. induction H as [ry Hry|y p ry l Hp Hpy Hr IH].
  - destruct (N.eqb_spec ry rb) as [->|Hn].
    + apply rt_step with (p := ra).
      * rewrite par_map_put, N.eqb_refl. reflexivity.
      * exists []. constructor. rewrite par_map_put.
        destruct (N.eqb_spec ra rb); [contradiction|exact Ha].
    + exists []. constructor. rewrite par_map_put.
      destruct (N.eqb_spec ry rb); [contradiction|exact Hry].
  - apply rt_step with (p := p); [|exact IH]. rewrite par_map_put.
    destruct (N.eqb_spec y rb) as [->|_]; [congruence|exact Hp].
Qed.

Definition linked (S : N -> N -> Prop) (a b x y : N) : Prop :=
  S x y \/ (S x a /\ S b y) \/ (S x b /\ S a y).

Lemma sameroot_refl s x : forest s -> SameRoot s x x.
Proof. intros F. destruct (F x) as [r Hr]. exists r. auto. Qed.

Lemma sameroot_sym s x y : SameRoot s x y -> SameRoot s y x.
Proof. intros [r [H1 H2]]. exists r. auto. Qed.

Lemma sameroot_trans s x y z : SameRoot s x y -> SameRoot s y z -> SameRoot s x z.
Proof.
  intros [r [H1 H2]] [r' [H3 H4]]. rewrite (rt_det _ _ _ _ H3 H2) in H4. exists r. auto.
Qed.

Lemma union_spec s a b : forest s -> NoDup (keys s) ->
  exists s' f, union s a b = Ok (s', f) /\ forest s' /\ NoDup (keys s') /\
    (f = false <-> SameRoot s a b) /\
    forall x y, SameRoot s' x y <-> linked (SameRoot s) a b x y.
Proof.
  intros F Nk. unfold union.
  destruct (find_d s a F) as [ra [s1 [E1 [Ra P1]]]]. rewrite E1. cbn [bind fst snd].
  pose proof (pres_forest _ _ F P1) as F1.
  destruct (find_d s1 b F1) as [rb [s2 [E2 [Rb P2]]]]. rewrite E2. cbn [bind fst snd].
  pose proof (pres_trans _ _ _ P1 P2) as P. pose proof (pres_forest _ _ F P) as F2.
  apply (pres_back s s1 F P1) in Rb.
  assert (Nk2 : NoDup (keys s2)) by (rewrite (proj1 P); exact Nk).
  pose proof (sameroot_iff s a b ra rb Ra Rb) as SI.
  destruct (N.eqb_spec ra rb) as [Heq|Hne].
  - exists s2, false. split; [reflexivity|]. split; [exact F2|]. split; [exact Nk2|].
    split; [tauto|]. intros x y. rewrite <- (pres_same s s2 F P). unfold linked. split; [tauto|].
    assert (Sab : SameRoot s a b) by tauto.
    intros [H|[[H1 H2]|[H1 H2]]]; [exact H| |].
    + eapply sameroot_trans; [exact H1|]. eapply sameroot_trans; [exact Sab|exact H2].
    + eapply sameroot_trans; [exact H1|]. eapply sameroot_trans; [apply sameroot_sym, Sab|exact H2].
  - exists (map_put s2 (rb, ra)), true. split; [reflexivity|].
    assert (Pa : par s2 ra = ra).
    { apply (proj2 P) in Ra. destruct Ra as [l H]. exact (rootp_root _ _ _ _ H). }
    assert (Pb : par s2 rb = rb).
    { apply (proj2 P) in Rb. destruct Rb as [l H]. exact (rootp_root _ _ _ _ H). }
    pose proof (link_roots s2 ra rb Pa Pb Hne) as LK.
    assert (F3 : forest (map_put s2 (rb, ra))).
    { intros x. destruct (F2 x) as [r Hr]. eexists. apply LK, Hr. }
    split; [exact F3|]. split; [apply keys_map_put_nodup, Nk2|].
    split; [split; [discriminate|intros H; apply SI in H; contradiction]|].
    intros x y. destruct (F x) as [rx Hx]. destruct (F y) as [ry Hy].
    pose proof (LK x rx (proj2 P _ _ Hx)) as Lx. pose proof (LK y ry (proj2 P _ _ Hy)) as Ly.
    rewrite (sameroot_iff _ x y _ _ Lx Ly). unfold linked.
    rewrite (sameroot_iff s x y rx ry Hx Hy), (sameroot_iff s x a rx ra Hx Ra),
      (sameroot_iff s b y rb ry Rb Hy), (sameroot_iff s x b rx rb Hx Rb),
      (sameroot_iff s a y ra ry Ra Hy).
    destruct (N.eqb_spec rx rb), (N.eqb_spec ry rb); subst; intuition congruence.
Qed.

(* ================================================================== equivalence closure *)
Inductive EqCl (P : list (N * N)) : N -> N -> Prop :=
| ec_base a b : In (a, b) P -> EqCl P a b
| ec_refl a : EqCl P a a
| ec_sym a b : EqCl P a b -> EqCl P b a
| ec_trans a b c : EqCl P a b -> EqCl P b c -> EqCl P a c.

Lemma eqcl_mono (A : list (N * N)) (R : N -> N -> Prop) :
  (forall a b, In (a, b) A -> R a b) -> (forall a, R a a) -> (forall a b, R a b -> R b a) ->
  (forall a b c, R a b -> R b c -> R a c) -> forall x y, EqCl A x y -> R x y.
Proof. intros Hb Hr Hs Ht x y H. induction H; eauto. Qed.

Lemma eqcl_incl A B : incl A B -> forall x y, EqCl A x y -> EqCl B x y.
Proof.
  intros I. apply eqcl_mono.
  - intros a b Hi. apply ec_base, I, Hi.
  - apply ec_refl.
  - apply ec_sym.
  - apply ec_trans.
Qed.

(* the invariant of every reachable union-find value: a forest (with distinct keys) whose
   root classes are exactly the classes of the equivalence closure of the pairs unioned in *)
Definition Inv (s : uf) (P : list (N * N)) : Prop :=
  forest s /\ NoDup (keys s) /\ forall x y, SameRoot s x y <-> EqCl P x y.

Lemma inv_pres s s' P : Inv s P -> pres s s' -> Inv s' P.
Proof.
  intros [F [Nk C]] Pr. split; [exact (pres_forest _ _ F Pr)|]. split.
  - rewrite (proj1 Pr). exact Nk.
  - intros x y. rewrite <- (pres_same s s' F Pr). apply C.
Qed.

Lemma union_inv s P a b : Inv s P ->
  exists s' f, union s a b = Ok (s', f) /\ Inv s' ((a, b) :: P) /\ (f = false <-> EqCl P a b).
Proof.
  intros [F [Nk C]]. destruct (union_spec s a b F Nk) as [s' [f [E [F' [Nk' [Fl L]]]]]].
  exists s', f. split; [exact E|]. split; [|rewrite <- C; exact Fl].
  split; [exact F'|]. split; [exact Nk'|]. intros x y. rewrite L. unfold linked. split.
  - assert (M : forall u v, SameRoot s u v -> EqCl ((a, b) :: P) u v).
    { intros u v H. apply C in H. revert H. apply eqcl_incl. intros z Hz. right. exact Hz. }
    assert (AB : EqCl ((a, b) :: P) a b) by (apply ec_base; left; reflexivity).
    intros [H|[[H1 H2]|[H1 H2]]].
    + apply M, H.
    + eapply ec_trans; [apply M, H1|]. eapply ec_trans; [exact AB|apply M, H2].
    + eapply ec_trans; [apply M, H1|]. eapply ec_trans; [apply ec_sym, AB|apply M, H2].
  - pose proof (sameroot_refl s) as Rf. pose proof (sameroot_sym s) as Sy.
    pose proof (sameroot_trans s) as Tr.
    intros Hcl. revert x y Hcl.
    apply (eqcl_mono ((a, b) :: P) (linked (SameRoot s) a b)); unfold linked.
    + intros u v [Hi|Hi].
      * inversion Hi; subst. right. left. split; apply Rf, F.
      * left. apply C. apply ec_base, Hi.
    + intros u. left. apply Rf, F.
    + intros u v [H|[[H1 H2]|[H1 H2]]].
      * left. auto.
      * right. right. split; auto.
      * right. left. split; auto.
    + intros u v w [H|[[H1 H2]|[H1 H2]]] [G|[[G1 G2]|[G1 G2]]].
      * left. eauto.
      * right. left. split; eauto.
      * right. right. split; eauto.
      * right. left. split; eauto.
      * right. left. split; eauto.
      * left. apply Tr with (y := a); [exact H1|exact G2].
      * right. right. split; eauto.
      * left. apply Tr with (y := b); [exact H1|exact G2].
      * right. right. split; eauto.
Qed.
