(* E1 proofs: scalars (ord.rs), unit, conflict *)
From HV Require Import Lattice.Model.
From Coq Require Import ZifyBool ZifyN.

Local Ltac t :=
  unfold W, E, Le, m, ch, Total, TopLaw, in_range in *; cbn in *; intros.

Lemma max_laws top : LatLaws (max_ops top).
Proof.
  split; t.
  - apply N.eqb_refl.
  - rewrite N.eqb_sym; assumption.
  - apply N.eqb_eq in H2, H3. apply N.eqb_eq. congruence.
  - destruct (N.ltb a b); cbn; assumption.
  - apply N.eqb_eq in H3, H4; subst. apply N.eqb_refl.
  - rewrite N.ltb_irrefl. cbn. apply N.eqb_refl.
  - destruct (N.ltb_spec a b), (N.ltb_spec b a); cbn; apply N.eqb_eq; lia.
  - destruct (N.ltb_spec a b), (N.ltb_spec b c); cbn;
      repeat match goal with |- context [N.ltb ?x ?y] => destruct (N.ltb_spec x y); cbn end;
      apply N.eqb_eq; lia.
  - destruct (N.ltb_spec a b); cbn; [|rewrite N.eqb_refl; reflexivity].
    destruct (N.eqb_spec b a); cbn; [lia|reflexivity].
  - destruct (N.ltb_spec a b), (N.ltb_spec b a); cbn; f_equal; try lia.
    + apply N.compare_lt_iff; assumption.
    + apply N.compare_gt_iff; assumption.
    + apply N.compare_eq_iff; lia.
  - split.
    + intros Hb b Wb. apply N.eqb_eq in Hb; subst.
      destruct (N.ltb_spec b 0); cbn; [lia|apply N.eqb_refl].
    + intros Hb. specialize (Hb 0%N).
      assert (W0 : match top with Some t0 => N.leb 0 t0 | None => true end = true)
        by (destruct top; [apply N.leb_le; lia|reflexivity]).
      specialize (Hb W0). destruct (N.ltb_spec 0 a); cbn in Hb; apply N.eqb_eq; [|lia].
      apply N.eqb_eq in Hb. lia.
Qed.

Lemma max_total top : Total (max_ops top).
Proof. t. discriminate. Qed.

Lemma max_toplaw top : TopLaw (max_ops top).
Proof.
  intros a Wa. unfold W, Le, E, m in *. cbn in *. unfold in_range in *. destruct top as [tp|].
  - split.
    + intros Ht b Wb. apply N.eqb_eq in Ht; subst. apply N.leb_le in Wb.
      destruct (N.ltb_spec tp b); cbn; [lia|apply N.eqb_refl].
    + intros Ht. specialize (Ht tp (N.leb_refl tp)). apply N.leb_le in Wa.
      destruct (N.ltb_spec a tp); cbn in Ht; apply N.eqb_eq; [|lia].
      apply N.eqb_eq in Ht. lia.
  - split; [discriminate|]. intros Ht. specialize (Ht (a + 1)%N Logic.eq_refl).
    destruct (N.ltb_spec a (a + 1)); cbn in Ht; [|lia]. apply N.eqb_eq in Ht. lia.
Qed.
