(* E1 proofs: scalars (ord.rs), unit, conflict *)
From HV Require Import Lattice.Model.
From Coq Require Import ZifyBool ZifyN.

Local Ltac t :=
  unfold W, E, Le, m, ch, Total, TopLaw, in_range in *; cbn in *; intros.

Lemma max_laws top : LatLaws (max_ops top).
Proof.
  split; t.
  - apply N.eqb_refl.
  - rewrite N.eqb_sym; assumption.
  - apply N.eqb_eq in H2, H3. apply N.eqb_eq. congruence.
  - destruct (N.ltb a b); cbn; assumption.
  - apply N.eqb_eq in H3, H4; subst. apply N.eqb_refl.
  - rewrite N.ltb_irrefl. cbn. apply N.eqb_refl.
  - destruct (N.ltb_spec a b), (N.ltb_spec b a); cbn; apply N.eqb_eq; lia.
  - destruct (N.ltb_spec a b), (N.ltb_spec b c); cbn;
      repeat match goal with |- context [N.ltb ?x ?y] => destruct (N.ltb_spec x y); cbn end;
      apply N.eqb_eq; lia.
  - destruct (N.ltb_spec a b); cbn; [|rewrite N.eqb_refl; reflexivity].
    destruct (N.eqb_spec b a); cbn; [lia|reflexivity].
  - destruct (N.ltb_spec a b), (N.ltb_spec b a); cbn; f_equal; try lia.
    + apply N.compare_lt_iff; assumption.
    + apply N.compare_gt_iff; assumption.
    + apply N.compare_eq_iff; lia.
  - split.
    + intros Hb b Wb. apply N.eqb_eq in Hb; subst.
      destruct (N.ltb_spec b 0); cbn; [lia|apply N.eqb_refl].
    + intros Hb. specialize (Hb 0%N).
      assert (W0 : match top with Some t0 => N.leb 0 t0 | None => true end = true)
        by (destruct top; [apply N.leb_le; lia|reflexivity]).
      specialize (Hb W0). destruct (N.ltb_spec 0 a); cbn in Hb; apply N.eqb_eq; [|lia].
      apply N.eqb_eq in Hb. lia.
  - exists 0%N. destruct top; [apply N.leb_le; lia|reflexivity].
Qed.

Lemma max_total top : Total (max_ops top).
Proof. t. discriminate. Qed.

Lemma max_toplaw top : TopLaw (max_ops top).
Proof.
  intros a Wa. unfold W, Le, E, m in *. cbn in *. unfold in_range in *. destruct top as [tp|].
  - split.
    + intros Ht b Wb. apply N.eqb_eq in Ht; subst. apply N.leb_le in Wb.
      destruct (N.ltb_spec tp b); cbn; [lia|apply N.eqb_refl].
    + intros Ht. specialize (Ht tp (N.leb_refl tp)). apply N.leb_le in Wa.
      destruct (N.ltb_spec a tp); cbn in Ht; apply N.eqb_eq; [|lia].
      apply N.eqb_eq in Ht. lia.
  - split; [discriminate|]. intros Ht. specialize (Ht (a + 1)%N Logic.eq_refl).
    destruct (N.ltb_spec a (a + 1)); cbn in Ht; [|lia]. apply N.eqb_eq in Ht. lia.
Qed.

Lemma min_laws top : LatLaws (min_ops top).
Proof.
  split; t.
  - apply N.eqb_refl.
  - rewrite N.eqb_sym; assumption.
  - apply N.eqb_eq in H2, H3. apply N.eqb_eq. congruence.
  - destruct (N.ltb b a); cbn; assumption.
  - apply N.eqb_eq in H3, H4; subst. apply N.eqb_refl.
  - rewrite N.ltb_irrefl. cbn. apply N.eqb_refl.
  - destruct (N.ltb_spec a b), (N.ltb_spec b a); cbn; apply N.eqb_eq; lia.
  - destruct (N.ltb_spec b a), (N.ltb_spec c b); cbn;
      repeat match goal with |- context [N.ltb ?x ?y] => destruct (N.ltb_spec x y); cbn end;
      apply N.eqb_eq; lia.
  - destruct (N.ltb_spec b a); cbn; [|rewrite N.eqb_refl; reflexivity].
    destruct (N.eqb_spec b a); cbn; [lia|reflexivity].
  - destruct (N.ltb_spec b a), (N.ltb_spec a b); cbn; f_equal; try lia.
    + rewrite (proj2 (N.compare_gt_iff a b)); [reflexivity|assumption].
    + rewrite (proj2 (N.compare_lt_iff a b)); [reflexivity|assumption].
    + rewrite (proj2 (N.compare_eq_iff a b)); [reflexivity|lia].
  - destruct top as [tp|].
    + split.
      * intros Hb b Wb. apply N.eqb_eq in Hb; subst. apply N.leb_le in Wb.
        destruct (N.ltb_spec tp b); cbn; [|apply N.eqb_refl]. apply N.eqb_eq. lia.
      * intros Hb. specialize (Hb tp (N.leb_refl tp)). apply N.leb_le in H.
        destruct (N.ltb_spec a tp); cbn in Hb; apply N.eqb_eq; [|lia].
        apply N.eqb_eq in Hb. lia.
    + split; [discriminate|]. intros Hb. specialize (Hb (a + 1)%N Logic.eq_refl).
      destruct (N.ltb_spec a (a + 1)); cbn in Hb; [|lia]. apply N.eqb_eq in Hb. lia.
  - exists 0%N. destruct top; [apply N.leb_le; lia|reflexivity].
Qed.

Lemma min_total top : Total (min_ops top).
Proof. t. discriminate. Qed.

Lemma min_toplaw top : TopLaw (min_ops top).
Proof.
  intros a Wa. unfold W, Le, E, m in *. cbn in *. split.
  - intros Ht b Wb. apply N.eqb_eq in Ht; subst.
    destruct (N.ltb_spec b 0); cbn; apply N.eqb_eq; lia.
  - intros Ht. assert (W0 : in_range top 0 = true)
      by (unfold in_range; destruct top; [apply N.leb_le; lia|reflexivity]).
    specialize (Ht 0%N W0). destruct (N.ltb_spec 0 a); cbn in Ht; apply N.eqb_eq; [|lia].
    apply N.eqb_eq in Ht. lia.
Qed.

Lemma unit_laws : LatLaws unit_ops.
Proof.
  split; t; try reflexivity.
  - split; [reflexivity|]. intros; reflexivity.
  - exists tt. reflexivity.
Qed.

Lemma unit_total : Total unit_ops.
Proof. t. discriminate. Qed.

Lemma unit_toplaw : TopLaw unit_ops.
Proof. intros a Wa. unfold Le, E, m. cbn. split; reflexivity. Qed.

Lemma conflict_laws : LatLaws conflict_ops.
Proof.
  split; t.
  - destruct a; [apply N.eqb_refl|reflexivity].
  - destruct a, b; try assumption; try discriminate. rewrite N.eqb_sym. assumption.
  - destruct a, b, c; try assumption; try discriminate.
    apply N.eqb_eq in H2, H3. apply N.eqb_eq. congruence.
  - reflexivity.
  - destruct a as [x|], a' as [x'|], b as [y|], b' as [y'|]; try discriminate; cbn; try reflexivity.
    apply N.eqb_eq in H3, H4. subst.
    destruct (N.eqb x' y'); cbn; [apply N.eqb_refl|reflexivity].
  - destruct a as [x|]; cbn; [|reflexivity]. rewrite N.eqb_refl. cbn. apply N.eqb_refl.
  - destruct a as [x|], b as [y|]; cbn; try reflexivity.
    rewrite (N.eqb_sym y x). destruct (N.eqb_spec x y); cbn; [|reflexivity].
    subst. apply N.eqb_refl.
  - destruct a as [x|], b as [y|], c as [z|]; cbn; try reflexivity.
    + destruct (N.eqb_spec x y) as [e1|n1]; cbn;
      destruct (N.eqb_spec y z) as [e2|n2]; cbn;
      repeat match goal with |- context [N.eqb ?p ?q] => destruct (N.eqb_spec p q); cbn end;
      try reflexivity; try congruence.
    + destruct (N.eqb x y); reflexivity.
  - destruct a as [x|], b as [y|]; cbn; try reflexivity.
    destruct (N.eqb_spec x y); cbn; [rewrite N.eqb_refl|]; reflexivity.
  - destruct a as [x|], b as [y|]; cbn; try reflexivity.
    rewrite (N.eqb_sym y x). destruct (N.eqb x y); reflexivity.
  - split; [discriminate|]. intros Hb. exfalso.
    destruct a as [x|].
    + specialize (Hb (Some (x + 1)%N) Logic.eq_refl). cbn in Hb.
      destruct (N.eqb_spec (x + 1) x); cbn in Hb; [lia|discriminate].
    + specialize (Hb (Some 0%N) Logic.eq_refl). cbn in Hb. discriminate.
  - exists None. reflexivity.
Qed.

Lemma conflict_toplaw : TopLaw conflict_ops.
Proof.
  intros a Wa. unfold W, Le, E, m in *. cbn in *. split.
  - intros Ht b Wb. destruct a; [discriminate|]. reflexivity.
  - intros Ht. destruct a as [x|]; [|reflexivity].
    specialize (Ht None Logic.eq_refl). cbn in Ht. discriminate.
Qed.
