(* E1 Lattice engine -- executable models of the lattice constructors in
   /repo/lattices/src, transcribed impl by impl.  Definitions only (no proofs) so the
   correspondence check still runs when a proof breaks.

   Carriers.  Every hash/btree/vec/array/singleton/option backed set is a [list N]
   (insertion order; the representation only restricts [wf] and which side of a merge
   it may appear on); every map is an association list. *)
From HV Require Export Lattice.Base.
Set Implicit Arguments.

Arguments N.add : simpl never.
Arguments N.sub : simpl never.
Arguments N.eqb : simpl never.
Arguments N.ltb : simpl never.
Arguments N.leb : simpl never.
Arguments N.compare : simpl never.

(* ---------------------------------------------------------------- scalars: ord.rs *)
(* [top] is the scalar type's MAX (Some 255 for u8, Some 1 for bool, None = unbounded) *)
Definition in_range (top : option N) (v : N) : bool :=
  match top with Some t => N.leb v t | None => true end.

Definition max_ops (top : option N) : LatOps N := {|
  wf := in_range top;
  mrg := fun a b => if N.ltb a b then (b, true) else (a, false);
  cmp := fun a b => Some (N.compare a b);
  eqb := N.eqb;
  isbot := fun a => N.eqb a 0;
  istop := fun a => match top with Some t => N.eqb a t | None => false end;
|}.

Definition min_ops (top : option N) : LatOps N := {|
  wf := in_range top;
  mrg := fun a b => if N.ltb b a then (b, true) else (a, false);
  cmp := fun a b => Some (CompOpp (N.compare a b));
  eqb := N.eqb;
  isbot := fun a => match top with Some t => N.eqb a t | None => false end;
  istop := fun a => N.eqb a 0;
|}.

(* ---------------------------------------------------------------- unit.rs *)
Definition unit_ops : LatOps unit := {|
  wf := fun _ => true;
  mrg := fun a _ => (a, false);
  cmp := fun _ _ => Some Eq;   (* derived PartialOrd on () *)
  eqb := fun _ _ => true;
  isbot := fun _ => true;
  istop := fun _ => true;
|}.

(* ---------------------------------------------------------------- set_union.rs *)
Definition mem (x : N) (l : list N) : bool := existsb (N.eqb x) l.

Fixpoint nodupb (l : list N) : bool :=
  match l with
  | [] => true
  | x :: r => negb (mem x r) && nodupb r
  end.

(* Extend::extend into a set: insert each element unless already present *)
Definition set_insert (acc : list N) (x : N) : list N :=
  if mem x acc then acc else acc ++ [x].
Definition set_extend (a b : list N) : list N := fold_left set_insert b a.

Definition lenN {A} (l : list A) : N := N.of_nat (length l).

Definition set_cmp (a b : list N) : option comparison :=
  match N.compare (lenN a) (lenN b) with
  | Gt => if forallb (fun k => mem k a) b then Some Gt else None
  | Eq => if forallb (fun k => mem k b) a then Some Eq else None
  | Lt => if forallb (fun k => mem k b) a then Some Lt else None
  end.

Definition set_eqb (a b : list N) : bool :=
  N.eqb (lenN a) (lenN b) && forallb (fun k => mem k b) a.

Definition set_ops : LatOps (list N) := {|
  wf := nodupb;
  mrg := fun a b => let r := set_extend a b in (r, N.ltb (lenN a) (lenN r));
  cmp := set_cmp;
  eqb := set_eqb;
  isbot := fun a => match a with [] => true | _ => false end;
  istop := fun _ => false;
|}.

(* ---------------------------------------------------------------- map_union.rs *)
Section MapOps.
  Variable V : Type.
  Variable LV : LatOps V.

  Fixpoint get (k : N) (mp : list (N * V)) : option V :=
    match mp with
    | [] => None
    | (k', v) :: r => if N.eqb k k' then Some v else get k r
    end.

  Fixpoint set_at (k : N) (v : V) (mp : list (N * V)) : list (N * V) :=
    match mp with
    | [] => []
    | (k', v') :: r => if N.eqb k k' then (k', v) :: r else (k', v') :: set_at k v r
    end.

  Definition keys (mp : list (N * V)) : list N := map fst mp.

  (* Extend::extend of a map: insert or overwrite *)
  Definition map_put (acc : list (N * V)) (kv : N * V) : list (N * V) :=
    match get (fst kv) acc with
    | Some _ => set_at (fst kv) (snd kv) acc
    | None => acc ++ [kv]
    end.

  (* Merge::merge: filter non-bottom, merge in place where the key exists (get_mut),
     collect the others, then extend.  State: (self, changed, collected) *)
  Definition map_merge_step (st : list (N * V) * bool * list (N * V)) (kv : N * V)
    : list (N * V) * bool * list (N * V) :=
    let '(self, changed, news) := st in
    let '(k, v) := kv in
    if isbot LV v then st
    else match get k self with
         | Some vs => let r := mrg LV vs v in (set_at k (fst r) self, changed || snd r, news)
         | None => (self, true, news ++ [(k, v)])
         end.

  Definition map_merge (a b : list (N * V)) : list (N * V) * bool :=
    let '(self, changed, news) := fold_left map_merge_step b (a, false, []) in
    (fold_left map_put news self, changed).

  Definition nonbot_keys (mp : list (N * V)) : list N :=
    map fst (filter (fun kv => negb (isbot LV (snd kv))) mp).

  (* partial_cmp loop with its early returns; flags = (self_any_greater, other_any_greater) *)
  Fixpoint map_cmp_go (a b : list (N * V)) (ks : list N) (sg og : bool) : option comparison :=
    match ks with
    | [] => match sg, og with
            | true, false => Some Gt
            | false, true => Some Lt
            | false, false => Some Eq
            | true, true => None (* unreachable!() in the code *)
            end
    | k :: ks' =>
      let step (sg' og' : bool) :=
        if sg' && og' then None else map_cmp_go a b ks' sg' og' in
      match get k a, get k b with
      | Some va, Some vb =>
        match cmp LV va vb with
        | None => None
        | Some Lt => step sg true
        | Some Gt => step true og
        | Some Eq => step sg og
        end
      | Some _, None => step true og
      | None, Some _ => step sg true
      | None, None => None (* unreachable!() in the code *)
      end
    end.

  Definition map_cmp (a b : list (N * V)) : option comparison :=
    map_cmp_go a b (nonbot_keys a ++ nonbot_keys b) false false.

  Fixpoint map_eq_go (a b : list (N * V)) (ks : list N) : bool :=
    match ks with
    | [] => true
    | k :: ks' =>
      match get k a, get k b with
      | Some va, Some vb => if eqb LV va vb then map_eq_go a b ks' else false
      | _, _ => false
      end
    end.

  Definition map_eqb (a b : list (N * V)) : bool :=
    map_eq_go a b (nonbot_keys a ++ nonbot_keys b).

  Definition map_ops : LatOps (list (N * V)) := {|
    wf := fun mp => nodupb (keys mp) && forallb (fun kv => wf LV (snd kv)) mp;
    mrg := map_merge;
    cmp := map_cmp;
    eqb := map_eqb;
    isbot := fun mp => forallb (fun kv => isbot LV (snd kv)) mp;
    istop := fun _ => false;
  |}.
End MapOps.

(* ---------------------------------------------------------------- with_bot.rs *)
Section BotOps.
  Variable V : Type.
  Variable LV : LatOps V.

  Definition bot_merge (a b : option V) : option V * bool :=
    match a, b with
    | None, Some vb => if isbot LV vb then (None, false) else (Some vb, true)
    | Some va, Some vb => let r := mrg LV va vb in (Some (fst r), snd r)
    | _, _ => (a, false)
    end.

  Definition bot_cmp (a b : option V) : option comparison :=
    match a, b with
    | None, None => Some Eq
    | None, Some vb => if isbot LV vb then Some Eq else Some Lt
    | Some va, None => if isbot LV va then Some Eq else Some Gt
    | Some va, Some vb => cmp LV va vb
    end.

  Definition bot_eqb (a b : option V) : bool :=
    match a, b with
    | None, None => true
    | None, Some vb => isbot LV vb
    | Some va, None => isbot LV va
    | Some va, Some vb => eqb LV va vb
    end.

  Definition bot_ops : LatOps (option V) := {|
    wf := fun a => match a with None => true | Some v => wf LV v end;
    mrg := bot_merge;
    cmp := bot_cmp;
    eqb := bot_eqb;
    isbot := fun a => match a with None => true | Some v => isbot LV v end;
    istop := fun a => match a with None => false | Some v => istop LV v end;
  |}.

  (* ------------------------------------------------------------ with_top.rs *)
  Definition top_merge (a b : option V) : option V * bool :=
    match a, b with
    | None, None => (None, false)
    | Some _, None => (None, true)
    | None, Some _ => (None, false)
    | Some va, Some vb => let r := mrg LV va vb in (Some (fst r), snd r)
    end.

  Definition top_cmp (a b : option V) : option comparison :=
    match a, b with
    | None, None => Some Eq
    | None, Some _ => Some Gt
    | Some _, None => Some Lt
    | Some va, Some vb => cmp LV va vb
    end.

  Definition top_eqb (a b : option V) : bool :=
    match a, b with
    | None, None => true
    | Some va, Some vb => eqb LV va vb
    | _, _ => false
    end.

  Definition top_ops : LatOps (option V) := {|
    wf := fun a => match a with None => true | Some v => wf LV v end;
    mrg := top_merge;
    cmp := top_cmp;
    eqb := top_eqb;
    isbot := fun a => match a with None => false | Some v => isbot LV v end;
    (* after the fix "WithTop::is_top reports only the adjoined top" *)
    istop := fun a => match a with None => true | Some _ => false end;
  |}.
End BotOps.

(* ---------------------------------------------------------------- conflict.rs (carrier N) *)
Definition conflict_ops : LatOps (option N) := {|
  wf := fun _ => true;
  mrg := fun a b =>
    match a with
    | Some va => match b with
                 | None => (None, true)
                 | Some vb => if N.eqb va vb then (a, false) else (None, true)
                 end
    | None => (None, false)
    end;
  cmp := fun a b =>
    match a, b with
    | None, None => Some Eq
    | None, Some _ => Some Gt
    | Some _, None => Some Lt
    | Some va, Some vb => if N.eqb va vb then Some Eq else None
    end;
  eqb := fun a b =>
    match a, b with
    | None, None => true
    | Some va, Some vb => N.eqb va vb
    | _, _ => false
    end;
  isbot := fun _ => false;
  istop := fun a => match a with None => true | Some _ => false end;
|}.

(* ---------------------------------------------------------------- pair.rs / derive(Lattice) *)
Section PairOps.
  Variables A B : Type.
  Variable LA : LatOps A.
  Variable LB : LatOps B.

  (* derive(LatticeOrd): field by field, `?` on None, early None once both flags set *)
  Definition flag_step (c : option comparison) (sg og : bool) : option (bool * bool) :=
    match c with
    | None => None
    | Some Lt => if sg then None else Some (sg, true)
    | Some Gt => if og then None else Some (true, og)
    | Some Eq => Some (sg, og)
    end.

  Definition pair_cmp (x y : A * B) : option comparison :=
    match flag_step (cmp LA (fst x) (fst y)) false false with
    | None => None
    | Some (sg, og) =>
      match flag_step (cmp LB (snd x) (snd y)) sg og with
      | None => None
      | Some (true, false) => Some Gt
      | Some (false, true) => Some Lt
      | Some (false, false) => Some Eq
      | Some (true, true) => None
      end
    end.

  Definition pair_ops : LatOps (A * B) := {|
    wf := fun x => wf LA (fst x) && wf LB (snd x);
    mrg := fun x y =>
      let ra := mrg LA (fst x) (fst y) in
      let rb := mrg LB (snd x) (snd y) in
      ((fst ra, fst rb), snd ra || snd rb);
    cmp := pair_cmp;
    eqb := fun x y => eqb LA (fst x) (fst y) && eqb LB (snd x) (snd y);
    isbot := fun x => isbot LA (fst x) && isbot LB (snd x);
    istop := fun x => istop LA (fst x) && istop LB (snd x);
  |}.

  (* -------------------------------------------------------------- dom_pair.rs *)
  (* [None] result of the outer option = the `assert!` in the incomparable-key arm failed *)
  Definition dom_merge (x y : A * B) : (A * B) * bool :=
    match cmp LA (fst x) (fst y) with
    | None =>
      let ra := mrg LA (fst x) (fst y) in
      let rb := mrg LB (snd x) (snd y) in
      ((fst ra, fst rb), true)
    | Some Eq => let rb := mrg LB (snd x) (snd y) in ((fst x, fst rb), snd rb)
    | Some Lt => (y, true)
    | Some Gt => (x, false)
    end.

  Definition dom_cmp (x y : A * B) : option comparison :=
    match cmp LA (fst x) (fst y) with
    | Some Eq => cmp LB (snd x) (snd y)
    | other => other
    end.

  Definition dom_ops : LatOps (A * B) := {|
    wf := fun x => wf LA (fst x) && wf LB (snd x);
    mrg := dom_merge;
    cmp := dom_cmp;
    eqb := fun x y => eqb LA (fst x) (fst y) && eqb LB (snd x) (snd y);
    isbot := fun x => isbot LA (fst x) && isbot LB (snd x);
    istop := fun x => istop LA (fst x) && istop LB (snd x);
  |}.
End PairOps.

(* ---------------------------------------------------------------- vec_union.rs *)
Section VecOps.
  Variable V : Type.
  Variable LV : LatOps V.

  (* zip-merge the common prefix; the receiver keeps its own tail *)
  Fixpoint vec_zip_merge (a b : list V) : list V * bool :=
    match a, b with
    | va :: ra, vb :: rb =>
      let r := mrg LV va vb in
      let rr := vec_zip_merge ra rb in
      (fst r :: fst rr, snd r || snd rr)
    | _, _ => (a, false)
    end.

  Definition vec_merge (a b : list V) : list V * bool :=
    let la := length a in
    let ext := Nat.ltb la (length b) in
    (* extend with the drained tail first, then zip over what is left of other *)
    let a' := if ext then a ++ skipn la b else a in
    let b' := if ext then firstn la b else b in
    let r := vec_zip_merge a' b' in
    (fst r, ext || snd r).

  Fixpoint vec_cmp_go (a b : list V) (sg og : bool) : option comparison :=
    match a, b with
    | va :: ra, vb :: rb =>
      match cmp LV va vb with
      | None => None
      | Some c =>
        let sg' := match c with Gt => true | _ => sg end in
        let og' := match c with Lt => true | _ => og end in
        if sg' && og' then None else vec_cmp_go ra rb sg' og'
      end
    | _, _ =>
      match sg, og with
      | true, false => Some Gt
      | false, true => Some Lt
      | false, false => Some Eq
      | true, true => None (* unreachable!() *)
      end
    end.

  Definition vec_cmp (a b : list V) : option comparison :=
    vec_cmp_go a b (Nat.ltb (length b) (length a)) (Nat.ltb (length a) (length b)).

  Fixpoint vec_all2 (a b : list V) : bool :=
    match a, b with
    | va :: ra, vb :: rb => eqb LV va vb && vec_all2 ra rb
    | _, _ => true
    end.

  Definition vec_eqb (a b : list V) : bool :=
    Nat.eqb (length a) (length b) && vec_all2 a b.

  Definition vec_ops : LatOps (list V) := {|
    wf := forallb (wf LV);
    mrg := vec_merge;
    cmp := vec_cmp;
    eqb := vec_eqb;
    isbot := fun a => match a with [] => true | _ => false end;
    istop := fun _ => false;
  |}.
End VecOps.
