(* E1 Lattice engine -- point.rs: a point lattice holds one value; merging / comparing
   inequal values panics (None = panic).  Kept outside the type-code universe because of
   the panic; definitions and their (small) facts. *)
From HV Require Export Lattice.Base.

Definition point_merge (a b : N) : option (N * bool) :=
  if N.eqb a b then Some (a, false) else None.
Definition point_cmp (a b : N) : option (option comparison) :=
  if N.eqb a b then Some (Some Eq) else None.
Definition point_eqb (a b : N) : bool := N.eqb a b.

(* point lattices only ever merge equal values: a merge that does not panic was of equal
   values, changes nothing and reports no change *)
Lemma point_merge_spec a b :
  (a = b -> point_merge a b = Some (a, false)) /\ (a <> b -> point_merge a b = None).
Proof.
  unfold point_merge. destruct (N.eqb_spec a b); split; intros; congruence.
Qed.

(* verdict for a correspondence case: impl = Some (value, changed, cmp_is_equal) or None on panic *)
Definition chk_point (a b : N) (impl : option (N * bool)) : N :=
  let agree := match impl, point_merge a b with
               | None, None => true
               | Some (v, c), Some (v', c') => N.eqb v v' && Bool.eqb c c'
               | _, _ => false
               end in
  let holds := match impl with
               | None => negb (N.eqb a b)                  (* may only refuse inequal values *)
               | Some (v, c) => N.eqb a b && N.eqb v a && negb c
               end in
  ((if agree then 0 else 1) + (if holds then 0 else 2))%N.
