(* E1 proofs: pair.rs / #[derive(Lattice)] (field-wise) and dom_pair.rs *)
From HV Require Import Lattice.Model Lattice.Ord.

Section Pair.
  Variables A B : Type.
  Variable LA : LatOps A.
  Variable LB : LatOps B.
  Hypothesis HA : LatLaws LA.
  Hypothesis HB : LatLaws LB.

  Definition pair_le (x y : A * B) : Prop := Le LA (fst x) (fst y) /\ Le LB (snd x) (snd y).

  Local Ltac unf := unfold W, E, m, ch in *;
    cbn [wf mrg cmp eqb isbot istop pair_ops dom_ops fst snd] in *.

  (* split the wf hypotheses Wx Wy Wz of pairs into named components *)
  Local Ltac sp Hw Ha Hb := apply andb_true_iff in Hw; destruct Hw as [Ha Hb].
  Local Ltac wsplit :=
    try (let h := ident:(Wx) in let a := ident:(Wa) in let b := ident:(Wb) in sp h a b);
    try (let h := ident:(Wy) in let a := ident:(Wa') in let b := ident:(Wb') in sp h a b);
    try (let h := ident:(Wz) in let a := ident:(Wa'') in let b := ident:(Wb'') in sp h a b).

  Lemma pair_ord : OrdLaws (pair_ops LA LB) pair_le.
  Proof.
    split; unfold pair_le.
    - intros [a b] Wx; unf; wsplit. split; apply le_refl; assumption.
    - intros [a b] [a' b'] [a'' b''] Wx Wy Wz [P1 P2] [P3 P4]; unf; wsplit. split.
      + apply le_trans with (b := a'); assumption.
      + apply le_trans with (b := b'); assumption.
    - intros [a b] [a' b'] Wx Wy; unf; wsplit. rewrite andb_true_iff. split.
      + intros [Q1 Q2]. repeat split; apply le_of_eq; auto using (e_sym HA), (e_sym HB).
      + intros [[P1 P2] [P3 P4]]. split; apply le_antisym; assumption.
    - intros [a b] [a' b'] Wx Wy; unf; wsplit. apply andb_true_iff.
      split; [apply (m_wf HA)|apply (m_wf HB)]; assumption.
    - intros [a b] [a' b'] Wx Wy; unf; wsplit. split; apply le_merge_l; assumption.
    - intros [a b] [a' b'] Wx Wy; unf; wsplit. split; apply le_merge_r; assumption.
    - intros [a b] [a' b'] [a'' b''] Wx Wy Wz [P1 P2] [P3 P4]; unf; wsplit.
      split; apply le_lub; assumption.
    - intros [a b] [a' b'] Wx Wy; unf; wsplit. rewrite orb_false_iff.
      pose proof (ch_false_iff HA Wa Wa') as F1. pose proof (ch_false_iff HB Wb Wb') as F2.
      unfold ch in F1, F2. rewrite F1, F2. cbn [fst snd]. reflexivity.
    - intros [a b] [a' b'] Wx Wy; unf; wsplit. unfold pair_cmp. cbn [fst snd].
      rewrite (cmp_spec HA Wa Wa'), (cmp_spec HB Wb Wb'). unfold m, ch.
      destruct (snd (mrg LA a a')), (snd (mrg LA a' a)), (snd (mrg LB b b')), (snd (mrg LB b' b));
        reflexivity.
    - intros [a b] Wx; unf; wsplit. rewrite andb_true_iff. split.
      + intros [B1 B2] [a' b'] Wy; unf; wsplit. split; apply bot_least; assumption.
      + intros Hl. destruct (inh HA) as [a0 Wa0]. destruct (inh HB) as [b0 Wb0]. split.
        * apply (bot_spec HA); [assumption|]. intros a' Wa'.
          refine (proj1 (Hl (a', b0) _)). unf. apply andb_true_iff. split; assumption.
        * apply (bot_spec HB); [assumption|]. intros b' Wb'.
          refine (proj2 (Hl (a0, b') _)). unf. apply andb_true_iff. split; assumption.
    - destruct (inh HA) as [a0 Wa0]. destruct (inh HB) as [b0 Wb0]. exists (a0, b0).
      unf. apply andb_true_iff. split; assumption.
  Qed.

  Theorem pair_laws : LatLaws (pair_ops LA LB).
  Proof. exact (ord_laws pair_ord). Qed.

  Lemma pair_wf_intro a b : W LA a -> W LB b -> W (pair_ops LA LB) (a, b).
  Proof. intros Wa Wb. unf. apply andb_true_iff. split; assumption. Qed.

  Lemma pair_toplaw : TopLaw LA -> TopLaw LB -> TopLaw (pair_ops LA LB).
  Proof.
    intros TLA TLB [a b] Wx. assert (Wx' := Wx). unf. wsplit. rewrite andb_true_iff. split.
    - intros [T1 T2] [a' b'] Wy. apply (o_Le_iff pair_ord); [exact Wy|exact Wx'|].
      unf. wsplit. split; cbn.
      + apply (proj1 (TLA a Wa) T1); assumption.
      + apply (proj1 (TLB b Wb) T2); assumption.
    - intros Hl. destruct (inh HA) as [a0 Wa0]. destruct (inh HB) as [b0 Wb0]. split.
      + apply (TLA a Wa). intros a' Wa'.
        pose proof (pair_wf_intro _ _ Wa' Wb0) as Wy.
        specialize (Hl (a', b0) Wy). apply (o_Le_iff pair_ord) in Hl; [|exact Wy|exact Wx'].
        exact (proj1 Hl).
      + apply (TLB b Wb). intros b' Wb'.
        pose proof (pair_wf_intro _ _ Wa0 Wb') as Wy.
        specialize (Hl (a0, b') Wy). apply (o_Le_iff pair_ord) in Hl; [|exact Wy|exact Wx'].
        exact (proj2 Hl).
  Qed.

  (* ------------------------------------------------------------------ DomPair *)
  Hypothesis TA : Total LA.

  Definition klt (a a' : A) : Prop := Le LA a a' /\ ~ Le LA a' a.
  Definition keq (a a' : A) : Prop := Le LA a a' /\ Le LA a' a.
  Definition dom_le (x y : A * B) : Prop :=
    klt (fst x) (fst y) \/ (keq (fst x) (fst y) /\ Le LB (snd x) (snd y)).

  Lemma Le_dec (a a' : A) : Le LA a a' \/ ~ Le LA a a'.
  Proof. unfold Le, E. destruct (eqb LA (m LA a' a) a'); [left|right]; congruence. Qed.

  Lemma dom_ord : OrdLaws (dom_ops LA LB) dom_le.
  Proof.
    split; unfold dom_le, klt, keq.
    - intros [a b] Wx; unf; wsplit. right. repeat split; apply le_refl; assumption.
    - intros [a b] [a' b'] [a'' b''] Wx Wy Wz; unf; wsplit; cbn [fst snd].
      intros [[L1 N1]|[[L1 L1'] V1]] [[L2 N2]|[[L2 L2'] V2]].
      + left. split; [apply le_trans with (b := a'); assumption|].
        intros C. apply N1. apply le_trans with (b := a''); assumption.
      + left. split; [apply le_trans with (b := a'); assumption|].
        intros C. apply N1. apply le_trans with (b := a''); assumption.
      + left. split; [apply le_trans with (b := a'); assumption|].
        intros C. apply N2. apply le_trans with (b := a); assumption.
      + right. repeat split.
        * apply le_trans with (b := a'); assumption.
        * apply le_trans with (b := a'); assumption.
        * apply le_trans with (b := b'); assumption.
    - intros [a b] [a' b'] Wx Wy; unf; wsplit; cbn [fst snd]. rewrite andb_true_iff. split.
      + intros [Q1 Q2].
        assert (Le LA a a') by (apply le_of_eq; assumption).
        assert (Le LA a' a) by (apply le_of_eq; auto using (e_sym HA)).
        assert (Le LB b b') by (apply le_of_eq; assumption).
        assert (Le LB b' b) by (apply le_of_eq; auto using (e_sym HB)).
        split; right; tauto.
      + intros [[[L1 N1]|[[L1 L1'] V1]] [[L2 N2]|[[L2 L2'] V2]]]; try tauto.
        split; apply le_antisym; assumption.
    - intros [a b] [a' b'] Wx Wy; unf; wsplit. unfold dom_merge. cbn [fst snd].
      destruct (cmp LA a a') as [[]|] eqn:C; cbn [fst snd]; apply andb_true_iff; split;
        try assumption; try (apply (m_wf HA); assumption); try (apply (m_wf HB); assumption).
    - intros [a b] [a' b'] Wx Wy; unf; wsplit. unfold dom_merge. cbn [fst snd].
      pose proof (cmp_cases HA Wa Wa') as C. pose proof (TA a a' Wa Wa') as T.
      destruct (cmp LA a a') as [[]|]; cbn [fst snd]; try tauto.
      + right. repeat split; try (apply le_refl; assumption). apply le_merge_l; assumption.
      + right. repeat split; apply le_refl; assumption.
    - intros [a b] [a' b'] Wx Wy; unf; wsplit. unfold dom_merge. cbn [fst snd].
      pose proof (cmp_cases HA Wa Wa') as C. pose proof (TA a a' Wa Wa') as T.
      destruct (cmp LA a a') as [[]|]; cbn [fst snd]; try tauto.
      + right. repeat split; try tauto. apply le_merge_r; assumption.
      + right. repeat split; apply le_refl; assumption.
    - intros [a b] [a' b'] [a'' b''] Wx Wy Wz; unf; wsplit. unfold dom_merge. cbn [fst snd].
      pose proof (cmp_cases HA Wa Wa') as C. pose proof (TA a a' Wa Wa') as T.
      intros H1' H2'. destruct (cmp LA a a') as [[]|]; cbn [fst snd]; try tauto.
      destruct C as [C1 C2].
      destruct H1' as [[L1 N1]|[[L1 L1'] V1]]; [left; tauto|].
      destruct H2' as [[L2 N2]|[[L2 L2'] V2]].
      + exfalso. apply N2. apply le_trans with (b := a); assumption.
      + right. repeat split; try assumption. apply le_lub; assumption.
    - intros [a b] [a' b'] Wx Wy; unf; wsplit. unfold dom_merge. cbn [fst snd].
      pose proof (cmp_cases HA Wa Wa') as C. pose proof (TA a a' Wa Wa') as T.
      pose proof (ch_false_iff HB Wb Wb') as F. unfold ch in F.
      destruct (cmp LA a a') as [[]|]; cbn [fst snd]; try tauto.
      split; [discriminate|]. intros [[L N]|[[L L'] V]]; tauto.
    - intros [a b] [a' b'] Wx Wy; unf; wsplit. unfold dom_merge, dom_cmp. cbn [fst snd].
      pose proof (TA a a' Wa Wa') as T. pose proof (cmp_dual HA Wa Wa') as D.
      pose proof (cmp_spec HB Wb Wb') as S. unfold ch in S.
      destruct (cmp LA a a') as [[]|]; cbn [fst snd option_map CompOpp] in *; try tauto;
        rewrite D; cbn [fst snd].
      + exact S.
      + reflexivity.
      + reflexivity.
    - intros [a b] Wx; unf; wsplit. rewrite andb_true_iff. split.
      + intros [B1 B2] [a' b'] Wy; unf; wsplit; cbn [fst snd].
        assert (L : Le LA a a') by (apply bot_least; assumption).
        destruct (Le_dec a' a) as [L'|N]; [right|left; tauto].
        repeat split; try assumption. apply bot_least; assumption.
      + intros Hl. destruct (inh HB) as [b0 Wb0]. split.
        * apply (bot_spec HA); [assumption|]. intros a' Wa'.
          assert (Wy : wf LA a' && wf LB b0 = true) by (apply andb_true_iff; split; assumption).
          destruct (Hl (a', b0) Wy) as [[L _]|[[L _] _]]; exact L.
        * apply (bot_spec HB); [assumption|]. intros b' Wb'.
          assert (Wy : wf LA a && wf LB b' = true) by (apply andb_true_iff; split; assumption).
          destruct (Hl (a, b') Wy) as [[L N]|[_ V]]; [|exact V].
          exfalso. apply N. apply le_refl; assumption.
    - destruct (inh HA) as [a0 Wa0]. destruct (inh HB) as [b0 Wb0]. exists (a0, b0).
      unf. apply andb_true_iff. split; assumption.
  Qed.

  Theorem dom_laws : LatLaws (dom_ops LA LB).
  Proof. exact (ord_laws dom_ord). Qed.

  Lemma dom_toplaw : TopLaw LA -> TopLaw LB -> TopLaw (dom_ops LA LB).
  Proof.
    intros TLA TLB [a b] Wx. assert (Wx' := Wx). unf. wsplit. rewrite andb_true_iff. split.
    - intros [T1 T2] [a' b'] Wy. apply (o_Le_iff dom_ord); [exact Wy|exact Wx'|].
      unf. wsplit. unfold dom_le, klt, keq. cbn [fst snd].
      assert (L : Le LA a' a) by (apply (proj1 (TLA a Wa) T1); assumption).
      destruct (Le_dec a a') as [L'|N]; [right|left; tauto].
      repeat split; try assumption. apply (proj1 (TLB b Wb) T2); assumption.
    - intros Hl. destruct (inh HB) as [b0 Wb0]. split.
      + apply (TLA a Wa). intros a' Wa'.
        pose proof (pair_wf_intro _ _ Wa' Wb0) as Wy.
        specialize (Hl (a', b0) Wy). apply (o_Le_iff dom_ord) in Hl; [|exact Wy|exact Wx'].
        destruct Hl as [[L _]|[[L _] _]]; exact L.
      + apply (TLB b Wb). intros b' Wb'.
        pose proof (pair_wf_intro _ _ Wa Wb') as Wy.
        specialize (Hl (a, b') Wy). apply (o_Le_iff dom_ord) in Hl; [|exact Wy|exact Wx'].
        destruct Hl as [[L N]|[_ Vv]]; [|exact Vv]. exfalso. apply N. apply le_refl; assumption.
  Qed.
End Pair.
