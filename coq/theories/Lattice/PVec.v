(* E1 proofs: vec_union.rs *)
From Coq Require Import Arith.
From HV Require Import Lattice.Model Lattice.Ord.

Section Vec.
  Variable V : Type.
  Variable LV : LatOps V.
  Hypothesis H : LatLaws LV.

  (* index-wise merge with extension: what Merge::merge computes *)
  Fixpoint vjoin (a b : list V) : list V :=
    match a, b with
    | [], _ => b
    | _, [] => a
    | x :: a', y :: b' => m LV x y :: vjoin a' b'
    end.

  Fixpoint vle (a b : list V) : Prop :=
    match a, b with
    | [], _ => True
    | _ :: _, [] => False
    | x :: a', y :: b' => Le LV x y /\ vle a' b'
    end.

  (* the flag of the zip loop: some position of the common prefix changed *)
  Definition zch (a b : list V) : bool := snd (vec_zip_merge LV a b).

  Lemma zip_fst_short a : forall b, length b <= length a -> fst (vec_zip_merge LV a b) = vjoin a b.
  Proof.
    induction a as [|x a IH]; intros [|y b] L; cbn in *; try reflexivity; try lia.
    f_equal. apply IH. lia.
  Qed.

  Lemma zip_fst_long a : forall b, length a < length b ->
    fst (vec_zip_merge LV (a ++ skipn (length a) b) (firstn (length a) b)) = vjoin a b.
  Proof.
    induction a as [|x a IH]; intros [|y b] L; cbn in *; try reflexivity; try lia.
    f_equal. apply IH. lia.
  Qed.

  Lemma zch_long a : forall b, length a < length b ->
    snd (vec_zip_merge LV (a ++ skipn (length a) b) (firstn (length a) b)) = zch a b.
  Proof.
    unfold zch. induction a as [|x a IH]; intros [|y b] L; cbn in *; try reflexivity; try lia.
    f_equal. apply IH. lia.
  Qed.

  Lemma vec_merge_fst a b : fst (vec_merge LV a b) = vjoin a b.
  Proof.
    unfold vec_merge. destruct (Nat.ltb_spec (length a) (length b)); cbn [fst].
    - apply zip_fst_long; assumption.
    - apply zip_fst_short; assumption.
  Qed.

  Lemma vec_merge_snd a b :
    snd (vec_merge LV a b) = Nat.ltb (length a) (length b) || zch a b.
  Proof.
    unfold vec_merge. destruct (Nat.ltb_spec (length a) (length b)); cbn [snd]; [reflexivity|].
    reflexivity.
  Qed.

  Local Ltac unf := unfold W, E, m, ch in *;
    cbn [wf mrg cmp eqb isbot istop vec_ops] in *.

  Lemma Wcons x a : forallb (wf LV) (x :: a) = true <-> W LV x /\ forallb (wf LV) a = true.
  Proof. cbn. rewrite andb_true_iff. reflexivity. Qed.

  Lemma vle_refl a : forallb (wf LV) a = true -> vle a a.
  Proof.
    induction a as [|x a IH]; cbn; [trivial|]. rewrite andb_true_iff. intros [Wx Wa].
    split; [apply le_refl; assumption|apply IH; assumption].
  Qed.

  Lemma vle_trans a : forall b c, forallb (wf LV) a = true -> forallb (wf LV) b = true ->
    forallb (wf LV) c = true -> vle a b -> vle b c -> vle a c.
  Proof.
    induction a as [|x a IH]; intros [|y b] [|z c]; cbn; try tauto.
    rewrite !andb_true_iff. intros [Wx Wa] [Wy Wb] [Wz Wc] [L1 R1] [L2 R2]. split.
    - apply le_trans with (b := y); assumption.
    - apply IH with (b := b); assumption.
  Qed.

  Lemma vle_length a : forall b, vle a b -> length a <= length b.
  Proof.
    induction a as [|x a IH]; intros [|y b]; cbn; try tauto; try lia.
    intros [_ R]. specialize (IH b R). lia.
  Qed.

  Lemma vec_eq_vle a : forall b, forallb (wf LV) a = true -> forallb (wf LV) b = true ->
    (vec_eqb LV a b = true <-> vle a b /\ vle b a).
  Proof.
    unfold vec_eqb. induction a as [|x a IH]; intros [|y b]; cbn.
    - tauto.
    - intuition congruence.
    - intuition congruence.
    - rewrite !andb_true_iff. intros [Wx Wa] [Wy Wb]. specialize (IH b Wa Wb).
      cbn in IH. rewrite andb_true_iff in IH. split.
      + intros [L [Q R]].
        assert (I : vle a b /\ vle b a) by (apply IH; split; assumption).
        repeat split; try tauto; apply le_of_eq; auto using (e_sym H).
      + intros [[L1 R1] [L2 R2]].
        assert (I : Nat.eqb (length a) (length b) = true /\ vec_all2 LV a b = true)
          by (apply IH; split; assumption).
        repeat split; try tauto. apply le_antisym; assumption.
  Qed.

  Lemma vjoin_wf a : forall b, forallb (wf LV) a = true -> forallb (wf LV) b = true ->
    forallb (wf LV) (vjoin a b) = true.
  Proof.
    induction a as [|x a IH]; intros [|y b]; cbn; try tauto.
    rewrite !andb_true_iff. intros [Wx Wa] [Wy Wb]. split; [apply (m_wf H)|apply IH]; assumption.
  Qed.

  Lemma vjoin_ub_l a : forall b, forallb (wf LV) a = true -> forallb (wf LV) b = true ->
    vle a (vjoin a b).
  Proof.
    induction a as [|x a IH]; intros [|y b]; cbn; try tauto.
    - rewrite andb_true_iff. intros [Wx Wa] _. split; [apply le_refl|apply vle_refl]; assumption.
    - rewrite !andb_true_iff. intros [Wx Wa] [Wy Wb].
      split; [apply le_merge_l|apply IH]; assumption.
  Qed.

  Lemma vjoin_ub_r a : forall b, forallb (wf LV) a = true -> forallb (wf LV) b = true ->
    vle b (vjoin a b).
  Proof.
    induction a as [|x a IH]; intros [|y b]; cbn; try tauto.
    - rewrite andb_true_iff. intros _ [Wy Wb]. split; [apply le_refl|apply vle_refl]; assumption.
    - rewrite !andb_true_iff. intros [Wx Wa] [Wy Wb].
      split; [apply le_merge_r|apply IH]; assumption.
  Qed.

  Lemma vjoin_lub a : forall b c, forallb (wf LV) a = true -> forallb (wf LV) b = true ->
    forallb (wf LV) c = true -> vle a c -> vle b c -> vle (vjoin a b) c.
  Proof.
    induction a as [|x a IH]; intros [|y b] [|z c]; cbn; try tauto.
    rewrite !andb_true_iff. intros [Wx Wa] [Wy Wb] [Wz Wc] [L1 R1] [L2 R2].
    split; [apply le_lub|apply IH]; assumption.
  Qed.

  Lemma zch_false a : forall b, forallb (wf LV) a = true -> forallb (wf LV) b = true ->
    length b <= length a -> (zch a b = false <-> vle b a).
  Proof.
    unfold zch. induction a as [|x a IH]; intros [|y b]; cbn; try tauto; try lia.
    rewrite !andb_true_iff. intros [Wx Wa] [Wy Wb] L.
      rewrite orb_false_iff. pose proof (ch_false_iff H Wx Wy) as F. unfold ch in F.
      rewrite F. rewrite IH by (try assumption; lia). reflexivity.
  Qed.

  Lemma vec_ch_false a b : forallb (wf LV) a = true -> forallb (wf LV) b = true ->
    (snd (vec_merge LV a b) = false <-> vle b a).
  Proof.
    intros Wa Wb. rewrite vec_merge_snd, orb_false_iff. split.
    - intros [L Z]. apply Nat.ltb_ge in L. apply zch_false; assumption.
    - intros Hle. pose proof (vle_length _ _ Hle) as L. split.
      + apply Nat.ltb_ge. exact L.
      + apply zch_false; assumption.
  Qed.

  Lemma vec_cmp_go_spec a : forall b sg og,
    forallb (wf LV) a = true -> forallb (wf LV) b = true ->
    vec_cmp_go LV a b sg og = naive (og || zch a b) (sg || zch b a).
  Proof.
    unfold zch. induction a as [|x a IH]; intros [|y b] sg og; cbn [vec_cmp_go vec_zip_merge snd forallb].
    - intros _ _. rewrite !orb_false_r. destruct sg, og; reflexivity.
    - intros _ _. rewrite !orb_false_r. destruct sg, og; reflexivity.
    - intros _ _. rewrite !orb_false_r. destruct sg, og; reflexivity.
    - rewrite !andb_true_iff. intros [Wx Wa] [Wy Wb].
      rewrite (cmp_spec H Wx Wy). unfold ch. cbn [snd].
      destruct (snd (mrg LV x y)) eqn:C1, (snd (mrg LV y x)) eqn:C2, sg, og;
        cbn [naive andb orb]; try reflexivity;
        rewrite IH by assumption; cbn [orb]; reflexivity.
  Qed.

  Lemma vec_ord : OrdLaws (vec_ops LV) vle.
  Proof.
    split; unf.
    - apply vle_refl.
    - intros a b c. apply vle_trans.
    - intros a b. apply vec_eq_vle.
    - intros a b Wa Wb. rewrite vec_merge_fst. apply vjoin_wf; assumption.
    - intros a b Wa Wb. rewrite vec_merge_fst. apply vjoin_ub_l; assumption.
    - intros a b Wa Wb. rewrite vec_merge_fst. apply vjoin_ub_r; assumption.
    - intros a b c Wa Wb Wc. rewrite vec_merge_fst. apply vjoin_lub; assumption.
    - intros a b. apply vec_ch_false.
    - intros a b Wa Wb. unfold vec_cmp. rewrite vec_cmp_go_spec by assumption.
      rewrite !vec_merge_snd. reflexivity.
    - intros a Wa. split.
      + intros B b Wb. destruct a; [exact I|discriminate].
      + intros B. destruct a as [|x a]; [reflexivity|]. exact (match B [] Logic.eq_refl with end).
    - exists []. reflexivity.
  Qed.

  Theorem vec_laws : LatLaws (vec_ops LV).
  Proof. exact (ord_laws vec_ord). Qed.

  Lemma vec_toplaw : TopLaw (vec_ops LV).
  Proof.
    intros a Wa. unf. split; [discriminate|]. intros T. exfalso.
    destruct (inh H) as [v Wv].
    (* a strictly longer vector is not below a *)
    assert (Wb : W (vec_ops LV) (a ++ [v])).
    { unf. rewrite forallb_app. cbn. rewrite Wa. cbn. unfold W in Wv. rewrite Wv. reflexivity. }
    specialize (T (a ++ [v]) Wb). apply (o_Le_iff vec_ord) in T; [|exact Wb|exact Wa].
    apply vle_length in T. rewrite app_length in T. cbn in T. lia.
  Qed.

  (* C04: index-wise merge with extension *)
  Lemma vec_merge_nth a b i : nth_error (fst (mrg (vec_ops LV) a b)) i =
    match nth_error a i, nth_error b i with
    | Some x, Some y => Some (m LV x y)
    | Some x, None => Some x
    | None, Some y => Some y
    | None, None => None
    end.
  Proof.
    cbn [mrg vec_ops]. rewrite vec_merge_fst. revert b i.
    induction a as [|x a IH]; intros [|y b] [|i]; cbn; try reflexivity.
    - destruct (nth_error b i); reflexivity.
    - destruct (nth_error a i); reflexivity.
    - apply IH.
  Qed.
End Vec.
