(* E1 Lattice engine -- atomization (C06): executable model of the `impl Atomize` blocks in
   /repo/lattices/src/{unit,set_union,map_union,with_bot,with_top}.rs, transcribed impl by impl,
   and the observation the harness h_atom makes on the real crate.  Definitions only.

   Atoms live in the carrier of the lattice they come from: the crate's atom types
   (SetUnionSingletonSet, MapUnionSingletonMap<K, Val::Atom>, WithBot<Inner::Atom>,
   WithTop<Inner::Atom>) are the one-element list / one-entry association list / option of the
   same carrier, and the heterogeneous `Merge<Atom>` they are merged back with is the
   homogeneous merge of the carrier (LatticeFrom of a singleton collection is the identity on
   the list model).  union_find.rs is modelled by another engine file. *)
From HV Require Export Lattice.Univ.
Set Implicit Arguments.

(* ---------------------------------------------------------------- the impls, constructor-wise *)
(* unit.rs: core::iter::empty() *)
Definition unit_atoms (_ : unit) : list unit := [].

(* set_union.rs: self.0.into_iter().map(SetUnionSingletonSet::new_from) *)
Definition set_atoms (a : list N) : list (list N) := map (fun x => [x]) a.

Section AtomOps.
  Variable V : Type.
  Variable atm : V -> list V.        (* Val::atomize *)

  (* map_union.rs: self.0.into_iter().flat_map(|(k, val)|
       val.atomize().map(move |v| MapUnionSingletonMap::new_from((k.clone(), v)))) *)
  Definition map_atoms (a : list (N * V)) : list (list (N * V)) :=
    flat_map (fun kv => map (fun x => [(fst kv, x)]) (atm (snd kv))) a.

  (* with_bot.rs: self.0.into_iter().flat_map(Atomize::atomize).map(WithBot::new_from) *)
  Definition bot_atoms (a : option V) : list (option V) :=
    match a with
    | None => []
    | Some x => map Some (atm x)
    end.

  (* with_top.rs: Some(inner) => inner.atomize().map(WithTop::new_from),
                  None => once(WithTop::new(None)) *)
  Definition top_atoms (a : option V) : list (option V) :=
    match a with
    | None => [None]
    | Some x => map Some (atm x)
    end.
End AtomOps.
Unset Implicit Arguments.

(* ---------------------------------------------------------------- the universe *)
(* the codes whose Rust type implements Atomize (UnionFind: see the union-find engine file) *)
Fixpoint atomizable (t : lty) : bool :=
  match t with
  | TUnit | TSet => true
  | TMap v | TBot v | TTop v => atomizable v
  | _ => false
  end.

Fixpoint atomize (t : lty) : val t -> list (val t) :=
  match t return val t -> list (val t) with
  | TUnit => unit_atoms
  | TSet => set_atoms
  | TMap v => map_atoms (atomize v)
  | TBot v => bot_atoms (atomize v)
  | TTop v => top_atoms (atomize v)
  | _ => fun _ => []               (* no Atomize impl; outside [atomizable] *)
  end.

(* Default::default().  Faithful on the atomizable codes (unit, empty set, empty map,
   WithBot(None), WithTop(Some(Inner::default())) -- with_top.rs: "Use inner's default rather
   than None (which is top, not bot)").  On the other codes: Max = MIN, Min = MAX (no MAX in
   the unbounded scalar universe: 0 is a placeholder), Conflict has no Default (placeholder),
   Pair/DomPair field-wise, VecUnion empty; C06 never uses those. *)
Fixpoint dflt (t : lty) : val t :=
  match t return val t with
  | TUnit => tt
  | TMax _ => 0%N
  | TMin s => match sc_top s with Some x => x | None => 0%N end
  | TSet => []
  | TMap _ => []
  | TBot _ => None
  | TTop v => Some (dflt v)
  | TConflict => None
  | TPair a b | TDom a b => (dflt a, dflt b)
  | TVec _ => []
  | TSetTomb => ([], [])
  | TMapTomb _ => ([], [])
  | TUF => []
  end.

(* merging a list of atoms (or any values), one by one, into [acc] -- what check_atomize_each
   does with acc = Default *)
Definition remerge (t : lty) (acc : val t) (l : list (val t)) : val t :=
  fold_left (fun s x => m (ops t) s x) l acc.

(* the changed flags of those merges *)
Fixpoint remerge_flags (t : lty) (acc : val t) (l : list (val t)) : list bool :=
  match l with
  | [] => []
  | x :: r => ch (ops t) acc x :: remerge_flags t (m (ops t) acc x) r
  end.

(* ---------------------------------------------------------------- correspondence *)
(* multiset equality of two atom lists modulo [same] (iteration order of hash collections) *)
Fixpoint remove_same (t : lty) (x : val t) (l : list (val t)) : option (list (val t)) :=
  match l with
  | [] => None
  | y :: r => if same t x y then Some r else option_map (cons y) (remove_same t x r)
  end.

Fixpoint perm_same (t : lty) (a b : list (val t)) : bool :=
  match a with
  | [] => match b with [] => true | _ => false end
  | x :: r => match remove_same t x b with Some b' => perm_same t r b' | None => false end
  end.

Fixpoint bools_eqb (a b : list bool) : bool :=
  match a, b with
  | [], [] => true
  | x :: r, y :: s => Bool.eqb x y && bools_eqb r s
  | _, _ => false
  end.

(* what h_atom observes for a case (a, acc) on the real crate *)
Record aobs (t : lty) := {
  ao_atoms : list (val t);     (* a.clone().atomize(), in the implementation's iteration order *)
  ao_atom_bot : list bool;     (* IsBot::is_bot of each atom *)
  ao_bot : bool;               (* a.is_bot() *)
  ao_dflt : val t;             (* T::default() *)
  ao_reformed : val t;         (* the atoms merged one by one into T::default() *)
  ao_changed : list bool;      (* the flag returned by each of those merges *)
  ao_eq : bool;                (* a == reformed (the crate's PartialEq) *)
  ao_acc_atoms : val t;        (* the atoms merged one by one into acc *)
  ao_acc_a : val t;            (* a merged into acc *)
  ao_acc_eq : bool;            (* those two == *)
}.
Arguments ao_atoms {t}. Arguments ao_atom_bot {t}. Arguments ao_bot {t}. Arguments ao_dflt {t}.
Arguments ao_reformed {t}. Arguments ao_changed {t}. Arguments ao_eq {t}.
Arguments ao_acc_atoms {t}. Arguments ao_acc_a {t}. Arguments ao_acc_eq {t}.

(* the same observation computed by the model, atoms taken in the order [l] *)
Definition model_aobs_with (t : lty) (a acc : val t) (l : list (val t)) : aobs t :=
  let L := ops t in
  let r := remerge t (dflt t) l in
  let ra := remerge t acc l in
  let ma := m L acc a in
  {| ao_atoms := l; ao_atom_bot := map (isbot L) l; ao_bot := isbot L a; ao_dflt := dflt t;
     ao_reformed := r; ao_changed := remerge_flags t (dflt t) l; ao_eq := eqb L a r;
     ao_acc_atoms := ra; ao_acc_a := ma; ao_acc_eq := eqb L ra ma |}.

Definition model_aobs (t : lty) (a acc : val t) : aobs t :=
  model_aobs_with t a acc (atomize t a).

(* bit 0: the implementation's atoms are the model's atoms as a multiset, and everything the
   implementation then computed from them is what the model computes from them in the same
   order *)
Definition aobs_agree (t : lty) (a acc : val t) (i : aobs t) : bool :=
  let mo := model_aobs_with t a acc (ao_atoms i) in
  perm_same t (ao_atoms i) (atomize t a) &&
  bools_eqb (ao_atom_bot i) (ao_atom_bot mo) &&
  Bool.eqb (ao_bot i) (ao_bot mo) &&
  same t (ao_dflt i) (ao_dflt mo) &&
  same t (ao_reformed i) (ao_reformed mo) &&
  bools_eqb (ao_changed i) (ao_changed mo) &&
  Bool.eqb (ao_eq i) (ao_eq mo) &&
  same t (ao_acc_atoms i) (ao_acc_atoms mo) &&
  same t (ao_acc_a i) (ao_acc_a mo) &&
  Bool.eqb (ao_acc_eq i) (ao_acc_eq mo).

Definition is_nil {A} (l : list A) : bool := match l with [] => true | _ => false end.

(* bit 1: the executable form of C06 on an observation: every atom non-bottom; no atoms
   exactly when the value is bottom; the atoms re-merge (into Default, and into any other
   value) to the original *)
Definition C06_holds_b (t : lty) (i : aobs t) : bool :=
  forallb negb (ao_atom_bot i) &&
  Bool.eqb (is_nil (ao_atoms i)) (ao_bot i) &&
  ao_eq i && ao_acc_eq i.

Definition achk (t : lty) (a acc : val t) (i : aobs t) : N :=
  verdict (aobs_agree t a acc i) (C06_holds_b t i).
