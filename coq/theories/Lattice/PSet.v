(* E1 proofs: set_union.rs *)
From HV Require Import Lattice.Model.
From Coq Require Import Arith ZifyBool ZifyN Permutation.

Lemma mem_In x l : mem x l = true <-> In x l.
Proof.
  unfold mem. rewrite existsb_exists. split.
  - intros [y [Hy E]]. apply N.eqb_eq in E. subst. exact Hy.
  - intros H. exists x. split; [exact H | apply N.eqb_refl].
Qed.

Lemma mem_false x l : mem x l = false <-> ~ In x l.
Proof. rewrite <- mem_In. destruct (mem x l); intuition congruence. Qed.

Lemma nodupb_NoDup l : nodupb l = true <-> NoDup l.
Proof.
  induction l as [|x r IH]; cbn.
  - split; [constructor | reflexivity].
  - rewrite andb_true_iff, negb_true_iff, mem_false, IH. split.
    + intros [A B]. constructor; assumption.
    + intros H. inversion H; subst. split; assumption.
Qed.

Lemma set_insert_In acc x y : In y (set_insert acc x) <-> In y acc \/ y = x.
Proof.
  unfold set_insert. destruct (mem x acc) eqn:M.
  - apply mem_In in M. split; [tauto|]. intros [H|H]; subst; assumption.
  - rewrite in_app_iff. cbn. intuition.
Qed.

Lemma NoDup_snoc {A} (l : list A) x : NoDup l -> ~ In x l -> NoDup (l ++ [x]).
Proof.
  induction l as [|y r IH]; cbn; intros Hn Hx.
  - constructor; [intros []|constructor].
  - inversion Hn; subst. constructor.
    + rewrite in_app_iff. cbn. intuition.
    + apply IH; intuition.
Qed.

Lemma set_insert_NoDup acc x : NoDup acc -> NoDup (set_insert acc x).
Proof.
  unfold set_insert. destruct (mem x acc) eqn:M; intros H; [exact H|].
  apply mem_false in M. apply NoDup_snoc; assumption.
Qed.

Lemma set_extend_In b : forall a y, In y (set_extend a b) <-> In y a \/ In y b.
Proof.
  unfold set_extend. induction b as [|x r IH]; intros a y; cbn.
  - tauto.
  - rewrite IH, set_insert_In. intuition.
Qed.

Lemma set_extend_NoDup b : forall a, NoDup a -> NoDup (set_extend a b).
Proof.
  unfold set_extend. induction b as [|x r IH]; intros a H; cbn; [exact H|].
  apply IH, set_insert_NoDup, H.
Qed.

Definition seq (a b : list N) : Prop := forall x, In x a <-> In x b.

Lemma forallb_mem_incl a b : forallb (fun k => mem k b) a = true <-> incl a b.
Proof.
  rewrite forallb_forall. unfold incl. split; intros H x Hx.
  - apply mem_In, H, Hx.
  - apply mem_In, H, Hx.
Qed.

Lemma lenN_eqb {A} (a b : list A) : N.eqb (lenN a) (lenN b) = true <-> length a = length b.
Proof. unfold lenN. rewrite N.eqb_eq. lia. Qed.

Lemma set_eqb_seq a b : NoDup a -> NoDup b -> (set_eqb a b = true <-> seq a b).
Proof.
  intros Na Nb. unfold set_eqb. rewrite andb_true_iff, lenN_eqb, forallb_mem_incl. split.
  - intros [L I] x. split; [apply I|].
    apply (NoDup_length_incl Na); [lia | exact I].
  - intros S. split.
    + assert (length a <= length b) by (apply NoDup_incl_length; [assumption|intros x Hx; apply S, Hx]).
      assert (length b <= length a) by (apply NoDup_incl_length; [assumption|intros x Hx; apply S, Hx]).
      lia.
    + intros x Hx. apply S, Hx.
Qed.

Lemma incl_length_lt (a b : list N) : NoDup a -> NoDup b -> incl a b -> ~ incl b a -> length a < length b.
Proof.
  intros Na Nb I NI.
  assert (length a <= length b) by (apply NoDup_incl_length; assumption).
  destruct (Nat.eq_dec (length a) (length b)) as [E|]; [|lia].
  exfalso. apply NI. apply (NoDup_length_incl Na); [lia | exact I].
Qed.

Lemma incl_dec_b (a b : list N) : incl a b \/ ~ incl a b.
Proof.
  destruct (forallb (fun k => mem k b) a) eqn:F.
  - left. apply forallb_mem_incl, F.
  - right. intros I. apply forallb_mem_incl in I. congruence.
Qed.

Local Ltac unf := unfold W, E, Le, m, ch in *; cbn [wf mrg cmp eqb isbot istop set_ops fst snd] in *.

Lemma set_m_wf a b : NoDup a -> NoDup (set_extend a b).
Proof. apply set_extend_NoDup. Qed.

(* the flag: length grew  <->  b not included in a *)
Lemma set_ch_spec a b : NoDup a -> NoDup b ->
  N.ltb (lenN a) (lenN (set_extend a b)) = negb (set_eqb (set_extend a b) a).
Proof.
  intros Na Nb. pose proof (set_extend_NoDup b a Na) as Nr.
  destruct (set_eqb (set_extend a b) a) eqn:Q; cbn.
  - unfold set_eqb in Q. apply andb_true_iff in Q. destruct Q as [L _].
    apply lenN_eqb in L. unfold lenN. apply N.ltb_ge. lia.
  - apply N.ltb_lt. unfold lenN.
    assert (length a < length (set_extend a b)); [|lia].
    apply incl_length_lt; try assumption.
    + intros x Hx. apply set_extend_In. left. exact Hx.
    + intros I. assert (set_eqb (set_extend a b) a = true); [|congruence].
      apply set_eqb_seq; try assumption. intros x. split; [apply I|].
      intros Hx. apply set_extend_In. left. exact Hx.
Qed.

Lemma set_ch_false a b : NoDup a -> NoDup b ->
  (N.ltb (lenN a) (lenN (set_extend a b)) = false <-> incl b a).
Proof.
  intros Na Nb. rewrite set_ch_spec, negb_false_iff by assumption.
  rewrite set_eqb_seq by (try apply set_extend_NoDup; assumption).
  split.
  - intros S x Hx. apply S, set_extend_In. right. exact Hx.
  - intros I x. rewrite set_extend_In. split; [|tauto]. intros [H|H]; [exact H|apply I, H].
Qed.

Lemma set_laws : LatLaws set_ops.
Proof.
  split; unf; intros.
  - apply nodupb_NoDup in H. apply set_eqb_seq; try assumption. intros x; tauto.
  - apply nodupb_NoDup in H, H0. apply set_eqb_seq; try assumption.
    apply set_eqb_seq in H1; try assumption. intros x. symmetry. apply H1.
  - apply nodupb_NoDup in H, H0, H1. apply set_eqb_seq; try assumption.
    apply set_eqb_seq in H2, H3; try assumption. intros x. rewrite (H2 x). apply H3.
  - apply nodupb_NoDup in H. apply nodupb_NoDup, set_extend_NoDup, H.
  - apply nodupb_NoDup in H, H0, H1, H2.
    apply set_eqb_seq in H3, H4; try assumption.
    apply set_eqb_seq; try (apply set_extend_NoDup; assumption).
    intros x. rewrite !set_extend_In, (H3 x), (H4 x). tauto.
  - apply nodupb_NoDup in H.
    apply set_eqb_seq; try (apply set_extend_NoDup; assumption); try assumption.
    intros x. rewrite set_extend_In. tauto.
  - apply nodupb_NoDup in H, H0.
    apply set_eqb_seq; try (apply set_extend_NoDup; assumption).
    intros x. rewrite !set_extend_In. tauto.
  - apply nodupb_NoDup in H, H0, H1.
    apply set_eqb_seq; try (repeat apply set_extend_NoDup; assumption).
    intros x. rewrite !set_extend_In. tauto.
  - apply nodupb_NoDup in H, H0. apply set_ch_spec; assumption.
  - apply nodupb_NoDup in H, H0.
    pose proof (set_ch_false a b H H0) as F1. pose proof (set_ch_false b a H0 H) as F2.
    remember (N.ltb (lenN a) (lenN (set_extend a b))) as c1 eqn:Ec1. clear Ec1.
    remember (N.ltb (lenN b) (lenN (set_extend b a))) as c2 eqn:Ec2. clear Ec2.
    unfold set_cmp.
    destruct (N.compare_spec (lenN a) (lenN b)) as [C|C|C]; unfold lenN in C.
    + (* equal lengths *)
      assert (L : length a = length b) by lia.
      destruct (forallb (fun k => mem k b) a) eqn:F.
      * apply forallb_mem_incl in F.
        assert (I2 : incl b a) by (apply (NoDup_length_incl H); [lia|exact F]).
        apply F1 in I2. apply F2 in F. rewrite I2, F. reflexivity.
      * assert (N1 : ~ incl a b) by (intros I; apply forallb_mem_incl in I; congruence).
        assert (N2 : ~ incl b a).
        { intros I. apply N1. apply (NoDup_length_incl H0); [lia|exact I]. }
        destruct c1; [|exfalso; apply N2, F1; reflexivity].
        destruct c2; [|exfalso; apply N1, F2; reflexivity].
        reflexivity.
    + (* |a| < |b| : a cannot include b *)
      assert (N2 : ~ incl b a).
      { intros I. pose proof (NoDup_incl_length H0 I). lia. }
      destruct c1; [|exfalso; apply N2, F1; reflexivity].
      destruct (forallb (fun k => mem k b) a) eqn:F.
      * apply forallb_mem_incl in F. apply F2 in F. rewrite F. reflexivity.
      * destruct c2; [reflexivity|]. exfalso.
        assert (I : incl a b) by (apply F2; reflexivity).
        apply forallb_mem_incl in I. congruence.
    + assert (N1 : ~ incl a b).
      { intros I. pose proof (NoDup_incl_length H I). lia. }
      destruct c2; [|exfalso; apply N1, F2; reflexivity].
      destruct (forallb (fun k => mem k a) b) eqn:F.
      * apply forallb_mem_incl in F. apply F1 in F. rewrite F. reflexivity.
      * destruct c1; [reflexivity|]. exfalso.
        assert (I : incl b a) by (apply F1; reflexivity).
        apply forallb_mem_incl in I. congruence.
  - apply nodupb_NoDup in H. split.
    + intros B b Wb. destruct a; [|discriminate]. apply nodupb_NoDup in Wb.
      apply set_eqb_seq; try assumption. intros x; tauto.
    + intros B. specialize (B [] Logic.eq_refl). destruct a as [|x r]; [reflexivity|].
      exfalso. apply set_eqb_seq in B; [|apply set_extend_NoDup; constructor|constructor].
      apply (B x). apply set_extend_In. right. left. reflexivity.
  - exists []. reflexivity.
Qed.

Lemma set_toplaw : TopLaw set_ops.
Proof.
  intros a Wa. unf. split; [discriminate|]. intros T. exfalso.
  apply nodupb_NoDup in Wa.
  (* an element outside a: 1 + sum of a *)
  set (z := (1 + fold_right N.add 0 a)%N).
  assert (Hz : ~ In z a).
  { assert (forall l x, In x l -> (x <= fold_right N.add 0 l)%N) as Hle.
    { induction l as [|y r IH]; cbn; intros x [].
      - subst. lia.
      - specialize (IH x H). lia. }
    intros I. apply Hle in I. unfold z in I. lia. }
  specialize (T [z]). assert (nodupb [z] = true) as Wz by reflexivity. specialize (T Wz).
  apply set_eqb_seq in T; try assumption; [|apply set_extend_NoDup, Wa].
  apply Hz, T, set_extend_In. right. left. reflexivity.
Qed.

(* C04: the abstract join of the set lattice is set union *)
Lemma set_merge_union a b x : In x (fst (mrg set_ops a b)) <-> In x a \/ In x b.
Proof. apply set_extend_In. Qed.
