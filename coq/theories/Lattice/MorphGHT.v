(* E1/E2 -- the GHT bimorphisms of lattices/src/ght/lattice.rs for C07.  The trie model is e2-coll's
   (Coll/ModelGHT.v: [deep_join] = DeepJoinLatticeBimorphism = GhtNodeKeyedBimorphism nested once
   per key column over GhtValTypeProductBimorphism -- at height 0 it IS GhtValTypeProductBimorphism;
   [cart_product] = GhtCartesianProductBimorphism at the roots); this file only adds the
   observation the harness h_morph makes for a case (a, da, b, db).  Definitions only.
   Imports Coll only (its names clash with Lattice.Base). *)
From HV Require Export Coll.ModelGHT.

(* a trie of height nk holding the given rows: insert one by one into Default *)
Definition build (nk : nat) (rows : list row) : ght :=
  fold_left (fun t r => insert nk 0 t r) rows (empty nk).

Inductive gbim :=
| GDeepJoin               (* <(T, T) as DeepJoinLatticeBimorphism<_>>::DeepJoinLatticeBimorphism *)
| GCartP (nko : nat).     (* GhtCartesianProductBimorphism into a trie with nko key columns *)

Definition gapply (nk : nat) (g : gbim) (a b : ght) : ght :=
  match g with
  | GDeepJoin => deep_join nk nk a b
  | GCartP nko => cart_product nk nko a b
  end.

(* height of the output trie *)
Definition gout_h (nk : nat) (g : gbim) : nat :=
  match g with GDeepJoin => nk | GCartP nko => nko end.

(* rows are observed (sorted by the harness); == is the crate's PartialEq on the output tries *)
Record gobs := {
  go_ab : list row; go_dab : list row; go_adb : list row;
  go_l : list row;      (* f(a merged da, b) *)
  go_ml : list row;     (* f(a, b) merged f(da, b) *)
  go_r : list row;      (* f(a, b merged db) *)
  go_mr : list row;     (* f(a, b) merged f(a, db) *)
  go_eq_l : bool; go_eq_r : bool;
}.

Definition model_gobs (nk : nat) (g : gbim) (ra rda rb rdb : list row) : gobs :=
  let a := build nk ra in let da := build nk rda in
  let b := build nk rb in let db := build nk rdb in
  let ho := gout_h nk g in
  let ab := gapply nk g a b in let dab := gapply nk g da b in let adb := gapply nk g a db in
  let l := gapply nk g (fst (merge nk a da)) b in let ml := fst (merge ho ab dab) in
  let r := gapply nk g a (fst (merge nk b db)) in let mr := fst (merge ho ab adb) in
  {| go_ab := riter ho ab; go_dab := riter ho dab; go_adb := riter ho adb;
     go_l := riter ho l; go_ml := riter ho ml; go_r := riter ho r; go_mr := riter ho mr;
     go_eq_l := peq ho l ml; go_eq_r := peq ho r mr |}.

Definition gobs_agree (i mo : gobs) : bool :=
  bag_eqb (go_ab i) (go_ab mo) && bag_eqb (go_dab i) (go_dab mo) && bag_eqb (go_adb i) (go_adb mo) &&
  bag_eqb (go_l i) (go_l mo) && bag_eqb (go_ml i) (go_ml mo) &&
  bag_eqb (go_r i) (go_r mo) && bag_eqb (go_mr i) (go_mr mo) &&
  Bool.eqb (go_eq_l i) (go_eq_l mo) && Bool.eqb (go_eq_r i) (go_eq_r mo).

(* check_lattice_bimorphism's two assertions *)
Definition C07_ght_holds_b (i : gobs) : bool := go_eq_l i && go_eq_r i.

Definition gbchk (nk : nat) (g : gbim) (ra rda rb rdb : list row) (i : gobs) : N :=
  verdict (gobs_agree i (model_gobs nk g ra rda rb rdb)) (C07_ght_holds_b i).
