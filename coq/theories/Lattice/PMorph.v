(* E1 proofs: shipped lattice bimorphisms distribute over merge (C07).
   - the cartesian product of sets is a bottom-preserving ("strict") bimorphism;
   - PairBimorphism is a bimorphism (not strict);
   - [keyed f] (KeyedBimorphism, which since repo commit 77f6722ffe1 skips bottom-valued entries)
     is a strict bimorphism for ANY wrapped bimorphism f, parametric in f and in the three value
     lattices -- hence every shape (any nesting of Keyed over Cartesian / Pair) by induction;
   - historical: the loop before that commit ([keyed_old]) around PairBimorphism did not
     distribute (former finding, witness kept). *)
From HV Require Import Lattice.Univ Lattice.Ord Lattice.PSet Lattice.PMapBase Lattice.PMap
  Lattice.PBot Lattice.PUniv Lattice.Morph.
From Coq Require Import ZifyBool ZifyN.

Set Implicit Arguments.

(* ---------------------------------------------------------------- the pairing is injective *)
Lemma tri_succ n : tri (n + 1) = (tri n + n + 1)%N.
Proof.
  unfold tri. rewrite !N.div2_div.
  replace ((n + 1) * (n + 1 + 1))%N with (n * (n + 1) + (n + 1) * 2)%N by lia.
  rewrite N.div_add by lia. lia.
Qed.

Lemma tri_gap n : forall k, (n < k)%N -> (tri n + n + 1 <= tri k)%N.
Proof.
  intros k. induction k as [|k IH] using N.peano_ind; intros Hlt; [lia|].
  rewrite <- N.add_1_r, tri_succ. destruct (N.eq_dec n k) as [Q|Q].
  - subst. lia.
  - assert (Hk : (n < k)%N) by lia. specialize (IH Hk). lia.
Qed.

Lemma penc_inj x y x' y' : penc x y = penc x' y' -> x = x' /\ y = y'.
Proof.
  unfold penc. intros Hq.
  destruct (N.lt_trichotomy (x + y) (x' + y')) as [Hl|[He|Hl]].
  - pose proof (tri_gap Hl). lia.
  - rewrite He in Hq. lia.
  - pose proof (tri_gap Hl). lia.
Qed.

(* ---------------------------------------------------------------- what a bimorphism is *)
Section Defs.
  Variables A B O : Type.
  Variable LA : LatOps A.
  Variable LB : LatOps B.
  Variable LO : LatOps O.
  Variable f : A -> B -> O.

  Record Bimorph : Prop := {
    bm_wf : forall a b, W LA a -> W LB b -> W LO (f a b);
    bm_cong : forall a a' b b', W LA a -> W LA a' -> W LB b -> W LB b' ->
      E LA a a' -> E LB b b' -> E LO (f a b) (f a' b');
    (* f(a merged with da, b) = f(a, b) merged with f(da, b) *)
    bm_l : forall a da b, W LA a -> W LA da -> W LB b ->
      E LO (f (m LA a da) b) (m LO (f a b) (f da b));
    (* f(a, b merged with db) = f(a, b) merged with f(a, db) *)
    bm_r : forall a b db, W LA a -> W LB b -> W LB db ->
      E LO (f a (m LB b db)) (m LO (f a b) (f a db));
  }.

  (* bottom in either argument gives bottom *)
  Record Strict : Prop := {
    st_l : forall a b, W LA a -> W LB b -> isbot LA a = true -> isbot LO (f a b) = true;
    st_r : forall a b, W LA a -> W LB b -> isbot LB b = true -> isbot LO (f a b) = true;
  }.
End Defs.

(* ---------------------------------------------------------------- set_union.rs: cartesian *)
Lemma cart_In a b z : In z (cart a b) <-> exists x y, In x a /\ In y b /\ z = penc x y.
Proof.
  unfold cart. rewrite set_extend_In. cbn [In]. rewrite in_flat_map. split.
  - intros [[]|[x [Hx Hz]]]. apply in_map_iff in Hz. destruct Hz as [y [Ez Hy]].
    exists x, y. auto.
  - intros [x [y [Hx [Hy Ez]]]]. right. exists x. split; [exact Hx|].
    apply in_map_iff. exists y. auto.
Qed.

Lemma cart_W a b : W set_ops (cart a b).
Proof. apply nodupb_NoDup. apply set_extend_NoDup. constructor. Qed.

Lemma set_E_seq a b : W set_ops a -> W set_ops b ->
  (E set_ops a b <-> forall x, In x a <-> In x b).
Proof.
  intros Wa Wb. apply nodupb_NoDup in Wa, Wb. unfold E. cbn [eqb set_ops].
  apply set_eqb_seq; assumption.
Qed.

Lemma set_m_In a b x : In x (m set_ops a b) <-> In x a \/ In x b.
Proof. apply set_merge_union. Qed.

(* every element of the output is one pair, pairs of distinct items are distinct elements *)
Lemma cart_pairs a b x y : In (penc x y) (cart a b) <-> In x a /\ In y b.
Proof.
  rewrite cart_In. split.
  - intros [x' [y' [Hx [Hy Q]]]]. apply penc_inj in Q. destruct Q; subst. tauto.
  - intros [Hx Hy]. exists x, y. auto.
Qed.

Lemma cart_bimorph : Bimorph set_ops set_ops set_ops cart.
Proof.
  split.
  - intros; apply cart_W.
  - intros a a' b b' Wa Wa' Wb Wb' Ha Hb.
    pose proof (proj1 (set_E_seq Wa Wa') Ha) as Sa. pose proof (proj1 (set_E_seq Wb Wb') Hb) as Sb.
    apply set_E_seq; try apply cart_W. intros z. rewrite !cart_In.
    split; intros [x [y [Hx [Hy Q]]]]; exists x, y; repeat split; try assumption.
    + apply Sa, Hx. + apply Sb, Hy. + apply Sa, Hx. + apply Sb, Hy.
  - intros a da b Wa Wda Wb.
    apply set_E_seq; [apply cart_W|apply (m_wf set_laws); apply cart_W|].
    intros z. rewrite set_m_In, !cart_In. split.
    + intros [x [y [Hx [Hy Q]]]]. apply set_m_In in Hx. destruct Hx as [Hx|Hx]; [left|right]; exists x, y; auto.
    + intros [[x [y [Hx [Hy Q]]]]|[x [y [Hx [Hy Q]]]]]; exists x, y; repeat split; try assumption;
        apply set_m_In; tauto.
  - intros a b db Wa Wb Wdb.
    apply set_E_seq; [apply cart_W|apply (m_wf set_laws); apply cart_W|].
    intros z. rewrite set_m_In, !cart_In. split.
    + intros [x [y [Hx [Hy Q]]]]. apply set_m_In in Hy. destruct Hy as [Hy|Hy]; [left|right]; exists x, y; auto.
    + intros [[x [y [Hx [Hy Q]]]]|[x [y [Hx [Hy Q]]]]]; exists x, y; repeat split; try assumption;
        apply set_m_In; tauto.
Qed.

Lemma set_isbot_nil (a : list N) : isbot set_ops a = true <-> a = [].
Proof. destruct a; cbn; split; intros; try reflexivity; discriminate. Qed.

Lemma cart_strict : Strict set_ops set_ops set_ops cart.
Proof.
  split; intros a b _ _ B; apply set_isbot_nil in B; subst; apply set_isbot_nil.
  - reflexivity.
  - destruct (cart a []) as [|z r] eqn:Q; [reflexivity|]. exfalso.
    assert (Hz : In z (cart a [])) by (rewrite Q; left; reflexivity).
    apply cart_In in Hz. destruct Hz as [x [y [_ [[] _]]]].
Qed.

(* ---------------------------------------------------------------- pair.rs *)
Section PairB.
  Variables A B : Type.
  Variable LA : LatOps A.
  Variable LB : LatOps B.
  Hypothesis HA : LatLaws LA.
  Hypothesis HB : LatLaws LB.

  Lemma pair_bimorph : Bimorph LA LB (pair_ops LA LB) (@pairb A B).
  Proof.
    split; unfold pairb.
    - intros a b Wa Wb. unfold W in *. cbn. rewrite Wa, Wb. reflexivity.
    - intros a a' b b' _ _ _ _ Ha Hb. unfold E in *. cbn. rewrite Ha, Hb. reflexivity.
    - intros a da b Wa Wda Wb. unfold E, m. cbn. apply andb_true_iff. split.
      + apply (e_refl HA). apply (m_wf HA); assumption.
      + apply (e_sym HB); [apply (m_wf HB); assumption|assumption|]. apply (m_idem HB). assumption.
    - intros a b db Wa Wb Wdb. unfold E, m. cbn. apply andb_true_iff. split.
      + apply (e_sym HA); [apply (m_wf HA); assumption|assumption|]. apply (m_idem HA). assumption.
      + apply (e_refl HB). apply (m_wf HB); assumption.
  Qed.
End PairB.

(* ---------------------------------------------------------------- maps, by visible values *)
Section MapFacts.
  Variable V : Type.
  Variable LV : LatOps V.
  Hypothesis H : LatLaws LV.

  Notation mp := (list (N * V)).
  Notation MW := (W (map_ops LV)).
  Notation ag := (@aget V LV).

  Definition vis (v : V) : option V := if isbot LV v then None else Some v.

  Definition oeq (x y : option V) : Prop :=
    match x, y with
    | None, None => True
    | Some u, Some v => E LV u v
    | _, _ => False
    end.

  Definition ojoin (x y : option V) : option V :=
    match x, y with
    | Some u, Some v => Some (m LV u v)
    | Some u, None => Some u
    | None, _ => y
    end.

  Definition ow (z : option V) : Prop := match z with Some v => W LV v | None => True end.

  Lemma ow_aget a k : MW a -> ow (ag k a).
  Proof. intros Wa. destruct (ag k a) as [v|] eqn:G; cbn; [|exact I]. exact (@aget_wf V LV a k v Wa G). Qed.

  Lemma ow_vis v : W LV v -> ow (vis v).
  Proof. intros Wv. unfold vis. destruct (isbot LV v); cbn; auto. Qed.

  Lemma ow_ojoin x y : ow x -> ow y -> ow (ojoin x y).
  Proof. destruct x, y; cbn; auto. apply (m_wf H). Qed.

  Lemma oeq_refl x : ow x -> oeq x x.
  Proof. destruct x; cbn; auto. apply (e_refl H). Qed.

  Lemma oeq_sym x y : ow x -> ow y -> oeq x y -> oeq y x.
  Proof. destruct x, y; cbn; auto. apply (e_sym H). Qed.

  Lemma oeq_trans x y z : ow x -> ow y -> ow z -> oeq x y -> oeq y z -> oeq x z.
  Proof. destruct x, y, z; cbn; auto; try tauto. apply (e_trans H). Qed.

  Lemma ojoin_None_r x : ojoin x None = x.
  Proof. destruct x; reflexivity. Qed.

  Lemma vis_cong p q : W LV p -> W LV q -> E LV p q -> oeq (vis p) (vis q).
  Proof.
    intros Wp Wq Q. unfold vis. rewrite (eq_is_bot H Wp Wq Q).
    destruct (isbot LV q); cbn; auto.
  Qed.

  Lemma merge_bot_l p q : W LV p -> W LV q -> isbot LV p = true -> E LV (m LV p q) q.
  Proof.
    intros Wp Wq B. apply (e_trans H) with (b := m LV q p); auto using (m_wf H).
    - apply (m_comm H); assumption.
    - exact (proj2 (bot_merge_r H Wq Wp B)).
  Qed.

  Lemma vis_join p q : W LV p -> W LV q -> oeq (vis (m LV p q)) (ojoin (vis p) (vis q)).
  Proof.
    intros Wp Wq. assert (Wm : W LV (m LV p q)) by (apply (m_wf H); assumption).
    unfold vis. destruct (isbot LV p) eqn:Bp, (isbot LV q) eqn:Bq; cbn [ojoin].
    - rewrite (@merge_bots_bot V LV H p q Wp Wq Bp Bq). exact I.
    - assert (Bm : isbot LV (m LV p q) = false).
      { apply (@nonbot_up V LV H q); try assumption. apply le_merge_r; assumption. }
      rewrite Bm. cbn. apply merge_bot_l; assumption.
    - assert (Bm : isbot LV (m LV p q) = false).
      { apply (@nonbot_up V LV H p); try assumption. apply le_merge_l; assumption. }
      rewrite Bm. cbn. exact (proj2 (bot_merge_r H Wp Wq Bq)).
    - assert (Bm : isbot LV (m LV p q) = false).
      { apply (@nonbot_up V LV H p); try assumption. apply le_merge_l; assumption. }
      rewrite Bm. cbn. apply (e_refl H). assumption.
  Qed.

  (* equality of maps = equality of the visible value at every key *)
  Lemma map_E_iff a b : MW a -> MW b ->
    (E (map_ops LV) a b <-> forall k, oeq (ag k a) (ag k b)).
  Proof.
    intros Wa Wb. unfold E. cbn [eqb map_ops]. rewrite (@map_eq_mle V LV H a b Wa Wb). split.
    - intros [L1 L2] k. specialize (L1 k). specialize (L2 k).
      pose proof (ow_aget k Wa) as Oa. pose proof (ow_aget k Wb) as Ob.
      destruct (ag k a) as [u|], (ag k b) as [v|]; cbn in *; try tauto.
      apply le_antisym; assumption.
    - intros Q. split; intros k; specialize (Q k);
        pose proof (ow_aget k Wa) as Oa; pose proof (ow_aget k Wb) as Ob;
        destruct (ag k a) as [u|], (ag k b) as [v|]; cbn in *; try tauto.
      + apply le_of_eq; assumption.
      + apply le_of_eq; try assumption. apply (e_sym H); assumption.
  Qed.

  (* the visible value of a merge is the join of the visible values *)
  Lemma aget_merge a b k : MW a -> MW b ->
    oeq (ag k (m (map_ops LV) a b)) (ojoin (ag k a) (ag k b)).
  Proof.
    intros Wa Wb. pose proof (@mw_nodup V LV a Wa) as Na. pose proof (@mw_nodup V LV b Wb) as Nb.
    unfold m. cbn [mrg map_ops]. unfold aget. rewrite map_merge_get by assumption.
    unfold merged_get.
    destruct (get k a) as [va|] eqn:Ga; destruct (get k b) as [vb|] eqn:Gb.
    - assert (Wva : W LV va) by exact (@mw_val V LV a k va Wa Ga).
      assert (Wvb : W LV vb) by exact (@mw_val V LV b k vb Wb Gb).
      destruct (isbot LV vb) eqn:Bb.
      + destruct (isbot LV va) eqn:Ba; cbn; [exact I|apply (e_refl H); assumption].
      + assert (Bm : isbot LV (fst (mrg LV va vb)) = false).
        { apply (@nonbot_up V LV H vb); try assumption; [apply (m_wf H); assumption|].
          apply le_merge_r; assumption. }
        rewrite Bm. destruct (isbot LV va) eqn:Ba; cbn.
        * apply merge_bot_l; assumption.
        * apply (e_refl H). apply (m_wf H); assumption.
    - assert (Wva : W LV va) by exact (@mw_val V LV a k va Wa Ga).
      destruct (isbot LV va); cbn; [exact I|apply (e_refl H); assumption].
    - assert (Wvb : W LV vb) by exact (@mw_val V LV b k vb Wb Gb).
      destruct (isbot LV vb) eqn:Bb; cbn; [exact I|]. rewrite Bb. cbn. apply (e_refl H); assumption.
    - exact I.
  Qed.

  Lemma map_bot_iff a : MW a -> (isbot (map_ops LV) a = true <-> forall k, ag k a = None).
  Proof.
    intros Wa. pose proof (@mw_nodup V LV a Wa) as Na. cbn [isbot map_ops].
    rewrite forallb_forall. split.
    - intros F k. unfold aget. destruct (get k a) as [v|] eqn:G; [|reflexivity].
      apply get_In in G. specialize (F _ G). cbn in F. rewrite F. reflexivity.
    - intros F [k v] Hi. cbn. specialize (F k). unfold aget in F.
      rewrite (@In_get V k v a Na Hi) in F. destruct (isbot LV v); [reflexivity|discriminate].
  Qed.
End MapFacts.

(* ---------------------------------------------------------------- map_union.rs: keyed *)
Section KeyedB.
  Variables VA VB VO : Type.
  Variable LA : LatOps VA.
  Variable LB : LatOps VB.
  Variable LO : LatOps VO.
  Hypothesis HA : LatLaws LA.
  Hypothesis HB : LatLaws LB.
  Hypothesis HO : LatLaws LO.
  Variable f : VA -> VB -> VO.
  Hypothesis BM : Bimorph LA LB LO f.

  Notation MA := (map_ops LA).
  Notation MB := (map_ops LB).
  Notation MO := (map_ops LO).
  Notation aga := (@aget VA LA).
  Notation agb := (@aget VB LB).
  Notation ago := (@aget VO LO).

  (* what is visible in the output: f of the visible inputs *)
  Definition obind (x : option VA) (y : option VB) : option VO :=
    match x, y with
    | Some u, Some w => vis LO (f u w)
    | _, _ => None
    end.

  Lemma obind_None_r x : obind x None = None.
  Proof. destruct x; reflexivity. Qed.

  Lemma obind_cong x x' y y' : ow LA x -> ow LA x' -> ow LB y -> ow LB y' ->
    oeq LA x x' -> oeq LB y y' -> oeq LO (obind x y) (obind x' y').
  Proof.
    destruct x as [u|], x' as [u'|], y as [w|], y' as [w'|]; cbn; try tauto.
    intros Wu Wu' Ww Ww' Qu Qw. apply (vis_cong HO); try (apply (bm_wf BM); assumption).
    apply (bm_cong BM); assumption.
  Qed.

  Lemma ow_obind x y : ow LA x -> ow LB y -> ow LO (obind x y).
  Proof.
    destruct x as [u|], y as [w|]; cbn; auto. intros Wu Ww. apply ow_vis. apply (bm_wf BM); assumption.
  Qed.

  (* obind distributes over the join of visible values, in each argument *)
  Lemma obind_join_l x dx y : ow LA x -> ow LA dx -> ow LB y ->
    oeq LO (obind (ojoin LA x dx) y) (ojoin LO (obind x y) (obind dx y)).
  Proof.
    destruct y as [w|].
    2:{ intros _ _ _. rewrite !obind_None_r. exact I. }
    destruct x as [u|], dx as [du|]; cbn [ojoin obind ow]; intros Wu Wdu Ww.
    - apply (oeq_trans HO) with (y := vis LO (m LO (f u w) (f du w))).
      + apply ow_vis. apply (bm_wf BM); [apply (m_wf HA)|]; assumption.
      + apply ow_vis. apply (m_wf HO); apply (bm_wf BM); assumption.
      + apply (ow_ojoin HO); apply ow_vis; apply (bm_wf BM); assumption.
      + apply (vis_cong HO).
        * apply (bm_wf BM); [apply (m_wf HA)|]; assumption.
        * apply (m_wf HO); apply (bm_wf BM); assumption.
        * apply (bm_l BM); assumption.
      + apply (vis_join HO); apply (bm_wf BM); assumption.
    - rewrite ojoin_None_r. apply (oeq_refl HO). apply ow_vis. apply (bm_wf BM); assumption.
    - apply (oeq_refl HO). apply ow_vis. apply (bm_wf BM); assumption.
    - exact I.
  Qed.

  Lemma obind_join_r x y dy : ow LA x -> ow LB y -> ow LB dy ->
    oeq LO (obind x (ojoin LB y dy)) (ojoin LO (obind x y) (obind x dy)).
  Proof.
    destruct x as [u|].
    2:{ intros _ _ _. exact I. }
    destruct y as [w|], dy as [dw|]; cbn [ojoin obind ow]; intros Wu Ww Wdw.
    - apply (oeq_trans HO) with (y := vis LO (m LO (f u w) (f u dw))).
      + apply ow_vis. apply (bm_wf BM); [|apply (m_wf HB)]; assumption.
      + apply ow_vis. apply (m_wf HO); apply (bm_wf BM); assumption.
      + apply (ow_ojoin HO); apply ow_vis; apply (bm_wf BM); assumption.
      + apply (vis_cong HO).
        * apply (bm_wf BM); [|apply (m_wf HB)]; assumption.
        * apply (m_wf HO); apply (bm_wf BM); assumption.
        * apply (bm_r BM); assumption.
      + apply (vis_join HO); apply (bm_wf BM); assumption.
    - rewrite ojoin_None_r. apply (oeq_refl HO). apply ow_vis. apply (bm_wf BM); assumption.
    - apply (oeq_refl HO). apply ow_vis. apply (bm_wf BM); assumption.
    - exact I.
  Qed.

  (* Any map-valued K whose output is well-formed and whose VISIBLE value at every key is
     [obind] of the visible inputs is a strict bimorphism *)
  Section Gen.
  Variable kspec : list (N * VA) -> list (N * VB) -> list (N * VO).
  Hypothesis kspec_W : forall a b, W MA a -> W MB b -> W MO (kspec a b).
  Hypothesis aget_kspec : forall a b k, W MA a -> W MB b ->
    ago k (kspec a b) = obind (aga k a) (agb k b).

  Lemma gen_bimorph : Bimorph MA MB MO kspec.
  Proof.
    pose proof (@map_laws VA LA HA) as HMA. pose proof (@map_laws VB LB HB) as HMB. pose proof (@map_laws VO LO HO) as HMO.
    split.
    - apply kspec_W.
    - intros a a' b b' Wa Wa' Wb Wb' Qa Qb.
      apply (map_E_iff HO); try (apply kspec_W; assumption). intros k.
      rewrite !aget_kspec by assumption.
      apply obind_cong; try (apply ow_aget; assumption).
      + apply (map_E_iff HA); assumption.
      + apply (map_E_iff HB); assumption.
    - intros a da b Wa Wda Wb.
      assert (Wm : W MA (m MA a da)) by (apply (m_wf HMA); assumption).
      assert (W1 : W MO (kspec a b)) by (apply kspec_W; assumption).
      assert (W2 : W MO (kspec da b)) by (apply kspec_W; assumption).
      assert (W3 : W MO (m MO (kspec a b) (kspec da b))) by (apply (m_wf HMO); assumption).
      apply (map_E_iff HO); [apply kspec_W; assumption|exact W3|]. intros k.
      rewrite aget_kspec by assumption.
      pose proof (ow_aget k Wa) as Oa. pose proof (ow_aget k Wda) as Oda.
      pose proof (ow_aget k Wb) as Ob. pose proof (ow_aget k Wm) as Om.
      (* lhs ~ obind (join) b ~ join of obinds ~ rhs *)
      apply (oeq_trans HO) with (y := obind (ojoin LA (aga k a) (aga k da)) (agb k b)).
      { apply ow_obind; assumption. }
      { apply ow_obind; [apply (ow_ojoin HA)|]; assumption. }
      { apply ow_aget; exact W3. }
      { apply obind_cong; try assumption; [apply (ow_ojoin HA); assumption| |apply (oeq_refl HB); assumption].
        apply (aget_merge HA); assumption. }
      apply (oeq_trans HO) with (y := ojoin LO (obind (aga k a) (agb k b)) (obind (aga k da) (agb k b))).
      { apply ow_obind; [apply (ow_ojoin HA)|]; assumption. }
      { apply (ow_ojoin HO); apply ow_obind; assumption. }
      { apply ow_aget; exact W3. }
      { apply obind_join_l; assumption. }
      apply (oeq_sym HO); [apply ow_aget; exact W3|apply (ow_ojoin HO); apply ow_obind; assumption|].
      rewrite <- !aget_kspec by assumption. apply (aget_merge HO); assumption.
    - intros a b db Wa Wb Wdb.
      assert (Wm : W MB (m MB b db)) by (apply (m_wf HMB); assumption).
      assert (W1 : W MO (kspec a b)) by (apply kspec_W; assumption).
      assert (W2 : W MO (kspec a db)) by (apply kspec_W; assumption).
      assert (W3 : W MO (m MO (kspec a b) (kspec a db))) by (apply (m_wf HMO); assumption).
      apply (map_E_iff HO); [apply kspec_W; assumption|exact W3|]. intros k.
      rewrite aget_kspec by assumption.
      pose proof (ow_aget k Wa) as Oa. pose proof (ow_aget k Wdb) as Odb.
      pose proof (ow_aget k Wb) as Ob. pose proof (ow_aget k Wm) as Om.
      apply (oeq_trans HO) with (y := obind (aga k a) (ojoin LB (agb k b) (agb k db))).
      { apply ow_obind; assumption. }
      { apply ow_obind; [|apply (ow_ojoin HB)]; assumption. }
      { apply ow_aget; exact W3. }
      { apply obind_cong; try assumption; [apply (ow_ojoin HB); assumption|apply (oeq_refl HA); assumption|].
        apply (aget_merge HB); assumption. }
      apply (oeq_trans HO) with (y := ojoin LO (obind (aga k a) (agb k b)) (obind (aga k a) (agb k db))).
      { apply ow_obind; [|apply (ow_ojoin HB)]; assumption. }
      { apply (ow_ojoin HO); apply ow_obind; assumption. }
      { apply ow_aget; exact W3. }
      { apply obind_join_r; assumption. }
      apply (oeq_sym HO); [apply ow_aget; exact W3|apply (ow_ojoin HO); apply ow_obind; assumption|].
      rewrite <- !aget_kspec by assumption. apply (aget_merge HO); assumption.
  Qed.

  Lemma gen_strict : Strict MA MB MO kspec.
  Proof.
    split; intros a b Wa Wb B.
    - apply (map_bot_iff (kspec_W Wa Wb)). intros k. rewrite aget_kspec by assumption.
      rewrite (proj1 (map_bot_iff Wa) B k). reflexivity.
    - apply (map_bot_iff (kspec_W Wa Wb)). intros k. rewrite aget_kspec by assumption.
      rewrite (proj1 (map_bot_iff Wb) B k). apply obind_None_r.
  Qed.
  End Gen.

  (* ------------------------------------------------------------ the loop *)
  Definition kspec (a : list (N * VA)) (b : list (N * VB)) : list (N * VO) :=
    flat_map (fun kv => match get (fst kv) b with
                        | Some vb => if isbot LA (snd kv) || isbot LB vb then []
                                     else [(fst kv, f (snd kv) vb)]
                        | None => []
                        end) a.

  Lemma keyed_fold b : forall a out, NoDup (keys a) ->
    (forall k, In k (keys a) -> ~ In k (keys out)) ->
    fold_left (keyed_step LA LB f b) a out = out ++ kspec a b.
  Proof.
    induction a as [|[k v] r IH]; intros out Hn Hd; cbn [fold_left kspec flat_map].
    - rewrite app_nil_r. reflexivity.
    - inversion Hn as [|? ? Hnot Hn']; subst. unfold keyed_step at 2. cbn [fst snd].
      assert (Hd' : forall k', In k' (keys r) -> ~ In k' (keys out)).
      { intros k' Hk'. apply Hd. right. exact Hk'. }
      destruct (get k b) as [vb|] eqn:Gb; [|cbn [app]; apply IH; assumption].
      destruct (isbot LA v || isbot LB vb); [cbn [app]; apply IH; assumption|].
      unfold map_put. cbn [fst snd].
      assert (G : get k out = None) by (apply get_None, Hd; left; reflexivity).
      rewrite G. rewrite IH; [rewrite <- app_assoc; reflexivity|exact Hn'|].
      intros k' Hk'. rewrite keys_app, in_app_iff. cbn. intros [Hs|[Hs|[]]].
      + apply (Hd k'); [right; exact Hk'|exact Hs].
      + subst. contradiction.
  Qed.

  Lemma keyed_eq a b : NoDup (keys a) -> keyed LA LB f a b = kspec a b.
  Proof.
    intros Hn. unfold keyed. rewrite keyed_fold; [reflexivity|exact Hn|]. intros k _ [].
  Qed.

  Lemma get_kspec b k : forall a, NoDup (keys a) ->
    get k (kspec a b) =
    match get k a, get k b with
    | Some va, Some vb => if isbot LA va || isbot LB vb then None else Some (f va vb)
    | _, _ => None
    end.
  Proof.
    induction a as [|[k' v] r IH]; intros Hn; cbn [kspec flat_map get fst snd]; [reflexivity|].
    inversion Hn as [|? ? Hnot Hn']; subst. fold (kspec r b). rewrite get_app.
    assert (Gr : get k' r = None) by (apply get_None; exact Hnot).
    destruct (N.eqb_spec k k') as [Q|Q].
    - subst k'. destruct (get k b) as [vb|] eqn:Gb; cbn [get].
      + destruct (isbot LA v || isbot LB vb); cbn [get].
        * rewrite (IH Hn'), Gr. reflexivity.
        * rewrite N.eqb_refl. reflexivity.
      + rewrite (IH Hn'), Gr. reflexivity.
    - destruct (get k' b) as [vb'|]; cbn [get]; [|apply IH, Hn'].
      destruct (isbot LA v || isbot LB vb'); cbn [get]; [apply IH, Hn'|].
      destruct (N.eqb_spec k k'); [contradiction|]. apply IH, Hn'.
  Qed.

  Lemma kspec_NoDup b : forall a, NoDup (keys a) -> NoDup (keys (kspec a b)).
  Proof.
    induction a as [|[k v] r IH]; intros Hn; cbn [kspec flat_map fst snd]; [constructor|].
    inversion Hn as [|? ? Hnot Hn']; subst. fold (kspec r b). rewrite keys_app.
    destruct (get k b) as [vb|]; cbn [keys map app fst]; [|apply IH, Hn'].
    destruct (isbot LA v || isbot LB vb); cbn [keys map app fst]; [apply IH, Hn'|].
    constructor; [|apply IH, Hn']. apply get_None. rewrite (get_kspec b k r Hn').
    assert (G : get k r = None) by (apply get_None; exact Hnot). rewrite G. reflexivity.
  Qed.

  Lemma kspec_W a b : W MA a -> W MB b -> W MO (kspec a b).
  Proof.
    intros Wa Wb. pose proof (@mw_nodup VA LA a Wa) as Na. apply mw_intro.
    - apply kspec_NoDup, Na.
    - intros k v Hi. apply In_get in Hi; [|apply kspec_NoDup, Na].
      rewrite (get_kspec b k a Na) in Hi.
      destruct (get k a) as [va|] eqn:Ga; [|discriminate].
      destruct (get k b) as [vb|] eqn:Gb; [|discriminate].
      destruct (isbot LA va || isbot LB vb); [discriminate|]. inversion Hi; subst.
      apply (bm_wf BM); [exact (@mw_val VA LA a k va Wa Ga)|exact (@mw_val VB LB b k vb Wb Gb)].
  Qed.

  (* no strictness of f needed: bottom inputs are skipped by the loop itself *)
  Lemma aget_kspec a b k : W MA a -> W MB b -> ago k (kspec a b) = obind (aga k a) (agb k b).
  Proof.
    intros Wa Wb. pose proof (@mw_nodup VA LA a Wa) as Na.
    unfold aget. rewrite (get_kspec b k a Na).
    destruct (get k a) as [va|] eqn:Ga; [|reflexivity].
    destruct (get k b) as [vb|] eqn:Gb; [|destruct (isbot LA va); reflexivity].
    destruct (isbot LA va), (isbot LB vb); reflexivity.
  Qed.

  Theorem keyed_bimorph :
    Bimorph MA MB MO (keyed LA LB f) /\ Strict MA MB MO (keyed LA LB f).
  Proof.
    pose proof (@map_laws VA LA HA) as HMA. pose proof (@map_laws VB LB HB) as HMB.
    assert (Q : forall a b, W MA a -> keyed LA LB f a b = kspec a b).
    { intros a b Wa. apply keyed_eq. exact (@mw_nodup VA LA a Wa). }
    assert (KB : Bimorph MA MB MO kspec).
    { apply gen_bimorph; [exact kspec_W|intros; apply aget_kspec; assumption]. }
    assert (KS : Strict MA MB MO kspec).
    { apply gen_strict; [exact kspec_W|intros; apply aget_kspec; assumption]. }
    destruct KB as [K1 K2 K3 K4]. destruct KS as [S1 S2].
    split; split.
    - intros a b Wa Wb. rewrite Q by assumption. auto.
    - intros a a' b b' Wa Wa' Wb Wb'. rewrite !Q by assumption. auto.
    - intros a da b Wa Wda Wb. rewrite !Q by (try assumption; apply (m_wf HMA); assumption). auto.
    - intros a b db Wa Wb Wdb. rewrite !Q by assumption. auto.
    - intros a b Wa Wb. rewrite Q by assumption. auto.
    - intros a b Wa Wb. rewrite Q by assumption. auto.
  Qed.
End KeyedB.

(* ---------------------------------------------------------------- induction on the shape *)
Lemma types_ok_key_total s : types_ok s = true ->
  key_total (ty_a s) = true /\ key_total (ty_b s) = true /\ key_total (ty_o s) = true.
Proof.
  induction s; cbn; intros OK; auto.
  apply andb_true_iff in OK. destruct OK as [Ka Kb]. rewrite Ka, Kb. auto.
Qed.

(* EVERY shape -- Cartesian, Pair, and any number of KeyedBimorphisms around either *)
Theorem shape_bimorph s : shape_ok s = true ->
  Bimorph (ops (ty_a s)) (ops (ty_b s)) (ops (ty_o s)) (bapply s).
Proof.
  unfold shape_ok. induction s as [|ta tb|s IH]; cbn [types_ok]; intros OK.
  - exact cart_bimorph.
  - apply andb_true_iff in OK. destruct OK as [Ka Kb]. cbn [ty_a ty_b ty_o ops bapply].
    apply pair_bimorph; apply laws; assumption.
  - destruct (types_ok_key_total s OK) as [Ka [Kb Ko]].
    cbn [ty_a ty_b ty_o ops bapply].
    apply keyed_bimorph; auto using laws.
Qed.

(* every KeyedBimorphism maps bottom (in either argument) to bottom, whatever it wraps *)
Theorem keyed_shape_strict s : shape_ok s = true ->
  Strict (ops (ty_a (BKeyed s))) (ops (ty_b (BKeyed s))) (ops (ty_o (BKeyed s))) (bapply (BKeyed s)).
Proof.
  unfold shape_ok. intros OK. destruct (types_ok_key_total s OK) as [Ka [Kb Ko]].
  cbn [ty_a ty_b ty_o ops bapply].
  apply keyed_bimorph; auto using laws. apply shape_bimorph, OK.
Qed.

(* the executable form holds of the model's own observation *)
Theorem holds_b_model s : shape_ok s = true ->
  forall (a da : val (ty_a s)) (b db : val (ty_b s)),
    W (ops (ty_a s)) a -> W (ops (ty_a s)) da -> W (ops (ty_b s)) b -> W (ops (ty_b s)) db ->
    C07_holds_b s (model_bobs s a da b db) = true.
Proof.
  intros OK a da b db Wa Wda Wb Wdb. pose proof (shape_bimorph s OK) as BM.
  unfold C07_holds_b, model_bobs, model_bobs_gen. cbn [bo_eq_l bo_eq_r]. apply andb_true_iff. split.
  - exact (bm_l BM Wa Wda Wb).
  - exact (bm_r BM Wa Wb Wdb).
Qed.

(* PairBimorphism is not strict *)
Lemma pair_not_strict_refuted :
  exists (a : val TSet) (b : val TSet), W (ops TSet) a /\ W (ops TSet) b /\
    isbot (ops TSet) a = true /\ isbot (ops (TPair TSet TSet)) (bapply (BPair TSet TSet) a b) = false.
Proof. exists [], [1%N]. repeat split. Qed.

(* HISTORICAL (former finding keyed/inner-not-bottom-preserving, fixed by repo commit
   77f6722ffe1): the loop without the is_bot test, around PairBimorphism, did not distribute: a
   delta entry whose value is bottom is skipped by MapUnion's merge on the input side, but its
   image (bottom, vb) is a non-bottom Pair that survived on the output side. *)
Lemma keyed_old_pair_witness :
  let LS := ops TSet in let LO := ops (TMap (TPair TSet TSet)) in
  let f := keyed_old (@pairb (val TSet) (val TSet)) in
  let a : val (TMap TSet) := [] in let da : val (TMap TSet) := [(0%N, [])] in
  let b : val (TMap TSet) := [(0%N, [1%N])] in
  ~ E LO (f (m (ops (TMap TSet)) a da) b) (m LO (f a b) (f da b)).
Proof. intros LS LO f a da b Q. vm_compute in Q. discriminate. Qed.

(* the same input on the current loop *)
Example keyed_on_former_witness :
  let s := BKeyed (BPair TSet TSet) in
  let a : val (ty_a s) := [] in let da : val (ty_a s) := [(0%N, [])] in
  let b : val (ty_b s) := [(0%N, [1%N])] in
  bapply s (m (ops (ty_a s)) a da) b = [] /\
  m (ops (ty_o s)) (bapply s a b) (bapply s da b) = [].
Proof. split; reflexivity. Qed.
