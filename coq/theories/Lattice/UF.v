(* E1 Lattice engine -- union-find lattice (the union-find part of C04).
   Executable model of /repo/lattices/src/union_find.rs, transcribed branch by branch.
   Definitions only.

   The parent map (HashMap / BTreeMap / VecMap of Cell<K>) is an association list
   [list (N * N)] (Model.get / set_at / map_put); an item without an entry is its own root.
   Mutation through Cell (path compression inside the &self methods find / same /
   partial_cmp / eq) is state passing: every operation returns the new map.
   The two `while` loops of find take explicit fuel and answer OutOfFuel when it runs out;
   `.unwrap()` on a missing entry is Panicked. *)
From HV Require Export Lattice.Model.
Set Implicit Arguments.

Definition uf : Type := list (N * N).

Inductive res (A : Type) : Type :=
| Ok (a : A)
| OutOfFuel
| Panicked.
Arguments Ok {A} a.
Arguments OutOfFuel {A}.
Arguments Panicked {A}.

Definition bind A B (x : res A) (f : A -> res B) : res B :=
  match x with
  | Ok a => f a
  | OutOfFuel => OutOfFuel
  | Panicked => Panicked
  end.

(* first loop of find:
     let mut root = item;
     while let Some(parent) = self.0.get(&root) {
         if parent.get() == root { break; }                          // root is the representative
         if parent.get() == item { parent.set(root); break; }        // loop detected, close the end
         root = parent.get();
     } *)
Fixpoint find_root (fuel : nat) (s : uf) (item root : N) : res (N * uf) :=
  match fuel with
  | O => OutOfFuel
  | S f =>
    match get root s with
    | None => Ok (root, s)
    | Some parent =>
      if N.eqb parent root then Ok (root, s)
      else if N.eqb parent item then Ok (root, set_at root root s)
      else find_root f s item parent
    end
  end.

(* second loop:  while item != root { item = self.0.get(&item).unwrap().replace(root); } *)
Fixpoint compress (fuel : nat) (s : uf) (item root : N) : res uf :=
  match fuel with
  | O => OutOfFuel
  | S f =>
    if N.eqb item root then Ok s
    else match get item s with
         | None => Panicked
         | Some p => compress f (set_at item root s) p root
         end
  end.

Definition find (fuel : nat) (s : uf) (item : N) : res (N * uf) :=
  bind (find_root fuel s item item) (fun rs =>
  bind (compress fuel (snd rs) item (fst rs)) (fun s2 => Ok (fst rs, s2))).

(* the fuel every operation below uses: enough for every forest and every pure cycle *)
Definition dfuel (s : uf) : nat := S (length s).

(* union: insert(b_root, a_root) unless the roots coincide; the flag is the returned Min<bool> *)
Definition union (s : uf) (a b : N) : res (uf * bool) :=
  bind (find (dfuel s) s a) (fun r1 =>
  bind (find (dfuel (snd r1)) (snd r1) b) (fun r2 =>
  if N.eqb (fst r1) (fst r2) then Ok (snd r2, false)
  else Ok (map_put (snd r2) (fst r2, fst r1), true))).

(* same: a == b || self.find(a) == self.find(b)   (short circuit: no find when a == b) *)
Definition same (s : uf) (a b : N) : res (uf * bool) :=
  if N.eqb a b then Ok (s, true) else
  bind (find (dfuel s) s a) (fun r1 =>
  bind (find (dfuel (snd r1)) (snd r1) b) (fun r2 =>
  Ok (snd r2, N.eqb (fst r1) (fst r2)))).

(* Merge::merge: for (item, parent) in other.0 { changed |= self.union(item, parent.get()) } *)
Fixpoint merge_go (s : uf) (changed : bool) (o : uf) : res (uf * bool) :=
  match o with
  | [] => Ok (s, changed)
  | (item, parent) :: r =>
    bind (union s item parent) (fun sc => merge_go (fst sc) (changed || snd sc) r)
  end.
Definition merge (s o : uf) : res (uf * bool) := merge_go s false o.

(* entries.iter().any(|(item, parent)| not o.same(item, parent)) -- stops at the first hit;
   returns the (compressed) o *)
Fixpoint any_not_same (o : uf) (entries : uf) : res (uf * bool) :=
  match entries with
  | [] => Ok (o, false)
  | (item, parent) :: r =>
    bind (same o item parent) (fun ob =>
    if snd ob then any_not_same (fst ob) r else Ok (fst ob, true))
  end.

(* partial_cmp: both maps get compressed; result ((self', other'), ordering) *)
Definition pcmp (a b : uf) : res (uf * uf * option comparison) :=
  bind (any_not_same b a) (fun r1 =>        (* self_any_greater, walks self, compresses other *)
  bind (any_not_same a (fst r1)) (fun r2 => (* other_any_greater, walks other, compresses self *)
  Ok (fst r2, fst r1,
      match snd r1, snd r2 with
      | true, true => None
      | true, false => Some Gt
      | false, true => Some Lt
      | false, false => Some Eq
      end))).

(* eq: !(A || B), B not evaluated when A holds *)
Definition peq (a b : uf) : res (uf * uf * bool) :=
  bind (any_not_same b a) (fun r1 =>
  if snd r1 then Ok (a, fst r1, false)
  else bind (any_not_same a (fst r1)) (fun r2 => Ok (fst r2, fst r1, negb (snd r2)))).

Definition uf_isbot (s : uf) : bool := forallb (fun kv => N.eqb (fst kv) (snd kv)) s.

(* atomize: the non-trivial entries, each as a singleton-map union-find *)
Definition uf_atomize (s : uf) : list uf :=
  map (fun kv => [kv]) (filter (fun kv => negb (N.eqb (fst kv) (snd kv))) s).

(* ------------------------------------------------------------------ the lattice record
   an item without an entry is its own root *)
Definition par (s : uf) (x : N) : N := match get x s with Some p => p | None => x end.

Fixpoint piter (n : nat) (s : uf) (x : N) : N :=
  match n with
  | O => x
  | S n' => piter n' s (par s x)
  end.

(* executable forest check: following the parents from any key for |map| steps ends in a root
   (this is what excludes cycles: new / new_from accept any map) *)
Definition forestb (s : uf) : bool :=
  forallb (fun k => let r := piter (length s) s k in N.eqb (par s r) r) (keys s).

Definition uf_wf (s : uf) : bool := forestb s && nodupb (keys s).

(* LatOps wants total functions; on well-formed maps the res-valued operations never fail
   (PUF.v), the fall-back branches are unreachable there.  The compressed copies that
   partial_cmp / eq leave behind are dropped: they denote the same partition. *)
Definition uf_ops : LatOps uf := {|
  wf := uf_wf;
  mrg := fun a b => match merge a b with Ok r => r | _ => (a, false) end;
  cmp := fun a b => match pcmp a b with Ok r => snd r | _ => None end;
  eqb := fun a b => match peq a b with Ok r => snd r | _ => false end;
  isbot := uf_isbot;
  istop := fun _ => false;
|}.

(* ------------------------------------------------------------------ histories
   A union-find value is built from Default by unions, merges of other values (themselves
   built by histories) and -- because they compress paths -- same / partial_cmp / eq / is_bot
   queries.  The outermost constructor is the LAST operation.  HRaw starts from an arbitrary
   parent map instead (new_from: malformed inputs; not a reachable state). *)
Inductive hist : Type :=
| HNil
| HRaw (raw : uf)
| HUnion (h : hist) (a b : N)
| HSame (h : hist) (a b : N)
| HMerge (h o : hist)
| HCmp (h o : hist)
| HBot (h : hist).

Fixpoint pure (h : hist) : bool :=
  match h with
  | HNil => true
  | HRaw _ => false
  | HUnion h _ _ | HSame h _ _ | HBot h => pure h
  | HMerge h o | HCmp h o => pure h && pure o
  end.

(* all pairs ever unioned in, directly or through merged-in values *)
Fixpoint pairs (h : hist) : list (N * N) :=
  match h with
  | HNil => []
  | HRaw raw => raw
  | HUnion h a b => (a, b) :: pairs h
  | HSame h _ _ | HBot h | HCmp h _ => pairs h
  | HMerge h o => pairs o ++ pairs h
  end.

Definition b2n (b : bool) : N := if b then 1%N else 0%N.
Definition cmp2n (c : option comparison) : N :=
  match c with Some Lt => 0 | Some Eq => 1 | Some Gt => 2 | None => 3 end%N.

(* final map + the answers of all operations in chronological order
   (union / merge: returned flag; same: answer; cmp: 2 * ordering code + eq; is_bot) *)
Fixpoint run (h : hist) : res (uf * list N) :=
  match h with
  | HNil => Ok ([], [])
  | HRaw raw => Ok (raw, [])
  | HUnion h a b =>
    bind (run h) (fun so => bind (union (fst so) a b) (fun sf =>
      Ok (fst sf, snd so ++ [b2n (snd sf)])))
  | HSame h a b =>
    bind (run h) (fun so => bind (same (fst so) a b) (fun sf =>
      Ok (fst sf, snd so ++ [b2n (snd sf)])))
  | HMerge h o =>
    bind (run h) (fun so => bind (run o) (fun oo => bind (merge (fst so) (fst oo)) (fun sf =>
      Ok (fst sf, snd so ++ snd oo ++ [b2n (snd sf)]))))
  | HCmp h o =>
    bind (run h) (fun so => bind (run o) (fun oo =>
    bind (pcmp (fst so) (fst oo)) (fun c =>
    bind (peq (fst (fst c)) (snd (fst c))) (fun e =>
      Ok (fst (fst e), snd so ++ snd oo ++ [(2 * cmp2n (snd c) + b2n (snd e))%N])))))
  | HBot h =>
    bind (run h) (fun so => Ok (fst so, snd so ++ [b2n (uf_isbot (fst so))]))
  end.

(* ------------------------------------------------------------------ correspondence check *)
Inductive iout : Type :=
| IRes (answers : list N)
| IHang
| IPanic.

Fixpoint nlist_eqb (a b : list N) : bool :=
  match a, b with
  | [], [] => true
  | x :: a', y :: b' => N.eqb x y && nlist_eqb a' b'
  | _, _ => false
  end.

(* the implementation agrees with the model: same answers; a hang where the model runs out of
   fuel; a panic where the model panics *)
Definition uf_agree (i : iout) (mo : res (uf * list N)) : bool :=
  match i, mo with
  | IRes l, Ok (_, l') => nlist_eqb l l'
  | IHang, OutOfFuel => true
  | IPanic, Panicked => true
  | _, _ => false
  end.

(* verdict: bit 0 = differs from the model, bit 1 = the implementation's answers differ from
   the independent closure oracle's expected answers (None = no expectation: malformed input) *)
Definition chk_uf (h : hist) (i : iout) (oracle : option (list N)) : N :=
  ((if uf_agree i (run h) then 0 else 1) +
   (match oracle, i with
    | Some exp, IRes l => if nlist_eqb l exp then 0 else 2
    | Some _, _ => 2
    | None, _ => 0
    end))%N.

Fixpoint bad_from (n : N) (l : list N) : list (N * N) :=
  match l with
  | [] => []
  | v :: r => if N.eqb v 0 then bad_from (n + 1) r else (n, v) :: bad_from (n + 1) r
  end.
Definition bad (l : list N) : list (N * N) := bad_from 0 l.
