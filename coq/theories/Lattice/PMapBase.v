(* E1 proofs: map_union.rs, part 1 -- association-list facts and the characterisation of
   Merge::merge (the fold with in-place updates + deferred extend) by lookups. *)
From HV Require Import Lattice.Model Lattice.Ord Lattice.PSet.

Section MapBase.
  Variable V : Type.
  Variable LV : LatOps V.

  Notation mp := (list (N * V)).

  Lemma get_In k (l : mp) v : get k l = Some v -> In (k, v) l.
  Proof.
    induction l as [|[k' v'] r IH]; cbn; [discriminate|].
    destruct (N.eqb_spec k k'); intros Hg.
    - inversion Hg; subst. left. reflexivity.
    - right. apply IH, Hg.
  Qed.

  Lemma get_None k (l : mp) : get k l = None <-> ~ In k (keys l).
  Proof.
    induction l as [|[k' v'] r IH]; cbn; [tauto|].
    destruct (N.eqb_spec k k'); subst.
    - split; [discriminate|]. intros Hn. exfalso. apply Hn. left. reflexivity.
    - rewrite IH. intuition.
  Qed.

  Lemma get_Some_key k (l : mp) v : get k l = Some v -> In k (keys l).
  Proof. intros Hg. apply get_In in Hg. apply (in_map fst) in Hg. exact Hg. Qed.

  Lemma In_get k v (l : mp) : NoDup (keys l) -> In (k, v) l -> get k l = Some v.
  Proof.
    induction l as [|[k' v'] r IH]; cbn; [tauto|]. intros Hn [Hi|Hi].
    - inversion Hi; subst. rewrite N.eqb_refl. reflexivity.
    - inversion Hn; subst. destruct (N.eqb_spec k k'); subst.
      + exfalso. apply H1. apply (in_map fst) in Hi. exact Hi.
      + apply IH; assumption.
  Qed.

  Lemma keys_set_at k v (l : mp) : keys (set_at k v l) = keys l.
  Proof.
    induction l as [|[k' v'] r IH]; cbn; [reflexivity|].
    destruct (N.eqb k k'); cbn; [reflexivity|]. f_equal. exact IH.
  Qed.

  Lemma get_set_at k v (l : mp) k0 :
    get k0 (set_at k v l) =
    if N.eqb k0 k then (match get k l with Some _ => Some v | None => None end) else get k0 l.
  Proof.
    induction l as [|[k' v'] r IH]; cbn.
    - destruct (N.eqb k0 k); reflexivity.
    - destruct (N.eqb_spec k k'); subst; cbn.
      + destruct (N.eqb_spec k0 k'); reflexivity.
      + destruct (N.eqb_spec k0 k'); subst.
        * destruct (N.eqb_spec k' k); [congruence|reflexivity].
        * exact IH.
  Qed.

  Lemma get_app k (l1 l2 : mp) :
    get k (l1 ++ l2) = match get k l1 with Some v => Some v | None => get k l2 end.
  Proof.
    induction l1 as [|[k' v'] r IH]; cbn; [reflexivity|].
    destruct (N.eqb k k'); [reflexivity|exact IH].
  Qed.

  Lemma NoDup_app_disj {T} (l1 l2 : list T) : NoDup l1 -> NoDup l2 ->
    (forall x, In x l1 -> In x l2 -> False) -> NoDup (l1 ++ l2).
  Proof.
    induction l1 as [|x r IH]; cbn; intros N1 N2 D; [exact N2|].
    inversion N1; subst. constructor.
    - rewrite in_app_iff. intros [Hi|Hi]; [contradiction|]. apply (D x); [left; reflexivity|exact Hi].
    - apply IH; try assumption. intros y Hy. apply D. right. exact Hy.
  Qed.

  Lemma keys_app (l1 l2 : mp) : keys (l1 ++ l2) = keys l1 ++ keys l2.
  Proof. apply map_app. Qed.

  Lemma get_filter (P : N * V -> bool) k (l : mp) : NoDup (keys l) ->
    get k (filter P l) =
    match get k l with Some v => if P (k, v) then Some v else None | None => None end.
  Proof.
    induction l as [|[k' v'] r IH]; cbn; [reflexivity|]. intros Hn. inversion Hn; subst.
    destruct (P (k', v')) eqn:Pk; cbn.
    - destruct (N.eqb_spec k k'); subst; [rewrite Pk; reflexivity|apply IH; assumption].
    - destruct (N.eqb_spec k k'); subst.
      + rewrite Pk. rewrite IH by assumption.
        assert (G : get k' r = None) by (apply get_None; assumption). rewrite G. reflexivity.
      + apply IH; assumption.
  Qed.

  Lemma keys_filter_incl (P : N * V -> bool) (l : mp) k : In k (keys (filter P l)) -> In k (keys l).
  Proof.
    unfold keys. rewrite !in_map_iff. intros [[k' v] [Hk Hi]]. apply filter_In in Hi.
    exists (k', v). tauto.
  Qed.

  Lemma NoDup_keys_filter (P : N * V -> bool) (l : mp) : NoDup (keys l) -> NoDup (keys (filter P l)).
  Proof.
    induction l as [|[k v] r IH]; cbn; [trivial|]. intros Hn. inversion Hn; subst.
    destruct (P (k, v)); cbn; [|apply IH; assumption].
    constructor; [|apply IH; assumption]. intros Hi. apply H1.
    apply keys_filter_incl in Hi. exact Hi.
  Qed.

  (* extending with fresh, pairwise distinct keys appends *)
  Lemma put_fresh (news : mp) : forall self,
    NoDup (keys news) -> (forall k, In k (keys news) -> ~ In k (keys self)) ->
    fold_left (@map_put V) news self = self ++ news.
  Proof.
    induction news as [|[k v] r IH]; intros self Hn Hd; cbn.
    - rewrite app_nil_r. reflexivity.
    - inversion Hn; subst. unfold map_put at 2. cbn [fst snd].
      assert (G : get k self = None) by (apply get_None, Hd; left; reflexivity).
      rewrite G. rewrite IH; try assumption.
      + rewrite <- app_assoc. reflexivity.
      + intros k' Hk'. rewrite keys_app, in_app_iff. cbn. intros [Hs|[Hs|[]]].
        * apply (Hd k'); [right; exact Hk'|exact Hs].
        * subst. contradiction.
  Qed.

  (* ---------------------------------------------------------------- the merge fold *)
  Definition upd (self : mp) (kv : N * V) : bool :=
    negb (isbot LV (snd kv)) &&
    match get (fst kv) self with None => true | Some vs => snd (mrg LV vs (snd kv)) end.

  Definition isnew (self : mp) (kv : N * V) : bool :=
    negb (isbot LV (snd kv)) && negb (mem (fst kv) (keys self)).

  Lemma mem_keys_get k (l : mp) : mem k (keys l) = match get k l with Some _ => true | None => false end.
  Proof.
    destruct (get k l) eqn:G.
    - apply mem_In. apply get_Some_key in G. exact G.
    - apply mem_false. apply get_None. exact G.
  Qed.

  Lemma filter_isnew_cons self k0 v0 (r : mp) :
    filter (isnew self) ((k0, v0) :: r) =
    if negb (isbot LV v0) && negb (mem k0 (keys self))
    then (k0, v0) :: filter (isnew self) r else filter (isnew self) r.
  Proof. reflexivity. Qed.

  Lemma existsb_upd_cons self k0 v0 (r : mp) :
    existsb (upd self) ((k0, v0) :: r) =
    (negb (isbot LV v0) &&
     match get k0 self with None => true | Some vs => snd (mrg LV vs v0) end)
    || existsb (upd self) r.
  Proof. reflexivity. Qed.

  Lemma step_eq self chg news k v :
    map_merge_step LV (self, chg, news) (k, v) =
    if isbot LV v then (self, chg, news)
    else match get k self with
         | Some vs => (set_at k (fst (mrg LV vs v)) self, chg || snd (mrg LV vs v), news)
         | None => (self, true, news ++ [(k, v)])
         end.
  Proof. reflexivity. Qed.

  Definition run (l : mp) self chg news := fold_left (map_merge_step LV) l (self, chg, news).

  Lemma fold_step_spec (l : mp) : forall self chg news, NoDup (keys l) ->
    keys (fst (fst (run l self chg news))) = keys self /\
    snd (run l self chg news) = news ++ filter (isnew self) l /\
    snd (fst (run l self chg news)) = chg || existsb (upd self) l /\
    forall k, get k (fst (fst (run l self chg news))) =
      match get k self with
      | None => None
      | Some vs => match get k l with
                   | Some v => if isbot LV v then Some vs else Some (fst (mrg LV vs v))
                   | None => Some vs
                   end
      end.
  Proof.
    induction l as [|[k0 v0] r IH]; intros self chg news Hn; unfold run; cbn [fold_left].
    - cbn. rewrite app_nil_r, orb_false_r. repeat split; try reflexivity.
      intros k. destruct (get k self); reflexivity.
    - inversion Hn as [|? ? Hnot Hn']; subst.
      rewrite step_eq.
      assert (Gr : get k0 r = None) by (apply get_None; exact Hnot).
      destruct (isbot LV v0) eqn:B0.
      + (* bottom entries are skipped *)
        destruct (IH self chg news Hn') as [K [Nw [Cg G]]]. unfold run in K, Nw, Cg, G. repeat split.
        * exact K.
        * rewrite Nw, filter_isnew_cons, B0. reflexivity.
        * rewrite Cg, existsb_upd_cons, B0. reflexivity.
        * intros k. rewrite G. cbn [get]. destruct (get k self) as [vs|]; [|reflexivity].
          destruct (N.eqb_spec k k0); subst; [rewrite Gr, B0; reflexivity|reflexivity].
      + destruct (get k0 self) as [vs0|] eqn:G0.
        * (* in-place merge *)
          set (self1 := set_at k0 (fst (mrg LV vs0 v0)) self).
          destruct (IH self1 (chg || snd (mrg LV vs0 v0)) news Hn') as [K [Nw [Cg G]]]. unfold run in K, Nw, Cg, G.
          assert (K1 : keys self1 = keys self) by apply keys_set_at.
          assert (Gs : forall k, k <> k0 -> get k self1 = get k self).
          { intros k Hk. unfold self1. rewrite get_set_at.
            destruct (N.eqb_spec k k0); [contradiction|reflexivity]. }
          assert (Ext : forall P Q : N * V -> bool,
                     (forall kv, In kv r -> P kv = Q kv) -> filter P r = filter Q r).
          { intros P Q HPQ. clear - HPQ. induction r as [|x r' IHr]; cbn; [reflexivity|].
            rewrite (HPQ x) by (left; reflexivity). rewrite IHr; [reflexivity|].
            intros kv Hk. apply HPQ. right. exact Hk. }
          assert (Ext2 : forall P Q : N * V -> bool,
                     (forall kv, In kv r -> P kv = Q kv) -> existsb P r = existsb Q r).
          { intros P Q HPQ. clear - HPQ. induction r as [|x r' IHr]; cbn; [reflexivity|].
            rewrite (HPQ x) by (left; reflexivity). rewrite IHr; [reflexivity|].
            intros kv Hk. apply HPQ. right. exact Hk. }
          assert (Kne : forall kv, In kv r -> fst kv <> k0).
          { intros [k v] Hi Hk. cbn in Hk. subst. apply Hnot. apply (in_map fst) in Hi. exact Hi. }
          repeat split.
          -- rewrite K. exact K1.
          -- rewrite Nw, filter_isnew_cons, B0, mem_keys_get, G0. cbn [negb andb]. f_equal.
             apply Ext. intros kv Hi. unfold isnew. rewrite K1. reflexivity.
          -- rewrite Cg, existsb_upd_cons, B0, G0. cbn [negb andb].
             rewrite <- orb_assoc. f_equal. f_equal.
             apply Ext2. intros kv Hi. unfold upd. rewrite (Gs (fst kv)) by (apply Kne; exact Hi).
             reflexivity.
          -- intros k. rewrite G. cbn [get]. destruct (N.eqb_spec k k0); subst.
             ++ unfold self1. rewrite get_set_at, N.eqb_refl, G0, Gr, B0. reflexivity.
             ++ rewrite (Gs k) by assumption. reflexivity.
        * (* collected for the final extend *)
          destruct (IH self true (news ++ [(k0, v0)]) Hn') as [K [Nw [Cg G]]]. unfold run in K, Nw, Cg, G. repeat split.
          -- exact K.
          -- rewrite Nw, filter_isnew_cons, B0, mem_keys_get, G0. cbn [negb andb].
             rewrite <- app_assoc. reflexivity.
          -- rewrite Cg, existsb_upd_cons, B0, G0. cbn [negb andb orb].
             rewrite orb_true_r. reflexivity.
          -- intros k. rewrite G. cbn [get]. destruct (get k self) as [vs|] eqn:Gk; [|reflexivity].
             destruct (N.eqb_spec k k0); subst; [congruence|reflexivity].
  Qed.

  (* lookups in the merged map *)
  Definition merged_get (a b : mp) (k : N) : option V :=
    match get k a, get k b with
    | Some va, Some vb => if isbot LV vb then Some va else Some (fst (mrg LV va vb))
    | Some va, None => Some va
    | None, Some vb => if isbot LV vb then None else Some vb
    | None, None => None
    end.

  Lemma map_merge_parts (a b : mp) : NoDup (keys a) -> NoDup (keys b) ->
    exists self, fst (map_merge LV a b) = self ++ filter (isnew a) b /\
      keys self = keys a /\
      snd (map_merge LV a b) = existsb (upd a) b /\
      forall k, get k self =
        match get k a with
        | None => None
        | Some vs => match get k b with
                     | Some v => if isbot LV v then Some vs else Some (fst (mrg LV vs v))
                     | None => Some vs
                     end
        end.
  Proof.
    intros Na Nb. unfold map_merge.
    pose proof (fold_step_spec b a false [] Nb) as S. unfold run in S.
    destruct (fold_left (map_merge_step LV) b (a, false, [])) as [[self chg] news].
    cbn [fst snd] in S. destruct S as [K [Nw [Cg G]]]. cbn [app orb] in Nw, Cg.
    exists self. cbn [fst snd]. repeat split; try assumption.
    subst news. apply put_fresh.
    - apply NoDup_keys_filter. exact Nb.
    - intros k Hk Hs. rewrite K in Hs.
      unfold keys in Hk. apply in_map_iff in Hk. destruct Hk as [[k' v] [Hk Hi]]. cbn in Hk. subst k'.
      apply filter_In in Hi. destruct Hi as [_ Hi]. unfold isnew in Hi. cbn [fst snd] in Hi.
      apply andb_true_iff in Hi. destruct Hi as [_ Hi]. apply negb_true_iff in Hi.
      apply mem_false in Hi. contradiction.
  Qed.

  Lemma map_merge_get (a b : mp) k : NoDup (keys a) -> NoDup (keys b) ->
    get k (fst (map_merge LV a b)) = merged_get a b k.
  Proof.
    intros Na Nb. destruct (map_merge_parts a b Na Nb) as [self [F [K [_ G]]]].
    rewrite F, get_app, G. unfold merged_get.
    destruct (get k a) as [va|] eqn:Ga.
    - destruct (get k b) as [vb|]; [destruct (isbot LV vb)|]; reflexivity.
    - rewrite get_filter by assumption. destruct (get k b) as [vb|]; [|reflexivity].
      unfold isnew. cbn [fst snd]. rewrite mem_keys_get, Ga. cbn.
      destruct (isbot LV vb); reflexivity.
  Qed.

  Lemma map_merge_keys_NoDup (a b : mp) : NoDup (keys a) -> NoDup (keys b) ->
    NoDup (keys (fst (map_merge LV a b))).
  Proof.
    intros Na Nb. destruct (map_merge_parts a b Na Nb) as [self [F [K _]]].
    rewrite F, keys_app, K. apply NoDup_app_disj.
    - exact Na.
    - apply NoDup_keys_filter. exact Nb.
    - intros k Ha Hk.
      unfold keys in Hk. apply in_map_iff in Hk. destruct Hk as [[k' v] [Hk Hi]]. cbn in Hk. subst k'.
      apply filter_In in Hi. destruct Hi as [_ Hi]. unfold isnew in Hi. cbn [fst snd] in Hi.
      apply andb_true_iff in Hi. destruct Hi as [_ Hi]. apply negb_true_iff in Hi.
      apply mem_false in Hi. contradiction.
  Qed.

  Lemma map_merge_changed (a b : mp) : NoDup (keys a) -> NoDup (keys b) ->
    snd (map_merge LV a b) = existsb (upd a) b.
  Proof.
    intros Na Nb. destruct (map_merge_parts a b Na Nb) as [self [_ [_ [C _]]]]. exact C.
  Qed.
End MapBase.
