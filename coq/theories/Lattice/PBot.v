(* E1 proofs: with_bot.rs and with_top.rs *)
From HV Require Import Lattice.Model Lattice.Ord.

Section Bot.
  Variable V : Type.
  Variable LV : LatOps V.
  Hypothesis H : LatLaws LV.

  Definition bot_le (a b : option V) : Prop :=
    match a, b with
    | None, _ => True
    | Some va, None => isbot LV va = true
    | Some va, Some vb => Le LV va vb
    end.

  Local Ltac unf := unfold W, E, m, ch in *;
    cbn [wf mrg cmp eqb isbot istop bot_ops bot_merge bot_cmp bot_eqb fst snd] in *.

  Lemma merge_bots_bot va vb : W LV va -> W LV vb ->
    isbot LV va = true -> isbot LV vb = true -> isbot LV (m LV va vb) = true.
  Proof.
    intros Wa Wb Ba Bb. apply (bot_spec H (m_wf H Wa Wb)). intros c Wc.
    apply le_lub; auto using bot_least.
  Qed.

  Lemma bot_ord : OrdLaws (bot_ops LV) bot_le.
  Proof.
    split.
    - intros [va|] Wa; cbn; [apply le_refl; assumption|exact I].
    - intros [va|] [vb|] [vc|] Wa Wb Wc; cbn; intros H1 H2; try exact I; unf.
      + apply le_trans with (b := vb); assumption.
      + apply (le_bot_is_bot H Wa Wb); assumption.
      + apply bot_least; assumption.
      + assumption.
    - intros [va|] [vb|] Wa Wb; unf; cbn.
      + split.
        * intros Q. split; apply le_of_eq; auto using (e_sym H).
        * intros [H1 H2]. apply le_antisym; assumption.
      + tauto.
      + tauto.
      + tauto.
    - intros [va|] [vb|] Wa Wb; unf; cbn; try assumption; try reflexivity.
      + apply (m_wf H); assumption.
      + destruct (isbot LV vb); cbn; [reflexivity|assumption].
    - intros [va|] [vb|] Wa Wb; unf; cbn; try exact I.
      + apply le_merge_l; assumption.
      + apply le_refl; assumption.
    - intros [va|] [vb|] Wa Wb; unf; cbn; try exact I.
      + apply le_merge_r; assumption.
      + destruct (isbot LV vb) eqn:B; cbn; [reflexivity|apply le_refl; assumption].
    - intros [va|] [vb|] [vc|] Wa Wb Wc; unf; cbn; intros H1 H2;
        try exact I; try assumption;
        try (apply le_lub; assumption);
        try (apply merge_bots_bot; assumption);
        try (destruct (isbot LV vb) eqn:B; cbn; [exact I|first [assumption|congruence]]).
    - intros [va|] [vb|] Wa Wb; unf; cbn.
      + apply ch_false_iff; assumption.
      + tauto.
      + destruct (isbot LV vb); cbn; intuition congruence.
      + tauto.
    - intros [va|] [vb|] Wa Wb; unf; cbn.
      + apply (cmp_spec H); assumption.
      + destruct (isbot LV va); reflexivity.
      + destruct (isbot LV vb); reflexivity.
      + reflexivity.
    - intros [va|] Wa; unf; cbn.
      + split.
        * intros B [vb|] Wb; cbn; [apply bot_least; assumption|exact B].
        * intros B. exact (B None Logic.eq_refl).
      + split; [intros _ b _; exact I|reflexivity].
    - exists None. reflexivity.
  Qed.

  Theorem bot_laws : LatLaws (bot_ops LV).
  Proof. exact (ord_laws bot_ord). Qed.

  Lemma bot_total : Total LV -> Total (bot_ops LV).
  Proof.
    intros T [va|] [vb|] Wa Wb; unf; cbn; try discriminate.
    - apply T; assumption.
    - destruct (isbot LV va); discriminate.
    - destruct (isbot LV vb); discriminate.
  Qed.

  (* ------------------------------------------------------------------ WithTop *)
  Definition top_le (a b : option V) : Prop :=
    match a, b with
    | _, None => True
    | None, Some _ => False
    | Some va, Some vb => Le LV va vb
    end.

  Local Ltac unft := unfold W, E, m, ch in *;
    cbn [wf mrg cmp eqb isbot istop top_ops top_merge top_cmp top_eqb fst snd] in *.

  Lemma top_ord : OrdLaws (top_ops LV) top_le.
  Proof.
    split.
    - intros [va|] Wa; cbn; [apply le_refl; assumption|exact I].
    - intros [va|] [vb|] [vc|] Wa Wb Wc; cbn; intros H1 H2; try exact I; try contradiction; unft.
      apply le_trans with (b := vb); assumption.
    - intros [va|] [vb|] Wa Wb; unft; cbn.
      + split.
        * intros Q. split; apply le_of_eq; auto using (e_sym H).
        * intros [H1 H2]. apply le_antisym; assumption.
      + intuition congruence.
      + intuition congruence.
      + tauto.
    - intros [va|] [vb|] Wa Wb; unft; cbn; try reflexivity.
      apply (m_wf H); assumption.
    - intros [va|] [vb|] Wa Wb; unft; cbn; try exact I.
      apply le_merge_l; assumption.
    - intros [va|] [vb|] Wa Wb; unft; cbn; try exact I.
      apply le_merge_r; assumption.
    - intros [va|] [vb|] [vc|] Wa Wb Wc; unft; cbn; intros H1 H2; try exact I; try contradiction.
      apply le_lub; assumption.
    - intros [va|] [vb|] Wa Wb; unft; cbn.
      + apply ch_false_iff; assumption.
      + intuition congruence.
      + tauto.
      + tauto.
    - intros [va|] [vb|] Wa Wb; unft; cbn; try reflexivity.
      apply (cmp_spec H); assumption.
    - intros [va|] Wa; unft; cbn.
      + split.
        * intros B [vb|] Wb; cbn; [apply bot_least; assumption|exact I].
        * intros B. apply (bot_spec H Wa). intros vb Wb. exact (B (Some vb) Wb).
      + split; [discriminate|]. intros B. exfalso.
        destruct (inh H) as [v Wv]. exact (B (Some v) Wv).
    - exists None. reflexivity.
  Qed.

  Theorem top_laws : LatLaws (top_ops LV).
  Proof. exact (ord_laws top_ord). Qed.

  Lemma top_total : Total LV -> Total (top_ops LV).
  Proof.
    intros T [va|] [vb|] Wa Wb; unft; cbn; try discriminate.
    apply T; assumption.
  Qed.

  (* C03 is_top: WithBot inherits the inner top.  [None] is never reported as top; that is
     right unless every inner value is a bottom (one-point inner lattice such as unit) *)
  Definition NonTrivial : Prop := exists v, W LV v /\ isbot LV v = false.

  Lemma bot_toplaw : TopLaw LV -> NonTrivial -> TopLaw (bot_ops LV).
  Proof.
    intros T [v [Wv Bv]] [va|] Wa; unf.
    - split.
      + intros Ht b Wb. apply (o_Le_iff bot_ord); [exact Wb|exact Wa|].
        destruct b as [vb|]; cbn; [|exact I]. apply (proj1 (T va Wa) Ht vb Wb).
      + intros Ht. apply (T va Wa). intros vb Wb.
        specialize (Ht (Some vb) Wb). apply (o_Le_iff bot_ord) in Ht; [exact Ht|exact Wb|exact Wa].
    - split; [discriminate|]. intros Ht. exfalso.
      specialize (Ht (Some v) Wv). apply (o_Le_iff bot_ord) in Ht; [|exact Wv|reflexivity].
      cbn in Ht. congruence.
  Qed.

  (* WithTop: [None] is the top; [Some v] reports the inner is_top, which is wrong when the
     inner lattice has a top (the known finding).  Sound exactly when the inner has none. *)
  Lemma top_toplaw : TopLaw (top_ops LV).
  Proof.
    intros [va|] Wa; unft.
    - split; [discriminate|]. intros Ht. exfalso.
      specialize (Ht None Logic.eq_refl). apply (o_Le_iff top_ord) in Ht; [exact Ht|reflexivity|exact Wa].
    - split; [|reflexivity]. intros _ b Wb. apply (o_Le_iff top_ord); [exact Wb|reflexivity|].
      destruct b; exact I.
  Qed.
End Bot.
