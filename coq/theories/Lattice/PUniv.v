(* E1 proofs: the master theorems by induction on the type code -- every nesting of the
   shipped constructors at once. *)
From HV Require Import Lattice.Univ Lattice.Ord Lattice.PScalar Lattice.PSet Lattice.PBot
  Lattice.PPair Lattice.PVec Lattice.PMap Lattice.Tomb Lattice.PTomb Lattice.UF Lattice.PUF.

Lemma total_ops t : total_ty t = true -> Total (ops t).
Proof.
  induction t; cbn [total_ty ops]; intros T; try discriminate T.
  - apply unit_total.
  - apply max_total.
  - apply min_total.
  - apply bot_total. apply IHt, T.
  - apply top_total. apply IHt, T.
Qed.

Theorem laws t : key_total t = true -> LatLaws (ops t).
Proof.
  induction t; cbn [key_total ops]; intros K.
  - apply unit_laws.
  - apply max_laws.
  - apply min_laws.
  - apply set_laws.
  - apply map_laws. apply IHt, K.
  - apply bot_laws. apply IHt, K.
  - apply top_laws. apply IHt, K.
  - apply conflict_laws.
  - apply andb_true_iff in K. destruct K. apply pair_laws; auto.
  - apply andb_true_iff in K. destruct K as [K K2]. apply andb_true_iff in K. destruct K as [T K1].
    apply dom_laws; auto. apply total_ops, T.
  - apply vec_laws. apply IHt, K.
  - apply settomb_laws.
  - apply maptomb_laws. apply IHt, K.
  - apply uf_laws.
Qed.

(* ---------------------------------------------------------------- is_top *)
(* some well-formed value is not bottom *)
Fixpoint nontriv (t : lty) : bool :=
  match t with
  | TUnit => false
  | TMax _ | TMin _ | TSet | TConflict | TTop _ | TVec _ | TSetTomb | TMapTomb _ | TUF => true
  | TMap v | TBot v => nontriv v
  | TPair a b | TDom a b => nontriv a || nontriv b
  end.

Lemma nontriv_spec t : key_total t = true -> nontriv t = true ->
  exists v, W (ops t) v /\ isbot (ops t) v = false.
Proof.
  induction t; cbn [key_total nontriv ops]; intros K NT; try discriminate.
  - exists 1%N. split; [|reflexivity]. unfold W. cbn. destruct s; reflexivity.
  - exists 0%N. split.
    + unfold W. cbn. destruct s; reflexivity.
    + cbn. destruct s; reflexivity.
  - exists [0%N]. split; reflexivity.
  - destruct (IHt K NT) as [v [Wv Bv]]. exists [(0%N, v)]. split.
    + unfold W in *. cbn. rewrite Wv. reflexivity.
    + cbn. rewrite Bv. reflexivity.
  - destruct (IHt K NT) as [v [Wv Bv]]. exists (Some v). split; assumption.
  - exists None. split; reflexivity.
  - exists None. split; reflexivity.
  - apply andb_true_iff in K. destruct K as [K1 K2].
    destruct (inh (laws t1 K1)) as [a0 Wa0]. destruct (inh (laws t2 K2)) as [b0 Wb0].
    apply orb_true_iff in NT. destruct NT as [NT|NT].
    + destruct (IHt1 K1 NT) as [v [Wv Bv]]. exists (v, b0). split.
      * unfold W in *. cbn. rewrite Wv, Wb0. reflexivity.
      * cbn. rewrite Bv. reflexivity.
    + destruct (IHt2 K2 NT) as [v [Wv Bv]]. exists (a0, v). split.
      * unfold W in *. cbn. rewrite Wa0, Wv. reflexivity.
      * cbn. rewrite Bv. apply andb_false_r.
  - apply andb_true_iff in K. destruct K as [K K2]. apply andb_true_iff in K. destruct K as [T K1].
    destruct (inh (laws t1 K1)) as [a0 Wa0]. destruct (inh (laws t2 K2)) as [b0 Wb0].
    apply orb_true_iff in NT. destruct NT as [NT|NT].
    + destruct (IHt1 K1 NT) as [v [Wv Bv]]. exists (v, b0). split.
      * unfold W in *. cbn. rewrite Wv, Wb0. reflexivity.
      * cbn. rewrite Bv. reflexivity.
    + destruct (IHt2 K2 NT) as [v [Wv Bv]]. exists (a0, v). split.
      * unfold W in *. cbn. rewrite Wa0, Wv. reflexivity.
      * cbn. rewrite Bv. apply andb_false_r.
  - destruct (inh (laws t K)) as [v Wv]. exists [v]. split.
    + unfold W in *. cbn. rewrite Wv. reflexivity.
    + reflexivity.
  - exists ([0%N], []). split; reflexivity.
  - exists ([], [0%N]). split; reflexivity.
  - exists [(1%N, 0%N)]. split; reflexivity.
Qed.

Lemma no_top t : has_top t = false -> forall a, istop (ops t) a = false.
Proof.
  induction t; cbn [has_top ops]; try discriminate; intros HT a.
  - destruct s; cbn in *; try discriminate. reflexivity.
  - reflexivity.
  - reflexivity.
  - destruct a as [v|]; cbn; [apply IHt, HT|reflexivity].
  - destruct a as [a b]. cbn. apply andb_false_iff in HT. destruct HT as [HT|HT].
    + rewrite (IHt1 HT). reflexivity.
    + rewrite (IHt2 HT). apply andb_false_r.
  - destruct a as [a b]. cbn. apply andb_false_iff in HT. destruct HT as [HT|HT].
    + rewrite (IHt1 HT). reflexivity.
    + rewrite (IHt2 HT). apply andb_false_r.
  - reflexivity.
  - reflexivity.
  - reflexivity.
  - reflexivity.
Qed.

(* the codes on which is_top is exactly "greatest element" *)
Fixpoint top_ok (t : lty) : bool :=
  match t with
  | TMap v => nontriv v
  | TBot v => top_ok v && nontriv v
  | TPair a b | TDom a b => top_ok a && top_ok b
  | _ => true
  end.

Theorem toplaw t : key_total t = true -> top_ok t = true -> TopLaw (ops t).
Proof.
  induction t; cbn [key_total top_ok ops]; intros K TK.
  - apply unit_toplaw.
  - apply max_toplaw.
  - apply min_toplaw.
  - apply set_toplaw.
  - apply map_toplaw; [apply laws, K|]. apply nontriv_spec; assumption.
  - apply andb_true_iff in TK. destruct TK as [TK NT].
    apply bot_toplaw; [apply laws, K|apply IHt; assumption|]. apply nontriv_spec; assumption.
  - apply top_toplaw. apply laws, K.
  - apply conflict_toplaw.
  - apply andb_true_iff in K. destruct K. apply andb_true_iff in TK. destruct TK.
    apply pair_toplaw; auto using laws.
  - apply andb_true_iff in K. destruct K as [K K2]. apply andb_true_iff in K. destruct K as [T K1].
    apply andb_true_iff in TK. destruct TK.
    apply dom_toplaw; auto using laws, total_ops.
  - apply vec_toplaw. apply laws, K.
  - apply settomb_toplaw.
  - apply maptomb_toplaw. apply laws, K.
  - apply uf_toplaw.
Qed.

(* Fixed finding (repo commit "fix: WithTop::is_top reports only the adjoined top"): before
   the fix [istop (Some v) = istop v], and [toplaw] failed on WithTop over any lattice with a
   top -- witness t = TTop (TMax SBool), a = Some 1, b = None: is_top a, yet a < b. *)

(* the one-point degenerate cases stay outside [top_ok]: WithBot<()> and MapUnion<_, ()>
   never report a top although every value is a greatest element *)
Lemma toplaw_degenerate_refuted :
  exists t (a : val t), key_total t = true /\ W (ops t) a /\
    (forall b, W (ops t) b -> Le (ops t) b a) /\ istop (ops t) a = false.
Proof.
  exists (TBot TUnit), None. repeat split. intros [[]|] _; reflexivity.
Qed.

(* DomPair over a key lattice that is not totally ordered is not a lattice (the crate's own
   test says so): associativity fails *)
Lemma dom_needs_total_refuted :
  exists t (a b c : val t), key_total t = false /\ W (ops t) a /\ W (ops t) b /\ W (ops t) c /\
    ~ E (ops t) (m (ops t) (m (ops t) a b) c) (m (ops t) a (m (ops t) b c)).
Proof.
  exists (TDom TSet (TMax SU8)), ([0%N], 1%N), ([1%N], 0%N), ([0%N], 0%N).
  repeat split. cbn. discriminate.
Qed.
