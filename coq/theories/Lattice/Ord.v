(* E1 proofs: a lattice implementation satisfies [LatLaws] as soon as its merge is a least
   upper bound for some preorder [le] that induces its equality.  Every constructor proof
   goes through this: the order-theoretic obligations involve fewer values (and so fewer
   cases) than associativity / congruence stated directly. *)
From HV Require Import Lattice.Base.

Set Implicit Arguments.

Section Ord.
  Variable A : Type.
  Variable L : LatOps A.
  Variable le : A -> A -> Prop.

  Record OrdLaws : Prop := {
    o_refl  : forall a, W L a -> le a a;
    o_trans : forall a b c, W L a -> W L b -> W L c -> le a b -> le b c -> le a c;
    o_eq    : forall a b, W L a -> W L b -> (E L a b <-> le a b /\ le b a);
    o_wf    : forall a b, W L a -> W L b -> W L (m L a b);
    o_ub_l  : forall a b, W L a -> W L b -> le a (m L a b);
    o_ub_r  : forall a b, W L a -> W L b -> le b (m L a b);
    o_lub   : forall a b c, W L a -> W L b -> W L c -> le a c -> le b c -> le (m L a b) c;
    o_ch    : forall a b, W L a -> W L b -> (ch L a b = false <-> le b a);
    o_cmp   : forall a b, W L a -> W L b -> cmp L a b = naive (ch L a b) (ch L b a);
    o_bot   : forall a, W L a -> (isbot L a = true <-> forall b, W L b -> le a b);
    o_inh   : exists a, W L a;
  }.

  Hypothesis O : OrdLaws.

  Lemma o_mono a a' b b' : W L a -> W L a' -> W L b -> W L b' ->
    le a a' -> le b b' -> le (m L a b) (m L a' b').
  Proof.
    intros Wa Wa' Wb Wb' Ha Hb.
    apply (o_lub O); auto using (o_wf O).
    - apply (o_trans O) with (b := a'); auto using (o_wf O), (o_ub_l O).
    - apply (o_trans O) with (b := b'); auto using (o_wf O), (o_ub_r O).
  Qed.

  Lemma o_Le_iff a b : W L a -> W L b -> (Le L a b <-> le a b).
  Proof.
    intros Wa Wb. unfold Le. rewrite (o_eq O) by auto using (o_wf O). split.
    - intros [H1 _]. apply (o_trans O) with (b := m L b a); auto using (o_wf O), (o_ub_r O).
    - intros H. split.
      + apply (o_lub O); auto using (o_refl O).
      + apply (o_ub_l O); assumption.
  Qed.

  Theorem ord_laws : LatLaws L.
  Proof.
    split.
    - intros a Wa. apply (o_eq O); auto using (o_refl O).
    - intros a b Wa Wb H. apply (o_eq O) in H; auto. apply (o_eq O); tauto.
    - intros a b c Wa Wb Wc H1 H2. apply (o_eq O) in H1; auto. apply (o_eq O) in H2; auto.
      apply (o_eq O); auto. destruct H1, H2.
      split; [apply (o_trans O) with (b := b) | apply (o_trans O) with (b := b)]; auto.
    - apply (o_wf O).
    - intros a a' b b' Wa Wa' Wb Wb' Ha Hb.
      apply (o_eq O) in Ha; auto. apply (o_eq O) in Hb; auto. destruct Ha, Hb.
      apply (o_eq O); auto using (o_wf O). split; apply o_mono; auto.
    - intros a Wa. apply (o_eq O); auto using (o_wf O). split.
      + apply (o_lub O); auto using (o_refl O).
      + apply (o_ub_l O); auto.
    - intros a b Wa Wb. apply (o_eq O); auto using (o_wf O).
      split; apply (o_lub O); auto using (o_wf O), (o_ub_l O), (o_ub_r O).
    - intros a b c Wa Wb Wc.
      assert (Wab : W L (m L a b)) by auto using (o_wf O).
      assert (Wbc : W L (m L b c)) by auto using (o_wf O).
      apply (o_eq O); auto using (o_wf O). split.
      + apply (o_lub O); auto using (o_wf O).
        * apply (o_lub O); auto using (o_wf O), (o_ub_l O).
          apply (o_trans O) with (b := m L b c); auto using (o_wf O), (o_ub_l O), (o_ub_r O).
        * apply (o_trans O) with (b := m L b c); auto using (o_wf O), (o_ub_r O).
      + apply (o_lub O); auto using (o_wf O).
        * apply (o_trans O) with (b := m L a b); auto using (o_wf O), (o_ub_l O).
        * apply (o_lub O); auto using (o_wf O), (o_ub_r O).
          apply (o_trans O) with (b := m L a b); auto using (o_wf O), (o_ub_l O), (o_ub_r O).
    - intros a b Wa Wb.
      destruct (ch L a b) eqn:C; destruct (eqb L (m L a b) a) eqn:Q; try reflexivity; exfalso.
      + (* changed, yet equal: then b <= a, so the flag is false *)
        assert (Hle : le b a).
        { apply (o_eq O) in Q; auto using (o_wf O). destruct Q as [Q _].
          apply (o_trans O) with (b := m L a b); auto using (o_wf O), (o_ub_r O). }
        apply (o_ch O) in Hle; auto. congruence.
      + apply (o_ch O) in C; auto.
        assert (E L (m L a b) a); [|unfold E in *; congruence].
        apply (o_eq O); auto using (o_wf O). split.
        * apply (o_lub O); auto using (o_refl O).
        * apply (o_ub_l O); auto.
    - apply (o_cmp O).
    - intros a Wa. rewrite (o_bot O) by assumption. split; intros H b Wb.
      + apply o_Le_iff; auto.
      + apply o_Le_iff; auto.
    - apply (o_inh O).
  Qed.
End Ord.

(* conversely: with the laws, [Le] itself is such an order (used on the inner lattice by
   every constructor proof) *)
Section OfLaws.
  Variable A : Type.
  Variable L : LatOps A.
  Hypothesis H : LatLaws L.

  Lemma laws_ord : OrdLaws L (Le L).
  Proof.
    split.
    - intros; apply le_refl; assumption.
    - intros a b c; intros; apply le_trans with (b := b); assumption.
    - intros a b Wa Wb. split.
      + intros Q. split; apply le_of_eq; auto using (e_sym H).
      + intros [H1 H2]. apply le_antisym; assumption.
    - apply (m_wf H).
    - intros; apply le_merge_l; assumption.
    - intros; apply le_merge_r; assumption.
    - intros; apply le_lub; assumption.
    - intros; apply ch_false_iff; assumption.
    - apply (cmp_spec H).
    - apply (bot_spec H).
    - apply (inh H).
  Qed.

  (* handy consequences used by the constructor proofs *)
  Lemma bot_least a b : W L a -> W L b -> isbot L a = true -> Le L a b.
  Proof. intros Wa Wb B. exact (proj1 (bot_spec H Wa) B b Wb). Qed.

  Lemma bot_unique a b : W L a -> W L b -> isbot L a = true -> isbot L b = true -> E L a b.
  Proof. intros. apply le_antisym; auto using bot_least. Qed.

  Lemma le_bot_is_bot a b : W L a -> W L b -> Le L a b -> isbot L b = true -> isbot L a = true.
  Proof.
    intros Wa Wb Hab Bb. apply (bot_spec H Wa). intros c Wc.
    apply le_trans with (b := b); auto using bot_least.
  Qed.

  Lemma eq_is_bot a b : W L a -> W L b -> E L a b -> isbot L a = isbot L b.
  Proof. apply bot_eq_cong; assumption. Qed.

  Lemma ch_true_not_le a b : W L a -> W L b -> (ch L a b = true <-> ~ Le L b a).
  Proof.
    intros Wa Wb. pose proof (ch_false_iff H Wa Wb). destruct (ch L a b); intuition congruence.
  Qed.

  Lemma cmp_cases a b : W L a -> W L b ->
    match cmp L a b with
    | Some Eq => Le L a b /\ Le L b a
    | Some Lt => Le L a b /\ ~ Le L b a
    | Some Gt => Le L b a /\ ~ Le L a b
    | None => ~ Le L a b /\ ~ Le L b a
    end.
  Proof.
    intros Wa Wb. rewrite (cmp_spec H Wa Wb).
    pose proof (ch_false_iff H Wa Wb) as F1. pose proof (ch_false_iff H Wb Wa) as F2.
    destruct (ch L a b), (ch L b a); cbn; intuition congruence.
  Qed.
End OfLaws.
