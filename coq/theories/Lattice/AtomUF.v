(* E1 Lattice engine -- atomization of the union-find lattice (C06, union_find.rs `impl Atomize`).
   The model of the impl itself is e1-uf-tomb's [UF.uf_atomize] (the non-trivial entries, each as
   a singleton-map union-find); this file adds the re-merge and the observation the harness
   h_atom makes.  Definitions only.  (Kept apart from Atom.v: UF.v's names same/merge/find clash
   with Univ.v's.) *)
From HV Require Export Lattice.UF.

(* Parent maps with PURE-CYCLE components ({a->b, b->a}, {a->b, b->c, c->a}, ...: no self-parent
   root; accepted by UnionFind::new, and find closes such loops on the fly -- UF.find_root's
   "loop detected" branch, PUF.find_pure_cycle) are not forests, so they are outside [W uf_ops]
   and the C06 theorems for UnionFind (PAtomUF.v) do not speak about them.  [uf_atomize] on such a
   map is literally the same function: one atom (item, immediate parent) per entry with
   item <> parent.  The correspondence check generates such values too: the model below is run on
   them and compared, and the executable property is evaluated on the implementation's atoms. *)
(* Default::default(): the empty parent map *)
Definition uf_dflt : uf := [].

Definition uf_remerge (acc : uf) (l : list uf) : uf := fold_left (fun s x => m uf_ops s x) l acc.

Fixpoint uf_remerge_flags (acc : uf) (l : list uf) : list bool :=
  match l with
  | [] => []
  | x :: r => ch uf_ops acc x :: uf_remerge_flags (m uf_ops acc x) r
  end.

(* how a partition is observed: for each item 0 .. u-1 the least item `same` as it *)
Definition sameb (s : uf) (x y : N) : bool :=
  match same s x y with Ok r => snd r | _ => false end.
Definition items (u : nat) : list N := map N.of_nat (seq 0 u).
Definition uf_classes (u : nat) (s : uf) : list N :=
  map (fun x => match List.find (fun y => sameb s x y) (items u) with Some y => y | None => x end) (items u).

Fixpoint pairs_eqb (a b : list (N * N)) : bool :=
  match a, b with
  | [], [] => true
  | (k, p) :: r, (k', p') :: r' => N.eqb k k' && N.eqb p p' && pairs_eqb r r'
  | _, _ => false
  end.

(* multiset equality of entry lists *)
Fixpoint remove_pair (x : N * N) (l : list (N * N)) : option (list (N * N)) :=
  match l with
  | [] => None
  | y :: r => if N.eqb (fst x) (fst y) && N.eqb (snd x) (snd y) then Some r
              else option_map (cons y) (remove_pair x r)
  end.
Fixpoint perm_pairs (a b : list (N * N)) : bool :=
  match a with
  | [] => match b with [] => true | _ => false end
  | x :: r => match remove_pair x b with Some b' => perm_pairs r b' | None => false end
  end.

Fixpoint blist_eqb (a b : list bool) : bool :=
  match a, b with
  | [], [] => true
  | x :: r, y :: s => Bool.eqb x y && blist_eqb r s
  | _, _ => false
  end.

Record ufobs := {
  uo_atoms : list (N * N);     (* the atoms' single entries, in the implementation's order *)
  uo_atom_bot : list bool;
  uo_bot : bool;
  uo_changed : list bool;      (* flag of each merge into Default *)
  uo_reformed : list N;        (* classes of the atoms merged into Default *)
  uo_orig : list N;            (* classes of a itself *)
  uo_eq : bool;                (* a == reformed *)
  uo_acc_atoms : list N;       (* classes of the atoms merged into acc *)
  uo_acc_a : list N;           (* classes of a merged into acc *)
  uo_acc_eq : bool;
}.

Definition model_ufobs_with (u : nat) (a acc : uf) (es : list (N * N)) : ufobs :=
  let l := map (fun kv => [kv]) es in
  let r := uf_remerge uf_dflt l in
  let ra := uf_remerge acc l in
  let ma := m uf_ops acc a in
  {| uo_atoms := es; uo_atom_bot := map uf_isbot l; uo_bot := uf_isbot a;
     uo_changed := uf_remerge_flags uf_dflt l; uo_reformed := uf_classes u r;
     uo_orig := uf_classes u a; uo_eq := eqb uf_ops a r;
     uo_acc_atoms := uf_classes u ra; uo_acc_a := uf_classes u ma; uo_acc_eq := eqb uf_ops ra ma |}.

Definition atom_entries (a : uf) : list (N * N) := concat (uf_atomize a).

Definition ufobs_agree (u : nat) (a acc : uf) (i : ufobs) : bool :=
  let mo := model_ufobs_with u a acc (uo_atoms i) in
  perm_pairs (uo_atoms i) (atom_entries a) &&
  blist_eqb (uo_atom_bot i) (uo_atom_bot mo) && Bool.eqb (uo_bot i) (uo_bot mo) &&
  blist_eqb (uo_changed i) (uo_changed mo) &&
  nlist_eqb (uo_reformed i) (uo_reformed mo) && nlist_eqb (uo_orig i) (uo_orig mo) &&
  Bool.eqb (uo_eq i) (uo_eq mo) &&
  nlist_eqb (uo_acc_atoms i) (uo_acc_atoms mo) && nlist_eqb (uo_acc_a i) (uo_acc_a mo) &&
  Bool.eqb (uo_acc_eq i) (uo_acc_eq mo).

Definition is_nilp (l : list (N * N)) : bool := match l with [] => true | _ => false end.

(* executable form of C06 on the observation; "reproduces the partition" is checked both through
   the crate's == and through the observed classes *)
Definition C06_uf_holds_b (i : ufobs) : bool :=
  forallb negb (uo_atom_bot i) && Bool.eqb (is_nilp (uo_atoms i)) (uo_bot i) &&
  uo_eq i && nlist_eqb (uo_reformed i) (uo_orig i) &&
  uo_acc_eq i && nlist_eqb (uo_acc_atoms i) (uo_acc_a i).

Definition ufchk (u : nat) (a acc : uf) (i : ufobs) : N :=
  ((if ufobs_agree u a acc i then 0 else 1) + (if C06_uf_holds_b i then 0 else 2))%N.
