(* E1 proofs: atomization (C06).  For every atomizable code (induction on the code, so every
   nesting at once) and every well-formed value: the atoms are well-formed and non-bottom, there
   are none exactly when the value is bottom, and the value is the least upper bound of its
   atoms -- hence merging them, in any order, into Default (or into any accumulator) gives the
   value (resp. the accumulator merged with the value) up to the lattice's own equality. *)
From HV Require Import Lattice.Univ Lattice.Ord Lattice.PSet Lattice.PMapBase Lattice.PMap
  Lattice.PBot Lattice.PUniv Lattice.Atom.
From Coq Require Import Permutation.

Set Implicit Arguments.

(* ---------------------------------------------------------------- merging a list into a value *)
Section Fold.
  Variable A : Type.
  Variable L : LatOps A.
  Hypothesis H : LatLaws L.

  Definition mfold (acc : A) (l : list A) : A := fold_left (fun s x => m L s x) l acc.

  Lemma mfold_wf l : forall acc, W L acc -> Forall (W L) l -> W L (mfold acc l).
  Proof.
    induction l as [|x r IH]; intros acc Wa F; cbn; [exact Wa|].
    inversion F; subst. apply IH; [apply (m_wf H); assumption|assumption].
  Qed.

  Lemma le_merge_iff a b c : W L a -> W L b -> W L c ->
    (Le L (m L a b) c <-> Le L a c /\ Le L b c).
  Proof.
    intros Wa Wb Wc. split.
    - intros Hm. split.
      + apply le_trans with (b := m L a b); auto using (m_wf H), le_merge_l.
      + apply le_trans with (b := m L a b); auto using (m_wf H), le_merge_r.
    - intros [H1 H2]. apply le_lub; assumption.
  Qed.

  (* the fold is the least upper bound of the accumulator and the list *)
  Lemma mfold_lub l : forall acc c, W L acc -> Forall (W L) l -> W L c ->
    (Le L (mfold acc l) c <-> Le L acc c /\ Forall (fun x => Le L x c) l).
  Proof.
    induction l as [|x r IH]; intros acc c Wa F Wc; cbn.
    - split; [intros Hl; split; [exact Hl|constructor] | tauto].
    - inversion F; subst. change (fold_left (fun s x0 => m L s x0) r (m L acc x)) with (mfold (m L acc x) r).
      rewrite IH by (auto using (m_wf H)). rewrite le_merge_iff by assumption. split.
      + intros [[G1 G2] G3]. split; [exact G1|constructor; assumption].
      + intros [G1 G2]. inversion G2; subst. tauto.
  Qed.
End Fold.

(* ---------------------------------------------------------------- the per-lattice statement *)
(* [atm] atomizes the lattice [L] *)
Definition ASpec A (L : LatOps A) (atm : A -> list A) : Prop :=
  forall a, W L a ->
    Forall (fun x => W L x /\ isbot L x = false) (atm a) /\
    (atm a = [] <-> isbot L a = true) /\
    (forall c, W L c -> (Le L a c <-> Forall (fun x => Le L x c) (atm a))).

Lemma map_eq_nil_iff A B (f : A -> B) l : map f l = [] <-> l = [].
Proof. destruct l; cbn; split; intros; try reflexivity; discriminate. Qed.

Lemma Forall_map_iff A B (f : A -> B) (P : B -> Prop) l :
  Forall P (map f l) <-> Forall (fun x => P (f x)) l.
Proof.
  induction l as [|x r IH]; cbn.
  - split; constructor.
  - split; intros F; inversion F; subst; constructor; tauto.
Qed.

Lemma Forall_flat_map_iff A B (f : A -> list B) (P : B -> Prop) l :
  Forall P (flat_map f l) <-> Forall (fun x => Forall P (f x)) l.
Proof.
  induction l as [|x r IH]; cbn.
  - split; constructor.
  - rewrite Forall_app, IH. split.
    + intros [F1 F2]. constructor; assumption.
    + intros F; inversion F; subst. tauto.
Qed.

Lemma Forall_iff A (P Q : A -> Prop) l :
  (forall x, In x l -> (P x <-> Q x)) -> (Forall P l <-> Forall Q l).
Proof.
  intros HPQ. rewrite !Forall_forall. split; intros F x Hx; apply (HPQ x Hx), F, Hx.
Qed.

(* ---------------------------------------------------------------- unit.rs *)
Lemma unit_aspec : ASpec unit_ops unit_atoms.
Proof.
  intros a _. unfold unit_atoms. split; [constructor|]. split; [tauto|].
  intros c _. split; [constructor|]. intros _. reflexivity.
Qed.

(* ---------------------------------------------------------------- set_union.rs *)
Lemma set_Le_incl a c : W set_ops a -> W set_ops c -> (Le set_ops a c <-> incl a c).
Proof.
  intros Wa Wc. rewrite <- (ch_false_iff set_laws Wc Wa).
  unfold W in *. cbn [wf set_ops] in *. apply nodupb_NoDup in Wa, Wc.
  unfold ch. cbn [mrg set_ops snd]. apply set_ch_false; assumption.
Qed.

Lemma set_aspec : ASpec set_ops set_atoms.
Proof.
  intros a Wa. unfold set_atoms. split; [|split].
  - apply Forall_map_iff. apply Forall_forall. intros x _. split; reflexivity.
  - rewrite map_eq_nil_iff. cbn [isbot set_ops]. destruct a; split; intros; try reflexivity; discriminate.
  - intros c Wc. rewrite set_Le_incl by assumption. rewrite Forall_map_iff.
    rewrite Forall_forall. split.
    + intros I x Hx. apply set_Le_incl; [reflexivity|assumption|].
      intros y [Hy|[]]. subst. apply I, Hx.
    + intros F x Hx. specialize (F x Hx). apply set_Le_incl in F; [|reflexivity|assumption].
      apply F. left. reflexivity.
Qed.

(* ---------------------------------------------------------------- with_bot.rs / with_top.rs *)
Section BotTop.
  Variable V : Type.
  Variable LV : LatOps V.
  Hypothesis H : LatLaws LV.
  Variable atm : V -> list V.
  Hypothesis S : ASpec LV atm.

  Lemma bot_Le a c : W (bot_ops LV) a -> W (bot_ops LV) c -> (Le (bot_ops LV) a c <-> @bot_le V LV a c).
  Proof. apply (o_Le_iff (@bot_ord V LV H)). Qed.

  Lemma top_Le a c : W (top_ops LV) a -> W (top_ops LV) c -> (Le (top_ops LV) a c <-> @top_le V LV a c).
  Proof. apply (o_Le_iff (@top_ord V LV H)). Qed.

  Lemma bot_aspec : ASpec (bot_ops LV) (bot_atoms atm).
  Proof.
    intros [x|] Wa; unfold bot_atoms.
    - assert (Wx : W LV x) by exact Wa.
      destruct (S Wx) as [SA [SB SC]]. split; [|split].
      + apply Forall_map_iff. exact SA.
      + rewrite map_eq_nil_iff. exact SB.
      + intros [y|] Wc.
        * assert (Wy : W LV y) by exact Wc.
          rewrite bot_Le by assumption. cbn [bot_le]. rewrite (SC y Wy), Forall_map_iff.
          apply Forall_iff. intros z Hz. rewrite Forall_forall in SA. destruct (SA z Hz) as [Wz _].
          rewrite bot_Le by assumption. reflexivity.
        * rewrite bot_Le by assumption. cbn [bot_le]. rewrite <- SB, Forall_map_iff. split.
          -- intros E0. rewrite E0. constructor.
          -- intros F. destruct (atm x) as [|z r] eqn:Ea; [reflexivity|]. exfalso.
             inversion F; subst. inversion SA; subst. destruct H4 as [Wz Bz].
             apply bot_Le in H2; [|exact Wz|reflexivity]. cbn [bot_le] in H2. congruence.
    - split; [constructor|]. split; [tauto|]. intros c Wc.
      rewrite bot_Le by assumption. cbn [bot_le]. split; [constructor|tauto].
  Qed.

  Lemma top_aspec : ASpec (top_ops LV) (top_atoms atm).
  Proof.
    intros [x|] Wa; unfold top_atoms.
    - assert (Wx : W LV x) by exact Wa.
      destruct (S Wx) as [SA [SB SC]]. split; [|split].
      + apply Forall_map_iff. exact SA.
      + rewrite map_eq_nil_iff. exact SB.
      + intros [y|] Wc.
        * assert (Wy : W LV y) by exact Wc.
          rewrite top_Le by assumption. cbn [top_le]. rewrite (SC y Wy), Forall_map_iff.
          apply Forall_iff. intros z Hz. rewrite Forall_forall in SA. destruct (SA z Hz) as [Wz _].
          rewrite top_Le by assumption. reflexivity.
        * rewrite top_Le by assumption. cbn [top_le]. split; [|tauto]. intros _.
          apply Forall_map_iff, Forall_forall. intros z Hz.
          rewrite Forall_forall in SA. destruct (SA z Hz) as [Wz _].
          apply top_Le; [exact Wz|reflexivity|exact I].
    - split; [|split].
      + constructor; [|constructor]. split; reflexivity.
      + cbn [isbot top_ops]. split; discriminate.
      + intros c Wc. split.
        * intros Hl. constructor; [exact Hl|constructor].
        * intros F. inversion F; subst. assumption.
  Qed.
End BotTop.

(* ---------------------------------------------------------------- map_union.rs *)
Section MapAtoms.
  Variable V : Type.
  Variable LV : LatOps V.
  Hypothesis H : LatLaws LV.
  Variable atm : V -> list V.
  Hypothesis S : ASpec LV atm.

  Notation mp := (list (N * V)).
  Notation MW := (W (map_ops LV)).

  Lemma map_Le a c : MW a -> MW c -> (Le (map_ops LV) a c <-> @mle V LV a c).
  Proof. apply (o_Le_iff (@map_ord V LV H)). Qed.

  Lemma In_map_atoms (a : mp) x :
    In x (map_atoms atm a) <-> exists k v z, In (k, v) a /\ In z (atm v) /\ x = [(k, z)].
  Proof.
    unfold map_atoms. rewrite in_flat_map. split.
    - intros [[k v] [Hi Hx]]. cbn [fst snd] in Hx. apply in_map_iff in Hx.
      destruct Hx as [z [Ez Hz]]. exists k, v, z. auto.
    - intros [k [v [z [Hi [Hz Ex]]]]]. exists (k, v). split; [exact Hi|].
      cbn [fst snd]. apply in_map_iff. exists z. auto.
  Qed.

  Lemma mw_In a k v : MW a -> In (k, v) a -> W LV v.
  Proof.
    intros Wa Hi. apply (@mw_val V LV a k v Wa). apply In_get; [apply (@mw_nodup V LV), Wa|exact Hi].
  Qed.

  Lemma single_wf k z : W LV z -> MW [(k, z)].
  Proof. intros Wz. unfold W in *. cbn. rewrite Wz. reflexivity. Qed.

  Lemma aget_single k z k' :
    @aget V LV k' [(k, z)] = if N.eqb k' k then (if isbot LV z then None else Some z) else None.
  Proof. unfold aget. cbn [get]. destruct (N.eqb k' k); reflexivity. Qed.

  (* a one-entry map with a non-bottom value is below c iff its value is below c's at that key *)
  Lemma single_mle k z c : isbot LV z = false ->
    (@mle V LV [(k, z)] c <-> @ole V LV (Some z) (@aget V LV k c)).
  Proof.
    intros Bz. unfold mle. split.
    - intros M. specialize (M k). rewrite aget_single, N.eqb_refl, Bz in M. exact M.
    - intros O k'. rewrite aget_single. destruct (N.eqb_spec k' k); [|exact I]. subst.
      rewrite Bz. exact O.
  Qed.

  Lemma map_atoms_nil (a : mp) : (forall k v, In (k, v) a -> W LV v) ->
    (map_atoms atm a = [] <-> forallb (fun kv => isbot LV (snd kv)) a = true).
  Proof.
    induction a as [|[k v] r IH]; intros Wv; cbn; [tauto|].
    rewrite andb_true_iff. split.
    - intros E0. apply app_eq_nil in E0. destruct E0 as [E1 E2].
      apply map_eq_nil_iff in E1. split.
      + apply (S (Wv k v (or_introl Logic.eq_refl))). exact E1.
      + apply IH; [|exact E2]. intros k' v' Hi. apply (Wv k' v'). right. exact Hi.
    - intros [B1 B2].
      apply (S (Wv k v (or_introl Logic.eq_refl))) in B1. rewrite B1. cbn.
      apply IH; [|exact B2]. intros k' v' Hi. apply (Wv k' v'). right. exact Hi.
  Qed.

  Lemma map_aspec : ASpec (map_ops LV) (map_atoms atm).
  Proof.
    intros a Wa. pose proof (@mw_nodup V LV a Wa) as Na. split; [|split].
    - apply Forall_forall. intros x Hx. apply In_map_atoms in Hx.
      destruct Hx as [k [v [z [Hi [Hz Ex]]]]]. subst x.
      destruct (S (@mw_In a k v Wa Hi)) as [SA _]. rewrite Forall_forall in SA.
      destruct (SA z Hz) as [Wz Bz]. split; [apply single_wf, Wz|].
      cbn. rewrite Bz. reflexivity.
    - cbn [isbot map_ops]. apply map_atoms_nil. intros k v Hi. exact (@mw_In a k v Wa Hi).
    - intros c Wc. rewrite map_Le by assumption. rewrite Forall_forall. split.
      + intros M x Hx. apply In_map_atoms in Hx. destruct Hx as [k [v [z [Hi [Hz Ex]]]]]. subst x.
        assert (Wv : W LV v) by exact (@mw_In a k v Wa Hi).
        destruct (S Wv) as [SA [SB SC]]. rewrite Forall_forall in SA. destruct (SA z Hz) as [Wz Bz].
        apply map_Le; [apply single_wf, Wz|exact Wc|]. apply single_mle; [exact Bz|].
        assert (Bv : isbot LV v = false).
        { destruct (isbot LV v) eqn:Bv; [|reflexivity]. exfalso.
          assert (E0 : atm v = []) by (apply SB; reflexivity). rewrite E0 in Hz. destruct Hz. }
        specialize (M k). assert (Ga : @aget V LV k a = Some v).
        { apply aget_Some. split; [apply In_get; assumption|exact Bv]. }
        rewrite Ga in M. destruct (@aget V LV k c) as [w|] eqn:Gc; cbn in M; [|contradiction].
        cbn. assert (Ww : W LV w) by exact (@aget_wf V LV c k w Wc Gc).
        apply (SC w Ww) in M. rewrite Forall_forall in M. apply M, Hz.
      + intros F k. destruct (@aget V LV k a) as [v|] eqn:Ga; cbn; [|exact I].
        apply aget_Some in Ga. destruct Ga as [Ga Bv]. pose proof (@get_In V k a v Ga) as Hi.
        assert (Wv : W LV v) by exact (@mw_val V LV a k v Wa Ga).
        destruct (S Wv) as [SA [SB SC]]. rewrite Forall_forall in SA.
        assert (Fk : forall z, In z (atm v) -> @ole V LV (Some z) (@aget V LV k c)).
        { intros z Hz. destruct (SA z Hz) as [Wz Bz].
          assert (Hx : In [(k, z)] (map_atoms atm a)).
          { apply In_map_atoms. exists k, v, z. auto. }
          specialize (F _ Hx). apply map_Le in F; [|apply single_wf, Wz|exact Wc].
          apply single_mle in F; assumption. }
        destruct (atm v) as [|z0 r0] eqn:Ea.
        { exfalso. assert (isbot LV v = true) by (apply SB; reflexivity). congruence. }
        pose proof (Fk z0 (or_introl Logic.eq_refl)) as F0.
        destruct (@aget V LV k c) as [w|] eqn:Gc; cbn in F0; [|contradiction].
        assert (Ww : W LV w) by exact (@aget_wf V LV c k w Wc Gc).
        apply (SC w Ww). apply Forall_forall. intros z Hz. exact (Fk z Hz).
  Qed.
End MapAtoms.

(* ---------------------------------------------------------------- the master induction *)
Lemma atomizable_key_total t : atomizable t = true -> key_total t = true.
Proof. induction t; cbn; intros A0; try discriminate; auto. Qed.

Lemma atomizable_laws t : atomizable t = true -> LatLaws (ops t).
Proof. intros A0. apply laws, atomizable_key_total, A0. Qed.

Theorem atomize_spec t : atomizable t = true -> ASpec (ops t) (atomize t).
Proof.
  induction t; cbn [atomizable atomize ops]; intros A0; try discriminate.
  - apply unit_aspec.
  - apply set_aspec.
  - apply map_aspec; [apply atomizable_laws, A0|apply IHt, A0].
  - apply bot_aspec; [apply atomizable_laws, A0|apply IHt, A0].
  - apply top_aspec; [apply atomizable_laws, A0|apply IHt, A0].
Qed.

(* Default::default() is a well-formed bottom *)
Lemma dflt_bot t : atomizable t = true -> W (ops t) (dflt t) /\ isbot (ops t) (dflt t) = true.
Proof.
  induction t; cbn [atomizable]; intros A0; try discriminate; try (split; reflexivity).
  destruct (IHt A0) as [Wd Bd]. split; [exact Wd|exact Bd].
Qed.

Lemma remerge_mfold t acc l : remerge t acc l = mfold (ops t) acc l.
Proof. reflexivity. Qed.

Section Main.
  Variable t : lty.
  Hypothesis A0 : atomizable t = true.
  Let L := ops t.
  Let H : LatLaws L := atomizable_laws t A0.

  (* (1) every atom is a well-formed, non-bottom lattice value *)
  Theorem atoms_wf_nonbot a : W L a ->
    Forall (fun x => W L x /\ isbot L x = false) (atomize t a).
  Proof. intros Wa. exact (proj1 (atomize_spec t A0 Wa)). Qed.

  (* (2) no atoms exactly for a bottom value *)
  Theorem atoms_nil_iff_bot a : W L a -> (atomize t a = [] <-> isbot L a = true).
  Proof. intros Wa. exact (proj1 (proj2 (atomize_spec t A0 Wa))). Qed.

  (* the value is the least upper bound of its atoms *)
  Theorem atoms_lub a c : W L a -> W L c ->
    (Le L a c <-> Forall (fun x => Le L x c) (atomize t a)).
  Proof. intros Wa Wc. exact (proj2 (proj2 (atomize_spec t A0 Wa)) c Wc). Qed.

  Lemma perm_atoms_wf a l : W L a -> Permutation l (atomize t a) -> Forall (W L) l.
  Proof.
    intros Wa P. pose proof (atoms_wf_nonbot Wa) as F. rewrite Forall_forall in *.
    intros x Hx. apply F. apply (Permutation_in _ P), Hx.
  Qed.

  (* (3), general form: merging the atoms, in any order, into any accumulator is merging the
     value into it -- what makes atom-wise (delta) processing sound *)
  Theorem remerge_acc a acc l : W L a -> W L acc -> Permutation l (atomize t a) ->
    W L (remerge t acc l) /\ E L (remerge t acc l) (m L acc a).
  Proof.
    intros Wa Wacc P. rewrite remerge_mfold. fold L.
    pose proof (perm_atoms_wf Wa P) as Fw.
    assert (Wf : W L (mfold L acc l)) by (apply mfold_wf; assumption).
    assert (Wm : W L (m L acc a)) by (apply (m_wf H); assumption).
    split; [exact Wf|].
    assert (Fl : forall c, W L c -> (Forall (fun x => Le L x c) l <-> Le L a c)).
    { intros c Wc. rewrite (atoms_lub Wa Wc). rewrite !Forall_forall. split; intros F x Hx; apply F.
      - apply (Permutation_in _ (Permutation_sym P)), Hx.
      - apply (Permutation_in _ P), Hx. }
    apply le_antisym; try assumption.
    - apply (mfold_lub H); try assumption. split.
      + apply le_merge_l; assumption.
      + apply (Fl _ Wm). apply le_merge_r; assumption.
    - pose proof (proj1 (mfold_lub H Wacc Fw Wf) (le_refl H Wf)) as [L1 L2].
      apply le_lub; try assumption. apply (Fl _ Wf). exact L2.
  Qed.

  (* (3) as in the property: merging the atoms back into Default reproduces the value *)
  Theorem remerge_dflt a l : W L a -> Permutation l (atomize t a) ->
    E L (remerge t (dflt t) l) a.
  Proof.
    intros Wa P. destruct (dflt_bot t A0) as [Wd Bd]. fold L in Wd, Bd.
    destruct (remerge_acc Wa Wd P) as [Wr Er].
    apply (e_trans H) with (b := m L (dflt t) a); auto using (m_wf H).
    apply (e_trans H) with (b := m L a (dflt t)); auto using (m_wf H).
    - apply (m_comm H); assumption.
    - exact (proj2 (bot_merge_r H Wa Wd Bd)).
  Qed.

  (* atoms are below the value they come from *)
  Corollary atoms_below a : W L a -> Forall (fun x => Le L x a) (atomize t a).
  Proof. intros Wa. apply (atoms_lub Wa Wa). apply le_refl; assumption. Qed.

  (* the executable form of the property holds of the model's own observation *)
  Theorem holds_b_model a acc : W L a -> W L acc -> C06_holds_b t (model_aobs t a acc) = true.
  Proof.
    intros Wa Wacc. unfold C06_holds_b, model_aobs, model_aobs_with.
    cbn [ao_atom_bot ao_atoms ao_bot ao_eq ao_acc_eq]. fold L.
    pose proof (Permutation_refl (atomize t a)) as P.
    repeat (apply andb_true_iff; split).
    - rewrite forallb_forall. intros b Hb. apply in_map_iff in Hb. destruct Hb as [x [Ex Hx]].
      pose proof (atoms_wf_nonbot Wa) as F. rewrite Forall_forall in F.
      destruct (F x Hx) as [_ Bx]. subst b. rewrite Bx. reflexivity.
    - pose proof (atoms_nil_iff_bot Wa) as B.
      destruct (atomize t a) eqn:Ea; destruct (isbot L a) eqn:Ba; cbn; try reflexivity.
      + assert (false = true) by (apply B; reflexivity). discriminate.
      + assert (v :: l = []) by (apply B; reflexivity). discriminate.
    - destruct (dflt_bot t A0) as [Wd Bd]. destruct (remerge_acc Wa Wd P) as [Wr _].
      apply (e_sym H); try assumption. apply remerge_dflt; assumption.
    - exact (proj2 (remerge_acc Wa Wacc P)).
  Qed.
End Main.

(* non-bottom atoms really occur, bottom-valued map entries yield none, and Some(bottom) under
   WithTop is a bottom with no atoms while the adjoined top is its own single atom *)
Example atomize_examples :
  atomize (TMap (TBot TSet)) [(1, Some [2; 3]); (4, None); (5, Some [])]%N
    = [[(1, Some [2])]; [(1, Some [3])]]%N /\
  atomize (TTop TSet) (Some []) = [] /\ isbot (ops (TTop TSet)) (Some []) = true /\
  atomize (TTop TSet) None = [None] /\
  atomize (TBot (TTop (TMap TSet))) (Some None) = [Some None].
Proof. repeat split. Qed.
