(* E1 Lattice engine -- tombstone lattices (C05).
   Executable models of /repo/lattices/src/set_union_with_tombstones.rs and
   map_union_with_tombstones.rs, transcribed impl by impl.  Definitions only.

   Carriers: SetUnionWithTombstones = (live items, tombstones), both [list N];
   MapUnionWithTombstones = (association list, tombstones).  The three tombstone backends of
   tombstone.rs (HashSet, RoaringTombstoneSet, FstTombstoneSet<String>) are all sets with
   `contains`, `len` and an `extend` that visits every element of the iterator it is given
   (HashSet: insert one by one; Roaring: bitmap.extend; FST: collect, sort, dedup, rebuild), so
   they share this one model; the observable (sorted contents) cannot tell them apart.  That
   claim about roaring / fst internals is validated only by the correspondence check. *)
From HV Require Export Lattice.Model.
Set Implicit Arguments.

(* ------------------------------------------------------------------ merge trees / histories *)
Inductive mtree (A : Type) : Type :=
| Leaf (a : A)
| Node (l r : mtree A).
Arguments Leaf {A} a.
Arguments Node {A} l r.

Fixpoint teval A (L : LatOps A) (t : mtree A) : A :=
  match t with
  | Leaf a => a
  | Node l r => m L (teval L l) (teval L r)
  end.

Fixpoint leaves A (t : mtree A) : list A :=
  match t with
  | Leaf a => [a]
  | Node l r => leaves l ++ leaves r
  end.

(* a replica absorbing states one after the other *)
Definition hfold A (L : LatOps A) (init : A) (others : list A) : A :=
  fold_left (m L) others init.

(* ------------------------------------------------------------------ the tombstone extend
   self.tombstones.extend(other.tombstones.into_iter().inspect(|x| { self.set.remove(x); }))
   : every element of the other tombstone set is first removed from the live collection, then
   inserted into the tombstone set *)
Section TombExtend.
  Variable S : Type.
  Variable rm : N -> S -> S.

  Definition tomb_step (st : S * list N) (x : N) : S * list N :=
    (rm x (fst st), set_insert (snd st) x).

  Definition tomb_extend (s : S) (t other : list N) : S * list N :=
    fold_left tomb_step other (s, t).
End TombExtend.

(* HashSet::remove (on a duplicate-free list: removes the one occurrence) *)
Definition set_remove (x : N) (s : list N) : list N :=
  filter (fun y => negb (N.eqb y x)) s.

Definition disjb (s t : list N) : bool := forallb (fun x => negb (mem x t)) s.

(* ------------------------------------------------------------------ set_union_with_tombstones.rs *)
Definition tstate : Type := (list N * list N)%type.

Definition st_merge (a b : tstate) : tstate * bool :=
  (* self.set.extend(other.set.into_iter().filter(|x| !self.tombstones.contains(x))) *)
  let s' := set_extend (fst a) (filter (fun x => negb (mem x (snd a))) (fst b)) in
  let r := tomb_extend set_remove s' (snd a) (snd b) in
  (* old_set_len < self.set.len() || old_tombstones_len < self.tombstones.len() *)
  (r, N.ltb (lenN (fst a)) (lenN (fst r)) || N.ltb (lenN (snd a)) (lenN (snd r))).

(* the inner fn set_cmp of partial_cmp is literally Model.set_cmp *)
Definition set_cmp_filter (a b f1 f2 : list N) : option comparison :=
  let ag := existsb (fun k => negb (mem k b)) (filter (fun k => negb (mem k f2)) a) in
  let bg := existsb (fun k => negb (mem k a)) (filter (fun k => negb (mem k f1)) b) in
  match ag, bg with
  | true, true => None
  | true, false => Some Gt
  | false, true => Some Lt
  | false, false => Some Eq
  end.

Definition st_cmp (a b : tstate) : option comparison :=
  match set_cmp (snd a) (snd b) with
  | Some Lt =>
    match set_cmp_filter (fst a) (fst b) (snd a) (snd b) with
    | Some Gt => None
    | Some Lt => Some Lt
    | Some Eq => Some Lt
    | None => None
    end
  | Some Eq => set_cmp (fst a) (fst b)
  | Some Gt =>
    match set_cmp_filter (fst a) (fst b) (snd a) (snd b) with
    | Some Gt => Some Gt
    | Some Eq => Some Gt
    | Some Lt => None
    | None => None
    end
  | None => None
  end.

Definition st_eqb (a b : tstate) : bool :=
  if negb (N.eqb (lenN (fst a)) (lenN (fst b))) || negb (N.eqb (lenN (snd a)) (lenN (snd b)))
  then false
  else forallb (fun k => mem k (fst b)) (fst a) && forallb (fun k => mem k (snd b)) (snd a).

Definition st_isbot (a : tstate) : bool :=
  match fst a, snd a with [], [] => true | _, _ => false end.

(* wf: what the Rust types do not enforce -- the documented invariant "if an item appears in
   tombstones it must not also be in set" (new / new_from accept anything); no duplicates is
   automatic for hash sets and part of wf only because the carrier is a list *)
Definition st_wf (a : tstate) : bool :=
  nodupb (fst a) && nodupb (snd a) && disjb (fst a) (snd a).

Definition settomb_ops : LatOps tstate := {|
  wf := st_wf;
  mrg := st_merge;
  cmp := st_cmp;
  eqb := st_eqb;
  isbot := st_isbot;
  istop := fun _ => false;
|}.

(* ------------------------------------------------------------------ map_union_with_tombstones.rs *)
Section MapTomb.
  Variable V : Type.
  Variable LV : LatOps V.

  Definition mstate : Type := (list (N * V) * list N)%type.

  (* HashMap::remove *)
  Definition map_remove (k : N) (mp : list (N * V)) : list (N * V) :=
    filter (fun kv => negb (N.eqb (fst kv) k)) mp.

  (* Merge::merge.  The iterator chain
       other.map.into_iter().filter(!is_bot && !self.tombstones.contains(k)).filter_map(get_mut ..)
       .collect(); self.map.extend(iter)
     is MapUnion's merge loop (Model.map_merge: skip bottoms, merge in place on collision, collect
     the new keys and extend) run on the other map with the locally tombstoned keys filtered out *)
  Definition mt_merge (a b : mstate) : mstate * bool :=
    let other_map := filter (fun kv => negb (mem (fst kv) (snd a))) (fst b) in
    let r1 := map_merge LV (fst a) other_map in
    let r := tomb_extend map_remove (fst r1) (snd a) (snd b) in
    (* if old_tombstones_len != self.tombstones.len() { changed = true } *)
    (r, snd r1 || negb (N.eqb (lenN (snd a)) (lenN (snd r)))).

  (* partial_cmp: the key loop is textually MapUnion's (Model.map_cmp_go: `?` on an incomparable
     value, early None once both flags are set); its result encodes the two flags
     (Some Gt = self_any_greater only, Some Lt = other_any_greater only, Some Eq = neither) *)
  Definition mt_cmp (a b : mstate) : option comparison :=
    let stg := existsb (fun k => negb (mem k (snd b))) (snd a) in
    let otg := existsb (fun k => negb (mem k (snd a))) (snd b) in
    if stg && otg then None else
    let vis := fun kv : N * V =>
      negb (isbot LV (snd kv)) && negb (mem (fst kv) (snd a)) && negb (mem (fst kv) (snd b)) in
    let ks := map fst (filter vis (fst a)) ++ map fst (filter vis (fst b)) in
    match map_cmp_go LV (fst a) (fst b) ks false false with
    | None => None
    | Some Eq =>                      (* (false, false, stg, otg) *)
      match stg, otg with
      | false, false => Some Eq
      | true, false => Some Gt
      | false, true => Some Lt
      | true, true => None            (* unreachable!() *)
      end
    | Some Gt =>                      (* (true, false, stg, otg) *)
      match stg, otg with
      | false, false => Some Gt
      | true, false => Some Gt
      | false, true => None
      | true, true => None            (* unreachable!() *)
      end
    | Some Lt =>                      (* (false, true, stg, otg) *)
      match stg, otg with
      | false, false => Some Lt
      | false, true => Some Lt
      | true, false => None
      | true, true => None            (* unreachable!() *)
      end
    end.

  Definition mt_eqb (a b : mstate) : bool :=
    if negb (N.eqb (lenN (snd a)) (lenN (snd b))) then false
    else if existsb (fun k => negb (mem k (snd b))) (snd a) then false
    else if existsb (fun k => negb (mem k (snd a))) (snd b) then false
    else map_eqb LV (fst a) (fst b).

  Definition mt_isbot (a : mstate) : bool :=
    forallb (fun kv => isbot LV (snd kv)) (fst a) &&
    match snd a with [] => true | _ => false end.

  Definition mt_wf (a : mstate) : bool :=
    wf (map_ops LV) (fst a) && nodupb (snd a) && disjb (keys (fst a)) (snd a).

  Definition maptomb_ops : LatOps mstate := {|
    wf := mt_wf;
    mrg := mt_merge;
    cmp := mt_cmp;
    eqb := mt_eqb;
    isbot := mt_isbot;
    istop := fun _ => false;
  |}.
End MapTomb.

(* ================================================================== C05: specification side *)
(* union of the live / tombstone components of a list of replica states *)
Definition all_live (ss : list tstate) : list N := flat_map fst ss.
Definition all_tomb A (ss : list (A * list N)) : list N := flat_map snd ss.

(* (U live_i) \ (U tomb_i) *)
Definition spec_live (ss : list tstate) : list N :=
  nodup N.eq_dec (filter (fun x => negb (mem x (all_tomb ss))) (all_live ss)).

(* ================================================================== correspondence check *)
(* lists as sets: equal length and mutual inclusion (the harness sends sorted, duplicate-free
   lists; the model's lists are duplicate-free whenever the inputs are) *)
Definition seteqb (a b : list N) : bool :=
  Nat.eqb (length a) (length b) && forallb (fun k => mem k b) a && forallb (fun k => mem k a) b.

Definition cmp_eqb (x y : option comparison) : bool :=
  match x, y with
  | None, None => true
  | Some Lt, Some Lt | Some Eq, Some Eq | Some Gt, Some Gt => true
  | _, _ => false
  end.

Definition verdict (agree holds : bool) : N :=
  ((if agree then 0 else 1) + (if holds then 0 else 2))%N.

Fixpoint bad_from (n : N) (l : list N) : list (N * N) :=
  match l with
  | [] => []
  | v :: r => if N.eqb v 0 then bad_from (n + 1) r else (n, v) :: bad_from (n + 1) r
  end.
Definition bad (l : list N) : list (N * N) := bad_from 0 l.

(* one step of a history as observed on a backend:
   before the merge: partial_cmp(acc, other), acc == other (hash backend only; the roaring and
   fst tombstone sets do not implement the collection traits PartialOrd / PartialEq need);
   the merge's changed flag; after it: as_reveal_ref (sorted) and is_bot *)
Record sobs (Lv : Type) : Type := SObs {
  so_live : Lv;
  so_tomb : list N;
  so_ch : bool;
  so_bot : bool;
  so_cmp : option (option comparison);   (* None = not observable on this backend *)
  so_eq : option bool;
}.

Fixpoint all2 A B (f : A -> B -> bool) (x : list A) (y : list B) : bool :=
  match x, y with
  | [], [] => true
  | a :: x', b :: y' => f a b && all2 f x' y'
  | _, _ => false
  end.

Section Run.
  Variable Lv : Type.
  Variable L : LatOps (Lv * list N).
  Variable lveq : Lv -> Lv -> bool.          (* comparison of revealed live parts *)

  (* the model's observations for a history init, o1, o2, ... *)
  Fixpoint model_steps (acc : Lv * list N) (others : list (Lv * list N)) : list (sobs Lv) :=
    match others with
    | [] => []
    | o :: r =>
      let res := mrg L acc o in
      SObs (fst (fst res)) (snd (fst res)) (snd res) (isbot L (fst res))
           (Some (cmp L acc o)) (Some (eqb L acc o))
      :: model_steps (fst res) r
    end.

  Definition opt_agree A (e : A -> A -> bool) (i mo : option A) : bool :=
    match i, mo with
    | None, _ => true                        (* not observed on this backend *)
    | Some x, Some y => e x y
    | Some _, None => false
    end.

  Definition sobs_agree (i mo : sobs Lv) : bool :=
    lveq (so_live i) (so_live mo) && seteqb (so_tomb i) (so_tomb mo) &&
    Bool.eqb (so_ch i) (so_ch mo) && Bool.eqb (so_bot i) (so_bot mo) &&
    opt_agree cmp_eqb (so_cmp i) (so_cmp mo) && opt_agree Bool.eqb (so_eq i) (so_eq mo).

  Definition steps_agree (i mo : list (sobs Lv)) : bool := all2 sobs_agree i mo.

  Definition tree_agree (i : Lv * list N) (mo : Lv * list N) : bool :=
    lveq (fst i) (fst mo) && seteqb (snd i) (snd mo).
End Run.

Fixpoint prefixes A (acc : list A) (l : list A) : list (list A) :=
  match l with
  | [] => []
  | x :: r => (acc ++ [x]) :: prefixes (acc ++ [x]) r
  end.

(* ---- sets.  case = init state, the states merged in (in order), a merge tree over all of them;
   implementation side = the step observations per backend + the tree result per backend *)
Definition set_agree (init : tstate) (others : list tstate) (tr : mtree tstate)
    (steps : list (list (sobs (list N)))) (trees : list tstate) : bool :=
  forallb (fun i => steps_agree seteqb i (model_steps settomb_ops init others)) steps &&
  forallb (fun i => tree_agree seteqb i (teval settomb_ops tr)) trees.

(* executable form of C05 on the implementation's outputs (all replica states well-formed):
   after every step the live items are (U live) \ (U tombstones) of the states absorbed so far,
   the tombstones are their union, nothing is both live and tombstoned; any merge tree over
   the same states gives the same; all backends say the same *)
Definition set_res_ok (ss : list tstate) (live tomb : list N) : bool :=
  seteqb live (spec_live ss) && seteqb tomb (nodup N.eq_dec (all_tomb ss)) && disjb live tomb.

Definition set_step_ok (ss : list tstate) (o : sobs (list N)) : bool :=
  set_res_ok ss (so_live o) (so_tomb o).

(* the changed flags along a history, judged on the implementation's own revealed states with
   the lattice's equality: the flag is true exactly when the receiver is no longer equal to
   what it was (LatLaws.ch_spec, i.e. C02 for the tombstone lattices) *)
Fixpoint flags_ok Lv (L : LatOps (Lv * list N)) (prev : Lv * list N) (obs : list (sobs Lv)) : bool :=
  match obs with
  | [] => true
  | o :: r =>
    Bool.eqb (so_ch o) (negb (eqb L (so_live o, so_tomb o) prev)) &&
    flags_ok L (so_live o, so_tomb o) r
  end.

Definition C05_set_holds_b (init : tstate) (others : list tstate)
    (steps : list (list (sobs (list N)))) (trees : list tstate) : bool :=
  forallb (fun i => all2 set_step_ok (prefixes [init] others) i) steps &&
  forallb (fun i => flags_ok settomb_ops init i) steps &&
  forallb (fun r => set_res_ok (init :: others) (fst r) (snd r)) trees.

Definition chk_set (init : tstate) (others : list tstate) (tr : mtree tstate)
    (steps : list (list (sobs (list N)))) (trees : list tstate) : N :=
  verdict (set_agree init others tr steps trees)
          (negb (forallb st_wf (init :: others)) || C05_set_holds_b init others steps trees).

(* ---- maps *)
Section MapChk.
  Variable V : Type.
  Variable LV : LatOps V.
  Variable veq : V -> V -> bool.             (* equality of revealed values *)

  Definition mapeqb (a b : list (N * V)) : bool :=
    Nat.eqb (length a) (length b) &&
    forallb (fun kv => match get (fst kv) b with Some v => veq (snd kv) v | None => false end) a.

  Definition map_agree (init : mstate V) (others : list (mstate V)) (tr : mtree (mstate V))
      (steps : list (list (sobs (list (N * V))))) (trees : list (mstate V)) : bool :=
    forallb (fun i => steps_agree mapeqb i (model_steps (maptomb_ops LV) init others)) steps &&
    forallb (fun i => tree_agree mapeqb i (teval (maptomb_ops LV) tr)) trees.

  (* visible value of key k in a replica state *)
  Definition vget (k : N) (s : mstate V) : option V :=
    match get k (fst s) with
    | Some v => if isbot LV v then None else Some v
    | None => None
    end.

  (* join of the visible values of k over the states (None = no state shows k) *)
  Definition vjoin (k : N) (ss : list (mstate V)) : option V :=
    fold_left (fun acc s =>
      match acc, vget k s with
      | None, x => x
      | Some a, None => Some a
      | Some a, Some b => Some (fst (mrg LV a b))
      end) ss None.

  Definition veqE (x y : option V) : bool :=
    match x, y with
    | None, None => true
    | Some a, Some b => eqb LV a b
    | _, _ => false
    end.

  Definition map_res_ok (ss : list (mstate V)) (mp : list (N * V)) (tb : list N) : bool :=
    seteqb tb (nodup N.eq_dec (all_tomb ss)) &&
    disjb (keys mp) tb &&
    (* every key any state ever mentions: tombstoned anywhere => absent; otherwise its visible
       value is the join of the visible values *)
    forallb (fun k =>
      if mem k (all_tomb ss) then match get k mp with None => true | Some _ => false end
      else veqE (vget k (mp, tb)) (vjoin k ss))
      (flat_map (fun s => keys (fst s)) ss ++ keys mp).

  Definition C05_map_holds_b (init : mstate V) (others : list (mstate V))
      (steps : list (list (sobs (list (N * V))))) (trees : list (mstate V)) : bool :=
    forallb (fun i => all2 (fun ss o => map_res_ok ss (so_live o) (so_tomb o))
                           (prefixes [init] others) i) steps &&
    forallb (fun i => flags_ok (maptomb_ops LV) init i) steps &&
    forallb (fun r => map_res_ok (init :: others) (fst r) (snd r)) trees.

  Definition chk_map (init : mstate V) (others : list (mstate V)) (tr : mtree (mstate V))
      (steps : list (list (sobs (list (N * V))))) (trees : list (mstate V)) : N :=
    verdict (map_agree init others tr steps trees)
            (negb (forallb (mt_wf LV) (init :: others)) || C05_map_holds_b init others steps trees).
End MapChk.
