(* C04 (union-find part) -- Each lattice type implements its mathematical model: for union-find
   the join of partitions; two items are `same` exactly when they are connected by the
   equivalence closure of all unions ever merged in.
   Only property theorems live here (the main C04 file Requires this one); each is closed by an
   exact of a lemma proved in Lattice/PUF.v and followed by Print Assumptions.
   Model: Lattice/UF.v (find with its two loops, the pure-cycle guard and path compression
   through Cell as state passing; union, same, merge, partial_cmp, eq, is_bot, atomize).

   uf_ops (UF.v) packs merge / partial_cmp / eq / is_bot into a LatOps record with the executable
   forest check as wf; C04_uf_laws gives C01-C03 for it. *)
From HV Require Import Lattice.Model Lattice.Ord Lattice.UF Lattice.PUF.

(* every value reachable from Default by unions, merges of other reachable values and the
   path-compressing queries (same / partial_cmp / eq / is_bot): all operations terminate with the
   default fuel |map|+1, never panic, and the parent map is a forest with distinct keys whose
   root classes are the classes of the closure of the pairs unioned in *)
Theorem C04_uf_reachable_inv : forall h, pure h = true ->
  exists s out, run h = Ok (s, out) /\
    forest s /\ NoDup (keys s) /\ forall x y, SameRoot s x y <-> EqCl (pairs h) x y.
Proof. exact run_inv. Qed.
Print Assumptions C04_uf_reachable_inv.

Theorem C04_uf_same_closure : forall h, pure h = true -> forall x y,
  exists s out s' b, run h = Ok (s, out) /\ same s x y = Ok (s', b) /\
    (b = true <-> x = y \/ EqCl (pairs h) x y).
Proof. exact uf_same_closure. Qed.
Print Assumptions C04_uf_same_closure.

(* the answer a `same` query gives in the middle of a history *)
Theorem C04_uf_history_same_answer : forall h x y, pure h = true ->
  exists s out b, run (HSame h x y) = Ok (s, out ++ [b2n b]) /\
    (b = true <-> x = y \/ EqCl (pairs h) x y).
Proof. exact uf_history_same_answer. Qed.
Print Assumptions C04_uf_history_same_answer.

(* find terminates on every forest with any fuel >= |map| + 1, returns the root and a map with
   the same keys and the same root for every item *)
Theorem C04_uf_find_terminates : forall s x fuel, forest s -> length s < fuel ->
  exists r s', find fuel s x = Ok (r, s') /\ Rt s x r /\ pres s s'.
Proof. exact find_terminates. Qed.
Print Assumptions C04_uf_find_terminates.

(* `same` is independent of path compression *)
Theorem C04_uf_same_compression_indep : forall s z fuel r s', forest s ->
  find fuel s z = Ok (r, s') -> length s < fuel ->
  forall x y, exists s1 s2 b, same s x y = Ok (s1, b) /\ same s' x y = Ok (s2, b).
Proof. exact same_compression_indep. Qed.
Print Assumptions C04_uf_same_compression_indep.

(* merge is the join of partitions; its changed flag is false exactly when the other
   partition refines the receiver's *)
Theorem C04_uf_merge_is_join : forall a b Pa Pb, Inv a Pa -> Inv b Pb ->
  exists s' f, merge a b = Ok (s', f) /\ forest s' /\ NoDup (keys s') /\
    (forall x y, SameRoot s' x y <-> PJoin (SameRoot a) (SameRoot b) x y) /\
    (f = false <-> forall x y, SameRoot b x y -> SameRoot a x y).
Proof. exact merge_is_join. Qed.
Print Assumptions C04_uf_merge_is_join.

(* the forest precondition is needed: on a rho-shaped map find never returns (documented
   precondition, not a finding: no history builds such a map) *)
Theorem C04_uf_find_rho_diverges_refuted :
  exists s x, ~ forest s /\ forall fuel, find fuel s x = OutOfFuel.
Proof. exact find_rho_diverges_refuted. Qed.
Print Assumptions C04_uf_find_rho_diverges_refuted.

(* union-find is a lattice: merge is a least upper bound for partition refinement, the changed
   flag, partial_cmp, ==, is_bot agree with it (LatLaws = the C01-C03 statements); wf is the
   executable forest check *)
Theorem C04_uf_laws : LatLaws uf_ops /\ TopLaw uf_ops.
Proof. exact (conj uf_laws uf_toplaw). Qed.
Print Assumptions C04_uf_laws.

Theorem C04_uf_wf_is_forest : forall s, wf uf_ops s = true <-> forest s /\ NoDup (keys s).
Proof. exact uf_wf_spec. Qed.
Print Assumptions C04_uf_wf_is_forest.

Theorem C04_uf_order_is_refinement : forall a b, W uf_ops a -> W uf_ops b ->
  (Le uf_ops a b <-> forall x y, SameRoot a x y -> SameRoot b x y).
Proof. exact uf_le_refines. Qed.
Print Assumptions C04_uf_order_is_refinement.

(* pure cycles x0 -> x1 -> ... -> x0 of ANY length >= 2 (distinct items): not forests, yet find
   terminates with any fuel > length (in particular the default |map|+1), elects the last item
   of the cycle and points every member at it; all members are `same` *)
Theorem C04_uf_pure_cycle : forall s x0 x1 r fuel,
  NoDup (x0 :: x1 :: r) -> Chain s (x0 :: x1 :: r) x0 -> length (x0 :: x1 :: r) < fuel ->
  let L := lst x1 r in
  exists s', find fuel s x0 = Ok (L, s') /\ length s' = length s /\
    (forall z, In z (x0 :: x1 :: r) -> get z s' = Some L) /\
    (forall z, ~ In z (x0 :: x1 :: r) -> get z s' = get z s).
Proof. exact find_pure_cycle. Qed.
Print Assumptions C04_uf_pure_cycle.

Theorem C04_uf_pure_cycle_same : forall s x0 x1 r z,
  NoDup (x0 :: x1 :: r) -> Chain s (x0 :: x1 :: r) x0 -> In z (x0 :: x1 :: r) ->
  exists s', same s x0 z = Ok (s', true).
Proof. exact same_pure_cycle. Qed.
Print Assumptions C04_uf_pure_cycle_same.

(* the two maps of the repo's test_malformed, by computation (instances of the above; also:
   such a map is not a forest) *)
Theorem C04_uf_pure_cycle_partial :
  find (dfuel cycle3) cycle3 1 = Ok (3, [(1, 3); (2, 3); (3, 3)])%N /\
  find (dfuel cycle4) cycle4 1 = Ok (4, [(1, 4); (2, 4); (3, 4); (4, 4)])%N /\
  (exists s, same cycle3 1 2 = Ok (s, true)) /\ (exists s, same cycle4 1 2 = Ok (s, true)) /\
  ~ forest cycle3.
Proof. exact find_pure_cycle_examples. Qed.
Print Assumptions C04_uf_pure_cycle_partial.

(* non-vacuity: a history with unions, a compressing query and a merged-in value; 1 and 4 end
   up connected only through the merged value *)
Example C04_uf_nonvacuous :
  let h := HMerge (HSame (HUnion (HUnion HNil 1 2) 3 4) 1 2) (HUnion (HUnion HNil 2 5) 5 3) in
  pure h = true /\
  run h = Ok ([(2, 5); (4, 3); (1, 5); (5, 3)], [1; 1; 1; 1; 1; 1])%N /\
  (exists s, same [(2, 5); (4, 3); (1, 5); (5, 3)]%N 4 2 = Ok (s, true)) /\
  EqCl (pairs h) 4 2.
Proof.
  cbv zeta. split; [reflexivity|]. split; [vm_compute; reflexivity|]. split; [eexists; vm_compute; reflexivity|].
  cbn [pairs app].
  apply ec_trans with (b := 3%N); [apply ec_sym, ec_base; cbn; tauto|].
  apply ec_trans with (b := 5%N); [apply ec_sym, ec_base; cbn; tauto|].
  apply ec_sym, ec_base. cbn. tauto.
Qed.
