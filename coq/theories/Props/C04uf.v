(* C04 (union-find part) -- Each lattice type implements its mathematical model: for union-find
   the join of partitions; two items are `same` exactly when they are connected by the
   equivalence closure of all unions ever merged in.
   Only property theorems live here (the main C04 file Requires this one); each is closed by an
   exact of a lemma proved in Lattice/PUF.v and followed by Print Assumptions.
   Model: Lattice/UF.v (find with its two loops, the pure-cycle guard and path compression
   through Cell as state passing; union, same, merge, partial_cmp, eq, is_bot, atomize).

   Not proved (would complete the picture): LatLaws (C01-C03) for the union-find ops record via
   OrdLaws with le = partition refinement -- merge_is_join below gives the join and the changed
   flag, the partial_cmp / eq / is_bot obligations and an executable wf (forest check) are
   missing; termination of find on pure cycles of EVERY length (only the repo's test_malformed
   instances are proved, by computation). *)
From HV Require Import Lattice.Model Lattice.UF Lattice.PUF.

(* every value reachable from Default by unions, merges of other reachable values and the
   path-compressing queries (same / partial_cmp / eq / is_bot): all operations terminate with the
   default fuel |map|+1, never panic, and the parent map is a forest with distinct keys whose
   root classes are the classes of the closure of the pairs unioned in *)
Theorem C04_uf_reachable_inv : forall h, pure h = true ->
  exists s out, run h = Ok (s, out) /\
    forest s /\ NoDup (keys s) /\ forall x y, SameRoot s x y <-> EqCl (pairs h) x y.
Proof. exact run_inv. Qed.
Print Assumptions C04_uf_reachable_inv.

Theorem C04_uf_same_closure : forall h, pure h = true -> forall x y,
  exists s out s' b, run h = Ok (s, out) /\ same s x y = Ok (s', b) /\
    (b = true <-> x = y \/ EqCl (pairs h) x y).
Proof. exact uf_same_closure. Qed.
Print Assumptions C04_uf_same_closure.

(* the answer a `same` query gives in the middle of a history *)
Theorem C04_uf_history_same_answer : forall h x y, pure h = true ->
  exists s out b, run (HSame h x y) = Ok (s, out ++ [b2n b]) /\
    (b = true <-> x = y \/ EqCl (pairs h) x y).
Proof. exact uf_history_same_answer. Qed.
Print Assumptions C04_uf_history_same_answer.

(* find terminates on every forest with any fuel >= |map| + 1, returns the root and a map with
   the same keys and the same root for every item *)
Theorem C04_uf_find_terminates : forall s x fuel, forest s -> length s < fuel ->
  exists r s', find fuel s x = Ok (r, s') /\ Rt s x r /\ pres s s'.
Proof. exact find_terminates. Qed.
Print Assumptions C04_uf_find_terminates.

(* `same` is independent of path compression *)
Theorem C04_uf_same_compression_indep : forall s z fuel r s', forest s ->
  find fuel s z = Ok (r, s') -> length s < fuel ->
  forall x y, exists s1 s2 b, same s x y = Ok (s1, b) /\ same s' x y = Ok (s2, b).
Proof. exact same_compression_indep. Qed.
Print Assumptions C04_uf_same_compression_indep.

(* merge is the join of partitions; its changed flag is false exactly when the other
   partition refines the receiver's *)
Theorem C04_uf_merge_is_join : forall a b Pa Pb, Inv a Pa -> Inv b Pb ->
  exists s' f, merge a b = Ok (s', f) /\ forest s' /\ NoDup (keys s') /\
    (forall x y, SameRoot s' x y <-> PJoin (SameRoot a) (SameRoot b) x y) /\
    (f = false <-> forall x y, SameRoot b x y -> SameRoot a x y).
Proof. exact merge_is_join. Qed.
Print Assumptions C04_uf_merge_is_join.

(* the forest precondition is needed: on a rho-shaped map find never returns (documented
   precondition, not a finding: no history builds such a map) *)
Theorem C04_uf_find_rho_diverges_refuted :
  exists s x, ~ forest s /\ forall fuel, find fuel s x = OutOfFuel.
Proof. exact find_rho_diverges_refuted. Qed.
Print Assumptions C04_uf_find_rho_diverges_refuted.

(* pure cycles are not forests either, yet find terminates on them (loop guard): exactly the
   two maps of the repo's test_malformed; cycles of arbitrary length are not proved *)
Theorem C04_uf_pure_cycle_partial :
  find (dfuel cycle3) cycle3 1 = Ok (3, [(1, 3); (2, 3); (3, 3)])%N /\
  find (dfuel cycle4) cycle4 1 = Ok (4, [(1, 4); (2, 4); (3, 4); (4, 4)])%N /\
  (exists s, same cycle3 1 2 = Ok (s, true)) /\ (exists s, same cycle4 1 2 = Ok (s, true)) /\
  ~ forest cycle3.
Proof. exact find_pure_cycle_examples. Qed.
Print Assumptions C04_uf_pure_cycle_partial.

(* non-vacuity: a history with unions, a compressing query and a merged-in value; 1 and 4 end
   up connected only through the merged value *)
Example C04_uf_nonvacuous :
  let h := HMerge (HSame (HUnion (HUnion HNil 1 2) 3 4) 1 2) (HUnion (HUnion HNil 2 5) 5 3) in
  pure h = true /\
  run h = Ok ([(2, 5); (4, 3); (1, 5); (5, 3)], [1; 1; 1; 1; 1; 1])%N /\
  (exists s, same [(2, 5); (4, 3); (1, 5); (5, 3)]%N 4 2 = Ok (s, true)) /\
  EqCl (pairs h) 4 2.
Proof.
  cbv zeta. split; [reflexivity|]. split; [vm_compute; reflexivity|]. split; [eexists; vm_compute; reflexivity|].
  cbn [pairs app].
  apply ec_trans with (b := 3%N); [apply ec_sym, ec_base; cbn; tauto|].
  apply ec_trans with (b := 5%N); [apply ec_sym, ec_base; cbn; tauto|].
  apply ec_sym, ec_base. cbn. tauto.
Qed.
