(* C37 Exhaustive simulation covers every distinct schedule.
   Full statement (properties.jsonl): in exhaustive mode the simulator reaches every distinct
   combination of release decisions (every prefix size for ordered inputs, every subset for
   unordered ones, every snapshot version, every order of ready ticks and observations).

   Proved here (all queues, unbounded): completeness of the DECISION SPACE of the stream and
   singleton hooks -- every demanded schedule is produced by a valid decision string, and for
   NoOrder by exactly one (min_index pruning: no subset lost, no duplicate schedule).
   Round 2 adds: every per-key combination for the keyed hooks and the keyed singleton; a
   uniform statement for every modelled hook kind ([hook_spec] / C37_every_hook_schedule);
   run_hooks reaches every combination of per-hook schedules that is not all-trivial; the
   scheduler's single choice reaches every ready tick / observation by exactly one value and
   every order of independent ready ticks by exactly one decision string.
   NOT proved (hence the property is claimed `partial`):
     - that bolero's exhaustive driver enumerates every value of every requested range (an
       external crate; checked per run by comparing outcome SETS with the model's, Sim/Exh.v);
     - (uniqueness of the decision string is now proved for every modelled hook kind, for
       run_hooks as a whole and for the scheduler choice);
     - the scheduler model [step_choice] is not tied to LaunchedSim::step by a per-run
       correspondence other than end-to-end outcome sets. *)
From Coq Require Import List Arith Bool NArith Permutation.
From HV Require Import Sim.Model Sim.PHooks Sim.PTick Sim.PComplete Sim.PCompleteK Sim.PCompleteTick Sim.PUniqueK Sim.PUniqueH Sim.ModelTop Sim.PTop Sim.PTop2.
Import ListNotations.
Close Scope N_scope.

(* every prefix is reachable, by exactly one decision *)
Theorem C37_total_every_prefix_partial : forall (A : Type) force (q p r : list A),
  q = p ++ r -> (force = true -> p <> []) ->
  decide_total force q [length p] = Ok (p, r, [], negb (is_nil p))
  /\ forall d1 d2 r1 r2 n1 n2,
       decide_total force q d1 = Ok (p, r1, [], n1) ->
       decide_total force q d2 = Ok (p, r2, [], n2) -> d1 = d2.
Proof.
  intros A force q p r Hq Hf. split.
  - apply total_complete; auto.
  - intros. eapply total_unique; eauto.
Qed.
Print Assumptions C37_total_every_prefix_partial.

(* every sub-sequence (with its complement) is reachable *)
Theorem C37_noorder_every_subset_partial : forall (A : Type) force (q s k : list A),
  Merge s k q -> (force = true -> s <> [] \/ q = []) ->
  exists ds, decide_noorder force q ds = Ok (s, k, [], negb (is_nil s)).
Proof. intros A. exact (@noorder_complete A). Qed.
Print Assumptions C37_noorder_every_subset_partial.

(* ... and, items being distinguishable, by at most one decision string: the min_index
   discipline explores no schedule twice *)
Theorem C37_noorder_no_duplicate_partial : forall (A : Type) force (q s k1 k2 : list A) d1 d2 n1 n2,
  NoDup q ->
  decide_noorder force q d1 = Ok (s, k1, [], n1) ->
  decide_noorder force q d2 = Ok (s, k2, [], n2) -> d1 = d2.
Proof. intros A. exact (@noorder_unique A). Qed.
Print Assumptions C37_noorder_no_duplicate_partial.

(* every pending snapshot version is reachable (older ones skipped, newer ones kept), and so
   is the unchanged re-release *)
Theorem C37_single_every_version_partial : forall (A : Type) force (pre post : list A) x last,
  (exists ds, decide_single force (pre ++ x :: post) last ds = Ok (x, true, pre, post, []))
  /\ forall (l : A) (q : list A), q <> [] -> decide_single false q (Some l) [1] = Ok (l, false, [], q, []).
Proof.
  intros A force pre post x last. split.
  - apply single_complete_new.
  - intros. apply single_complete_old; auto.
Qed.
Print Assumptions C37_single_every_version_partial.

(* keyed hooks: every per-key combination of prefixes / sub-sequences, for every iteration
   order, also under force provided something is released *)
Theorem C37_keyed_total_every_combination : forall (A K : Type) (m : list (K * list A)) rel m' force,
  KeyedSplit PrefixSplit m rel m' -> (force = true -> rel <> [] \/ count_nonempty m = 0) ->
  exists ds, decide_keyed_total force m ds = Ok (rel, m', [], negb (is_nil rel)).
Proof.
  intros A K m rel m' force HS Hf.
  destruct (keyed_total_complete m rel m' HS force _ eq_refl Hf) as (ds & H).
  exists ds. unfold decide_keyed_total. rewrite H. reflexivity.
Qed.
Print Assumptions C37_keyed_total_every_combination.

Theorem C37_keyed_noorder_every_combination : forall (A K : Type) (m : list (K * list A)) rel m' force,
  KeyedSplit Merge m rel m' -> (force = true -> rel <> [] \/ count_nonempty m = 0) ->
  exists ds, decide_keyed_noorder force m ds = Ok (rel, m', [], negb (is_nil rel)).
Proof.
  intros A K m rel m' force HS Hf.
  destruct (keyed_no_complete m rel m' HS force _ eq_refl Hf) as (ds & H).
  exists ds. unfold decide_keyed_noorder. rewrite H. reflexivity.
Qed.
Print Assumptions C37_keyed_noorder_every_combination.

Theorem C37_ksingle_every_combination : forall (A K : Type) keq last (m : list (K * list A)) rel m' force,
  KSplit keq last m rel m' ->
  (force = true -> existsb (fun e => snd e) rel = true \/ count_nonempty m = 0) ->
  exists ds, decide_ksingle keq force m last ds
             = Ok (rel, m', ks_last keq last rel, [], existsb (fun e => snd e) rel).
Proof.
  intros A K keq last m rel m' force HS Hf.
  exact (ksingle_complete keq last m rel m' HS force _ eq_refl Hf).
Qed.
Print Assumptions C37_ksingle_every_combination.

(* ... and no keyed schedule is explored twice: equal outcomes imply equal decision strings *)
Theorem C37_keyed_no_duplicate : forall (A K : Type),
  (forall (m : list (K * list A)) force r d1 d2 rel1 rel2 m',
     keyed_total_loop force r m d1 = Ok (rel1, m', []) ->
     keyed_total_loop force r m d2 = Ok (rel2, m', []) -> d1 = d2)
  /\ (forall (m : list (K * list A)) force r d1 d2 rel m',
        Forall (fun e => NoDup (snd e)) m ->
        keyed_no_loop force r m d1 = Ok (rel, m', []) ->
        keyed_no_loop force r m d2 = Ok (rel, m', []) -> d1 = d2).
Proof.
  intros A K. split.
  - exact (@keyed_total_unique A K).
  - exact (@keyed_no_unique A K).
Qed.
Print Assumptions C37_keyed_no_duplicate.

(* uniform: every demanded schedule [hook_spec] of every modelled hook kind *)
Theorem C37_every_hook_schedule : forall h h' nt,
  hook_spec h h' nt -> forall force, (force = true -> nt = true) ->
  exists ds, auto h force ds = Ok (h', nt, []).
Proof. exact auto_complete. Qed.
Print Assumptions C37_every_hook_schedule.

(* run_hooks: every combination of per-hook schedules that is not all-trivial (when some hook
   can decide non-trivially) is produced by some valid decision string, and releases exactly
   the items of the chosen schedules *)
Theorem C37_run_hooks_every_combination : forall hs ts,
  SpecAll hs ts ->
  (existsb can_nontrivial hs = true -> existsb snd ts = true) ->
  exists ds hs2 outs, release_all (map fst ts) = Ok (hs2, outs)
                      /\ run_hooks hs ds = Ok (hs2, outs, []).
Proof. exact run_hooks_complete. Qed.
Print Assumptions C37_run_hooks_every_combination.

(* keyed singleton: the remaining map alone determines the decisions *)
Theorem C37_ksingle_no_duplicate : forall (A K : Type) keq (m : list (K * list A)) force r last d1 d2
    rel1 rel2 m' l1 l2 e1 e2 n1 n2,
  ksingle_loop keq force r m last d1 = Ok (rel1, m', l1, e1, n1) ->
  ksingle_loop keq force r m last d2 = Ok (rel2, m', l2, e2, n2) ->
  exists u, d1 = u ++ e1 /\ d2 = u ++ e2 /\ rel1 = rel2 /\ l1 = l2 /\ n1 = n2.
Proof. intros A K. exact (@ksingle_prefix_unique A K). Qed.
Print Assumptions C37_ksingle_no_duplicate.

(* every modelled batch hook: same released items + same pending input => same decisions *)
Theorem C37_every_hook_no_duplicate : forall h force d1 d2 ha hb n1 n2 e1 e2 h2 out fl,
  distinct_items h ->
  auto h force d1 = Ok (ha, n1, e1) -> auto h force d2 = Ok (hb, n2, e2) ->
  release ha = Ok (h2, out, fl) -> release hb = Ok (h2, out, fl) ->
  exists u, d1 = u ++ e1 /\ d2 = u ++ e2 /\ ha = hb /\ n1 = n2.
Proof. exact auto_release_unique. Qed.
Print Assumptions C37_every_hook_no_duplicate.

(* run_hooks as a whole: no schedule of a tick is explored twice *)
Theorem C37_run_hooks_no_duplicate : forall hs d1 d2 hs2 outs,
  forallb idle hs = true -> Forall distinct_items hs ->
  run_hooks hs d1 = Ok (hs2, outs, []) -> run_hooks hs d2 = Ok (hs2, outs, []) -> d1 = d2.
Proof. exact run_hooks_unique. Qed.
Print Assumptions C37_run_hooks_no_duplicate.

(* the scheduler (model of LaunchedSim::step's choice): every ready tick and observation is
   chosen by some value, and by only one *)
Theorem C37_scheduler_every_choice : forall (T O : Type),
  (forall (a b : list T) t (obs : list O),
     step_choice (a ++ t :: b) obs [length a] = Ok (PTick t ((a ++ b) ++ [t]), []))
  /\ (forall (ticks : list T) (a b : list O) o,
        step_choice ticks (a ++ o :: b) [length ticks + length a] = Ok (PObs o, []))
  /\ (forall (ticks : list T) (obs : list O) d1 d2 r1 r2 p,
        NoDup ticks -> NoDup obs ->
        step_choice ticks obs (d1 :: r1) = Ok (p, r1) ->
        step_choice ticks obs (d2 :: r2) = Ok (p, r2) -> d1 = d2).
Proof.
  intros T O. split; [|split].
  - intros. apply step_choice_tick_complete.
  - intros. apply step_choice_obs_complete.
  - intros ticks obs d1 d2 r1 r2 p Ht Ho H1 H2. exact (step_choice_unique ticks obs d1 d2 r1 r2 p Ht Ho H1 H2).
Qed.
Print Assumptions C37_scheduler_every_choice.

(* every order of independent ready ticks, by exactly one decision string *)
Theorem C37_scheduler_every_order : forall (T : Type) (l p : list T),
  Permutation p l ->
  (exists ds, drain (length l) l ds = Ok (p, []))
  /\ (NoDup l -> forall d1 d2, drain (length l) l d1 = Ok (p, []) ->
                               drain (length l) l d2 = Ok (p, []) -> d1 = d2).
Proof.
  intros T l p HP. split.
  - apply drain_every_order; auto.
  - intros Hnd d1 d2 H1 H2. eapply drain_order_unique; eauto.
Qed.
Print Assumptions C37_scheduler_every_order.

(* observation / inline hooks (unkeyed): every pending element can be observed next; every
   order-preserving interleaving of a merge_ordered is observed *)
Theorem C37_top_order_every_element : forall (A : Type) force (a b : list A) x,
  exists ds, decide_top_order force (a ++ x :: b) ds = Ok ([x], a ++ b, [], true).
Proof. intros A. exact (@top_order_complete A). Qed.
Print Assumptions C37_top_order_every_element.

Theorem C37_inline_merge_every_interleaving : forall (A : Type) (a b out : list A),
  Merge a b out -> exists ds, decide_merge a b ds = Ok (out, []).
Proof. intros A. exact (@merge_complete A). Qed.
Print Assumptions C37_inline_merge_every_interleaving.

(* keyed observation hooks: every pending item of every key (resp. every key's front item) can
   be the next one observed *)
Theorem C37_top_keyed_every_item : forall (A K : Type) front force (m1 : list (K * list A)) k m2 a x b,
  (front = true -> a = []) ->
  exists ds, decide_top_keyed front force (m1 ++ (k, a ++ x :: b) :: m2) ds
             = Ok ([(k, x)], m1 ++ (k, a ++ b) :: m2, [], true).
Proof. intros A K. exact (@top_keyed_complete A K). Qed.
Print Assumptions C37_top_keyed_every_item.

(* the last four hook kinds: completeness *)
Theorem C37_top_kmerge_every_front : forall (A K : Type) force,
  (forall (p s m2 : list (K * list A)) k (x : A) b,
     exists ds, decide_top_kmerge force (p ++ (k, x :: b) :: s) m2 ds
                = Ok ([(k, x)], p ++ (k, b) :: s, m2, [], true))
  /\ (forall (m1 p s : list (K * list A)) k (x : A) b,
        exists ds, decide_top_kmerge force m1 (p ++ (k, x :: b) :: s) ds
                   = Ok ([(k, x)], m1, p ++ (k, b) :: s, [], true)).
Proof.
  intros A K force. split.
  - intros. apply top_kmerge_complete_first.
  - intros. apply top_kmerge_complete_second.
Qed.
Print Assumptions C37_top_kmerge_every_front.

Theorem C37_inline_partial_every_interleaving : forall (A K : Type) (gs : list (K * list A)) out gs',
  POSteps gs out gs' -> count_ne gs' = 0 ->
  forall f, length out <= f -> exists ds, po_loop f gs ds = Ok (out, []).
Proof. intros A K. exact (@partial_complete A K). Qed.
Print Assumptions C37_inline_partial_every_interleaving.

Theorem C37_inline_kmerge_every_interleaving : forall (A K : Type) (gs : list (K * (list A * list A))) out,
  KMerged gs out -> exists ds, kmerge gs ds = Ok (out, []).
Proof. intros A K. exact (@kmerge_complete A K). Qed.
Print Assumptions C37_inline_kmerge_every_interleaving.

(* uniqueness for the observation / inline hooks: holds unconditionally for the top-level
   merge_ordered hook; it does NOT hold for hooks that pick by position when items are
   indistinguishable -- two decision strings, one outcome (witnesses, not defects: the
   exhaustive search then explores an equivalent schedule twice) *)
Theorem C37_top_merge_no_duplicate : forall (A : Type) force (q1 q2 : list A) d1 d2 rel r1 r2 n1 n2,
  decide_top_merge force q1 q2 d1 = Ok (rel, r1, r2, [], n1) ->
  decide_top_merge force q1 q2 d2 = Ok (rel, r1, r2, [], n2) -> d1 = d2.
Proof. intros A. exact (@top_merge_unique A). Qed.
Print Assumptions C37_top_merge_no_duplicate.

Theorem C37_positional_hooks_duplicate_refuted :
  (exists (q : list nat) d1 d2 o, d1 <> d2 /\ decide_top_order true q d1 = Ok o /\ decide_top_order true q d2 = Ok o)
  /\ (exists (a b : list nat) d1 d2 o, d1 <> d2 /\ decide_merge a b d1 = Ok o /\ decide_merge a b d2 = Ok o)
  /\ (exists (l : list nat) d1 d2 o, d1 <> d2 /\ decide_shuffle l d1 = Ok o /\ decide_shuffle l d2 = Ok o).
Proof.
  split; [|split].
  - exists [1; 1], [0], [1], ([1], [1], [], true). split; [discriminate|split; reflexivity].
  - exists [1], [1], [0], [1], ([1; 1], []). split; [discriminate|split; reflexivity].
  - exists [1; 1], [0], [1], ([1; 1], []). split; [discriminate|split; reflexivity].
Qed.
Print Assumptions C37_positional_hooks_duplicate_refuted.

(* non-vacuity *)
Example C37_ex_subset :
  decide_noorder false [10; 20; 30] [0; 0; 0; 1] = Ok ([10; 30], [20], [], true)
  /\ Merge [10; 30] [20] [10; 20; 30] /\ NoDup [10; 20; 30].
Proof.
  split; [reflexivity|]. split.
  - repeat constructor.
  - repeat constructor; cbn; intuition congruence.
Qed.

Example C37_ex_run_hooks_combination :
  SpecAll [HStreamT [10; 20]%N None; HSingle [1; 2]%N None (Some 5%N)]
          [(HStreamT [20]%N (Some [10]%N), true); (HSingle [1; 2]%N (Some (5%N, false)) (Some 5%N), false)].
Proof.
  constructor; [|constructor; [|constructor]].
  - apply (HS_T [10; 20]%N [10]%N [20]%N). reflexivity.
  - apply HS_S_old.
Qed.
