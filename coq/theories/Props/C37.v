(* C37 Exhaustive simulation covers every distinct schedule.
   Full statement (properties.jsonl): in exhaustive mode the simulator reaches every distinct
   combination of release decisions (every prefix size for ordered inputs, every subset for
   unordered ones, every snapshot version, every order of ready ticks and observations).

   Proved here (all queues, unbounded): completeness of the DECISION SPACE of the stream and
   singleton hooks -- every demanded schedule is produced by a valid decision string, and for
   NoOrder by exactly one (min_index pruning: no subset lost, no duplicate schedule).
   NOT proved (hence the property is claimed `partial`):
     - that bolero's exhaustive driver enumerates every value of every requested range (an
       external crate; checked per run by comparing outcome SETS with the model's, Sim/Exh.v);
     - completeness for the keyed hooks / run_hooks combinations / order of ready ticks as
       theorems (covered only by the per-run outcome-set comparison on tiny configurations
       against the independently enumerated sets [spec_outcomes], [spec_tick_outcomes]). *)
From Coq Require Import List Arith Bool NArith Permutation.
From HV Require Import Sim.Model Sim.PHooks Sim.PComplete.
Import ListNotations.
Close Scope N_scope.

(* every prefix is reachable, by exactly one decision *)
Theorem C37_total_every_prefix_partial : forall (A : Type) force (q p r : list A),
  q = p ++ r -> (force = true -> p <> []) ->
  decide_total force q [length p] = Ok (p, r, [], negb (is_nil p))
  /\ forall d1 d2 r1 r2 n1 n2,
       decide_total force q d1 = Ok (p, r1, [], n1) ->
       decide_total force q d2 = Ok (p, r2, [], n2) -> d1 = d2.
Proof.
  intros A force q p r Hq Hf. split.
  - apply total_complete; auto.
  - intros. eapply total_unique; eauto.
Qed.
Print Assumptions C37_total_every_prefix_partial.

(* every sub-sequence (with its complement) is reachable *)
Theorem C37_noorder_every_subset_partial : forall (A : Type) force (q s k : list A),
  Merge s k q -> (force = true -> s <> [] \/ q = []) ->
  exists ds, decide_noorder force q ds = Ok (s, k, [], negb (is_nil s)).
Proof. intros A. exact (@noorder_complete A). Qed.
Print Assumptions C37_noorder_every_subset_partial.

(* ... and, items being distinguishable, by at most one decision string: the min_index
   discipline explores no schedule twice *)
Theorem C37_noorder_no_duplicate_partial : forall (A : Type) force (q s k1 k2 : list A) d1 d2 n1 n2,
  NoDup q ->
  decide_noorder force q d1 = Ok (s, k1, [], n1) ->
  decide_noorder force q d2 = Ok (s, k2, [], n2) -> d1 = d2.
Proof. intros A. exact (@noorder_unique A). Qed.
Print Assumptions C37_noorder_no_duplicate_partial.

(* every pending snapshot version is reachable (older ones skipped, newer ones kept), and so
   is the unchanged re-release *)
Theorem C37_single_every_version_partial : forall (A : Type) force (pre post : list A) x last,
  (exists ds, decide_single force (pre ++ x :: post) last ds = Ok (x, true, pre, post, []))
  /\ forall (l : A) (q : list A), q <> [] -> decide_single false q (Some l) [1] = Ok (l, false, [], q, []).
Proof.
  intros A force pre post x last. split.
  - apply single_complete_new.
  - intros. apply single_complete_old; auto.
Qed.
Print Assumptions C37_single_every_version_partial.

(* non-vacuity *)
Example C37_ex_subset :
  decide_noorder false [10; 20; 30] [0; 0; 0; 1] = Ok ([10; 30], [20], [], true)
  /\ Merge [10; 30] [20] [10; 20; 30] /\ NoDup [10; 20; 30].
Proof.
  split; [reflexivity|]. split.
  - repeat constructor.
  - repeat constructor; cbn; intuition congruence.
Qed.
