(* C10 Variadic collections behave as sets and multisets of tuples.
   Only the property theorems; each is closed by an exact/apply of a lemma proved in
   Coll/PVC.v and followed by Print Assumptions.  Model: Coll/ModelVC.v. *)
From HV Require Import Coll.ModelVC Coll.PVC Coll.ModelVar Coll.PVar.
From Coq Require Import Permutation.

(* Every answer (insert's flag, get, contains, len, is_empty, iter, into_iter, drain, ==) of every
   operation history on two collections of any of the three kinds equals the answer of the
   abstract set (kind KSet: membership predicate [mem h]) / multiset (count function [cnt h])
   of the rows inserted since the last drain; row lists are equal up to permutation. *)
Theorem C10_history :
  forall k a ops, (k = KColumn -> ops_arity_b a ops = true) ->
    Forall2 ans_equiv (model_run k a ops) (spec_run k ops).
Proof. exact history_refines_equiv. Qed.
Print Assumptions C10_history.

(* The specification itself is a function of the multiset only (of [cnt h]). *)
Theorem C10_spec_is_multiset :
  forall k h1 h2 o, (forall r, cnt h1 r = cnt h2 r) ->
    (forall r, cnt (fst (spec_sstep k h1 o)) r = cnt (fst (spec_sstep k h2 o)) r) /\
    ans_equiv (snd (spec_sstep k h1 o)) (snd (spec_sstep k h2 o)).
Proof. exact spec_sstep_multiset. Qed.
Print Assumptions C10_spec_is_multiset.

(* PartialEq is set equality resp. multiset equality *)
Theorem C10_set_equality :
  forall a b ha hb, Rset a ha -> Rset b hb ->
    (hs_eq a b = true <-> forall r, mem ha r = mem hb r).
Proof. exact set_equality. Qed.
Print Assumptions C10_set_equality.

Theorem C10_counted_equality :
  forall a b ha hb, Rcnt a ha -> Rcnt b hb ->
    (cs_eq a b = true <-> forall r, cnt ha r = cnt hb r).
Proof. exact counted_equality. Qed.
Print Assumptions C10_counted_equality.

(* DuplicateCounted yields each row [count] times (entries with count 0 yield nothing) *)
Theorem C10_duplicate_counted :
  forall t, let out := dc_collect (S (tbl_total t)) t None in
    out = expand t /\
    (NoDup (keys t) -> forall k c, In (k, c) t -> cnt out k = c) /\
    (forall r, ~ In r (keys t) -> cnt out r = 0).
Proof. exact duplicate_counted. Qed.
Print Assumptions C10_duplicate_counted.

(* the executable form evaluated on the implementation's answers is exactly the conclusion of
   C10_history with the implementation in place of the model *)
Theorem C10_holds_b_sound :
  forall k ops impl, C10_holds_b k ops impl = true <-> Forall2 ans_equiv impl (spec_run k ops).
Proof. exact holds_b_spec. Qed.
Print Assumptions C10_holds_b_sound.

(* variadics/src/lib.rs: the tuple-list operations the collections and GHTs rely on (extend,
   reverse, LEN, Split at every prefix length, SplitBySuffix at every suffix length,
   HomogenousVariadic get / into_iter, into_option, PartialEqVariadic), transcribed with the
   recursion structure of the Rust impls, ARE the plain list functions (app, rev, length,
   firstn/skipn, nth_error, map Some, equality); likewise the VecVariadic part
   (C10_variadic_vec_ops below). *)
Theorem C10_variadic_tuple_ops :
  forall r r2 rows idx lo hi,
    let m := model_vobs r r2 rows idx lo hi in
    let s := spec_vobs r r2 rows idx lo hi in
    o_reverse m = o_reverse s /\ o_extend m = o_extend s /\ o_len m = o_len s /\
    o_splits m = o_splits s /\ o_suffix_splits m = o_suffix_splits s /\ o_hget m = o_hget s /\
    o_into_iter m = o_into_iter s /\ o_into_option m = o_into_option s /\ o_eq m = o_eq s.
Proof. exact variadic_tuple_ops. Qed.
Print Assumptions C10_variadic_tuple_ops.

(* VecVariadic (the column store): after into_singleton_vec + push of rows of one arity >= 1,
   zip_vecs gives the rows in order, get(i) is the i-th row, drain(lo..hi) yields rows lo..hi and
   leaves the others (None = the Vec::drain panic when not lo <= hi <= len) *)
Theorem C10_variadic_vec_ops :
  forall r r2 rows idx lo hi, r <> [] -> Forall (fun x => length x = length r) rows ->
    let m := model_vobs r r2 rows idx lo hi in
    let s := spec_vobs r r2 rows idx lo hi in
    o_vec_zip m = o_vec_zip s /\ o_vec_get m = o_vec_get s /\ o_vec_drained m = o_vec_drained s.
Proof. exact variadic_vec_ops. Qed.
Print Assumptions C10_variadic_vec_ops.

Theorem C10_split_by_suffix_roundtrip :
  forall m l p s, vsplit_by_suffix m l = Some (p, s) -> vextend p s = l /\ length s = m.
Proof. exact vsplit_by_suffix_roundtrip. Qed.
Print Assumptions C10_split_by_suffix_roundtrip.

(* FORMER FINDING (fixed in /repo by 38aff06f64c): VariadicCountedHashSet::extend onto a non-empty
   table lost the old rows.  Former theorem C10_counted_extend_trace_refuted: the recorded answers
   [true; true; true; unit; false] of the real code on PVC.counted_extend_ops fail C10_holds_b.
   The history is corpus/C10/counted_extend.json (run first on every check); expected answers: *)
Example C10_former_witness :
  model_run KCounted 2 counted_extend_ops = [ABool true; ABool true; ABool true; AUnit; ABool true] /\
  C10_holds_b KCounted counted_extend_ops [ABool true; ABool true; ABool true; AUnit; ABool true] = true /\
  C10_holds_b KCounted counted_extend_ops [ABool true; ABool true; ABool true; AUnit; ABool false] = false.
Proof. exact counted_extend_expected. Qed.

(* ---- non-vacuity: the hypotheses are satisfiable by non-trivial values *)
Example C10_ex_Rset : Rset [[1; 2]; [3; 4]]%N [[1; 2]; [3; 4]; [1; 2]]%N.
Proof.
  pose proof (@hs_extend_spec [[1; 2]; [3; 4]; [1; 2]]%N [] [] (fun _ => eq_refl)) as H. exact H.
Qed.
Example C10_ex_Rcnt : Rcnt {| c_tbl := [([1; 2]%N, 2); ([3; 4]%N, 1)]; c_len := 3 |} [[1; 2]; [3; 4]; [1; 2]]%N.
Proof.
  assert (R0 : Rcnt cs_new []) by (repeat split; constructor).
  exact (@cs_extend_spec [[1; 2]; [3; 4]; [1; 2]]%N cs_new [] R0).
Qed.
Example C10_ex_history :
  model_run KColumn 2
    [On false (SInsert [1; 2]); On false (SExtend [[3; 4]; [1; 2]]); On false SLen;
     On false (SContains [3; 4]); On false SDrain; On false SIsEmpty]%N
  = [ABool true; AUnit; ANum 3; ABool true; ARows [[1; 2]; [3; 4]; [1; 2]]; ABool true]%N
  /\ ops_arity_b 2 [On false (SInsert [1; 2]); On false (SExtend [[3; 4]; [1; 2]])]%N = true.
Proof. split; vm_compute; reflexivity. Qed.
Example C10_ex_dc :
  dc_collect 4 [([7]%N, 2); ([8]%N, 0); ([9]%N, 1)] None = [[7]; [7]; [9]]%N.
Proof. vm_compute. reflexivity. Qed.
