(* C16 Unsync channels are FIFO, lossless and never strand a sender.
   Only the property theorems: each is closed by `exact` of a lemma proved in Chan/P*.v and
   followed by Print Assumptions.  Model: Chan/ModelMpsc.v (dfir_rs/src/util/unsync/mpsc.rs). *)
From Coq Require Import List Arith Bool NArith.
From HV Require Import Chan.Base Chan.ModelMpsc Chan.ModelMpscChk Chan.PMpscSafe Chan.PMpscLive Chan.PMpscRefute.
From HV Require Import Chan.PMpscAll Chan.PMpscObs.
Import ListNotations.

(* Label alphabet: poll a sender task (all outstanding sends of its stage), poll the receiver,
   drop a sender task, close_this_sender, try_send, clone the sender for a new task, cancel one
   outstanding send future, close / drop the receiver.
   Safety, every executor policy (also spurious polls and cancelled senders), every number of
   tasks, every program, every capacity (bounded or not), every label sequence: the received
   sequence is a prefix of the successful-send sequence and what is missing is exactly the
   buffer (FIFO, exactly once, nothing lost). *)
Theorem C16_fifo_exactly_once : forall p c progs tr s,
  reachable p (init c progs) tr s ->
  sent s = recvd s ++ buf s /\ recvd s = firstn (length (recvd s)) (sent s).
Proof. exact fifo_exactly_once. Qed.
Print Assumptions C16_fifo_exactly_once.

(* ... where `sent`/`recvd` are exactly what the polls returned: a step appends the items of
   the polled stage whose send returned Ok, resp. the item returned by recv. *)
Theorem C16_history_faithful : forall p s l s' o, step p s l = Some (s', o) ->
  sent s' = sent s ++ obs_sent s l o /\ recvd s' = recvd s ++ obs_recv o.
Proof. exact step_ghost. Qed.
Print Assumptions C16_history_faithful.

(* Closure consistency: a send errs iff the receiver was closed or dropped earlier in the
   trace; recv yields None iff everything sent has been received and no sender can send any
   more (receiver closed, or every sender dropped). *)
Theorem C16_closure_consistent : forall p c progs tr s l s' o,
  reachable p (init c progs) tr s -> step p s l = Some (s', o) ->
  (forall rs fin ws r, o = OPoll rs fin ws -> In r rs ->
     (r = SClosed <-> existsb is_close tr = true)) /\
  (forall r ws, o = ORecv r ws ->
     (r = RNone <-> sent s = recvd s /\
                    (existsb is_close tr = true \/ forall t, t < ntasks s -> alive (tasks s t) = false))).
Proof. exact closure_consistent. Qed.
Print Assumptions C16_closure_consistent.

(* try_send reports Closed iff the receiver was closed or dropped earlier in the trace *)
Theorem C16_try_send_closure : forall p c progs tr s t x s' r ws,
  reachable p (init c progs) tr s -> step p s (TrySend t x) = Some (s', OTry r ws) ->
  (r = SClosed <-> existsb is_close tr = true).
Proof. exact try_send_closure. Qed.
Print Assumptions C16_try_send_closure.

(* Liveness as absence of the bad quiescent state -- the FULL statement, no class restriction:
   for EVERY executor policy (tasks polled only when woken or also spuriously, sender tasks
   dropped at any time), any number of tasks, any number of outstanding sends per task, any
   capacity, all label sequences, no reachable state is Stranded (nothing runnable, some sender
   waits for capacity, the buffer has room).
   History: before /repo commit 904d17adb85 `wake_sender` popped one waker and this statement
   was false; the three witnesses (Chan/PMpscRefute.v: no_strand_refuted,
   no_strand_spurious_refuted, no_strand_cancel_refuted, stated over the pre-fix step function
   ModelMpscOld.step_old) were
     w1: cap 1, progs [[9]] [[3]] [[1;2]], Poll 0; Poll 1; Poll 2; PollRx; Poll 2; PollRx; Poll 2; PollRx; PollRx
     w2: cap 1, progs [[9]] [[3]] [[1]], spurious: Poll 0; Poll 1; Poll 2; Poll 2; PollRx; Poll 2; PollRx; PollRx
     w3: cap 1, progs [[9]] [[3]] [[1]], cancel: Poll 0; Poll 1; Poll 2; PollRx; DropSender 2; PollRx
   They stay in corpus/C16 and are replayed first on every run; they must not strand any more. *)
Theorem C16_no_strand : forall p c progs tr s,
  reachable p (init c progs) tr s -> ~ Stranded s.
Proof. exact no_strand_all. Qed.
Print Assumptions C16_no_strand.

(* stronger progress form for the strict single-outstanding class and the original label
   alphabet (`basic`: no try_send / clone / cancelled future), also when the buffer is full:
   a waiting sender always coexists with a runnable task *)
Theorem C16_waiting_implies_runnable : forall c progs tr s t,
  cap_ok c = true -> single_progs progs = true ->
  reachable strict (init c progs) tr s -> forallb basic tr = true ->
  t < ntasks s -> waiting (tasks s t) = true ->
  rx_runnable s = true \/ exists u, u < ntasks s /\ runnable (tasks s u) = true.
Proof. exact waiting_implies_runnable. Qed.
Print Assumptions C16_waiting_implies_runnable.

(* The receiver's side of "reports closure consistently to both sides" as absence of the dual
   bad state -- the FULL statement, every policy, every program, all label sequences: the
   receiver is never parked (alive, not done, not runnable) while an item is buffered or every
   sender is gone.
   History: before /repo commit fdb5498e919 close_this_sender (Sink::poll_close) dropped the weak
   count without waking the receiver and this was false; the witness (Chan/PMpscRefute.v
   no_rx_strand_refuted over ModelMpscOld.step_old) was
     w4: cap 1, progs [[1]], Poll 0; PollRx; PollRx; CloseSender 0
   It stays in corpus/C16 and must not strand any more. *)
Theorem C16_no_rx_strand : forall p c progs tr s,
  reachable p (init c progs) tr s -> ~ RxStranded s.
Proof. exact no_rx_strand_all. Qed.
Print Assumptions C16_no_rx_strand.

(* The executable form of the property used by the correspondence check (an observer that sees
   only labels and observations) is tied to the theorems: on the observations of every behaviour
   of the model it holds, hence whenever the implementation's observations agree with the
   model's the verdict is 0 -- "property fails on the implementation's outputs" (bit 1) can
   only be reported together with "implementation differs from the model" (bit 0). *)
Theorem C16_holds_b_on_model : forall p c progs ls,
  C16_holds_b c progs ls (fst (run p (init c progs) ls)) = true.
Proof. exact holds_b_on_model. Qed.
Print Assumptions C16_holds_b_on_model.

Theorem C16_agree_implies_holds : forall c progs spur canc ls impl,
  list_eqb obs_eqb (fst (run (mkPolicy spur canc) (init c progs) ls)) impl = true ->
  C16_holds_b c progs ls impl = true /\ chk16 c progs spur canc ls impl = 0%N.
Proof. exact agree_implies_holds. Qed.
Print Assumptions C16_agree_implies_holds.

(* ------------------------------------------------------------------ non-vacuity *)

(* a run in which three senders really wait for capacity (registered in order 0,1,2) and are
   all woken again by one recv: capacity 1 *)
Definition ex_progs : list (list (list item)) := [[[9%N]; [8%N]]; [[3%N]]; [[1%N]]].
Definition ex_trace : list label := [Poll 0; Poll 0; Poll 1; Poll 2; PollRx].

Example C16_no_strand_nonvacuous :
  exists s, reachable strict (init (Some 1) ex_progs) ex_trace s /\
            sw s = [] /\ woken (tasks s 0) = true /\ runnable (tasks s 1) = true /\
            runnable (tasks s 2) = true /\ recvd s = [9%N] /\
  exists s0, reachable strict (init (Some 1) ex_progs) (removelast ex_trace) s0 /\
             sw s0 = [2; 1; 0] /\ waiting (tasks s0 1) = true.
Proof.
  destruct (run_enabled strict (init (Some 1) ex_progs) ex_trace) as [s|] eqn:E;
    [|vm_compute in E; discriminate].
  destruct (run_enabled strict (init (Some 1) ex_progs) (removelast ex_trace)) as [s0|] eqn:E0;
    [|vm_compute in E0; discriminate].
  exists s. split; [apply run_enabled_reachable; exact E|].
  assert (H : option_map (fun s => (sw s, woken (tasks s 0), runnable (tasks s 1), runnable (tasks s 2), recvd s))
                (run_enabled strict (init (Some 1) ex_progs) ex_trace)
              = Some ([], true, true, true, [9%N])) by (vm_compute; reflexivity).
  rewrite E in H. cbn [option_map] in H. inversion H.
  assert (H0 : option_map (fun s => (sw s, waiting (tasks s 1)))
                (run_enabled strict (init (Some 1) ex_progs) (removelast ex_trace))
              = Some ([2; 1; 0], true)) by (vm_compute; reflexivity).
  rewrite E0 in H0. cbn [option_map] in H0. inversion H0.
  repeat split; try congruence.
  exists s0. split; [apply run_enabled_reachable; exact E0|]. split; congruence.
Qed.

(* closure consistency is not vacuous: a run with a close, a failing send and a final None *)
Example C16_closure_nonvacuous :
  fst (run strict (init (Some 1) [[[1%N]; [2%N]]]) [Poll 0; CloseRx; Poll 0; PollRx; PollRx; DropSender 0])
  = [OPoll [SSent] false []; OAct []; OPoll [SClosed] true []; ORecv (RSome 1%N) []; ORecv RNone [];
     OAct []].
Proof. vm_compute. reflexivity. Qed.

(* the former witnesses no longer strand: task 1 is woken by the first recv *)
Example C16_former_witness1_ok :
  option_map (fun s => (stranded_b s, woken (tasks s 1)))
    (run_enabled strict (init (Some 1) w1_progs) w1_trace) = Some (false, true).
Proof. vm_compute. reflexivity. Qed.

(* the executable form used by the correspondence check flags a stranded sender: the
   observations the pre-fix code produced on witness 1 *)
Example C16_holds_b_flags_strand :
  C16_fail_mask (Some 1) w1_progs w1_trace
    [OPoll [SSent] true []; OPoll [SFull] false []; OPoll [SFull; SFull] false [];
     ORecv (RSome 9%N) [WSend 2]; OPoll [SSent; SFull] false []; ORecv (RSome 1%N) [WSend 2];
     OPoll [SSent] true []; ORecv (RSome 2%N) [WSend 2]; ORecv RPending []] = 16%N.
Proof. vm_compute. reflexivity. Qed.

(* the former witness 4: close_this_sender now wakes the parked receiver *)
Example C16_former_witness4_ok :
  option_map (fun s => (rx_stranded_b s, rx_woken s))
    (run_enabled strict (init (Some 1) w4_progs) w4_trace) = Some (false, true).
Proof. vm_compute. reflexivity. Qed.
