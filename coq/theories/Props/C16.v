(* C16 Unsync channels are FIFO, lossless and never strand a sender.
   Only the property theorems: each is closed by `exact` of a lemma proved in Chan/P*.v and
   followed by Print Assumptions.  Model: Chan/ModelMpsc.v (dfir_rs/src/util/unsync/mpsc.rs). *)
From Coq Require Import List Arith Bool NArith.
From HV Require Import Chan.ModelMpsc Chan.ModelMpscChk Chan.PMpscSafe Chan.PMpscLive Chan.PMpscRefute.
From HV Require Import Chan.ModelMpscFixed Chan.PMpscFixed.
Import ListNotations.

(* Safety, every executor policy (also spurious polls and cancelled senders), every number of
   tasks, every program, every capacity (bounded or not), every label sequence: the received
   sequence is a prefix of the successful-send sequence and what is missing is exactly the
   buffer (FIFO, exactly once, nothing lost). *)
Theorem C16_fifo_exactly_once : forall p c progs tr s,
  reachable p (init c progs) tr s ->
  sent s = recvd s ++ buf s /\ recvd s = firstn (length (recvd s)) (sent s).
Proof. exact fifo_exactly_once. Qed.
Print Assumptions C16_fifo_exactly_once.

(* ... where `sent`/`recvd` are exactly what the polls returned: a step appends the items of
   the polled stage whose send returned Ok, resp. the item returned by recv. *)
Theorem C16_history_faithful : forall p s l s' o, step p s l = Some (s', o) ->
  sent s' = sent s ++ obs_sent s l o /\ recvd s' = recvd s ++ obs_recv o.
Proof. exact step_ghost. Qed.
Print Assumptions C16_history_faithful.

(* Closure consistency: a send errs iff the receiver was closed or dropped earlier in the
   trace; recv yields None iff everything sent has been received and no sender can send any
   more (receiver closed, or every sender dropped). *)
Theorem C16_closure_consistent : forall p c progs tr s l s' o,
  reachable p (init c progs) tr s -> step p s l = Some (s', o) ->
  (forall rs fin ws r, o = OPoll rs fin ws -> In r rs ->
     (r = SClosed <-> existsb is_close tr = true)) /\
  (forall r ws, o = ORecv r ws ->
     (r = RNone <-> sent s = recvd s /\
                    (existsb is_close tr = true \/ forall t, t < ntasks s -> alive (tasks s t) = false))).
Proof. exact closure_consistent. Qed.
Print Assumptions C16_closure_consistent.

(* Liveness as absence of the bad quiescent state.  FULL statement of the property:
     forall policy c progs tr s, cap_ok c -> reachable policy (init c progs) tr s -> ~ Stranded s.
   It is FALSE of the code (three refutations below, each replayed on the real crate).
   Proved for the class that excludes them by name: tasks polled only when woken and senders
   dropped only when finished (policy `strict`), one outstanding send per task
   (`single_progs`, an executable predicate). Any number of tasks, any capacity. *)
Theorem C16_no_strand : forall c progs tr s,
  cap_ok c = true -> single_progs progs = true ->
  reachable strict (init c progs) tr s -> ~ Stranded s.
Proof. exact no_strand. Qed.
Print Assumptions C16_no_strand.

(* stronger progress form (also when the buffer is full): a waiting sender always coexists
   with a runnable task, so a fair executor always has something to poll *)
Theorem C16_waiting_implies_runnable : forall c progs tr s t,
  cap_ok c = true -> single_progs progs = true ->
  reachable strict (init c progs) tr s ->
  t < ntasks s -> waiting (tasks s t) = true ->
  rx_runnable s = true \/ exists u, u < ntasks s /\ runnable (tasks s u) = true.
Proof. exact waiting_implies_runnable. Qed.
Print Assumptions C16_waiting_implies_runnable.

(* finding 1: two outstanding sends in one task (strict executor) *)
Theorem C16_no_strand_refuted :
  exists s, reachable strict (init (Some 1) w1_progs) w1_trace s /\ Stranded s /\
            cap_ok (Some 1) = true.
Proof. exact no_strand_refuted. Qed.
Print Assumptions C16_no_strand_refuted.

(* finding 2: one outstanding send per task, but a pending send is polled again without a wake *)
Theorem C16_no_strand_spurious_refuted :
  exists s, single_progs w2_progs = true /\
            reachable (mkPolicy true false) (init (Some 1) w2_progs) w2_trace s /\ Stranded s.
Proof. exact no_strand_spurious_refuted. Qed.
Print Assumptions C16_no_strand_spurious_refuted.

(* finding 3: one outstanding send per task, polled only when woken, a woken sender is dropped *)
Theorem C16_no_strand_cancel_refuted :
  exists s, single_progs w3_progs = true /\
            reachable (mkPolicy false true) (init (Some 1) w3_progs) w3_trace s /\ Stranded s.
Proof. exact no_strand_cancel_refuted. Qed.
Print Assumptions C16_no_strand_cancel_refuted.

(* The receiver's side of "reports closure consistently to both sides" as absence of the dual
   bad quiescent state (nothing runnable, receiver parked, and an item is buffered or every
   sender is gone).  FULL statement: forall tr, reachable ... -> ~ RxStranded s.  FALSE of the
   code when a sender is closed with close_this_sender / Sink::poll_close (refutation below);
   proved for executions of the same class that contain no CloseSender label. *)
Theorem C16_no_rx_strand : forall c progs tr s,
  cap_ok c = true -> single_progs progs = true ->
  reachable strict (init c progs) tr s -> existsb is_close_sender tr = false -> ~ RxStranded s.
Proof. exact no_rx_strand. Qed.
Print Assumptions C16_no_rx_strand.

(* finding 4: close_this_sender of the last sender does not wake the parked receiver *)
Theorem C16_no_rx_strand_refuted :
  exists s, single_progs w4_progs = true /\
            reachable strict (init (Some 1) w4_progs) w4_trace s /\ RxStranded s.
Proof. exact no_rx_strand_refuted. Qed.
Print Assumptions C16_no_rx_strand_refuted.

(* The proposed repair (fixes/C16_wake_all_senders.diff: wake every registered sender on recv),
   applied to the model: no stranded sender for EVERY executor policy (spurious polls, dropped
   senders), any number of outstanding sends per task, any capacity, all label sequences.
   (A statement about the repaired model only; the repair is not applied to /repo.) *)
Theorem C16_fix_no_strand : forall p c progs tr s,
  reachable_fixed p (init c progs) tr s -> ~ Stranded s.
Proof. exact fix_no_strand. Qed.
Print Assumptions C16_fix_no_strand.

(* ------------------------------------------------------------------ non-vacuity *)

(* the hypotheses of C16_no_strand hold of a run in which two senders really wait for capacity
   and are woken again: capacity 1, three single-send tasks *)
Definition ex_progs : list (list (list item)) := [[[9%N]; [8%N]]; [[3%N]]; [[1%N]]].
Definition ex_trace : list label := [Poll 0; Poll 0; Poll 1; Poll 2; PollRx].

Example C16_no_strand_nonvacuous :
  cap_ok (Some 1) = true /\ single_progs ex_progs = true /\
  exists s, reachable strict (init (Some 1) ex_progs) ex_trace s /\
            sw s = [1; 0] /\ waiting (tasks s 1) = true /\ runnable (tasks s 2) = true /\
            recvd s = [9%N].
Proof.
  split; [reflexivity|]. split; [reflexivity|].
  destruct (run_enabled strict (init (Some 1) ex_progs) ex_trace) as [s|] eqn:E;
    [|vm_compute in E; discriminate].
  exists s. split; [apply run_enabled_reachable; exact E|].
  assert (H : option_map (fun s => (sw s, waiting (tasks s 1), runnable (tasks s 2), recvd s))
                (run_enabled strict (init (Some 1) ex_progs) ex_trace)
              = Some ([1; 0], true, true, [9%N])) by (vm_compute; reflexivity).
  rewrite E in H. cbn [option_map] in H. inversion H. repeat split; reflexivity.
Qed.

(* closure consistency is not vacuous: a run with a close, a failing send and a final None *)
Example C16_closure_nonvacuous :
  fst (run strict (init (Some 1) [[[1%N]; [2%N]]]) [Poll 0; CloseRx; Poll 0; PollRx; PollRx; DropSender 0])
  = [OPoll [SSent] false []; OAct []; OPoll [SClosed] true []; ORecv (RSome 1%N) []; ORecv RNone [];
     OAct []].
Proof. vm_compute. reflexivity. Qed.

(* the executable form used by the correspondence check flags the witness of finding 1 *)
Example C16_holds_b_flags_witness :
  C16_fail_mask (Some 1) w1_progs w1_trace (fst (run strict (init (Some 1) w1_progs) w1_trace)) = 16%N.
Proof. vm_compute. reflexivity. Qed.

(* on the trace of finding 1 the repaired model wakes the parked task 1 at the first recv *)
Example C16_fix_on_witness1 :
  option_map (fun s => (stranded_b s, woken (tasks s 1)))
    (run_enabled_fixed strict (init (Some 1) w1_progs) w1_trace) = Some (false, true).
Proof. vm_compute. reflexivity. Qed.
