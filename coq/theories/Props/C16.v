(* C16 Unsync channels are FIFO, lossless and never strand a sender (stub: refutations only) *)
From Coq Require Import List.
From HV Require Import Chan.ModelMpsc Chan.PMpscRefute.
Import ListNotations.

Theorem C16_no_strand_refuted :
  exists s, reachable strict (init (Some 1) w1_progs) w1_trace s /\ Stranded s /\
            cap_ok (Some 1) = true.
Proof. exact no_strand_refuted. Qed.
Print Assumptions C16_no_strand_refuted.
