(* C18 Subgraph partitioning produces a schedulable, well-formed graph.

   Full statement (properties.jsonl / DESIGN.md): for every flat graph g the front end accepts,
     partition_graph g = Ok p  ->  WellFormed T p
   where WellFormed (Partition/WF.v) is the conjunction of the property's clauses:
     W1 every operator in exactly one subgraph, handoffs in none
     W2 one loop context per subgraph
     W3 each subgraph a single pull-then-push pipeline (forward internal edges, fan-in only on the
        pull side and fan-out only on the push side, fed/drained only through the pivot, connected)
     W4 handoffs exactly on the edges that cross subgraphs, none inside a subgraph (a delay-marked,
        double-buffered back edge may return into the subgraph it left)
     W5 every delayed input comes out of a handoff marked with the consumer port's delay type
        (remapped to Loop/LoopLazy in nested loops), no other marks
     W6 referenced nodes are handoffs; producer subgraph strictly before the borrower, borrower
        not after the pipe consumer, lower access groups strictly before higher ones
     W7 subgraph_toposort is a permutation of the subgraphs, producers first across every
        non-delayed handoff, every loop's subgraphs (with nested loops) contiguous.

   What is PROVED here (translation-validation style): the executable checker is sound,
     WellFormed_b T p = true -> WellFormed T p        for all tables T and all graphs p,
   and the check evaluates WellFormed_b on EVERY partitioned graph the real partition_graph
   returns.  NOT proved: the all-graphs theorem about a model of the merging loop
   (find_subgraph_unionfind progress loop, handoff insertion, make_loops_contiguous) -- hence
   the name _partial; the blocking part is an invariant proof for SubgraphMerge::try_merge
   sequences (C17's SMInv) lifted through can_connect_colorize. *)
From Coq Require Import List String NArith Bool.
From HV Require Import Partition.Base GraphAlg.Model Partition.Model Partition.WF Partition.PWF Gen.OpsTable.
Import ListNotations.
Open Scope N_scope.
Open Scope string_scope.

Theorem C18_WellFormed_b_sound_partial : forall (T : optable) (p : graph),
  WellFormed_b T p = true -> WellFormed T p.
Proof. exact WellFormed_b_sound. Qed.
Print Assumptions C18_WellFormed_b_sound_partial.

(* non-vacuity: the real partitioner's output for
   `s = source_iter(0..5) -> tee(); s -> u; u = union() -> t; t = tee(); t -> for_each(drop);
    t -> defer_tick() -> u; s -> null();`   passes the checker on the regenerated table ... *)
Definition p_example : graph :=
  mkGraph [mkNode 1 (KOp "source_iter") None [] (Some 1) None;
           mkNode 2 (KOp "tee") None [] (Some 1) None;
           mkNode 3 (KOp "union") None [] (Some 3) None;
           mkNode 4 (KOp "tee") None [] (Some 3) None;
           mkNode 5 (KOp "for_each") None [] (Some 3) None;
           mkNode 6 (KOp "defer_tick") None [] (Some 2) None;
           mkNode 7 (KOp "null") None [] (Some 1) None;
           mkNode 8 (KHoff HVec) None [] None None;
           mkNode 9 (KHoff HVec) None [] None None;
           mkNode 10 (KHoff HVec) None [] None (Some DTick)]
          [mkEdge 1 1 2 PElided PElided; mkEdge 2 2 8 PElided PElided; mkEdge 3 3 4 PElided PElided;
           mkEdge 4 4 5 PElided PElided; mkEdge 5 6 9 PElided PElided; mkEdge 6 4 10 PElided PElided;
           mkEdge 7 2 7 PElided PElided; mkEdge 8 8 3 PElided PElided; mkEdge 9 9 3 PElided PElided;
           mkEdge 10 10 6 PElided PElided]
          [] [mkSg 1 [1; 2; 7]; mkSg 2 [6]; mkSg 3 [3; 4; 5]] [1; 2; 3].

Example C18_example_wellformed : WellFormed ops_table p_example.
Proof. apply WellFormed_b_sound. vm_compute. reflexivity. Qed.

(* ... and the checker is not vacuous: each corruption below trips exactly the clause it violates
   (wf_code bit i = clause W(i+1)). *)
Definition with_topo (p : graph) (o : list N) : graph :=
  mkGraph (g_nodes p) (g_edges p) (g_loops p) (g_sgs p) o.
Definition set_delay (p : graph) (id : N) (d : option delay) : graph :=
  mkGraph (map (fun n => if N.eqb (n_id n) id
                         then mkNode (n_id n) (n_kind n) (n_loop n) (n_refs n) (n_sg n) d else n) (g_nodes p))
          (g_edges p) (g_loops p) (g_sgs p) (g_topo p).
Example C18_checker_rejects :
  wf_code ops_table (with_topo p_example [3; 1; 2]) = 64 /\       (* consumer before producer *)
  wf_code ops_table (set_delay p_example 10 None) = 16 + 64 /\    (* lost Tick mark: W5, and now an order violation *)
  wf_code ops_table (set_delay p_example 8 (Some DTick)) = 16 /\  (* spurious mark *)
  wf_code ops_table (with_topo p_example [1; 2]) = 64.            (* subgraph missing from the order *)
Proof. vm_compute. repeat split; reflexivity. Qed.

(* ---- former finding order/reference-crosses-loop-boundary (fixed in /repo 0840b054cc8).
   p_ref_into_loop is what partition_graph USED to return for
     i1 = source_iter([1]); i2 = source_iter([2]);
     loop { i1 -> batch() -> for_each(drop); i2 -> batch() -> map(|x| x + #s) -> for_each(drop); };
     s = source_iter([5]) -> fold(|| 0, |a, x| *a += x) -> singleton();
   with subgraph_toposort = [1;2;3;5;4]: subgraph 5 (holding map(.. #s ..), node 6) before
   subgraph 4 (the producer of singleton 10).  Kept as a witness that the checker rejects such an
   order; the program itself is corpus/C18/reference_into_loop.json and must now be well formed. *)
Definition p_ref_into_loop : graph :=
  mkGraph [mkNode 1 (KOp "source_iter") None [] (Some 1) None;
           mkNode 2 (KOp "source_iter") None [] (Some 2) None;
           mkNode 3 (KOp "batch") (Some 1) [] (Some 3) None;
           mkNode 4 (KOp "for_each") (Some 1) [] (Some 3) None;
           mkNode 5 (KOp "batch") (Some 1) [] (Some 5) None;
           mkNode 6 (KOp "map") (Some 1) [mkRef (Some 10) false None] (Some 5) None;
           mkNode 7 (KOp "for_each") (Some 1) [] (Some 5) None;
           mkNode 8 (KOp "source_iter") None [] (Some 4) None;
           mkNode 9 (KOp "fold") None [] (Some 4) None;
           mkNode 10 (KHoff HSingleton) None [] None None;
           mkNode 11 (KHoff HVec) None [] None None;
           mkNode 12 (KHoff HVec) None [] None None]
          [mkEdge 1 3 4 PElided PElided; mkEdge 2 1 11 PElided PElided; mkEdge 3 6 7 PElided PElided;
           mkEdge 4 5 6 PElided PElided; mkEdge 5 2 12 PElided PElided; mkEdge 6 9 10 PElided PElided;
           mkEdge 7 8 9 PElided PElided; mkEdge 8 11 3 PElided PElided; mkEdge 9 12 5 PElided PElided]
          [mkLoop 1 None [3; 4; 5; 6; 7]]
          [mkSg 1 [1]; mkSg 2 [2]; mkSg 3 [3; 4]; mkSg 4 [8; 9]; mkSg 5 [5; 6; 7]] [1; 2; 3; 5; 4].

Theorem C18_checker_rejects_misordered_reference :
  wf_code ops_table p_ref_into_loop = 32 /\ ~ WellFormed ops_table p_ref_into_loop.
Proof.
  split; [vm_compute; reflexivity|].
  intros (_ & _ & _ & _ & _ & (H6 & _) & _).
  destruct (H6 (mkNode 6 (KOp "map") (Some 1) [mkRef (Some 10) false None] (Some 5) None)
               (mkRef (Some 10) false None)) as (t & Ht & _ & Hprod & _).
  - simpl. tauto.
  - simpl. tauto.
  - simpl in Ht. injection Ht as <-.
    specialize (Hprod 9). assert (In 9 (preds_pipe p_ref_into_loop 10)) by (vm_compute; tauto).
    specialize (Hprod H). vm_compute in Hprod. discriminate.
Qed.
Print Assumptions C18_checker_rejects_misordered_reference.
