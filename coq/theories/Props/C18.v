(* C18 Subgraph partitioning produces a schedulable, well-formed graph.

   Full statement (properties.jsonl / DESIGN.md): for every flat graph g the front end accepts,
     partition_graph g = Ok p  ->  WellFormed T p
   where WellFormed (Partition/WF.v) is the conjunction of the property's clauses:
     W1 every operator in exactly one subgraph, handoffs in none
     W2 one loop context per subgraph
     W3 each subgraph a single pull-then-push pipeline (forward internal edges, fan-in only on the
        pull side and fan-out only on the push side, fed/drained only through the pivot, connected)
     W4 handoffs exactly on the edges that cross subgraphs, none inside a subgraph (a delay-marked,
        double-buffered back edge may return into the subgraph it left)
     W5 every delayed input comes out of a handoff marked with the consumer port's delay type
        (remapped to Loop/LoopLazy in nested loops), no other marks
     W6 referenced nodes are handoffs; producer subgraph strictly before the borrower, borrower
        not after the pipe consumer, lower access groups strictly before higher ones
     W7 subgraph_toposort is a permutation of the subgraphs, producers first across every
        non-delayed handoff, every loop's subgraphs (with nested loops) contiguous.

   What is PROVED here (translation-validation style): the executable checker is sound,
     WellFormed_b T p = true -> WellFormed T p        for all tables T and all graphs p,
   and the check evaluates WellFormed_b on EVERY partitioned graph the real partition_graph
   returns.  NOT proved: the all-graphs theorem about a model of the merging loop
   (find_subgraph_unionfind progress loop, handoff insertion, make_loops_contiguous) -- hence
   the name _partial; the blocking part is an invariant proof for SubgraphMerge::try_merge
   sequences (C17's SMInv) lifted through can_connect_colorize. *)
From Coq Require Import List String NArith Bool.
From HV Require Import Partition.Base GraphAlg.Model Partition.Model Partition.WF Partition.PWF
                       Partition.Full Partition.PFull Partition.PFullW Partition.PFullI Partition.PFullE Gen.OpsTable.
Import ListNotations.
Open Scope N_scope.
Open Scope string_scope.

Theorem C18_WellFormed_b_sound_partial : forall (T : optable) (p : graph),
  WellFormed_b T p = true -> WellFormed T p.
Proof. exact WellFormed_b_sound. Qed.
Print Assumptions C18_WellFormed_b_sound_partial.

(* ---- the all-graphs direction, clause by clause, for the executable model of the WHOLE
   partition_graph (Partition/Full.v; compared with every real output by the check).
   [flat_ok_b T g] (Partition/PFull.v) = what the front end guarantees and the proofs use: node ids and
   edge ids duplicate-free, edge endpoints are nodes, every dependency's predecessor is a node
   (deps_closed_b), no module boundary left; decidable, evaluated on every real flat graph.

   PROVED for all tables T and all graphs g (on top of C17's SMInv / try_merge theorems):
     - the colour/merge progress loop never panics and never runs out of fuel, and keeps the
       invariant PInv: SMInv; an edge that left handoff_edges joins two members of one subgraph;
       one loop context per group; a handoff is alone in its group; delayed edges stay in
       handoff_edges                                    (PFull.pass_inv, ploop_inv, model_core)
     - subgraphs() returns the classes of the final partition, tiling the global order
                                                        (PFull.sm_subgraphs_spec)
     - handoff insertion keeps the tick map equal to "delay type of the edge's input port" on the
       growing graph and leaves every delayed input behind a handoff   (PFullI.insert_all_inv)
     - clause W1 (membership), clause W2 (one loop context) and clause W5 (every delayed input
       comes out of a handoff; every handoff carries exactly the delay type of its consumer's port,
       remapped in nested loops; no other marks)                      (theorems below)
   NOT PROVED (the level therefore stays translation_validation; each item names the missing lemma):
     - W3 pipeline shape and the "none inside a subgraph" half of W4: need the colour invariant
       "the merged edges of a group form a tree whose edges respect Pull<=Comp<=Push with Pull
       out-degree <= 1 and Push in-degree <= 1, hence no second internal edge" (can_connect_colorize
       is modelled, Full.can_connect, but no invariant about ps_colors is carried by PInv yet)
     - (W4, edge half, is now PROVED below: every edge of the output is an original edge that touches
       a handoff or joins two members of one subgraph, or one half of a split edge -- PFullE.EInv)
     - W4, handoff half (one producer, at most one consumer, in different subgraphs unless the handoff
       carries a delay mark): "different subgraphs" is PROVED below for user-written handoffs (from
       SMInv.inv_acyclic: a -> h -> c with a, c in one group would be the quotient cycle G -> {h} -> G);
       for INSERTED handoffs it needs the colour-tree invariant of W3 -- the argument is: an edge
       a -> c left in handoff_edges with a, c in one group closes an undirected cycle with the tree of
       merged edges; merged edges have non-decreasing colour rank Pull <= Comp <= Push and never
       Comp -> Comp, Pull nodes have out-degree <= 1 and Push nodes in-degree <= 1, so the tree path
       between c and a is a directed path c ->* a and a -> c would close a same-tick cycle; this
       needs (i) "each group is connected by merged edges", (ii) "merged edges carry an allowed colour
       pair" and (iii) the degree facts of node_color as further PInv conjuncts, none carried yet.
       The exact producer/consumer LISTS additionally need the converse of PFullE.edge_class
       (handoff-adjacent original edges are kept).
     - W6 / W7: need (a) that sm_subgraphs lists the classes in an order compatible with
       C17_sm_group_order (quotient edges go forward), and (b) a specification of contig /
       make_loops_contiguous (output is a permutation of the flat order, every loop's descendants
       contiguous, relative order inside one loop context kept) combined with the generalised
       ingress constraints of pred_pairs to show producers stay first. *)
Theorem C18_W1_all_graphs_partial : forall (T : optable) (g p : graph),
  flat_ok_b T g = true -> partition_model T g = POk p -> W1 p.
Proof. exact W1_all. Qed.
Print Assumptions C18_W1_all_graphs_partial.

Theorem C18_W2_all_graphs_partial : forall (T : optable) (g p : graph),
  flat_ok_b T g = true -> partition_model T g = POk p -> W2 p.
Proof. exact W2_all. Qed.
Print Assumptions C18_W2_all_graphs_partial.

Theorem C18_W5_all_graphs_partial : forall (T : optable) (g p : graph),
  flat_ok_b T g = true -> flat_marks_ok_b g = true -> partition_model T g = POk p -> W5 T p.
Proof. exact W5_all. Qed.
Print Assumptions C18_W5_all_graphs_partial.

(* the edge half of clause W4: no direct operator -> operator edge across subgraphs, no handoff ->
   handoff edge.  [flat_adj_ok_b]: the front end never leaves an edge between two handoffs. *)
Theorem C18_W4_edges_all_graphs_partial : forall (T : optable) (g p : graph),
  flat_ok_b T g = true -> flat_adj_ok_b g = true -> partition_model T g = POk p ->
  forall e, In e (g_edges p) -> edge_ok p e.
Proof. exact W4_edges_all. Qed.
Print Assumptions C18_W4_edges_all_graphs_partial.

(* a user-written handoff separates subgraphs (the part of W4's handoff half that does not need the
   colour invariant) *)
Theorem C18_user_handoff_separates_partial : forall (T : optable) (g p : graph),
  flat_ok_b T g = true -> partition_model T g = POk p ->
  forall ein eout, In ein (g_edges g) -> In eout (g_edges g) ->
    e_dst ein = e_src eout -> is_hoff g (e_dst ein) = true ->
    is_hoff g (e_src ein) = false -> is_hoff g (e_dst eout) = false ->
    Model.is_tick T g eout = false ->
    sg_of p (e_src ein) <> sg_of p (e_dst eout) \/ sg_of p (e_src ein) = None.
Proof. exact user_handoff_separates. Qed.
Print Assumptions C18_user_handoff_separates_partial.

(* the progress loop of the model is total and keeps its invariant *)
Theorem C18_progress_loop_total_partial : forall (T : optable) (g p : graph),
  flat_ok_b T g = true -> partition_model T g = POk p ->
  exists st f ist groups topo,
    PInv T g st f /\
    insert_all (mkIs g (tick_edges T g) (max_list (node_ids g) + 1) (max_list (map e_id (g_edges g)) + 1))
               (ps_hedges st) = ROk ist /\
    sm_subgraphs (ps_sm st) = ROk groups /\
    List.concat groups = sm_order (ps_sm st) /\ Forall (is_class (sort_dedup (node_ids g)) f) groups /\
    make_loops_contiguous (is_g ist) (register_sgs (is_g ist) groups)
                          (map s_id (register_sgs (is_g ist) groups)) = ROk topo /\
    p = mkGraph (map (fun n => mkNode (n_id n) (n_kind n) (n_loop n) (n_refs n)
                                      (node_sg (register_sgs (is_g ist) groups) (n_id n))
                                      (mark_node (is_g ist) (Full.is_tick ist) n)) (g_nodes (is_g ist)))
                (g_edges (is_g ist)) (g_loops (is_g ist)) (register_sgs (is_g ist) groups) topo.
Proof. exact model_core. Qed.
Print Assumptions C18_progress_loop_total_partial.

(* non-vacuity: a real flat graph satisfies flat_ok_b and the model accepts it *)
Definition g_flat_example : graph :=
  mkGraph [mkNode 1 (KOp "source_iter") None [] None None; mkNode 2 (KOp "tee") None [] None None;
           mkNode 3 (KOp "union") None [] None None; mkNode 4 (KOp "tee") None [] None None;
           mkNode 5 (KOp "for_each") None [] None None; mkNode 6 (KOp "defer_tick") None [] None None;
           mkNode 7 (KOp "null") None [] None None]
          [mkEdge 1 1 2 PElided PElided; mkEdge 2 2 3 PElided PElided; mkEdge 3 3 4 PElided PElided;
           mkEdge 4 4 5 PElided PElided; mkEdge 5 6 3 PElided PElided; mkEdge 6 4 6 PElided PElided;
           mkEdge 7 2 7 PElided PElided] [] [] [].
Example C18_all_graphs_hyps_satisfiable :
  flat_ok_b ops_table g_flat_example = true /\ flat_marks_ok_b g_flat_example = true /\
  match partition_model ops_table g_flat_example with
  | POk p => g_topo p = [1; 2; 3] /\ WellFormed_b ops_table p = true
  | _ => False
  end.
Proof. vm_compute. repeat split; reflexivity. Qed.

(* non-vacuity: the real partitioner's output for
   `s = source_iter(0..5) -> tee(); s -> u; u = union() -> t; t = tee(); t -> for_each(drop);
    t -> defer_tick() -> u; s -> null();`   passes the checker on the regenerated table ... *)
Definition p_example : graph :=
  mkGraph [mkNode 1 (KOp "source_iter") None [] (Some 1) None;
           mkNode 2 (KOp "tee") None [] (Some 1) None;
           mkNode 3 (KOp "union") None [] (Some 3) None;
           mkNode 4 (KOp "tee") None [] (Some 3) None;
           mkNode 5 (KOp "for_each") None [] (Some 3) None;
           mkNode 6 (KOp "defer_tick") None [] (Some 2) None;
           mkNode 7 (KOp "null") None [] (Some 1) None;
           mkNode 8 (KHoff HVec) None [] None None;
           mkNode 9 (KHoff HVec) None [] None None;
           mkNode 10 (KHoff HVec) None [] None (Some DTick)]
          [mkEdge 1 1 2 PElided PElided; mkEdge 2 2 8 PElided PElided; mkEdge 3 3 4 PElided PElided;
           mkEdge 4 4 5 PElided PElided; mkEdge 5 6 9 PElided PElided; mkEdge 6 4 10 PElided PElided;
           mkEdge 7 2 7 PElided PElided; mkEdge 8 8 3 PElided PElided; mkEdge 9 9 3 PElided PElided;
           mkEdge 10 10 6 PElided PElided]
          [] [mkSg 1 [1; 2; 7]; mkSg 2 [6]; mkSg 3 [3; 4; 5]] [1; 2; 3].

Example C18_example_wellformed : WellFormed ops_table p_example.
Proof. apply WellFormed_b_sound. vm_compute. reflexivity. Qed.

(* ... and the checker is not vacuous: each corruption below trips exactly the clause it violates
   (wf_code bit i = clause W(i+1)). *)
Definition with_topo (p : graph) (o : list N) : graph :=
  mkGraph (g_nodes p) (g_edges p) (g_loops p) (g_sgs p) o.
Definition set_delay (p : graph) (id : N) (d : option delay) : graph :=
  mkGraph (map (fun n => if N.eqb (n_id n) id
                         then mkNode (n_id n) (n_kind n) (n_loop n) (n_refs n) (n_sg n) d else n) (g_nodes p))
          (g_edges p) (g_loops p) (g_sgs p) (g_topo p).
Example C18_checker_rejects :
  wf_code ops_table (with_topo p_example [3; 1; 2]) = 64 /\       (* consumer before producer *)
  wf_code ops_table (set_delay p_example 10 None) = 16 + 64 /\    (* lost Tick mark: W5, and now an order violation *)
  wf_code ops_table (set_delay p_example 8 (Some DTick)) = 16 /\  (* spurious mark *)
  wf_code ops_table (with_topo p_example [1; 2]) = 64.            (* subgraph missing from the order *)
Proof. vm_compute. repeat split; reflexivity. Qed.

(* ---- former finding order/reference-crosses-loop-boundary (fixed in /repo 0840b054cc8).
   p_ref_into_loop is what partition_graph USED to return for
     i1 = source_iter([1]); i2 = source_iter([2]);
     loop { i1 -> batch() -> for_each(drop); i2 -> batch() -> map(|x| x + #s) -> for_each(drop); };
     s = source_iter([5]) -> fold(|| 0, |a, x| *a += x) -> singleton();
   with subgraph_toposort = [1;2;3;5;4]: subgraph 5 (holding map(.. #s ..), node 6) before
   subgraph 4 (the producer of singleton 10).  Kept as a witness that the checker rejects such an
   order; the program itself is corpus/C18/reference_into_loop.json and must now be well formed. *)
Definition p_ref_into_loop : graph :=
  mkGraph [mkNode 1 (KOp "source_iter") None [] (Some 1) None;
           mkNode 2 (KOp "source_iter") None [] (Some 2) None;
           mkNode 3 (KOp "batch") (Some 1) [] (Some 3) None;
           mkNode 4 (KOp "for_each") (Some 1) [] (Some 3) None;
           mkNode 5 (KOp "batch") (Some 1) [] (Some 5) None;
           mkNode 6 (KOp "map") (Some 1) [mkRef (Some 10) false None] (Some 5) None;
           mkNode 7 (KOp "for_each") (Some 1) [] (Some 5) None;
           mkNode 8 (KOp "source_iter") None [] (Some 4) None;
           mkNode 9 (KOp "fold") None [] (Some 4) None;
           mkNode 10 (KHoff HSingleton) None [] None None;
           mkNode 11 (KHoff HVec) None [] None None;
           mkNode 12 (KHoff HVec) None [] None None]
          [mkEdge 1 3 4 PElided PElided; mkEdge 2 1 11 PElided PElided; mkEdge 3 6 7 PElided PElided;
           mkEdge 4 5 6 PElided PElided; mkEdge 5 2 12 PElided PElided; mkEdge 6 9 10 PElided PElided;
           mkEdge 7 8 9 PElided PElided; mkEdge 8 11 3 PElided PElided; mkEdge 9 12 5 PElided PElided]
          [mkLoop 1 None [3; 4; 5; 6; 7]]
          [mkSg 1 [1]; mkSg 2 [2]; mkSg 3 [3; 4]; mkSg 4 [8; 9]; mkSg 5 [5; 6; 7]] [1; 2; 3; 5; 4].

Theorem C18_checker_rejects_misordered_reference :
  wf_code ops_table p_ref_into_loop = 32 /\ ~ WellFormed ops_table p_ref_into_loop.
Proof.
  split; [vm_compute; reflexivity|].
  intros (_ & _ & _ & _ & _ & (H6 & _) & _).
  destruct (H6 (mkNode 6 (KOp "map") (Some 1) [mkRef (Some 10) false None] (Some 5) None)
               (mkRef (Some 10) false None)) as (t & Ht & _ & Hprod & _).
  - simpl. tauto.
  - simpl. tauto.
  - simpl in Ht. injection Ht as <-.
    specialize (Hprod 9). assert (In 9 (preds_pipe p_ref_into_loop 10)) by (vm_compute; tauto).
    specialize (Hprod H). vm_compute in Hprod. discriminate.
Qed.
Print Assumptions C18_checker_rejects_misordered_reference.
