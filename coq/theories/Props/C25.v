(* C25 References read settled state and run in declaration order.
   Theorems about the tick program model (Dfir/ModelTick.v) with Singleton/Optional handoff slots
   and reference operators (`#name`, `#mut name`, `#{N} name`); proofs in Dfir/PFrame.v.
   The order of the blocks (producer before every referrer, access group N before N+1, referrers
   before the pipe consumer, all in different subgraphs) is what the real partitioner produced
   for the program at hand; that it always does so is engine E6's property (C17/C18). *)
From Coq Require Import List NArith Bool.
From HV Require Import Dfir.Model Dfir.ModelTick Dfir.ModelFlat Dfir.ModelRefs Dfir.PTick Dfir.PFrame Dfir.PRefs.
Import ListNotations.

(* a block leaves alone the `buf` of every handoff it neither sends to, nor receives from
   (same tick), nor references *)
Theorem C25_frame :
  (forall ext sg w h, buf_free sg h -> get h (w_buf (run_sg ext sg w)) = get h (w_buf w)) /\
  (forall ext sgs w h, Forall (fun sg => buf_free sg h) sgs ->
     get h (w_buf (run_sgs ext sgs w)) = get h (w_buf w)).
Proof. split; [exact run_sg_buf_free | exact run_sgs_buf_free]. Qed.
Print Assumptions C25_frame.

(* settled reads: after the blocks A, the block P (the slot's producer, or the previous access
   group) and any blocks M that do not touch the slot, the slot holds exactly what P's block left;
   and for access groups realised by blocks b1, b2, ... (each preceded by unrelated blocks) the
   k-th group starts from what the blocks before it -- ending with group k-1 -- left *)
Theorem C25_settled_reads :
  (forall ext A P M h w, Forall (fun sg => buf_free sg h) M ->
     get h (w_buf (run_sgs ext (A ++ P :: M) w)) = get h (w_buf (run_sg ext P (run_sgs ext A w)))) /\
  (forall ext h (blocks : list (list subgraph * subgraph)) w,
     Forall (fun b => Forall (fun sg => buf_free sg h) (fst b)) blocks ->
     forall pre b post, blocks = pre ++ b :: post ->
     let before := concat (map (fun b => fst b ++ [snd b]) pre) in
     get h (w_buf (run_sgs ext (before ++ fst b) w)) = get h (w_buf (run_sgs ext before w))).
Proof. split; [exact ref_reads_settled | exact groups_in_order]. Qed.
Print Assumptions C25_settled_reads.

(* a reference operator reads the slot as the block finds it, threads it through its closure item
   by item (all its items, before anything later in the order runs) and stores the result *)
Theorem C25_slot_semantics :
  forall sg ext w loc n h f, n_kind n = NRef h f ->
    let '(slot', outs, bad) := ref_fold f (get h (w_buf w)) (port 0 (map (fun e => get e loc) (n_ins n))) in
    run_node sg ext (w, loc) n =
    fold_left (emit sg) (combine (n_outs n) [outs])
              (let w1 := set_buf w (update h slot' (w_buf w)) in if bad then set_panic w1 true else w1, loc).
Proof. exact run_node_ref. Qed.
Print Assumptions C25_slot_semantics.

(* the real schedule.  [chain_ok groups h 0 0 sgs] is an executable check evaluated, for every C25
   program without loop blocks, on the blocks lowered from the real meta_graph() with the access-group
   numbers read from the real graph: along the schedule the slot's producer comes first, then the
   referring blocks with non-decreasing access group, then the pipe consumer, and every other block
   passes the executable frame test (the clause-6 shape of engine E6's WellFormed, evaluated here on
   this engine's lowered program; E6 evaluates its own WellFormed_b on the same real outputs, C18).
   On a schedule that passes, the slot content a block finds is exactly what the previous block
   using the slot left, whatever ran in between. *)
Theorem C25_real_schedule :
  (forall sg h, buf_free_b sg h = true -> buf_free sg h) /\
  (forall ext groups h sgs A P M rest w,
     chain_ok groups h 0 0 sgs = true ->
     sgs = A ++ P :: M ++ rest ->
     (forall sg, In sg M -> role sg h = 0%N) ->
     get h (w_buf (run_sgs ext (A ++ P :: M) w)) = get h (w_buf (run_sg ext P (run_sgs ext A w)))).
Proof. split; [exact buf_free_b_sound | exact settled_on_schedule]. Qed.
Print Assumptions C25_real_schedule.

(* programs with loop blocks (references crossing a loop boundary): the same check runs on the blocks
   in program order, descending into the loop gates ([instr_blocks]); on a program that passes,
   every block that does not use the slot -- inside or outside a loop -- leaves it alone *)
Theorem C25_loop_schedule : forall groups h (p : prog),
  refs_ordered_l p groups h = true ->
  forall sg, In sg (flat_map instr_blocks (p_body p)) -> role sg h = 0%N -> buf_free sg h.
Proof. intros groups h p H. exact (chain_ok_others_free groups h _ 0%N 0%N H). Qed.
Print Assumptions C25_loop_schedule.

(* settled reads on schedules with loop blocks, at instruction granularity: after an instruction P
   that uses the slot (a block, or a whole loop containing such blocks), any instructions M that pass
   the executable frame test [instr_free_b] -- blocks, declarations, whole loops whatever their
   gates do, however often they iterate -- leave the slot as P left it *)
Theorem C25_settled_loop_schedule : forall ext h A P M w,
  forallb (instr_free_b h) M = true ->
  get h (w_buf (fold_left (fun w i => exec ext i w) (A ++ P :: M) w)) =
  get h (w_buf (exec ext P (fold_left (fun w i => exec ext i w) A w))).
Proof. exact settled_on_loop_schedule. Qed.
Print Assumptions C25_settled_loop_schedule.

(* non-vacuity: producer block, then a mutating group, then a reading group, then the consumer *)
Example C25_example :
  let prod := {| sg_recv := []; sg_send := [(0%N, SFresh)]; sg_slots := [0%N];
                 sg_nodes := [ {| n_id := 0%N; n_kind := NSource 0; n_ins := []; n_outs := [0%N] |} ] |} in
  let g0 := {| sg_recv := []; sg_send := []; sg_slots := [];
               sg_nodes := [ {| n_id := 1%N; n_kind := NSource 1; n_ins := []; n_outs := [1%N] |};
                             {| n_id := 2%N; n_kind := NRef 0 rf_mix; n_ins := [1%N]; n_outs := [2%N] |};
                             {| n_id := 3%N; n_kind := NSink 1; n_ins := [2%N]; n_outs := [] |} ] |} in
  let g1 := {| sg_recv := []; sg_send := []; sg_slots := [];
               sg_nodes := [ {| n_id := 4%N; n_kind := NSource 2; n_ins := []; n_outs := [3%N] |};
                             {| n_id := 5%N; n_kind := NRef 0 rf_pair; n_ins := [3%N]; n_outs := [4%N] |};
                             {| n_id := 6%N; n_kind := NSink 2; n_ins := [4%N]; n_outs := [] |} ] |} in
  let cons := {| sg_recv := [(0%N, false)]; sg_send := []; sg_slots := [];
                 sg_nodes := [ {| n_id := 7%N; n_kind := NSink 0; n_ins := [0%N]; n_outs := [] |} ] |} in
  let p := {| p_body := [IRun prod; IRun g0; IRun g1; IRun cons]; p_sched := []; p_swaps := []; p_ops := [] |} in
  let w := fst (drive false p [[(0%N, [VN 1]); (1%N, [VN 2; VN 3]); (2%N, [VN 9])]]) in
  (get 1%N (w_out w), get 2%N (w_out w), get 0%N (w_out w), w_panic w) =
  ([VP (VN 0) (VP (VN 2) (VN 5)); VP (VN 0) (VP (VN 3) (VN 18))],
   [VP (VN 0) (VP (VN 9) (VN 18))], [VP (VN 0) (VN 18)], false).
Proof. vm_compute. reflexivity. Qed.
