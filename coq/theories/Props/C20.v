(* C20 Graph rewrites and meta-graph serialization preserve the dataflow.

   Full statement: eliminate_extra_unions_tees, merge_modules and the JSON round trip keep the
   same operators, arguments, port wiring between the remaining operators, subgraphs, handoffs
   and execution order.
   PROVED here (hence _partial): one remove_intermediate_node step is exactly the contraction of
   the removed node on the wire level (the new wire joins the producer's output port with the
   consumer's input port, every other wire is untouched), for all edge lists.
   and the multi-step statement for eliminate_extra_unions_tees: removing any list of distinct
   single-input single-output nodes one after the other yields exactly the end-to-end
   (source port -> sink port) connections of the original graph through the removed nodes
   (C20_eliminate_preserves_wiring; [conn]/[route] in Partition/Rewrite.v).
   For merge_modules: removing ONE module boundary yields exactly the wires that do not touch it
   plus every in-edge joined with the out-edge leaving on the port it arrived on
   (C20_remove_module_boundary_preserves_wiring), and no edge mentions the boundary afterwards;
   the sequential model [merge_mbs] is compared with every real merge_modules result.
   and the multi-boundary statement, by induction on the list of boundaries with the single-step
   lemma: merge_modules over any list of distinct boundaries yields exactly the end-to-end
   connections of the original graph through them, matched port by port
   (C20_merge_modules_preserves_wiring; [conn_p]/[route_p]).  The general multi-step contraction
   theorem for unary nodes is C20_eliminate_preserves_wiring (induction on the list of removed nodes).
   NOT proved: anything about serde_json -- those are decided per run by the executable comparison [same_dataflow_b]
   (end-to-end wiring through the removed nodes = wiring of the result, surviving nodes
   untouched) and [graph_eqb] on the real before/after graphs (props/C20.py). *)
From Coq Require Import List String NArith Bool.
From HV Require Import Partition.Base GraphAlg.Model Partition.Model Partition.Rewrite Partition.PRewrite.
Import ListNotations.
Open Scope N_scope.
Open Scope string_scope.
Open Scope list_scope.

Theorem C20_remove_intermediate_contracts_partial : forall (es : list edge) (n k : N) (es' : list edge),
  remove_mid es n k = Some es' -> map wire_of es' = contract es n.
Proof. exact remove_mid_contracts. Qed.
Print Assumptions C20_remove_intermediate_contracts_partial.

Theorem C20_remove_intermediate_spec_partial : forall (es : list edge) (n k : N) (es' : list edge),
  remove_mid es n k = Some es' ->
  exists i o, ins es n = [i] /\ outs es n = [o] /\ e_src i <> n /\
    map wire_of es' = map wire_of (others es n) ++ [(e_src i, e_sport i, e_dst o, e_dport o)].
Proof. exact remove_mid_spec. Qed.
Print Assumptions C20_remove_intermediate_spec_partial.

Theorem C20_eliminate_preserves_wiring : forall (rs : list N) (es : list edge) (k : N) (es' : list edge),
  NoDup rs -> elim es rs k = Some es' ->
  forall w, In w (map wire_of es') <-> conn es rs w.
Proof. exact elim_preserves_wiring. Qed.
Print Assumptions C20_eliminate_preserves_wiring.

Theorem C20_remove_module_boundary_preserves_wiring : forall (es : list edge) (m k : N) (es' : list edge),
  remove_mb es m k = MbOk es' ->
  (forall w, In w (map wire_of es') <-> conn_mb es m w) /\
  (forall e, In e es' -> e_src e <> m /\ e_dst e <> m).
Proof.
  intros es m k es' H. split; [exact (remove_mb_preserves_conn es m k es' H)|exact (remove_mb_no_m es m k es' H)].
Qed.
Print Assumptions C20_remove_module_boundary_preserves_wiring.

Theorem C20_merge_modules_preserves_wiring : forall (ms : list N) (es : list edge) (k : N) (es' : list edge),
  NoDup ms -> merge_mbs es ms k = MbOk es' ->
  forall w, In w (map wire_of es') <-> conn_p es ms w.
Proof. exact merge_mbs_preserves_wiring. Qed.
Print Assumptions C20_merge_modules_preserves_wiring.

(* non-vacuity: two chained boundaries 8 and 9 are both merged *)
Example C20_merge_modules_example :
  NoDup [8; 9] /\
  merge_mbs [mkEdge 1 1 8 PElided (PPath "a"); mkEdge 2 8 9 (PPath "a") (PInt false 0); mkEdge 3 9 3 (PInt false 0) (PPath "pos")] [8; 9] 20
  = MbOk [mkEdge 21 1 3 PElided (PPath "pos")].
Proof. split; [repeat constructor; simpl; intuition discriminate|vm_compute; reflexivity]. Qed.

(* non-vacuity: a two-port boundary 9 (ports 0 and 1) joins port-wise; mismatched ports are an Err *)
Example C20_module_boundary_example :
  remove_mb [mkEdge 1 1 9 PElided (PInt false 0); mkEdge 2 2 9 PElided (PInt false 1);
             mkEdge 3 9 3 (PInt false 1) (PPath "neg"); mkEdge 4 9 3 (PInt false 0) (PPath "pos")] 9 7
  = MbOk [mkEdge 7 1 3 PElided (PPath "pos"); mkEdge 7 2 3 PElided (PPath "neg")] /\
  remove_mb [mkEdge 1 1 9 PElided (PInt false 0); mkEdge 3 9 3 (PInt false 1) PElided] 9 7 = MbErr.
Proof. vm_compute. split; reflexivity. Qed.

(* non-vacuity: src -> union(2) -> tee(3) -> [pos]d : both unary nodes removed, ports kept end to end *)
Example C20_eliminate_example :
  NoDup [2; 3] /\
  elim [mkEdge 1 1 2 (PInt false 0) PElided; mkEdge 2 2 3 PElided PElided; mkEdge 3 3 4 PElided (PPath "pos")] [2; 3] 10
  = Some [mkEdge 11 1 4 (PInt false 0) (PPath "pos")].
Proof. split; [repeat constructor; simpl; intuition discriminate|vm_compute; reflexivity]. Qed.

(* non-vacuity: a -> [1]union -> [pos]d : the unary union 2 is removed, ports kept end to end *)
Example C20_remove_example :
  remove_mid [mkEdge 1 1 2 (PInt false 0) (PInt false 1); mkEdge 2 2 3 PElided (PPath "pos");
              mkEdge 3 4 3 PElided (PPath "neg")] 2 9
  = Some [mkEdge 3 4 3 PElided (PPath "neg"); mkEdge 9 1 3 (PInt false 0) (PPath "pos")].
Proof. vm_compute. reflexivity. Qed.

(* known finding rewrite/self-loop-unary-node-panic: on `u = union(); u -> u;` the node's only edge
   is both its input and its output; the model defines no contraction there (None), and the Rust
   remove_intermediate_node panics (replayed by corpus/C20/self_loop_unary_union.json). *)
Example C20_self_loop_has_no_contraction :
  remove_mid [mkEdge 1 1 1 PElided PElided] 1 9 = None.
Proof. vm_compute. reflexivity. Qed.
