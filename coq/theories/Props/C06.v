(* C06 Atomization splits a lattice value into mergeable atoms.
   For EVERY atomizable type code t (unit, SetUnion, MapUnion<_, v>, WithBot<v>, WithTop<v> over
   atomizable v: every nesting) and every well-formed value a; and for the union-find lattice
   (model of union_find.rs: Lattice/UF.v by the union-find engine; theorems at the end). *)
From HV Require Import Lattice.UF Lattice.PUF Lattice.AtomUF Lattice.PAtomUF.
From HV Require Import Lattice.Univ Lattice.Atom Lattice.PAtom.
From Coq Require Import Permutation.

(* every atom is a (well-formed) non-bottom lattice value *)
Theorem C06_atoms_nonbot : forall t, atomizable t = true ->
  forall a : val t, W (ops t) a ->
    Forall (fun x => W (ops t) x /\ isbot (ops t) x = false) (atomize t a).
Proof. exact atoms_wf_nonbot. Qed.
Print Assumptions C06_atoms_nonbot.

(* atomization yields nothing exactly when the value is bottom *)
Theorem C06_empty_iff_bot : forall t, atomizable t = true ->
  forall a : val t, W (ops t) a -> (atomize t a = [] <-> isbot (ops t) a = true).
Proof. exact atoms_nil_iff_bot. Qed.
Print Assumptions C06_empty_iff_bot.

(* merging the atoms -- in any order l: hash iteration order is arbitrary -- back into
   Default::default() reproduces the original value, up to the lattice's own equality *)
Theorem C06_remerge : forall t, atomizable t = true ->
  forall (a : val t) (l : list (val t)), W (ops t) a -> Permutation l (atomize t a) ->
    E (ops t) (fold_left (fun acc x => m (ops t) acc x) l (dflt t)) a.
Proof. exact remerge_dflt. Qed.
Print Assumptions C06_remerge.

(* Default is a well-formed bottom (so "into Default" is "into bottom") *)
Theorem C06_default_is_bot : forall t, atomizable t = true ->
  W (ops t) (dflt t) /\ isbot (ops t) (dflt t) = true.
Proof. exact dflt_bot. Qed.
Print Assumptions C06_default_is_bot.

(* stronger: into ANY accumulator, merging the atoms one by one = merging the value; and the
   value is exactly the least upper bound of its atoms *)
Theorem C06_remerge_into : forall t, atomizable t = true ->
  forall (a acc : val t) (l : list (val t)), W (ops t) a -> W (ops t) acc ->
    Permutation l (atomize t a) ->
    W (ops t) (fold_left (fun s x => m (ops t) s x) l acc) /\
    E (ops t) (fold_left (fun s x => m (ops t) s x) l acc) (m (ops t) acc a).
Proof. exact remerge_acc. Qed.
Print Assumptions C06_remerge_into.

Theorem C06_atoms_lub : forall t, atomizable t = true ->
  forall a c : val t, W (ops t) a -> W (ops t) c ->
    (Le (ops t) a c <-> Forall (fun x => Le (ops t) x c) (atomize t a)).
Proof. exact atoms_lub. Qed.
Print Assumptions C06_atoms_lub.

(* the executable form evaluated by the correspondence check is implied by the theorems: it
   holds of the model's own observation for every well-formed input *)
Theorem C06_holds_b_sound : forall t, atomizable t = true ->
  forall a acc : val t, W (ops t) a -> W (ops t) acc ->
    C06_holds_b t (model_aobs t a acc) = true.
Proof. exact holds_b_model. Qed.
Print Assumptions C06_holds_b_sound.

(* ---------------------------------------------------------------- UnionFind (union_find.rs)
   [uf_atomize]: the non-trivial entries (item != parent), each as a singleton-map union-find.
   W uf_ops a: the parent map is a forest with distinct keys (UF.uf_wf). *)
Theorem C06_uf_atoms_nonbot : forall a : uf, W uf_ops a ->
  Forall (fun x => W uf_ops x /\ isbot uf_ops x = false) (uf_atomize a).
Proof. exact uf_atoms_nonbot. Qed.
Print Assumptions C06_uf_atoms_nonbot.

Theorem C06_uf_empty_iff_bot : forall a : uf, uf_atomize a = [] <-> isbot uf_ops a = true.
Proof. exact uf_atoms_nil_iff_bot. Qed.
Print Assumptions C06_uf_empty_iff_bot.

(* merging the atoms, in any order, into Default gives a value equal to a under the lattice's own
   equality, i.e. (second theorem) exactly the same partition *)
Theorem C06_uf_remerge : forall (a : uf) (l : list uf), W uf_ops a -> Permutation l (uf_atomize a) ->
  E uf_ops (fold_left (fun s x => m uf_ops s x) l uf_dflt) a.
Proof. exact uf_remerge_dflt. Qed.
Print Assumptions C06_uf_remerge.

Theorem C06_uf_remerge_partition : forall (a : uf) (l : list uf), W uf_ops a ->
  Permutation l (uf_atomize a) ->
  forall x y, SameRoot (fold_left (fun s x => m uf_ops s x) l uf_dflt) x y <-> SameRoot a x y.
Proof. exact uf_remerge_partition. Qed.
Print Assumptions C06_uf_remerge_partition.

Theorem C06_uf_remerge_into : forall (a acc : uf) (l : list uf), W uf_ops a -> W uf_ops acc ->
  Permutation l (uf_atomize a) ->
  W uf_ops (fold_left (fun s x => m uf_ops s x) l acc) /\
  E uf_ops (fold_left (fun s x => m uf_ops s x) l acc) (m uf_ops acc a).
Proof. exact uf_remerge_acc. Qed.
Print Assumptions C06_uf_remerge_into.

Example C06_uf_nonvacuous :
  W uf_ops [(1, 1); (2, 1); (3, 2); (5, 5)]%N /\
  uf_atomize [(1, 1); (2, 1); (3, 2); (5, 5)]%N = [[(2, 1)]; [(3, 2)]]%N.
Proof. split; reflexivity. Qed.

(* Pure-cycle parent maps (no self-parent root; `find` closes the loop on the fly; the crate's
   test_malformed treats a loop as one group) are NOT covered by the theorems above ([W uf_ops] =
   forest).  NOT PROVED: the C06 statement for "forest or pure-cycle components".  For those values
   the executable property is evaluated on the implementation's atoms and the model is compared on
   every run (generator: about 40% of the UnionFind cases); one instance on the model: *)
Example C06_uf_pure_cycle_instance :
  let a := [(0, 1); (1, 2); (2, 0); (4, 4); (5, 4)]%N in
  uf_wf a = false /\
  uf_atomize a = [[(0, 1)]; [(1, 2)]; [(2, 0)]; [(5, 4)]]%N /\
  forallb (fun x => negb (uf_isbot x)) (uf_atomize a) = true /\
  eqb uf_ops a (uf_remerge uf_dflt (uf_atomize a)) = true /\
  uf_classes 8 (uf_remerge uf_dflt (uf_atomize a)) = uf_classes 8 a.
Proof. vm_compute. repeat split. Qed.

(* non-vacuity: a nested atomizable code, a well-formed value with a bottom-valued entry, an
   entry holding the adjoined top and one holding Some(bottom); its atoms *)
Example C06_nonvacuous :
  let t := TMap (TTop (TBot (TMap TSet))) in
  let a : val t := [(1, Some (Some [(7, [2; 3]); (8, [])])); (2, None); (3, Some None); (4, Some (Some []))]%N in
  atomizable t = true /\ W (ops t) a /\ isbot (ops t) a = false /\
  atomize t a = [ [(1, Some (Some [(7, [2])]))]; [(1, Some (Some [(7, [3])]))]; [(2, None)] ]%N /\
  eqb (ops t) (fold_left (fun acc x => m (ops t) acc x) (atomize t a) (dflt t)) a = true.
Proof. repeat split. Qed.
