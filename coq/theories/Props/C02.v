(* C02 Merge reports change exactly when the value grows. *)
From HV Require Import Lattice.Univ Lattice.PUniv.

Theorem C02_changed : forall t, key_total t = true ->
  forall a b : val t, W (ops t) a -> W (ops t) b ->
    (ch (ops t) a b = true <-> ~ E (ops t) (m (ops t) a b) a) /\
    (ch (ops t) a b = false <-> Le (ops t) b a) /\
    cmp (ops t) a b = naive (ch (ops t) a b) (ch (ops t) b a).
Proof. intros t K. exact (laws_C02 (laws t K)). Qed.
Print Assumptions C02_changed.

(* the flag as a boolean identity *)
Theorem C02_flag : forall t, key_total t = true ->
  forall a b : val t, W (ops t) a -> W (ops t) b ->
    ch (ops t) a b = negb (eqb (ops t) (m (ops t) a b) a).
Proof. intros t K. exact (ch_spec (laws t K)). Qed.
Print Assumptions C02_flag.

Example C02_nonvacuous :
  let t := TMap TSet in
  key_total t = true /\ W (ops t) [(1, [2])]%N /\ W (ops t) [(1, [2; 3]); (4, [])]%N /\
  ch (ops t) [(1, [2])]%N [(1, [2; 3]); (4, [])]%N = true /\
  ch (ops t) [(1, [2; 3])]%N [(1, [2]); (4, [])]%N = false.
Proof. repeat split. Qed.
