(* C05 Tombstone lattices never resurrect deleted items.
   Only property theorems live here; each is closed by an exact of a lemma proved in
   Lattice/PTomb.v and followed by Print Assumptions.
   Model: Lattice/Tomb.v -- settomb_ops (SetUnionWithTombstones) and maptomb_ops
   (MapUnionWithTombstones over any value lattice); one model for the hash / roaring / fst
   tombstone backends (their interchangeability is what the correspondence check tests). *)
From HV Require Import Lattice.Model Lattice.Ord Lattice.PMap Lattice.Tomb Lattice.PTomb Lattice.PTombChk.
From Coq Require Import Permutation.

(* ---- the tombstone lattices are lattices: C01--C03 hold for them too *)
Theorem C05_set_laws : LatLaws settomb_ops /\ TopLaw settomb_ops.
Proof. exact (conj settomb_laws settomb_toplaw). Qed.
Print Assumptions C05_set_laws.

Theorem C05_map_laws : forall V (LV : LatOps V), LatLaws LV ->
  LatLaws (maptomb_ops LV) /\ TopLaw (maptomb_ops LV).
Proof. intros V LV H. exact (conj (maptomb_laws V LV H) (maptomb_toplaw V LV H)). Qed.
Print Assumptions C05_map_laws.

(* ---- every merge order / bracketing / repetition over the same replica states gives the same
   lattice value (assoc + comm + idem lifted to merge trees, for ANY lattice satisfying the laws) *)
Theorem C05_any_merge_tree : forall A (L : LatOps A), LatLaws L ->
  forall t1 t2 : mtree A,
    Forall (W L) (leaves t1) -> Forall (W L) (leaves t2) ->
    (forall s, In s (leaves t1) <-> In s (leaves t2)) ->
    E L (teval L t1) (teval L t2).
Proof. exact tree_order_indep. Qed.
Print Assumptions C05_any_merge_tree.

Theorem C05_any_merge_order : forall A (L : LatOps A), LatLaws L ->
  forall init l1 l2, W L init -> Forall (W L) l1 -> Permutation l1 l2 ->
    E L (hfold L init l1) (hfold L init l2).
Proof. exact hfold_perm. Qed.
Print Assumptions C05_any_merge_order.

(* ---- sets: for every merge tree over well-formed replica states
   tomb(result) = U tomb_i,  live(result) = (U live_i) \ (U tomb_i),  live /\ tomb = {} (wf) *)
Theorem C05_set_tree : forall t : mtree tstate, Forall (W settomb_ops) (leaves t) ->
  W settomb_ops (teval settomb_ops t) /\
  (forall x, In x (snd (teval settomb_ops t)) <-> in_tomb (leaves t) x) /\
  (forall x, In x (fst (teval settomb_ops t)) <-> in_live (leaves t) x /\ ~ in_tomb (leaves t) x).
Proof. exact settomb_tree. Qed.
Print Assumptions C05_set_tree.

(* the same with explicit insert / delete operations (merge with ({x},{}) / ({},{x}), as the
   repo's tests do) interleaved with merges of other replicas' states, from Default *)
Theorem C05_set_history : forall h : list hop, Forall hop_wf h ->
  let r := hfold settomb_ops ([], []) (map hop_state h) in
  W settomb_ops r /\
  (forall x, In x (snd r) <-> deleted h x) /\
  (forall x, In x (fst r) <-> inserted h x /\ ~ deleted h x).
Proof. exact settomb_ops_history. Qed.
Print Assumptions C05_set_history.

(* once an item is tombstoned it is never live again, whatever is merged in later *)
Theorem C05_set_no_resurrect : forall s x later,
  W settomb_ops s -> Forall (W settomb_ops) later -> In x (snd s) ->
  let r := hfold settomb_ops s later in ~ In x (fst r) /\ In x (snd r).
Proof. exact settomb_no_resurrect. Qed.
Print Assumptions C05_set_no_resurrect.

Theorem C05_set_no_resurrect_tree : forall (t : mtree tstate) x,
  Forall (W settomb_ops) (leaves t) -> in_tomb (leaves t) x ->
  ~ In x (fst (teval settomb_ops t)) /\ In x (snd (teval settomb_ops t)).
Proof. exact settomb_no_resurrect_tree. Qed.
Print Assumptions C05_set_no_resurrect_tree.

(* ---- maps, over any value lattice: tombstones = union; a key tombstoned anywhere is absent;
   every other key's visible (non-bottom) value is the least upper bound of its visible values
   in the replica states *)
Theorem C05_map_tree : forall V (LV : LatOps V), LatLaws LV ->
  forall t : mtree (mstate V), Forall (W (maptomb_ops LV)) (leaves t) ->
  W (maptomb_ops LV) (teval (maptomb_ops LV) t) /\
  (forall k, In k (snd (teval (maptomb_ops LV) t)) <-> in_tomb (leaves t) k) /\
  (forall k, in_tomb (leaves t) k -> get k (fst (teval (maptomb_ops LV) t)) = None) /\
  (forall k, ~ in_tomb (leaves t) k ->
     (forall s, In s (leaves t) ->
        ole V LV (aget V LV k (fst s)) (aget V LV k (fst (teval (maptomb_ops LV) t)))) /\
     (forall z, owf V LV z ->
        (forall s, In s (leaves t) -> ole V LV (aget V LV k (fst s)) z) ->
        ole V LV (aget V LV k (fst (teval (maptomb_ops LV) t))) z)).
Proof. exact maptomb_tree. Qed.
Print Assumptions C05_map_tree.

Theorem C05_map_visible : forall V (LV : LatOps V), LatLaws LV ->
  forall (t : mtree (mstate V)) k, Forall (W (maptomb_ops LV)) (leaves t) ->
  (visible V LV k (teval (maptomb_ops LV) t) <->
   (exists s, In s (leaves t) /\ visible V LV k s) /\ ~ in_tomb (leaves t) k).
Proof. exact maptomb_tree_visible. Qed.
Print Assumptions C05_map_visible.

Theorem C05_map_no_resurrect : forall V (LV : LatOps V), LatLaws LV ->
  forall s k later, W (maptomb_ops LV) s -> Forall (W (maptomb_ops LV)) later -> In k (snd s) ->
  let r := hfold (maptomb_ops LV) s later in get k (fst r) = None /\ In k (snd r).
Proof. exact maptomb_no_resurrect. Qed.
Print Assumptions C05_map_no_resurrect.

(* ---- the precondition is needed: the length-based changed flag is wrong when an item is both
   live and tombstoned in the receiver (constructible with new_from; outside wf) *)
Theorem C05_set_flag_needs_disjoint_refuted :
  exists a b, W settomb_ops b /\ st_wf a = false /\
    ch settomb_ops a b = false /\ fst (m settomb_ops a b) <> fst a.
Proof. exact settomb_flag_needs_disjoint_refuted. Qed.
Print Assumptions C05_set_flag_needs_disjoint_refuted.

Theorem C05_map_flag_needs_disjoint_refuted :
  exists a b : mstate N, W (maptomb_ops (max_ops None)) b /\ mt_wf (max_ops None) a = false /\
    ch (maptomb_ops (max_ops None)) a b = false /\
    fst (m (maptomb_ops (max_ops None)) a b) <> fst a.
Proof. exact maptomb_flag_needs_disjoint_refuted. Qed.
Print Assumptions C05_map_flag_needs_disjoint_refuted.

(* ---- the executable form of the property, which the check evaluates on the implementation's
   outputs (Tomb.C05_set_holds_b / C05_map_holds_b), is tied to the theorems above:
   on duplicate-free observations the set form says exactly what C05_set_tree concludes ... *)
Theorem C05_set_holds_b_sound : forall ss live tomb, NoDup live -> NoDup tomb ->
  (set_res_ok ss live tomb = true <->
   (forall x, In x live <-> in_live ss x /\ ~ in_tomb ss x) /\
   (forall x, In x tomb <-> in_tomb ss x) /\
   (forall x, In x live -> ~ In x tomb)).
Proof. exact set_res_ok_spec. Qed.
Print Assumptions C05_set_holds_b_sound.

(* ... and the model's own observations (every step of the history, the changed flags, any
   merge tree over the same states) satisfy it, for sets and for maps over any value lattice *)
Theorem C05_set_holds_b_model : forall init others (t : mtree tstate),
  Forall (W settomb_ops) (init :: others) ->
  (forall s, In s (leaves t) <-> In s (init :: others)) ->
  C05_set_holds_b init others [model_steps settomb_ops init others] [teval settomb_ops t] = true.
Proof. exact C05_set_holds_b_model. Qed.
Print Assumptions C05_set_holds_b_model.

Theorem C05_map_holds_b_model : forall V (LV : LatOps V), LatLaws LV ->
  forall init others (t : mtree (mstate V)),
  Forall (W (maptomb_ops LV)) (init :: others) ->
  (forall s, In s (leaves t) <-> In s (init :: others)) ->
  C05_map_holds_b LV init others [model_steps (maptomb_ops LV) init others] [teval (maptomb_ops LV) t] = true.
Proof. exact C05_map_holds_b_model. Qed.
Print Assumptions C05_map_holds_b_model.

(* ---- non-vacuity: well-formed, non-trivial replica states; a tree in which an item is live
   in one replica and tombstoned in another *)
Local Open Scope N_scope.
Example C05_nonvacuous :
  let t := Node (Node (Leaf ([1; 2], [3])) (Leaf ([4], [1]))) (Leaf ([3; 5], [])) in
  Forall (W settomb_ops) (leaves t) /\
  teval settomb_ops t = ([2; 4; 5], [3; 1]) /\
  in_tomb (leaves t) 1 /\ in_live (leaves t) 1.
Proof.
  cbv zeta. split; [repeat constructor|]. split; [reflexivity|]. split.
  - exists ([4], [1]). cbn. tauto.
  - exists ([1; 2], [3]). cbn. tauto.
Qed.

Example C05_map_nonvacuous :
  let L := maptomb_ops (max_ops (Some 255)) in
  let t := Node (Leaf ([(1, 5); (2, 0)], [3])) (Node (Leaf ([(3, 9); (1, 7)], [])) (Leaf ([(4, 1)], [2]))) in
  Forall (W L) (leaves t) /\ teval L t = ([(1, 7); (4, 1)], [3; 2]).
Proof. cbv zeta. split; [repeat constructor|reflexivity]. Qed.
