(* C22 Results do not depend on pull/push placement or subgraph shape.
   What is proved here is small: the operators the shape perturbations insert (identity chains,
   union with a side that never carries items, tee, null) are identities on the per-tick
   streams, for every history.  The operator models of Dfir/Model.v are list functions of the
   tick's complete inputs and so do not distinguish the pull and the push realisation of a
   write_fn; that the two realisations (and different partitions into subgraphs) compute the
   same lists is NOT a theorem here -- it is what the correspondence check of this property tests
   on the real code generator, variant against variant and against the model. *)
From Coq Require Import List NArith Bool.
From HV Require Import Dfir.Model Dfir.POps.
Import ListNotations.

Theorem C22_perturbation_operators :
  (forall h, run_op op_identity h = map (fun i => [port 0 i]) h) /\
  (forall h, run_op (op_union 2) h = map (fun i => [concat (firstn 2 i)]) h) /\
  (forall l : list val, concat (firstn 2 [l; []]) = l) /\
  (forall n h, run_op (op_tee n) h = map (fun i => repeat (port 0 i) n) h) /\
  (forall h, run_op op_null h = map (fun _ => [[]]) h).
Proof.
  repeat split; intros; try apply run_stateless.
  cbn [firstn concat]. rewrite app_nil_r. reflexivity.
Qed.
Print Assumptions C22_perturbation_operators.

(* feeding an operator through an identity changes nothing (single-port histories) *)
Theorem C22_identity_insert : forall o h,
  Forall (fun i => length i = 1%nat) h ->
  run_op o (map (fun out => [port 0 out]) (run_op op_identity h)) = run_op o h.
Proof.
  intros o h H. f_equal. unfold run_op at 1, op_identity. rewrite run_stateless. rewrite map_map.
  rewrite <- (map_id h) at 2. apply map_ext_in. intros i Hi.
  rewrite Forall_forall in H. specialize (H i Hi).
  destruct i as [|x [|y r]]; cbn [length] in H; try discriminate. reflexivity.
Qed.
Print Assumptions C22_identity_insert.

Example C22_example :
  run_op (op_union 2) [[[VN 1; VN 2]; []]; [[VN 3]; []]] = [[[VN 1; VN 2]]; [[VN 3]]].
Proof. vm_compute. reflexivity. Qed.
