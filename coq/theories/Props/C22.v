(* C22 Results do not depend on pull/push placement or subgraph shape.
   What is proved here is small: the operators the shape perturbations insert (identity chains,
   union with a side that never carries items, tee, null) are identities on the per-tick
   streams, for every history.  The operator models of Dfir/Model.v are list functions of the
   tick's complete inputs and so do not distinguish the pull and the push realisation of a
   write_fn; that the two realisations (and different partitions into subgraphs) compute the
   same lists is NOT a theorem here -- it is what the correspondence check of this property tests
   on the real code generator, variant against variant and against the model. *)
From Coq Require Import List NArith Bool.
From HV Require Import Partition.Base GraphAlg.Model GraphAlg.PTopo Partition.Model Dfir.PSubdiv Dfir.PSubdivPart.
From HV Require Import Dfir.Model Dfir.ModelTick Dfir.ModelFlat Dfir.ModelRealise Dfir.POps Dfir.PRealise Dfir.PFlatCheck Dfir.ModelRewrite Dfir.PFlat Dfir.PRewrite Dfir.PRename.
Import ListNotations.

Theorem C22_perturbation_operators :
  (forall h, run_op op_identity h = map (fun i => [port 0 i]) h) /\
  (forall h, run_op (op_union 2) h = map (fun i => [concat (firstn 2 i)]) h) /\
  (forall l : list val, concat (firstn 2 [l; []]) = l) /\
  (forall n h, run_op (op_tee n) h = map (fun i => repeat (port 0 i) n) h) /\
  (forall h, run_op op_null h = map (fun _ => [[]]) h).
Proof.
  repeat split; intros; try apply run_stateless.
  cbn [firstn concat]. rewrite app_nil_r. reflexivity.
Qed.
Print Assumptions C22_perturbation_operators.

(* feeding an operator through an identity changes nothing (single-port histories) *)
Theorem C22_identity_insert : forall o h,
  Forall (fun i => length i = 1%nat) h ->
  run_op o (map (fun out => [port 0 out]) (run_op op_identity h)) = run_op o h.
Proof.
  intros o h H. f_equal. unfold run_op at 1, op_identity. rewrite run_stateless. rewrite map_map.
  rewrite <- (map_id h) at 2. apply map_ext_in. intros i Hi.
  rewrite Forall_forall in H. specialize (H i Hi).
  destruct i as [|x [|y r]]; cbn [length] in H; try discriminate. reflexivity.
Qed.
Print Assumptions C22_identity_insert.

(* (i) the pull and the push realisation agree, for the operators whose write_fn has two
   materially different is_pull branches (transcribed in Dfir/ModelRealise.v): same state after
   the tick, same items downstream (fold_keyed: up to order -- hash order is unspecified anyway --
   and after write_tick_end).  The operators built from one closure handed to Pull::filter/map/..
   or to push::filter/map/.. (map, filter, filter_map, flat_map, inspect, unique, enumerate,
   multiset_delta, scan) use the same closure on both sides; their equality is the combinator
   properties C11/C12. *)
Theorem C22_pull_push :
  (forall f acc items, push_run (fold_push_step f) fold_push_fin acc items = fold_pull f acc items) /\
  (forall vec items,
     let '(s, out) := push_run persist_push_step persist_push_fin (vec, 0%nat) items in
     (fst s, out) = persist_pull vec items) /\
  (forall p init f t items,
     let '(tp, outp) := fold_keyed_pull p init f t items in
     let '(tq, outq) := push_run (fold_keyed_push_step init f) fold_keyed_push_fin t items in
     fold_keyed_end p tp = fold_keyed_end p tq /\ Permutation.Permutation outp outq) /\
  (forall key items,
     snd (push_run sort_by_key_push_step (sort_by_key_push_fin key) [] items) = sort_by_key_pull key items /\
     fst (push_run sort_by_key_push_step (sort_by_key_push_fin key) [] items) = []).
Proof.
  split; [exact fold_pull_push|]. split; [exact persist_pull_push|].
  split; [exact fold_keyed_pull_push | exact sort_by_key_pull_push].
Qed.
Print Assumptions C22_pull_push.

(* reduce_no_replay: the pull and push realisations agree for every state, tick and items (the push
   side sets its `was_updated` flag on every incoming item since /repo 6436e27651c; before, a single
   first item arriving after tick 0 was dropped by the push side -- former finding, the witness is
   kept as PRealise.reduce_no_replay_former_witness and in corpus/C22) *)
Theorem C22_reduce_no_replay_pull_push : forall f tick0 acc items,
  let '(s, out) := push_run (reduce_nr_push_step f) (reduce_nr_push_fin tick0) (acc, false) items in
  (fst s, out) = reduce_nr_pull f tick0 acc items.
Proof. exact reduce_no_replay_pull_push. Qed.
Print Assumptions C22_reduce_no_replay_pull_push.

(* the realisations are the list-level operator model of Dfir/Model.v *)
Theorem C22_realisation_is_model :
  (forall p init f acc items,
     op_step (op_fold p init f) {| st_ports := [[acc]] |} [items] =
     ({| st_ports := [[fst (fold_pull f acc items)]] |}, [snd (fold_pull f acc items)])) /\
  (forall vec items,
     op_step op_persist {| st_ports := [vec] |} [items] =
     ({| st_ports := [fst (persist_pull vec items)] |}, [snd (persist_pull vec items)])).
Proof.
  split; intros; cbn [op_step op_fold op_persist acc1 absorb nports ao_pers length seq map ao_ins ao_out port nth st_ports].
  - rewrite fold_fold_ins. reflexivity.
  - rewrite fold_vec_push. reflexivity.
Qed.
Print Assumptions C22_realisation_is_model.

(* (ii) subgraph shape: two partitions of the same flat graph (same operators in the same order,
   split into blocks by handoffs in any well-formed way) compute the same sink outputs, operator
   states and tick counts over every history *)
Theorem C22_partition_shape : forall p1 p2 h,
  flat_applicable p1 = true -> flat_applicable p2 = true -> flat_of p1 = flat_of p2 ->
  w_out (fst (drive false p1 h)) = w_out (fst (drive false p2 h)) /\
  w_st (fst (drive false p1 h)) = w_st (fst (drive false p2 h)) /\
  snd (drive false p1 h) = snd (drive false p2 h).
Proof.
  intros p1 p2 h H1 H2 E.
  pose proof (transparency p1 h H1) as T1. pose proof (transparency p2 h H2) as T2. rewrite E in T1.
  destruct (drive false p1 h) as [w1 o1]. destruct (drive false p2 h) as [w2 o2].
  destruct (drive false (flat_of p2) h) as [wf of]. cbn [fst snd].
  destruct T1 as [A1 [A2 [_ A4]]]. destruct T2 as [B1 [B2 [_ B4]]]. repeat split; congruence.
Qed.
Print Assumptions C22_partition_shape.

(* (ii) shape perturbations as rewrites of the flat graph.  The generator's perturbations splice a
   pass-through gadget after the producer of a wire a -- an identity(), a tee() whose other branch
   ends in null(), or a union() whose other input is null() -- and let every later reader of a read
   the gadget's output b instead (chains = repeated splices).  Each gadget copies a to b and touches
   nothing else; splicing any such gadget into any flat graph (original operators plain, not using
   the gadget's wires or ids, a not written after the splice point) preserves, over every input
   history, the sink outputs, the tick counts and the states of all original operators.  Together
   with C22_partition_shape (any well-formed partition of a flat graph computes its denotation) this
   covers identity chains, tee/union of one and forced handoff splits. *)
Theorem C22_gadgets :
  (forall k a b, a <> b -> gadget_ok (g_identity k a b) a b [b]) /\
  (forall k1 k2 a b c, a <> b -> a <> c -> b <> c -> gadget_ok (g_tee_null k1 k2 a b c) a b [b; c]) /\
  (forall k1 k2 a b d, a <> b -> a <> d -> b <> d -> gadget_ok (g_union_null k1 k2 a b d) a b [b; d]).
Proof. split; [exact g_identity_ok|]. split; [exact g_tee_null_ok | exact g_union_null_ok]. Qed.
Print Assumptions C22_gadgets.

Theorem C22_splice_preserves : forall K a b P pre post ops1 ops2 h,
  gadget_ok K a b P ->
  Forall (node_ok (map n_id K) P) pre -> Forall (node_ok (map n_id K) P) post ->
  Forall (fun n => ~ In a (n_outs n)) post ->
  ops_agree (map n_id K) ops1 ops2 ->
  let '(w1, obs1) := drive false (flat_prog_n (pre ++ post) ops1) h in
  let '(w2, obs2) := drive false (flat_prog_n (splice pre K post a b) ops2) h in
  w_out w1 = w_out w2 /\ obs1 = obs2 /\ w_panic w1 = w_panic w2 /\
  forall id, ~ In id (map n_id K) -> olookup id (w_st w1) = olookup id (w_st w2).
Proof. exact splice_program. Qed.
Print Assumptions C22_splice_preserves.

(* names do not matter: for injective renamings rho of the wires and sigma of the operator ids the
   renamed flat graph gives the same sink outputs, tick counts and panic flag over every history,
   and the same operator states under sigma.  (A lowered variant is `splice` of its base up to such a
   renaming: the wire and operator numbers are assigned per program.) *)
Theorem C22_rename_preserves_run : forall (rho sigma : N -> N),
  (forall a b, rho a = rho b -> a = b) -> (forall a b, sigma a = sigma b -> a = b) ->
  forall ns ops h, Forall (fun n => plain_kind (n_kind n)) ns ->
  let '(w1, obs1) := drive false (flat_prog_n ns ops) h in
  let '(w2, obs2) := drive false (flat_prog_n (map (rn rho sigma) ns) (rn_ops sigma ops)) h in
  w_out w1 = w_out w2 /\ obs1 = obs2 /\ w_panic w1 = w_panic w2 /\
  forall id, olookup (sigma id) (w_st w2) = olookup id (w_st w1).
Proof. exact rename_preserves_run. Qed.
Print Assumptions C22_rename_preserves_run.

(* (iii) compile / fail agreement.  The perturbations splice a pass-through operator into a
   non-delayed edge and (tee+null, union+null) hang a leaf on it.  On any dependency relation:
   subdividing a dependency u -> v by a fresh node m, and adding a fresh pure source or pure sink,
   neither create nor remove a cycle.  On engine E6's partitioner model (Partition/Model.v, flat
   graphs without loop blocks and references -- the perturbation catalogue): the same-tick
   dependencies are the non-delayed pipe edges, replacing a non-delayed pipe edge u -> v by
   u -> m -> v (m a fresh operator with undelayed input) is such a subdivision, hence by
   C19_rejects_iff_cycle the partitioner rejects the perturbed graph iff it rejects the base. *)
Theorem C22_cycles_preserved :
  (forall preds preds' u v m nodes, sub_ok preds preds' u v m ->
     (forall x p, In p (preds x) -> In x nodes /\ In p nodes) -> ~ In m nodes ->
     ((exists c, is_cycle preds c) <-> (exists c, is_cycle preds' c))) /\
  (forall (preds preds' : N -> list N) q nodes,
     (forall x p, In p (preds x) -> In x nodes /\ In p nodes) -> ~ In q nodes ->
     (forall p x, In p (preds x) -> In p (preds' x)) ->
     ((forall p x, In p (preds' x) -> In p (preds x) \/ (p = q /\ In x nodes)) /\ preds' q = [] \/
      (forall p x, In p (preds' x) -> In p (preds x) \/ (x = q /\ In p nodes)) /\ (forall x, ~ In q (preds' x))) ->
     ((exists c, is_cycle preds c) <-> (exists c, is_cycle preds' c))).
Proof. split; [exact subdivision_keeps_cycles | exact leaf_keeps_cycles]. Qed.
Print Assumptions C22_cycles_preserved.

Theorem C22_compile_agreement : forall (T : optable) (g g' : graph) (e0 e1 e2 : edge) (u v m : N),
  simple g -> simple g' ->
  In e0 (g_edges g) /\ e_src e0 = u /\ e_dst e0 = v /\ is_tick T g e0 = false ->
  e_src e1 = u /\ e_dst e1 = m -> e_src e2 = m /\ e_dst e2 = v ->
  (forall e, In e (g_edges g') <-> (In e (g_edges g) /\ e <> e0) \/ e = e1 \/ e = e2) ->
  ~ In m (node_ids g) ->
  (forall e, In e (g_edges g) -> In (e_src e) (node_ids g) /\ In (e_dst e) (node_ids g)) ->
  (forall id, id <> m -> node_of g' id = node_of g id) ->
  is_tick T g' e1 = false ->
  deps_closed_b T g = true -> access_conflict g = false -> enemy_self_pair T g = false ->
  deps_closed_b T g' = true -> access_conflict g' = false -> enemy_self_pair T g' = false ->
  ((exists c, partition_verdict T g = Rejected c) <-> (exists c, partition_verdict T g' = Rejected c)).
Proof. exact splice_keeps_verdict. Qed.
Print Assumptions C22_compile_agreement.

Example C22_example :
  run_op (op_union 2) [[[VN 1; VN 2]; []]; [[VN 3]; []]] = [[[VN 1; VN 2]]; [[VN 3]]].
Proof. vm_compute. reflexivity. Qed.
