(* C41 Every well-typed Hydro flow compiles to a valid dataflow.

   FULL STATEMENT (properties.jsonl): any Hydro program that type-checks and completes all of
   its forward references and tick cycles is turned by the code generator into dataflow graphs
   that partition without same-tick cycles and compile, for every location.
   On the model (HydroB/Model.v: `emit_flow` = HydroRoot/HydroNode::emit_core with the
   production builder + FlatGraphBuilder's variable resolution, `partition_accepts` = the
   partitioner's acceptance criterion on graphs without references and loops) this reads
       forall f, well_typed f -> exists g, emit_flow T rk f = Some g /\ partition_accepts g
   and it is FALSE of the faithful model and of the code: the typed API does not restrict
   `Location::forward_ref` to asynchronous cycles (C41_refuted_sync_forward_ref, a documented
   panic), and the emitter has `todo!()` branches reachable from well-typed programs
   (C41_refuted_unimplemented).  What is proved instead, for all flows of the modelled IR
   fragment and all rankings of the cycle ids:
     - C41_guarded_accepted_partial: if the synchronous dependencies between cycle ids are
       acyclic (witnessed by a ranking rk: `guarded`), the emitted graph is accepted;
     - C41_tick_cycles_accepted_partial: flows whose cycles all come from Tick::cycle (every
       CycleSource directly under a DeferTick) are always accepted;
     - C41_emitter_arities_partial: every operator the emitter writes is in the operator
       table regenerated from /repo and is given a number of inputs within its hard range.
     - C41_emitted_in_arities_partial: every node of every emitted graph has an in-degree
       within its operator's hard input range.
     - C41_emitted_arities: in-degree AND out-degree of every node of every emitted graph are
       within the operator's hard ranges (ident linearity of the emitter).
   Missing for the full statement: a typing judgement of the Rust API (what rustc accepts); "rustc
   compiles the generated code" (sampled by building harness/h_hydro_b). *)
From Coq Require Import List String NArith Bool.
From HV Require Import HydroB.Model HydroB.GenOps HydroB.PEmit HydroB.PArity HydroB.POut HydroB.XPartition HydroB.PC41.
From HV Require Gen.OpsTable Partition.Model.
Import ListNotations.
Open Scope N_scope.

Theorem C41_guarded_accepted_partial : forall (f : flow) (rk : N -> N) (g : graph),
  guarded rk f = true -> emit_flow GenOps.ops_table rk f = Some g -> partition_accepts g.
Proof. intros f rk g. exact (emit_accepted GenOps.ops_table rk table_sane_gen f g). Qed.
Print Assumptions C41_guarded_accepted_partial.

(* the same with "accepted" meaning the verdict of engine Partition's executable model of
   dfir_lang's partitioner (find_edge_barriers, access groups, all_preds, SubgraphMerge::new;
   tied to the code by C19's own check) on the emitted graph, with Partition's own regenerated
   operator table: proved from Partition's theorem C19_acyclic_accepted *)
Theorem C41_guarded_accepted_by_partitioner_model : forall (rk : N -> N) (f : flow) (g : graph),
  guarded rk f = true -> emit_flow GenOps.ops_table rk f = Some g ->
  Partition.Model.partition_verdict Gen.OpsTable.ops_table (to_pgraph g) = Partition.Model.Accepted.
Proof. exact guarded_accepted_by_partition_model. Qed.
Print Assumptions C41_guarded_accepted_by_partitioner_model.

Theorem C41_tick_cycles_accepted_partial : forall (f : flow) (rk : N -> N) (g : graph),
  flow_deferred_only f = true -> emit_flow GenOps.ops_table rk f = Some g -> partition_accepts g.
Proof.
  intros f rk g H. exact (emit_accepted GenOps.ops_table rk table_sane_gen f g (deferred_only_guarded rk f H)).
Qed.
Print Assumptions C41_tick_cycles_accepted_partial.

Theorem C41_emitter_arities_partial :
  (forall s m, chain_takes GenOps.ops_table (src_ops s m) 0 = true) /\
  (forall u m, chain_takes GenOps.ops_table (un_ops u m) 1 = true) /\
  (forall b ml mr, chain_takes GenOps.ops_table (fst (bin_ops b ml mr)) 2 = true) /\
  (forall k, op_takes GenOps.ops_table (sink_op k) 1 = true).
Proof. exact frag_arity_all. Qed.
Print Assumptions C41_emitter_arities_partial.

(* every node of every emitted graph (any flow of the fragment the emitter does not panic on)
   has an in-degree inside its operator's hard input range in the regenerated table *)
Theorem C41_emitted_in_arities_partial : forall (rk : N -> N) (f : flow) (g : graph),
  emit_flow GenOps.ops_table rk f = Some g ->
  forall x, In x (g_nodes g) ->
    op_takes GenOps.ops_table (n_op x) (indeg (g_edges g) (n_id x)) = true.
Proof. exact emit_in_arities_gen. Qed.
Print Assumptions C41_emitted_in_arities_partial.

(* the arity theorem, complete: for every flow of the fragment the emitter does not panic on
   and every node of the emitted graph, in-degree and out-degree are inside the operator's hard
   ranges in the regenerated table (the cycle `identity` operators' out-degree = number of uses
   of the cycle variable, which the Rust API's ownership keeps at 1) *)
Theorem C41_emitted_arities : forall (rk : N -> N) (f : flow) (g : graph),
  emit_flow GenOps.ops_table rk f = Some g ->
  forall x, In x (g_nodes g) ->
    exists r, find_row GenOps.ops_table (n_op x) = Some r /\
      in_range (r_inn r) (indeg (g_edges g) (n_id x)) = true /\
      (n_op x <> "identity"%string -> in_range (r_out r) (outdeg (g_edges g) (n_id x)) = true).
Proof. exact emit_arities_complete. Qed.
Print Assumptions C41_emitted_arities.

(* a forward reference completed with a collection that depends on it synchronously:
   no ranking guards it and the emitted graph has a same-tick cycle *)
Theorem C41_refuted_sync_forward_ref :
  (forall rk, guarded rk w_sync_cycle = false) /\
  exists g, emit_flow GenOps.ops_table (fun _ => 0) w_sync_cycle = Some g /\ ~ partition_accepts g.
Proof. split; [exact w_sync_not_guarded | exact w_sync_rejected]. Qed.
Print Assumptions C41_refuted_sync_forward_ref.

(* a keyed fold over a bounded top-level keyed stream: the emitter panics (todo!) *)
Theorem C41_refuted_unimplemented : forall rk, emit_flow GenOps.ops_table rk w_keyed_fold = None.
Proof. exact w_keyed_fold_panics. Qed.
Print Assumptions C41_refuted_unimplemented.

(* non-vacuity: the tick-cycle corpus flow satisfies the hypotheses and emits a graph *)
Example C41_hypotheses_satisfiable : flow_deferred_only w_tick_cycle = true /\
  exists g, emit_flow GenOps.ops_table (fun _ => 0) w_tick_cycle = Some g /\ g_edges g <> [].
Proof. exact w_tick_cycle_ok. Qed.
