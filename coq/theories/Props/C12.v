(* C12 Push combinators deliver the right items and honour the push protocol.
   Only the property theorems: each is closed by an exact of a lemma proved under
   theories/Push and followed by Print Assumptions.

   Reading guide.  [drive p fuel items s0 []] is the caller protocol (per item: poll_ready
   until Done, start_send; then poll_finalize until Done; one unit of fuel per poll) run on
   combinator [p] whose downstreams are scripted recorders with ARBITRARY Done/Pend scripts
   [rs0]/[fs0] for poll_ready / poll_finalize.  [down_spec ref items o l] says of the
   downstream's call log [l]: the strict push protocol holds ([wf]: start_send only directly
   after a poll_ready that answered Done, no start_send once poll_finalize was called, no call
   after poll_finalize answered Done), the items sent are a prefix of [ref] of a prefix of the
   input at any time (nothing invented, reordered or duplicated), and if the driver finished
   the items sent are exactly [ref items] and the downstream was finalized. *)
From Coq Require Import List NArith Bool.
From HV Require Import Push.Model Push.PBase Push.POne Push.PTwo Push.PFlatMap Push.PMore Push.PTwoOnce Push.PDemux Push.Run Push.Model2 Push.PCompose Push.PCompose2 Push.PCompose3.
Import ListNotations.

Theorem C12_map : forall A B (f : A -> B) fuel items rs0 fs0,
    match drive (map_push (rec_push B) f) fuel items (mkds rs0 fs0 []) [] with
    | (o, _, s') => o <> Panicked /\ down_spec (map f) items o (lg s')
    end.
Proof. exact map_correct. Qed.
Print Assumptions C12_map.

Theorem C12_map_terminates : forall A B (f : A -> B) fuel items rs0 fs0,
    npend rs0 + npend fs0 + length items < fuel ->
    fst (fst (drive (map_push (rec_push B) f) fuel items (mkds rs0 fs0 []) [])) = Finished.
Proof. exact map_terminates. Qed.
Print Assumptions C12_map_terminates.

Theorem C12_filter : forall A (q : A -> bool) fuel items rs0 fs0,
    match drive (filter_push (rec_push A) q) fuel items (mkds rs0 fs0 []) [] with
    | (o, _, s') => o <> Panicked /\ down_spec (filter q) items o (lg s')
    end.
Proof. exact filter_correct. Qed.
Print Assumptions C12_filter.

Theorem C12_filter_terminates : forall A (q : A -> bool) fuel items rs0 fs0,
    npend rs0 + npend fs0 + length items < fuel ->
    fst (fst (drive (filter_push (rec_push A) q) fuel items (mkds rs0 fs0 []) [])) = Finished.
Proof. exact filter_terminates. Qed.
Print Assumptions C12_filter_terminates.

Theorem C12_filter_map : forall A B (g : A -> option B) fuel items rs0 fs0,
    match drive (filter_map_push (rec_push B) g) fuel items (mkds rs0 fs0 []) [] with
    | (o, _, s') => o <> Panicked /\ down_spec (fm_ref g) items o (lg s')
    end.
Proof. exact filter_map_correct. Qed.
Print Assumptions C12_filter_map.

Theorem C12_filter_map_terminates : forall A B (g : A -> option B) fuel items rs0 fs0,
    npend rs0 + npend fs0 + length items < fuel ->
    fst (fst (drive (filter_map_push (rec_push B) g) fuel items (mkds rs0 fs0 []) [])) = Finished.
Proof. exact filter_map_terminates. Qed.
Print Assumptions C12_filter_map_terminates.

(* flat_map.rs / flatten.rs: the iterator item buffered across a Pending answer
   (FlatMap.buffer) is neither lost nor duplicated: delivered = flat_map g items. *)
Theorem C12_flat_map : forall A B (g : A -> list B) fuel items rs0 fs0,
    match drive (flat_map_push (rec_push B) g) fuel items (None, mkds rs0 fs0 []) [] with
    | (o, _, s') => o <> Panicked /\ down_spec (flat_map g) items o (lg (snd s'))
    end.
Proof. exact (@flat_map_correct). Qed.
Print Assumptions C12_flat_map.

Theorem C12_flatten : forall B fuel (items : list (list B)) rs0 fs0,
    match drive (flatten_push (rec_push B)) fuel items (None, mkds rs0 fs0 []) [] with
    | (o, _, s') => o <> Panicked /\ down_spec (flat_map (fun l : list B => l)) items o (lg (snd s'))
    end.
Proof. exact flatten_correct. Qed.
Print Assumptions C12_flatten.

Theorem C12_flat_map_terminates : forall A B (g : A -> list B) fuel items rs0 fs0,
    npend rs0 + npend fs0 + length items < fuel ->
    fst (fst (drive (flat_map_push (rec_push B) g) fuel items (None, mkds rs0 fs0 []) [])) = Finished.
Proof. exact (@flat_map_terminates). Qed.
Print Assumptions C12_flat_map_terminates.

Theorem C12_flatten_terminates : forall B fuel (items : list (list B)) rs0 fs0,
    npend rs0 + npend fs0 + length items < fuel ->
    fst (fst (drive (flatten_push (rec_push B)) fuel items (None, mkds rs0 fs0 []) [])) = Finished.
Proof. exact flatten_terminates. Qed.
Print Assumptions C12_flatten_terminates.

(* inspect.rs: items pass through unchanged, and the closure saw exactly the items sent on *)
Theorem C12_inspect : forall A fuel (items : list A) rs0 fs0,
    match drive (inspect_push (rec_push A)) fuel items ([], mkds rs0 fs0 []) [] with
    | (o, _, s') => o <> Panicked /\ down_spec (fun xs => xs) items o (lg (snd s')) /\
                    rev (fst s') = sent (lg (snd s'))
    end.
Proof. exact (@inspect_correct). Qed.
Print Assumptions C12_inspect.

(* Two / many downstreams: fanout.rs, unzip.rs, demux_var.rs (/repo de9fd2170a9).
   History: before that commit poll_finalize used ready_both! and polled a downstream again
   after it had answered Done (finding multi-downstream/poll_finalize-after-Done, now `fixed:`
   in known_findings.d/C12.txt).  The former theorems C12_{unzip,fanout,demux}_partial (weak
   protocol only) and C12_{fanout,unzip,demux}_strict_refuted were about the pre-fix step
   functions; those functions and their lemmas survive in Push/Historic.v, Push/PTwo.v
   (fanout_strict_refuted, unzip_strict_refuted) and Push/PDemux.v section DemuxOld, for the
   record only.  Former witnesses (they now satisfy the strict protocol, see the Examples at
   the end and corpus/C12/fanout_refinalize.json):
     fanout / unzip: items [], downstream 0 scripts ([],[]), downstream 1 scripts ([],[Pend])
                     => downstream 0 saw poll_finalize twice ([EFin Done; EFin Done]);
     demux (2 downstreams): items [], scripts [([],[]); ([],[Pend])], same effect. *)

(* FULL statement: strict protocol toward both downstreams, each finalized exactly once. *)
Theorem C12_unzip_fixed : forall A B fuel (items : list (A * B)) r0 f0 r1 f1,
    match drive (unzip_push (rec_push A) (rec_push B)) fuel items
                ((false, false), (mkds r0 f0 [], mkds r1 f1 [])) [] with
    | (o, _, s') => o <> Panicked /\
                    down_spec (map fst) items o (lg (fst (snd s'))) /\
                    down_spec (map snd) items o (lg (snd (snd s')))
    end.
Proof. exact unzip_once_correct. Qed.
Print Assumptions C12_unzip_fixed.

Theorem C12_fanout_fixed : forall A fuel (items : list A) r0 f0 r1 f1,
    match drive (fanout_push (rec_push A) (rec_push A)) fuel items
                ((false, false), (mkds r0 f0 [], mkds r1 f1 [])) [] with
    | (o, _, s') => o <> Panicked /\
                    down_spec (fun xs => xs) items o (lg (fst (snd s'))) /\
                    down_spec (fun xs => xs) items o (lg (snd (snd s')))
    end.
Proof. exact fanout_once_correct. Qed.
Print Assumptions C12_fanout_fixed.

Theorem C12_fanout_fixed_terminates : forall A fuel (items : list A) r0 f0 r1 f1,
    npend r0 + npend f0 + npend r1 + npend f1 + length items < fuel ->
    fst (fst (drive (fanout_push (rec_push A) (rec_push A)) fuel items
                    ((false, false), (mkds r0 f0 [], mkds r1 f1 [])) [])) = Finished.
Proof. exact fanout_once_terminates. Qed.
Print Assumptions C12_fanout_fixed_terminates.

Theorem C12_unzip_fixed_terminates : forall A B fuel (items : list (A * B)) r0 f0 r1 f1,
    npend r0 + npend f0 + npend r1 + npend f1 + length items < fuel ->
    fst (fst (drive (unzip_push (rec_push A) (rec_push B)) fuel items
                    ((false, false), (mkds r0 f0 [], mkds r1 f1 [])) [])) = Finished.
Proof. exact unzip_once_terminates. Qed.
Print Assumptions C12_unzip_fixed_terminates.

(* demux_var.rs over any number of downstreams.  Items must address an existing downstream
   ([in_range]; otherwise the code panics: PushVariadic for ()).  [downs_spec k items o l]:
   downstream number k+i (i-th of l) satisfies [down_spec (demux_ref (k+i))]: it receives exactly
   the items addressed to it, in order. *)
Theorem C12_demux_fixed : forall A fuel (items : list (nat * A)) (scripts : list (list bool * list bool)),
    Forall (in_range (length scripts)) items ->
    match drive (demux_push (rec_push A)) fuel items ([], map (@ds0 A) scripts) [] with
    | (o, _, s') => o <> Panicked /\ length (snd s') = length scripts /\ downs_spec 0 items o (snd s')
    end.
Proof. exact (@demux_once_correct). Qed.
Print Assumptions C12_demux_fixed.


Theorem C12_demux_fixed_terminates : forall A fuel (items : list (nat * A)) (scripts : list (list bool * list bool)),
    Forall (in_range (length scripts)) items ->
    mu_l (map (@ds0 A) scripts) + length items < fuel ->
    fst (fst (drive (demux_push (rec_push A)) fuel items ([], map (@ds0 A) scripts) [])) = Finished.
Proof. exact (@demux_once_terminates). Qed.
Print Assumptions C12_demux_fixed_terminates.

(* COMPOSITION (Push/PCompose.v, PCompose2.v).  [respects p Inv]: every operation of push [p]
   preserves the invariant family [Inv] provided p's caller respects the protocol (poll_ready
   while running, start_send only right after poll_ready = Done, then only poll_finalize).
   Stages are operators on such pairs, with the reference function composed, over ANY
   protocol-respecting downstream -- hence in any pipeline: a pipeline of protocol-respecting
   stages respects the protocol.  The scripted recorder is the base case. *)
Theorem C12_compose_base : forall B, respects (rec_push B) (@RecInv B).
Proof. exact (@rec_respects). Qed.
Print Assumptions C12_compose_base.

Theorem C12_compose_forwarding : forall A B (p : push B) Inv (g : A -> option B),
    respects p Inv -> respects (filter_map_push p g) (@SLInv _ _ p Inv g).
Proof. exact filter_map_stage. Qed.
Print Assumptions C12_compose_forwarding.

Theorem C12_compose_map : forall A B (p : push B) Inv (f : A -> B),
    respects p Inv -> respects (map_push p f) (@SLInv _ _ p Inv (fun a => Some (f a))).
Proof. exact map_stage. Qed.
Print Assumptions C12_compose_map.

Theorem C12_compose_filter : forall A (p : push A) Inv (q : A -> bool),
    respects p Inv -> respects (filter_push p q) (@SLInv _ _ p Inv (fun a => if q a then Some a else None)).
Proof. exact filter_stage. Qed.
Print Assumptions C12_compose_filter.

Theorem C12_compose_flat_map : forall A B (p : push B) Inv (g : A -> list B),
    respects p Inv -> respects (flat_map_push p g) (@FMSInv _ _ p Inv g).
Proof. intros A B p Inv g H. exact (fms_respects g H). Qed.
Print Assumptions C12_compose_flat_map.

Theorem C12_compose_flatten : forall B (p : push B) Inv,
    respects p Inv -> respects (flatten_push p) (@FMSInv _ _ p Inv (fun l : list B => l)).
Proof. exact flatten_stage. Qed.
Print Assumptions C12_compose_flatten.

(* accumulate.rs covers fold / reduce / sort-state (accum_state.rs) *)
Theorem C12_stage_accumulate : forall A B S (accf : S -> A -> S) (outf : S -> list B) st0 (p : push B) Inv,
    respects p Inv -> respects (accumulate_push accf outf p) (@AccInv _ _ _ accf outf st0 p Inv).
Proof. intros. exact (acc_respects accf outf st0 H). Qed.
Print Assumptions C12_stage_accumulate.

Theorem C12_stage_sort : forall (p : push N) Inv, respects p Inv -> respects (sort_push p) (@SortInv p Inv).
Proof. exact (@sort_respects). Qed.
Print Assumptions C12_stage_sort.

(* fold_keyed.rs / reduce_keyed.rs; [ord] is the HashMap iteration-order oracle *)
Theorem C12_stage_keyed : forall V Acc (upd : V -> option Acc -> Acc) (ord : list N) (p : push (N * Acc)) Inv,
    respects p Inv -> respects (keyed_push p upd ord) (@KInv _ _ upd ord p Inv).
Proof. intros. exact (keyed_respects upd ord H). Qed.
Print Assumptions C12_stage_keyed.

Theorem C12_stage_persist : forall B (pre0 rest0 : list B) (p : push B) Inv,
    respects p Inv -> respects (persist_push p) (@PInv _ pre0 rest0 p Inv).
Proof. intros. exact (persist_respects pre0 rest0 H). Qed.
Print Assumptions C12_stage_persist.

(* resolve_futures.rs (as of /repo 5464049ec0b), BOTH modes: w = false blocking, w = true with a
   subgraph waker (futures still pending when finalization begins stay queued: [RInv]'s
   finalizing / finished clauses say delivered ++ queued = outputs in send order, and with
   w = false the queue is empty); scripted future-readiness queue *)
Theorem C12_stage_resolve : forall B (w : bool) (p : push B) Inv,
    respects p Inv -> respects (resolve_push p w) (@RInv _ w p Inv).
Proof. intros B w p Inv H. exact (resolve_respects w H). Qed.
Print Assumptions C12_stage_resolve.

Theorem C12_stage_fanout : forall A (p0 : push A) Inv0 (p1 : push A) Inv1,
    respects p0 Inv0 -> respects p1 Inv1 ->
    respects (fanout_push p0 p1) (@TwoInv _ _ _ (fun a : A => (a, a)) p0 Inv0 p1 Inv1).
Proof. exact (@fanout_stage). Qed.
Print Assumptions C12_stage_fanout.

Theorem C12_stage_unzip : forall A B (p0 : push A) Inv0 (p1 : push B) Inv1,
    respects p0 Inv0 -> respects p1 Inv1 ->
    respects (unzip_push p0 p1) (@TwoInv _ _ _ (fun c : A * B => c) p0 Inv0 p1 Inv1).
Proof. exact (@unzip_stage). Qed.
Print Assumptions C12_stage_unzip.

(* inspect.rs: the closure saw exactly the accepted items, in order *)
Theorem C12_stage_inspect : forall A (p : push A) Inv,
    respects p Inv -> respects (inspect_push p) (@InspInv _ p Inv).
Proof. exact (@inspect_respects). Qed.
Print Assumptions C12_stage_inspect.

(* demux_var.rs over n copies of ANY protocol-respecting downstream.  Items must address an
   existing downstream ([in_range n]; otherwise the code panics).  [DL k ph fl l] gives every
   downstream number k+i its own invariant at the reference [demux_ref (k+i) items]. *)
Theorem C12_stage_demux : forall A (nx : push A) Inv, respects nx Inv ->
    forall n fuel items (l0 : list (St nx)),
      length l0 = n -> DL nx Inv 0 (Run [] false) [] l0 -> Forall (in_range n) items ->
      match drive (demux_push nx) fuel items ([], l0) [] with
      | (Finished, _, s') => DInv nx Inv n (Fini items) s'
      | (OutOfFuel, _, s') => exists ph rest, DInv nx Inv n ph s' /\ ph_items ph ++ rest = items /\ (forall ys, ph <> Fini ys)
      | (Panicked, _, _) => False
      end.
Proof. intros A nx Inv H. exact (demux_stage_drive H). Qed.
Print Assumptions C12_stage_demux.

(* for_each.rs (and vec_push.rs, same shape): terminal base case *)
Theorem C12_stage_for_each : forall A, respects (for_each_push A) (@FEInv A).
Proof. exact (@for_each_respects). Qed.
Print Assumptions C12_stage_for_each.

(* recorder-facing corollaries obtained by composition; the correspondence check runs the same
   pipelines on the real code *)
Theorem C12_accumulate : forall A B S (accf : S -> A -> S) (outf : S -> list B) st0 fuel items rs0 fs0,
    match drive (accumulate_push accf outf (rec_push B)) fuel items (@Accumulating B S st0, mkds rs0 fs0 []) [] with
    | (o, _, s') =>
      o <> Panicked /\
      (o = Finished -> wf (lg (snd s')) = true /\ findone (lg (snd s')) = true /\
                       sent (lg (snd s')) = outf (fold_left accf items st0))
    end.
Proof. exact (@accumulate_correct). Qed.
Print Assumptions C12_accumulate.

Theorem C12_pipeline_map_flatmap_filter :
  forall A B C (f : A -> B) (g : B -> list C) (q : C -> bool) fuel items rs0 fs0,
    match drive (map_push (flat_map_push (filter_push (rec_push C) q) g) f) fuel items
                (None, mkds rs0 fs0 []) [] with
    | (o, _, s') =>
      o <> Panicked /\
      (o = Finished ->
       wf (lg (snd s')) = true /\ findone (lg (snd s')) = true /\
       sent (lg (snd s')) = filter q (flat_map g (map f items)))
    end.
Proof. exact pipe_map_flatmap_filter_correct. Qed.
Print Assumptions C12_pipeline_map_flatmap_filter.

Theorem C12_pipeline_filter_fanout_fold :
  forall A B (q : A -> bool) (f : A -> B) (comb : A -> A -> A) init fuel items ra fa rb fb,
    match drive (filter_push (fanout_push (map_push (rec_push B) f)
                                          (accumulate_push comb (@fold_outf A) (rec_push A))) q)
                fuel items ((false, false), (mkds ra fa [], (@Accumulating A A init, mkds rb fb []))) [] with
    | (o, _, s') =>
      o <> Panicked /\
      (o = Finished ->
       let l0 := lg (fst (snd s')) in let l1 := lg (snd (snd (snd s'))) in
       wf l0 = true /\ findone l0 = true /\ sent l0 = map f (filter q items) /\
       wf l1 = true /\ findone l1 = true /\ sent l1 = [fold_left comb (filter q items) init])
    end.
Proof. exact (@pipe_filter_fanout_fold_correct). Qed.
Print Assumptions C12_pipeline_filter_fanout_fold.

(* HISTORY of two fixed findings (known_findings.d/C12.txt, `fixed:` lines).
   - resolve_futures/start_send-after-poll_finalize-began (/repo 5464049ec0b): the former theorem
     C12_resolve_waker_refuted was about the pre-fix step function, kept as
     Model2.resolve_old_push with PCompose2.resolve_old_waker_refuted.  Former witness: waker,
     one future (9, pending twice), ready script [Done; Pend], finalize script [Pend].
   - pipeline/flat_map-over-fanout/poll_ready-after-finalize-Done (/repo cca62d2de0e): former
     theorem C12_compose_flat_map_over_fanout_refuted, now PCompose.flat_map_old_over_fanout_refuted
     about Historic.flat_map_old_push.  Former witness: flat_map (x -> [x; x+10]) over
     fanout(A, B), items [1], B's finalize script [Pend].
   Both witnesses are corpus cases and satisfy the strict protocol on the code as it is now: *)
Example C12_resolve_former_witness :
  match drive (resolve_push (rec_push N) true) 20 [(9%N, 2)] (false, ([], mkds [true; false] [false] [])) [] with
  | (o, _, s') => o = Finished /\ wf (lg (snd (snd s'))) = true /\ sent (lg (snd (snd s'))) = [] /\
                  map fst (fst (snd s')) = [9%N]
  end.
Proof. exact resolve_waker_witness_now. Qed.

Example C12_flat_map_over_fanout_former_witness :
  match drive (flat_map_push (fanout_push (rec_push N) (rec_push N)) (fun x : N => [x; (x + 10)%N])) 20 [1%N]
              (None, ((false, false), (mkds [] [] [], mkds [] [false] []))) [] with
  | (o, _, s') => o = Finished /\ wf (lg (fst (snd (snd s')))) = true /\ wf (lg (snd (snd (snd s')))) = true /\
                  lg (fst (snd (snd s'))) = [EFin true; ERdy true; ESend 11%N; ERdy true; ESend 1%N; ERdy true; ERdy true]
  end.
Proof. exact flat_map_over_fanout_witness_now. Qed.

(* non-vacuity: a run with Pend answers in both scripts that finishes and delivers items *)
Example C12_map_example :
  drive (map_push (rec_push N) (N.add 1)) 10 [1; 2]%N (mkds [false; true; false] [false] []) [] =
  (Finished,
   [DFin true; DFin false; DSend; DRdy true; DRdy false; DSend; DRdy true; DRdy false],
   mkds [] [] [EFin true; EFin false; ESend 3; ERdy true; ERdy false; ESend 2; ERdy true; ERdy false]%N).
Proof. vm_compute. reflexivity. Qed.

Example C12_unzip_example :
  match drive (unzip_push (rec_push N) (rec_push N)) 10 [(1, 2); (3, 4)]%N
              ((false, false), (mkds [false] [] [], mkds [true; false] [false] [])) [] with
  | (o, _, s') => o = Finished /\ sent (lg (fst (snd s'))) = [1; 3]%N /\ sent (lg (snd (snd s'))) = [2; 4]%N
  end.
Proof. vm_compute. auto. Qed.

Example C12_flat_map_example :
  match drive (flat_map_push (rec_push N) (fun x => [x; x + 10]%N)) 20 [1; 2]%N
              (None, mkds [true; false; false; true; false] [false] []) [] with
  | (o, _, s') => o = Finished /\ sent (lg (snd s')) = [1; 11; 2; 12]%N
  end.
Proof. vm_compute. auto. Qed.

(* the former witness of the fixed finding: downstream 0 is now finalized exactly once *)
Example C12_fanout_former_witness :
  match drive (fanout_push (rec_push N) (rec_push N)) 10 []
              ((false, false), (mkds [] [] [], mkds [] [false] [])) [] with
  | (o, _, s') => o = Finished /\ lg (fst (snd s')) = [EFin true] /\ wf (lg (snd (snd s'))) = true
  end.
Proof. vm_compute. auto. Qed.
