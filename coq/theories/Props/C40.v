(* C40 Replicated log examples never diverge (Raft part).
   Only the property theorems; each is closed by a lemma proved under Proto/ and followed by
   Print Assumptions.

   The property itself (State Machine Safety) is `C40_raft_sms_stmt` (Proto/RaftNet.v):

     forall g1 g2, reachable n g1 -> gsteps n g1 g2 ->
     forall a b, a < n -> b < n -> sms_pair (g_st g1 a) (g_st g2 b)

   i.e. for every execution of the asynchronous fail-stop network over the transcribed
   `raft_step`, no two members ever hold different entries at the same committed position.
   It is proved in full: `C40_raft_sms_all` (end of the Raft part).  The theorems before it are
   the intermediate results (election safety, log matching, ..., Leader Completeness).       *)
From HV Require Import Proto.RaftNet Proto.PRaftLocal Proto.PRaftElection Proto.PRaftRefine Proto.PRaftLeader
  Proto.PRaftWf Proto.PRaftLog Proto.PRaftLogRefine Proto.PRaftSms Proto.PRaftLogTerms Proto.PRaftExamples
  Proto.PRaftLC Proto.PRaftLC2 Proto.PRaftLC3 Proto.PRaftLC4 Proto.PRaftLC5.
From HV Require Proto.PaxosModel Proto.PPaxos Proto.PaxosCheck Proto.PPaxosRecommit Proto.PPaxosAcceptor Proto.PPaxosProposer.

Definition C40_raft_sms (n : N) : Prop := C40_raft_sms_stmt n.

(* current term is monotone per member, in every execution *)
Theorem C40_raft_term_monotone : forall n g1 g2, gsteps n g1 g2 ->
  forall m, term (g_st g1 m) <= term (g_st g2 m).
Proof. intros n g1 g2 H m. exact (proj1 (gsteps_mono n g1 g2 H m)). Qed.
Print Assumptions C40_raft_term_monotone.

(* voted_for changes at most once per term: once Some c in a term, it stays Some c in that term *)
Theorem C40_raft_vote_once_per_term : forall n g1 g2, gsteps n g1 g2 ->
  forall m c, term (g_st g1 m) = term (g_st g2 m) ->
  voted_for (g_st g1 m) = Some c -> voted_for (g_st g2 m) = Some c.
Proof. intros n g1 g2 H m c E. exact (proj1 (proj2 (gsteps_mono n g1 g2 H m)) E c). Qed.
Print Assumptions C40_raft_vote_once_per_term.

(* commit index is monotone per member *)
Theorem C40_raft_commit_monotone : forall n g1 g2, gsteps n g1 g2 ->
  forall m, commit (g_st g1 m) <= commit (g_st g2 m).
Proof. intros n g1 g2 H m. exact (proj2 (proj2 (gsteps_mono n g1 g2 H m))). Qed.
Print Assumptions C40_raft_commit_monotone.

(* Election Safety: at most one leader per term, across all moments of every execution
   (quorum intersection over the votes ever cast) *)
Theorem C40_raft_election_safety : forall n g1 g2, reachable n g1 -> gsteps n g1 g2 ->
  forall a b t, a < n -> b < n -> leader_in (g_st g1 a) t -> leader_in (g_st g2 b) t -> a = b.
Proof. exact election_safety. Qed.
Print Assumptions C40_raft_election_safety.

(* Leader Append-Only: while a member stays leader of a term its log only grows by appending *)
Theorem C40_raft_leader_append_only : forall n g1 g2, gsteps n g1 g2 ->
  forall m t, leader_in (g_st g1 m) t -> term (g_st g2 m) = t ->
  rrole (g_st g2 m) = Leader /\ exists e, log (g_st g2 m) = log (g_st g1 m) ++ e.
Proof. exact leader_append_only. Qed.
Print Assumptions C40_raft_leader_append_only.

(* non-vacuity: a reachable state of the 3-member network with an elected leader and an entry
   committed on two members *)
Example C40_nonvacuous : exists g, reachable 3 g /\
  leader_in (g_st g 0) 1 /\ committed_prefix (g_st g 0) = [ex_entry] /\
  committed_prefix (g_st g 1) = [ex_entry] /\ term (g_st g 2) = 0.
Proof. exact ex_run. Qed.

(* C40_raft_sms_partial (round 1): the easy components of State Machine Safety, for every
   execution of the network (any delay / reordering / duplication / loss, fail-stop crashes) over
   the transcribed raft_step.  The full property is C40_raft_sms_all further down; this theorem is
   kept because the full proof uses its parts.  The safety predicates are also evaluated on every
   simulated cluster run of the real raft_step by the correspondence check (executable forms
   `log_matching_b`, `sms_pair_b`). *)
Theorem C40_raft_sms_partial : forall n g1 g2, reachable n g1 -> gsteps n g1 g2 ->
  (forall m, term (g_st g1 m) <= term (g_st g2 m)) /\
  (forall m c, term (g_st g1 m) = term (g_st g2 m) ->
               voted_for (g_st g1 m) = Some c -> voted_for (g_st g2 m) = Some c) /\
  (forall m, commit (g_st g1 m) <= commit (g_st g2 m)) /\
  (forall a b t, a < n -> b < n -> leader_in (g_st g1 a) t -> leader_in (g_st g2 b) t -> a = b) /\
  (forall m t, leader_in (g_st g1 m) t -> term (g_st g2 m) = t ->
               rrole (g_st g2 m) = Leader /\ exists e, log (g_st g2 m) = log (g_st g1 m) ++ e).
Proof.
  intros n g1 g2 R S. repeat split.
  - exact (C40_raft_term_monotone n g1 g2 S).
  - exact (C40_raft_vote_once_per_term n g1 g2 S).
  - exact (C40_raft_commit_monotone n g1 g2 S).
  - exact (C40_raft_election_safety n g1 g2 R S).
  - exact (proj1 (C40_raft_leader_append_only n g1 g2 S m t H H0)).
  - exact (proj2 (C40_raft_leader_append_only n g1 g2 S m t H H0)).
Qed.
Print Assumptions C40_raft_sms_partial.

(* every log carries the indexes 1,2,3,..; commit index <= log length; emitted <= commit *)
Theorem C40_raft_log_wf : forall n g, reachable n g -> forall m,
  log_wf (log (g_st g m)) = true /\ commit (g_st g m) <= len (log (g_st g m)) /\
  emitted (g_st g m) <= commit (g_st g m).
Proof. exact reachable_wf. Qed.
Print Assumptions C40_raft_log_wf.

(* State Machine Safety on the diagonal (a = b of C40_raft_sms): the entries a member has
   committed never change afterwards *)
Theorem C40_raft_committed_prefix_stable : forall n g1 g2, reachable n g1 -> gsteps n g1 g2 ->
  forall a, sms_pair (g_st g1 a) (g_st g2 a).
Proof. exact committed_prefix_stable. Qed.
Print Assumptions C40_raft_committed_prefix_stable.

(* the leader's commit rule: counting replicas advances the commit index only to an entry of the
   leader's current term that a majority acknowledged *)
Theorem C40_raft_leader_commit_rule : forall others maj s,
  commit (do_commit others maj s) <> commit s ->
  rrole s = Leader /\ commit s < commit (do_commit others maj s) /\
  exists e, nth_error (log s) (N.to_nat (commit (do_commit others maj s)) - 1) = Some e /\
            e_term e = term s /\
            maj <= acks others (match_index s) (commit (do_commit others maj s)).
Proof. exact leader_commit_rule. Qed.
Print Assumptions C40_raft_leader_commit_rule.

(* Log Matching: in every reachable state, if two logs hold entries of the same term at the same
   position then the logs are identical up to and including that position *)
Theorem C40_raft_log_matching : forall n g, reachable n g -> forall a b, a < n -> b < n ->
  forall k e1 e2, nth_error (log (g_st g a)) k = Some e1 -> nth_error (log (g_st g b)) k = Some e2 ->
  e_term e1 = e_term e2 -> firstn (S k) (log (g_st g a)) = firstn (S k) (log (g_st g b)).
Proof. exact log_matching. Qed.
Print Assumptions C40_raft_log_matching.

(* A first reduction (round 2): State Machine Safety follows from `LCstar` (the leader log of
   EVERY elected term >= the term of a member's last committed entry contains that member's
   committed prefix).  The implication is proved, but `LCstar` is stronger than what Raft
   guarantees (an old-term entry can become committed only transitively, in a later term; leaders
   of the terms in between need not have it), so it is not used for the final result; the
   route actually taken is `C40_raft_leader_completeness` + `C40_raft_commit_sound` below. *)
Theorem C40_raft_sms_from_leader_completeness : forall n,
  (forall y, leffs n y_init y -> LCstar y) -> C40_raft_sms n.
Proof. exact sms_from_lc. Qed.
Print Assumptions C40_raft_sms_from_leader_completeness.

(* the election restriction: a vote is granted only to a candidate whose last log position
   (term first, then index) is at least the voter's own *)
Theorem C40_raft_vote_restriction : forall others maj s from t lli llt s' o to r,
  handle_msg others maj s from (RV t lli llt) = Some (s', o) -> In (to, r) o ->
  pair_ge (llt, lli) (last_log_position s) = true /\ to = from /\ r = RVR (term s') /\ voted_for s' = Some from.
Proof. exact vote_restriction. Qed.
Print Assumptions C40_raft_vote_restriction.

(* log terms are non-decreasing along every log and never exceed the member's current term
   (a step towards Leader Completeness) *)
Theorem C40_raft_log_terms_monotone : forall n g, reachable n g -> forall a,
  (forall i j ei ej, (i <= j)%nat -> nth_error (log (g_st g a)) i = Some ei ->
                     nth_error (log (g_st g a)) j = Some ej -> e_term ei <= e_term ej) /\
  (forall i e, nth_error (log (g_st g a)) i = Some e -> e_term e <= term (g_st g a)).
Proof. exact log_terms_monotone. Qed.
Print Assumptions C40_raft_log_terms_monotone.

(* ------------------------------------------------------------------ Leader Completeness, SMS *)
(* The ghost-instrumented system (Proto/PRaftLog.v, `leff`) keeps, next to the member states, every
   message ever sent, every vote ever cast, the elected (term, member) pairs and the leader log
   `y_gl t` of every term.  Read from that monotone history (Proto/PRaftLC.v):
     holds y q t c     : q is the leader of term t, or acknowledged index >= c to it;
     committed n y t c : entry c of the term-t leader log is of term t, and a majority holds c;
     pfx c X Y         : X and Y agree on their first c entries. *)

(* Leader Completeness from the vote invariant: strong induction over the terms of elected
   leaders + quorum intersection *)
Theorem C40_raft_lc_from_vote_invariant : forall n y, VInv n y ->
  forall t c, committed n y t c -> forall t' c', t < t' -> In (t', c') (x_elected (y_x y)) ->
  pfx c (y_gl y t') (y_gl y t).
Proof. exact LC_from_V. Qed.
Print Assumptions C40_raft_lc_from_vote_invariant.

(* the ten invariants (log/ghost consistency LInv, sorted and bounded terms LInv2, bookkeeping of
   acknowledgements and vote requests KInv, persistence of acknowledged prefixes ZInv, membership
   NInv, what a vote reply / a candidate's votes / an elected leader's quorum guarantee V4, V3,
   VInvS, commit soundness CSs, commit indices in messages AEc) are preserved by every step *)
Theorem C40_raft_invariants_step : forall n y y', leff n y y' -> Big n y -> Big n y'.
Proof. exact leff_Big. Qed.
Print Assumptions C40_raft_invariants_step.

(* ... and every reachable network state is simulated by a ghost state satisfying all of them *)
Theorem C40_raft_invariants_reachable : forall n g, reachable n g ->
  exists y, leffs n y_init y /\ sim g (y_x y) /\ Big n y.
Proof.
  intros n g R. destruct (gsteps_lsim n g_init g y_init R) as (y & E & S); [split; auto|].
  exists y. split; auto. split; auto. apply leffs_Big; auto.
Qed.
Print Assumptions C40_raft_invariants_reachable.

(* Leader Completeness: what was committed in term t is in the log of every later leader *)
Theorem C40_raft_leader_completeness : forall n y, leffs n y_init y ->
  forall t c, committed n y t c -> forall t' c', t < t' -> In (t', c') (x_elected (y_x y)) ->
  pfx c (y_gl y t') (y_gl y t).
Proof. exact leader_completeness. Qed.
Print Assumptions C40_raft_leader_completeness.

(* commit soundness: every member's commit index is covered by a committed pair (t, c), and the
   member's committed prefix is a prefix of the term-t leader log *)
Theorem C40_raft_commit_sound : forall n y, leffs n y_init y ->
  forall a, 0 < commit (x_st (y_x y) a) ->
  exists t c, committed n y t c /\ (N.to_nat (commit (x_st (y_x y) a)) <= c)%nat /\
              pfx (N.to_nat (commit (x_st (y_x y) a))) (log (x_st (y_x y) a)) (y_gl y t).
Proof. exact commit_sound. Qed.
Print Assumptions C40_raft_commit_sound.

(* State Machine Safety, in full: every cluster size, every execution (any delay / reordering /
   duplication / loss of messages, fail-stop crashes, any timer firings and client requests), any
   two members at any two moments.  Non-vacuity: C40_nonvacuous above (a reachable state where two
   members have the same non-empty committed prefix). *)
Theorem C40_raft_sms_all : forall n, C40_raft_sms n.
Proof. exact raft_sms. Qed.
Print Assumptions C40_raft_sms_all.

(* ------------------------------------------------------------------ Paxos *)
(* abstract multi-Paxos (ballots, p1a/p1b/p2a/p2b; Proto/PaxosModel.v): at most one value is ever
   chosen per slot, for every execution (any message delay/reordering/duplication/loss; any
   quorum of p1b promises may be used by a leader, with the highest-ballot rule per slot) *)
Theorem C40_paxos_safety : forall n p1 p2, PaxosModel.preachable n p1 -> PaxosModel.psteps n p1 p2 ->
  forall s v1 v2, PaxosModel.chosen n p1 s v1 -> PaxosModel.chosen n p2 s v2 -> v1 = v2.
Proof. exact PPaxos.paxos_safety. Qed.
Print Assumptions C40_paxos_safety.

Example C40_paxos_nonvacuous : exists p, PaxosModel.preachable 3 p /\ PaxosModel.chosen 3 p 0 7.
Proof. exact PPaxos.paxos_nonvacuous. Qed.

(* the new leader's p2a choice as modelled from hydro_test's `recommit_after_leader_election`
   (PaxosCheck.px_recommit; compared with the real function on every run) obeys, for EVERY set of
   p1b logs, the choice rule the abstract system demands of P2a (`pick_ok`, here in its
   executable form over (num, proposer) ballots): own ballot; free choice only for a slot no log
   mentions, otherwise the value of a maximal-ballot entry *)
Theorem C40_paxos_recommit_obeys_pick : forall f bal logs o, In o (PaxosCheck.px_recommit f bal logs) ->
  snd (fst o) = bal /\ PaxosCheck.pick_ok_b logs (fst (fst o)) (snd o) = true.
Proof. exact PPaxosRecommit.px_recommit_obeys_pick. Qed.
Print Assumptions C40_paxos_recommit_obeys_pick.

(* ------------------------------------------------------------------ Paxos: the transcribed program *)
(* FINDING (refuted on the faithful model, replayed on the real proposer node on every run):
   the proposer's sequencing as wired by paxos_core (PaxosCheck.seq_run: recommit + index_payloads
   with the election quorum's logs visible in every tick) proposes two different values for the same
   (ballot, slot) -- the abstract system's P2a freshness (invariant i2) does not hold of the program.
   Witness: quorum logs {0 -> ((3,1),7)} twice, ballot (4,0), payload 100 in one tick and 102 in
   the next: both get slot 1. *)
Theorem C40_paxos_slot_reuse_refuted :
  exists f bal logs ticks, PaxosCheck.one_value_per_slot (PaxosCheck.seq_run f bal logs 0 ticks) = false.
Proof.
  exists 1, (4, 0), [(None, [(0, (3, 1), Some 7)]); (None, [(0, (3, 1), Some 7)])], [[]; [100]; [102]].
  vm_compute. reflexivity.
Qed.
Print Assumptions C40_paxos_slot_reuse_refuted.

(* The ACCEPTOR node of paxos_core (PaxosCheck.acc_tick: acceptor_p1 + acceptor_p2 as wired, one step
   per tick; compared with the real node -- paxos_core compiled for the acceptor location -- on scripted
   per-tick message batches on every run) refines the abstract system proved safe above: a tick on
   any batches of p1a / p2a messages that were really sent is a sequence of abstract P1b / P2b steps
   of that acceptor, every Ok p1b reply is an abstract p1b message and every Ok p2b reply an abstract
   vote afterwards.  (For this the abstract P1b had to be generalised: the Hydro acceptor's log is
   not "its votes below b" but any list of sent proposals covering its votes -- PaxosModel.report_ok --
   and it stores proposals above its promise without promising; C40_paxos_safety is proved for the
   generalised system.)  Not modelled: checkpoints (log truncation). *)
Theorem C40_paxos_acceptor_refines : forall n a p st p1as p2as st' o1 o2,
  a < n -> PPaxosAcceptor.R p a st ->
  (forall b, In b p1as -> In (PPaxosAcceptor.enc b) (PaxosModel.m1a p) /\ PPaxosAcceptor.bwf b) ->
  (forall sd b s v, In (sd, b, s, v) p2as ->
     In (PPaxosAcceptor.enc b, s, PPaxosAcceptor.encv v) (PaxosModel.m2a p) /\ PPaxosAcceptor.bwf b) ->
  PaxosCheck.acc_tick st p1as p2as = (st', o1, o2) ->
  exists p', PaxosModel.psteps n p p' /\ PPaxosAcceptor.R p' a st' /\ PPaxosAcceptor.frame a p p' /\
    (forall to b lg, In (to, b, inl lg) o1 -> In (a, PPaxosAcceptor.enc b, PPaxosAcceptor.enc_log lg) (PaxosModel.m1b p')) /\
    (forall to s b, In (to, s, b, None) o2 -> exists v, In (a, s, PPaxosAcceptor.enc b, v) (PaxosModel.votes p')).
Proof. exact PPaxosAcceptor.acc_tick_refines. Qed.
Print Assumptions C40_paxos_acceptor_refines.

Example C40_paxos_acceptor_nonvacuous : PPaxosAcceptor.R PaxosModel.p_init 0 PaxosCheck.acc_init.
Proof. apply PPaxosAcceptor.R_init. Qed.

(* The proposer's sequencing WITH THE PROPOSED REPAIR (fixes/C40_paxos_reconcile_p1bs_once.diff: the p1b
   logs are reconciled only in the tick where leadership is gained; model PaxosCheck.seq_fixed_run, which
   agreed with the patched proposer node in a private worktree on the generated cases) refines the
   abstract system: from a state holding a quorum of p1b messages for the leader's ballot and no p2a of
   that ballot yet, every p2a the leader emits over any number of ticks and payload batches is
   produced by abstract P2a steps (fresh (ballot, slot), value by the choice rule) -- so with
   C40_paxos_acceptor_refines the chosen-value safety of the abstract system carries over.  The
   shipped rule does not have this property (C40_paxos_slot_reuse_refuted).  Preconditions that the
   theorem does not discharge: one reconciliation per ballot (no p2a of the ballot before), and the
   logs are those of the p1b quorum (p1b quorum collection itself is not modelled). *)
Theorem C40_paxos_proposer_refines_if_reconciled_once : forall n f bal alogs ticks p,
  PPaxosProposer.lwfp (map snd alogs) -> PaxosModel.quorum n (map fst alogs) ->
  (forall a l, In (a, l) alogs -> In (a, PPaxosAcceptor.enc bal, PPaxosProposer.enc_plog l) (PaxosModel.m1b p)) ->
  (forall s w, ~ In (PPaxosAcceptor.enc bal, s, w) (PaxosModel.m2a p)) ->
  exists p', PaxosModel.psteps n p p' /\
    (forall s v, In (s, v) (concat (PaxosCheck.seq_fixed_run f bal (map snd alogs) true 0 ticks)) ->
                 In (PPaxosAcceptor.enc bal, s, PPaxosAcceptor.encv v) (PaxosModel.m2a p')) /\
    (forall x, In x (PaxosModel.m2a p) -> In x (PaxosModel.m2a p')) /\
    PaxosModel.maxBal p' = PaxosModel.maxBal p /\ PaxosModel.votes p' = PaxosModel.votes p /\
    PaxosModel.m1a p' = PaxosModel.m1a p /\ PaxosModel.m1b p' = PaxosModel.m1b p.
Proof. exact PPaxosProposer.proposer_fixed_refines. Qed.
Print Assumptions C40_paxos_proposer_refines_if_reconciled_once.

(* FINDING (refuted on the faithful model of the leader decision, PaxosCheck.e_step, which is compared
   with the real proposer node on every run): the p1b quorum counts Ok REPLIES, not acceptors -- two
   Ok p1b replies of acceptor 0 for ballot (4,0) make the proposer (f = 1) leader. *)
Theorem C40_paxos_leader_by_one_acceptor_refuted :
  exists pre ticks,
    let st0 := fold_left (fun st (t : list PaxosCheck.ballot * list PaxosCheck.p1bin) =>
                            fst (fst (PaxosCheck.e_step 1 0 st (fst t) (snd t)))) pre PaxosCheck.e_init in
    let model := PaxosCheck.e_run 1 0 st0 (map (fun t => (fst t, map snd (snd t))) ticks) in
    PaxosCheck.elect_obl 1 []
      (map (fun p => (flat_map (fun (r : N * PaxosCheck.p1bin) =>
                                  match snd (snd r) with None => [(fst r, fst (snd r))] | Some _ => [] end) (snd (fst p)),
                      fst (snd p), snd (snd p))) (combine ticks model)) = false.
Proof.
  exists [([(3, 1)], [])], [([], [(0, ((4, 0), None))]); ([], [(0, ((4, 0), None))])].
  vm_compute. reflexivity.
Qed.
Print Assumptions C40_paxos_leader_by_one_acceptor_refuted.
