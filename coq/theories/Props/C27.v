(* C27 A running dataflow never misses an external wake-up.
   Only the property theorems (closed by `exact` of lemmas of Chan/PWake.v).
   Model: Chan/ModelWake.v -- the runner's atomic actions in Dfir::run / run_available /
   run_tick and the two halves (store, notify) of WakeState::wake_by_ref; ANY number of external
   wakes, landing between any two runner steps, the two halves of a wake interleaved arbitrarily
   with the runner.  PARTIAL with respect to the code: steps are sequentially consistent
   (Ordering::Relaxed reorderings not modelled), AtomicWaker::register/wake are atomic steps,
   the tick body does not suspend, tokio is "a woken task is polled again". *)
From Coq Require Import List Arith Bool NArith Lia.
From HV Require Import Chan.ModelWake Chan.ModelWakeChk Chan.PWake.
From HV Require Chan.ModelWake2 Chan.ModelWake2Chk Chan.PWake2a Chan.PWake2.
Import ListNotations.

(* Inv1: in every reachable state, if data arrived (store) and no tick has started since, the
   runner is not parked-and-unwoken with no notification on its way. *)
Theorem C27_never_missed : forall s, wreach s -> owed s = true -> stuck s = false.
Proof. exact never_missed. Qed.
Print Assumptions C27_never_missed.

(* ... more precisely the runner can take a step, or the pending notification can, after which
   the runner can *)
Theorem C27_owed_enabled : forall s, wreach s -> owed s = true ->
  runner_enabled s = true \/
  (0 < mid s /\ forall s' t, wstep s WNotify = Some (s', t) -> runner_enabled s' = true).
Proof. intros s R. apply owed_enabled. apply wreach_good. exact R. Qed.
Print Assumptions C27_owed_enabled.

(* Progress: from every reachable state that owes a tick, every execution fragment (any
   interleaving with further external stores / notifies) that contains 7 runner steps contains
   the start of a tick.  With C27_owed_enabled: every maximal execution that is fair to the
   runner and to the waker that is between its store and its notify starts a later tick. *)
Theorem C27_progress : forall s tr sf t, wreach s -> owed s = true ->
  wrun s tr = Some (sf, t) -> 7 <= count_runner tr -> t = true.
Proof.
  intros s tr sf t R O W C. pose proof (wreach_good s R) as G.
  eapply progress; [exact G|exact O|exact W|]. pose proof (rank_bound s G O). lia.
Qed.
Print Assumptions C27_progress.

(* The order of the two halves of wake_by_ref is essential and is part of the model (WNotify is
   only enabled after the waker's WStore).  For the opposite order -- task_waker.wake() before
   can_start_tick.store(true) -- Inv1 is false: a reachable deadlock with an owed tick. *)
Theorem C27_notify_first_refuted :
  exists s, wreach_nf s /\ owed s = true /\ stuck s = true /\ flag s = true /\
            runner_enabled s = false /\ mid s = 0.
Proof. exact notify_first_refuted. Qed.
Print Assumptions C27_notify_first_refuted.

(* ================================================================== the wider model
   Chan/ModelWake2.v: the same runner together with the bookkeeping that surrounds the wake path
   in this tree: the external event queue (items queued in a source + the WakeState waker
   registered with it by source_stream's drain-until-Pending inside the tick body; a producer's
   push enqueues and, if registered, takes the waker and runs wake_by_ref), raw external wakers,
   and defer_tick (schedule_subgraph(true) by the runner at the end of a tick body that leaves
   deferred data).  `pending s` = items are queued, or a raw wake was issued, or deferred data
   waits -- and no tick has started since.  Any number of producers / wakers, all interleavings. *)
Module W2.
Import Chan.ModelWake2 Chan.PWake2a Chan.PWake2.

(* safety half: pending input is never stranded (parked, unwoken, no half of a wake pending) *)
Theorem pending_never_stuck : forall s, reach2 s -> pending s = true -> stuck2 s = false.
Proof. exact never_missed2. Qed.

(* pending input => the flag is set / the runner is on the straight path to a tick start
   (`armed`), or a wake_by_ref is in progress whose store is still to come *)
Theorem pending_armed_or_store : forall s, reach2 s -> pending s = true ->
  armed s = true \/ 0 < pre s.
Proof. intros s R. apply pending_armed_or_store. apply reach2_good. exact R. Qed.

(* armed => the runner can take a step, or the pending notification can and then the runner can *)
Theorem armed_enabled : forall s, reach2 s -> armed s = true ->
  runner_enabled s = true \/
  (0 < mid s /\ forall s' e, step2 s WNotify = Some (s', e) -> runner_enabled s' = true).
Proof. intros s R. apply armed_enabled. apply reach2_good. exact R. Qed.

(* LIVENESS HALF, with an explicit bound.  From every reachable armed state (by the two theorems
   above: from every reachable state with pending input, after at most the one store step of the
   wake_by_ref in progress), every execution fragment -- any interleaving with producers and
   wakers -- that contains rank2 s <= 7 runner steps contains a tick start, and the first such
   tick consumes at least everything that was queued in s.  Fairness assumption: the runner task
   is polled after it is woken (runner steps are taken while `runner_enabled`; C27_armed_enabled
   shows the runner is enabled, or becomes so by the notify of the wake in progress). *)
Theorem liveness_bound : forall s tr sf t, reach2 s -> armed s = true ->
  run2 s tr = Some (sf, t) -> 7 <= count_runner2 tr ->
  exists k, t = Some k /\ q s <= k.
Proof.
  intros s tr sf t R A Rn C. eapply progress2; [exact A|apply le_n|exact Rn|].
  pose proof (rank2_bound s A). Lia.lia.
Qed.

(* non-vacuity: a reachable state with a queued item, the runner parked, the wake in progress;
   seven more runner steps (after the notify) start the tick that consumes the item *)
Example liveness_example :
  exists s, reach2 s /\ pending s = true /\ armed s = true /\ p2 s = Parked /\ q s = 1 /\
    run2 s [WNotify; Runner; Runner; Runner; Runner; Runner; Runner] <> None /\
    option_map snd (run2 s [WNotify; Runner; Runner; Runner; Runner; Runner; Runner]) = Some (Some 1).
Proof.
  assert (R : forall tr s sf t, reach2 s -> run2 s tr = Some (sf, t) -> reach2 sf).
  { induction tr as [|l tr IH]; intros s sf t Rs W; cbn in W.
    - inversion W; subst. exact Rs.
    - destruct (step2 s l) as [[s1 e]|] eqn:St; [|discriminate].
      destruct (run2 s1 tr) as [[sf' t2]|] eqn:W2; [|discriminate]. inversion W; subst.
      eapply IH; [eapply r2_step; eassumption|exact W2]. }
  destruct (run2 init2 [Runner; Runner; Runner; Runner; Runner; Runner; Runner; Runner; Push; WStore])
    as [[s t]|] eqn:E; [|vm_compute in E; discriminate].
  exists s. split; [eapply R; [apply r2_init|exact E]|].
  vm_compute in E. injection E as Es Et. subst s. repeat split; try reflexivity; discriminate.
Qed.
End W2.
(* the same statements at top level (fully qualified names of the wider model) *)
Theorem C27_pending_never_stuck : forall s,
  ModelWake2.reach2 s -> ModelWake2.pending s = true -> ModelWake2.stuck2 s = false.
Proof. exact W2.pending_never_stuck. Qed.
Print Assumptions C27_pending_never_stuck.

Theorem C27_pending_armed_or_store : forall s,
  ModelWake2.reach2 s -> ModelWake2.pending s = true ->
  ModelWake2.armed s = true \/ 0 < ModelWake2.pre s.
Proof. exact W2.pending_armed_or_store. Qed.
Print Assumptions C27_pending_armed_or_store.

Theorem C27_armed_enabled : forall s,
  ModelWake2.reach2 s -> ModelWake2.armed s = true ->
  ModelWake2.runner_enabled s = true \/
  (0 < ModelWake2.mid s /\
   forall s' e, ModelWake2.step2 s ModelWake2.WNotify = Some (s', e) -> ModelWake2.runner_enabled s' = true).
Proof. exact W2.armed_enabled. Qed.
Print Assumptions C27_armed_enabled.

Theorem C27_liveness_bound : forall s tr sf t,
  ModelWake2.reach2 s -> ModelWake2.armed s = true ->
  ModelWake2.run2 s tr = Some (sf, t) -> 7 <= ModelWake2.count_runner2 tr ->
  exists k, t = Some k /\ ModelWake2.q s <= k.
Proof. exact W2.liveness_bound. Qed.
Print Assumptions C27_liveness_bound.

(* ------------------------------------------------------------------ non-vacuity / windows *)

(* a reachable state that owes a tick while the runner is parked (the notification is pending) *)
Example C27_owed_parked_reachable :
  exists s, wreach s /\ owed s = true /\ w_pc s = Parked /\ woken s = false /\ mid s = 1.
Proof.
  assert (R : forall tr s sf t, wreach s -> wrun s tr = Some (sf, t) -> wreach sf).
  { induction tr as [|l tr IH]; intros s sf t Rs W; cbn in W.
    - inversion W; subst. exact Rs.
    - destruct (wstep s l) as [[s1 t1]|] eqn:St; [|discriminate].
      destruct (wrun s1 tr) as [[sf' t2]|] eqn:W2; [|discriminate]. inversion W; subst.
      eapply IH; [eapply wr_step; eassumption|exact W2]. }
  destruct (wrun winit [Runner; Runner; Runner; Runner; Runner; Runner; Runner; WStore])
    as [[s t]|] eqn:E; [|vm_compute in E; discriminate].
  exists s. split; [eapply R; [apply wr_init|exact E]|].
  vm_compute in E. injection E as Es Et. subst s. cbn. auto.
Qed.

(* a wake landing in each window (before/after the swap of run_tick, during the tick, between
   the last swap of run_available and the registration, between registration and the re-check
   load, just before / after parking) is followed by a tick; likewise every pair of wakes at
   the first or second visit of any two points.  (wake = store immediately followed by notify;
   the theorems above also cover the two halves being separated.) *)
Example C27_windows_single :
  forallb (fun p => C27_holds_b 1 (wsim_run [(p, 0)])) [0; 1; 2; 3; 4; 6; 7; 8; 9] = true /\
  (* point 5 (yield_now) is only reached after an earlier wake *)
  C27_holds_b 2 (wsim_run [(4, 0); (5, 0)]) = true.
Proof. split; vm_compute; reflexivity. Qed.

Example C27_windows_pairs :
  forallb (fun p => forallb (fun q => forallb (fun o1 => forallb (fun o2 =>
     (* a wake whose point is never reached does not fire (bit 8); every wake that fires is
        followed by a tick (bit 4) and the run ends parked (bit 16) *)
     N.eqb (N.land (C27_fail_mask 2 (wsim_run [(p, o1); (q, o2)])) 20) 0) [0; 1]) [0; 1]) (seq 0 10)) (seq 0 10) = true.
Proof. vm_compute. reflexivity. Qed.

(* the executable form rejects a log in which the wake is not followed by a tick *)
Example C27_holds_b_rejects :
  C27_holds_b 1 [EPoint 0; EPoint 1; EPoint 2; ETick; EPoint 3; EPoint 4; EWake 0; EPoint 6;
                 EPoint 7; EPoint 8; EPark] = false.
Proof. vm_compute. reflexivity. Qed.
