(* C35 Messages survive serialization and reach the addressed member.
   Only the property theorems, each closed by a lemma proved under Codec/.  The theorems are about
   the MODEL of the bincode 1.x wire format / serde data model, of the MemberId wrappers and of
   sinktools::demux_map (Codec/Model.v); serde and bincode themselves are modelled, not verified. *)
From HV Require Import Codec.Model Codec.PRoundtrip Codec.PBackpressure.

(* every value of every (nested) payload type is reconstructed exactly, whatever follows it in
   the byte stream *)
Theorem C35_roundtrip : forall t v bs rest,
  encode t v = Some bs -> decode t (bs ++ rest) = Some (v, rest).
Proof. exact roundtrip. Qed.
Print Assumptions C35_roundtrip.

Theorem C35_prefix_free : forall t v1 v2 b1 b2 r1 r2,
  encode t v1 = Some b1 -> encode t v2 = Some b2 -> b1 ++ r1 = b2 ++ r2 -> v1 = v2 /\ b1 = b2 /\ r1 = r2.
Proof. exact prefix_free. Qed.
Print Assumptions C35_prefix_free.

Theorem C35_frames_do_not_bleed : forall t vs bs rest,
  encode_all t vs = Some bs -> decode_n t (length vs) (bs ++ rest) = Some (vs, rest).
Proof. exact frames_do_not_bleed. Qed.
Print Assumptions C35_frames_do_not_bleed.

(* member ids round-trip through their untyped form unchanged (both directions) *)
Theorem C35_tagless_roundtrip :
  (forall m, from_tagless (into_tagless m) = m) /\ (forall t, into_tagless (from_tagless t) = t).
Proof. split; [exact tagless_roundtrip|exact tagless_roundtrip']. Qed.
Print Assumptions C35_tagless_roundtrip.

(* demux_map: each queue receives exactly the items addressed to its key, in order *)
Theorem C35_demux_routing : forall (K I : Type) (keqb : K -> K -> bool),
  (forall a b, keqb a b = true <-> a = b) ->
  forall items (s s' : sinks K I), send_all keqb s items = Some s' ->
  forall k, queue_of keqb s' k = option_map (fun q => q ++ addressed_to keqb k items) (queue_of keqb s k).
Proof. exact send_all_queues. Qed.
Print Assumptions C35_demux_routing.

(* the whole cluster-addressed path: what member d receives from `sender` is exactly the payloads
   addressed to d, exactly reconstructed, each carrying the sender's member id, in order *)
Theorem C35_delivery : forall t sender chans items d,
  (forall it, In it items -> encode t (snd it) <> None) ->
  (forall it, In it items -> In (into_tagless (fst it)) chans) ->
  In d chans ->
  deliver t sender chans items d =
  Some (map (fun it => (sender, snd it))
            (filter (fun it => tagless_eqb d (into_tagless (fst it))) items)).
Proof. exact deliver_exact. Qed.
Print Assumptions C35_delivery.

(* demux_map readiness: Ready exactly when EVERY member sink answered Ready in that poll *)
Theorem C35_demux_ready_all : forall d,
  snd (demux_poll d) = true <-> forall km, In km d -> snd (ms_poll (snd km)) = true.
Proof. exact demux_ready_all. Qed.
Print Assumptions C35_demux_ready_all.

(* delivery under back-pressure: for every readiness script of every member (one-slot mailboxes), a
   sender that follows the Sink contract (poll_ready until Ready, then start_send) delivers every
   message to exactly the addressed member, once, in order; nothing is overwritten or lost *)
Theorem C35_delivery_under_backpressure : forall items f d,
  Forall (fun km => (length (ms_script (snd km)) <= f)%nat) d ->
  (forall it, In it items -> d_get d (fst it) <> None) ->
  exists d', bp_run (S f) d items = Some d' /\
    forall k s, d_get d k = Some s ->
      exists s', d_get d' k = Some s' /\
                 ms_got s' = content s ++ addressed_to N.eqb k items /\
                 ms_lost s' = ms_lost s /\ ms_slot s' = None.
Proof. exact bp_delivery. Qed.
Print Assumptions C35_delivery_under_backpressure.

Example C35_nonvacuous_backpressure :
  option_map (map (fun km => (fst km, ms_got (snd km), ms_lost (snd km))))
    (bp_run 5 [(1, mkMS [false; true] None [] 0); (2, mkMS [true; false; false] None [] 0)]
            [(1, 7); (1, 8); (2, 9)])
  = Some [(1, [7; 8], 0); (2, [9], 0)].
Proof. reflexivity. Qed.

(* non-vacuity: a nested value that encodes (so the hypotheses are satisfiable), and a delivery *)
Example C35_nonvacuous_encode :
  encode (Tup [U32; Opt (Vec Str); Enum [Tup []; I64]])
         (VTup [VN 258; VSome (VVec [VS [104; 105]]); VEnum 1 (VZ (-2)%Z)])
  = Some [2;1;0;0; 1; 1;0;0;0;0;0;0;0; 2;0;0;0;0;0;0;0; 104;105; 1;0;0;0; 254;255;255;255;255;255;255;255].
Proof. reflexivity. Qed.

Example C35_nonvacuous_delivery :
  deliver U8 (from_raw_id 0) [Legacy 1; Legacy 2]
          [(from_raw_id 2, VN 7); (from_raw_id 1, VN 8); (from_raw_id 2, VN 9)] (Legacy 2)
  = Some [(from_raw_id 0, VN 7); (from_raw_id 0, VN 9)].
Proof. reflexivity. Qed.
