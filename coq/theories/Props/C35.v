(* C35 Messages survive serialization and reach the addressed member.
   Only the property theorems, each closed by a lemma proved under Codec/.  The theorems are about
   the MODEL of the bincode 1.x wire format / serde data model, of the MemberId wrappers and of
   sinktools::demux_map (Codec/Model.v); serde and bincode themselves are modelled, not verified. *)
From HV Require Import Codec.Model Codec.PRoundtrip.

(* every value of every (nested) payload type is reconstructed exactly, whatever follows it in
   the byte stream *)
Theorem C35_roundtrip : forall t v bs rest,
  encode t v = Some bs -> decode t (bs ++ rest) = Some (v, rest).
Proof. exact roundtrip. Qed.
Print Assumptions C35_roundtrip.

Theorem C35_prefix_free : forall t v1 v2 b1 b2 r1 r2,
  encode t v1 = Some b1 -> encode t v2 = Some b2 -> b1 ++ r1 = b2 ++ r2 -> v1 = v2 /\ b1 = b2 /\ r1 = r2.
Proof. exact prefix_free. Qed.
Print Assumptions C35_prefix_free.

Theorem C35_frames_do_not_bleed : forall t vs bs rest,
  encode_all t vs = Some bs -> decode_n t (length vs) (bs ++ rest) = Some (vs, rest).
Proof. exact frames_do_not_bleed. Qed.
Print Assumptions C35_frames_do_not_bleed.

(* member ids round-trip through their untyped form unchanged (both directions) *)
Theorem C35_tagless_roundtrip :
  (forall m, from_tagless (into_tagless m) = m) /\ (forall t, into_tagless (from_tagless t) = t).
Proof. split; [exact tagless_roundtrip|exact tagless_roundtrip']. Qed.
Print Assumptions C35_tagless_roundtrip.

(* demux_map: each queue receives exactly the items addressed to its key, in order *)
Theorem C35_demux_routing : forall (K I : Type) (keqb : K -> K -> bool),
  (forall a b, keqb a b = true <-> a = b) ->
  forall items (s s' : sinks K I), send_all keqb s items = Some s' ->
  forall k, queue_of keqb s' k = option_map (fun q => q ++ addressed_to keqb k items) (queue_of keqb s k).
Proof. exact send_all_queues. Qed.
Print Assumptions C35_demux_routing.

(* the whole cluster-addressed path: what member d receives from `sender` is exactly the payloads
   addressed to d, exactly reconstructed, each carrying the sender's member id, in order *)
Theorem C35_delivery : forall t sender chans items d,
  (forall it, In it items -> encode t (snd it) <> None) ->
  (forall it, In it items -> In (into_tagless (fst it)) chans) ->
  In d chans ->
  deliver t sender chans items d =
  Some (map (fun it => (sender, snd it))
            (filter (fun it => tagless_eqb d (into_tagless (fst it))) items)).
Proof. exact deliver_exact. Qed.
Print Assumptions C35_delivery.

(* non-vacuity: a nested value that encodes (so the hypotheses are satisfiable), and a delivery *)
Example C35_nonvacuous_encode :
  encode (Tup [U32; Opt (Vec Str); Enum [Tup []; I64]])
         (VTup [VN 258; VSome (VVec [VS [104; 105]]); VEnum 1 (VZ (-2)%Z)])
  = Some [2;1;0;0; 1; 1;0;0;0;0;0;0;0; 2;0;0;0;0;0;0;0; 104;105; 1;0;0;0; 254;255;255;255;255;255;255;255].
Proof. reflexivity. Qed.

Example C35_nonvacuous_delivery :
  deliver U8 (from_raw_id 0) [Legacy 1; Legacy 2]
          [(from_raw_id 2, VN 7); (from_raw_id 1, VN 8); (from_raw_id 2, VN 9)] (Legacy 2)
  = Some [(from_raw_id 0, VN 7); (from_raw_id 0, VN 9)].
Proof. reflexivity. Qed.
