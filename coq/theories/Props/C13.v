(* C13 Symmetric hash join emits exactly the join of everything that arrived.
   This file contains only the property theorems; each is closed by an exact/apply of a
   lemma proved in Pull/PJoin*.v and followed by Print Assumptions.

   Model: Pull/ModelJoin.v (HalfSetJoinState / HalfMultisetJoinState build / probe / pop_match,
   SymmetricHashJoin::pull, drain, NewTickJoinIter, the operator over ticks).  Scripts of
   Rdy (k, v) / Pend / End answers of any length; inputs are FusedPull (fused scripts).
     C13_incremental            emitted = join (built s lhs arrivals) (built s rhs arrivals)
                                (built = first occurrences for set state, all for multiset)
     C13_incremental_persisted  same on top of pre-built (persisted) tables
     C13_set_each_pair_once     set state: the output is duplicate-free
     C13_terminates / C13_fuel_enough   the consumer loop ends; the model's loop fuel suffices
     C13_poll_invariant / C13_run_invariant   emitted + pending = join(built lhs, built rhs)
     C13_new_tick*              both NewTickJoinIter branches enumerate the join of the tables
     C13_new_tick_same_as_incremental
     C13_ticks                  per tick, with 'tick / 'static persistence per side, the output is
                                the join of everything that arrived within the persisted scope *)
From Coq Require Import Permutation.
From HV Require Import Pull.Model Pull.PCore Pull.ModelJoin Pull.PJoin Pull.PJoin2 Pull.CorrJoin Pull.PJoin3 Pull.PSound Pull.PJoin4.
Open Scope N_scope.

(* every poll of SymmetricHashJoin preserves the invariant, whatever the scripts answer *)
Theorem C13_poll_invariant : forall s st o st', wf st -> shj_pull s st = (o, st') ->
  wf st' /\ Permutation (emit o ++ pend st' ++ JS st) (pend st ++ JS st').
Proof. exact shj_pull_inv. Qed.
Print Assumptions C13_poll_invariant.

Theorem C13_run_invariant : forall s st out st', runs_to (shj_m s) st out st' -> wf st ->
  wf st' /\ Permutation (out ++ pend st' ++ JS st) (pend st ++ JS st').
Proof. exact shj_runs_inv. Qed.
Print Assumptions C13_run_invariant.

Theorem C13_nothing_pending_at_end : forall s st out st',
  runs_to (shj_m s) st out st' -> pend st' = [].
Proof. exact shj_runs_ended. Qed.
Print Assumptions C13_nothing_pending_at_end.

(* st = (lhs_state, rhs_state, lhs script, rhs script); JS = join of the two tables' rows *)
Theorem C13_emits_join_of_tables : forall s st out st',
  wf st -> pend st = [] -> runs_to (shj_m s) st out st' ->
  Permutation (out ++ JS st) (JS st').
Proof. exact shj_emits_join. Qed.
Print Assumptions C13_emits_join_of_tables.

Theorem C13_new_tick : forall s h1 h2 l1 l2, keys_ok (table h1) -> keys_ok (table h2) ->
  let '(h1', h2', out) := new_tick s h1 h2 l1 l2 in Permutation out (J h1' h2').
Proof. exact new_tick_emits_join. Qed.
Print Assumptions C13_new_tick.

Theorem C13_new_tick_lhs_smaller : forall h1 h2, keys_ok (table h2) -> new_tick_lhs h1 h2 = J h1 h2.
Proof. exact new_tick_lhs_join. Qed.
Print Assumptions C13_new_tick_lhs_smaller.

Theorem C13_new_tick_rhs_smaller : forall h1 h2, keys_ok (table h1) ->
  Permutation (new_tick_rhs h1 h2) (J h1 h2).
Proof. exact new_tick_rhs_join. Qed.
Print Assumptions C13_new_tick_rhs_smaller.

Theorem C13_build : forall s h k v h' b, build s h k v = (h', b) -> keys_ok (table h) ->
  cm h' = cm h /\ keys_ok (table h') /\
  (if b then Permutation (rows (table h')) (rows (table h) ++ [(k, v)]) /\ hlen h' = hlen h + 1
   else h' = h).
Proof. exact build_spec. Qed.
Print Assumptions C13_build.

Theorem C13_drain_multiset : forall l h,
  Permutation (rows (table (drain MultiSem h l))) (rows (table h) ++ items l).
Proof. exact drain_multi_rows. Qed.
Print Assumptions C13_drain_multiset.

(* ---- the property, in full ---- *)

(* from empty states: every completed run over fused scripts emits exactly the join of what
   arrived (deduplicated per side for set state, with multiplicity for multiset state) *)
Theorem C13_incremental : forall s l1 l2 out st',
  fused_b l1 = true -> fused_b l2 = true ->
  runs_to (shj_m s) (half0, half0, l1, l2) out st' ->
  Permutation out (join_rows (built s (items l1)) (built s (items l2))).
Proof. exact shj_from_empty. Qed.
Print Assumptions C13_incremental.

(* on top of persisted tables: emitted + what the old tables had already produced = join of
   (old rows + new arrivals) on both sides; ev1 / ev2 = built_from s (rows table) (items script) *)
Theorem C13_incremental_persisted : forall s st out st',
  wf st -> pend st = [] -> fusedst st -> runs_to (shj_m s) st out st' ->
  Permutation (out ++ JS st) (join_rows (ev1 s st) (ev2 s st)).
Proof. exact shj_emits_join_of_arrivals. Qed.
Print Assumptions C13_incremental_persisted.

Theorem C13_set_each_pair_once : forall st out st',
  wf st -> pend st = [] -> fusedst st -> runs_to (shj_m SetSem) st out st' ->
  (let '(h1, h2, _, _) := st in NoDup (rows (table h1)) /\ NoDup (rows (table h2))) ->
  NoDup out.
Proof. exact shj_set_nodup. Qed.
Print Assumptions C13_set_each_pair_once.

Theorem C13_terminates : forall s st, exists out st', runs_to (shj_m s) st out st'.
Proof. exact shj_terminates. Qed.
Print Assumptions C13_terminates.

Theorem C13_fuel_enough : forall s st, shj_loop s (shj_fuel st) st = Some (shj_pull s st).
Proof. exact shj_fuel_enough. Qed.
Print Assumptions C13_fuel_enough.

Theorem C13_new_tick_same_as_incremental : forall s l1 l2 out st',
  fused_b l1 = true -> fused_b l2 = true ->
  runs_to (shj_m s) (half0, half0, l1, l2) out st' ->
  let '(_, _, out_tick) := new_tick s half0 half0 l1 l2 in Permutation out out_tick.
Proof. exact new_tick_same_as_incremental. Qed.
Print Assumptions C13_new_tick_same_as_incremental.

(* p1 / p2 = true for 'static, false for 'tick; ref_ticks (Pull/CorrJoin.v) joins, per tick,
   built s (everything that arrived on that side since its state was last cleared) *)
Theorem C13_ticks : forall s p1 p2 ticks,
  Forall2 (@Permutation _) (run_ticks s p1 p2 half0 half0 ticks) (ref_ticks s p1 p2 [] [] ticks).
Proof. intros s p1 p2 ticks. apply run_ticks_ref; apply holds_empty. Qed.
Print Assumptions C13_ticks.

(* the executable form used by the check is sound for the statements above *)
Theorem C13_checker_sound : forall c o, C13_holds_b c o = true ->
  match c with
  | JInc s pre1 pre2 l1 l2 =>
      exists out, jemitted (o_trace o) = Some out /\
        Permutation (out ++ join_rows (built s pre1) (built s pre2))
                    (join_rows (built s (pre1 ++ items l1)) (built s (pre2 ++ items l2))) /\
        (s = SetSem -> NoDup out)
  | JTicks s p1 p2 ticks =>
      Forall2 (@Permutation _) (map fst (o_ticks o)) (ref_ticks s p1 p2 [] [] ticks)
  end.
Proof. exact C13_holds_b_sound. Qed.
Print Assumptions C13_checker_sound.

(* and complete: whatever the model computes (that reaches the end, over fused scripts) passes
   the executable form, so the property bit only fires on an output that differs from the model *)
Theorem C13_checker_complete : forall c n,
  match c with
  | JInc s pre1 pre2 l1 l2 =>
      fused_b l1 = true -> fused_b l2 = true ->
      jemitted (polls (shj_m s) n (jinit s pre1 pre2 l1 l2)) <> None ->
      C13_holds_b c (model_jobs c n) = true
  | JTicks _ _ _ _ => C13_holds_b c (model_jobs c n) = true
  end.
Proof. exact C13_model_holds. Qed.
Print Assumptions C13_checker_complete.

(* non-vacuity: duplicates on both sides, a Pend on each side; set vs multiset *)
Example C13_ex_set :
  option_map fst (run_fuel (shj_m SetSem) 40
    (half0, half0, [Rdy (1, 10); Pend; Rdy (1, 11); Rdy (1, 10)], [Pend; Rdy (1, 7); Rdy (1, 7)]))
  = Some [(1, (10, 7)); (1, (11, 7))].
Proof. vm_compute. reflexivity. Qed.

Example C13_ex_multi :
  option_map (fun r => length (fst r)) (run_fuel (shj_m MultiSem) 40
    (half0, half0, [Rdy (1, 10); Pend; Rdy (1, 11); Rdy (1, 10)], [Pend; Rdy (1, 7); Rdy (1, 7)]))
  = Some 6%nat.
Proof. vm_compute. reflexivity. Qed.

Example C13_ex_wf : wf (half0, half0, [Rdy (1, 10)], [Pend]) /\ pend (half0, half0, [Rdy (1, 10)], [Pend]) = [].
Proof. split; [split; constructor|reflexivity]. Qed.
