(* C13 Symmetric hash join emits exactly the join of everything that arrived.
   This file contains only the property theorems; each is closed by an exact/apply of a
   lemma proved in Pull/PJoin.v and followed by Print Assumptions. *)
From HV Require Import Pull.ModelJoin.
