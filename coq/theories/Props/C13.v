(* C13 Symmetric hash join emits exactly the join of everything that arrived.
   This file contains only the property theorems; each is closed by an exact/apply of a
   lemma proved in Pull/PJoin.v and followed by Print Assumptions.

   FULL STATEMENT (target):  for every pair of fused scripts l1, l2 of arrivals and Pending
   answers and either state semantics s, starting from empty states,
       runs_to (shj_m s) (half0, half0, l1, l2) out st'  ->
       Permutation out (join_rows (built s (items l1)) (built s (items l2)))
   (built = first occurrences for SetSem, everything for MultiSem; for SetSem also NoDup out),
   the new-tick path yields the same multiset, and over ticks with persisted states
   each tick's output is the join of everything that arrived within the persisted scope.

   PROVED HERE (hence the suffix _partial on the main theorem): the invariant
       emitted + pending matches + join(old tables) = pending before + join(new tables)
   for every single poll and every whole run, over all scripts; at the end nothing is pending,
   so   emitted + join(initial tables) = join(final tables)   -- each matching pair of table
   entries exactly once; the new-tick enumeration (both lhs_smaller branches) = join of the
   drained tables; what build/probe do to a table; for the multiset state the drained table
   holds exactly the initial rows plus the arrivals.
   MISSING: the characterisation "final tables of the incremental run = built s (arrivals)"
   (needs one more loop invariant: rows(table) ++ dedup'd remaining items is preserved) and,
   for SetSem, NoDup of the output.  Both are checked on every run on the implementation's
   outputs by C13_holds_b (Pull/CorrJoin.v), not proved. *)
From Coq Require Import Permutation.
From HV Require Import Pull.Model Pull.PCore Pull.ModelJoin Pull.PJoin.
Open Scope N_scope.

(* every poll of SymmetricHashJoin preserves the invariant, whatever the scripts answer *)
Theorem C13_poll_invariant : forall s st o st', wf st -> shj_pull s st = (o, st') ->
  wf st' /\ Permutation (emit o ++ pend st' ++ JS st) (pend st ++ JS st').
Proof. exact shj_pull_inv. Qed.
Print Assumptions C13_poll_invariant.

Theorem C13_run_invariant : forall s st out st', runs_to (shj_m s) st out st' -> wf st ->
  wf st' /\ Permutation (out ++ pend st' ++ JS st) (pend st ++ JS st').
Proof. exact shj_runs_inv. Qed.
Print Assumptions C13_run_invariant.

Theorem C13_nothing_pending_at_end : forall s st out st',
  runs_to (shj_m s) st out st' -> pend st' = [].
Proof. exact shj_runs_ended. Qed.
Print Assumptions C13_nothing_pending_at_end.

(* st = (lhs_state, rhs_state, lhs script, rhs script); JS = join of the two tables' rows *)
Theorem C13_incremental_partial : forall s st out st',
  wf st -> pend st = [] -> runs_to (shj_m s) st out st' ->
  Permutation (out ++ JS st) (JS st').
Proof. exact shj_emits_join. Qed.
Print Assumptions C13_incremental_partial.

Theorem C13_new_tick : forall s h1 h2 l1 l2, keys_ok (table h1) -> keys_ok (table h2) ->
  let '(h1', h2', out) := new_tick s h1 h2 l1 l2 in Permutation out (J h1' h2').
Proof. exact new_tick_emits_join. Qed.
Print Assumptions C13_new_tick.

Theorem C13_new_tick_lhs_smaller : forall h1 h2, keys_ok (table h2) -> new_tick_lhs h1 h2 = J h1 h2.
Proof. exact new_tick_lhs_join. Qed.
Print Assumptions C13_new_tick_lhs_smaller.

Theorem C13_new_tick_rhs_smaller : forall h1 h2, keys_ok (table h1) ->
  Permutation (new_tick_rhs h1 h2) (J h1 h2).
Proof. exact new_tick_rhs_join. Qed.
Print Assumptions C13_new_tick_rhs_smaller.

Theorem C13_build : forall s h k v h' b, build s h k v = (h', b) -> keys_ok (table h) ->
  cm h' = cm h /\ keys_ok (table h') /\
  (if b then Permutation (rows (table h')) (rows (table h) ++ [(k, v)]) /\ hlen h' = hlen h + 1
   else h' = h).
Proof. exact build_spec. Qed.
Print Assumptions C13_build.

Theorem C13_drain_multiset : forall l h,
  Permutation (rows (table (drain MultiSem h l))) (rows (table h) ++ items l).
Proof. exact drain_multi_rows. Qed.
Print Assumptions C13_drain_multiset.

(* non-vacuity: duplicates on both sides, a Pend on each side; set vs multiset *)
Example C13_ex_set :
  option_map fst (run_fuel (shj_m SetSem) 40
    (half0, half0, [Rdy (1, 10); Pend; Rdy (1, 11); Rdy (1, 10)], [Pend; Rdy (1, 7); Rdy (1, 7)]))
  = Some [(1, (10, 7)); (1, (11, 7))].
Proof. vm_compute. reflexivity. Qed.

Example C13_ex_multi :
  option_map (fun r => length (fst r)) (run_fuel (shj_m MultiSem) 40
    (half0, half0, [Rdy (1, 10); Pend; Rdy (1, 11); Rdy (1, 10)], [Pend; Rdy (1, 7); Rdy (1, 7)]))
  = Some 6%nat.
Proof. vm_compute. reflexivity. Qed.

Example C13_ex_wf : wf (half0, half0, [Rdy (1, 10)], [Pend]) /\ pend (half0, half0, [Rdy (1, 10)], [Pend]) = [].
Proof. split; [split; constructor|reflexivity]. Qed.
