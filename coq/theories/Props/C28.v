(* C28 Safe top-level Hydro code is eventually deterministic.
   Statement (properties.jsonl): for every Hydro program whose top-level operators use only safe
   APIs, the final contents of its outputs (multisets for unordered streams, sequences for totally
   ordered ones, final values for singletons, optionals and keyed singletons) are the same for
   every way the runtime splits the same inputs into ticks.

   Proved here for EVERY program of the modelled IR (Hydro/Model.v: [snode]/[anode], all
   closures, all inputs, all partitions into >= 1 tick); the IR is a subset of HydroNode
   (see checks/C28.json), hence the suffix _modelled_ir.  This file only restates theorems
   proved in Hydro/PTick.v. *)
From HV Require Import Hydro.Model Hydro.ModelFlows Hydro.PBase Hydro.PTick Hydro.PFlows Hydro.PNetwork.

(* MASTER THEOREM (single statement over the whole modelled top-level IR, proved by induction on
   the node tree in PTick.run_s_den / run_a_den with one TickInv lemma per operator as the cases;
   [flow_wf] is the model's kind judgement side conditions): two partitions of the same inputs
   give the same final contents *)
Theorem C28_partition_independent_modelled_ir :
  forall (f : flow) (bs1 bs2 : list env), flow_wf f -> bs1 <> [] -> bs2 <> [] ->
    (forall i, flat bs1 i = flat bs2 i) ->
    equiv (flow_exact f) (flow_final f (flow_run f bs1)) (flow_final f (flow_run f bs2)).
Proof. exact C28_proved. Qed.
Print Assumptions C28_partition_independent_modelled_ir.

(* ... namely the whole-stream denotation of the program *)
Theorem C28_final_is_denotation_modelled_ir :
  forall (f : flow) (bs : list env), flow_wf f -> bs <> [] ->
    equiv (flow_exact f) (flow_final f (flow_run f bs)) (flow_den f (flat bs)).
Proof. exact flow_den_final. Qed.
Print Assumptions C28_final_is_denotation_modelled_ir.

(* the join fragment on its own: join_multiset<'static,'static> -> multiset_delta *)
Theorem C28_join_delta_tickinv :
  forall m xss yss, length xss = length yss ->
    Permutation (concat (static_pairs m xss yss)) (pairs_with m (concat xss) (concat yss)).
Proof. exact static_pairs_tickinv. Qed.
Print Assumptions C28_join_delta_tickinv.

(* Stream::join with a Bounded right side (HydroNode::JoinHalf): join_multiset_half<'static,'tick>,
   no multiset_delta.  Sound because the build side is complete in the first tick (its input is
   empty afterwards): every probe item meets the whole build side exactly once, in probe order *)
Theorem C28_join_half_tickinv :
  forall m xss R (bs : list env), length xss = length bs -> bs <> [] ->
    concat (op_run LStatic ([], []) (pair_step m LTick LStatic)
              (combine xss (R :: map (fun _ => []) (tl bs))))
    = pairs_with m (concat xss) R.
Proof. exact half_tickinv. Qed.
Print Assumptions C28_join_half_tickinv.

(* the generator fragment (limit / first at top level): scan::<'static> + flat_map *)
Theorem C28_generator_tickinv :
  forall init f xss,
    concat (op_run LStatic GInit (run_items (gen_istep init f)) xss) = gen_list f init (concat xss).
Proof. exact gen_tickinv. Qed.
Print Assumptions C28_generator_tickinv.

(* HydroNode::Network as an ordered, lossless one-to-one link (arbitrary delay and re-batching):
   a two-location program is invariant under the sender's tick partition, the link's delivery
   schedule and the receiver's tick partition *)
Theorem C28_network_o2o_deterministic : forall (s r : snode) bsA bsA' bsB bsB' port,
  wf_s s -> wf_s r -> ord s = true -> bsA <> [] -> bsA' <> [] -> bsB <> [] -> bsB' <> [] ->
  (forall i, flat bsA i = flat bsA' i) ->
  (forall i, i <> port -> flat bsB i = flat bsB' i) ->
  fifo_delivered s bsA bsB port -> fifo_delivered s bsA' bsB' port ->
  equiv (ord r) (concat (run_s r bsB)) (concat (run_s r bsB')).
Proof. exact network_o2o_deterministic. Qed.
Print Assumptions C28_network_o2o_deterministic.

(* the executable predicate evaluated on the implementation's outputs is the conclusion *)
Theorem C28_holds_b_correct :
  forall f bs impl,
    C28_holds_b f bs impl = true <-> equiv (flow_exact f) (flow_final f impl) (flow_den f (flat bs)).
Proof. exact C28_holds_b_spec. Qed.
Print Assumptions C28_holds_b_correct.

(* the run-time terms translated from the builder's IR dump: their side conditions are decided by
   an executable check (evaluated on every run for every translated flow), which is sound *)
Theorem C28_translated_terms_wf_check_sound : forall f, wf_rb f = true -> flow_wf (rinterp f).
Proof. exact wf_rb_sound. Qed.
Print Assumptions C28_translated_terms_wf_check_sound.

(* non-vacuity: every corpus flow that the harness runs satisfies the hypotheses *)
Example C28_corpus_wf : Forall flow_wf corpus.
Proof. exact corpus_wf. Qed.

Example C28_two_partitions :
  let t1 := [mkenv [[VN 1; VN 2; VN 1]]] in
  let t2 := [mkenv [[VN 1]]; mkenv [[]]; mkenv [[VN 2; VN 1]]] in
  flow_run f_unique t1 <> flow_run f_unique t2 /\
  flow_final f_unique (flow_run f_unique t1) = flow_final f_unique (flow_run f_unique t2).
Proof. split; [discriminate | reflexivity]. Qed.
