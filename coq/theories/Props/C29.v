(* C29 Ordered and keyed streams keep their promised order.
   Statement: whenever a Hydro stream is typed totally ordered, its elements are emitted in the
   order its semantics defines, and for keyed streams each key's elements keep their per-key
   order and per-key results depend only on that key's subsequence, for every tick partition and
   every interleaving of different keys.
   Proved for the modelled IR (subset of HydroNode, see checks/C29.json). *)
From HV Require Import Hydro.Model Hydro.ModelTick Hydro.ModelFlows Hydro.PBase Hydro.PTick Hydro.PFlows Hydro.PRepair Hydro.PSort.

(* TotalOrder nodes: sequence equality with the denotation, for every partition into ticks *)
Theorem C29_total_order_modelled_ir :
  forall n bs, wf_s n -> bs <> [] -> ord n = true -> concat (run_s n bs) = den_s n (flat bs).
Proof. exact C29_total_order. Qed.
Print Assumptions C29_total_order_modelled_ir.

(* enumerate on a top-level OR Atomic-located stream (across_ticks, atomic()..end_atomic(),
   all_ticks_atomic): emitted as enumerate::<'static> ([lifetime_of LocAtomic = LStatic]), so the
   numbering continues across tick boundaries: sequence equality for every partition *)
Theorem C29_enumerate_static_tickinv : forall xss,
  lifetime_of LocAtomic = LStatic /\
  concat (op_run (lifetime_of LocAtomic) 0%N (run_items enum_istep) xss) = enum_from 0 (concat xss).
Proof. intros. split; [reflexivity | apply enumerate_tickinv]. Qed.
Print Assumptions C29_enumerate_static_tickinv.

(* ... whereas a 'tick enumerate restarts at every tick: the two differ as soon as the input is
   split over two non-empty ticks *)
Example C29_enumerate_tick_would_restart :
  concat (op_run LTick 0%N (run_items enum_istep) [[VN 7]; [VN 8; VN 9]]) <> enum_from 0 [VN 7; VN 8; VN 9].
Proof. vm_compute. discriminate. Qed.

(* keyed aggregation (fold_keyed / reduce_keyed): the value of key k is the fold of k's
   subsequence [proj k] of the input, None iff k never occurs *)
Theorem C29_keyed_fold_per_key :
  forall init acc k l, klookup k (kfold_list init acc l) = kfold_spec init acc k l None.
Proof. exact kfold_lookup. Qed.
Print Assumptions C29_keyed_fold_per_key.

Theorem C29_keyed_reduce_per_key :
  forall f k l, klookup k (kreduce_list f l) = kreduce_spec f k l None.
Proof. exact kreduce_lookup. Qed.
Print Assumptions C29_keyed_reduce_per_key.

(* proj_interleave: any two cross-key interleavings of the same per-key sequences *)
Theorem C29_interleaving_invariant_fold :
  forall init acc l1 l2, (forall k, proj k l1 = proj k l2) ->
    forall k, klookup k (kfold_list init acc l1) = klookup k (kfold_list init acc l2).
Proof. exact proj_interleave_fold. Qed.
Print Assumptions C29_interleaving_invariant_fold.

Theorem C29_interleaving_invariant_reduce :
  forall f l1 l2, (forall k, proj k l1 = proj k l2) ->
    forall k, klookup k (kreduce_list f l1) = klookup k (kreduce_list f l2).
Proof. exact proj_interleave_reduce. Qed.
Print Assumptions C29_interleaving_invariant_reduce.

(* ... and the emitted keyed folds reach exactly that state under every tick partition *)
Theorem C29_keyed_tick_partition_modelled_ir :
  forall a bs, wf_a a -> bs <> [] ->
    equiv (aexact a) (last (run_a a bs) []) (den_a a (flat bs)).
Proof. exact run_a_den. Qed.
Print Assumptions C29_keyed_tick_partition_modelled_ir.

(* per-key subsequences are cut by ticks, never reordered *)
Theorem C29_proj_concat : forall k xss, proj k (concat xss) = concat (map (proj k) xss).
Proof. exact proj_concat. Qed.
Print Assumptions C29_proj_concat.

Example C29_interleavings_differ_but_agree :
  let l1 := [VP (VN 1) (VN 5); VP (VN 2) (VN 7); VP (VN 1) (VN 6)] in
  let l2 := [VP (VN 2) (VN 7); VP (VN 1) (VN 5); VP (VN 1) (VN 6)] in
  l1 <> l2 /\ (forall k, proj k l1 = proj k l2).
Proof.
  split; [discriminate|]. intros k.
  destruct (val_eq_dec k (VN 1)) as [->|n1]; [vm_compute; reflexivity|].
  destruct (val_eq_dec k (VN 2)) as [->|n2]; [vm_compute; reflexivity|].
  assert (E : forall a, a <> k -> veqb a k = false)
    by (intros a H; unfold veqb; destruct (val_eq_dec a k); congruence).
  unfold proj. cbn [filter vfst]. rewrite !E by congruence. reflexivity.
Qed.

(* FIXED in /repo by 62bf4bf2be4.  Former finding (key join/bounded-right-noorder/typed-total-order):
   `Stream::join` / `cross_product` with a Bounded right side of ordering NoOrder typed the result
   with the LEFT ordering (`B2::PreserveOrderIfBounded<O>` ignored the right ordering O2), although
   join_multiset_half emits the matches of one left item in the arrival order of the right side.
   Former theorem C29_join_bounded_unordered_side_refuted, witness
     l = [(1,0)], r = [(1,5);(1,6)], r' = [(1,6);(1,5)]  (Permutation r r'), typed TotalOrder, and
     brun t_join_half_unord [l; r] = [[(1,(0,5)); (1,(0,6))]] <> [[(1,(0,6)); (1,(0,5))]] = brun .. [l; r'].
   The witness is kept as corpus/C29/join_half_unord.json; with the fixed typing the flow is typed
   NoOrder and the two runs are equal as multisets (Example below).  The former typing is kept as
   [bord_before_fix] only to state what changed. *)
Example C29_former_witness_now_unordered :
  let l := [VP (VN 1) (VN 0)] in
  let r := [VP (VN 1) (VN 5); VP (VN 1) (VN 6)] in
  let r' := [VP (VN 1) (VN 6); VP (VN 1) (VN 5)] in
  bord_before_fix t_join_half_unord = true /\ bord t_join_half_unord = false /\
  concat (brun t_join_half_unord [mkenv [l; r]]) <> concat (brun t_join_half_unord [mkenv [l; r']]) /\
  Permutation (concat (brun t_join_half_unord [mkenv [l; r]])) (concat (brun t_join_half_unord [mkenv [l; r']])).
Proof.
  repeat split; try reflexivity.
  - vm_compute. discriminate.
  - vm_compute. apply perm_swap.
Qed.

(* MAIN statement for tick programs with NoOrder-cast streams ([bord]: a join / cross product is
   ordered only if both sides are -- the typing since the fix): every
   tick program whose order-sensitive operators get ordered inputs ([bwf], what the IsOrdered /
   commutativity bounds of the API demand) is deterministic up to its type under ANY two arrival
   orders of its NoOrder-cast streams: equal sequences where typed TotalOrder, equal multisets
   otherwise, in every tick of every history. *)
Theorem C29_repaired_typing_oracle_independent : forall n, bwf n ->
  forall sigma sigma', perm_oracle sigma -> perm_oracle sigma' ->
  forall bs, Forall2 (equiv (bord n)) (bspec_o sigma n bs) (bspec_o sigma' n bs).
Proof. exact bspec_oracle_independent. Qed.
Print Assumptions C29_repaired_typing_oracle_independent.

(* sort() turns any arrival order into one sequence (so BSort needs no ordered input above) *)
Theorem C29_sort_order_independent : forall a b, Permutation a b -> vsort a = vsort b.
Proof. exact vsort_perm. Qed.
Print Assumptions C29_sort_order_independent.

(* the former finding's flow is typed NoOrder and satisfies the hypotheses *)
Example C29_repaired_typing_on_witness : bord t_join_half_unord = false /\ bwf t_join_half_unord.
Proof. repeat split. Qed.

Example C29_oracle_rev_is_perm : perm_oracle (@rev val).
Proof. intros l. symmetry. apply Permutation_rev. Qed.
