(* C32 Library-internal order and retry assumptions are justified.
   Statement: built-in operators that internally assume an ordering or exactly-once delivery
   without exposing non-determinism (max, min, count, first, last, is_empty, keyed value counts,
   repeat_with_keys, keyed singleton accessors, ordering/retry weakening, ...) produce the same
   results for every input order and duplication that their input type permits.

   One theorem per `assume_ordering_trusted` / `assume_retries_trusted` call site whose
   justification is proved (the list of call sites is regenerated from the source on every run and
   compared with tools/hydro.py TRUSTED_TABLE).  The four sites that rest on the keyed-singleton
   invariant "entries have pairwise distinct keys" (repeat_with_keys, into_singleton x2,
   get_max_key) are proved under that invariant, and the invariant is proved for the producers
   (the states of the emitted keyed fold / keyed reduce).  Duplication model: see PTrusted.v. *)
From HV Require Import Hydro.Model Hydro.ModelTick Hydro.ModelFlows Hydro.PBase Hydro.PTick Hydro.PTrusted.

(* Stream::max / min (retries + ordering_bounded sites): only the set of elements matters *)
Theorem C32_max : forall l l',
  (forall x, In x l <-> In x l') -> reduce_list c_max l = reduce_list c_max l'.
Proof. exact max_set_invariant. Qed.
Print Assumptions C32_max.

Theorem C32_min : forall l l',
  (forall x, In x l <-> In x l') -> reduce_list c_min l = reduce_list c_min l'.
Proof. exact min_set_invariant. Qed.
Print Assumptions C32_min.

(* for every Rust Ord (irreflexive, transitive, total strict order) *)
Theorem C32_extremum_any_ord : forall gt : val -> val -> bool,
  (forall a, gt a a = false) ->
  (forall a b c, gt a b = true -> gt b c = true -> gt a c = true) ->
  forall D : val -> Prop,
  (forall a b, D a -> D b -> a = b \/ gt a b = true \/ gt b a = true) ->
  forall l l', (forall x, In x l -> D x) ->
  (forall x, In x l <-> In x l') -> reduce_list (pick gt) l = reduce_list (pick gt) l'.
Proof. exact extremum_set_invariant. Qed.
Print Assumptions C32_extremum_any_ord.

(* Stream::count (ordering site) *)
Theorem C32_count : forall l l', Permutation l l' ->
  fold_left c_count l (VN 0) = fold_left c_count l' (VN 0).
Proof. exact count_perm. Qed.
Print Assumptions C32_count.

(* Stream::first / last (retries sites; the stream is TotalOrder, duplicates stutter) *)
Theorem C32_first : forall l l', stutter l l' -> first_fun l = first_fun l'.
Proof. exact first_stutter. Qed.
Print Assumptions C32_first.

Theorem C32_last : forall l l', stutter l l' -> last_fun l = last_fun l'.
Proof. exact last_stutter. Qed.
Print Assumptions C32_last.

(* Stream::is_empty (ordering site) *)
Theorem C32_is_empty : forall l l', Permutation l l' -> u_is_empty_fun l = u_is_empty_fun l'.
Proof. exact is_empty_perm. Qed.
Print Assumptions C32_is_empty.

(* KeyedStream::value_counts (ordering site) *)
Theorem C32_value_counts : forall l l', Permutation l l' -> forall k,
  klookup k (kfold_list (VN 0) c_count l) = klookup k (kfold_list (VN 0) c_count l').
Proof. exact value_counts_perm. Qed.
Print Assumptions C32_value_counts.

(* weaken_ordering / weaken_retries (stream and keyed stream) *)
Theorem C32_weaken : forall a b, equiv true a b -> equiv false a b.
Proof. exact weaken_sound. Qed.
Print Assumptions C32_weaken.

(* the keyed-singleton invariant holds for what fold_keyed / reduce_keyed emit *)
Theorem C32_keyed_singleton_invariant_fold : forall init acc l,
  keys_distinct (kentries (kfold_list init acc l)).
Proof. exact kfold_keys_distinct. Qed.
Print Assumptions C32_keyed_singleton_invariant_fold.

Theorem C32_keyed_singleton_invariant_reduce : forall f l, keys_distinct (kentries (kreduce_list f l)).
Proof. exact kreduce_keys_distinct. Qed.
Print Assumptions C32_keyed_singleton_invariant_reduce.

(* KeyedSingleton::into_singleton / into_singleton_inside_tick (ordering sites) *)
Theorem C32_into_singleton : forall es es',
  keys_distinct es -> Permutation es es' -> map_eq (into_map es) (into_map es').
Proof. exact into_singleton_order_independent. Qed.
Print Assumptions C32_into_singleton.

(* KeyedSingleton::get_max_key (ordering site) *)
Theorem C32_get_max_key : forall es es',
  keys_distinct es -> Permutation es es' -> reduce_list c_maxkey es = reduce_list c_maxkey es'.
Proof. exact get_max_key_order_independent. Qed.
Print Assumptions C32_get_max_key.

(* Stream::repeat_with_keys (ordering site on the keys) *)
Theorem C32_repeat_with_keys : forall ks ks' items,
  NoDup ks -> Permutation ks ks' -> forall k, proj k (nested ks items) = proj k (nested ks' items).
Proof. exact repeat_with_keys_order_independent. Qed.
Print Assumptions C32_repeat_with_keys.

(* without the invariant the into_singleton closure is NOT order independent *)
Example C32_into_singleton_needs_distinct_keys :
  klookup (VN 1) (into_map [VP (VN 1) (VN 5); VP (VN 1) (VN 6)]) <>
  klookup (VN 1) (into_map [VP (VN 1) (VN 6); VP (VN 1) (VN 5)]).
Proof. vm_compute. discriminate. Qed.

(* `last` is NOT invariant under arbitrary re-delivery of an older element: the retries
   assumption of Stream::last is justified only for in-place (stuttering) duplicates *)
Example C32_last_needs_stutter :
  last_fun [VN 1; VN 2] <> last_fun [VN 1; VN 2; VN 1] /\ stutter [VN 1; VN 2] [VN 1; VN 1; VN 2].
Proof. split; [discriminate|]. apply st_dup. apply st_keep. apply st_keep. apply st_nil. Qed.

Example C32_max_nontrivial :
  reduce_list c_max [VN 3; VN 7; VN 3] = reduce_list c_max [VN 7; VN 3] /\
  reduce_list c_max [VN 7; VN 3] = Some (VN 7).
Proof. split; reflexivity. Qed.
